import BridgeVerif.Translated.ThreadsClientBLemmasE
/-! Translated `ClientThread.playing_phase`: the model's `clientPlayingR` one turn at a time, the "… to lead" statement
against `clientLeadR`, the loop `while not env.has_done()` -/
set_option maxRecDepth 4000
namespace Bridge.Translated.ClientB
open Bridge Bridge.Py Bridge.Generated.PyCore Bridge.Translated Bridge.Translated.ClientA

/-- the "… to lead" message of one turn of `clientPlayingR` -/
def clientLeadR (p declarer : Seat) (o : Observed) (i : ClientIn) : Option (ClientActs × ClientIn) :=
  if (o.base.active = p ∧ p ≠ declarer.partner) ∨ (o.base.active = declarer.partner ∧ p = declarer) then do
    let (m, i) ← i.recv
    let leader ← parseLeader? m declarer.partner
    if leader = o.base.active then pure ([Act.recv (.s2c p)], i) else none
  else pure ([], i)

theorem clientPlayingR_succ (p declarer : Seat) (fuel : Nat) (o : Observed) (opened : Bool) (i : ClientIn) :
    clientPlayingR p declarer (fuel+1) o opened i =
      if o.base.hasDone then some ([], o, i) else (do
        let (acts0, i1) ← clientLeadR p declarer o i
        let (t, o2, opened2, i2) ← clientTrickR p declarer 4 o opened i1
        let (rest, o3, i3) ← clientPlayingR p declarer fuel o2 opened2 i2
        pure (acts0 ++ t ++ rest, o3, i3)) := by
  rw [clientPlayingR]
  unfold clientLeadR
  cases hd : o.base.hasDone with
  | true => rfl
  | false =>
    simp only [Bool.false_eq_true, if_false]
    by_cases hc : (o.base.active = p ∧ p ≠ declarer.partner) ∨ (o.base.active = declarer.partner ∧ p = declarer)
    · simp only [if_pos hc]
      cases hr : i.recv with
      | none => rfl
      | some x =>
        simp only [Option.bind_eq_bind, Option.bind_some]
        cases hl : parseLeader? x.1 declarer.partner with
        | none => rfl
        | some l =>
          simp only [Option.bind_some]
          by_cases hla : l = o.base.active
          · simp only [if_pos hla]
          · simp only [if_neg hla]
    · simp only [if_neg hc]

/-- the first statement of the outer loop's body is `clientLeadR` -/
theorem cb_lead_step (p decl : Seat) (c : Contract) (o : Observed) (opened : Bool) (i i1 : ClientIn)
    (acts : ClientActs) (N : Nat) (h : clientLeadR p decl o i = some (acts, i1)) (hp : PlayParses N i)
    (bids plays out : List Val) (team : Str) (opp : Val) (extra : List (Id × Val)) (rest : Env) (f : Nat)
    (hf : N + 71 ≤ f) :
    ∃ ops rest', encClientActs p acts = some ops ∧ erasePlays ops = ops ∧ PlayParses N i1 ∧ i1.cards = i.cards ∧
      execStmtF (mkRec P f) P (penv (cself p i.s bids plays out team opp extra) c decl o opened rest) cpLead
        = .ok (penv (cself p i1.s bids plays (out ++ ops) team opp extra) c decl o opened rest', .next) := by
  obtain ⟨f0, rfl⟩ : ∃ f0, f = f0 + 70 := ⟨f - 70, by omega⟩
  unfold clientLeadR at h
  by_cases hc : (o.base.active = p ∧ p ≠ decl.partner) ∨ (o.base.active = decl.partner ∧ p = decl)
  · rw [if_pos hc] at h
    obtain ⟨st, calls, cards⟩ := i
    cases st with
    | nil => simp [ClientIn.recv] at h
    | cons m st =>
      simp only [ClientIn.recv, Option.bind_eq_bind, Option.bind_some] at h
      cases hl : parseLeader? m decl.partner with
      | none => simp [hl] at h
      | some l =>
        simp only [hl, Option.bind_some] at h
        by_cases hla : l = o.base.active
        · rw [if_pos hla] at h
          simp only [Option.pure_def, Option.some.injEq, Prod.mk.injEq] at h
          obtain ⟨rfl, rfl⟩ := h
          subst hla
          obtain ⟨s0, hplF⟩ := (hp.leader m (List.mem_cons_self ..) _ _ hl).callF
          obtain ⟨rest', hx⟩ := cb_lead_recv f0 p decl c o opened hc m s0 (fun g => hplF _ (by omega)) st bids plays out
            team opp extra rest
          exact ⟨_, rest', by simp [encClientActs, encClientAct], by simp [erasePlays, cb_recv_beq], hp.tail_s _, rfl,
            hx⟩
        · rw [if_neg hla] at h; cases h
  · rw [if_neg hc] at h
    simp only [Option.pure_def, Option.some.injEq, Prod.mk.injEq] at h
    obtain ⟨rfl, rfl⟩ := h
    have h1 : ¬ (o.base.active = p ∧ p ≠ decl.partner) := fun hh => hc (Or.inl hh)
    have h2 : ¬ (o.base.active = decl.partner ∧ p = decl) := fun hh => hc (Or.inr hh)
    exact ⟨[], rest, rfl, rfl, hp, rfl, by
      simpa using cb_lead_skip f0 p decl c o opened h1 h2 i.s bids plays out team opp extra rest⟩

/-- the loop condition `not env.has_done()` -/
theorem cb_cond (g : Nat) (self : Val) (c : Contract) (decl : Seat) (o : Observed) (opened : Bool) (rest : Env) :
    (mkRec P (g+14)).eval (penv self c decl o opened rest) cpCond = .ok (.bool (!o.base.hasDone)) := by
  simp only [cpCond, m_ClientThread_playing_phase, List.getD_cons_succ, List.getD_cons_zero, penv]
  cbsimp []

end Bridge.Translated.ClientB
