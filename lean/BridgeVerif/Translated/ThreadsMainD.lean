import BridgeVerif.Translated.ThreadsMainC
import BridgeVerif.Translated.ThreadsMainDLemmasC
import BridgeVerif.Translated.ThreadsSeatD
import BridgeVerif.Props.C08
import BridgeVerif.Props.C09
/-!
# The CAPSTONE for the main thread: the TRANSLATED `MainThread.run` performs EXACTLY the session program, and writes
the session's log

`MainC.main_run_translated` (the generated `m_MainThread_run` in the whole translated program `P` = admission +
`mainReactive`) composed with `C08.main_thread_follows_the_messages` (`mainReactive` on the session's streams =
`sessionProg sc .main`).

* (1) `translated_main_thread_is_session_program`;
* (2) `translated_main_thread_writes_the_session_log` — the `emit` operations are the rendering of `emitsOf`;
* (3) `session_boards_parse` — the parse package `BoardsParse` of the session's streams holds when the texts are texts of
  the protocol (`ProtocolTexts`); `translated_main_thread_is_session_program_protocol` = (1) + (2) without it.
  Helper files: Translated/ThreadsMainDLemmasA.lean (the finite families, evaluated by the kernel),
  ThreadsMainDLemmasB.lean (`BoardsParse` from a memberwise property of the streams), ThreadsMainDLemmasC.lean (the
  streams of a session consist of the decisions' texts).
-/
set_option maxRecDepth 4000
namespace Bridge.Translated.MainD
open Bridge Bridge.Py Bridge.Generated.PyCore
open Bridge.Translated.MainA Bridge.Translated.MainB Bridge.Translated.SeatB
open Bridge.Translated.MainC
open Bridge.Admission

/-- (1) THE CAPSTONE.  A scenario `sc` with at least one board whose decisions are conforming and whose texts mean what was
decided (the hypotheses of `C08.main_thread_follows_the_messages`); the four queues `t2m p` deliver EXACTLY what the
session model's seat threads forward (`sendsOn (Chan.t2m p) (sessionProg sc (.seat p))`); the translated parsers read
these texts as the model does (`BoardsParse`, discharged for protocol texts by `session_boards_parse`); the cards of the
deals have ranks 2..14; the admission model fills the table with the scenario's team names and the world answers the
accept loop accordingly (the hypotheses of `MainC.main_run_translated`).  Then the generated `MainThread.run` returns
`None` and the world has recorded `bind`, `listen`, the accept rounds, `opsS`, and one `join` per thread alive, where
`opsS` without its `sleep`s IS the rendering of the session program `sessionProg sc .main` — every `emit write` carrying
`encRecord` of the record the session model writes. -/
theorem translated_main_thread_is_session_program (sc : Scenario) (h : sc.boards ≠ [])
    (hc : ∀ bd ∈ sc.boards, ConformingAuction bd.1 bd.2 ∧ ConformingPlay bd.1 bd.2 ∧ TextsConform bd.1 bd.2)
    (F : Nat)
    (hparse : BoardsParse sc F 1 (sc.boards.map (·.1)) (fun p => sendsOn (Chan.t2m p) (sessionProg sc (.seat p))))
    (hok : ∀ b ∈ sc.boards.map (·.1), ∀ p, ∀ c ∈ b.deal p, 2 ≤ c.rank ∧ c.rank ≤ 14)
    (reqs : List (List Char × List Char)) (opss : List (List Op)) (mops : List MainOp) (tf : Table) (conns : List Conn)
    (hacc : acceptLoopR Table.empty reqs = some (opss, mops, tf)) (hfull : tf.full = true)
    (hlen : conns.length = opss.length)
    (hN : tf .N = some sc.nsName) (hS : tf .S = some sc.nsName) (hE : tf .E = some sc.ewName) (hW : tf .W = some sc.ewName)
    (table0 : Val) (later accR ntR alR : List Val) (rest : List (Val × Val)) :
    ∃ opsS i', encMainActs encRecord (sessionProg sc .main) = some (stripSleep opsS) ∧
      mops = (conns.map fun _ => acceptRound).flatten ∧
      ∀ f, F + conns.length + 800 ≤ f →
        callFn P f m_MainThread_run [encMainThread (encMainWorld
            (fun p => sendsOn (Chan.t2m p) (sessionProg sc (.seat p))) [] table0
            ((acceptSnapshots Table.empty reqs).map encTable ++ later)
            (acceptMore (conns.map (fun c => .tuple [c.conn, c.addr]) ++ accR) (conns.map (·.thread) ++ ntR)
              (conns.map (fun c => .bool c.alive) ++ alR) rest)) (.tuple ((sc.boards.map (·.1)).map encBoardSetting))]
          = .ok (.none, encMainThread (encMainWorld i'
              ([opBind, opListen] ++ (conns.flatMap fun c => roundOps c.conn c.thread) ++ opsS ++
                ((conns.filter (·.alive)).map (·.thread)).map opJoin)
              (advBoards sc.boards.length (advTable (encTable tf) later).1 (advTable (encTable tf) later).2).1
              (advBoards sc.boards.length (advTable (encTable tf) later).1 (advTable (encTable tf) later).2).2
              (acceptMore accR ntR alR rest)) (.tuple ((sc.boards.map (·.1)).map encBoardSetting))) := by
  have hm := C08.main_thread_follows_the_messages sc h hc
  have hne : sc.boards.map (·.1) ≠ [] := by
    intro e; exact h (List.map_eq_nil_iff.1 e)
  obtain ⟨opsS, i', hops, hmops, hrun⟩ := main_run_translated sc F (sc.boards.map (·.1)) hne _ _ hm hparse hok reqs opss
    mops tf conns hacc hfull hlen hN hS hE hW table0 later accR ntR alR rest
  rw [List.length_map] at hrun
  exact ⟨opsS, i', hops, hmops, hrun⟩

/-! ## (2) the log -/

/-- the tag of the log writer's operations -/
def emitTag : List Char := ['e', 'm', 'i', 't']
theorem vstr_emit : vstr "emit" = .str emitTag := rfl

/-- a world operation of the log writer: a tuple whose first component is the text `emit` -/
def isEmitOp : Val → Bool
  | .tuple (.str s :: _) => s == emitTag
  | _ => false

/-- a log operation as the world records it: `("emit", "open", None)`, `("emit", "write", <record>)`,
`("emit", "close", None)` -/
def encLogOp (encRec : BoardRecord → Val) : LogOp → Val
  | .open => .tuple [vstr "emit", vstr "open", .none]
  | .close => .tuple [vstr "emit", vstr "close", .none]
  | .write r => .tuple [vstr "emit", vstr "write", encRec r]

theorem isEmitOp_tuple_str (s : List Char) (l : List Val) : isEmitOp (.tuple (.str s :: l)) = (s == emitTag) := rfl

theorem emitsOf_cons (a : SAct Text LogOp) (r : List (SAct Text LogOp)) : emitsOf (a :: r) = emitsOf [a] ++ emitsOf r := by
  cases a <;> rfl

/-- one action: the emit operations among its rendering are the rendering of what it emits -/
theorem encMainAct_emits (encRec : BoardRecord → Val) (a : SAct Text LogOp) (x : List Val)
    (h : encMainAct encRec a = some x) : x.filter isEmitOp = (emitsOf [a]).map (encLogOp encRec) := by
  cases a with
  | send ch m =>
    cases ch <;> simp only [encMainAct, Option.some.injEq, reduceCtorEq] at h
    subst h; rfl
  | recv ch =>
    cases ch <;> simp only [encMainAct, Option.some.injEq, reduceCtorEq] at h
    subst h; rfl
  | emit o =>
    cases o <;> simp only [encMainAct, Option.some.injEq] at h <;> subst h <;> rfl
  | arrive => simp only [encMainAct, Option.some.injEq] at h; subst h; rfl
  | depart => simp only [encMainAct, Option.some.injEq] at h; subst h; rfl

/-- a program: the emit operations among its rendering are the rendering of `emitsOf` -/
theorem encMainActs_emits (encRec : BoardRecord → Val) (acts : List (SAct Text LogOp)) (ops : List Val)
    (h : encMainActs encRec acts = some ops) : ops.filter isEmitOp = (emitsOf acts).map (encLogOp encRec) := by
  induction acts generalizing ops with
  | nil => simp only [encMainActs, Option.some.injEq] at h; subst h; rfl
  | cons a r ih =>
    simp only [encMainActs, Option.bind_eq_bind, Option.pure_def] at h
    cases hx : encMainAct encRec a with
    | none => simp [hx] at h
    | some vx =>
      cases hr : encMainActs encRec r with
      | none => simp [hx, hr] at h
      | some vr =>
        simp only [hx, hr, Option.bind_some, Option.some.injEq] at h
        subst h
        rw [List.filter_append, encMainAct_emits encRec a vx hx, ih vr hr, emitsOf_cons a r, List.map_append]

/-- a `sleep` is not an operation of the log writer -/
theorem isEmitOp_not_sleep (v : Val) (h : isEmitOp v = true) : (!v.beq opSleep) = true := by
  unfold isEmitOp at h
  split at h
  · next s l =>
    have hs : s = emitTag := by simpa using h
    subst hs
    simp [opSleep, vstr, Val.beq, beqL, emitTag]
  · cases h

theorem filter_emit_stripSleep (l : List Val) : (stripSleep l).filter isEmitOp = l.filter isEmitOp := by
  unfold stripSleep
  rw [List.filter_filter]
  apply List.filter_congr
  intro v _
  cases hv : isEmitOp v with
  | false => rfl
  | true => rw [isEmitOp_not_sleep v hv]; rfl


theorem filter_emit_roundOps (conns : List Conn) :
    (conns.flatMap fun c => roundOps c.conn c.thread).filter isEmitOp = [] := by
  induction conns with
  | nil => rfl
  | cons c r ih =>
    rw [List.flatMap_cons, List.filter_append, ih]; rfl

theorem filter_emit_joins (l : List Val) : (l.map opJoin).filter isEmitOp = [] := by
  induction l with
  | nil => rfl
  | cons c r ih => rw [List.map_cons, List.filter_cons, ih]; rfl

/-- the log the session model's main thread writes, as the world records it: `open`, one `write` per board carrying
`encRecord` of the record `recordOf` of the board, `close` -/
def sessionLogOps (sc : Scenario) : List Val :=
  encLogOp encRecord .open :: (sc.boards.map fun bd => encLogOp encRecord (.write (recordOf sc bd.1 bd.2))) ++
    [encLogOp encRecord .close]

theorem sessionLogOps_eq (sc : Scenario) (h : sc.boards ≠ []) :
    (emitsOf (sessionProg sc .main)).map (encLogOp encRecord) = sessionLogOps sc := by
  rw [C09.log_is_opened_written_closed sc h]
  simp only [sessionLogOps, List.map_cons, List.map_append, List.map_map, List.map_nil]
  rfl

/-- (2) THE LOG.  Under the hypotheses of (1): the operations of the log writer (`isEmitOp`: tuples tagged `emit`) among
`opsS` — and among ALL the operations `out` the world has recorded — are, in order, the rendering of
`emitsOf (sessionProg sc .main)`, i.e. (`C09.log_is_opened_written_closed`) `open`, one `write (encRecord (recordOf sc b d))`
per board, `close` (`sessionLogOps`).  The record `recordOf` is what the rules say: `C08.record_follows_rules`. -/
theorem translated_main_thread_writes_the_session_log (sc : Scenario) (h : sc.boards ≠ [])
    (hc : ∀ bd ∈ sc.boards, ConformingAuction bd.1 bd.2 ∧ ConformingPlay bd.1 bd.2 ∧ TextsConform bd.1 bd.2)
    (F : Nat)
    (hparse : BoardsParse sc F 1 (sc.boards.map (·.1)) (fun p => sendsOn (Chan.t2m p) (sessionProg sc (.seat p))))
    (hok : ∀ b ∈ sc.boards.map (·.1), ∀ p, ∀ c ∈ b.deal p, 2 ≤ c.rank ∧ c.rank ≤ 14)
    (reqs : List (List Char × List Char)) (opss : List (List Op)) (mops : List MainOp) (tf : Table) (conns : List Conn)
    (hacc : acceptLoopR Table.empty reqs = some (opss, mops, tf)) (hfull : tf.full = true)
    (hlen : conns.length = opss.length)
    (hN : tf .N = some sc.nsName) (hS : tf .S = some sc.nsName) (hE : tf .E = some sc.ewName) (hW : tf .W = some sc.ewName)
    (table0 : Val) (later accR ntR alR : List Val) (rest : List (Val × Val)) :
    ∃ opsS i' out,
      out = [opBind, opListen] ++ (conns.flatMap fun c => roundOps c.conn c.thread) ++ opsS ++
                ((conns.filter (·.alive)).map (·.thread)).map opJoin ∧
      encMainActs encRecord (sessionProg sc .main) = some (stripSleep opsS) ∧
      opsS.filter isEmitOp = (emitsOf (sessionProg sc .main)).map (encLogOp encRecord) ∧
      out.filter isEmitOp = (emitsOf (sessionProg sc .main)).map (encLogOp encRecord) ∧
      out.filter isEmitOp = sessionLogOps sc ∧
      ∀ f, F + conns.length + 800 ≤ f →
        callFn P f m_MainThread_run [encMainThread (encMainWorld
            (fun p => sendsOn (Chan.t2m p) (sessionProg sc (.seat p))) [] table0
            ((acceptSnapshots Table.empty reqs).map encTable ++ later)
            (acceptMore (conns.map (fun c => .tuple [c.conn, c.addr]) ++ accR) (conns.map (·.thread) ++ ntR)
              (conns.map (fun c => .bool c.alive) ++ alR) rest)) (.tuple ((sc.boards.map (·.1)).map encBoardSetting))]
          = .ok (.none, encMainThread (encMainWorld i' out
              (advBoards sc.boards.length (advTable (encTable tf) later).1 (advTable (encTable tf) later).2).1
              (advBoards sc.boards.length (advTable (encTable tf) later).1 (advTable (encTable tf) later).2).2
              (acceptMore accR ntR alR rest)) (.tuple ((sc.boards.map (·.1)).map encBoardSetting))) := by
  obtain ⟨opsS, i', hops, _, hrun⟩ := translated_main_thread_is_session_program sc h hc F hparse hok reqs opss mops tf
    conns hacc hfull hlen hN hS hE hW table0 later accR ntR alR rest
  have h1 : opsS.filter isEmitOp = (emitsOf (sessionProg sc .main)).map (encLogOp encRecord) := by
    rw [← filter_emit_stripSleep, encMainActs_emits encRecord _ _ hops]
  have h2 : ([opBind, opListen] ++ (conns.flatMap fun c => roundOps c.conn c.thread) ++ opsS ++
                ((conns.filter (·.alive)).map (·.thread)).map opJoin).filter isEmitOp
      = (emitsOf (sessionProg sc .main)).map (encLogOp encRecord) := by
    rw [List.filter_append, List.filter_append, List.filter_append, filter_emit_roundOps, filter_emit_joins, h1]
    show [] ++ [] ++ _ ++ [] = _
    simp only [List.nil_append, List.append_nil]
  exact ⟨opsS, i', _, rfl, hops, h1, h2, h2.trans (sessionLogOps_eq sc h), hrun⟩



/-! ## (3) the parse hypotheses discharged for the texts of the protocol -/

/-- every text the players send is a text of the protocol: a call text is `bidMsg c q.formal` (`"<Seat> passes"`,
`"<Seat> doubles"`, `"<Seat> redoubles"`, `"<Seat> bids <level><denomination>"`) and a card text is `playMsg q c nota`
(`"<Seat> plays <rank><suit>"` or `<suit><rank>`) for a card of the deck.  WHICH call / card / seat is not asked here:
that the text means what was decided is `TextsConform`. -/
def ProtocolTexts (sc : Scenario) : Prop :=
  ∀ bd ∈ sc.boards,
    (∀ x ∈ bd.2.calls, ∃ (c : Call) (q : Seat), x.2 = bidMsg c q.formal) ∧
    (∀ x ∈ bd.2.cards, ∃ (c : Card) (q : Seat) (nota : Bool), c ∈ Card.deck ∧ x.2 = playMsg q c nota)

/-- every message of the session's streams is read alike by the model and by the translated code -/
theorem session_streams_good (sc : Scenario) (hp : ProtocolTexts sc) :
    AllGood 40 (fun p => sendsOn (Chan.t2m p) (sessionProg sc (.seat p))) := by
  intro p m hm
  obtain ⟨bd, hbd, h | h⟩ := session_stream_mem sc p m hm
  · obtain ⟨x, hx, rfl⟩ := List.mem_map.1 h
    obtain ⟨c, q, e⟩ := (hp bd hbd).1 x hx
    rw [e]
    exact good_of_chk 40 _ (bid_texts_good c (call_mem_all c) q (seat_mem_all q))
  · obtain ⟨x, hx, rfl⟩ := List.mem_map.1 h
    obtain ⟨c, q, nota, hc, e⟩ := (hp bd hbd).2 x hx
    rw [e]
    exact good_of_chk 40 _ (card_texts_good c hc q (seat_mem_all q) nota)

/-- (3) `BoardsParse` OF THE SESSION'S STREAMS HOLDS (at fuel 40) when the texts are texts of the protocol: the translated
`remove_alert_word` / `parse_bid` / `parse_card` evaluated by the kernel inside `P` on all 38 × 4 call texts and all
52 × 4 × 2 card texts, each read for every seat (`bid_texts_good`, `card_texts_good`) -/
theorem session_boards_parse (sc : Scenario)
    (hc : ∀ bd ∈ sc.boards, ConformingAuction bd.1 bd.2 ∧ ConformingPlay bd.1 bd.2 ∧ TextsConform bd.1 bd.2)
    (hp : ProtocolTexts sc) :
    BoardsParse sc 40 1 (sc.boards.map (·.1)) (fun p => sendsOn (Chan.t2m p) (sessionProg sc (.seat p))) :=
  boardsParse_of_good sc 40 sc.boards 1 _ hc (session_feeds sc) (session_streams_good sc hp)

/-- (1) + (2) WITHOUT THE PARSE HYPOTHESIS, for texts of the protocol -/
theorem translated_main_thread_is_session_program_protocol (sc : Scenario) (h : sc.boards ≠ [])
    (hc : ∀ bd ∈ sc.boards, ConformingAuction bd.1 bd.2 ∧ ConformingPlay bd.1 bd.2 ∧ TextsConform bd.1 bd.2)
    (hp : ProtocolTexts sc)
    (hok : ∀ b ∈ sc.boards.map (·.1), ∀ p, ∀ c ∈ b.deal p, 2 ≤ c.rank ∧ c.rank ≤ 14)
    (reqs : List (List Char × List Char)) (opss : List (List Op)) (mops : List MainOp) (tf : Table) (conns : List Conn)
    (hacc : acceptLoopR Table.empty reqs = some (opss, mops, tf)) (hfull : tf.full = true)
    (hlen : conns.length = opss.length)
    (hN : tf .N = some sc.nsName) (hS : tf .S = some sc.nsName) (hE : tf .E = some sc.ewName) (hW : tf .W = some sc.ewName)
    (table0 : Val) (later accR ntR alR : List Val) (rest : List (Val × Val)) :
    ∃ opsS i' out,
      out = [opBind, opListen] ++ (conns.flatMap fun c => roundOps c.conn c.thread) ++ opsS ++
                ((conns.filter (·.alive)).map (·.thread)).map opJoin ∧
      encMainActs encRecord (sessionProg sc .main) = some (stripSleep opsS) ∧
      opsS.filter isEmitOp = (emitsOf (sessionProg sc .main)).map (encLogOp encRecord) ∧
      out.filter isEmitOp = (emitsOf (sessionProg sc .main)).map (encLogOp encRecord) ∧
      out.filter isEmitOp = sessionLogOps sc ∧
      ∀ f, 40 + conns.length + 800 ≤ f →
        callFn P f m_MainThread_run [encMainThread (encMainWorld
            (fun p => sendsOn (Chan.t2m p) (sessionProg sc (.seat p))) [] table0
            ((acceptSnapshots Table.empty reqs).map encTable ++ later)
            (acceptMore (conns.map (fun c => .tuple [c.conn, c.addr]) ++ accR) (conns.map (·.thread) ++ ntR)
              (conns.map (fun c => .bool c.alive) ++ alR) rest)) (.tuple ((sc.boards.map (·.1)).map encBoardSetting))]
          = .ok (.none, encMainThread (encMainWorld i' out
              (advBoards sc.boards.length (advTable (encTable tf) later).1 (advTable (encTable tf) later).2).1
              (advBoards sc.boards.length (advTable (encTable tf) later).1 (advTable (encTable tf) later).2).2
              (acceptMore accR ntR alR rest)) (.tuple ((sc.boards.map (·.1)).map encBoardSetting))) :=
  translated_main_thread_writes_the_session_log sc h hc 40 (session_boards_parse sc hc hp) hok reqs opss mops tf conns
    hacc hfull hlen hN hS hE hW table0 later accR ntR alR rest

/-! ## non-vacuity: `SeatD.exSc` — one board, passed out; teams Alpha (N/S) and Beta (E/W) -/

theorem ex_auction : ConformingAuction SeatD.exBoard SeatD.exDecisions := by
  refine ⟨?_, Or.inl rfl⟩
  show LegalLaw .N [.pass, .pass, .pass, .pass]
  exact .cons (.cons (.cons (.cons .nil (by decide) rfl) (by decide) rfl) (by decide) rfl) (by decide) rfl

theorem ex_play : ConformingPlay SeatD.exBoard SeatD.exDecisions := by
  have h : (WithHands.init (boardContract SeatD.exBoard SeatD.exDecisions) SeatD.exBoard.deal).isNone = true := by decide +kernel
  unfold ConformingPlay
  cases hw : WithHands.init (boardContract SeatD.exBoard SeatD.exDecisions) SeatD.exBoard.deal with
  | none => rfl
  | some w => rw [hw] at h; cases h

theorem ex_texts : TextsConform SeatD.exBoard SeatD.exDecisions := by
  refine ⟨?_, ?_⟩
  · decide +kernel
  · intro s0 _ j hj
    exact absurd hj (Nat.not_lt_zero _)

theorem ex_conform : ∀ bd ∈ SeatD.exSc.boards, ConformingAuction bd.1 bd.2 ∧ ConformingPlay bd.1 bd.2 ∧ TextsConform bd.1 bd.2 := by
  intro bd hbd
  simp only [SeatD.exSc, List.mem_singleton] at hbd
  subst hbd
  exact ⟨ex_auction, ex_play, ex_texts⟩

theorem ex_parse : BoardsParse SeatD.exSc 40 1 (SeatD.exSc.boards.map (·.1))
    (fun p => sendsOn (Chan.t2m p) (sessionProg SeatD.exSc (.seat p))) :=
  ⟨boardParses_of_passed_out 40 SeatD.exBoard _ (by decide +kernel) (by decide +kernel), fun _ _ _ => trivial⟩

theorem ex_ok : ∀ b ∈ SeatD.exSc.boards.map (·.1), ∀ p, ∀ c ∈ b.deal p, 2 ≤ c.rank ∧ c.rank ≤ 14 := by
  intro b hb p c hc
  simp only [SeatD.exSc, List.map_cons, List.map_nil, List.mem_singleton] at hb
  subst hb
  cases hc

theorem ex_protocol : ProtocolTexts SeatD.exSc := by
  intro bd hbd
  simp only [SeatD.exSc, List.mem_singleton] at hbd
  subst hbd
  refine ⟨?_, fun x hx => by cases hx⟩
  intro x hx
  simp only [SeatD.exDecisions, List.mem_cons, List.mem_nil_iff, or_false] at hx
  rcases hx with rfl | rfl | rfl | rfl
  · exact ⟨.pass, .N, by decide +kernel⟩
  · exact ⟨.pass, .E, by decide +kernel⟩
  · exact ⟨.pass, .S, by decide +kernel⟩
  · exact ⟨.pass, .W, by decide +kernel⟩

/-- (3) on the example: the parse package needs no evaluation of its own -/
example : BoardsParse SeatD.exSc 40 1 (SeatD.exSc.boards.map (·.1))
    (fun p => sendsOn (Chan.t2m p) (sessionProg SeatD.exSc (.seat p))) :=
  session_boards_parse SeatD.exSc ex_conform ex_protocol

/-- the families of (3) are not vacuous: the model reads every protocol text back as the call / card it was built from -/
example : ∀ c ∈ Call.all, ∀ p ∈ Seat.all, parseBid? (preprocessBid (bidMsg c p.formal)) p.formal = some c := by
  decide +kernel
example : ∀ c ∈ Card.deck, ∀ p ∈ Seat.all, ∀ nota : Bool, parseCard? (playMsg p c nota) p = some c := by decide +kernel

/-- four connection attempts, all served and seated: North and South for Alpha, East and West for Beta -/
def exReqs : List (List Char × List Char) :=
  [("Connecting \"Alpha\" as North using protocol version 18".toList, "North ready for teams".toList),
   ("Connecting \"Beta\" as East using protocol version 18".toList, "East ready for teams".toList),
   ("Connecting \"Alpha\" as South using protocol version 18".toList, "South ready for teams".toList),
   ("Connecting \"Beta\" as West using protocol version 18".toList, "West ready for teams".toList)]

/-- what the world answers for the four served connections -/
def exConns : List Conn :=
  [⟨.int 1, .none, .int 11, true⟩, ⟨.int 2, .none, .int 12, true⟩, ⟨.int 3, .none, .int 13, true⟩,
   ⟨.int 4, .none, .int 14, true⟩]

theorem ex_acc_model : (acceptLoopR Table.empty exReqs).map (fun x => (x.1.length, x.2.1.length, x.2.2.full))
    = some (4, 24, true) := by decide +kernel
theorem ex_acc_names : (acceptLoopR Table.empty exReqs).map (fun x => (x.2.2 .N, x.2.2 .E, x.2.2 .S, x.2.2 .W))
    = some (some "Alpha".toList, some "Beta".toList, some "Alpha".toList, some "Beta".toList) := by decide +kernel

/-- the session program of the main thread on this scenario is not trivial -/
theorem ex_main_length : (sessionProg SeatD.exSc .main).length = 61 := by decide +kernel

/-- (1) and (2) on the example, EVERY hypothesis discharged: four served connections, one passed-out board -/
example : ∃ opsS i', encMainActs encRecord (sessionProg SeatD.exSc .main) = some (stripSleep opsS) ∧
    (sessionProg SeatD.exSc .main).length = 61 ∧
    opsS.filter isEmitOp = [encLogOp encRecord .open,
      encLogOp encRecord (.write (recordOf SeatD.exSc SeatD.exBoard SeatD.exDecisions)), encLogOp encRecord .close] ∧
    ∀ f, 844 ≤ f →
      callFn P f m_MainThread_run [encMainThread (encMainWorld
          (fun p => sendsOn (Chan.t2m p) (sessionProg SeatD.exSc (.seat p))) [] .none
          ((acceptSnapshots Table.empty exReqs).map encTable ++ [])
          (acceptMore (exConns.map (fun c => .tuple [c.conn, c.addr]) ++ []) (exConns.map (·.thread) ++ [])
            (exConns.map (fun c => .bool c.alive) ++ []) []))
          (.tuple ((SeatD.exSc.boards.map (·.1)).map encBoardSetting))]
        = .ok (.none, encMainThread (encMainWorld i'
            ([opBind, opListen] ++ (exConns.flatMap fun c => roundOps c.conn c.thread) ++ opsS ++
              [opJoin (.int 11), opJoin (.int 12), opJoin (.int 13), opJoin (.int 14)])
            (encTable (fun p => match p with | .N | .S => some "Alpha".toList | _ => some "Beta".toList)) []
            (acceptMore [] [] [] [])) (.tuple ((SeatD.exSc.boards.map (·.1)).map encBoardSetting))) := by
  have ha := ex_acc_model
  have hn := ex_acc_names
  cases hacc : acceptLoopR Table.empty exReqs with
  | none => rw [hacc] at ha; cases ha
  | some x =>
    obtain ⟨opss, mops, tf⟩ := x
    rw [hacc] at ha hn
    simp only [Option.map_some, Option.some.injEq, Prod.mk.injEq] at ha hn
    obtain ⟨h1, h2, h3⟩ := ha
    obtain ⟨hN, hE, hS, hW⟩ := hn
    obtain ⟨opsS, i', out, rfl, hops, hlog, _, _, hrun⟩ := translated_main_thread_is_session_program_protocol SeatD.exSc
      SeatD.exSc_boards ex_conform ex_protocol ex_ok exReqs opss mops tf exConns hacc h3 (by rw [h1]; rfl) hN hS hE hW
      .none [] [] [] [] []
    have htf : tf = (fun p => match p with | .N | .S => some "Alpha".toList | _ => some "Beta".toList) := by
      funext p; cases p <;> assumption
    refine ⟨opsS, i', ?_, ex_main_length, ?_, ?_⟩
    · exact hops
    · rw [hlog, sessionLogOps_eq _ SeatD.exSc_boards]; rfl
    · intro f hf
      have h := hrun f (by simpa [exConns] using hf)
      rw [htf] at h
      exact h

end Bridge.Translated.MainD
