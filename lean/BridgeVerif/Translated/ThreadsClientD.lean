import BridgeVerif.Translated.ThreadsClientC
import BridgeVerif.Translated.ThreadsSeatD
import BridgeVerif.Props.C11
/-!
# The CAPSTONE for the bundled client: the TRANSLATED `ClientThread.run` performs EXACTLY the session program

`ClientC.client_run_translated` (the generated `m_ClientThread_run` in the whole translated program `P` = the connection
prefix `connectOps` + `clientReactive`) composed with `C11.bundled_client_follows_the_messages` (`clientReactive` fed what
the session's seat thread sends on `s2c p`, with the scenario's own calls and cards as its systems' decisions =
`sessionProg sc (.client p)`).

How the streams line up.  `sendsOn (Chan.s2c p) (sessionProg sc (.seat p))` = the `Teams` message, "Start of board", the
boards (`session_s_eq`): it INCLUDES the `Teams` message and does NOT include the answer to the connection request
(`<p> <team> seated`) — the session model starts after admission.  `clientReactive` starts at the `Teams` message too, so
the world's connection stream is `reply :: s2c` and the world's operations are `connectOps p team` (`connect`, the request,
`recv` of the reply, `<p> ready for teams`) followed by the rendering of `sessionProg sc (.client p)` (which begins `recv`
(Teams), `<p> ready to start`, `recv` ("Start of board")), with one `bidAsk` / `playAsk` per decision (`eraseDecisions`).

* `hmine` of `client_run_translated` is DERIVED (`session_hmine`): the client's `team_name` is its side's name `ownName sc p`
  and the `Teams` text of the session is `teamsMsg sc.nsName sc.ewName`, read back by `parseTeamNames?`
  (`C19.team_names_round_trip`, names without quote / line break).
* left as hypotheses: `hreply` (the reply is `… seated` in one of the two forms, for the own team), and the parse packages
  `connectParses` / `boardsParses` (the translated parsers agree with the model's on the session's messages, fuel `N`).
* (1) `translated_client_is_session_program`, (2) `translated_client_consumes_everything` (final streams all empty —
  derived from `clientBoardsR_boards`); `…_of_handOK`: the same with `HandOK` hands instead of proper 13-card deals;
  `translated_client_of_reactive`: the core, relative to `clientReactive … = some (sessionProg sc (.client p))`.
* non-vacuity: `SeatD.exSc` (empty hands, `_of_handOK` form) and `exSc13` (thirteen cards each; (1) and (2) as stated),
  every hypothesis discharged, the parse packages by kernel evaluation of the translated parsers.
-/
set_option maxRecDepth 4000
namespace Bridge.Translated.ClientD
open Bridge Bridge.Py Bridge.Generated.PyCore Bridge.Translated Bridge.Translated.ClientA Bridge.Translated.ClientB
open Bridge.Translated.ClientC

/-- the name of `p`'s own side in the scenario: the client's `team_name` -/
def ownName (sc : Scenario) (p : Seat) : Text := if p.side = .NS then sc.nsName else sc.ewName
/-- the name of the other side: what `opponent_team_name` becomes -/
def oppName (sc : Scenario) (p : Seat) : Text := if p.side = .NS then sc.ewName else sc.nsName

/-- what the seat thread of `p` sends on the connection in a session: the `Teams` message, "Start of board", the boards.
The reply to the connection request (`… seated`) is NOT part of the session model (the session starts after admission). -/
theorem session_s_eq (sc : Scenario) (p : Seat) :
    sendsOn (Chan.s2c p) (sessionProg sc (.seat p)) =
      teamsMsg sc.nsName sc.ewName :: MSG_START :: (boardsPhases sc 1 sc.boards).flatMap (s2cOf p) := by
  unfold sessionProg sessionPhases
  rw [sendsOn_progOfPhases, List.flatMap_cons]
  show s2cOf p _ ++ List.flatMap (s2cOf p) _ = _
  rw [s2cOf_seating]; rfl

/-- `hmine` of `client_run_translated`, DERIVED: the `Teams` text of the session is `teamsMsg sc.nsName sc.ewName`, which
`parseTeamNames?` reads back (C19), and the client's team is its side's name -/
theorem session_hmine (sc : Scenario) (p : Seat) (hn : NameOK sc.nsName ∧ NameOK sc.ewName) :
    ∀ teams ∈ (sendsOn (Chan.s2c p) (sessionProg sc (.seat p))).head?, ∀ ns ew,
      parseTeamNames? teams = some (ns, ew) → (if p.side = .NS then ns else ew) = ownName sc p := by
  intro teams ht ns ew hh
  rw [session_s_eq] at ht
  simp only [List.head?_cons, Option.mem_def, Option.some.injEq] at ht
  subst ht
  rw [C19.team_names_round_trip _ _ hn.1 hn.2] at hh
  simp only [Option.some.injEq, Prod.mk.injEq] at hh
  obtain ⟨rfl, rfl⟩ := hh
  rfl

/-- the boards of the reactive client consume the session's stream and the scenario's own decisions ENTIRELY -/
theorem session_boards_run (sc : Scenario) (h : sc.boards ≠ []) (p : Seat)
    (hc : ∀ bd ∈ sc.boards, ConformingAuction bd.1 bd.2 ∧ ConformingPlay bd.1 bd.2 ∧ TextsConform bd.1 bd.2)
    (hb : BundledTexts sc p) (hd : ∀ bd ∈ sc.boards, ∀ q, HandOK (bd.1.deal q)) :
    clientBoardsR p ((sendsOn (Chan.s2c p) (sessionProg sc (.seat p))).length + 1)
        ⟨(sendsOn (Chan.s2c p) (sessionProg sc (.seat p))).drop 2, scenarioOwnCalls sc p, scenarioOwnCards sc p⟩
      = some ((boardsPhases sc 1 sc.boards).flatMap (kOf p), ⟨[], [], []⟩) := by
  rw [session_s_eq]
  have hrun := clientBoardsR_boards sc p [] [] [] sc.boards 1
    ((teamsMsg sc.nsName sc.ewName :: MSG_START :: (boardsPhases sc 1 sc.boards).flatMap (s2cOf p)).length + 1) h
    (fun bd hbd => ⟨(hc bd hbd).1, (hc bd hbd).2.1, (hc bd hbd).2.2, hb bd hbd, hd bd hbd⟩)
    (by have := cl_boardsPhases_s_length sc p sc.boards 1; simp only [List.length_cons]; omega)
  simp only [List.append_nil] at hrun
  exact hrun

theorem handOK_of_deal (b : BoardSetting) (h : PartialDeal b.deal) (q : Seat) : HandOK (b.deal q) := by
  obtain ⟨hnd, hok, _⟩ := h
  refine ⟨?_, hok q⟩
  unfold handsAll at hnd
  cases q
  · exact (List.nodup_append.1 (List.nodup_append.1 (List.nodup_append.1 hnd).1).1).1
  · exact (List.nodup_append.1 (List.nodup_append.1 (List.nodup_append.1 hnd).1).1).2.1
  · exact (List.nodup_append.1 (List.nodup_append.1 hnd).1).2.1
  · exact (List.nodup_append.1 hnd).2.1

/-- (2, core) relative to `clientReactive … = some (sessionProg sc (.client p))` and the run of the boards -/
theorem translated_client_of_reactive (sc : Scenario) (p : Seat) (N : Nat) (reply : Text) (out : List Val) (opp : Val)
    (hn : NameOK sc.nsName ∧ NameOK sc.ewName)
    (hm : clientReactive p (scenarioOwnCalls sc p) (scenarioOwnCards sc p)
      (sendsOn (Chan.s2c p) (sessionProg sc (.seat p))) = some (sessionProg sc (.client p)))
    (hreply : reply = seatedPlain p (ownName sc p) ∨ reply = seatedQuoted p (ownName sc p))
    (hp1 : connectParses N ⟨reply :: sendsOn (Chan.s2c p) (sessionProg sc (.seat p)), scenarioOwnCalls sc p,
      scenarioOwnCards sc p⟩)
    (hp2 : boardsParses N p ((sendsOn (Chan.s2c p) (sessionProg sc (.seat p))).length + 1)
      ⟨(sendsOn (Chan.s2c p) (sessionProg sc (.seat p))).drop 2, scenarioOwnCalls sc p, scenarioOwnCards sc p⟩) :
    ∃ ops bs i' extra', encClientActs p (sessionProg sc (.client p)) = some (eraseDecisions ops) ∧
      clientBoardsR p ((sendsOn (Chan.s2c p) (sessionProg sc (.seat p))).length + 1)
        ⟨(sendsOn (Chan.s2c p) (sessionProg sc (.seat p))).drop 2, scenarioOwnCalls sc p, scenarioOwnCards sc p⟩
        = some (bs, i') ∧
      DealtStar [] extra' ∧
      ∀ f, (sendsOn (Chan.s2c p) (sessionProg sc (.seat p))).length + (scenarioOwnCalls sc p).length + N + 178 ≤ f →
        callFn P f m_ClientThread_run
            [encClientThread p (encClientWorld (reply :: sendsOn (Chan.s2c p) (sessionProg sc (.seat p)))
              ((scenarioOwnCalls sc p).map encCall) ((scenarioOwnCards sc p).map encCard) out) (ownName sc p) opp []]
          = .ok (.none, encClientThread p (encClientWorld i'.s (i'.calls.map encCall) (i'.cards.map encCard)
              (out ++ connectOps p (ownName sc p) ++ ops)) (ownName sc p) (.str (oppName sc p)) extra') := by
  obtain ⟨ops, bs, i', on, extra', ho, hbs, hd, hopp, hx⟩ := client_run_translated p (ownName sc p) reply
    (sendsOn (Chan.s2c p) (sessionProg sc (.seat p))) (scenarioOwnCalls sc p) (scenarioOwnCards sc p)
    (sessionProg sc (.client p)) N out opp hreply (session_hmine sc p hn) hm hp1 hp2
  have hon : on = oppName sc p := by
    refine hopp (teamsMsg sc.nsName sc.ewName) ?_ sc.nsName sc.ewName (C19.team_names_round_trip _ _ hn.1 hn.2)
    rw [session_s_eq]; rfl
  subst hon
  exact ⟨ops, bs, i', extra', ho, hbs, hd, hx⟩

/-- (2) THE CAPSTONE, with everything consumed, for valid duplicate-free hands (`HandOK`; the form of the hypothesis on
the deals that `clientReactive_session_of_handOK` uses).  See `translated_client_consumes_everything`. -/
theorem translated_client_consumes_everything_of_handOK (sc : Scenario) (h : sc.boards ≠ []) (p : Seat)
    (hc : ∀ bd ∈ sc.boards, ConformingAuction bd.1 bd.2 ∧ ConformingPlay bd.1 bd.2 ∧ TextsConform bd.1 bd.2)
    (hb : BundledTexts sc p) (hd : ∀ bd ∈ sc.boards, ∀ q, HandOK (bd.1.deal q))
    (hn : NameOK sc.nsName ∧ NameOK sc.ewName)
    (N : Nat) (reply : Text) (out : List Val) (opp : Val)
    (hreply : reply = seatedPlain p (ownName sc p) ∨ reply = seatedQuoted p (ownName sc p))
    (hp1 : connectParses N ⟨reply :: sendsOn (Chan.s2c p) (sessionProg sc (.seat p)), scenarioOwnCalls sc p,
      scenarioOwnCards sc p⟩)
    (hp2 : boardsParses N p ((sendsOn (Chan.s2c p) (sessionProg sc (.seat p))).length + 1)
      ⟨(sendsOn (Chan.s2c p) (sessionProg sc (.seat p))).drop 2, scenarioOwnCalls sc p, scenarioOwnCards sc p⟩) :
    ∃ ops extra', encClientActs p (sessionProg sc (.client p)) = some (eraseDecisions ops) ∧ DealtStar [] extra' ∧
      ∀ f, (sendsOn (Chan.s2c p) (sessionProg sc (.seat p))).length + (scenarioOwnCalls sc p).length + N + 178 ≤ f →
        callFn P f m_ClientThread_run
            [encClientThread p (encClientWorld (reply :: sendsOn (Chan.s2c p) (sessionProg sc (.seat p)))
              ((scenarioOwnCalls sc p).map encCall) ((scenarioOwnCards sc p).map encCard) out) (ownName sc p) opp []]
          = .ok (.none, encClientThread p (encClientWorld [] [] [] (out ++ connectOps p (ownName sc p) ++ ops))
              (ownName sc p) (.str (oppName sc p)) extra') := by
  obtain ⟨ops, bs, i', extra', ho, hbs, hds, hx⟩ := translated_client_of_reactive sc p N reply out opp hn
    (clientReactive_session_of_handOK sc h p hc hb hd hn) hreply hp1 hp2
  rw [session_boards_run sc h p hc hb hd] at hbs
  simp only [Option.some.injEq, Prod.mk.injEq] at hbs
  obtain ⟨_, rfl⟩ := hbs
  exact ⟨ops, extra', ho, hds, hx⟩

/-- (1) THE CAPSTONE FOR THE BUNDLED CLIENT.  A scenario `sc` with at least one board whose decisions and texts conform
(`hc`), seat `p` played by the bundled client (`hb`), proper deals (`hd`), team names without quote / line break (`hn`) —
the hypotheses of `C11.bundled_client_follows_the_messages`.  The client object is created for its side's name
(`ownName sc p`); the connection delivers `reply` (the answer to the connection request, `… seated` in either form — NOT
part of the session model, whose programs start after admission), then EXACTLY what the session model's seat thread of
`p` sends on `s2c p` (the `Teams` message, "Start of board", the boards, "End of session"); the bidding and playing systems
return EXACTLY the scenario's own calls and cards of `p`.  `connectParses` / `boardsParses`: on those messages the
translated parsers return what the model's parsers return (fuel `N`).  Then for every fuel from the stated bound on the
generated `ClientThread.run` returns `None` — it never raises, never blocks —; the world has recorded, after the four
connection operations `connectOps` (`connect`, the request, its answer, `<p> ready for teams`), operations `ops` that
are — apart from one `bidAsk` / `playAsk` per decision (`eraseDecisions`) — EXACTLY the rendering of the session program
`sessionProg sc (.client p)`; `opponent_team_name` is the other side's name; the object has been dealt. -/
theorem translated_client_is_session_program (sc : Scenario) (h : sc.boards ≠ []) (p : Seat)
    (hc : ∀ bd ∈ sc.boards, ConformingAuction bd.1 bd.2 ∧ ConformingPlay bd.1 bd.2 ∧ TextsConform bd.1 bd.2)
    (hb : BundledTexts sc p)
    (hd : ∀ bd ∈ sc.boards, PartialDeal bd.1.deal ∧ ∀ q, (bd.1.deal q).length = 13)
    (hn : NameOK sc.nsName ∧ NameOK sc.ewName)
    (N : Nat) (reply : Text) (out : List Val) (opp : Val)
    (hreply : reply = seatedPlain p (ownName sc p) ∨ reply = seatedQuoted p (ownName sc p))
    (hp1 : connectParses N ⟨reply :: sendsOn (Chan.s2c p) (sessionProg sc (.seat p)), scenarioOwnCalls sc p,
      scenarioOwnCards sc p⟩)
    (hp2 : boardsParses N p ((sendsOn (Chan.s2c p) (sessionProg sc (.seat p))).length + 1)
      ⟨(sendsOn (Chan.s2c p) (sessionProg sc (.seat p))).drop 2, scenarioOwnCalls sc p, scenarioOwnCards sc p⟩) :
    ∃ ops s' calls' cards' extra', encClientActs p (sessionProg sc (.client p)) = some (eraseDecisions ops) ∧
      DealtStar [] extra' ∧
      ∀ f, (sendsOn (Chan.s2c p) (sessionProg sc (.seat p))).length + (scenarioOwnCalls sc p).length + N + 178 ≤ f →
        callFn P f m_ClientThread_run
            [encClientThread p (encClientWorld (reply :: sendsOn (Chan.s2c p) (sessionProg sc (.seat p)))
              ((scenarioOwnCalls sc p).map encCall) ((scenarioOwnCards sc p).map encCard) out) (ownName sc p) opp []]
          = .ok (.none, encClientThread p (encClientWorld s' calls' cards' (out ++ connectOps p (ownName sc p) ++ ops))
              (ownName sc p) (.str (oppName sc p)) extra') := by
  obtain ⟨ops, bs, i', extra', ho, _, hds, hx⟩ := translated_client_of_reactive sc p N reply out opp hn
    (C11.bundled_client_follows_the_messages sc h p hc hb hd hn) hreply hp1 hp2
  exact ⟨ops, _, _, _, extra', ho, hds, hx⟩

/-- (2) EVERYTHING IS CONSUMED: under the hypotheses of (1) the final world has an EMPTY connection stream (all of `s2c p`
read, "End of session" included), and EMPTY decision streams (every own call and card of the scenario asked for, exactly
once each, no more) -/
theorem translated_client_consumes_everything (sc : Scenario) (h : sc.boards ≠ []) (p : Seat)
    (hc : ∀ bd ∈ sc.boards, ConformingAuction bd.1 bd.2 ∧ ConformingPlay bd.1 bd.2 ∧ TextsConform bd.1 bd.2)
    (hb : BundledTexts sc p)
    (hd : ∀ bd ∈ sc.boards, PartialDeal bd.1.deal ∧ ∀ q, (bd.1.deal q).length = 13)
    (hn : NameOK sc.nsName ∧ NameOK sc.ewName)
    (N : Nat) (reply : Text) (out : List Val) (opp : Val)
    (hreply : reply = seatedPlain p (ownName sc p) ∨ reply = seatedQuoted p (ownName sc p))
    (hp1 : connectParses N ⟨reply :: sendsOn (Chan.s2c p) (sessionProg sc (.seat p)), scenarioOwnCalls sc p,
      scenarioOwnCards sc p⟩)
    (hp2 : boardsParses N p ((sendsOn (Chan.s2c p) (sessionProg sc (.seat p))).length + 1)
      ⟨(sendsOn (Chan.s2c p) (sessionProg sc (.seat p))).drop 2, scenarioOwnCalls sc p, scenarioOwnCards sc p⟩) :
    ∃ ops extra', encClientActs p (sessionProg sc (.client p)) = some (eraseDecisions ops) ∧ DealtStar [] extra' ∧
      ∀ f, (sendsOn (Chan.s2c p) (sessionProg sc (.seat p))).length + (scenarioOwnCalls sc p).length + N + 178 ≤ f →
        callFn P f m_ClientThread_run
            [encClientThread p (encClientWorld (reply :: sendsOn (Chan.s2c p) (sessionProg sc (.seat p)))
              ((scenarioOwnCalls sc p).map encCall) ((scenarioOwnCards sc p).map encCard) out) (ownName sc p) opp []]
          = .ok (.none, encClientThread p (encClientWorld [] [] [] (out ++ connectOps p (ownName sc p) ++ ops))
              (ownName sc p) (.str (oppName sc p)) extra') :=
  translated_client_consumes_everything_of_handOK sc h p hc hb
    (fun bd hbd q => handOK_of_deal bd.1 (hd bd hbd).1 q) hn N reply out opp hreply hp1 hp2

/-! ## non-vacuity: `SeatD.exSc` (one board, passed out; teams Alpha (N/S) and Beta (E/W)); South's client -/

open Bridge.Translated.SeatD (exSc exBoard exDecisions exSc_boards)

theorem ex_auction : ConformingAuction exBoard exDecisions := by
  refine ⟨?_, Or.inl rfl⟩
  exact .cons (.cons (.cons (.cons .nil rfl rfl) rfl rfl) rfl rfl) rfl rfl

theorem ex_play : ConformingPlay exBoard exDecisions := by
  have e : WithHands.init (boardContract exBoard exDecisions) exBoard.deal = none := by with_unfolding_all rfl
  unfold ConformingPlay
  rw [e]
  rfl

theorem ex_texts : TextsConform exBoard exDecisions := by
  refine ⟨fun j h => ?_, fun s0 _ j h => ?_⟩
  · have hj : j < 4 := h
    match j, hj with
    | 0, _ => show parseBid? (preprocessBid "North passes".toList) Seat.N.formal = some .pass; decide +kernel
    | 1, _ => show parseBid? (preprocessBid "East passes".toList) Seat.E.formal = some .pass; decide +kernel
    | 2, _ => show parseBid? (preprocessBid "South passes".toList) Seat.S.formal = some .pass; decide +kernel
    | 3, _ => show parseBid? (preprocessBid "West passes".toList) Seat.W.formal = some .pass; decide +kernel
  · exact absurd h (Nat.not_lt_zero j)

theorem ex_bundled : BundledTexts exSc .S := by
  intro bd hbd
  simp only [exSc, List.mem_singleton] at hbd
  subst hbd
  refine ⟨fun j h hr => ?_, fun s0 decl _ _ j h => absurd h (Nat.not_lt_zero j)⟩
  have hj : j < 4 := h
  match j, hj, hr with
  | 0, _, hr => cases hr
  | 1, _, hr => cases hr
  | 2, _, _ => show "South passes".toList = bidMsg .pass Seat.S.formal; decide +kernel
  | 3, _, hr => cases hr

theorem ex_s2c : sendsOn (Chan.s2c .S) (sessionProg exSc (.seat .S)) =
    ["Teams : N/S : \"Alpha\" E/W : \"Beta\"".toList, "Start of board".toList,
     "Board number 1. Dealer North. Neither vulnerable.".toList, "South's cards : S -. H -. D -. C -.".toList,
     "North passes".toList, "East passes".toList, "West passes".toList, "End of session".toList] := by decide +kernel
theorem ex_calls : scenarioOwnCalls exSc .S = [.pass] := by decide +kernel
theorem ex_cards : scenarioOwnCards exSc .S = [] := by decide +kernel

/-- the stream of the board: what follows "Start of board" -/
def exS : List Text :=
  ["Board number 1. Dealer North. Neither vulnerable.".toList, "South's cards : S -. H -. D -. C -.".toList,
   "North passes".toList, "East passes".toList, "West passes".toList, "End of session".toList]
def exI : ClientIn := ⟨exS, [.pass], []⟩

theorem exDealParses : dealParses 30 .S exI (encCards []) (.tuple (List.replicate 52 (.int 0))) := by
  refine ⟨fun k d v hk => ?_, fun t ht => ⟨?_, fun _ => ?_⟩⟩
  · have e : parseBoard? "Board number 1. Dealer North. Neither vulnerable.".toList = some (1, .N, .none) := by
      decide +kernel
    rw [e] at hk
    obtain ⟨rfl, rfl, rfl⟩ : 1 = k ∧ Seat.N = d ∧ Vul.none = v := by simpa using hk
    exact Returns.of_fuel (by with_unfolding_all rfl)
  · have e : parseCards? "South's cards : S -. H -. D -. C -.".toList Seat.S.formal
        = some "S -. H -. D -. C -.".toList := by decide +kernel
    rw [e] at ht
    obtain rfl : "S -. H -. D -. C -.".toList = t := by simpa using ht
    exact Returns.of_fuel (by with_unfolding_all rfl)
  · have e : parseCards? "South's cards : S -. H -. D -. C -.".toList Seat.S.formal
        = some "S -. H -. D -. C -.".toList := by decide +kernel
    rw [e] at ht
    obtain rfl : "S -. H -. D -. C -.".toList = t := by simpa using ht
    exact Returns.of_fuel (by with_unfolding_all rfl)

theorem exBoardParses : boardParses 30 .S exI := by
  have hd : ∃ d, clientDealR .S exI = some (d, (1, .N, .none), [], ⟨exS.drop 2, [.pass], []⟩) :=
    ⟨_, by with_unfolding_all rfl⟩
  obtain ⟨d, hd⟩ := hd
  have hag : ∀ m ∈ exS.drop 2, ∀ a ∈ Seat.all, parseBidAgrees 30 m a = true := by decide +kernel
  have hres : ∃ b s i2, clientBiddingR .S (320 + 1) (AState.init .N .none) ⟨exS.drop 2, [.pass], []⟩ = some (b, s, i2) ∧
      s.contract = some ⟨none, false, false, .none, none⟩ :=
    ⟨_, _, _, by with_unfolding_all rfl, by with_unfolding_all rfl⟩
  obtain ⟨b, s, i2, hb, hc⟩ := hres
  refine boardParses_of 30 .S exI _ d 1 .N .none [] hd ⟨_, exDealParses⟩
    (bidParses_of_agrees 30 .S _ _ _ fun m hm a => hag m hm a (ct_seat_mem a)) ?_
  intro b' s' i2' c' hb' hc' hpo
  rw [hb] at hb'
  simp only [Option.some.injEq, Prod.mk.injEq] at hb'
  obtain ⟨_, rfl, _⟩ := hb'
  rw [hc] at hc'
  simp only [Option.some.injEq] at hc'
  subst hc'
  cases hpo

theorem exBoardRun : ∃ acts, clientBoardR .S exI = some (acts, MSG_END, ⟨[], [], []⟩) :=
  ⟨_, by with_unfolding_all rfl⟩

theorem exTeams : parseTeamNames? "Teams : N/S : \"Alpha\" E/W : \"Beta\"".toList = some ("Alpha".toList, "Beta".toList) := by
  decide +kernel

theorem exConnectParses (reply : Text) : connectParses 30
    ⟨reply :: sendsOn (Chan.s2c .S) (sessionProg exSc (.seat .S)), scenarioOwnCalls exSc .S, scenarioOwnCards exSc .S⟩ := by
  rw [ex_s2c]
  intro ns ew hh
  rw [exTeams] at hh
  obtain ⟨rfl, rfl⟩ : "Alpha".toList = ns ∧ "Beta".toList = ew := by simpa using hh
  exact Returns.of_fuel (by with_unfolding_all rfl)

theorem exBoardsParses : boardsParses 30 .S ((sendsOn (Chan.s2c .S) (sessionProg exSc (.seat .S))).length + 1)
    ⟨(sendsOn (Chan.s2c .S) (sessionProg exSc (.seat .S))).drop 2, scenarioOwnCalls exSc .S, scenarioOwnCards exSc .S⟩ := by
  rw [ex_s2c, ex_calls, ex_cards]
  obtain ⟨acts, hb⟩ := exBoardRun
  exact boardsParses_last 30 .S _ exI _ acts hb exBoardParses

/-- non-vacuity of the capstone (in the `HandOK` form: the hands of `SeatD.exSc` are empty) on the one-board passed-out
scenario `SeatD.exSc`, South's client (team "Alpha", the request answered in the plain form): every hypothesis is
discharged — the parse packages by kernel evaluation of the translated parsers on the session's messages -/
example : ∃ ops extra', encClientActs .S (sessionProg exSc (.client .S)) = some (eraseDecisions ops) ∧
    DealtStar [] extra' ∧
    ∀ f, 8 + 1 + 30 + 178 ≤ f →
      callFn P f m_ClientThread_run
          [encClientThread .S (encClientWorld ("South Alpha seated".toList ::
              ["Teams : N/S : \"Alpha\" E/W : \"Beta\"".toList, "Start of board".toList,
               "Board number 1. Dealer North. Neither vulnerable.".toList, "South's cards : S -. H -. D -. C -.".toList,
               "North passes".toList, "East passes".toList, "West passes".toList, "End of session".toList])
            [encCall .pass] [] []) "Alpha".toList .none []]
        = .ok (.none, encClientThread .S (encClientWorld [] [] [] ([] ++ connectOps .S "Alpha".toList ++ ops))
            "Alpha".toList (.str "Beta".toList) extra') := by
  have hall : ∀ bd ∈ exSc.boards, ConformingAuction bd.1 bd.2 ∧ ConformingPlay bd.1 bd.2 ∧ TextsConform bd.1 bd.2 := by
    intro bd hbd
    simp only [exSc, List.mem_singleton] at hbd
    subst hbd
    exact ⟨ex_auction, ex_play, ex_texts⟩
  have hhands : ∀ bd ∈ exSc.boards, ∀ q, HandOK (bd.1.deal q) := by
    intro bd hbd q
    simp only [exSc, List.mem_singleton] at hbd
    subst hbd
    exact ⟨List.nodup_nil, fun c hc => absurd hc List.not_mem_nil⟩
  have hnames : NameOK exSc.nsName ∧ NameOK exSc.ewName := by
    show NameOK "Alpha".toList ∧ NameOK "Beta".toList
    unfold NameOK
    decide +kernel
  obtain ⟨ops, extra', ho, hd, hx⟩ := translated_client_consumes_everything_of_handOK exSc exSc_boards .S hall ex_bundled
    hhands hnames 30 "South Alpha seated".toList [] .none (Or.inl (by decide +kernel)) (exConnectParses _) exBoardsParses
  refine ⟨ops, extra', ho, hd, fun f hf => ?_⟩
  have := hx f (by rw [ex_s2c, ex_calls]; exact hf)
  rw [ex_s2c, ex_calls, ex_cards] at this
  exact this

/-- the session program of South's client on this scenario is not trivial: 15 actions -/
example : (sessionProg exSc (.client .S)).length = 15 := by decide +kernel

/-! ## non-vacuity of (1) and (2) as stated (proper 13-card hands): North holds the spades, East the hearts, South the
diamonds, West the clubs; the board is passed out; South's client -/

def suitHand (su : Suit) : List Card := [14, 13, 12, 11, 10, 9, 8, 7, 6, 5, 4, 3, 2].map (⟨·, su⟩)
def exBoard13 : BoardSetting :=
  { boardId := "1".toList, dealer := .N, vul := .none,
    deal := fun | .N => suitHand .S | .E => suitHand .H | .S => suitHand .D | .W => suitHand .C }
def exSc13 : Scenario := { nsName := "Alpha".toList, ewName := "Beta".toList, boards := [(exBoard13, exDecisions)] }

theorem ex13_auction : ConformingAuction exBoard13 exDecisions := by
  refine ⟨?_, Or.inl rfl⟩
  exact .cons (.cons (.cons (.cons .nil rfl rfl) rfl rfl) rfl rfl) rfl rfl

theorem ex13_play : ConformingPlay exBoard13 exDecisions := by
  have e : WithHands.init (boardContract exBoard13 exDecisions) exBoard13.deal = none := by with_unfolding_all rfl
  unfold ConformingPlay
  rw [e]
  rfl

theorem ex13_texts : TextsConform exBoard13 exDecisions := by
  refine ⟨fun j h => ?_, fun s0 _ j h => ?_⟩
  · have hj : j < 4 := h
    match j, hj with
    | 0, _ => show parseBid? (preprocessBid "North passes".toList) Seat.N.formal = some .pass; decide +kernel
    | 1, _ => show parseBid? (preprocessBid "East passes".toList) Seat.E.formal = some .pass; decide +kernel
    | 2, _ => show parseBid? (preprocessBid "South passes".toList) Seat.S.formal = some .pass; decide +kernel
    | 3, _ => show parseBid? (preprocessBid "West passes".toList) Seat.W.formal = some .pass; decide +kernel
  · exact absurd h (Nat.not_lt_zero j)

theorem ex13_bundled : BundledTexts exSc13 .S := by
  intro bd hbd
  simp only [exSc13, List.mem_singleton] at hbd
  subst hbd
  refine ⟨fun j h hr => ?_, fun s0 decl _ _ j h => absurd h (Nat.not_lt_zero j)⟩
  have hj : j < 4 := h
  match j, hj, hr with
  | 0, _, hr => cases hr
  | 1, _, hr => cases hr
  | 2, _, _ => show "South passes".toList = bidMsg .pass Seat.S.formal; decide +kernel
  | 3, _, hr => cases hr

theorem ex13_deal : PartialDeal exBoard13.deal ∧ ∀ q, (exBoard13.deal q).length = 13 := by
  refine ⟨⟨by decide +kernel, fun p => ?_, fun p => Or.inr ?_⟩, fun q => ?_⟩
  · cases p <;> decide +kernel
  · cases p <;> rfl
  · cases q <;> rfl

theorem ex13_s2c : sendsOn (Chan.s2c .S) (sessionProg exSc13 (.seat .S)) =
    ["Teams : N/S : \"Alpha\" E/W : \"Beta\"".toList, "Start of board".toList,
     "Board number 1. Dealer North. Neither vulnerable.".toList,
     "South's cards : S -. H -. D A K Q J T 9 8 7 6 5 4 3 2. C -.".toList,
     "North passes".toList, "East passes".toList, "West passes".toList, "End of session".toList] := by decide +kernel
theorem ex13_calls : scenarioOwnCalls exSc13 .S = [.pass] := by decide +kernel
theorem ex13_cards : scenarioOwnCards exSc13 .S = [] := by decide +kernel

def exS13 : List Text :=
  ["Board number 1. Dealer North. Neither vulnerable.".toList,
   "South's cards : S -. H -. D A K Q J T 9 8 7 6 5 4 3 2. C -.".toList,
   "North passes".toList, "East passes".toList, "West passes".toList, "End of session".toList]
def exI13 : ClientIn := ⟨exS13, [.pass], []⟩

/-- the hand vector the translated `parse_hand` returns for South's diamonds -/
def exHb13 : Val :=
  match callFn P 30 m_Client_parse_hand [.str "S -. H -. D A K Q J T 9 8 7 6 5 4 3 2. C -.".toList] with
  | .ok (.tuple [_, hb], _) => hb
  | _ => .none

theorem ex13DealParses : dealParses 30 .S exI13 (encCards (suitHand .D)) exHb13 := by
  refine ⟨fun k d v hk => ?_, fun t ht => ⟨?_, fun _ => ?_⟩⟩
  · have e : parseBoard? "Board number 1. Dealer North. Neither vulnerable.".toList = some (1, .N, .none) := by
      decide +kernel
    rw [e] at hk
    obtain ⟨rfl, rfl, rfl⟩ : 1 = k ∧ Seat.N = d ∧ Vul.none = v := by simpa using hk
    exact Returns.of_fuel (by with_unfolding_all rfl)
  · have e : parseCards? "South's cards : S -. H -. D A K Q J T 9 8 7 6 5 4 3 2. C -.".toList Seat.S.formal
        = some "S -. H -. D A K Q J T 9 8 7 6 5 4 3 2. C -.".toList := by decide +kernel
    rw [e] at ht
    obtain rfl : "S -. H -. D A K Q J T 9 8 7 6 5 4 3 2. C -.".toList = t := by simpa using ht
    exact Returns.of_fuel (by with_unfolding_all rfl)
  · have e : parseCards? "South's cards : S -. H -. D A K Q J T 9 8 7 6 5 4 3 2. C -.".toList Seat.S.formal
        = some "S -. H -. D A K Q J T 9 8 7 6 5 4 3 2. C -.".toList := by decide +kernel
    rw [e] at ht
    obtain rfl : "S -. H -. D A K Q J T 9 8 7 6 5 4 3 2. C -.".toList = t := by simpa using ht
    exact Returns.of_fuel (by with_unfolding_all rfl)

theorem ex13BoardParses : boardParses 30 .S exI13 := by
  have hd : ∃ d, clientDealR .S exI13 = some (d, (1, .N, .none), suitHand .D, ⟨exS13.drop 2, [.pass], []⟩) :=
    ⟨_, by with_unfolding_all rfl⟩
  obtain ⟨d, hd⟩ := hd
  have hag : ∀ m ∈ exS13.drop 2, ∀ a ∈ Seat.all, parseBidAgrees 30 m a = true := by decide +kernel
  have hres : ∃ b s i2, clientBiddingR .S (320 + 1) (AState.init .N .none) ⟨exS13.drop 2, [.pass], []⟩ = some (b, s, i2) ∧
      s.contract = some ⟨none, false, false, .none, none⟩ :=
    ⟨_, _, _, by with_unfolding_all rfl, by with_unfolding_all rfl⟩
  obtain ⟨b, s, i2, hb, hc⟩ := hres
  refine boardParses_of 30 .S exI13 _ d 1 .N .none (suitHand .D) hd ⟨_, ex13DealParses⟩
    (bidParses_of_agrees 30 .S _ _ _ fun m hm a => hag m hm a (ct_seat_mem a)) ?_
  intro b' s' i2' c' hb' hc' hpo
  rw [hb] at hb'
  simp only [Option.some.injEq, Prod.mk.injEq] at hb'
  obtain ⟨_, rfl, _⟩ := hb'
  rw [hc] at hc'
  simp only [Option.some.injEq] at hc'
  subst hc'
  cases hpo

theorem ex13BoardRun : ∃ acts, clientBoardR .S exI13 = some (acts, MSG_END, ⟨[], [], []⟩) :=
  ⟨_, by with_unfolding_all rfl⟩

theorem ex13ConnectParses (reply : Text) : connectParses 30
    ⟨reply :: sendsOn (Chan.s2c .S) (sessionProg exSc13 (.seat .S)), scenarioOwnCalls exSc13 .S,
      scenarioOwnCards exSc13 .S⟩ := by
  rw [ex13_s2c]
  intro ns ew hh
  rw [exTeams] at hh
  obtain ⟨rfl, rfl⟩ : "Alpha".toList = ns ∧ "Beta".toList = ew := by simpa using hh
  exact Returns.of_fuel (by with_unfolding_all rfl)

theorem ex13BoardsParses : boardsParses 30 .S ((sendsOn (Chan.s2c .S) (sessionProg exSc13 (.seat .S))).length + 1)
    ⟨(sendsOn (Chan.s2c .S) (sessionProg exSc13 (.seat .S))).drop 2, scenarioOwnCalls exSc13 .S,
      scenarioOwnCards exSc13 .S⟩ := by
  rw [ex13_s2c, ex13_calls, ex13_cards]
  obtain ⟨acts, hb⟩ := ex13BoardRun
  exact boardsParses_last 30 .S _ exI13 _ acts hb ex13BoardParses

/-- non-vacuity of (2) — hence of (1) — AS STATED, every hypothesis discharged (the hypotheses of C11 on the scenario, the
parse packages by kernel evaluation of the translated parsers — `parse_hand` on South's thirteen diamonds included):
South's client of team "Alpha", its request answered in the quoted form -/
example : ∃ ops extra', encClientActs .S (sessionProg exSc13 (.client .S)) = some (eraseDecisions ops) ∧
    DealtStar [] extra' ∧
    ∀ f, 8 + 1 + 30 + 178 ≤ f →
      callFn P f m_ClientThread_run
          [encClientThread .S (encClientWorld ("South (\"Alpha\") seated".toList ::
              ["Teams : N/S : \"Alpha\" E/W : \"Beta\"".toList, "Start of board".toList,
               "Board number 1. Dealer North. Neither vulnerable.".toList,
               "South's cards : S -. H -. D A K Q J T 9 8 7 6 5 4 3 2. C -.".toList,
               "North passes".toList, "East passes".toList, "West passes".toList, "End of session".toList])
            [encCall .pass] [] []) "Alpha".toList .none []]
        = .ok (.none, encClientThread .S (encClientWorld [] [] [] ([] ++ connectOps .S "Alpha".toList ++ ops))
            "Alpha".toList (.str "Beta".toList) extra') := by
  have hall : ∀ bd ∈ exSc13.boards, ConformingAuction bd.1 bd.2 ∧ ConformingPlay bd.1 bd.2 ∧ TextsConform bd.1 bd.2 := by
    intro bd hbd
    simp only [exSc13, List.mem_singleton] at hbd
    subst hbd
    exact ⟨ex13_auction, ex13_play, ex13_texts⟩
  have hhands : ∀ bd ∈ exSc13.boards, PartialDeal bd.1.deal ∧ ∀ q, (bd.1.deal q).length = 13 := by
    intro bd hbd
    simp only [exSc13, List.mem_singleton] at hbd
    subst hbd
    exact ex13_deal
  have hnames : NameOK exSc13.nsName ∧ NameOK exSc13.ewName := by
    show NameOK "Alpha".toList ∧ NameOK "Beta".toList
    unfold NameOK
    decide +kernel
  obtain ⟨ops, extra', ho, hd, hx⟩ := translated_client_consumes_everything exSc13 (List.cons_ne_nil _ _) .S hall
    ex13_bundled hhands hnames 30 "South (\"Alpha\") seated".toList [] .none (Or.inr (by decide +kernel))
    (ex13ConnectParses _) ex13BoardsParses
  refine ⟨ops, extra', ho, hd, fun f hf => ?_⟩
  have := hx f (by rw [ex13_s2c, ex13_calls]; exact hf)
  rw [ex13_s2c, ex13_calls, ex13_cards] at this
  exact this

/-- non-vacuity of (1) as stated, on the same scenario: the theorem itself applies -/
example : ∃ ops s' calls' cards' extra',
    encClientActs .S (sessionProg exSc13 (.client .S)) = some (eraseDecisions ops) ∧ DealtStar [] extra' ∧
    ∀ f, (sendsOn (Chan.s2c .S) (sessionProg exSc13 (.seat .S))).length + (scenarioOwnCalls exSc13 .S).length + 30 + 178 ≤ f →
      callFn P f m_ClientThread_run
          [encClientThread .S (encClientWorld ("South Alpha seated".toList :: sendsOn (Chan.s2c .S) (sessionProg exSc13 (.seat .S)))
            ((scenarioOwnCalls exSc13 .S).map encCall) ((scenarioOwnCards exSc13 .S).map encCard) []) (ownName exSc13 .S) .none []]
        = .ok (.none, encClientThread .S (encClientWorld s' calls' cards' ([] ++ connectOps .S (ownName exSc13 .S) ++ ops))
            (ownName exSc13 .S) (.str (oppName exSc13 .S)) extra') :=
  translated_client_is_session_program exSc13 (List.cons_ne_nil _ _) .S
    (fun bd hbd => by
      simp only [exSc13, List.mem_singleton] at hbd
      subst hbd
      exact ⟨ex13_auction, ex13_play, ex13_texts⟩)
    ex13_bundled
    (fun bd hbd => by
      simp only [exSc13, List.mem_singleton] at hbd
      subst hbd
      exact ex13_deal)
    (by show NameOK "Alpha".toList ∧ NameOK "Beta".toList; unfold NameOK; decide +kernel)
    30 "South Alpha seated".toList [] .none (Or.inl (by decide +kernel)) (ex13ConnectParses _) ex13BoardsParses

end Bridge.Translated.ClientD
