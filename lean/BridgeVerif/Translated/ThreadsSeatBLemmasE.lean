import BridgeVerif.Translated.ThreadsSeatBLemmasD
/-! Translated `SeatThread._connect`: the seated branch -/
namespace Bridge.Translated.SeatB
open Bridge Bridge.Py Bridge.Generated.PyCore

set_option maxRecDepth 4000

theorem sb_mth_w_set_table' : P.method? classDepth n__World n_w_set_table = some (n__World, m__World_w_set_table) := rfl

/-- the thread's new name `Thread-<Seat>-(<team>)` -/
def threadName (seat : Seat) (team : Str) : Str :=
  "Thread-".toList ++ seat.formal ++ "-(".toList ++ team ++ ")".toList
theorem sb_threadName (seat : Seat) (team : Str) :
    threadName seat team = "Thread-".toList ++ seat.formal ++ "-(".toList ++ team ++ ")".toList := rfl

theorem sb_connect_seated (M : Nat) (p0 : Seat) (q c : List Str) (req ready start : Str) (out : List Val) (t : Table)
    (tables : List Table) (team : Str) (seat : Seat) (s' : Val)
    (hparse : callF (mkRec P (M+21)) m_PlayerThread_parse_connection_info [.str req]
      = .ok (.tuple [.str team, encSeat seat, .int (18 : Nat)], s'))
    (ht : t seat = none) (hp : ∀ pt, t seat.partner = some pt → pt = team)
    (hr : passesCheck (seat.formal ++ " ready for teams".toList) ready)
    (hs : passesCheck (seat.formal ++ " ready to start".toList) start) :
    callF (mkRec P (M+24)) m_SeatThread__connect
        [.obj n_SeatThread [(n__w, encSeatWorld p0 q (req :: ready :: start :: c) out (encTable t) (tables.map encTable))]]
      = .ok (.bool true, encSeatThread seat (encSeatWorld p0 q c (out ++ [.tuple [vstr "recv"],
          .tuple [vstr "table", encSeat seat, .str team],
          .tuple [vstr "send", .str (replyText ⟨team, seat, 18⟩ t .seated)], .tuple [vstr "recv"],
          .tuple [vstr "event_set", .none], .tuple [vstr "sync"],
          .tuple [vstr "send", .str (teamsMsg (optText ((tables.headD (t.set seat team)) .N))
            (optText ((tables.headD (t.set seat team)) .E)))],
          .tuple [vstr "recv"]]) (encTable (tables.headD (t.set seat team))) (tables.tail.map encTable))
          [(K.name, .str (threadName seat team))]) := by
  rw [callF_def]
  simp only [m_SeatThread__connect, bindParams, Option.map]
  simp only [String.reduceToList] at hr hs
  have h1 := fun f => sb_w_recv f p0 q (ready :: start :: c) req out (encTable t) (tables.map encTable)
  have h3 := fun f c out tb tbs k a => sb_w_op f [(qkey "m2t" p0, vtexts q), (vstr "conn", vtexts c)] out tb tbs false k a
  have h4 := fun f c out t tbs p name => sb_w_set_table' f [(qkey "m2t" p0, vtexts q), (vstr "conn", vtexts c)] out t tbs false p name
  have h5 := fun f c out tb tbs m => sb_w_send f [(qkey "m2t" p0, vtexts q), (vstr "conn", vtexts c)] out tb tbs false m
  have h6 := fun f out tb tbs rest => sb_check_pass f p0 q (start :: c) ready _ out tb tbs rest hr
  have h7 := fun f out tb tbs rest => sb_check_pass f p0 q c start _ out tb tbs rest hs
  have h8 := fun f c out tb tbs rest => sb_sync_event f [(qkey "m2t" p0, vtexts q), (vstr "conn", vtexts c)] out tb tbs false rest
  simp only [encSeatWorld, encWorld] at h1 h3 h4 h5 h6 h7 h8 ⊢
  cases hq : t seat.partner with
  | none =>
    ppsimp [sb_mth_w_recv, h1, sb_mth_parse, hparse, sb_beq_18, sb_strOf_str, sb_strOf_opt, sb_mth_w_op, h3,
      List.append_assoc, sb_index_table, ht, hq, sb_str_beq_none, sb_formal, getAttr_partner, sb_str_beq,
      sb_mth_w_set_table', h4, sb_mth_w_send, h5, sb_flat2, sb_mth_check_message, h6, sb_mth_sync_event, h8,
      sb_index_table_N, sb_index_table_E, sb_headD_tables, sb_tail_tables, h7]
    sbtext [sb_threadName]
  | some pt =>
    have := hp pt hq
    subst this
    ppsimp [sb_mth_w_recv, h1, sb_mth_parse, hparse, sb_beq_18, sb_strOf_str, sb_strOf_opt, sb_mth_w_op, h3,
      List.append_assoc, sb_index_table, ht, hq, sb_str_beq_none, sb_formal, getAttr_partner, sb_str_beq,
      sb_mth_w_set_table', h4, sb_mth_w_send, h5, sb_flat2, sb_mth_check_message, h6, sb_mth_sync_event, h8,
      sb_index_table_N, sb_index_table_E, sb_headD_tables, sb_tail_tables, h7]
    sbtext [sb_threadName]

/-- seated, but the client's next message is not `<Seat> ready for teams`: the error is sent, the connection closed, the
verdict signalled, `False` returned — the seat STAYS written (the code does not undo it) -/
theorem sb_connect_seated_notReady (M : Nat) (p0 : Seat) (q c : List Str) (req ready : Str) (out : List Val) (t : Table)
    (tbs : List Val) (team : Str) (seat : Seat) (s' : Val)
    (hparse : callF (mkRec P (M+21)) m_PlayerThread_parse_connection_info [.str req]
      = .ok (.tuple [.str team, encSeat seat, .int (18 : Nat)], s'))
    (ht : t seat = none) (hp : ∀ pt, t seat.partner = some pt → pt = team)
    (hr : failsCheck (seat.formal ++ " ready for teams".toList) ready) :
    callF (mkRec P (M+24)) m_SeatThread__connect
        [.obj n_SeatThread [(n__w, encSeatWorld p0 q (req :: ready :: c) out (encTable t) tbs)]]
      = .ok (.bool false, encSeatThread seat (encSeatWorld p0 q c (out ++ [.tuple [vstr "recv"],
          .tuple [vstr "table", encSeat seat, .str team],
          .tuple [vstr "send", .str (replyText ⟨team, seat, 18⟩ t .seated)], .tuple [vstr "recv"],
          .tuple [vstr "send", vstr "ERROR: Unexpected message received."], .tuple [vstr "close", .none],
          .tuple [vstr "event_set", .none]]) (encTable (t.set seat team)) tbs) []) := by
  rw [callF_def]
  simp only [m_SeatThread__connect, bindParams, Option.map]
  simp only [String.reduceToList] at hr
  have h1 := fun f => sb_w_recv f p0 q (ready :: c) req out (encTable t) tbs
  have h3 := fun f c out tb tbs k a => sb_w_op f [(qkey "m2t" p0, vtexts q), (vstr "conn", vtexts c)] out tb tbs false k a
  have h4 := fun f c out t tbs p name => sb_w_set_table' f [(qkey "m2t" p0, vtexts q), (vstr "conn", vtexts c)] out t tbs false p name
  have h5 := fun f c out tb tbs m => sb_w_send f [(qkey "m2t" p0, vtexts q), (vstr "conn", vtexts c)] out tb tbs false m
  have h6 := fun f out tb tbs rest => sb_check_fail f p0 q c ready _ out tb tbs rest hr
  simp only [encSeatWorld, encWorld] at h1 h3 h4 h5 h6 ⊢
  cases hq : t seat.partner with
  | none =>
    ppsimp [sb_mth_w_recv, h1, sb_mth_parse, hparse, sb_beq_18, sb_strOf_str, sb_mth_w_op, h3,
      List.append_assoc, sb_index_table, ht, hq, sb_str_beq_none, sb_formal, getAttr_partner, sb_str_beq,
      sb_mth_w_set_table', h4, sb_mth_w_send, h5, sb_flat2, sb_mth_check_message, h6]
    sbtext []
  | some pt =>
    have := hp pt hq
    subst this
    ppsimp [sb_mth_w_recv, h1, sb_mth_parse, hparse, sb_beq_18, sb_strOf_str, sb_mth_w_op, h3,
      List.append_assoc, sb_index_table, ht, hq, sb_str_beq_none, sb_formal, getAttr_partner, sb_str_beq,
      sb_mth_w_set_table', h4, sb_mth_w_send, h5, sb_flat2, sb_mth_check_message, h6]
    sbtext []

/-- seated and past the barrier, but the client's answer to the `Teams` message is not `<Seat> ready to start`: the error
is sent, the connection closed, `False` returned (the verdict was signalled before the barrier) -/
theorem sb_connect_seated_notStart (M : Nat) (p0 : Seat) (q c : List Str) (req ready start : Str) (out : List Val)
    (t : Table) (tables : List Table) (team : Str) (seat : Seat) (s' : Val)
    (hparse : callF (mkRec P (M+21)) m_PlayerThread_parse_connection_info [.str req]
      = .ok (.tuple [.str team, encSeat seat, .int (18 : Nat)], s'))
    (ht : t seat = none) (hp : ∀ pt, t seat.partner = some pt → pt = team)
    (hr : passesCheck (seat.formal ++ " ready for teams".toList) ready)
    (hs : failsCheck (seat.formal ++ " ready to start".toList) start) :
    callF (mkRec P (M+24)) m_SeatThread__connect
        [.obj n_SeatThread [(n__w, encSeatWorld p0 q (req :: ready :: start :: c) out (encTable t) (tables.map encTable))]]
      = .ok (.bool false, encSeatThread seat (encSeatWorld p0 q c (out ++ [.tuple [vstr "recv"],
          .tuple [vstr "table", encSeat seat, .str team],
          .tuple [vstr "send", .str (replyText ⟨team, seat, 18⟩ t .seated)], .tuple [vstr "recv"],
          .tuple [vstr "event_set", .none], .tuple [vstr "sync"],
          .tuple [vstr "send", .str (teamsMsg (optText ((tables.headD (t.set seat team)) .N))
            (optText ((tables.headD (t.set seat team)) .E)))],
          .tuple [vstr "recv"], .tuple [vstr "send", vstr "ERROR: Unexpected message received."],
          .tuple [vstr "close", .none]]) (encTable (tables.headD (t.set seat team))) (tables.tail.map encTable)) []) := by
  rw [callF_def]
  simp only [m_SeatThread__connect, bindParams, Option.map]
  simp only [String.reduceToList] at hr hs
  have h1 := fun f => sb_w_recv f p0 q (ready :: start :: c) req out (encTable t) (tables.map encTable)
  have h3 := fun f c out tb tbs k a => sb_w_op f [(qkey "m2t" p0, vtexts q), (vstr "conn", vtexts c)] out tb tbs false k a
  have h4 := fun f c out t tbs p name => sb_w_set_table' f [(qkey "m2t" p0, vtexts q), (vstr "conn", vtexts c)] out t tbs false p name
  have h5 := fun f c out tb tbs m => sb_w_send f [(qkey "m2t" p0, vtexts q), (vstr "conn", vtexts c)] out tb tbs false m
  have h6 := fun f out tb tbs rest => sb_check_pass f p0 q (start :: c) ready _ out tb tbs rest hr
  have h7 := fun f out tb tbs rest => sb_check_fail f p0 q c start _ out tb tbs rest hs
  have h8 := fun f c out tb tbs rest => sb_sync_event f [(qkey "m2t" p0, vtexts q), (vstr "conn", vtexts c)] out tb tbs false rest
  simp only [encSeatWorld, encWorld] at h1 h3 h4 h5 h6 h7 h8 ⊢
  cases hq : t seat.partner with
  | none =>
    ppsimp [sb_mth_w_recv, h1, sb_mth_parse, hparse, sb_beq_18, sb_strOf_str, sb_strOf_opt, sb_mth_w_op, h3,
      List.append_assoc, sb_index_table, ht, hq, sb_str_beq_none, sb_formal, getAttr_partner, sb_str_beq,
      sb_mth_w_set_table', h4, sb_mth_w_send, h5, sb_flat2, sb_mth_check_message, h6, sb_mth_sync_event, h8,
      sb_index_table_N, sb_index_table_E, sb_headD_tables, sb_tail_tables, h7]
    sbtext []
  | some pt =>
    have := hp pt hq
    subst this
    ppsimp [sb_mth_w_recv, h1, sb_mth_parse, hparse, sb_beq_18, sb_strOf_str, sb_strOf_opt, sb_mth_w_op, h3,
      List.append_assoc, sb_index_table, ht, hq, sb_str_beq_none, sb_formal, getAttr_partner, sb_str_beq,
      sb_mth_w_set_table', h4, sb_mth_w_send, h5, sb_flat2, sb_mth_check_message, h6, sb_mth_sync_event, h8,
      sb_index_table_N, sb_index_table_E, sb_headD_tables, sb_tail_tables, h7]
    sbtext []

end Bridge.Translated.SeatB
