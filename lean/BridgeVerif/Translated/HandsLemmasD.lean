import BridgeVerif.Translated.HandsLemmasC
/-! Translated `Hands` (hands.py) = model: `_convert_hand_to_pbn` (the `for suit in (S, H, D, C)` loop unrolled) and
`to_pbn` (the `for _ in range(4)` loop unrolled, by cases on which hand is the first to fail its assertion) -/
namespace Bridge.Translated
open Bridge Bridge.Py Bridge.Generated.PyCore

theorem hd_natCast_beq_13 (n : Nat) : ((n : Int) == 13) = decide (n = 13) := by
  rw [Bool.eq_iff_iff]; simp only [beq_iff_eq, decide_eq_true_eq]; omega

theorem hands_chp_call (f : Nat) (hand : List Card) (hr : hand.length = 13 → ∀ c ∈ hand, 2 ≤ c.rank ∧ c.rank ≤ 14) :
    callF (mkRec P (f+40)) m_Hands__convert_hand_to_pbn [.tuple (hand.map encCard)]
      = match handToPbn? hand with
        | some s => .ok (.str s, .tuple (hand.map encCard))
        | none => .error (.exc K.AssertionError) := by
  rw [callF_def]
  simp only [m_Hands__convert_hand_to_pbn, bindParams, Option.map]
  by_cases h0 : hand.length = 0
  · ppsimp [len_cards, beq_int, natCast_beq_zero, h0, handToPbn?]
  · by_cases h13 : hand.length = 13
    · have hr := hr h13
      have hr2 : ∀ c ∈ hand, 2 ≤ c.rank := fun c hc => (hr c hc).1
      have hrs : ∀ c ∈ sortDesc hand, 2 ≤ c.rank ∧ c.rank ≤ 14 :=
        fun c hc => hr c ((sortDesc_perm hand).mem_iff.1 hc)
      have hc := fun f env su hs => hands_comp_suit f env su hs (sortDesc hand) hrs
      ppsimp [len_cards, beq_int, natCast_beq_zero, hd_natCast_beq_13, h0, h13, builtin_tuple_tuple, hd_sortedDesc,
        hd_sortAscZ_reverse hand hr2, builtin_tuple_nil, forF, iterItems_tuple]
      rw [hc _ _ .S rfl]
      ppsimp [hd_join_chars, iterItems_tuple]
      rw [hc _ _ .H rfl]
      ppsimp [hd_join_chars, iterItems_tuple]
      rw [hc _ _ .D rfl]
      ppsimp [hd_join_chars, iterItems_tuple]
      rw [hc _ _ .C rfl]
      ppsimp [hd_join_chars, iterItems_tuple, hd_join_dots]
      have e : handToPbn? hand = some (List.intercalate ['.']
          [List.map (fun a => rankCh a.rank) (List.filter (fun c => decide (c.suit = Suit.S)) (sortDesc hand)),
           List.map (fun a => rankCh a.rank) (List.filter (fun c => decide (c.suit = Suit.H)) (sortDesc hand)),
           List.map (fun a => rankCh a.rank) (List.filter (fun c => decide (c.suit = Suit.D)) (sortDesc hand)),
           List.map (fun a => rankCh a.rank) (List.filter (fun c => decide (c.suit = Suit.C)) (sortDesc hand))]) := by
        simp only [handToPbn?, h13, if_false, ne_eq, not_true_eq_false, pbnSuits, List.map_cons, List.map_nil, rankCh]
        rfl
      rw [e]
    · ppsimp [len_cards, beq_int, natCast_beq_zero, hd_natCast_beq_13, h0, h13, handToPbn?]

/-! ## `to_pbn` -/
theorem hd_mth_chp : P.method? classDepth n_Hands n__convert_hand_to_pbn = some (n_Hands, m_Hands__convert_hand_to_pbn) := rfl
theorem hd_str_seat (f : Nat) (p : Seat) : strOfF (mkRec P (f+6)) P (encSeat p) = .ok p.name := by
  cases p <;> rfl
theorem hd_str_str (r : Rec) (s : List Char) : strOfF r P (.str s) = .ok s := rfl
theorem hd_normIndex_4 : normIndex 4 0 = some 0 ∧ normIndex 4 1 = some 1 ∧ normIndex 4 2 = some 2 ∧ normIndex 4 3 = some 3 := by
  decide

theorem hd_range4 : (List.range (Int.toNat 4)).map (fun i => Val.int (Int.ofNat i)) = [.int 0, .int 1, .int 2, .int 3] := rfl

theorem hands_to_pbn_call (f : Nat) (h : Hands) (first : Seat)
    (hr : ∀ p, (h p).length = 13 → ∀ c ∈ h p, 2 ≤ c.rank ∧ c.rank ≤ 14) :
    callF (mkRec P (f+60)) m_Hands_to_pbn [encHands h, encSeat first]
      = match toPbn? h first with
        | some s => .ok (.str s, encHands h)
        | none => .error (.exc K.AssertionError) := by
  rw [callF_def]
  simp only [m_Hands_to_pbn, bindParams, Option.map]
  have hc := fun f p => hands_chp_call f (h p) (hr p)
  cases e0 : handToPbn? (h first) with
  | none =>
    have et : toPbn? h first = none := by simp [toPbn?, seatsFrom, e0]
    rw [et]
    ppsimp [builtin_tuple_nil, builtin_range, iterItems_tuple, hd_range4, forF, hd_index_hands, hands_mth_getitem,
      hands_getitem_call, hd_mth_chp, hc, e0]
  | some s0 =>
   cases e1 : handToPbn? (h first.left) with
   | none =>
    have et : toPbn? h first = none := by simp [toPbn?, seatsFrom, e0, e1]
    rw [et]
    ppsimp [builtin_tuple_nil, builtin_range, iterItems_tuple, hd_range4, forF, hd_index_hands, hands_mth_getitem,
      hands_getitem_call, hd_mth_chp, hc, e0, e1, getAttr_next]
   | some s1 =>
    cases e2 : handToPbn? (h first.left.left) with
    | none =>
      have et : toPbn? h first = none := by simp [toPbn?, seatsFrom, e0, e1, e2]
      rw [et]
      ppsimp [builtin_tuple_nil, builtin_range, iterItems_tuple, hd_range4, forF, hd_index_hands, hands_mth_getitem,
        hands_getitem_call, hd_mth_chp, hc, e0, e1, e2, getAttr_next]
    | some s2 =>
     cases e3 : handToPbn? (h first.left.left.left) with
     | none =>
      have et : toPbn? h first = none := by simp [toPbn?, seatsFrom, e0, e1, e2, e3]
      rw [et]
      ppsimp [builtin_tuple_nil, builtin_range, iterItems_tuple, hd_range4, forF, hd_index_hands, hands_mth_getitem,
        hands_getitem_call, hd_mth_chp, hc, e0, e1, e2, e3, getAttr_next]
     | some s3 =>
      have et : toPbn? h first = some (first.name ++ [':'] ++ s0 ++ [' '] ++ s1 ++ [' '] ++ s2 ++ [' '] ++ s3) := by
        simp [toPbn?, seatsFrom, e0, e1, e2, e3]
      rw [et]
      ppsimp [builtin_tuple_nil, builtin_range, iterItems_tuple, hd_range4, forF, hd_index_hands, hands_mth_getitem,
        hands_getitem_call, hd_mth_chp, hc, e0, e1, e2, e3, getAttr_next, index_tuple, hd_normIndex_4,
        List.getD_cons_zero, List.getD_cons_succ, Nat.reduceAdd, hd_str_seat, hd_str_str]
      simp only [List.flatten_cons, List.flatten_nil, List.append_assoc, List.append_nil]
end Bridge.Translated
