import BridgeVerif.Translated.ThreadsMainCLemmasD
/-! Translated `MainThread.run`: ONE iteration of the board loop is `mainBoardR` -/
set_option maxRecDepth 4000
set_option linter.unusedSimpArgs false
namespace Bridge.Translated.MainC
open Bridge Bridge.Py Bridge.Generated.PyCore Bridge.Translated.MainA Bridge.Translated.MainB

/-- the variables one iteration of the board loop may write -/
def boardVars : List Id := headVars ++ tailVars

def opEmitClose : Val := .tuple [vstr "emit", vstr "close", .none]

/-- the operations after the loop that the model counts with the last board -/
def lastOps (last : Prop) [Decidable last] : List Val := if last then opEmitClose :: opsPutAll MSG_END else []

theorem mc_finActs_ops (last : Prop) [Decidable last] (r : BoardRecord) :
    encMainActs encRecord (finActs (decide last) r)
      = some ((opEmitWrite (encRecord r) :: (if last then [] else opsPutAll MSG_NEXT)) ++ lastOps last) := by
  by_cases h : last
  · simp only [finActs, h, decide_true, if_true, lastOps]; rfl
  · simp only [finActs, h, decide_false, if_false, lastOps, Bool.false_eq_true]; rfl

theorem mc_strip_cons (v : Val) (l : List Val) (h : v.beq opSleep = false) : stripSleep (v :: l) = v :: stripSleep l := by
  simp only [stripSleep, List.filter, h, Bool.not_false]

theorem mc_emit_not_sleep (v : Val) : (opEmitWrite v).beq opSleep = false := by
  simp [opEmitWrite, opSleep, Val.beq, beqL, vstr]

theorem mc_callFn_callF (f : Nat) (fd : FuncDef) (args : List Val) :
    callFn P (f + 1) fd args = callF (mkRec P f) fd args := rfl

/-- the table after the two barrier waits of `deal` -/
def tableAfterDeal (table : Val) (tables : List Val) : Val × List Val :=
  advTable (advTable table tables).1 (advTable table tables).2

/-- the bidding hypothesis in the form the symbolic execution uses -/
theorem mc_bidding_calls (F : Nat) (b : BoardSetting) (i i1 : MainIn) (bid : MainActs) (s : AState) (c : Contract)
    (hbidR : mainBiddingR 321 (AState.init b.dealer b.vul) i = some (bid, s, i1)) (hc : s.contract = some c)
    (hmsgs : BidMsgsOK F 321 (AState.init b.dealer b.vul) i) (more : List (Val × Val)) (bs : Val) :
    ∃ bidOps, encMainActs encRecord bid = some bidOps ∧
      ∀ f0, 321 + F + 70 ≤ f0 → ∀ j out T TS, callF (mkRec P (f0 + j)) m_MainThread_bidding_phase
          [encMainThread (encMainWorld i out T TS more) bs, encSeat b.dealer, encVul b.vul]
        = .ok (.tuple [encContract c, .tuple (s.history.reverse.map encCall)],
               encMainThread (encMainWorld i1 (out ++ bidOps) T TS more) bs) := by
  obtain ⟨c0, bidOps, hc0, hops, _⟩ := main_bidding_translated encRecord F 321 b.dealer b.vul i bid s i1 hbidR hmsgs
    [] .none [] more bs (321 + F + 70) (Nat.le_refl _)
  refine ⟨bidOps, hops, ?_⟩
  intro f0 hf0 j out T TS
  obtain ⟨c1, ops1, hc1, hops1, hcall⟩ := main_bidding_translated encRecord F 321 b.dealer b.vul i bid s i1 hbidR hmsgs
    out T TS more bs (f0 + j + 1) (by omega)
  have e1 : c1 = c := by rw [hc] at hc1; exact (Option.some.inj hc1).symm
  have e2 : ops1 = bidOps := by rw [hops] at hops1; exact (Option.some.inj hops1).symm
  subst e1; subst e2
  exact hcall

/-- ONE ITERATION of the board loop, a PASSED-OUT board -/
theorem mc_board_passed_out (sc : Scenario) (F k n : Nat) (b : BoardSetting) (i i1 : MainIn) (bid : MainActs) (s : AState)
    (c : Contract)
    (hbidR : mainBiddingR 321 (AState.init b.dealer b.vul) i = some (bid, s, i1)) (hc : s.contract = some c)
    (hpo : c.isPassedOut = true)
    (hmsgs : BidMsgsOK F 321 (AState.init b.dealer b.vul) i)
    (hok : ∀ p, ∀ c ∈ b.deal p, 2 ≤ c.rank ∧ c.rank ≤ 14)
    (boards : List BoardSetting) (h1 : 1 ≤ k) (hb : boards[k-1]? = some b)
    (more : List (Val × Val)) :
    ∃ opsS, encMainActs encRecord (mainDealR k b ++ bid ++ [] ++
          finActs (decide (k = n)) (recordFrom sc b s.history.reverse c none))
        = some (stripSleep opsS ++ lastOps (k = n)) ∧
      ∀ (env : Env) (out : List Val) (table : Val) (tables : List Val),
      lookup env K.self
        = some (encMainThread (encMainWorld i out table tables more) (.tuple (boards.map encBoardSetting))) →
      lookup env n_board_number = some (.int k) →
      lookup env n_max_board_num = some (.int ((n : Int) + 1)) →
      lookup env n_ns_team_name = some (.str sc.nsName) →
      lookup env n_ew_team_name = some (.str sc.ewName) →
      ∀ f, F + 700 ≤ f → ∃ env', exec P f env mcBoardBody = .ok (env', if k = n then .brk else .next) ∧
        lookup env' K.self = some (encMainThread (encMainWorld i1 (out ++ opsS) (tableAfterDeal table tables).1
          (tableAfterDeal table tables).2 more) (.tuple (boards.map encBoardSetting))) ∧
        Frame boardVars env env' := by
  obtain ⟨bidOps, hbidops, hbidcalls⟩ := mc_bidding_calls F b i i1 bid s c hbidR hc hmsgs more
    (.tuple (boards.map encBoardSetting))
  have hrec := mc_record_passed_out sc b s.history.reverse c hpo none
  refine ⟨dealOps k b ++ bidOps ++ (opEmitWrite (encRecord (recordFrom sc b s.history.reverse c none)) ::
      (if k = n then [] else opsPutAll MSG_NEXT)), ?_, ?_⟩
  · have hfin := mc_finActs_ops (k = n) (recordFrom sc b s.history.reverse c none)
    have h12 := MainB.encMainActs_append encRecord _ _ _ _ (main_deal_ops encRecord k b) hbidops
    have h123 := MainB.encMainActs_append encRecord _ _ _ _ h12 (rfl : encMainActs encRecord [] = some [])
    have hall := MainB.encMainActs_append encRecord _ _ _ _ h123 hfin
    rw [hall]
    have hs1 : stripSleep (dealOps k b ++ bidOps) = dealOps k b ++ bidOps := encMainActs_no_sleep encRecord _ _ h12
    have hs2 : stripSleep (opEmitWrite (encRecord (recordFrom sc b s.history.reverse c none)) ::
        (if k = n then [] else opsPutAll MSG_NEXT)) = opEmitWrite (encRecord (recordFrom sc b s.history.reverse c none)) ::
        (if k = n then [] else opsPutAll MSG_NEXT) := by
      rw [mc_strip_cons _ _ (mc_emit_not_sleep _)]
      by_cases hkn : k = n
      · simp only [hkn, if_true]; rfl
      · simp only [hkn, if_false]; exact congrArg _ (encMainActs_no_sleep encRecord _ _ (encMainActs_putAll encRecord MSG_NEXT))
    rw [stripSleep_append, hs1, hs2]
    simp only [List.append_assoc, List.append_nil]
  · intro env out table tables hself hk hmax hns hew f hf
    obtain ⟨f0, rfl⟩ : ∃ f0, f = f0 + 101 := ⟨f - 101, by omega⟩
    have hb' : (boards.map encBoardSetting)[k-1]? = some (encBoardSetting b) := by
      rw [List.getElem?_map, hb]; rfl
    obtain ⟨e1, h1e, hs1, hc1, hbh1, hcards1, hdealer1, hbid1, hdda1, hf1⟩ := mc_head f0 env i i1 out table tables more
      (boards.map encBoardSetting) k b c s.history.reverse bidOps hself hk h1 hb' hok (hbidcalls f0 (by omega))
    obtain ⟨e2, h2e, hph2, htt2, hsc2, hf2⟩ := mc_play_passed_out f0 e1 c hpo hc1
    obtain ⟨e3, h3e, hs3, hf3⟩ := mc_tail f0 e2 c i1 _ _ _ more _ (.str b.boardId) (.str sc.ewName) (.str sc.nsName)
      (encSeat b.dealer) (.dict (handsKvs b.deal)) (.tuple (s.history.reverse.map encCall)) .none .none (encDdaOpt b.dda) 0 k n
      (by rw [hf2 _ (by decide), hs1]) (by rw [hf2 _ (by decide), hc1]) (by rw [hf2 _ (by decide), hbid1])
      (by rw [hf2 _ (by decide), hf1 _ (by decide), hew]) (by rw [hf2 _ (by decide), hf1 _ (by decide), hns])
      (by rw [hf2 _ (by decide), hdealer1]) (by rw [hf2 _ (by decide), hcards1]) (by rw [hf2 _ (by decide), hbh1])
      hph2 htt2 hsc2 (by rw [hf2 _ (by decide), hdda1]) (by rw [hf2 _ (by decide), hf1 _ (by decide), hk])
      (by rw [hf2 _ (by decide), hf1 _ (by decide), hmax])
    refine ⟨e3, ?_, ?_, ?_⟩
    · show execF (mkRec P (f0 + 100)) P env mcBoardBody = _
      rw [mcBoardBody_eq, mb_execF_append _ _ _ _ _ h1e, mb_execF_cons _ _ _ _ _ h2e, h3e]
    · rw [hs3, hrec]
      simp only [tableAfterDeal, List.append_assoc]
    · exact ((hf1.mono (by decide)).trans (hf2.mono (by decide))).trans (hf3.mono (by decide))

end Bridge.Translated.MainC
