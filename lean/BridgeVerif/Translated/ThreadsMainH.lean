import BridgeVerif.Translated.ThreadsMainG
/-!
# `MainThread.playing_phase` RAISES on a card text the model's parser refuses — after any number of completed tricks

`main_playing_unparseable_raises` : the streams hold texts of the class `RegexMsgBid.agree` (every ASCII text); the model
plays any number of complete tricks (`mainTrickR` succeeds), then, in the current trick, any run of accepted cards, then
meets a text `parseCard?` refuses for the seat on turn (`mainPlayingUnparseable`).  Then the translated
`MainThread.playing_phase(contract, cards)` raises one of `cardErrs` (`Exception`, `IndexError`, `ValueError`, `KeyError`) at
every fuel ≥ 80 — out of the statement `card = MessageInterface.parse_card(...)` of that card (`ThreadsMainG`), i.e. before
`play_card` and before the relay of the card to the other seats.
-/
set_option maxRecDepth 4000
set_option linter.unusedSimpArgs false
namespace Bridge.Translated.MainB
open Bridge Bridge.Py Bridge.Generated.PyCore
open Bridge.Translated.MsgParsers Bridge.RegexMsgBid

/-- `n` tricks from trick number `k` on: complete tricks, then a trick in which the model comes to a refused text -/
def mainPlayingUnparseable (decl : Seat) (dm : Text) : Nat → Nat → WithHands → MainIn → Bool
  | 0, _, _, _ => false
  | n + 1, k, w, i =>
    match mainTrickR decl dm (k = 1) 0 w i with
    | some (_, w', i') => mainPlayingUnparseable decl dm n (k + 1) w' i'
    | none => mainTrickUnparseable decl 4 w i

/-- a trick only consumes messages -/
theorem mainTrickR_sub (decl : Seat) (dm : Text) (first : Bool) : ∀ (n idx : Nat), idx + n = 4 →
    ∀ (w wf : WithHands) (i i_f : MainIn) (acts : MainActs), mainTrickR decl dm first idx w i = some (acts, wf, i_f) →
      ∀ p, ∀ m ∈ i_f p, m ∈ i p := by
  intro n
  induction n with
  | zero =>
    intro idx hidx w wf i i_f acts hr
    have : idx = 4 := by omega
    subst this
    rw [mainTrickR_four] at hr
    simp only [Option.some.injEq, Prod.mk.injEq] at hr
    obtain ⟨_, _, rfl⟩ := hr
    exact fun p m hm => hm
  | succ n ih =>
    intro idx hidx w wf i i_f acts hr
    obtain ⟨message, i1, card, w1, rest, hget, _, _, hrest, _⟩ := mainTrickR_inv (by omega) hr
    have h1 := ih (idx + 1) (by omega) w1 wf i1 i_f rest hrest
    exact fun p m hm => (MainD.get_mem hget).2 p m (h1 p m hm)

theorem allParse_of_agree (i : MainIn) (h : ∀ p, ∀ m ∈ i p, ∀ x ∈ m, agree x = true) : AllParse i :=
  fun p m hm a card hc => parse_card_translated m (h p m hm) a card hc

theorem mb_tricks_loop_unparseable (f : Nat) (decl : Seat) (c : Contract) (deal : Seat → List Card)
    (table : Val) (tables : List Val) (more : List (Val × Val)) (bs : Val)
    (hok : ∀ c ∈ deal decl.partner, 2 ≤ c.rank ∧ c.rank ≤ 14) :
    ∀ (n k : Nat) (env : Env) (w : WithHands) (i : MainIn) (out : List Val),
      lookup env K.self = some (encMainThread (encMainWorld i out table tables more) bs) →
      lookup env n_playing_env = some (encWithHands c w) →
      lookup env n_cards = some (.dict (handsKvs deal)) →
      MInv decl w →
      (∀ p, ∀ m ∈ i p, ∀ x ∈ m, agree x = true) →
      mainPlayingUnparseable decl (cardsMsg "Dummy".toList (deal decl.partner)) n k w i = true →
      ∃ e ∈ cardErrs, forF (mkRec P (f+73)) [n_trick_num] mbTrickBody env (natItems k n) = .error (.exc e) := by
  intro n
  induction n with
  | zero => intro k env w i out _ _ _ _ _ h; simp [mainPlayingUnparseable] at h
  | succ n ih =>
    intro k env w i out hself hpe hcards hinv hasc h
    have hne : ∀ y, n_trick_num ≠ y → lookup (update env n_trick_num (.int (Int.ofNat k))) y = lookup env y :=
      fun y hy => lookup_update_ne _ _ _ _ hy
    cases ht : mainTrickR decl (cardsMsg "Dummy".toList (deal decl.partner)) (k = 1) 0 w i with
    | none =>
      simp only [mainPlayingUnparseable, ht] at h
      obtain ⟨e, he, hraise⟩ := main_trick_unparseable_raises decl c deal table tables more bs k
        (update env n_trick_num (.int (Int.ofNat k))) w i out (by rw [hne _ (by decide), hself])
        (by rw [hne _ (by decide), hpe]) (lookup_update_same _ _ _) (by rw [hne _ (by decide), hcards]) hinv hasc h hok
        (f + 73) (by omega)
      refine ⟨e, he, ?_⟩
      rw [natItems_succ]
      exact mb_forF_err _ _ _ _ _ _ _ hraise
    | some x =>
      obtain ⟨t, w1, i1⟩ := x
      simp only [mainPlayingUnparseable, ht] at h
      obtain ⟨e1, tops, h1, _, hs1, hp1, hinv1, hf1⟩ := mb_trick (fun _ => .none) f decl c deal table tables more bs k hok
        (update env n_trick_num (.int (Int.ofNat k))) w i out t w1 i1 (by rw [hne _ (by decide), hself])
        (by rw [hne _ (by decide), hpe]) (lookup_update_same _ _ _) (by rw [hne _ (by decide), hcards]) hinv ht
        (trickParses_of_all decl 4 w i (allParse_of_agree i hasc))
      have hsub := mainTrickR_sub decl _ _ 4 0 rfl w w1 i i1 t ht
      obtain ⟨e, he, h2⟩ := ih (k + 1) e1 w1 i1 _ hs1 hp1
        (by rw [hf1 _ (by decide), hne _ (by decide), hcards]) hinv1 (fun p m hm => hasc p m (hsub p m hm)) h
      refine ⟨e, he, ?_⟩
      rw [natItems_succ, mb_forF_cons _ _ _ _ e1 _ _ h1, h2]

theorem mb_playing_call_unparseable (f : Nat) (contract : Contract) (deal : Seat → List Card)
    (decl : Seat) (w0 : WithHands) (i : MainIn) (out : List Val) (table : Val)
    (tables : List Val) (more : List (Val × Val)) (bs : Val)
    (hw0 : WithHands.init contract deal = some w0)
    (hdecl : contract.declarer = some decl)
    (hasc : ∀ p, ∀ m ∈ i p, ∀ x ∈ m, agree x = true)
    (hbad : mainPlayingUnparseable decl (cardsMsg "Dummy".toList (deal decl.partner)) 13 1 w0 i = true)
    (hok : ∀ c ∈ deal decl.partner, 2 ≤ c.rank ∧ c.rank ≤ 14) :
    ∃ e ∈ cardErrs, callF (mkRec P (f+79)) m_MainThread_playing_phase
          [encMainThread (encMainWorld i out table tables more) bs, encContract contract, .dict (handsKvs deal)]
        = .error (.exc e) := by
  let env0 : Env := [(K.self, encMainThread (encMainWorld i out table tables more) bs), (n_contract, encContract contract),
    (n_cards, .dict (handsKvs deal))]
  have h0 := mb_new (f+18) env0 contract deal w0 rfl rfl hw0
  have h0' : execStmtF (mkRec P (f+78)) P env0 mbNew = .ok (update env0 n_playing_env (encWithHands contract w0), .next) := h0
  have hinv0 := minv_init contract deal w0 decl hw0 hdecl
  obtain ⟨e1, h1, hs1, hf1⟩ := mb_loop_decl (f+48) (update env0 n_playing_env (encWithHands contract w0)) i out table
    tables more bs contract w0 rfl rfl
  have h1' : execStmtF (mkRec P (f+78)) P (update env0 n_playing_env (encWithHands contract w0)) mbDeclLoop
      = .ok (e1, .next) := h1
  rw [hinv0.2.1] at hs1
  obtain ⟨e, he, h2⟩ := mb_tricks_loop_unparseable (f+5) decl contract deal table tables more bs
    hok 13 1 e1 w0 i _ hs1 (by rw [hf1 _ (by decide)]; rfl) (by rw [hf1 _ (by decide)]; rfl) hinv0 hasc hbad
  have h2' : execStmtF (mkRec P (f+78)) P e1 mbTricksLoop = .error (.exc e) := by
    rw [mb_tricksLoop_stmt (f+76) e1]; exact h2
  refine ⟨e, he, ?_⟩
  rw [callF_def]
  have hb : (mkRec P (f+79)).exec env0 m_MainThread_playing_phase.body = .error (.exc e) := by
    rw [exec_succ, mbBody_eq, mb_execF_cons _ _ _ _ _ h0', mb_execF_cons _ _ _ _ _ h1']
    simp only [execF, h2', bind_err]
  have hparams : bindParams m_MainThread_playing_phase.params m_MainThread_playing_phase.defaults
      [encMainThread (encMainWorld i out table tables more) bs, encContract contract, .dict (handsKvs deal)]
      = some env0 := rfl
  rw [hparams]
  simp only [hb, bind_err]

/-- THE UNPARSEABLE-CARD BRANCH of `MainThread.playing_phase` -/
theorem main_playing_unparseable_raises (contract : Contract) (deal : Seat → List Card)
    (decl : Seat) (w0 : WithHands) (i : MainIn) (out : List Val) (table : Val)
    (tables : List Val) (more : List (Val × Val)) (bs : Val)
    (hw0 : WithHands.init contract deal = some w0)
    (hdecl : contract.declarer = some decl)
    (hasc : ∀ p, ∀ m ∈ i p, ∀ x ∈ m, agree x = true)
    (hbad : mainPlayingUnparseable decl (cardsMsg "Dummy".toList (deal decl.partner)) 13 1 w0 i = true)
    (hok : ∀ c ∈ deal decl.partner, 2 ≤ c.rank ∧ c.rank ≤ 14) :
    ∃ e ∈ cardErrs, ∀ f, 80 ≤ f →
      callFn P f m_MainThread_playing_phase
          [encMainThread (encMainWorld i out table tables more) bs, encContract contract, .dict (handsKvs deal)]
        = .error (.exc e) := by
  obtain ⟨e, he, h80⟩ := mb_playing_call_unparseable 0 contract deal decl w0 i out table tables more bs hw0 hdecl hasc hbad hok
  have h80' : callFn P 80 m_MainThread_playing_phase
      [encMainThread (encMainWorld i out table tables more) bs, encContract contract, .dict (handsKvs deal)]
      = .error (.exc e) := h80
  exact ⟨e, he, fun f hf => callFn_fuel_mono P hf _ _ _ h80' (by intro x; cases x)⟩

/-- `mainPlayingUnparseable` over the structurally recursive `mainTrickS` (kernel-computable) -/
def mainPlayingUnparseableS (decl : Seat) (dm : Text) : Nat → Nat → WithHands → MainIn → Bool
  | 0, _, _, _ => false
  | n + 1, k, w, i =>
    match mainTrickS decl dm (decide (k = 1)) 4 0 w i with
    | some (_, w', i') => mainPlayingUnparseableS decl dm n (k + 1) w' i'
    | none => mainTrickUnparseable decl 4 w i

theorem mainPlayingUnparseableS_eq (decl : Seat) (dm : Text) : ∀ (n k : Nat) (w : WithHands) (i : MainIn),
    mainPlayingUnparseable decl dm n k w i = mainPlayingUnparseableS decl dm n k w i := by
  intro n
  induction n with
  | zero => intro k w i; rfl
  | succ n ih =>
    intro k w i
    simp only [mainPlayingUnparseable, mainPlayingUnparseableS, mainTrickS_eq decl dm _ 4 0 w i rfl]
    cases mainTrickS decl dm (decide (k = 1)) 4 0 w i with
    | none => rfl
    | some x => exact ih _ _ _

/-! ## non-vacuity: the thirteen-trick example of ThreadsMainBLemmasE.lean; the first trick is played, then East's second
text is no card -/
def exInBad2 : MainIn := fun p =>
  if p = .E then (exIn .E).take 1 ++ ["east plays zz".toList] ++ (exIn .E).drop 2 else exIn p

example : ∃ e ∈ cardErrs, ∀ f, 80 ≤ f →
    callFn P f m_MainThread_playing_phase
      [encMainThread (encMainWorld exInBad2 [] (.dict []) [] []) .none, encContract exContract, .dict (handsKvs exDeal)]
      = .error (.exc e) :=
  main_playing_unparseable_raises exContract exDeal .S exW0 exInBad2 [] (.dict []) [] [] .none ex_init rfl
    (by intro p; cases p <;> decide +kernel)
    (by rw [mainPlayingUnparseableS_eq]; decide +kernel) (by decide)

end Bridge.Translated.MainB
