import BridgeVerif.Translated.PbnExport
/-!
# The PBN export round trip inside the translated code, under `PbnResult.WF` ALONE  (C18)

`Translated/PbnExport.lean` takes `∀ r ∈ rs, r.WF` (the hypothesis of `C18.export_round_trip`) and `∀ r ∈ rs, PbnWF r` (the
hypothesis of the translated writer).  The second follows from the first (`pbnWF_of_WF`):
* `PbnWF.deal` (ranks 2..14 in a 13-card hand): `WF.deal : PartialDeal` makes every card valid;
* the nine length bounds (`≤ 199000`, the writer's fuel): `WF.fits` bounds every tag pair to one 255-character line, so
  every written value — the six free texts, the date, the decimal text of the board number, and the decimal text of
  the tricks (written when the board was played: `WF.tricks`) — has fewer than 255 characters.
So `pe_export_round_trip_wf`, `pe_export_round_trip_wf_no_header`, `pe_export_as_settings_wf` have `hwf` as their only
hypothesis.
-/
namespace Bridge.Translated
open Bridge Bridge.Py Bridge.Generated.PyCore

/-- a value written on one line has fewer than 255 characters -/
theorem pe_value_short (r : PbnResult) (h : r.WF) (tags : List (Str × Str)) (ht : resultTags? r = some tags)
    (tc : Str × Str) (hm : tc ∈ tags) : tc.2.length ≤ 199000 := by
  have := h.fits tags ht tc hm
  simp only [tagLine, List.length_cons, List.length_append, List.length_nil, MAX_LINE_CHARS] at this
  omega

theorem pbnWF_of_WF (r : PbnResult) (h : r.WF) : PbnWF r := by
  obtain ⟨tags, ht⟩ := resultTags_some r h
  have hv := resultTags_values r tags ht
  have key : ∀ tc : Str × Str, tc ∈ tags → tc.2.length ≤ 199000 := pe_value_short r h tags ht
  rw [hv] at key
  refine
    { deal := fun p _ c hc => ⟨(hands_ok_card (h.deal.ok p c hc)).1, (hands_ok_card (h.deal.ok p c hc)).2.1⟩
      board := key ("Board".toList, intRepr r.boardNum) (by simp)
      tricks := ?_
      event := key ("Event".toList, r.event) (by simp)
      site := key ("Site".toList, r.site) (by simp)
      date := key ("Date".toList, dateStr r.year r.month r.day) (by simp)
      west := key ("West".toList, r.west) (by simp)
      north := key ("North".toList, r.north) (by simp)
      east := key ("East".toList, r.east) (by simp)
      south := key ("South".toList, r.south) (by simp) }
  intro n hn
  have hpo : r.contract.isPassedOut = false := by
    cases hp : r.contract.isPassedOut with
    | false => rfl
    | true => have := h.tricks.1 hp; rw [hn] at this; cases this
  have := key _ (by iterate 14 apply List.mem_cons_of_mem
                    exact List.mem_cons_self ..)
  simpa [hn, hpo] using this

theorem pe_export_round_trip_wf (rs : List PbnResult) (hwf : ∀ r ∈ rs, r.WF) :
    ∃ (tagss : List (List (Str × Str))) (chunks : List Str) (self' : Val),
      rs.mapM resultTags? = some tagss ∧
      runPbnDocument [] rs = .ok (encPbnWriter chunks) ∧
      P.runMethod n_PbnParser n_parse_all [encPbnParser {} [] [], .tuple ((pyLines chunks.flatten).map Val.str)]
        = .ok (.tuple (tagss.map encGame), self') :=
  pe_export_round_trip_translated rs hwf fun r hr => pbnWF_of_WF r (hwf r hr)

theorem pe_export_round_trip_wf_no_header (rs : List PbnResult) (hwf : ∀ r ∈ rs, r.WF) :
    ∃ (tagss : List (List (Str × Str))) (chunks : List Str) (self' : Val),
      rs.mapM resultTags? = some tagss ∧
      rs.foldlM (fun w r => selfAfter n_PbnWriter n_write_board_result (w :: resultArgs r)) (encPbnWriter [])
        = .ok (encPbnWriter chunks) ∧
      P.runMethod n_PbnParser n_parse_all [encPbnParser {} [] [], .tuple ((pyLines chunks.flatten).map Val.str)]
        = .ok (.tuple (tagss.map encGame), self') :=
  pe_export_round_trip_translated_no_header rs hwf fun r hr => pbnWF_of_WF r (hwf r hr)

theorem pe_export_as_settings_wf (rs : List PbnResult) (hwf : ∀ r ∈ rs, r.WF) :
    ∃ (chunks : List Str) (es' : List SettingEntry) (self' : Val),
      runPbnDocument [] rs = .ok (encPbnWriter chunks) ∧
      P.runMethod n_PbnParser n_parse_board_settings
          [encPbnParser {} [] [], .tuple ((pyLines chunks.flatten).map Val.str)]
        = .ok (.tuple (es'.map encSetting), self') ∧
      es'.length = rs.length ∧
      ∀ i (h₁ : i < es'.length) (h₂ : i < rs.length),
        SameBoard es'[i] ⟨intRepr rs[i].boardNum, rs[i].dealer, rs[i].deal, rs[i].contract.vul, none⟩ ∧
        ∀ p, (es'[i].deal p).Nodup :=
  pe_export_as_settings_translated rs hwf fun r hr => pbnWF_of_WF r (hwf r hr)

end Bridge.Translated
