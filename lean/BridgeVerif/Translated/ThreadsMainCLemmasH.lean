import BridgeVerif.Translated.ThreadsMainCLemmasB
import BridgeVerif.Translated.ThreadsSeatB
import BridgeVerif.Model.Admission
/-! Translated `MainThread.run`: the accept loop — the world methods `w_ask`, `w_wait_event`, the loop condition, one round -/
set_option maxRecDepth 4000
set_option linter.unusedSimpArgs false
namespace Bridge.Translated.MainC
open Bridge Bridge.Py Bridge.Generated.PyCore Bridge.Translated.MainA Bridge.Translated.MainB Bridge.Translated.SeatB

/-- the streams the accept loop asks: what `accept()` returns (pairs connection, address), the threads created, the
answers of `is_alive()` -/
def acceptMore (acc nt al : List Val) (rest : List (Val × Val)) : List (Val × Val) :=
  (.str ['a', 'c', 'c', 'e', 'p', 't'], .tuple acc) :: (.str ['n', 'e', 'w', '_', 't', 'h', 'r', 'e', 'a', 'd'], .tuple nt) ::
    (.str ['i', 's', '_', 'a', 'l', 'i', 'v', 'e'], .tuple al) :: rest

theorem acceptMore_keys (acc nt al : List Val) (rest : List (Val × Val)) :
    acceptMore acc nt al rest
      = (vstr "accept", .tuple acc) :: (vstr "new_thread", .tuple nt) :: (vstr "is_alive", .tuple al) :: rest := rfl

theorem mc_mth_w_ask : P.method? classDepth n__World n_w_ask = some (n__World, m__World_w_ask) := rfl
theorem mc_mth_w_wait_event : P.method? classDepth n__World n_w_wait_event = some (n__World, m__World_w_wait_event) := rfl

theorem mc_beq_tuple_str (xs : List Val) (s : List Char) : (Val.tuple xs).beq (.str s) = false := by simp [Val.beq]

theorem mc_w_ask_accept (f : Nat) (i : Seat → List Str) (out : List Val) (table : Val) (tables : List Val)
    (x : Val) (acc nt al : List Val) (rest : List (Val × Val)) (arg : Val) :
    callF (mkRec P (f+12)) m__World_w_ask
        [encMainWorld i out table tables (acceptMore (x :: acc) nt al rest), .str ['a', 'c', 'c', 'e', 'p', 't'], arg]
      = .ok (x, encMainWorld i (out ++ [.tuple [.str ['a', 'c', 'c', 'e', 'p', 't'], arg]]) table tables
          (acceptMore acc nt al rest)) := by
  rw [callF_def]
  simp only [m__World_w_ask, bindParams, Option.map, mb_world_def, acceptMore]
  stsimp [lookupD, updateD, qkey, mc_beq_tuple_str, mt_beq_str]

theorem mc_w_ask_new_thread (f : Nat) (i : Seat → List Str) (out : List Val) (table : Val) (tables : List Val)
    (x : Val) (acc nt al : List Val) (rest : List (Val × Val)) (arg : Val) :
    callF (mkRec P (f+12)) m__World_w_ask
        [encMainWorld i out table tables (acceptMore acc (x :: nt) al rest),
          .str ['n', 'e', 'w', '_', 't', 'h', 'r', 'e', 'a', 'd'], arg]
      = .ok (x, encMainWorld i (out ++ [.tuple [.str ['n', 'e', 'w', '_', 't', 'h', 'r', 'e', 'a', 'd'], arg]]) table tables
          (acceptMore acc nt al rest)) := by
  rw [callF_def]
  simp only [m__World_w_ask, bindParams, Option.map, mb_world_def, acceptMore]
  stsimp [lookupD, updateD, qkey, mc_beq_tuple_str, mt_beq_str]

theorem mc_w_ask_is_alive (f : Nat) (i : Seat → List Str) (out : List Val) (table : Val) (tables : List Val)
    (x : Val) (acc nt al : List Val) (rest : List (Val × Val)) (arg : Val) :
    callF (mkRec P (f+12)) m__World_w_ask
        [encMainWorld i out table tables (acceptMore acc nt (x :: al) rest),
          .str ['i', 's', '_', 'a', 'l', 'i', 'v', 'e'], arg]
      = .ok (x, encMainWorld i (out ++ [.tuple [.str ['i', 's', '_', 'a', 'l', 'i', 'v', 'e'], arg]]) table tables
          (acceptMore acc nt al rest)) := by
  rw [callF_def]
  simp only [m__World_w_ask, bindParams, Option.map, mb_world_def, acceptMore]
  stsimp [lookupD, updateD, qkey, mc_beq_tuple_str, mt_beq_str]

/-- `w_wait_event`: one `event_wait` operation, then the table advances to the next snapshot -/
theorem mc_w_wait_event_call (f : Nat) (i : Seat → List Str) (out : List Val) (table : Val) (tables : List Val)
    (more : List (Val × Val)) :
    callF (mkRec P (f+12)) m__World_w_wait_event [encMainWorld i out table tables more]
      = .ok (.none, encMainWorld i (out ++ [.tuple [.str ['e', 'v', 'e', 'n', 't', '_', 'w', 'a', 'i', 't']]])
          (advTable table tables).1 (advTable table tables).2 more) := by
  rw [callF_def]
  have h : ∀ g o, callF (mkRec P (g+8)) m__World_w_advance [encMainWorld i o table tables more]
      = .ok (.none, encMainWorld i o (advTable table tables).1 (advTable table tables).2 more) :=
    fun g o => mt_w_advance_call g (mainIns i more) o table tables false
  simp only [m__World_w_wait_event, bindParams, Option.map]
  simp only [mb_world_def] at h ⊢
  stsimp [mt_mth_w_advance, h]

/-! ## the accept loop -/
def mcAcceptWhile : Stmt := m_MainThread_run.body.getD 4 .pass
def mcAcceptCond : Expr := match mcAcceptWhile with
  | .while c _ => c
  | _ => .const .none
def mcAcceptBody : List Stmt := match mcAcceptWhile with
  | .while _ b => b
  | _ => []
theorem mcAcceptWhile_eq : mcAcceptWhile = .while mcAcceptCond mcAcceptBody := rfl

theorem mc_beq_encOptStr_none (o : Option Str) : (encOpt Val.str o).beq .none = o.isNone := by
  cases o <;> simp [encOpt, Val.beq]

theorem mc_items (r : Rec) (kvs : List (Val × Val)) :
    builtinF r P .items [.dict kvs] = .ok (.tuple (kvs.map fun (k, v) => Val.tuple [k, v])) := rfl
theorem mc_all (r : Rec) (xs : List Val) : builtinF r P .all [.tuple xs] = .ok (.bool (xs.all truthy)) := rfl

/-- `not all(name is not None for _, name in table.items())` is `not Table.full` -/
theorem mc_accept_cond (f : Nat) (env : Env) (i : Seat → List Str) (out : List Val) (t : Table) (tables : List Val)
    (more : List (Val × Val)) (bs : Val)
    (hself : lookup env K.self = some (encMainThread (encMainWorld i out (encTable t) tables more) bs)) :
    (mkRec P (f + 20)).eval env mcAcceptCond = .ok (.bool (!t.full)) := by
  simp only [encMainThread] at hself
  simp only [mcAcceptCond, mcAcceptWhile, m_MainThread_run, List.getD_cons_zero, List.getD_cons_succ]
  mbsimp [hself, mb_world_def, encTable, tableKvs, mc_items, iterItems_tuple, compTF, bindTargets, mc_beq_encOptStr_none,
    mc_all, List.all_cons, List.all_nil]
  simp only [Table.full, Seat.all, List.all_cons, List.all_nil, Bool.and_true]
  cases t .N <;> cases t .E <;> cases t .S <;> cases t .W <;> rfl

/-- the variables one round of the accept loop writes -/
def acceptVars : List Id := [K.self, n__t1, n_connection, n__, n_thread, n__t2, n_threads]

/-- the operations of the main thread per served connection -/
def roundOps (conn thread : Val) : List Val :=
  [.tuple [vstr "accept", .none], .tuple [vstr "new_thread", conn], .tuple [vstr "start", thread], .tuple [vstr "event_wait"],
   .tuple [vstr "sleep", .int 1], .tuple [vstr "is_alive", thread], .tuple [vstr "event_clear", .none]]

/-- ONE ROUND of the accept loop: `accept`, a new thread on the connection, `start`, wait for its verdict (the seat table
advances to the next snapshot), `sleep(1)`, `is_alive` (the thread is kept when alive), `event.clear()` -/
theorem mc_accept_round (f : Nat) (env : Env) (i : Seat → List Str) (out : List Val) (table : Val) (tables : List Val)
    (conn addr thread : Val) (alive : Bool) (acc nt al : List Val) (rest : List (Val × Val)) (bs : Val) (thr : List Val)
    (hself : lookup env K.self = some (encMainThread (encMainWorld i out table tables
      (acceptMore (.tuple [conn, addr] :: acc) (thread :: nt) (.bool alive :: al) rest)) bs))
    (hthr : lookup env n_threads = some (.tuple thr)) :
    ∃ env', execF (mkRec P (f + 40)) P env mcAcceptBody = .ok (env', .next) ∧
      lookup env' K.self = some (encMainThread (encMainWorld i (out ++ roundOps conn thread)
        (advTable table tables).1 (advTable table tables).2 (acceptMore acc nt al rest)) bs) ∧
      lookup env' n_threads = some (.tuple (if alive then thr ++ [thread] else thr)) ∧
      Frame acceptVars env env' := by
  simp only [encMainThread] at hself ⊢
  cases alive
  all_goals
    refine ⟨?_, ?_, ?_, ?_, ?_⟩
    rotate_left
    · simp only [mcAcceptBody, mcAcceptWhile, m_MainThread_run, List.getD_cons_zero, List.getD_cons_succ]
      mbsimp [hself, hthr, mc_mth_w_ask, mc_w_ask_accept, mc_w_ask_new_thread, mc_w_ask_is_alive, mc_mth_w_wait_event,
        mc_w_wait_event_call, beq_int]
      rfl
    · lk_tac
    · simp +decide only [↓reduceIte, Bool.false_eq_true, lookup_update_same, lookup_update_ne, ne_eq, not_false_eq_true,
        reduceCtorEq, hthr]
    · frame_tac'

end Bridge.Translated.MainC
