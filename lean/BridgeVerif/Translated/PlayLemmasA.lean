import BridgeVerif.Translated.AuctionLemmasB
import BridgeVerif.Model.Play
/-! Translated playing phases = model: encoders of the model states, `Val.beq` on encoded values, the containers
(trick cards, used cards, hands, taken tricks) -/
namespace Bridge.Translated
open Bridge Bridge.Py Bridge.Generated.PyCore

/-! ## encoding of the model states -/

/-- a `TrickHistory` instance -/
def encTrick (t : Trick) : Val :=
  .obj n_TrickHistory [(n_leader, encSeat t.leader), (n_cards, .tuple (t.cards.map encCard))]

/-- a set / list / tuple of cards (sets in insertion order) -/
def encCards (l : List Card) : Val := .tuple (l.map encCard)

/-- the `PlayingHistory` instance (the model keeps the tricks newest first, Python appends) -/
def encHistory (c : Contract) (h : List Trick) : Val :=
  .obj n_PlayingHistory [(n__history, .tuple (h.reverse.map encTrick)), (n__contract, encContract c)]

def takenKvs (ns ew : Nat) : List (Val × Val) := [(encSide .NS, .int ns), (encSide .EW, .int ew)]

/-- the attributes `PlayingPhase.__init__` assigns, in its order -/
def baseFields (c : Contract) (s : PState) : List (Id × Val) :=
  [(n_contract, encContract c), (n_trump, encSuit s.trump), (n_declarer, encSeat s.declarer), (n_dummy, encSeat s.dummy),
   (n_leader, encSeat s.leader), (n_active_player, encSeat s.active), (n__trick_cards, encCards s.trick),
   (n_trick_num, .int s.trickNum), (n_playing_history, encHistory c s.history),
   (n_used_cards, encCards s.used.reverse), (n_taken_tricks, .dict (takenKvs s.takenNS s.takenEW))]

/-- an instance of class `k` (PlayingPhase or a subclass) with further attributes `ex` after the inherited ones -/
def ppObj (k : Id) (c : Contract) (s : PState) (ex : List (Id × Val)) : Val := .obj k (baseFields c s ++ ex)

/-- the `PlayingPhase` instance as the interpreter holds it -/
def encPState (c : Contract) (s : PState) : Val := .obj n_PlayingPhase (baseFields c s)

def handsKvs (h : Seat → List Card) : List (Val × Val) :=
  [(encSeat .N, encCards (h .N)), (encSeat .E, encCards (h .E)), (encSeat .S, encCards (h .S)), (encSeat .W, encCards (h .W))]

/-- the `PlayingPhaseWithHands` instance (`hands`: a dictionary seat ↦ cards) -/
def encWithHands (c : Contract) (w : WithHands) : Val :=
  .obj n_PlayingPhaseWithHands (baseFields c w.base ++ [(n_hands, .dict (handsKvs w.hands))])

/-- the `ObservedPlayingPhase` instance -/
def encObserved (c : Contract) (o : Observed) : Val :=
  .obj n_ObservedPlayingPhase (baseFields c o.base ++
    [(n__player, encSeat o.me), (n__hand, encCards o.hand), (n__dummy_hand, encOpt encCards o.dummyHand)])

/-! ## `Val.beq` on encoded values -/

theorem suit_value_inj (a b : Suit) : a.value = b.value ↔ a = b := by cases a <;> cases b <;> decide
theorem seat_value_inj (a b : Seat) : a.value = b.value ↔ a = b := by cases a <;> cases b <;> decide

theorem beq_encSuit (a b : Suit) : (encSuit a).beq (encSuit b) = decide (a = b) := by
  simp only [encSuit, Val.beq, beq_self_eq_true, Bool.true_and]
  rw [Bool.eq_iff_iff]; simp only [beq_iff_eq, decide_eq_true_eq, Int.natCast_inj, suit_value_inj]
theorem beq_encSeat (a b : Seat) : (encSeat a).beq (encSeat b) = decide (a = b) := by
  simp only [encSeat, Val.beq, beq_self_eq_true, Bool.true_and]
  rw [Bool.eq_iff_iff]; simp only [beq_iff_eq, decide_eq_true_eq, Int.natCast_inj, seat_value_inj]

theorem beq_encCard (a b : Card) : (encCard a).beq (encCard b) = decide (a = b) := by
  obtain ⟨ra, sa⟩ := a; obtain ⟨rb, sb⟩ := b
  simp only [encCard, Val.beq, beqF, beq_self_eq_true, Bool.true_and, Bool.and_true, beq_encSuit]
  rw [Bool.eq_iff_iff]; simp only [Bool.and_eq_true, beq_iff_eq, decide_eq_true_eq, Int.natCast_inj, Card.mk.injEq]

theorem beq_encCard_none (a : Card) : (encCard a).beq .none = false := by simp only [encCard, Val.beq]
theorem beq_encCards_none (l : List Card) : (encCards l).beq .none = false := by simp only [encCards, Val.beq]

theorem contains_encCard (l : List Card) (c : Card) : containsVal (l.map encCard) (encCard c) = decide (c ∈ l) := by
  induction l with
  | nil => simp [containsVal]
  | cons a l ih =>
    simp only [containsVal, List.map_cons, List.any_cons, beq_encCard] at ih ⊢
    rw [ih, Bool.eq_iff_iff]
    simp only [Bool.or_eq_true, decide_eq_true_eq, List.mem_cons, @eq_comm _ a c]

theorem removeFirst_encCard (l : List Card) (c : Card) :
    removeFirst (l.map encCard) (encCard c) = if c ∈ l then some ((l.erase c).map encCard) else none := by
  induction l with
  | nil => simp [removeFirst]
  | cons a l ih =>
    simp only [List.map_cons, removeFirst, beq_encCard, ih]
    by_cases h : a = c
    · subst h; simp
    · have h' : ¬ c = a := fun e => h e.symm
      simp only [h, decide_false, Bool.false_eq_true, if_false, List.mem_cons, h', false_or]
      rw [List.erase_cons_tail (by simpa using h)]
      by_cases hm : c ∈ l <;> simp [hm]

/-! ## environments: a variable written and read back -/
theorem lookup_update_same (env : Env) (x : Id) (v : Val) : lookup (update env x v) x = some v := by
  induction env with
  | nil => simp [update, lookup]
  | cons a r ih =>
    obtain ⟨k, w⟩ := a
    by_cases h : k = x <;> simp [update, lookup, h, ih]
theorem lookup_update_ne (env : Env) (x y : Id) (v : Val) (h : x ≠ y) : lookup (update env x v) y = lookup env y := by
  induction env with
  | nil => simp [update, lookup, h]
  | cons a r ih =>
    obtain ⟨k, w⟩ := a
    by_cases h1 : k = x
    · subst h1; simp [update, lookup, h]
    · have h1' : ¬ x = k := fun e => h1 e.symm
      by_cases h2 : k = y
      · subst h2; simp [update, lookup, h1]
      · simp [update, lookup, h1, h2, ih]

/-! ## the dictionaries -/
theorem lookup_taken (ns ew : Nat) (sd : Side) :
    lookupD (takenKvs ns ew) (encSide sd) = some (.int (match sd with | .NS => ns | .EW => ew)) := by
  cases sd <;> simp [lookupD, takenKvs, encSide, Val.beq, Side.value]
theorem update_taken (ns ew : Nat) (sd : Side) (n : Nat) :
    updateD (takenKvs ns ew) (encSide sd) (.int n)
      = (match sd with | .NS => takenKvs n ew | .EW => takenKvs ns n) := by
  cases sd <;> simp [updateD, takenKvs, encSide, Val.beq, Side.value]

theorem lookup_hands (h : Seat → List Card) (p : Seat) : lookupD (handsKvs h) (encSeat p) = some (encCards (h p)) := by
  cases p <;> simp [lookupD, handsKvs, encSeat, Val.beq, Seat.value]
theorem update_hands (h : Seat → List Card) (p : Seat) (l : List Card) :
    updateD (handsKvs h) (encSeat p) (encCards l) = handsKvs (fun q => if q = p then l else h q) := by
  cases p <;> simp [updateD, handsKvs, encSeat, Val.beq, Seat.value]

/-! ## seats -/
theorem rot_succ' (p : Seat) (n : Nat) : p.rot (n + 1) = p.left.rot n := by
  induction n with
  | zero => rfl
  | succ n ih => rw [Seat.rot, ih]; rfl

theorem getAttr_partner (f : Nat) (p : Seat) :
    getAttrF (mkRec P (f+12)) P (encSeat p) n_partner = .ok (encSeat p.partner) := by
  cases p <;> rfl

end Bridge.Translated
