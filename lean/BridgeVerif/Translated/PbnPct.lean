import BridgeVerif.Translated.PbnSettings
import BridgeVerif.Translated.ConnectInfoA
import BridgeVerif.Lemmas.RegexMsgClientA
/-!
# `pctLineOk` holds for every ASCII line: the `%` hypothesis of the PBN parser theorems, discharged

`parse_stream` runs `re.match(r'% PBN (\d+)\.(\d+)', line)`, `int()` of its two groups, and `re.match(r'% EXPORT', line)`
on the lines that start with `%`; `pctLineOk line` (Translated/PbnParserLemmasF.lean) says that these do not raise.

* `pctExportOk_all` — `re.match(r'% EXPORT', l)` gives an answer for EVERY line (no hypothesis).
* `pctLineOk_ascii` — for every line of ASCII characters: the version pattern gives an answer, and when it matches its
  groups are two non-empty runs of ASCII digits, which the interpreter's `int()` (`parseInt?`) accepts.
* `pp_parse_all_ascii_closed`, `pp_parse_board_settings_ascii_closed`, `pp_pbn_import_round_trip_translated_ascii`
  (and `…_universal_ascii`): the closed theorems with "every character of every line is ASCII" instead of `hpct`.
* `pct_non_ascii_counterexample` — `pctLineOk` is FALSE for `% PBN ٢.١`: `\d` matches the Arabic-Indic digits (as in
  Python), Python's `int('٢')` is `2`, but the interpreter's `int()` (`parseInt?`, ASCII digits only) raises `ValueError`.
  So the ASCII hypothesis reflects a limit of the INTERPRETER's `int()`, not of the library's code.

The proofs use the denotational form of the engine on `simple` patterns (`den`, `pyMatch_abs`, the `Rel` framework of
Lemmas/RegexHandsA.lean, `rel_digits_last`, `rel_digits_mid`) and a case-sensitive literal run (`rel_lits_cs`, here).
-/
namespace Bridge.Translated
open Bridge Bridge.Py Bridge.Generated.PyCore Bridge.Re Bridge.RegexPbn Bridge.RegexHands Bridge.RegexConnect
  Bridge.RegexMsgClient

/-! ## a case-sensitive run of literals -/
def stripCS : List Char → List Char → Option (List Char)
  | [], r => some r
  | _ :: _, [] => none
  | c :: p, x :: xs => if c = x then stripCS p xs else none

theorem rel_lits_cs (s : List Char) (N j : Nat) (K : St → Re.Res St) (cont : List Char → Option (List (List Char)))
    (h : Rel s N j K cont) : ∀ p : List Char, Rel s N j (denLits false p K) (fun r => (stripCS p r).bind cont) := by
  intro p
  induction p with
  | nil =>
    intro pos rest caps hd hl
    simpa [denLits, stripCS] using h pos rest caps hd hl
  | cons c p ih =>
    intro pos rest caps hd hl
    cases rest with
    | nil => simp [denLits, stepChar, stripCS, absRes]
    | cons x xs =>
      have hdrop : s.drop (pos + 1) = xs := drop_succ_of_cons s pos x xs hd
      have hc : charEq false c x = decide (c = x) := by
        simp only [charEq, Bool.false_and, Bool.or_false]; rw [Bool.eq_iff_iff]; simp
      simp only [denLits, stepChar, stripCS, hc]
      by_cases he : c = x
      · simp only [he, decide_true, if_true]
        exact ih (pos + 1) xs caps hdrop hl
      · simp only [he, decide_false, Bool.false_eq_true, if_false]
        simp [absRes]

theorem rel_fin (s : List Char) (N : Nat) : Rel s N N (kfin 0 false false) (fun _ => some []) := by
  intro pos rest caps _ hl
  simp only [kfin, Bool.false_and, Bool.or_false, Bool.false_eq_true, if_false, absRes, Option.map, List.map_nil,
    List.append_nil]
  rw [List.take_of_length_le (by simp [texts]; omega)]

/-! ## `% EXPORT` -/
def reExport : Re := lits "% EXPOR".toList (.lit 'T')
theorem pct_parse_export : Re.parse PBN_EXPORT_PATTERN = some reExport := by decide +kernel

theorem pctExportOk_all (l : Str) : pctExportOk l = true := by
  have hd : ∀ st, den false reExport (kfin 0 false false) st
      = denLits false "% EXPORT".toList (kfin 0 false false) st := by
    intro st
    rw [reExport, den_lits]; rfl
  have hr := rel_lits_cs l 0 0 _ _ (rel_fin l 0) "% EXPORT".toList 0 l [] rfl rfl
  have ha := pyMatch_abs PBN_EXPORT_PATTERN l reExport pct_parse_export (by decide +kernel)
  have hng : List.replicate reExport.ngroups (none : Option (Nat × Nat)) = [] := by decide +kernel
  rw [hng, hd, hr] at ha
  unfold pctExportOk
  cases hp : Re.pyMatch false PBN_EXPORT_PATTERN l with
  | none => rw [hp] at ha; cases ha
  | some x => rfl

/-! ## `% PBN (\d+)\.(\d+)` -/
def reVersion : Re := lits "% PBN ".toList (.seq (digG 1) (.seq (.lit '.') (digG 2)))
theorem pct_parse_version : Re.parse PBN_VERSION_PATTERN = some reVersion := by decide +kernel

theorem pct_digit_ascii : ∀ n : Fin 128, Re.isDigit (Char.ofNat n) = Bridge.isDigit (Char.ofNat n) := by decide +kernel

theorem pct_digit_agree (x : Char) (h : x.toNat < 128) : Re.isDigit x = Bridge.isDigit x := by
  have := pct_digit_ascii ⟨x.toNat, h⟩
  simpa [Char.ofNat_toNat] using this

/-- the scanner of the version line -/
def versionScan (r : Str) : Option (List (List Char)) :=
  (stripCS "% PBN ".toList r).bind (digitsThen fun r' => (stripCS ['.'] r').bind digitsLast)

theorem pct_takeWhile_all (p : Char → Bool) : ∀ l : List Char, (l.takeWhile p).all p = true := by
  intro l
  induction l with
  | nil => rfl
  | cons a l ih =>
    simp only [List.takeWhile]
    cases h : p a
    · rfl
    · simp [h, ih]

theorem pct_versionScan_some (r : Str) (gs : List (List Char)) (h : versionScan r = some gs) :
    ∃ d1 d2, gs = [d1, d2] ∧ d1 ≠ [] ∧ d1.all Bridge.isDigit = true ∧ d2 ≠ [] ∧ d2.all Bridge.isDigit = true := by
  unfold versionScan at h
  cases h1 : stripCS "% PBN ".toList r with
  | none => rw [h1] at h; cases h
  | some r1 =>
    rw [h1] at h
    simp only [Option.bind_some, digitsThen] at h
    split at h
    · cases h
    · rename_i hne1
      cases h2 : stripCS ['.'] (r1.drop (r1.takeWhile Bridge.isDigit).length) with
      | none => rw [h2] at h; cases h
      | some r2 =>
        rw [h2] at h
        simp only [Option.bind_some, digitsLast] at h
        split at h
        · cases h
        · rename_i hne2
          simp only [Option.map_some, Option.some.injEq] at h
          exact ⟨_, _, h.symm, hne1, pct_takeWhile_all _ _, hne2, pct_takeWhile_all _ _⟩

theorem pct_version_abs (l : Str) (hl : ∀ c ∈ l, c.toNat < 128) :
    (Re.pyMatch false PBN_VERSION_PATTERN l).map (Option.map (groupTexts l))
      = some ((versionScan l).map fun gs => gs.map some) := by
  have hs : ∀ x ∈ l, Re.isDigit x = Bridge.isDigit x := fun x hx => pct_digit_agree x (hl x hx)
  have hK : Rel l 2 1 (denLits false ['.'] (den false (digG 2) (kfin 0 false false)))
      (fun r => (stripCS ['.'] r).bind digitsLast) :=
    rel_lits_cs l 2 1 _ _ (rel_digits_last false l hs 1) ['.']
  have hcont : ∀ x xs, Bridge.isDigit x = true → (stripCS ['.'] (x :: xs)).bind digitsLast = none := by
    intro x xs hx
    have : ¬ '.' = x := by intro e; subst e; revert hx; decide
    simp [stripCS, this]
  have hM := rel_digits_mid false l hs 2 0 (by decide) _ _ hK hcont
  have hL := rel_lits_cs l 2 0 _ _ hM "% PBN ".toList 0 l (List.replicate 2 none) rfl rfl
  have hd : ∀ st, den false reVersion (kfin 0 false false) st
      = denLits false "% PBN ".toList
          (den false (digG 1) (denLits false ['.'] (den false (digG 2) (kfin 0 false false)))) st := by
    intro st
    rw [reVersion, den_lits]; rfl
  have ha := pyMatch_abs PBN_VERSION_PATTERN l reVersion pct_parse_version (by decide +kernel)
  have hng : List.replicate reVersion.ngroups (none : Option (Nat × Nat)) = List.replicate 2 none := by decide +kernel
  rw [hng, hd, hL] at ha
  rw [ha]
  simp [versionScan, texts]

theorem pctVersionOk_ascii (l : Str) (hl : ∀ c ∈ l, c.toNat < 128) : pctVersionOk l = true := by
  have ha := pct_version_abs l hl
  unfold pctVersionOk
  cases hp : Re.pyMatch false PBN_VERSION_PATTERN l with
  | none => rw [hp] at ha; cases ha
  | some mo =>
    cases mo with
    | none => rfl
    | some m =>
      rw [hp] at ha
      simp only [Option.map_some, Option.some.injEq] at ha
      cases hv : versionScan l with
      | none => rw [hv] at ha; cases ha
      | some gs =>
        rw [hv] at ha
        simp only [Option.map_some, Option.some.injEq] at ha
        obtain ⟨d1, d2, rfl, n1, a1, n2, a2⟩ := pct_versionScan_some l gs hv
        obtain ⟨sp, gr⟩ := m
        simp only [groupTexts, List.map_cons, List.map_nil] at ha
        match gr, ha with
        | [some be1, some be2], ha =>
          simp only [List.map_cons, List.map_nil, Option.map_some, List.cons.injEq, Option.some.injEq, and_true] at ha
          have e1 := ConnectInfo.parseInt_of_digits d1 n1 a1
          have e2 := ConnectInfo.parseInt_of_digits d2 n2 a2
          have hm : matchVal n__Match (Int.toNat n_texts) l ⟨sp, [some be1, some be2]⟩
              = .obj n__Match [(n_texts, .tuple [.str (Re.slice l sp.1 sp.2), .str (Re.slice l be1.1 be1.2),
                  .str (Re.slice l be2.1 be2.2)])] := rfl
          simp only [hm, ha.1, ha.2, e1, e2, Option.isSome_some, Bool.and_self]

theorem pctLineOk_ascii (l : Str) (hl : ∀ c ∈ l, c.toNat < 128) : pctLineOk l = true := by
  simp only [pctLineOk, pctVersionOk_ascii l hl, pctExportOk_all l, Bool.and_self]

/-! ## the closed theorems for ASCII files -/
theorem pp_parse_all_ascii_closed (lines : List Str) (hok : ∀ l ∈ lines, l ≠ [] ∧ l.length ≤ 478)
    (hascii : ∀ l ∈ lines, ∀ c ∈ l, c.toNat < 128) :
    ∃ self', P.runMethod n_PbnParser n_parse_all [encPbnParser {} [] [], .tuple (lines.map Val.str)]
      = .ok (.tuple ((parseStream lines).map encGame), self') :=
  pp_parse_all_wide_closed lines hok fun l hl _ => pctLineOk_ascii l (hascii l hl)

theorem pp_parse_board_settings_ascii_closed (lines : List Str) (hok : ∀ l ∈ lines, l ≠ [] ∧ l.length ≤ 466)
    (hascii : ∀ l ∈ lines, ∀ c ∈ l, c.toNat < 128) :
    match pbnBoardSettings? lines with
    | some es => ∃ es' self', SameSettings es' es ∧
        P.runMethod n_PbnParser n_parse_board_settings [encPbnParser {} [] [], .tuple (lines.map Val.str)]
        = .ok (.tuple (es'.map encSetting), self')
    | none => ∃ c, c ∈ psErrors ∧
        P.runMethod n_PbnParser n_parse_board_settings [encPbnParser {} [] [], .tuple (lines.map Val.str)]
        = .error (.exc c) :=
  pp_parse_board_settings_wide_closed lines hok fun l hl _ => pctLineOk_ascii l (hascii l hl)

theorem pp_pbn_import_round_trip_translated_ascii (f : FileL) (hf : f.Admissible) (bs : List SettingEntry)
    (hlen : f.games.length = bs.length)
    (hd : ∀ i (h₁ : i < f.games.length) (h₂ : i < bs.length), f.games[i].Describes bs[i])
    (hw : ∀ b ∈ bs, PartialDeal b.deal)
    (hsize : ∀ l ∈ f.lines, l.length ≤ 466) (hascii : ∀ l ∈ f.lines, ∀ c ∈ l, c.toNat < 128) :
    ∃ (es' : List SettingEntry) (self' : Val), P.runMethod n_PbnParser n_parse_board_settings
          [encPbnParser {} [] [], .tuple ((pyLines f.text).map Val.str)]
        = .ok (.tuple (es'.map encSetting), self') ∧ es'.length = bs.length ∧
      ∀ i (h₁ : i < es'.length) (h₂ : i < bs.length), SameBoard es'[i] bs[i] ∧ ∀ p, (es'[i].deal p).Nodup :=
  pp_pbn_import_round_trip_translated f hf bs hlen hd hw hsize fun l hl _ => pctLineOk_ascii l (hascii l hl)

theorem pp_pbn_import_round_trip_translated_universal_ascii (f : FileL) (hf : f.Admissible) (bs : List SettingEntry)
    (hlen : f.games.length = bs.length)
    (hd : ∀ i (h₁ : i < f.games.length) (h₂ : i < bs.length), f.games[i].Describes bs[i])
    (hw : ∀ b ∈ bs, PartialDeal b.deal)
    (hsize : ∀ l ∈ ({ f with eol := ['\n'] } : FileL).lines, l.length ≤ 466)
    (hascii : ∀ l ∈ ({ f with eol := ['\n'] } : FileL).lines, ∀ c ∈ l, c.toNat < 128) :
    ∃ (es' : List SettingEntry) (self' : Val), P.runMethod n_PbnParser n_parse_board_settings
          [encPbnParser {} [] [], .tuple ((pyLines (universalNewlines f.text)).map Val.str)]
        = .ok (.tuple (es'.map encSetting), self') ∧ es'.length = bs.length ∧
      ∀ i (h₁ : i < es'.length) (h₂ : i < bs.length), SameBoard es'[i] bs[i] ∧ ∀ p, (es'[i].deal p).Nodup :=
  pp_pbn_import_round_trip_translated_universal f hf bs hlen hd hw hsize
    fun l hl _ => pctLineOk_ascii l (hascii l hl)

/-! ## outside ASCII the hypothesis can fail: a limit of the interpreter's `int()` -/
/-- `% PBN ٢.١` (Arabic-Indic digits): the version pattern matches (`\d` is Unicode-aware, as in Python), and the
interpreter's `int()` refuses the groups, where Python's `int('٢')` is `2` -/
theorem pct_non_ascii_counterexample :
    pctLineOk "% PBN ٢.١\n".toList = false ∧
    (Re.pyMatch false PBN_VERSION_PATTERN "% PBN ٢.١\n".toList).map Option.isSome = some true ∧
    parseInt? "٢".toList = none := by
  decide +kernel

end Bridge.Translated
