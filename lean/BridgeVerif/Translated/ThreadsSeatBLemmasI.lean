import BridgeVerif.Translated.ThreadsSeatBLemmasH
/-! Translated `SeatThread._playing_phase`: one turn of the inner loop = one card of `seatTrickR`; the inner loop = one
trick -/
namespace Bridge.Translated.SeatB
open Bridge Bridge.Py Bridge.Generated.PyCore

set_option maxRecDepth 4000

/-- the seat thread of `p` with streams `i` -/
def seatSelf (p : Seat) (i : SeatIn) (out : List Val) (tb : Val) (tbs : List Val) (extra : List (Id × Val)) : Val :=
  encSeatThread p (encSeatWorld p i.q i.c out tb tbs) extra

theorem sb_encActs_own (p : Seat) (pre : List (SAct Text LogOp)) (pv : List Val) (card : Str)
    (h : encSeatActs p pre = some pv) :
    encSeatActs p (pre ++ [.recv (.c2s p), .send (.t2m p) card])
      = some (pv ++ [.tuple [vstr "recv"], .tuple [vstr "put", vstr "t2m", encSeat p, .str card]]) :=
  encSeatActs_append p _ _ _ _ h (by simp [encSeatActs, encSeatAct])

/-- the first statement of the loop body is the first half of a card of `seatTrickR` -/
theorem sb_card_main (f : Nat) (p decl active : Seat) (k idx : Nat) (env : Env) (i i1 : SeatIn) (x : SeatActs)
    (out : List Val) (tb : Val) (tbs : List Val) (extra : List (Id × Val))
    (he : PE env (seatSelf p i out tb tbs extra) decl k active idx)
    (hm : cardMainR p decl idx active i = some (x, i1)) (hc : mainCheck p decl active k i) :
    ∃ env1 ops, execStmtF (mkRec P (f+24)) P env ppS0 = .ok (env1, .next) ∧ encSeatActs p x = some ops ∧
      PE env1 (seatSelf p i1 (out ++ ops) tb tbs extra) decl k active idx := by
  obtain ⟨q, c⟩ := i
  simp only [seatSelf] at he ⊢
  by_cases hA : p = active ∧ p ≠ decl.partner
  · simp only [cardMainR, if_pos hA] at hm
    obtain ⟨rfl, hd⟩ := hA
    cases c with
    | nil => simp only [SeatIn.getC, bind, Option.bind, reduceCtorEq] at hm
    | cons card c =>
      simp only [SeatIn.getC, bind, Option.bind, pure, Option.some.injEq, Prod.mk.injEq] at hm
      obtain ⟨rfl, rfl⟩ := hm
      obtain ⟨env1, h1, h2⟩ := sb_card_own (f+4) p decl k idx env q c card out tb tbs extra he hd
      refine ⟨env1, _, h1, sb_encActs_own p _ _ card ?_, h2⟩
      by_cases h0 : idx = 0 <;> simp [h0, encSeatActs, encSeatAct]
  · by_cases hB : p = decl ∧ active = decl.partner
    · simp only [cardMainR, if_neg hA, if_pos hB] at hm
      obtain ⟨rfl, rfl⟩ := hB
      cases c with
      | nil => simp only [SeatIn.getC, bind, Option.bind, reduceCtorEq] at hm
      | cons card c =>
        simp only [SeatIn.getC, bind, Option.bind, pure, Option.some.injEq, Prod.mk.injEq] at hm
        obtain ⟨rfl, rfl⟩ := hm
        obtain ⟨env1, h1, h2⟩ := sb_card_dummy (f+4) p k idx env q c card out tb tbs extra he
        refine ⟨env1, _, h1, sb_encActs_own p _ _ card ?_, h2⟩
        by_cases h0 : idx = 0 <;> simp [h0, encSeatActs, encSeatAct, vstr]
    · simp only [cardMainR, if_neg hA, if_neg hB] at hm
      cases c with
      | nil => simp only [SeatIn.getC, bind, Option.bind, reduceCtorEq] at hm
      | cons m c =>
        cases q with
        | nil => simp only [SeatIn.getC, SeatIn.getQ, bind, Option.bind, reduceCtorEq] at hm
        | cons relay q =>
          simp only [SeatIn.getC, SeatIn.getQ, bind, Option.bind, pure, Option.some.injEq, Prod.mk.injEq] at hm
          obtain ⟨rfl, rfl⟩ := hm
          have hpc : passesCheck (readyCardText p decl active k) m := by
            rcases hc with h | h | h
            · exact absurd h hA
            · exact absurd h hB
            · exact h m c rfl
          obtain ⟨env1, h1, h2⟩ := sb_card_relay f p decl active k idx env q c m relay out tb tbs extra he hA hB hpc
          exact ⟨env1, _, h1, by simp [encSeatActs, encSeatAct], h2⟩

/-- the other two statements are the second half -/
theorem sb_card_open (f : Nat) (p decl active : Seat) (k idx : Nat) (env : Env) (i i2 : SeatIn) (y : SeatActs)
    (out : List Val) (tb : Val) (tbs : List Val) (extra : List (Id × Val))
    (he : PE env (seatSelf p i out tb tbs extra) decl k active idx)
    (ho : cardOpenR p decl (decide (k = 1)) idx i = some (y, i2)) (hc : openCheck p decl k idx i) :
    ∃ env2 fl ops, execF (mkRec P (f+24)) P env [ppS1, ppS2] = .ok (env2, fl) ∧ (fl = .next ∨ fl = .cont) ∧
      encSeatActs p y = some ops ∧ PE env2 (seatSelf p i2 (out ++ ops) tb tbs extra) decl k active.left idx := by
  obtain ⟨q, c⟩ := i
  simp only [seatSelf] at he ⊢
  by_cases hO : k = 1 ∧ idx = 0
  · by_cases hd : p = decl.partner
    · have hn : ¬((decide (k = 1)) = true ∧ idx = 0 ∧ p ≠ decl.partner) := fun h => h.2.2 hd
      unfold cardOpenR at ho
      rw [if_neg hn] at ho
      obtain ⟨rfl, rfl⟩ := hO
      simp only [pure, Option.some.injEq, Prod.mk.injEq] at ho
      obtain ⟨rfl, rfl⟩ := ho
      subst hd
      obtain ⟨env2, h1, h2⟩ := sb_open_dummy (f+4) _ extra decl active env he
      exact ⟨env2, .cont, [], h1, Or.inr rfl, rfl, by simpa using h2⟩
    · have hp : (decide (k = 1)) = true ∧ idx = 0 ∧ p ≠ decl.partner := ⟨decide_eq_true hO.1, hO.2, hd⟩
      unfold cardOpenR at ho
      rw [if_pos hp] at ho
      obtain ⟨rfl, rfl⟩ := hO
      cases c with
      | nil => simp only [SeatIn.getC, bind, Option.bind, reduceCtorEq] at ho
      | cons m c =>
        cases q with
        | nil => simp only [SeatIn.getC, SeatIn.getQ, bind, Option.bind, reduceCtorEq] at ho
        | cons dh q =>
          simp only [SeatIn.getC, SeatIn.getQ, bind, Option.bind, pure, Option.some.injEq, Prod.mk.injEq] at ho
          obtain ⟨rfl, rfl⟩ := ho
          obtain ⟨env2, h1, h2⟩ := sb_open_hand f p decl active env q c m dh out tb tbs extra he hd
            (hc ⟨rfl, rfl, hd⟩ m c rfl)
          exact ⟨env2, .next, _, h1, Or.inl rfl, by simp [encSeatActs, encSeatAct], h2⟩
  · have hn : ¬((decide (k = 1)) = true ∧ idx = 0 ∧ p ≠ decl.partner) := fun h =>
      hO ⟨of_decide_eq_true h.1, h.2.1⟩
    unfold cardOpenR at ho
    rw [if_neg hn] at ho
    simp only [pure, Option.some.injEq, Prod.mk.injEq] at ho
    obtain ⟨rfl, rfl⟩ := ho
    obtain ⟨env2, h1, h2⟩ := sb_open_none (f+4) _ decl active k idx env he hO
    exact ⟨env2, .next, [], h1, Or.inl rfl, rfl, by simpa using h2⟩

/-- ONE TURN of `for i in range(4)` is one card of `seatTrickR` -/
theorem sb_card (f : Nat) (p decl active : Seat) (k idx : Nat) (env : Env) (i i1 i2 : SeatIn) (x y : SeatActs)
    (out : List Val) (tb : Val) (tbs : List Val) (extra : List (Id × Val))
    (he : PE env (seatSelf p i out tb tbs extra) decl k active idx)
    (hm : cardMainR p decl idx active i = some (x, i1)) (hcm : mainCheck p decl active k i)
    (ho : cardOpenR p decl (decide (k = 1)) idx i1 = some (y, i2)) (hco : openCheck p decl k idx i1) :
    ∃ env2 fl ops, execF (mkRec P (f+24)) P env ppInnerBody = .ok (env2, fl) ∧ (fl = .next ∨ fl = .cont) ∧
      encSeatActs p (x ++ y) = some ops ∧ PE env2 (seatSelf p i2 (out ++ ops) tb tbs extra) decl k active.left idx := by
  obtain ⟨env1, ops1, h1, e1, he1⟩ := sb_card_main f p decl active k idx env i i1 x out tb tbs extra he hm hcm
  obtain ⟨env2, fl, ops2, h2, hfl, e2, he2⟩ := sb_card_open f p decl active k idx env1 i1 i2 y _ tb tbs extra he1 ho hco
  refine ⟨env2, fl, ops1 ++ ops2, ?_, hfl, encSeatActs_append p x y _ _ e1 e2, by simpa [List.append_assoc] using he2⟩
  rw [ppInnerBody_eq]
  simp only [execF, h1, bind_ok]
  exact h2

end Bridge.Translated.SeatB
