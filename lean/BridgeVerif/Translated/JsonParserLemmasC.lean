import BridgeVerif.Translated.JsonParserLemmasB
/-! Translated JSON parser (parser.py) = model: what `json.loads` builds (`jsonToVal`) read back through the model's `Json.get?`; sets of cards
(the interpreter keeps FIRST occurrences, the model's `dedup` LAST ones: `dedupFirst`, `pyHands`, `HandsInOrder`); `hands_parser` -/
namespace Bridge.Translated
open Bridge Bridge.Py Bridge.Generated.PyCore

/-! ## `json.loads` values -/
theorem jp_lookupD_members (l : List (List Char × Json)) (k : List Char) :
    lookupD (membersToKvs l) (.str k) = ((Json.obj l).get? k).map jsonToVal := by
  induction l with
  | nil => rfl
  | cons a l ih =>
    obtain ⟨k', v⟩ := a
    simp only [membersToKvs, lookupD, jp_beq_str, Json.get?, List.find?_cons] at ih ⊢
    cases hk : (k' == k)
    · simp only [Bool.false_eq_true, if_false]; exact ih
    · rfl

theorem jp_get_obj (j : Json) (k : List Char) (v : Json) (h : j.get? k = some v) : ∃ l, j = .obj l := by
  cases j <;> first | exact ⟨_, rfl⟩ | cases h

theorem jp_jsonsToVals_strs (l : List Json) (ss : List (List Char)) (h : l.mapM Json.str? = some ss) :
    jsonsToVals l = ss.map .str := by
  induction l generalizing ss with
  | nil => simp at h; subst h; rfl
  | cons a l ih =>
    rw [List.mapM_cons] at h
    cases ha : a.str? with
    | none => rw [ha] at h; cases h
    | some s =>
      cases hl : l.mapM Json.str? with
      | none => rw [ha, hl] at h; cases h
      | some ss' =>
        rw [ha, hl] at h; cases h
        cases a <;> cases ha
        simp only [jsonsToVals, jsonToVal, List.map_cons, ih ss' hl]

/-! ## sets of cards -/
/-- building a Python `set` from a sequence as the interpreter does: first occurrences, in order -/
def dedupFirst (l : List Card) : List Card := l.foldl (fun acc c => if c ∈ acc then acc else acc ++ [c]) []

theorem jp_set_fold (cs acc : List Card) :
    (cs.map encCard).foldl (fun acc x => if containsVal acc x then acc else acc ++ [x]) (acc.map encCard)
      = (cs.foldl (fun acc c => if c ∈ acc then acc else acc ++ [c]) acc).map encCard := by
  induction cs generalizing acc with
  | nil => rfl
  | cons c cs ih =>
    simp only [List.map_cons, List.foldl_cons, contains_encCard]
    by_cases h : c ∈ acc
    · simp only [h, decide_true, if_true]; exact ih acc
    · simp only [h, decide_false, Bool.false_eq_true, if_false, map_snoc]; exact ih _

theorem jp_set_cards (r : Rec) (cs : List Card) :
    builtinF r P .set [.tuple (cs.map encCard)] = .ok (.tuple ((dedupFirst cs).map encCard)) := by
  have := jp_set_fold cs []
  simp only [List.map_nil] at this
  simp only [builtinF, iterItems, this, dedupFirst]; rfl

theorem jp_fold_mem (cs : List Card) : ∀ (acc : List Card) (c : Card),
    c ∈ cs.foldl (fun acc c => if c ∈ acc then acc else acc ++ [c]) acc ↔ c ∈ acc ∨ c ∈ cs := by
  induction cs with
  | nil => intro acc c; simp
  | cons d cs ih =>
    intro acc c
    simp only [List.foldl_cons, ih, List.mem_cons]
    by_cases h : d ∈ acc
    · simp only [h, if_true]
      constructor
      · rintro (h1 | h1); exact Or.inl h1; exact Or.inr (Or.inr h1)
      · rintro (h1 | rfl | h1); exact Or.inl h1; exact Or.inl h; exact Or.inr h1
    · simp only [h, if_false, List.mem_append, List.mem_singleton]
      constructor
      · rintro ((h1 | h1) | h1); exact Or.inl h1; exact Or.inr (Or.inl h1); exact Or.inr (Or.inr h1)
      · rintro (h1 | h1 | h1); exact Or.inl (Or.inl h1); exact Or.inl (Or.inr h1); exact Or.inr h1

theorem jp_fold_nodup (cs : List Card) : ∀ (acc : List Card), acc.Nodup →
    (cs.foldl (fun acc c => if c ∈ acc then acc else acc ++ [c]) acc).Nodup := by
  induction cs with
  | nil => intro acc h; exact h
  | cons d cs ih =>
    intro acc hn
    simp only [List.foldl_cons]
    by_cases h : d ∈ acc
    · simp only [h, if_true]; exact ih acc hn
    · simp only [h, if_false]
      apply ih
      rw [List.nodup_append]
      refine ⟨hn, by simp, ?_⟩
      intro a ha b hb
      simp only [List.mem_singleton] at hb
      subst hb; intro e; subst e; exact h ha

theorem jp_mem_dedupFirst (l : List Card) (c : Card) : c ∈ dedupFirst l ↔ c ∈ l := by
  simp [dedupFirst, jp_fold_mem]
theorem jp_nodup_dedupFirst (l : List Card) : (dedupFirst l).Nodup := jp_fold_nodup l [] List.nodup_nil

theorem jp_mem_dedup (l : List Card) (c : Card) : c ∈ dedup l ↔ c ∈ l := by
  induction l with
  | nil => simp [dedup]
  | cons a l ih =>
    have e : dedup (a :: l) = if a ∈ dedup l then dedup l else a :: dedup l := rfl
    rw [e]
    by_cases h : a ∈ dedup l
    · simp only [h, if_true, List.mem_cons, ih]
      constructor
      · exact Or.inr
      · rintro (rfl | h1); exact ih.1 h; exact h1
    · simp only [h, if_false, List.mem_cons, ih]
theorem jp_nodup_dedup (l : List Card) : (dedup l).Nodup := by
  induction l with
  | nil => simp [dedup]
  | cons a l ih =>
    have e : dedup (a :: l) = if a ∈ dedup l then dedup l else a :: dedup l := rfl
    rw [e]
    by_cases h : a ∈ dedup l
    · simp only [h, if_true]; exact ih
    · simp only [h, if_false]; exact List.nodup_cons.2 ⟨h, ih⟩

/-- the two orders hold the same set -/
theorem jp_dedupFirst_perm (l : List Card) : (dedupFirst l).Perm (dedup l) :=
  (List.perm_ext_iff_of_nodup (jp_nodup_dedupFirst l) (jp_nodup_dedup l)).2 fun c => by
    rw [jp_mem_dedupFirst, jp_mem_dedup]

theorem jp_fold_of_nodup (cs : List Card) : ∀ (acc : List Card), (acc ++ cs).Nodup →
    cs.foldl (fun acc c => if c ∈ acc then acc else acc ++ [c]) acc = acc ++ cs := by
  induction cs with
  | nil => intro acc _; simp
  | cons d cs ih =>
    intro acc hn
    have hd : d ∉ acc := by
      intro h
      rw [List.nodup_append] at hn
      exact hn.2.2 d h d (List.mem_cons_self ..) rfl
    simp only [List.foldl_cons, hd, if_false]
    rw [ih (acc ++ [d]) (by simpa using hn)]
    simp

/-- no repeated card: both orders are the list itself -/
theorem jp_dedupFirst_of_nodup (l : List Card) (hn : l.Nodup) : dedupFirst l = l := by
  have := jp_fold_of_nodup l [] (by simpa using hn)
  simpa [dedupFirst] using this

/-! ## `hands_parser` -/
/-- the cards listed under one seat, in document order, before the set is built (`[]` when the list is unreadable) -/
def rawCards (j : Json) : List Card :=
  match j with
  | .arr l => ((l.mapM Json.str?).bind fun ss => ss.mapM strToCard?).getD []
  | _ => []

/-- the four hands as the interpreter holds them: each set in first-occurrence order -/
def pyHands (j : Json) : Hands := fun p => dedupFirst (rawCards ((j.get? p.name).getD .null))

theorem jp_hand_cases (j : Json) (cs : List Card) (h : handOfJsonVal? j = some cs) :
    ∃ ss : List (List Char), iterItems P (jsonToVal j) = some (ss.map .str) ∧ ss.mapM strToCard? = some (rawCards j) ∧
      cs = dedup (rawCards j) := by
  cases j with
  | arr l =>
    simp only [handOfJsonVal?] at h
    cases hl : l.mapM Json.str? with
    | none => rw [hl] at h; cases h
    | some ss =>
      rw [hl] at h
      simp only [Option.bind_some, handOfJson?] at h
      cases hr : ss.mapM strToCard? with
      | none => rw [hr] at h; cases h
      | some raw =>
        rw [hr] at h; cases h
        refine ⟨ss, ?_, ?_, ?_⟩
        · simp only [jsonToVal, jp_jsonsToVals_strs l ss hl, iterItems]
        · simp only [rawCards, hl, Option.bind_some, hr, Option.getD_some]
        · simp only [rawCards, hl, Option.bind_some, hr, Option.getD_some]
  | str s =>
    simp only [handOfJsonVal?, handOfJson?] at h
    cases s with
    | nil => cases h; exact ⟨[], rfl, rfl, rfl⟩
    | cons a s =>
      simp only [List.map_cons, List.mapM_cons] at h
      have : strToCard? [a] = none := rfl
      rw [this] at h; cases h
  | null => cases h
  | bool _ => cases h
  | int _ => cases h
  | obj _ => cases h

/-- `[Card.str_to_card(x) for x in …]` over a list of strings the model reads -/
theorem jp_comp_cards (f : Nat) (env : Env) (x : Id) (ss : List (List Char)) : ∀ (raw : List Card),
    ss.mapM strToCard? = some raw →
    compF (mkRec P (f+17)) env x none (.static n_Card n_str_to_card [.const (.cls n_Card), .var x]) (ss.map .str)
      = .ok (raw.map encCard) := by
  induction ss with
  | nil => intro raw h; simp at h; subst h; rfl
  | cons s ss ih =>
    intro raw h
    rw [List.mapM_cons] at h
    cases hs : strToCard? s with
    | none => rw [hs] at h; cases h
    | some c =>
      cases hr : ss.mapM strToCard? with
      | none => rw [hs, hr] at h; cases h
      | some raw' =>
        rw [hs, hr] at h; cases h
        simp only [List.map_cons, compF, ih raw' hr]
        ppsimp [jp_mth_str_to_card, jp_str_to_card_call _ _ _ hs]

theorem jp_find_hands_parser : findFunc P.funcs n_hands_parser = some f_hands_parser := rfl

theorem jp_handsOfJson_cases (j : Json) (h : Hands) (hm : handsOfJson? j = some h) :
    ∃ l jn je js jw, j = .obj l ∧
      (Json.obj l).get? ['N'] = some jn ∧ (Json.obj l).get? ['E'] = some je ∧
      (Json.obj l).get? ['S'] = some js ∧ (Json.obj l).get? ['W'] = some jw ∧
      handOfJsonVal? jn = some (h .N) ∧ handOfJsonVal? je = some (h .E) ∧
      handOfJsonVal? js = some (h .S) ∧ handOfJsonVal? jw = some (h .W) := by
  unfold handsOfJson? at hm
  cases hn : j.get? (jkey "N") with
  | none => rw [hn] at hm; cases hm
  | some jn =>
  obtain ⟨l, rfl⟩ := jp_get_obj _ _ _ hn
  cases he : (Json.obj l).get? (jkey "E") with
  | none => rw [hn, he] at hm; simp at hm
  | some je =>
  cases hs : (Json.obj l).get? (jkey "S") with
  | none => rw [hn, he, hs] at hm; simp at hm
  | some js =>
  cases hw : (Json.obj l).get? (jkey "W") with
  | none => rw [hn, he, hs, hw] at hm; simp at hm
  | some jw =>
  rw [hn, he, hs, hw] at hm
  simp only [Option.bind_some] at hm
  cases h1 : handOfJsonVal? jn with
  | none => rw [h1] at hm; cases hm
  | some n =>
  cases h2 : handOfJsonVal? je with
  | none => rw [h1, h2] at hm; cases hm
  | some e =>
  cases h3 : handOfJsonVal? js with
  | none => rw [h1, h2, h3] at hm; cases hm
  | some s =>
  cases h4 : handOfJsonVal? jw with
  | none => rw [h1, h2, h3, h4] at hm; cases hm
  | some w =>
  rw [h1, h2, h3, h4] at hm
  cases hm
  exact ⟨l, jn, je, js, jw, rfl, hn, he, hs, hw, h1, h2, h3, h4⟩

theorem jp_hands_parser_call (f : Nat) (j : Json) (h : Hands) (hm : handsOfJson? j = some h) :
    callF (mkRec P (f+24)) f_hands_parser [jsonToVal j] = .ok (encHands (pyHands j), jsonToVal j) := by
  obtain ⟨l, jn, je, js, jw, rfl, hn, he, hs, hw, h1, h2, h3, h4⟩ := jp_handsOfJson_cases j h hm
  obtain ⟨sn, in_, rn, -⟩ := jp_hand_cases _ _ h1
  obtain ⟨se, ie, re, -⟩ := jp_hand_cases _ _ h2
  obtain ⟨ss, is_, rs, -⟩ := jp_hand_cases _ _ h3
  obtain ⟨sw, iw, rw_, -⟩ := jp_hand_cases _ _ h4
  rw [callF_def]
  simp only [f_hands_parser, bindParams, Option.map, jsonToVal]
  ppsimp [jp_lookupD_members, hn, he, hs, hw, in_, ie, is_, iw, jp_comp_cards _ _ _ _ _ rn, jp_comp_cards _ _ _ _ _ re,
    jp_comp_cards _ _ _ _ _ rs, jp_comp_cards _ _ _ _ _ rw_, jp_set_cards, hd_construct_hands]
  simp only [encHands, pyHands, Seat.name, hn, he, hs, hw, Option.getD_some]

/-- the model's hands hold the same four sets (`dedup` keeps the LAST occurrence of a repeated card, the interpreter's
set the FIRST) -/
theorem jp_pyHands_same (j : Json) (h : Hands) (hm : handsOfJson? j = some h) : SameHands (pyHands j) h := by
  obtain ⟨l, jn, je, js, jw, rfl, hn, he, hs, hw, h1, h2, h3, h4⟩ := jp_handsOfJson_cases j h hm
  obtain ⟨_, -, -, en⟩ := jp_hand_cases _ _ h1
  obtain ⟨_, -, -, ee⟩ := jp_hand_cases _ _ h2
  obtain ⟨_, -, -, es⟩ := jp_hand_cases _ _ h3
  obtain ⟨_, -, -, ew⟩ := jp_hand_cases _ _ h4
  intro p
  cases p <;> simp only [pyHands, Seat.name, hn, he, hs, hw, Option.getD_some, en, ee, es, ew] <;>
    exact jp_dedupFirst_perm _

/-- the document lists the cards of every hand in an order on which the two set constructions agree (in particular:
no card twice in a hand, `jp_handsInOrder_of_nodup`) -/
def HandsInOrder (j : Json) : Prop :=
  ∀ p : Seat, dedupFirst (rawCards ((j.get? p.name).getD .null)) = dedup (rawCards ((j.get? p.name).getD .null))

theorem jp_handsInOrder_of_nodup (j : Json) (hn : ∀ p : Seat, (rawCards ((j.get? p.name).getD .null)).Nodup) :
    HandsInOrder j := fun p => by
  rw [jp_dedupFirst_of_nodup _ (hn p), dedup_of_nodup _ (hn p)]

theorem jp_pyHands_eq (j : Json) (h : Hands) (hm : handsOfJson? j = some h) (ho : HandsInOrder j) : pyHands j = h := by
  obtain ⟨l, jn, je, js, jw, rfl, hn, he, hs, hw, h1, h2, h3, h4⟩ := jp_handsOfJson_cases j h hm
  obtain ⟨_, -, -, en⟩ := jp_hand_cases _ _ h1
  obtain ⟨_, -, -, ee⟩ := jp_hand_cases _ _ h2
  obtain ⟨_, -, -, es⟩ := jp_hand_cases _ _ h3
  obtain ⟨_, -, -, ew⟩ := jp_hand_cases _ _ h4
  funext p
  have := ho p
  cases p <;> simp only [pyHands, Seat.name, hn, he, hs, hw, Option.getD_some, en, ee, es, ew] at this ⊢ <;> exact this

/-- and the hypothesis is necessary: if the interpreter's hands are the model's, the orders agree -/
theorem jp_handsInOrder_of_eq (j : Json) (h : Hands) (hm : handsOfJson? j = some h) (he : pyHands j = h) : HandsInOrder j := by
  obtain ⟨l, jn, je, js, jw, rfl, hn, he', hs, hw, h1, h2, h3, h4⟩ := jp_handsOfJson_cases j h hm
  obtain ⟨_, -, -, en⟩ := jp_hand_cases _ _ h1
  obtain ⟨_, -, -, ee⟩ := jp_hand_cases _ _ h2
  obtain ⟨_, -, -, es⟩ := jp_hand_cases _ _ h3
  obtain ⟨_, -, -, ew⟩ := jp_hand_cases _ _ h4
  intro p
  have := congrFun he p
  cases p <;> simp only [pyHands, Seat.name, hn, he', hs, hw, Option.getD_some, en, ee, es, ew] at this ⊢ <;> exact this

end Bridge.Translated
