import BridgeVerif.Translated.ThreadsSeatDLemmasB
/-! (2) the streams of the session model satisfy `boardsChecks`: phase by phase, following Lemmas/SeatThread.lean
(`seatDealR_phase`, `seatBiddingR_calls`, `one_trick`, `tricks_play`, `seatPlay_board`, `seatBoardsR_board`,
`seatBoardsR_boards`) -/
set_option maxRecDepth 4000
namespace Bridge.Translated.SeatD
open Bridge Bridge.Py Bridge.Generated.PyCore
open Bridge.Translated.SeatB (cardMainR cardOpenR mainCheck openCheck trickChecks tricksChecks playingChecks
  readyCardText readyDummyText)
open Bridge.Translated.SeatC (boardChecks boardsChecks seatBoardR)

/-! ## deal -/
theorem deal_checks (p : Seat) (h : Text) (cards : Seat → Text) (c' : List Text) :
    dealChecks p (cOf p (.deal h cards (fun p => readyFor p "deal".toList) (fun p => readyFor p "cards".toList)) ++ c') := by
  rw [cOf_deal]
  exact ⟨ready_deal_passes p, ready_cards_passes p⟩

/-! ## auction -/
theorem bid_checks (p dealer : Seat) (q' c' : List Text) : ∀ (calls : List (Call × Text)) (j fuel : Nat),
    bidChecks p fuel { q := (callPhases dealer j calls).flatMap (qOf p) ++ MSG_NULL :: q',
                       c := (callPhases dealer j calls).flatMap (cOf p) ++ c' } := by
  intro calls
  induction calls with
  | nil =>
    intro j fuel
    cases fuel with
    | zero => trivial
    | succ f => simp [callPhases, bidChecks]
  | cons x r ih =>
    intro j fuel
    obtain ⟨cl, text⟩ := x
    cases fuel with
    | zero => trivial
    | succ f =>
      have ih := ih (j + 1) f
      simp only [callPhases, List.flatMap_cons, qOf_call, cOf_call, List.append_assoc, List.cons_append]
      rw [bidChecks]
      by_cases h : p = dealer.rot j
      · subst h
        simp only [getQ_cons, formal_ne_null, if_false, seatOfFormal_formal, if_true, List.nil_append, List.cons_append,
          getC_cons]
        exact ih
      · simp only [getQ_cons, formal_ne_null, if_false, seatOfFormal_formal, if_neg h, List.nil_append, List.cons_append,
          getC_cons]
        exact ⟨ready_bid_passes p _, ih⟩

/-! ## one card -/
theorem main_step (p d a : Seat) (idx k : Nat) (card rdy : Text) (Q C : List Text)
    (hrdy : SeatB.passesCheck (readyCardText p d a k) rdy) :
    mainCheck p d a k { q := (if p = cardPlayer a d then [] else [card]) ++ Q,
                        c := (if p = cardPlayer a d then [card] else [rdy]) ++ C } ∧
    ∃ x, cardMainR p d idx a { q := (if p = cardPlayer a d then [] else [card]) ++ Q,
                               c := (if p = cardPlayer a d then [card] else [rdy]) ++ C } = some (x, { q := Q, c := C }) := by
  rcases cardPlayer_cases p a d with ⟨h1, h2 | ⟨h2, h3⟩⟩ | ⟨h1, h2, h3⟩
  · refine ⟨Or.inl h2, ?_⟩
    simp only [cardMainR, if_pos h1, if_pos h2]
    exact ⟨_, rfl⟩
  · refine ⟨Or.inr (Or.inl h3), ?_⟩
    simp only [cardMainR, if_pos h1, if_neg h2, if_pos h3]
    exact ⟨_, rfl⟩
  · refine ⟨Or.inr (Or.inr fun m r hc => ?_), ?_⟩
    · simp only [if_neg h1, List.cons_append, List.nil_append, List.cons.injEq] at hc
      obtain ⟨rfl, _⟩ := hc
      exact hrdy
    · simp only [cardMainR, if_neg h1, if_neg h2, if_neg h3]
      exact ⟨_, rfl⟩

theorem open_step (p d : Seat) (k idx : Nat) (op : Bool) (hop : op = true ↔ (k = 1 ∧ idx = 0)) (dc rdd : Text)
    (q' c' : List Text) (hrdd : SeatB.passesCheck (readyDummyText p) rdd) :
    openCheck p d k idx { q := (if op = true ∧ p ≠ d.partner then [dc] else []) ++ q',
                          c := (if op = true ∧ p ≠ d.partner then [rdd] else []) ++ c' } ∧
    ∃ y, cardOpenR p d (decide (k = 1)) idx ⟨(if op = true ∧ p ≠ d.partner then [dc] else []) ++ q',
        (if op = true ∧ p ≠ d.partner then [rdd] else []) ++ c'⟩ = some (y, { q := q', c := c' }) := by
  have hoeq : (decide (k = 1) = true ∧ idx = 0 ∧ p ≠ d.partner) ↔ (op = true ∧ p ≠ d.partner) := by
    rw [hop, and_assoc, decide_eq_true_eq]
  by_cases ho : op = true ∧ p ≠ d.partner
  · refine ⟨fun _ m r hc => ?_, ?_⟩
    · simp only [if_pos ho, List.cons_append, List.nil_append, List.cons.injEq] at hc
      obtain ⟨rfl, _⟩ := hc
      exact hrdd
    · simp only [cardOpenR, if_pos (hoeq.mpr ho), if_pos ho]
      exact ⟨_, rfl⟩
  · refine ⟨fun hk => absurd (hoeq.mp ⟨decide_eq_true hk.1, hk.2⟩) ho, ?_⟩
    simp only [cardOpenR, if_neg (fun hx => ho (hoeq.mp hx)), if_neg ho]
    exact ⟨_, rfl⟩

theorem trickChecks_step (p d a : Seat) (k n idx : Nat) (op : Bool) (hop : op = true ↔ (k = 1 ∧ idx = 0))
    (card dc rdy rdd : Text) (q' c' : List Text)
    (hrdy : SeatB.passesCheck (readyCardText p d a k) rdy) (hrdd : SeatB.passesCheck (readyDummyText p) rdd)
    (hrest : trickChecks p d k n (idx + 1) a.left { q := q', c := c' }) :
    trickChecks p d k (n + 1) idx a { q := cardQ p d a op card dc ++ q', c := cardC p d a op card rdy rdd ++ c' } := by
  simp only [cardQ, cardC, List.append_assoc]
  obtain ⟨hm, x0, hx0⟩ := main_step p d a idx k card rdy
    ((if op = true ∧ p ≠ d.partner then [dc] else []) ++ q') ((if op = true ∧ p ≠ d.partner then [rdd] else []) ++ c') hrdy
  obtain ⟨ho, y0, hy0⟩ := open_step p d k idx op hop dc rdd q' c' hrdd
  refine ⟨hm, fun x i1 h1 => ?_⟩
  rw [hx0] at h1
  simp only [Option.some.injEq, Prod.mk.injEq] at h1
  obtain ⟨_, rfl⟩ := h1
  refine ⟨ho, fun y i2 h2 => ?_⟩
  rw [hy0] at h2
  simp only [Option.some.injEq, Prod.mk.injEq] at h2
  obtain ⟨_, rfl⟩ := h2
  exact hrest

end Bridge.Translated.SeatD
