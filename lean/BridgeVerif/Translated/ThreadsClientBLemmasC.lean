import BridgeVerif.Translated.ThreadsClientBLemmasB
/-! Translated `ClientThread.playing_phase`: the opening of dummy's hand (the first statement of the inner loop's body);
the model's `clientTrickR` cut into its steps -/
set_option maxRecDepth 4000
namespace Bridge.Translated.ClientB
open Bridge Bridge.Py Bridge.Generated.PyCore Bridge.Translated Bridge.Translated.ClientA

/-- nothing to open: it is not dummy's turn, or dummy's hand is open already -/
theorem cb_open_skip (f : Nat) (decl : Seat) (c : Contract) (o : Observed) (opened : Bool)
    (h : ¬ (o.base.active = decl.partner ∧ (!opened) = true)) (self : Val) (rest : Env) :
    execStmtF (mkRec P (f+70)) P (penv self c decl o opened rest) cpOpen
      = .ok (penv self c decl o opened rest, .next) := by
  simp only [cpOpen, cpInner, cpBody, m_ClientThread_playing_phase, List.getD_cons_succ, List.getD_cons_zero, penv]
  by_cases ha : o.base.active = decl.partner
  · cases opened with
    | false => exact absurd ⟨ha, rfl⟩ h
    | true => cbsimp [ha]
  · cbsimp [ha]

/-- the client IS dummy: only `hand_open` is set -/
theorem cb_open_self (f : Nat) (decl : Seat) (c : Contract) (o : Observed)
    (ha : o.base.active = decl.partner) (st : List Str) (bids plays out : List Val) (team : Str) (opp : Val)
    (extra : List (Id × Val)) (rest : Env) :
    execStmtF (mkRec P (f+70)) P (penv (cself decl.partner st bids plays out team opp extra) c decl o false rest) cpOpen
      = .ok (penv (cself decl.partner st bids plays out team opp extra) c decl o true rest, .next) := by
  simp only [cpOpen, cpInner, cpBody, m_ClientThread_playing_phase, List.getD_cons_succ, List.getD_cons_zero, penv, cself]
  cbsimp [ha]

/-- dummy's hand is shown: "ready for dummy", the message, parsed (`parse_cards`, `parse_hand`), set on the replica -/
theorem cb_open_recv (f : Nat) (p decl : Seat) (c : Contract) (o : Observed)
    (ha : o.base.active = decl.partner) (hp : decl.partner ≠ p) (m t : Str) (dh : List Card) (hb s1 s2 : Val)
    (h1 : ∀ g, callF (mkRec P (f+g)) m_Client_parse_cards [.str m, .str ['D', 'u', 'm', 'm', 'y']] = .ok (.str t, s1))
    (h2 : ∀ g, callF (mkRec P (f+g)) m_Client_parse_hand [.str t] = .ok (.tuple [encCards dh, hb], s2))
    (st : List Str) (bids plays out : List Val) (team : Str) (opp : Val) (extra : List (Id × Val)) (rest : Env) :
    ∃ rest', execStmtF (mkRec P (f+70)) P (penv (cself p (m :: st) bids plays out team opp extra) c decl o false rest) cpOpen
      = .ok (penv (cself p st bids plays
          (out ++ [.tuple [vstr "send", .str (readyFor p "dummy".toList)], .tuple [vstr "recv"]]) team opp extra)
          c decl (o.setDummy dh) true rest', .next) := by
  refine ⟨?_, ?_⟩
  rotate_left
  · simp only [cpOpen, cpInner, cpBody, m_ClientThread_playing_phase, List.getD_cons_succ, List.getD_cons_zero, penv,
      cself]
    cbsimp [ha, hp, h1, h2, encCards]
    simp only [readyFor, String.reduceToList, List.append_assoc, List.cons_append, List.nil_append]
    rfl

/-! ## the model's `clientTrickR`, one step at a time -/

/-- the opening of dummy's hand in one turn of `clientTrickR` -/
def clientOpenR (p declarer : Seat) (o : Observed) (opened : Bool) (i : ClientIn) :
    Option (ClientActs × Observed × Bool × ClientIn) :=
  if o.base.active = declarer.partner ∧ !opened then
    if declarer.partner ≠ p then do
      let (m, i) ← i.recv
      let dh ← (parseCards? m "Dummy".toList).bind parseHand?
      pure ([Act.send (.c2s p) (readyFor p "dummy".toList), .recv (.s2c p)], o.setDummy dh, true, i)
    else pure ([], o, true, i)
  else pure ([], o, opened, i)

/-- the card of one turn of `clientTrickR` (`a`: who is on turn) -/
def clientMoveR (p declarer a : Seat) (o : Observed) (i : ClientIn) : Option (ClientActs × Observed × ClientIn) :=
  if a = p ∧ p ≠ declarer.partner then do
    let (c, i) ← i.nextCard
    match o.play c p with
    | .error _ => none
    | .ok o' => pure ([Act.send (.c2s p) (playMsg p c false)], o', i)
  else if a = declarer.partner ∧ p = declarer then do
    if o.dummyHand.isNone then none
    else do
      let (c, i) ← i.nextCard
      match o.play c declarer.partner with
      | .error _ => none
      | .ok o' => pure ([Act.send (.c2s p) (playMsg declarer.partner c false)], o', i)
  else do
    let who : Text := if a = declarer.partner then "dummy".toList else a.formal
    let (m, i) ← i.recv
    let c ← parseCard? m a
    match o.play c a with
    | .error _ => none
    | .ok o' =>
      pure ([Act.send (.c2s p) (readyFor p (who ++ "'s card to trick ".toList ++ natStr o.base.trickNum)),
             .recv (.s2c p)], o', i)

/-- one turn of `clientTrickR` -/
def clientCardR (p declarer : Seat) (o : Observed) (opened : Bool) (i : ClientIn) :
    Option (ClientActs × Observed × Bool × ClientIn) := do
  let (acts0, o1, opened1, i1) ← clientOpenR p declarer o opened i
  let (acts1, o2, i2) ← clientMoveR p declarer o.base.active o1 i1
  pure (acts0 ++ acts1, o2, opened1, i2)

set_option hygiene false in
/-- the case analysis of the second half of a turn (`clientMoveR`), on the replica `o1` and the streams `i1` -/
macro "stage1" o1:term "," i1:term : tactic => `(tactic| (
  by_cases h1 : o.base.active = p ∧ p ≠ declarer.partner
  · simp only [if_pos h1]
    cases hn : ClientIn.nextCard $i1 with
    | none => rfl
    | some y =>
      simp only [Option.bind_some]
      cases hp : Observed.play $o1 y.1 p <;> rfl
  · simp only [if_neg h1]
    by_cases h2 : o.base.active = declarer.partner ∧ p = declarer
    · simp only [if_pos h2]
      cases hd : (Observed.dummyHand $o1).isNone with
      | true => rfl
      | false =>
        simp only [Bool.false_eq_true, if_false]
        cases hn : ClientIn.nextCard $i1 with
        | none => rfl
        | some y =>
          simp only [Option.bind_some]
          cases hp : Observed.play $o1 y.1 declarer.partner <;> rfl
    · simp only [if_neg h2]
      cases hr : ClientIn.recv $i1 with
      | none => rfl
      | some x =>
        simp only [Option.bind_some]
        cases hc : parseCard? x.1 o.base.active with
        | none => rfl
        | some c =>
          simp only [Option.bind_some]
          cases hp : Observed.play $o1 c o.base.active <;> rfl))

theorem clientTrickR_succ (p declarer : Seat) (n : Nat) (o : Observed) (opened : Bool) (i : ClientIn) :
    clientTrickR p declarer (n+1) o opened i = (do
      let (acts, o2, opened1, i2) ← clientCardR p declarer o opened i
      let (rest, o3, opened3, i3) ← clientTrickR p declarer n o2 opened1 i2
      pure (acts ++ rest, o3, opened3, i3)) := by
  rw [clientTrickR]
  unfold clientCardR clientOpenR clientMoveR
  by_cases hA : o.base.active = declarer.partner ∧ (!opened) = true
  · by_cases hB : declarer.partner ≠ p
    · simp only [if_pos hA, if_pos hB]
      cases hr0 : i.recv with
      | none => rfl
      | some x0 =>
        cases hd0 : (parseCards? x0.1 "Dummy".toList).bind parseHand? with
        | none => simp only [Option.bind_eq_bind, Option.bind_some, hd0]; rfl
        | some dh =>
          simp only [Option.bind_eq_bind, Option.pure_def, Option.bind_some, hd0]
          stage1 (o.setDummy dh), x0.2
    · simp only [if_pos hA, if_neg hB, Option.bind_eq_bind, Option.pure_def, Option.bind_some]
      stage1 o, i
  · simp only [if_neg hA, Option.bind_eq_bind, Option.pure_def, Option.bind_some]
    stage1 o, i

end Bridge.Translated.ClientB
