import BridgeVerif.Translated.ThreadsSeatBLemmasC
/-! Translated `SeatThread._connect`: the rejecting branches -/
namespace Bridge.Translated.SeatB
open Bridge Bridge.Py Bridge.Generated.PyCore

set_option maxRecDepth 4000

/-- closing step: unfold the encodings and the model's texts on the right, normalise the f-string on the left -/
macro "sbtext" "[" ls:Lean.Parser.Tactic.simpLemma,* "]" : tactic =>
  `(tactic| simp only [sb_reply_seated, sb_reply_bad, sb_reply_taken, sb_reply_mismatch, sb_teamsMsg, encSeatThread, vstr,
      String.reduceToList, List.flatten_cons, List.flatten_nil, List.append_nil, List.append_assoc, List.cons_append,
      List.nil_append, $ls,*])

theorem sb_mth_parse : P.method? classDepth n_PlayerThread n_parse_connection_info
    = some (n_PlayerThread, m_PlayerThread_parse_connection_info) := rfl

theorem sb_connect_badVersion (M : Nat) (p0 : Seat) (q c : List Str) (req : Str) (out : List Val) (t : Table)
    (tbs : List Val) (team : Str) (seat : Seat) (version : Nat) (s' : Val)
    (hparse : callF (mkRec P (M+21)) m_PlayerThread_parse_connection_info [.str req]
      = .ok (.tuple [.str team, encSeat seat, .int version], s'))
    (hv : version ≠ 18) :
    callF (mkRec P (M+24)) m_SeatThread__connect
        [.obj n_SeatThread [(n__w, encSeatWorld p0 q (req :: c) out (encTable t) tbs)]]
      = .ok (.bool false, encSeatThread seat (encSeatWorld p0 q c (out ++ [.tuple [vstr "recv"],
          .tuple [vstr "send", .str (replyText ⟨team, seat, version⟩ t .badVersion)], .tuple [vstr "close", .none],
          .tuple [vstr "event_set", .none]]) (encTable t) tbs) []) := by
  rw [callF_def]
  simp only [m_SeatThread__connect, bindParams, Option.map]
  have h1 := fun f => sb_w_recv f p0 q c req out (encTable t) tbs
  have h2 := fun f out m lg rest => sb_handle_error f [(qkey "m2t" p0, vtexts q), (vstr "conn", vtexts c)] out (encTable t) tbs false rest m lg
  have h3 := fun f out k a => sb_w_op f [(qkey "m2t" p0, vtexts q), (vstr "conn", vtexts c)] out (encTable t) tbs false k a
  simp only [encSeatWorld, encWorld] at h1 h2 h3 ⊢
  have hb : (Val.int (version : Int)).beq (.int 18) = false := by
    rw [beq_int, beq_eq_false_iff_ne]; omega
  ppsimp [sb_mth_w_recv, h1, sb_mth_parse, hparse, hb, sb_mth_handle_error, h2, strOfF, sb_mth_w_op, h3, List.append_assoc]
  rw [sb_intStr_18, sb_intStr_nat]
  sbtext []

theorem sb_beq_18 : (Val.int ((18 : Nat) : Int)).beq (.int 18) = true := by
  rw [beq_int]; rfl

theorem sb_connect_seatTaken (M : Nat) (p0 : Seat) (q c : List Str) (req : Str) (out : List Val) (t : Table)
    (tbs : List Val) (team : Str) (seat : Seat) (s' : Val) (x : Str)
    (hparse : callF (mkRec P (M+21)) m_PlayerThread_parse_connection_info [.str req]
      = .ok (.tuple [.str team, encSeat seat, .int (18 : Nat)], s'))
    (ht : t seat = some x) :
    callF (mkRec P (M+24)) m_SeatThread__connect
        [.obj n_SeatThread [(n__w, encSeatWorld p0 q (req :: c) out (encTable t) tbs)]]
      = .ok (.bool false, encSeatThread seat (encSeatWorld p0 q c (out ++ [.tuple [vstr "recv"],
          .tuple [vstr "send", .str (replyText ⟨team, seat, 18⟩ t .seatTaken)], .tuple [vstr "close", .none],
          .tuple [vstr "event_set", .none]]) (encTable t) tbs) []) := by
  rw [callF_def]
  simp only [m_SeatThread__connect, bindParams, Option.map]
  have h1 := fun f => sb_w_recv f p0 q c req out (encTable t) tbs
  have h2 := fun f out m lg rest => sb_handle_error f [(qkey "m2t" p0, vtexts q), (vstr "conn", vtexts c)] out (encTable t) tbs false rest m lg
  have h3 := fun f out k a => sb_w_op f [(qkey "m2t" p0, vtexts q), (vstr "conn", vtexts c)] out (encTable t) tbs false k a
  simp only [encSeatWorld, encWorld, encTable] at h1 h2 h3 ⊢
  ppsimp [sb_mth_w_recv, h1, sb_mth_parse, hparse, sb_beq_18, sb_mth_handle_error, h2, strOfF, sb_mth_w_op, h3,
    List.append_assoc, sb_lookup_table, ht, sb_str_beq_none, sb_formal]
  sbtext []

theorem sb_connect_teamMismatch (M : Nat) (p0 : Seat) (q c : List Str) (req : Str) (out : List Val) (t : Table)
    (tbs : List Val) (team : Str) (seat : Seat) (s' : Val) (pt : Str)
    (hparse : callF (mkRec P (M+21)) m_PlayerThread_parse_connection_info [.str req]
      = .ok (.tuple [.str team, encSeat seat, .int (18 : Nat)], s'))
    (ht : t seat = none) (hp : t seat.partner = some pt) (hne : pt ≠ team) :
    callF (mkRec P (M+24)) m_SeatThread__connect
        [.obj n_SeatThread [(n__w, encSeatWorld p0 q (req :: c) out (encTable t) tbs)]]
      = .ok (.bool false, encSeatThread seat (encSeatWorld p0 q c (out ++ [.tuple [vstr "recv"],
          .tuple [vstr "send", .str (replyText ⟨team, seat, 18⟩ t .teamMismatch)], .tuple [vstr "close", .none],
          .tuple [vstr "event_set", .none]]) (encTable t) tbs) []) := by
  rw [callF_def]
  simp only [m_SeatThread__connect, bindParams, Option.map]
  have h1 := fun f => sb_w_recv f p0 q c req out (encTable t) tbs
  have h2 := fun f out m lg rest => sb_handle_error f [(qkey "m2t" p0, vtexts q), (vstr "conn", vtexts c)] out (encTable t) tbs false rest m lg
  have h3 := fun f out k a => sb_w_op f [(qkey "m2t" p0, vtexts q), (vstr "conn", vtexts c)] out (encTable t) tbs false k a
  simp only [encSeatWorld, encWorld, encTable] at h1 h2 h3 ⊢
  ppsimp [sb_mth_w_recv, h1, sb_mth_parse, hparse, sb_beq_18, sb_mth_handle_error, h2, strOfF, sb_mth_w_op, h3,
    List.append_assoc, sb_lookup_table, ht, hp, sb_str_beq_none, sb_formal, getAttr_partner, sb_str_beq, hne, truthy]
  sbtext [hp, Option.getD_some]

end Bridge.Translated.SeatB
