import BridgeVerif.Translated.AuctionLemmasB
/-! Translated `BiddingPhase` = model: the simp set that drives the symbolic execution, method-call lemmas -/
namespace Bridge.Translated
open Bridge Bridge.Py Bridge.Generated.PyCore

/-! ## equation lemmas that fire only on constructor-headed values -/
theorem getAttr_obj (r : Rec) (c : Id) (fs : List (Id × Val)) (a : Id) :
    getAttrF r P (.obj c fs) a =
      if a = K.class__ then .ok (.cls c) else
      match lookup fs a with
      | some x => .ok x
      | none => (callMethod r P c a [.obj c fs] (.exc K.AttributeError)) >>= fun x => .ok x.1 := rfl
theorem getAttr_enum_value (r : Rec) (c : Id) (n : Int) : getAttrF r P (.enum c n) K.value = .ok (.int n) := rfl
theorem getAttr_encSeat_value (r : Rec) (p : Seat) : getAttrF r P (encSeat p) K.value = .ok (.int p.value) := rfl
theorem meth_obj (r : Rec) (c : Id) (fs : List (Id × Val)) (m : Id) (args : List Val) :
    methF r P (.obj c fs) m args = callMethod r P c m (.obj c fs :: args) (.exc K.AttributeError) := rfl
theorem meth_encSeat (r : Rec) (p : Seat) (m : Id) (args : List Val) :
    methF r P (encSeat p) m args = callMethod r P n_Player m (encSeat p :: args) (.exc K.AttributeError) := rfl
theorem index_dict (r : Rec) (kvs : List (Val × Val)) (iv : Val) :
    indexF r P (.dict kvs) iv = match lookupD kvs iv with
      | some v => .ok v
      | none => .error (.exc K.KeyError) := rfl
theorem truthy_bool (b : Bool) : truthy (.bool b) = b := rfl
theorem asInt_int (n : Int) : asInt? (.int n) = some n := rfl

/-! ## method tables -/
theorem mth_has_done : P.method? classDepth n_BiddingPhase n_has_done = some (n_BiddingPhase, m_BiddingPhase_has_done) := rfl
theorem mth_take_bid : P.method? classDepth n_BiddingPhase n_take_bid = some (n_BiddingPhase, m_BiddingPhase_take_bid) := rfl
theorem mth_contract : P.method? classDepth n_BiddingPhase n_contract = some (n_BiddingPhase, m_BiddingPhase_contract) := rfl
theorem mth_is_partner : P.method? classDepth n_Player n_is_partner = some (n_Player, m_Player_is_partner) := rfl

theorem encOpt_some {α} (g : α → Val) (a : α) : encOpt g (some a) = g a := rfl
theorem encOpt_none {α} (g : α → Val) : encOpt g none = .none := rfl
theorem normIndex_38_36 : normIndex 38 36 = some 36 := by decide
theorem normIndex_38_37 : normIndex 38 37 = some 37 := by decide
theorem replaceAt_dbl_1 (a : Call → Bool) :
    replaceAt (availList a) 36 (.int 1) = availList (fun k => if k = .dbl then true else a k) := replaceAt_avail a .dbl true
theorem replaceAt_dbl_0 (a : Call → Bool) :
    replaceAt (availList a) 36 (.int 0) = availList (fun k => if k = .dbl then false else a k) := replaceAt_avail a .dbl false
theorem replaceAt_rdbl_1 (a : Call → Bool) :
    replaceAt (availList a) 37 (.int 1) = availList (fun k => if k = .rdbl then true else a k) := replaceAt_avail a .rdbl true
theorem replaceAt_rdbl_0 (a : Call → Bool) :
    replaceAt (availList a) 37 (.int 0) = availList (fun k => if k = .rdbl then false else a k) := replaceAt_avail a .rdbl false

/-- the simp set of the symbolic execution -/
macro "pysimp" "[" ls:Lean.Parser.Tactic.simpLemma,* "]" : tactic =>
  `(tactic| simp +decide only [execStmtF, execF, eval_succ, exec_succ, call_succ, evalF, lookup, bind_ok, bind_err, pure_eq,
      throw_eq, Target.toExpr, getAttr_obj, getAttr_enum_value, getAttr_encSeat_value, meth_obj, index_dict,
      truthy_bool, asInt_int, assignToF, assignAllF, mutF, setField, update, callMethod, callF, bindParams, cmpF, mapR,
      optIntF, binopVal, Option.map, Option.getD_some, ↓reduceIte, reduceIte, Option.isNone_some, Option.isNone_none, Option.isSome_some, Option.isSome_none, Bool.false_eq_true, reduceCtorEq, beq_none_none, beq_int_1_0, beq_int_0_0, encOpt_some, encOpt_none, availList_length, normIndex_38_36, normIndex_38_37, Int.reduceSub, Int.reduceAdd, Int.reduceNeg, Bool.not_true, Bool.not_false, $ls,*])

/-! ## method calls -/

theorem has_done_meth (f : Nat) (s : AState) :
    methF (mkRec P (f+8)) P (encState s) n_has_done [] = .ok (.bool s.active.isNone, encState s) := by
  pysimp [encState, mth_has_done, m_BiddingPhase_has_done, beq_encOptSeat_none]

theorem is_partner_meth (f : Nat) (p q : Seat) :
    methF (mkRec P (f+8)) P (encSeat p) n_is_partner [encSeat q] = .ok (.bool (p.isPartner q), encSeat p) := by
  pysimp [meth_encSeat, mth_is_partner, m_Player_is_partner]
  cases p <;> cases q <;> simp +decide [Val.beq, Seat.value, Seat.isPartner, Int.fmod]

theorem getAttr_idx_bid (f : Nat) (i : Fin 35) : getAttrF (mkRec P (f+5)) P (encBid i) n_idx = .ok (.int i.val) :=
  getAttr_idx f (.bid i)

theorem compare_len_ge3 (r : Rec) (n : Nat) : compareF r P .ge (.int n) (.int 3) = .ok (decide (3 ≤ n)) := by
  have e : decide ((n : Int) ≥ 3) = decide (3 ≤ n) := by
    by_cases h : 3 ≤ n
    · have : (n : Int) ≥ 3 := by omega
      simp [h, this]
    · have : ¬ (n : Int) ≥ 3 := by omega
      simp [h, this]
  simp only [compareF, asInt?, e]; rfl

/-! ## the statements of `take_bid`: the three guards, the case distinction on the kind of call, the common tail -/
def tbHead : List Stmt := m_BiddingPhase_take_bid.body.take 3
def tbKind : Stmt := m_BiddingPhase_take_bid.body.getD 3 .pass
def tbTail : List Stmt := m_BiddingPhase_take_bid.body.drop 4

theorem tb_body : m_BiddingPhase_take_bid.body = tbHead ++ tbKind :: tbTail := rfl

end Bridge.Translated
