import BridgeVerif.Translated.HandsLemmasB
/-! Translated `Hands` (hands.py) = model: the pieces of `_convert_hand_to_pbn` — `Card.__lt__`, the interpreter's
insertion sort (`sorted(..., reverse=True)`) is the model's `sortDesc`, `Card.rank_int_to_str`, the per-suit
comprehension, the joins -/
namespace Bridge.Translated
open Bridge Bridge.Py Bridge.Generated.PyCore

/-! ## `card < other` and `sorted(..., reverse=True)` -/
theorem hd_mth_card_lt : P.method? classDepth n_Card K.lt__ = some (n_Card, m_Card___lt__) := rfl
theorem hd_isinstance_card (r : Rec) (c : Card) :
    builtinF r P .isinstance [encCard c, .cls n_Card] = .ok (.bool true) := rfl
theorem hd_getAttr_card_class (r : Rec) (c : Card) : getAttrF r P (encCard c) K.class__ = .ok (.cls n_Card) := rfl

theorem hd_card_lt_call (f : Nat) (a b : Card) :
    callF (mkRec P (f+20)) m_Card___lt__ [encCard a, encCard b] = .ok (.bool (decide (idxZ a < idxZ b)), encCard a) := by
  rw [callF_def]
  simp only [m_Card___lt__, bindParams, Option.map]
  ppsimp [hd_getAttr_card_class, hd_isinstance_card, hd_builtin_int_card]

theorem hd_compare_card (f : Nat) (a b : Card) :
    compareF (mkRec P (f+21)) P .lt (encCard a) (encCard b) = .ok (decide (idxZ a < idxZ b)) := by
  have e : compareF (mkRec P (f+21)) P .lt (encCard a) (encCard b)
      = (callF (mkRec P (f+20)) m_Card___lt__ [encCard a, encCard b] >>= fun x => pure (truthy x.1)) := rfl
  rw [e, hd_card_lt_call]; rfl

/-- the interpreter's insertion into an ascending list (`x` goes before the first `y` with `x < y`) -/
def insAscZ (x : Card) : List Card → List Card
  | [] => [x]
  | y :: ys => if idxZ x < idxZ y then x :: y :: ys else y :: insAscZ x ys
def sortAscZ (l : List Card) : List Card := l.foldr insAscZ []

theorem hd_insertSorted (f : Nat) (x : Card) (l : List Card) :
    insertSortedF (mkRec P (f+21)) P (encCard x) (l.map encCard) = .ok ((insAscZ x l).map encCard) := by
  induction l with
  | nil => rfl
  | cons y ys ih =>
    simp only [List.map_cons, insertSortedF, hd_compare_card, bind_ok, pure_eq, ih, insAscZ]
    by_cases h : idxZ x < idxZ y <;> simp [h]

theorem hd_sortF (f : Nat) (l : List Card) :
    sortF (mkRec P (f+21)) P (l.map encCard) = .ok ((sortAscZ l).map encCard) := by
  induction l with
  | nil => rfl
  | cons x xs ih =>
    simp only [List.map_cons, sortF, ih, bind_ok, hd_insertSorted, sortAscZ, List.foldr_cons]

theorem hd_sortedDesc (f : Nat) (l : List Card) :
    builtinF (mkRec P (f+21)) P .sortedDesc [.tuple (l.map encCard)] = .ok (.tuple ((sortAscZ l).reverse.map encCard)) := by
  simp only [builtinF, iterItems, hd_sortF, bind_ok, pure_eq, List.map_reverse]

/-! the interpreter's sort is the model's -/
theorem hd_insertDesc_all_gt (x : Card) (L : List Card) (h : ∀ d ∈ L, x.idx < d.idx) : insertDesc x L = L ++ [x] := by
  induction L with
  | nil => rfl
  | cons d r ih =>
    have hd := h d (List.mem_cons_self ..)
    have : ¬ d.idx ≤ x.idx := by omega
    simp only [insertDesc, this, if_false, List.cons_append]
    rw [ih fun e he => h e (List.mem_cons_of_mem _ he)]

theorem hd_insertDesc_snoc (x y : Card) (L : List Card) (h : y.idx ≤ x.idx) :
    insertDesc x (L ++ [y]) = insertDesc x L ++ [y] := by
  induction L with
  | nil => simp [insertDesc, h]
  | cons d r ih =>
    by_cases hd : d.idx ≤ x.idx
    · simp [insertDesc, hd]
    · simp [insertDesc, hd, ih]

theorem hd_insAsc_reverse (x : Card) (l : List Card) (hx : 2 ≤ x.rank) (hl : ∀ c ∈ l, 2 ≤ c.rank)
    (hs : l.Pairwise fun a b => a.idx ≤ b.idx) : (insAscZ x l).reverse = insertDesc x l.reverse := by
  induction l with
  | nil => rfl
  | cons y ys ih =>
    have hy := hl y (List.mem_cons_self ..)
    have hs' := List.pairwise_cons.1 hs
    simp only [insAscZ, hd_idxZ x hx, hd_idxZ y hy, Int.ofNat_lt]
    by_cases h : x.idx < y.idx
    · simp only [h, if_true]
      rw [hd_insertDesc_all_gt x (y :: ys).reverse]
      · simp
      · intro d hd
        rw [List.mem_reverse, List.mem_cons] at hd
        rcases hd with rfl | hd
        · exact h
        · have := hs'.1 d hd; omega
    · simp only [h, if_false, List.reverse_cons]
      rw [ih (fun c hc => hl c (List.mem_cons_of_mem _ hc)) hs'.2, hd_insertDesc_snoc _ _ _ (by omega)]

theorem hd_sortAscZ_reverse (l : List Card) (hl : ∀ c ∈ l, 2 ≤ c.rank) : (sortAscZ l).reverse = sortDesc l := by
  induction l with
  | nil => rfl
  | cons x xs ih =>
    have ih := ih fun c hc => hl c (List.mem_cons_of_mem _ hc)
    have hperm : ∀ c ∈ sortAscZ xs, 2 ≤ c.rank := by
      intro c hc
      have : c ∈ sortDesc xs := by rw [← ih]; exact List.mem_reverse.2 hc
      exact hl c (List.mem_cons_of_mem _ ((sortDesc_perm xs).mem_iff.1 this))
    have hs : (sortAscZ xs).Pairwise fun a b => a.idx ≤ b.idx := by
      have := sortDesc_sorted xs
      rw [← ih, List.pairwise_reverse] at this
      exact this
    show (insAscZ x (sortAscZ xs)).reverse = insertDesc x (sortDesc xs)
    rw [hd_insAsc_reverse x _ (hl x (List.mem_cons_self ..)) hperm hs, ih]

/-! ## `Card.rank_int_to_str` -/
theorem hd_mth_rank_int_to_str :
    P.method? classDepth n_Card n_rank_int_to_str = some (n_Card, m_Card_rank_int_to_str) := rfl

/-- the character of a rank (`'?'` outside 2..14, where the code raises) -/
def rankCh (r : Nat) : Char := (rankChar? r).getD '?'

theorem hd_rank_int_to_str_call (f : Nat) (r : Nat) (h1 : 2 ≤ r) (h2 : r ≤ 14) :
    callF (mkRec P (f+10)) m_Card_rank_int_to_str [.cls n_Card, .int r] = .ok (.str [rankCh r], .cls n_Card) := by
  rw [callF_def]
  simp only [m_Card_rank_int_to_str, bindParams, Option.map]
  have : r = 2 ∨ r = 3 ∨ r = 4 ∨ r = 5 ∨ r = 6 ∨ r = 7 ∨ r = 8 ∨ r = 9 ∨ r = 10 ∨ r = 11 ∨ r = 12 ∨ r = 13 ∨ r = 14 := by
    omega
  rcases this with rfl | rfl | rfl | rfl | rfl | rfl | rfl | rfl | rfl | rfl | rfl | rfl | rfl <;>
    ppsimp [beq_int, builtinF, strOfF] <;> rfl

/-! ## the per-suit comprehension and the joins -/
/-- `[Card.rank_int_to_str(card.rank) for card in hand_list if card.suit is suit]` -/
theorem hands_comp_suit (f : Nat) (env : Env) (su : Suit) (hs : lookup env n_suit = some (encSuit su)) (l : List Card)
    (hr : ∀ c ∈ l, 2 ≤ c.rank ∧ c.rank ≤ 14) :
    compF (mkRec P (f+14)) env n_card (some (.cmp .is (.attr (.var n_card) n_suit) (.var n_suit)))
        (.static n_Card n_rank_int_to_str [(.const (.cls n_Card)), (.attr (.var n_card) n_rank)]) (l.map encCard)
      = .ok ((l.filter fun c => decide (c.suit = su)).map fun c => .str [rankCh c.rank]) := by
  induction l with
  | nil => rfl
  | cons c l ih =>
    have hc := hr c (List.mem_cons_self ..)
    simp only [List.map_cons, compF, ih fun d hd => hr d (List.mem_cons_of_mem _ hd)]
    by_cases h : c.suit = su
    · ppsimp [hs, h, List.filter_cons, List.map_cons, hd_mth_rank_int_to_str, hd_rank_int_to_str_call _ _ hc.1 hc.2]
    · ppsimp [hs, h, List.filter_cons, List.map_cons]

theorem hd_strsOf_map {α} (g : α → List Char) (l : List α) : strsOf (l.map fun a => .str (g a)) = some (l.map g) := by
  induction l with
  | nil => rfl
  | cons a l ih => simp only [List.map_cons, strsOf, ih, Option.map]

theorem hd_intercalate_nil_singletons {α} (g : α → Char) (l : List α) :
    List.intercalate [] (l.map fun a => [g a]) = l.map g := by
  induction l with
  | nil => rfl
  | cons a l ih =>
    cases l with
    | nil => rfl
    | cons b l => simpa [List.intercalate] using ih

/-- `''.join(...)` of one-character strings -/
theorem hd_join_chars {α} (r : Rec) (g : α → Char) (l : List α) :
    builtinF r P .join [.str [], .tuple (l.map fun a => .str [g a])] = .ok (.str (l.map g)) := by
  simp only [builtinF, iterItems, Option.bind, hd_strsOf_map (fun a => [g a]), hd_intercalate_nil_singletons]; rfl

theorem hd_join_dots (r : Rec) (a b c d : List Char) :
    builtinF r P .join [.str ['.'], .tuple [.str a, .str b, .str c, .str d]]
      = .ok (.str (List.intercalate ['.'] [a, b, c, d])) := rfl
end Bridge.Translated
