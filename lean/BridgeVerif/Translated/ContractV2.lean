import BridgeVerif.Translated.Notation
/-! `contract.py` AS TRANSLATED on every contract with vulnerability `.ew` (kernel evaluation; see Contract.lean) -/
namespace Bridge.Translated
open Bridge.Py Bridge.Generated.PyCore

theorem contract_methods_v2 : ∀ b ∈ bidOpts, ∀ x xx : Bool, ∀ d ∈ seatOpts,
    contractAgrees ⟨b, x, xx, .ew, d⟩ = true := by
  decide +kernel

end Bridge.Translated
