import BridgeVerif.Translated.ThreadsEnc
import BridgeVerif.Translated.PlayLemmasB
/-! Translated `SeatThread`: method resolution, the `_World` methods on a seat world, the simp set -/
set_option maxRecDepth 4000
namespace Bridge.Translated
open Bridge Bridge.Py Bridge.Generated.PyCore

/-! ## method resolution in `P` -/
theorem st_mth_w_recv : P.method? classDepth n__World n_w_recv = some (n__World, m__World_w_recv) := rfl
theorem st_mth_w_get : P.method? classDepth n__World n_w_get = some (n__World, m__World_w_get) := rfl
theorem st_mth_w_send : P.method? classDepth n__World n_w_send = some (n__World, m__World_w_send) := rfl
theorem st_mth_w_put : P.method? classDepth n__World n_w_put = some (n__World, m__World_w_put) := rfl
theorem st_mth_w_op : P.method? classDepth n__World n_w_op = some (n__World, m__World_w_op) := rfl
theorem st_mth_w_sync : P.method? classDepth n__World n_w_sync = some (n__World, m__World_w_sync) := rfl
theorem st_mth_w_advance : P.method? classDepth n__World n_w_advance = some (n__World, m__World_w_advance) := rfl

/-! ## small facts -/
theorem st_sliceList_tail {α} (a : α) (r : List α) : sliceList (a :: r) (some 1) none = r := by
  have h : clampIndex (r.length + 1) 1 = 1 := by
    simp only [clampIndex]
    have : (1 : Int).toNat = 1 := rfl
    simp only [this]
    have h0 : (0 : Int) ≤ 1 := by omega
    rw [if_pos h0]
    omega
  simp only [sliceList, List.length_cons, h, List.drop_succ_cons, List.drop_zero, Nat.add_sub_cancel, List.take_length]

theorem st_len_beq_zero_cons (n : Nat) :
    (Val.int (Int.ofNat (n + 1))).beq (.int 0) = false := by
  simp only [Val.beq, beq_eq_false_iff_ne, ne_eq, Int.ofNat_eq_natCast]; omega

theorem st_normIndex_zero (n : Nat) : normIndex (n + 1) 0 = some 0 := by
  simp [normIndex]

theorem st_len_beq_zero_nil : (Val.int (Int.ofNat 0)).beq (.int 0) = true := by
  simp [Val.beq]

/-- the world of a seat thread, opened -/
theorem st_encSeatWorld_def (p : Seat) (q c : List Str) (out : List Val) (table : Val) (tables : List Val) :
    encSeatWorld p q c out table tables = .obj n__World [(n_ins, .dict [(qkey "m2t" p, vtexts q), (vstr "conn", vtexts c)]),
      (n_out, .tuple out), (n_table, table), (n_tables, .tuple tables), (n_eof, .bool false)] := rfl

theorem st_lookupD_conn (p : Seat) (a b : Val) :
    lookupD [(qkey "m2t" p, a), (vstr "conn", b)] (.str ['c', 'o', 'n', 'n']) = some b := by
  simp [lookupD, qkey, vstr, Val.beq]
theorem st_updateD_conn (p : Seat) (a b v : Val) :
    updateD [(qkey "m2t" p, a), (vstr "conn", b)] (.str ['c', 'o', 'n', 'n']) v = [(qkey "m2t" p, a), (vstr "conn", v)] := by
  simp [updateD, qkey, vstr, Val.beq]
theorem st_qkey_beq (p : Seat) : (qkey "m2t" p).beq (.tuple [.str ['m', '2', 't'], encSeat p]) = true := by
  simp [qkey, vstr, Val.beq, beqL, beq_encSeat]
theorem st_lookupD_q (p : Seat) (a b : Val) :
    lookupD [(qkey "m2t" p, a), (vstr "conn", b)] (.tuple [.str ['m', '2', 't'], encSeat p]) = some a := by
  simp [lookupD, st_qkey_beq]
theorem st_updateD_q (p : Seat) (a b v : Val) :
    updateD [(qkey "m2t" p, a), (vstr "conn", b)] (.tuple [.str ['m', '2', 't'], encSeat p]) v
      = [(qkey "m2t" p, v), (vstr "conn", b)] := by
  simp [updateD, st_qkey_beq]

theorem st_len_tuple (r : Rec) (xs : List Val) : builtinF r P .len [.tuple xs] = .ok (.int (Int.ofNat xs.length)) := rfl

/-- the simp set -/
macro "stsimp" "[" ls:Lean.Parser.Tactic.simpLemma,* "]" : tactic =>
  `(tactic| ppsimp [st_len_tuple, st_len_beq_zero_cons, st_len_beq_zero_nil, st_lookupD_conn, st_updateD_conn,
      st_lookupD_q, st_updateD_q, st_sliceList_tail, index_tuple, st_normIndex_zero, truthy, List.getD_cons_zero,
      List.map_cons, List.length_cons, List.length_nil, List.map_nil, $ls,*])

/-! ## `_World` methods on a seat world -/

theorem st_w_recv_call (f : Nat) (p : Seat) (q : List Str) (msg : Str) (c : List Str) (out : List Val) (table : Val)
    (tables : List Val) :
    callF (mkRec P (f+12)) m__World_w_recv [encSeatWorld p q (msg :: c) out table tables]
      = .ok (.str msg, encSeatWorld p q c (out ++ [.tuple [vstr "recv"]]) table tables) := by
  rw [callF_def]
  simp only [m__World_w_recv, bindParams, Option.map, st_encSeatWorld_def, vtexts]
  stsimp []
  rfl

theorem st_w_recv_blocked (f : Nat) (p : Seat) (q : List Str) (out : List Val) (table : Val) (tables : List Val) :
    callF (mkRec P (f+12)) m__World_w_recv [encSeatWorld p q [] out table tables] = .error (.exc n_Blocked) := by
  rw [callF_def]
  simp only [m__World_w_recv, bindParams, Option.map, st_encSeatWorld_def, vtexts]
  stsimp []

theorem st_w_get_call (f : Nat) (p : Seat) (msg : Str) (q c : List Str) (out : List Val) (table : Val)
    (tables : List Val) :
    callF (mkRec P (f+12)) m__World_w_get [encSeatWorld p (msg :: q) c out table tables, .str ['m', '2', 't'], encSeat p]
      = .ok (.str msg, encSeatWorld p q c (out ++ [.tuple [.str ['g', 'e', 't'], .str ['m', '2', 't'], encSeat p]])
          table tables) := by
  rw [callF_def]
  simp only [m__World_w_get, bindParams, Option.map, st_encSeatWorld_def, vtexts]
  stsimp []

theorem st_w_get_blocked (f : Nat) (p : Seat) (c : List Str) (out : List Val) (table : Val) (tables : List Val) :
    callF (mkRec P (f+12)) m__World_w_get [encSeatWorld p [] c out table tables, .str ['m', '2', 't'], encSeat p]
      = .error (.exc n_Blocked) := by
  rw [callF_def]
  simp only [m__World_w_get, bindParams, Option.map, st_encSeatWorld_def, vtexts]
  stsimp []

theorem st_w_send_call (f : Nat) (p : Seat) (q c : List Str) (out : List Val) (table : Val) (tables : List Val) (m : Val) :
    callF (mkRec P (f+12)) m__World_w_send [encSeatWorld p q c out table tables, m]
      = .ok (.none, encSeatWorld p q c (out ++ [.tuple [.str ['s', 'e', 'n', 'd'], m]]) table tables) := by
  rw [callF_def]
  simp only [m__World_w_send, bindParams, Option.map, st_encSeatWorld_def, vtexts]
  stsimp []

theorem st_w_put_call (f : Nat) (p : Seat) (q c : List Str) (out : List Val) (table : Val) (tables : List Val)
    (a b m : Val) :
    callF (mkRec P (f+12)) m__World_w_put [encSeatWorld p q c out table tables, a, b, m]
      = .ok (.none, encSeatWorld p q c (out ++ [.tuple [.str ['p', 'u', 't'], a, b, m]]) table tables) := by
  rw [callF_def]
  simp only [m__World_w_put, bindParams, Option.map, st_encSeatWorld_def, vtexts]
  stsimp []

theorem st_w_op_call (f : Nat) (p : Seat) (q c : List Str) (out : List Val) (table : Val) (tables : List Val)
    (a b : Val) :
    callF (mkRec P (f+12)) m__World_w_op [encSeatWorld p q c out table tables, a, b]
      = .ok (.none, encSeatWorld p q c (out ++ [.tuple [a, b]]) table tables) := by
  rw [callF_def]
  simp only [m__World_w_op, bindParams, Option.map, st_encSeatWorld_def, vtexts]
  stsimp []

/-- what `w_advance` does to (`table`, `tables`): the head of `tables`, if there is one, becomes the table -/
def advanceTables (tt : Val × List Val) : Val × List Val :=
  match tt.2 with
  | [] => tt
  | t :: ts => (t, ts)

theorem st_w_advance_call (f : Nat) (p : Seat) (q c : List Str) (out : List Val) (table : Val) (tables : List Val) :
    callF (mkRec P (f+12)) m__World_w_advance [encSeatWorld p q c out table tables]
      = .ok (.none, encSeatWorld p q c out (advanceTables (table, tables)).1 (advanceTables (table, tables)).2) := by
  rw [callF_def]
  simp only [m__World_w_advance, bindParams, Option.map, st_encSeatWorld_def, vtexts]
  cases tables with
  | nil => stsimp []; rfl
  | cons t ts => stsimp [advanceTables]

theorem st_w_sync_call (f : Nat) (p : Seat) (q c : List Str) (out : List Val) (table : Val) (tables : List Val) :
    callF (mkRec P (f+20)) m__World_w_sync [encSeatWorld p q c out table tables]
      = .ok (.none, encSeatWorld p q c (out ++ [.tuple [.str ['s', 'y', 'n', 'c']]])
          (advanceTables (table, tables)).1 (advanceTables (table, tables)).2) := by
  rw [callF_def]
  have h := st_w_advance_call (f+6) p q c (out ++ [.tuple [.str ['s', 'y', 'n', 'c']]]) table tables
  simp only [m__World_w_sync, bindParams, Option.map, st_encSeatWorld_def, vtexts] at h ⊢
  stsimp [st_mth_w_advance, h]

/-! ## `SeatThread` helper methods (the thread object written out: `encSeatThread p w extra` is this term) -/

theorem st_mth_handle_error :
    P.method? classDepth n_SeatThread n__handle_error = some (n_SeatThread, m_SeatThread__handle_error) := rfl
theorem st_mth_recv_q :
    P.method? classDepth n_SeatThread n_receive_message_from_queue
      = some (n_SeatThread, m_SeatThread_receive_message_from_queue) := rfl
theorem st_mth_send_q :
    P.method? classDepth n_SeatThread n_send_message_to_queue = some (n_SeatThread, m_SeatThread_send_message_to_queue) := rfl
theorem st_mth_sync_event :
    P.method? classDepth n_SeatThread n__sync_event = some (n_SeatThread, m_SeatThread__sync_event) := rfl
theorem st_mth_check :
    P.method? classDepth n_SeatThread n__check_message = some (n_SeatThread, m_SeatThread__check_message) := rfl

theorem st_methF_world (r : Rec) (p : Seat) (q c : List Str) (out : List Val) (table : Val) (tables : List Val)
    (m : Id) (args : List Val) :
    methF r P (encSeatWorld p q c out table tables) m args
      = callMethod r P n__World m (encSeatWorld p q c out table tables :: args) (.exc K.AttributeError) := rfl

theorem st_thread_def (p : Seat) (w : Val) (extra : List (Id × Val)) :
    encSeatThread p w extra = .obj n_SeatThread ((n__w, w) :: (n_player, encSeat p) :: extra) := rfl

/-- the simp set at thread level: world calls are answered by the lemmas above -/
macro "thsimp" "[" ls:Lean.Parser.Tactic.simpLemma,* "]" : tactic =>
  `(tactic| stsimp [st_methF_world, st_mth_w_recv, st_mth_w_get, st_mth_w_send, st_mth_w_put, st_mth_w_op, st_mth_w_sync,
      st_w_recv_call, st_w_recv_blocked, st_w_get_call, st_w_get_blocked, st_w_send_call, st_w_put_call, st_w_op_call,
      st_w_sync_call, $ls,*])

theorem st_handle_error_call (f : Nat) (p : Seat) (q c : List Str) (out : List Val) (table : Val) (tables : List Val)
    (extra : List (Id × Val)) (a b : Val) :
    callF (mkRec P (f+20)) m_SeatThread__handle_error
        [.obj n_SeatThread ((n__w, encSeatWorld p q c out table tables) :: (n_player, encSeat p) :: extra), a, b]
      = .ok (.none, .obj n_SeatThread ((n__w, encSeatWorld p q c
          (out ++ [.tuple [.str ['s', 'e', 'n', 'd'], a], .tuple [.str ['c', 'l', 'o', 's', 'e'], .none]]) table tables)
          :: (n_player, encSeat p) :: extra)) := by
  rw [callF_def]
  simp only [m_SeatThread__handle_error, bindParams, Option.map]
  thsimp [List.append_assoc]

theorem st_recv_q_call (f : Nat) (p : Seat) (msg : Str) (q c : List Str) (out : List Val) (table : Val)
    (tables : List Val) (extra : List (Id × Val)) :
    callF (mkRec P (f+20)) m_SeatThread_receive_message_from_queue
        [.obj n_SeatThread ((n__w, encSeatWorld p (msg :: q) c out table tables) :: (n_player, encSeat p) :: extra)]
      = .ok (.str msg, .obj n_SeatThread ((n__w, encSeatWorld p q c
          (out ++ [.tuple [.str ['g', 'e', 't'], .str ['m', '2', 't'], encSeat p]]) table tables)
          :: (n_player, encSeat p) :: extra)) := by
  rw [callF_def]
  simp only [m_SeatThread_receive_message_from_queue, bindParams, Option.map]
  thsimp []

theorem st_send_q_call (f : Nat) (p : Seat) (q c : List Str) (out : List Val) (table : Val)
    (tables : List Val) (extra : List (Id × Val)) (m : Val) :
    callF (mkRec P (f+20)) m_SeatThread_send_message_to_queue
        [.obj n_SeatThread ((n__w, encSeatWorld p q c out table tables) :: (n_player, encSeat p) :: extra), m]
      = .ok (.none, .obj n_SeatThread ((n__w, encSeatWorld p q c
          (out ++ [.tuple [.str ['p', 'u', 't'], .str ['t', '2', 'm'], encSeat p, m]]) table tables)
          :: (n_player, encSeat p) :: extra)) := by
  rw [callF_def]
  simp only [m_SeatThread_send_message_to_queue, bindParams, Option.map]
  thsimp []

theorem st_sync_event_call (f : Nat) (p : Seat) (q c : List Str) (out : List Val) (table : Val)
    (tables : List Val) (extra : List (Id × Val)) :
    callF (mkRec P (f+30)) m_SeatThread__sync_event
        [.obj n_SeatThread ((n__w, encSeatWorld p q c out table tables) :: (n_player, encSeat p) :: extra)]
      = .ok (.none, .obj n_SeatThread ((n__w, encSeatWorld p q c
          (out ++ [.tuple [.str ['s', 'y', 'n', 'c']]]) (advanceTables (table, tables)).1 (advanceTables (table, tables)).2)
          :: (n_player, encSeat p) :: extra)) := by
  rw [callF_def]
  simp only [m_SeatThread__sync_event, bindParams, Option.map]
  thsimp []

end Bridge.Translated
