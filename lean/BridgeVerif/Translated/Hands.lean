import BridgeVerif.Translated.HandsLemmasD
import BridgeVerif.Props.C14
/-!
# hands.py AS TRANSLATED is the hand-written model of the deal encodings  (C14)

`encHands h` (HandsLemmasA.lean) is the `Hands` instance the MiniPy interpreter holds for the model value
`h : Seat → List Card` (the attributes `north`, `east`, `south`, `west` in the order `__init__` assigns them; a set of cards
is a tuple in insertion order).  The theorems below say that the TRANSLATED methods of `Hands`
(Generated/PyCoreHands.lean, re-written from hands.py on every run), executed by the interpreter at the top-level fuel,
compute exactly the model's functions (Model/Hands.lean), with syntactic equality of the resulting `Val`s (value AND the
receiver afterwards).  So the round-trip theorems of Props/C14.lean, stated for the model, are statements about the code.

Hypotheses — each one is what the code needs, and is weaker than `PartialDeal`:
* `__getitem__`, `to_dict`, `Hands(...)`: none.
* `to_binary`: every card has `2 ≤ rank` (Python computes `int(card)` in the integers, the model's `Card.idx` in the
  naturals: they agree from rank 2 on; with rank 1 Python writes slot `-1`, i.e. the LAST slot) and `idx < 52`
  (otherwise `binary[int(card)] = 1` raises `IndexError`: `hands_to_binary_translated_off_deck`).  Valid cards
  (`Card.ok`) satisfy both.  No hypothesis on duplicates or on the number of cards.
* `convert_binary`: each of the four vectors has at least 52 entries (the code reads slot `i` of the N vector for every
  `i < 52`, `IndexError` otherwise); the entries are arbitrary naturals (`== 1` is all the code asks).  The sets are built
  with `.add`, which appends only when absent: `Card.int_to_card` is injective on 0..51, so every card is new.
* `_convert_hand_to_pbn`: when the hand has 13 cards, every rank is in 2..14 (`int(card)` as above for the sort;
  `Card.rank_int_to_str` raises `ValueError` outside 2..14, where the model writes `'?'`).  NOTHING about duplicates or
  about the suit is needed: the interpreter's insertion sort (`sortF`, reversed for `reverse=True`) and the model's
  `sortDesc` put equal keys in the same order, and a card of suit `NT` is in none of the four groups on either side.
* `to_pbn`: the same for each of the four hands.

The proofs are symbolic executions of the interpreter (HandsLemmasA–D): the loops over a hand / over `range(52)` / the
sort / the comprehension by induction on the list; the loops over the four seats or suits unrolled.
-/
namespace Bridge.Translated
open Bridge Bridge.Py Bridge.Generated.PyCore

/-- a valid card has rank 2..14 and index below 52 -/
theorem hands_ok_card {c : Card} (h : c.ok = true) : 2 ≤ c.rank ∧ c.rank ≤ 14 ∧ c.idx < 52 := by
  have h' := h
  simp only [Card.ok, Bool.and_eq_true, decide_eq_true_eq] at h'
  exact ⟨h'.1.1, h'.1.2, (ofIdx_idx h).1⟩

/-! ## (a) construction, `__getitem__`, `to_dict` -/
/-- `Hands(north, east, south, west)`: the attribute order of `encHands` is the order `__init__` assigns them -/
theorem hands_new_translated (h : Hands) :
    P.runNew n_Hands [.tuple ((h .N).map encCard), .tuple ((h .E).map encCard), .tuple ((h .S).map encCard),
      .tuple ((h .W).map encCard)] = .ok (encHands h) :=
  hd_construct_hands 991 _ _ _ _

theorem hands_getitem_translated (h : Hands) (p : Seat) :
    P.runMethod n_Hands K.getitem__ [encHands h, encSeat p] = .ok (.tuple ((h p).map encCard), encHands h) :=
  hands_getitem_call 991 h p

/-- a key that is no `Player` member (`==` to none of the four): `KeyError` -/
theorem hands_getitem_translated_key_error (h : Hands) (k : Val) (hk : ∀ p, k.beq (encSeat p) = false) :
    P.runMethod n_Hands K.getitem__ [encHands h, k] = .error (.exc K.KeyError) :=
  hands_getitem_call_bad 991 h k hk

theorem hands_to_dict_translated (h : Hands) :
    P.runMethod n_Hands n_to_dict [encHands h]
      = .ok (.dict [(encSeat .N, .tuple ((h .N).map encCard)), (encSeat .E, .tuple ((h .E).map encCard)),
                    (encSeat .S, .tuple ((h .S).map encCard)), (encSeat .W, .tuple ((h .W).map encCard))], encHands h) :=
  hands_to_dict_call 991 h

/-! ## (b) `to_binary` -/
/-- `to_binary()` is the dictionary seat ↦ the model's 52-slot vector (as a tuple of `int`s) -/
theorem hands_to_binary_translated (h : Hands) (hok : ∀ p, ∀ c ∈ h p, 2 ≤ c.rank ∧ c.idx < 52) :
    P.runMethod n_Hands n_to_binary [encHands h]
      = .ok (.dict [(encSeat .N, .tuple ((toBinary h .N).map fun n => .int (Int.ofNat n))),
                    (encSeat .E, .tuple ((toBinary h .E).map fun n => .int (Int.ofNat n))),
                    (encSeat .S, .tuple ((toBinary h .S).map fun n => .int (Int.ofNat n))),
                    (encSeat .W, .tuple ((toBinary h .W).map fun n => .int (Int.ofNat n)))], encHands h) := by
  have run : P.runMethod n_Hands n_to_binary [encHands h] = callF (mkRec P 999) m_Hands_to_binary [encHands h] := rfl
  rw [run, hands_to_binary_call 969 h hok]
  simp only [hd_setBits_toBinary, encBits]

/-- for valid cards -/
theorem hands_to_binary_translated_ok (h : Hands) (hok : ∀ p, ∀ c ∈ h p, c.ok = true) :
    P.runMethod n_Hands n_to_binary [encHands h] = .ok (.dict (bitsKvs (toBinary h)), encHands h) :=
  hands_to_binary_translated h fun p c hc => ⟨(hands_ok_card (hok p c hc)).1, (hands_ok_card (hok p c hc)).2.2⟩

/-- the hypothesis `idx < 52` IS needed: a card off the deck (suit `NT`) makes the code raise `IndexError`, where the
model's `toBinary` just ignores it -/
theorem hands_to_binary_translated_off_deck :
    (P.runMethod n_Hands n_to_binary [encHands fun p => if p = .N then [⟨2, .NT⟩] else []]).exc? = some K.IndexError := by
  decide +kernel

/-! ## (c) `convert_binary` -/
/-- `Hands.convert_binary(d)` on the dictionary seat ↦ vector `b` is the `Hands` instance of the model's `convertBinary b`
(also the ORDER of the cards inside each set is the model's: slot order) -/
theorem hands_convert_binary_translated (b : Seat → List Nat) (hb : ∀ p, 52 ≤ (b p).length) :
    P.runMethod n_Hands n_convert_binary
        [.cls n_Hands, .dict [(encSeat .N, .tuple ((b .N).map fun n => .int (Int.ofNat n))),
                              (encSeat .E, .tuple ((b .E).map fun n => .int (Int.ofNat n))),
                              (encSeat .S, .tuple ((b .S).map fun n => .int (Int.ofNat n))),
                              (encSeat .W, .tuple ((b .W).map fun n => .int (Int.ofNat n)))]]
      = .ok (encHands (convertBinary b), .cls n_Hands) :=
  hands_convert_binary_call 959 (.cls n_Hands) b hb

/-- the round trip THROUGH THE TRANSLATED CODE: `Hands.convert_binary(h.to_binary())` is a `Hands` instance holding the
same four sets (Props/C14.lean `binary_round_trip` carried over) -/
theorem hands_binary_round_trip_translated (h : Hands) (hd : PartialDeal h) :
    ∃ d h', P.runMethod n_Hands n_to_binary [encHands h] = .ok (d, encHands h) ∧
      P.runMethod n_Hands n_convert_binary [.cls n_Hands, d] = .ok (encHands h', .cls n_Hands) ∧ SameHands h' h := by
  refine ⟨_, convertBinary (toBinary h), hands_to_binary_translated_ok h hd.ok, ?_, (C14.binary_round_trip h hd).1⟩
  exact hands_convert_binary_translated (toBinary h) fun p => by rw [toBinary_length]; exact Nat.le_refl _

/-! ## (d) `_convert_hand_to_pbn` -/
theorem hands_convert_hand_to_pbn_translated_cases (hand : List Card)
    (hr : hand.length = 13 → ∀ c ∈ hand, 2 ≤ c.rank ∧ c.rank ≤ 14) :
    P.runMethod n_Hands n__convert_hand_to_pbn [.tuple (hand.map encCard)]
      = match handToPbn? hand with
        | some s => .ok (.str s, .tuple (hand.map encCard))
        | none => .error (.exc K.AssertionError) :=
  hands_chp_call 959 hand hr

/-- the text the model writes -/
theorem hands_convert_hand_to_pbn_translated (hand : List Card)
    (hr : hand.length = 13 → ∀ c ∈ hand, 2 ≤ c.rank ∧ c.rank ≤ 14) (s : List Char) (hs : handToPbn? hand = some s) :
    P.runMethod n_Hands n__convert_hand_to_pbn [.tuple (hand.map encCard)] = .ok (.str s, .tuple (hand.map encCard)) := by
  rw [hands_convert_hand_to_pbn_translated_cases hand hr, hs]

/-- the model's `none` (neither 0 nor 13 cards) is the failed assertion; no hypothesis on the cards -/
theorem hands_convert_hand_to_pbn_translated_none (hand : List Card) (hs : handToPbn? hand = none) :
    P.runMethod n_Hands n__convert_hand_to_pbn [.tuple (hand.map encCard)] = .error (.exc K.AssertionError) := by
  have h13 : hand.length ≠ 13 := by
    intro h; simp [handToPbn?, h] at hs
  rw [hands_convert_hand_to_pbn_translated_cases hand (fun h => absurd h h13), hs]

/-- for valid cards (duplicates allowed) -/
theorem hands_convert_hand_to_pbn_translated_ok (hand : List Card) (hok : ∀ c ∈ hand, c.ok = true) :
    P.runMethod n_Hands n__convert_hand_to_pbn [.tuple (hand.map encCard)]
      = match handToPbn? hand with
        | some s => .ok (.str s, .tuple (hand.map encCard))
        | none => .error (.exc K.AssertionError) :=
  hands_convert_hand_to_pbn_translated_cases hand fun _ c hc =>
    ⟨(hands_ok_card (hok c hc)).1, (hands_ok_card (hok c hc)).2.1⟩

/-! ## (e) `to_pbn` -/
theorem hands_to_pbn_translated_cases (h : Hands) (first : Seat)
    (hr : ∀ p, (h p).length = 13 → ∀ c ∈ h p, 2 ≤ c.rank ∧ c.rank ≤ 14) :
    P.runMethod n_Hands n_to_pbn [encHands h, encSeat first]
      = match toPbn? h first with
        | some s => .ok (.str s, encHands h)
        | none => .error (.exc K.AssertionError) :=
  hands_to_pbn_call 939 h first hr

/-- `to_pbn(dealer)` is the model's deal string -/
theorem hands_to_pbn_translated (h : Hands) (first : Seat)
    (hr : ∀ p, (h p).length = 13 → ∀ c ∈ h p, 2 ≤ c.rank ∧ c.rank ≤ 14) (s : List Char) (hs : toPbn? h first = some s) :
    P.runMethod n_Hands n_to_pbn [encHands h, encSeat first] = .ok (.str s, encHands h) := by
  rw [hands_to_pbn_translated_cases h first hr, hs]

/-- `dealer` left to its default `Player.N` -/
theorem hands_to_pbn_translated_default (h : Hands)
    (hr : ∀ p, (h p).length = 13 → ∀ c ∈ h p, 2 ≤ c.rank ∧ c.rank ≤ 14) :
    P.runMethod n_Hands n_to_pbn [encHands h]
      = match toPbn? h .N with
        | some s => .ok (.str s, encHands h)
        | none => .error (.exc K.AssertionError) :=
  hands_to_pbn_call 939 h .N hr

/-- on a partial deal (Spec/Deal.lean: valid cards, disjoint hands, each hand empty or of 13 cards) `to_pbn` returns
the canonical text of Props/C14.lean `pbn_canonical` / `pbn_round_trip` -/
theorem hands_to_pbn_translated_partial_deal (h : Hands) (hd : PartialDeal h) (first : Seat) :
    ∃ s, toPbn? h first = some s ∧ P.runMethod n_Hands n_to_pbn [encHands h, encSeat first] = .ok (.str s, encHands h) := by
  refine ⟨_, toPbn_eq h hd.size first, ?_⟩
  exact hands_to_pbn_translated h first
    (fun p _ c hc => ⟨(hands_ok_card (hd.ok p c hc)).1, (hands_ok_card (hd.ok p c hc)).2.1⟩) _ (toPbn_eq h hd.size first)

end Bridge.Translated
