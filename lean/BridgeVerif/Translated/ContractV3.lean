import BridgeVerif.Translated.Notation
/-! `contract.py` AS TRANSLATED on every contract with vulnerability `.both` (kernel evaluation; see Contract.lean) -/
namespace Bridge.Translated
open Bridge.Py Bridge.Generated.PyCore

theorem contract_methods_v3 : ∀ b ∈ bidOpts, ∀ x xx : Bool, ∀ d ∈ seatOpts,
    contractAgrees ⟨b, x, xx, .both, d⟩ = true := by
  decide +kernel

end Bridge.Translated
