import BridgeVerif.Translated.JsonParserLemmasC
import BridgeVerif.Lemmas.RegexHandsFacts
/-! Translated `Hands.convert_pbn` / `Hands._hand_parser` (hands.py) = model, part A — everything that does NOT run the
interpreter's statements: the pattern constants, the match object `re.match` hands to the program under the hypothesis
`HandsRegexFacts`, the shape of the scanner's groups (`matchGroups`: `k+1` groups of rank characters), hand fields hold no
line feed, `convertPbn?` written over `dealFields?`, and the interpreter's order of a hand (`pyHandParser?`: first
occurrences) against the model's (`handParser?`: last occurrences). -/
namespace Bridge.Translated.HandsPbn
open Bridge Bridge.Py Bridge.Generated.PyCore Bridge.Translated Bridge.RegexHands

/-! ## the module constants are the pattern texts of `Lemmas/RegexHandsFacts.lean` -/
theorem hp_glob_hand_pattern : lookup P.globals n_HAND_PATTERN = some (.str HAND_PATTERN) := by
  have e : HAND_PATTERN = ['(', '[', '2', '-', '9', 'T', 'J', 'Q', 'K', 'A', ']', '*', ')', '.', '(', '[', '2', '-', '9', 'T', 'J', 'Q', 'K', 'A', ']', '*', ')', '.', '(', '[', '2', '-', '9', 'T', 'J', 'Q', 'K', 'A', ']', '*', ')', '.', '(', '[', '2', '-', '9', 'T', 'J', 'Q', 'K', 'A', ']', '*', ')'] := by
    decide +kernel
  rw [e]; rfl
theorem hp_glob_deal_pattern : lookup P.globals n_DEAL_PATTERN = some (.str DEAL_PATTERN) := by
  have e : DEAL_PATTERN = ['(', '[', 'N', 'E', 'S', 'W', ']', ')', ':', '(', '[', '2', '-', '9', 'T', 'J', 'Q', 'K', 'A', '\\', '.', ']', '{', '1', '6', '}', '|', '-', ')', ' ', '(', '[', '2', '-', '9', 'T', 'J', 'Q', 'K', 'A', '\\', '.', ']', '{', '1', '6', '}', '|', '-', ')', ' ', '(', '[', '2', '-', '9', 'T', 'J', 'Q', 'K', 'A', '\\', '.', ']', '{', '1', '6', '}', '|', '-', ')', ' ', '(', '[', '2', '-', '9', 'T', 'J', 'Q', 'K', 'A', '\\', '.', ']', '{', '1', '6', '}', '|', '-', ')'] := by
    decide +kernel
  rw [e]; rfl

/-! ## the match object -/
/-- the value of one group in `_Match.texts` -/
def grpVal (s : List Char) : Option (Nat × Nat) → Val
  | some be => .str (Re.slice s be.1 be.2)
  | none => .none

/-- `None` for a group that is absent or did not take part -/
def optTextVal : Option (Option (List Char)) → Val
  | some (some t) => .str t
  | _ => .none

theorem hp_matchVal_def (c t : Id) (s : List Char) (m : Re.MatchObj) :
    matchVal c t s m = .obj c [(t, .tuple (optTextVal (m.groupText s 0)
      :: (List.range m.groups.length).map fun i => optTextVal (m.groupText s (i + 1))))] := rfl

theorem hp_matchVal (c t : Id) (s : List Char) (m : Re.MatchObj) :
    matchVal c t s m = .obj c [(t, .tuple (.str (Re.slice s m.span.1 m.span.2) :: m.groups.map (grpVal s)))] := by
  have e : (List.range m.groups.length).map (fun i => optTextVal (m.groupText s (i + 1))) = m.groups.map (grpVal s) := by
    apply List.ext_getElem
    · simp
    · intro i h1 h2
      simp only [List.length_map, List.length_range] at h1
      simp only [List.getElem_map, List.getElem_range, Re.MatchObj.groupText, List.getElem?_eq_getElem h1]
      cases hg : m.groups[i] with
      | none => rfl
      | some be => obtain ⟨b, e⟩ := be; rfl
  rw [hp_matchVal_def, e]
  rfl

theorem hp_grp_map (s : List Char) : ∀ (G : List (Option (Nat × Nat))) (gs : List (List Char)),
    G.map (fun g => g.map fun be => Re.slice s be.1 be.2) = gs.map some → G.map (grpVal s) = gs.map Val.str := by
  intro G
  induction G with
  | nil => intro gs h; cases gs with
    | nil => rfl
    | cons a r => simp at h
  | cons g G ih =>
    intro gs h
    cases gs with
    | nil => simp at h
    | cons a r =>
      simp only [List.map_cons, List.cons.injEq] at h ⊢
      refine ⟨?_, ih r h.2⟩
      cases g with
      | none => simp at h
      | some be => simp only [Option.map_some, Option.some.injEq] at h; simp only [grpVal, h.1]

/-- `re.match(pat, s)` as the program sees it, when the engine's groups are known: no match -/
theorem hp_reMatch_none (r : Rec) (pat s : List Char)
    (h : (Re.pyMatch false pat s).map (Option.map (groupTexts s)) = some none) :
    builtinF r P .reMatch [.str pat, .str s, .bool false, .cls n__Match, .int n_texts] = .ok .none := by
  cases hp : Re.pyMatch false pat s with
  | none => rw [hp] at h; cases h
  | some om =>
    rw [hp] at h
    cases om with
    | none => simp only [builtinF, hp]; rfl
    | some m => simp at h

/-- … a match: an instance of `_Match` whose `texts` are group 0 and the group texts -/
theorem hp_reMatch_some (pat s : List Char) (gs : List (List Char))
    (h : (Re.pyMatch false pat s).map (Option.map (groupTexts s)) = some (some (gs.map some))) :
    ∃ g0, ∀ r : Rec, builtinF r P .reMatch [.str pat, .str s, .bool false, .cls n__Match, .int n_texts]
      = .ok (.obj n__Match [(n_texts, .tuple (.str g0 :: gs.map Val.str))]) := by
  cases hp : Re.pyMatch false pat s with
  | none => rw [hp] at h; cases h
  | some om =>
    rw [hp] at h
    cases om with
    | none => simp at h
    | some m =>
      simp only [Option.map_some, Option.some.injEq, groupTexts] at h
      refine ⟨Re.slice s m.span.1 m.span.2, fun r => ?_⟩
      have e : builtinF r P .reMatch [.str pat, .str s, .bool false, .cls n__Match, .int n_texts]
          = .ok (matchVal n__Match n_texts s m) := by
        simp only [builtinF, hp]; rfl
      rw [e, hp_matchVal, hp_grp_map s _ _ h]

/-! ## the scanner's groups -/
theorem hp_tryLen (cont : List Char → Option (List (List Char))) (s : List Char) :
    ∀ (n : Nat) (gs : List (List Char)), tryLen cont s n = some gs →
      ∃ k rest gs', k ≤ n ∧ gs = s.take k :: gs' ∧ cont rest = some gs' := by
  intro n
  induction n with
  | zero =>
    intro gs h
    unfold tryLen at h
    cases s with
    | nil => cases h
    | cons a rest =>
      simp only at h
      cases hc : cont rest with
      | none => rw [hc] at h; cases h
      | some gs' =>
        rw [hc] at h
        simp only [Option.map_some, Option.some.injEq] at h
        exact ⟨0, rest, gs', Nat.le_refl _, by rw [← h]; rfl, hc⟩
  | succ n ih =>
    intro gs h
    unfold tryLen at h
    split at h
    · obtain ⟨k, rest, gs', hk, e, hc⟩ := ih gs h
      exact ⟨k, rest, gs', Nat.le_succ_of_le hk, e, hc⟩
    · rename_i a rest _
      split at h
      · rename_i gs' hc
        cases h
        exact ⟨n + 1, rest, gs', Nat.le_refl _, rfl, hc⟩
      · obtain ⟨k, rest', gs', hk, e, hc⟩ := ih gs h
        exact ⟨k, rest', gs', Nat.le_succ_of_le hk, e, hc⟩

theorem hp_take_rank (s : List Char) (k : Nat) (hk : k ≤ (s.takeWhile isRankChar).length) :
    ∀ c ∈ s.take k, isRankChar c = true := by
  intro c hc
  have hp : s.takeWhile isRankChar <+: s := List.takeWhile_prefix _
  have e : s.takeWhile isRankChar = s.take (s.takeWhile isRankChar).length := List.prefix_iff_eq_take.1 hp
  have : s.take k = (s.takeWhile isRankChar).take k := by
    conv => rhs; rw [e, List.take_take]
    rw [Nat.min_eq_left hk]
  rw [this] at hc
  exact List.all_eq_true.1 List.all_takeWhile c (List.mem_of_mem_take hc)

/-- `matchGroups k` returns `k+1` groups, each of rank characters -/
theorem hp_matchGroups (k : Nat) : ∀ (s : List Char) (gs : List (List Char)), matchGroups k s = some gs →
    gs.length = k + 1 ∧ ∀ g ∈ gs, ∀ c ∈ g, isRankChar c = true := by
  induction k with
  | zero =>
    intro s gs h
    simp only [matchGroups, Option.some.injEq] at h
    subst h
    refine ⟨rfl, ?_⟩
    intro g hg c hc
    simp only [List.mem_singleton] at hg
    subst hg
    exact List.all_eq_true.1 List.all_takeWhile c hc
  | succ k ih =>
    intro s gs h
    simp only [matchGroups] at h
    obtain ⟨j, rest, gs', hj, e, hc⟩ := hp_tryLen _ _ _ _ h
    obtain ⟨hl, hr⟩ := ih rest gs' hc
    subst e
    refine ⟨by simp [hl], ?_⟩
    intro g hg c hcg
    rw [List.mem_cons] at hg
    rcases hg with rfl | hg
    · exact hp_take_rank s j hj c hcg
    · exact hr g hg c hcg

theorem hp_matchGroups3 (s : List Char) (gs : List (List Char)) (h : matchGroups 3 s = some gs) :
    ∃ a b c d, gs = [a, b, c, d] ∧ (∀ x ∈ a, isRankChar x = true) ∧ (∀ x ∈ b, isRankChar x = true) ∧
      (∀ x ∈ c, isRankChar x = true) ∧ (∀ x ∈ d, isRankChar x = true) := by
  obtain ⟨hl, hr⟩ := hp_matchGroups 3 s gs h
  match gs, hl with
  | [a, b, c, d], _ =>
    exact ⟨a, b, c, d, rfl, hr a (by simp), hr b (by simp), hr c (by simp), hr d (by simp)⟩

/-- a rank character is read as a rank 2..14 -/
theorem hp_rank_char (c : Char) (h : isRankChar c = true) : ∃ r, rankOfChar? c = some r ∧ 2 ≤ r ∧ r ≤ 14 := by
  simp only [isRankChar, Bool.or_eq_true, beq_iff_eq] at h
  rcases h with (((((((((((rfl | rfl) | rfl) | rfl) | rfl) | rfl) | rfl) | rfl) | rfl) | rfl) | rfl) | rfl) | rfl
  · exact ⟨2, by decide +kernel, by decide, by decide⟩
  · exact ⟨3, by decide +kernel, by decide, by decide⟩
  · exact ⟨4, by decide +kernel, by decide, by decide⟩
  · exact ⟨5, by decide +kernel, by decide, by decide⟩
  · exact ⟨6, by decide +kernel, by decide, by decide⟩
  · exact ⟨7, by decide +kernel, by decide, by decide⟩
  · exact ⟨8, by decide +kernel, by decide, by decide⟩
  · exact ⟨9, by decide +kernel, by decide, by decide⟩
  · exact ⟨10, by decide +kernel, by decide, by decide⟩
  · exact ⟨11, by decide +kernel, by decide, by decide⟩
  · exact ⟨12, by decide +kernel, by decide, by decide⟩
  · exact ⟨13, by decide +kernel, by decide, by decide⟩
  · exact ⟨14, by decide +kernel, by decide, by decide⟩

/-! ## a hand field holds no line feed -/
theorem hp_field_no_nl (s h r : List Char) (e : takeHandField? s = some (h, r)) : '\n' ∉ h := by
  unfold takeHandField? at e
  split at e
  · rename_i hc
    cases e
    intro hm
    have := List.all_eq_true.1 hc.2 _ hm
    exact absurd this (by decide)
  · split at e
    · cases e; decide
    · cases e

/-! ## the hand as the interpreter holds it -/
/-- the cards of one suit group -/
def suitCards (su : Suit) (g : List Char) : List Card :=
  g.filterMap fun ch => (rankOfChar? ch).bind fun r => mkCard? r su

/-- the cards of a hand field in text order, before the set is built -/
def handRaw? (f : List Char) : Option (List Card) :=
  if f = ['-'] then some []
  else
    match matchGroups 3 f with
    | some [gs, gh, gd, gc] => some (suitCards .S gs ++ suitCards .H gh ++ suitCards .D gd ++ suitCards .C gc)
    | _ => none

theorem hp_handParser_raw (f : List Char) : handParser? f = (handRaw? f).map dedup := by
  unfold handParser? handRaw?
  split
  · rfl
  · split <;> rename_i hm
    · simp only [hm, suitCards, Option.map_some]
    · split <;> rename_i hm'
      · exact absurd hm' (hm _ _ _ _)
      · rfl

/-- `Hands._hand_parser` as the interpreter computes it: the set in FIRST-occurrence order -/
def pyHandParser? (f : List Char) : Option (List Card) := (handRaw? f).map dedupFirst

theorem hp_pyHandParser_none (f : List Char) : pyHandParser? f = none ↔ handParser? f = none := by
  rw [hp_handParser_raw, pyHandParser?]; cases handRaw? f <;> simp

/-- same set as the model's, no duplicates -/
theorem hp_pyHandParser_some (f : List Char) (cards : List Card) (h : handParser? f = some cards) :
    ∃ l, pyHandParser? f = some l ∧ l.Nodup ∧ l.Perm cards := by
  rw [hp_handParser_raw] at h
  unfold pyHandParser?
  cases hr : handRaw? f with
  | none => rw [hr] at h; cases h
  | some raw =>
    rw [hr] at h
    simp only [Option.map_some, Option.some.injEq] at h
    subst h
    exact ⟨_, rfl, jp_nodup_dedupFirst raw, jp_dedupFirst_perm raw⟩

/-! ## `convertPbn?` over `dealFields?` -/
/-- the deal: the four hands in rotation from `first` -/
def assemble (first : Seat) (c0 c1 c2 c3 : List Card) : Hands := fun p =>
  if p = first then c0 else if p = first.left then c1 else if p = first.left.left then c2 else c3

theorem hp_seat_letter (f : Char) (h : f = 'N' ∨ f = 'E' ∨ f = 'S' ∨ f = 'W') : ∃ p, seatOfName? [f] = some p := by
  rcases h with rfl | rfl | rfl | rfl
  · exact ⟨.N, rfl⟩
  · exact ⟨.E, rfl⟩
  · exact ⟨.S, rfl⟩
  · exact ⟨.W, rfl⟩

/-- when `DEAL_PATTERN` matches: the fields, their shape, and the model in terms of them -/
theorem hp_dealFields_some (s : List Char) (fl : List (List Char)) (h : dealFields? s = some fl) :
    ∃ f h0 h1 h2 h3 first, fl = [[f], h0, h1, h2, h3] ∧ seatOfName? [f] = some first ∧
      '\n' ∉ h0 ∧ '\n' ∉ h1 ∧ '\n' ∉ h2 ∧ '\n' ∉ h3 ∧
      convertPbn? s = (match handParser? h0, handParser? h1, handParser? h2, handParser? h3 with
        | some c0, some c1, some c2, some c3 => some (assemble first c0 c1 c2 c3)
        | _, _, _, _ => none) := by
  unfold dealFields? at h
  split at h
  · rename_i f r0
    split at h
    · rename_i hf
      obtain ⟨first, hfirst⟩ := hp_seat_letter f hf
      split at h
      · rename_i h0 r1 e0
        split at h
        · rename_i h1 r2 e1
          split at h
          · rename_i h2 r3 e2
            split at h
            · rename_i h3 r4 e3
              cases h
              refine ⟨f, h0, h1, h2, h3, first, rfl, hfirst, hp_field_no_nl _ _ _ e0, hp_field_no_nl _ _ _ e1,
                hp_field_no_nl _ _ _ e2, hp_field_no_nl _ _ _ e3, ?_⟩
              simp only [convertPbn?, hfirst, e0, e1, e2, e3]
              rfl
            · cases h
          · cases h
        · cases h
      · cases h
    · cases h
  · cases h

theorem hp_seat_letter' (f : Char) (p : Seat) (h : seatOfName? [f] = some p) : f = 'N' ∨ f = 'E' ∨ f = 'S' ∨ f = 'W' := by
  unfold seatOfName? at h
  split at h <;> simp_all

/-- when `DEAL_PATTERN` does not match, the model has no deal -/
theorem hp_dealFields_none (s : List Char) (h : dealFields? s = none) : convertPbn? s = none := by
  cases hc : convertPbn? s with
  | none => rfl
  | some hh =>
    exfalso
    unfold convertPbn? at hc
    split at hc
    · rename_i f r0
      split at hc
      · cases hc
      · rename_i first hfirst
        have hf := hp_seat_letter' f first hfirst
        split at hc
        · rename_i h0 r1 e0
          split at hc
          · rename_i h1 r2 e1
            split at hc
            · rename_i h2 r3 e2
              split at hc
              · rename_i h3 r4 e3
                simp [dealFields?, hf, e0, e1, e2, e3] at h
              · cases hc
            · cases hc
          · cases hc
        · cases hc
    · cases hc

end Bridge.Translated.HandsPbn
