import BridgeVerif.Translated.JsonWriterLemmasE
import BridgeVerif.Model.Pbn
/-! Translated PBN writer (pbn_handler/writer.py) = model: `write_line` — the `while` loop by induction on the fuel -/
namespace Bridge.Translated
open Bridge Bridge.Py Bridge.Generated.PyCore

/-- the `PbnWriter` instance whose `writer` is the file object holding `chunks` -/
def encPbnWriter (chunks : List Str) : Val := .obj n_PbnWriter [(n_writer, encFile chunks)]
/-- the synthetic date object: `strftime` returns the text -/
def encDate (t : Str) : Val := .obj n__Date [(n_text, .str t)]

/-- condition and body of the `while` loop of `write_line` -/
def pwCond : Expr := match m_PbnWriter_write_line.body.getD 1 .pass with
  | .while c _ => c
  | _ => default
def pwBody : List Stmt := match m_PbnWriter_write_line.body.getD 1 .pass with
  | .while _ b => b
  | _ => []

/-- `k` turns of the loop: the chunks written, and the string left -/
def pwSplit : Nat → Str → List Str × Str
  | 0, s => ([], s)
  | k + 1, s =>
    if s.length > MAX_LINE_CHARS then
      ((s.take (MAX_LINE_CHARS - 1) ++ ['\n']) :: (pwSplit k (s.drop (MAX_LINE_CHARS - 1))).1,
        (pwSplit k (s.drop (MAX_LINE_CHARS - 1))).2)
    else ([], s)

theorem pw_split_aux (k : Nat) (s : Str) : writeLineAux k s = (pwSplit k s).1 ++ [(pwSplit k s).2] := by
  induction k generalizing s with
  | zero => rfl
  | succ k ih =>
    simp only [writeLineAux, pwSplit]
    split
    · simp only [ih, List.cons_append]
    · rfl

/-- `writeLineAux` does not depend on its fuel once there is enough of it -/
theorem pw_aux_fuel (k : Nat) : ∀ (k' : Nat) (s : Str), k ≤ k' → s.length ≤ 254 * k + 255 →
    writeLineAux k s = writeLineAux k' s := by
  induction k with
  | zero =>
    intro k' s _ h
    cases k' with
    | zero => rfl
    | succ k' =>
      have : ¬ s.length > MAX_LINE_CHARS := by simp only [MAX_LINE_CHARS]; omega
      simp only [writeLineAux, this, if_false]
  | succ k ih =>
    intro k' s hk h
    cases k' with
    | zero => omega
    | succ k' =>
      simp only [writeLineAux]
      split
      · rw [ih k' _ (by omega) (by simp only [List.length_drop, MAX_LINE_CHARS]; omega)]
      · rfl

theorem pw_aux_fuel' (k k' : Nat) (s : Str) (h : s.length ≤ 254 * k + 255) (h' : s.length ≤ 254 * k' + 255) :
    writeLineAux k s = writeLineAux k' s := by
  rw [pw_aux_fuel k (max k k') s (Nat.le_max_left ..) h, pw_aux_fuel k' (max k k') s (Nat.le_max_right ..) h']

/-! ## slices -/
theorem pw_slice_take (s : Str) : sliceList s none (some 254) = s.take 254 := by
  simp only [sliceList, clampIndex, List.drop_zero, Nat.sub_zero]
  have : (0:Int) ≤ 254 := by decide
  simp only [this, if_true]
  rw [show (254 : Int).toNat = 254 from rfl]
  by_cases h : 254 ≤ s.length
  · rw [Nat.min_eq_left h]
  · rw [Nat.min_eq_right (by omega), List.take_of_length_le (Nat.le_refl _), List.take_of_length_le (by omega)]

theorem pw_slice_drop (s : Str) : sliceList s (some 254) none = s.drop 254 := by
  simp only [sliceList, clampIndex]
  have : (0:Int) ≤ 254 := by decide
  simp only [this, if_true]
  rw [show (254 : Int).toNat = 254 from rfl]
  rw [List.take_of_length_le (by simp only [List.length_drop]; omega)]
  by_cases h : 254 ≤ s.length
  · rw [Nat.min_eq_left h]
  · rw [Nat.min_eq_right (by omega), List.drop_of_length_le (Nat.le_refl _), List.drop_of_length_le (by omega)]

/-! ## the class attribute -/
theorem pw_mth_max : P.method? classDepth n_PbnWriter n_MAX_LINE_CHARS = some (n_PbnWriter, m_PbnWriter_MAX_LINE_CHARS) := rfl
theorem pw_max_call (f : Nat) (v : Val) :
    callF (mkRec P (f+4)) m_PbnWriter_MAX_LINE_CHARS [v] = .ok (.int 255, v) := rfl

theorem pw_gt_255 (n : Nat) : decide (Int.ofNat n > 255) = decide (n > 255) := by
  rw [Bool.eq_iff_iff]; simp only [decide_eq_true_eq, Int.ofNat_eq_natCast]; omega

theorem pw_cond (f : Nat) (s : Str) (chunks : List Str) (tail : Env) :
    evalF (mkRec P (f+10)) P ((K.self, .obj n_PbnWriter [(n_writer, encFile chunks)]) :: (n_string, .str s) :: tail) pwCond
      = .ok (.bool (decide (s.length > 255))) := by
  simp only [pwCond, m_PbnWriter_write_line, List.getD_cons_succ, List.getD_cons_zero]
  ppsimp [builtinF, pw_mth_max, pw_max_call, compareF, asInt?, pw_gt_255]

theorem pw_turn (f : Nat) (s : Str) (chunks : List Str) (tail : Env) :
    execF (mkRec P (f+20)) P ((K.self, .obj n_PbnWriter [(n_writer, encFile chunks)]) :: (n_string, .str s) :: tail) pwBody
      = .ok ((K.self, .obj n_PbnWriter [(n_writer, encFile (chunks ++ [s.take 254 ++ ['\n']]))]) :: (n_string, .str (s.drop 254))
          :: update tail n_part_string (.str (s.take 254 ++ ['\n'])), .next) := by
  simp only [pwBody, m_PbnWriter_write_line, List.getD_cons_succ, List.getD_cons_zero]
  ppsimp [builtinF, pw_mth_max, pw_max_call, jw_file_write_meth, pw_slice_take, pw_slice_drop]

/-- the loop at an arbitrary fuel: `k` levels for the turns -/
theorem pw_loop (k : Nat) : ∀ (s : Str) (chunks : List Str) (tail : Env), s.length ≤ 254 * k + 255 →
    ∃ tail', loopF (mkRec P (k + 21)) ((K.self, .obj n_PbnWriter [(n_writer, encFile chunks)]) :: (n_string, .str s) :: tail)
        pwCond pwBody
      = .ok ((K.self, .obj n_PbnWriter [(n_writer, encFile (chunks ++ (pwSplit k s).1))])
          :: (n_string, .str (pwSplit k s).2) :: tail', .next) := by
  induction k with
  | zero =>
    intro s chunks tail h
    refine ⟨tail, ?_⟩
    have hs : ¬ s.length > 255 := by omega
    rw [loopF]
    simp only [eval_succ, Nat.zero_add, pw_cond, bind_ok, pp_truthy_bool, hs, decide_false, Bool.false_eq_true,
      if_false, pure_eq, pwSplit, List.append_nil]
  | succ k ih =>
    intro s chunks tail h
    by_cases hs : s.length > 255
    · obtain ⟨tail', ih⟩ := ih (s.drop 254) (chunks ++ [s.take 254 ++ ['\n']])
        (update tail n_part_string (.str (s.take 254 ++ ['\n']))) (by simp only [List.length_drop]; omega)
      refine ⟨tail', ?_⟩
      have e : k + 1 + 21 = (k + 21) + 1 := by omega
      rw [e, loopF]
      simp only [eval_succ, exec_succ, loop_succ, pw_cond, bind_ok, pp_truthy_bool, hs, decide_true, if_true, pw_turn,
        ih, pwSplit, MAX_LINE_CHARS, List.append_assoc, List.cons_append, List.nil_append, Nat.add_one_sub_one]
    · refine ⟨tail, ?_⟩
      have hs' : ¬ s.length > MAX_LINE_CHARS := hs
      have e : k + 1 + 21 = (k + 21) + 1 := by omega
      rw [e, loopF]
      simp only [eval_succ, pw_cond, bind_ok, pp_truthy_bool, hs, decide_false, Bool.false_eq_true,
        if_false, pure_eq, pwSplit, hs', List.append_nil]

theorem pw_mth_write_line : P.method? classDepth n_PbnWriter n_write_line = some (n_PbnWriter, m_PbnWriter_write_line) := rfl

theorem pw_getLast_index (r : Rec) (s : Str) (c : Char) (h : s.getLast? = some c) :
    indexF r P (.str s) (.int (-1)) = .ok (.str [c]) := by
  have hne : s ≠ [] := by intro e; rw [e] at h; cases h
  have hl : 1 ≤ s.length := List.length_pos_iff.2 hne
  have hn : normIndex s.length (-1) = some (s.length - 1) := by
    simp only [normIndex]
    rw [if_neg (by decide), if_pos (by simpa using hl)]
    rfl
  have hg : s.getD (s.length - 1) ' ' = c := by
    rw [List.getLast?_eq_getElem?] at h
    rw [List.getD_eq_getElem?_getD, h]; rfl
  simp only [indexF, asInt?, hn, hg]; rfl

theorem pw_index_empty (r : Rec) (iv : Int) : indexF r P (.str []) (.int iv) = .error (.exc K.IndexError) := by
  have hn : normIndex 0 iv = none := by
    simp only [normIndex]
    split
    · rw [if_neg (by omega)]
    · rw [if_neg (by omega)]
  simp only [indexF, asInt?, List.length_nil, hn]; rfl

theorem pw_beq_nl (c : Char) : (Val.str [c]).beq (.str ['\n']) = decide (c = '\n') := by
  simp only [Val.beq]
  rw [Bool.eq_iff_iff]; simp

/-- `write_line` at an arbitrary fuel: `k` levels for the turns of the loop -/
theorem pw_write_line_call (k : Nat) (chunks : List Str) (s : Str) (cs : List Str) (h : writeLine? s = some cs)
    (hlen : s.length ≤ 254 * k + 254) :
    callF (mkRec P (k + 23)) m_PbnWriter_write_line [.obj n_PbnWriter [(n_writer, encFile chunks)], .str s]
      = .ok (.none, .obj n_PbnWriter [(n_writer, encFile (chunks ++ cs))]) := by
  rw [callF_def]
  cases hg : s.getLast? with
  | none => rw [writeLine?, hg] at h; cases h
  | some c =>
    rw [writeLine?, hg] at h
    simp only [Option.some.injEq] at h
    subst h
    simp only [m_PbnWriter_write_line, bindParams, Option.map]
    by_cases hc : c = '\n'
    · simp only [hc, if_true]
      have hl := pw_loop k s chunks [] (by omega)
      simp only [pwCond, pwBody, m_PbnWriter_write_line, List.getD_cons_succ, List.getD_cons_zero] at hl
      obtain ⟨tail', hl⟩ := hl
      rw [pw_aux_fuel' s.length k s (by omega) (by omega), pw_split_aux]
      ppsimp [pw_getLast_index _ s c hg, pw_beq_nl, hc, loop_succ, hl, jw_file_write_meth, List.append_assoc]
    · simp only [hc, if_false]
      have hl := pw_loop k (s ++ ['\n']) chunks [] (by simp only [List.length_append, List.length_singleton]; omega)
      simp only [pwCond, pwBody, m_PbnWriter_write_line, List.getD_cons_succ, List.getD_cons_zero] at hl
      obtain ⟨tail', hl⟩ := hl
      rw [pw_aux_fuel' (s ++ ['\n']).length k (s ++ ['\n']) (by omega)
        (by simp only [List.length_append, List.length_singleton]; omega), pw_split_aux]
      ppsimp [pw_getLast_index _ s c hg, pw_beq_nl, hc, loop_succ, hl, jw_file_write_meth, List.append_assoc]

theorem pw_write_line_call_empty (f : Nat) (chunks : List Str) :
    callF (mkRec P (f + 10)) m_PbnWriter_write_line [.obj n_PbnWriter [(n_writer, encFile chunks)], .str []]
      = .error (.exc K.IndexError) := by
  rw [callF_def]
  simp only [m_PbnWriter_write_line, bindParams, Option.map]
  ppsimp [pw_index_empty]

end Bridge.Translated
