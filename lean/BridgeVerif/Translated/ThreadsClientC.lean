import BridgeVerif.Translated.ThreadsClientCLemmasB
/-!
# The TRANSLATED client thread, whole: `ClientThread.run` (Generated/PyCoreThreads.lean) IS `_connect` + `clientReactive`

Statements are about the generated `m_ClientThread_run` (its `while True` statement `crLoop` and the loop's body `crBody`
are EXTRACTED from `m_ClientThread_run.body`, ThreadsClientCLemmasB.lean) run by the MiniPy interpreter in the whole
translated program `P`, for EVERY fuel from a stated bound on, on the client object
`encClientThread p (encClientWorld s (calls.map encCall) (cards.map encCard) out) team opp extra`.  The phases are the
colleagues' theorems (`client_connect_translated`, `client_deal_translated`, `client_bidding_translated` of
Translated/ThreadsClientA.lean, `client_playing_translated` of Translated/ThreadsClientB.lean), composed here.

* Translated/ThreadsClientCLemmas.lean — `clientBoardR` = ONE board of the model's `clientBoardsR` (`clientBoardsR_succ`);
  what the phases do to the three streams (`clientBiddingR_streams`, `clientPlayingR_inv`); `eraseDecisions` = `erasePlays ∘
  eraseAsks` and the rendering of the model's actions contains no decision (`encClientActs_clean`).
* Translated/ThreadsClientCLemmasB.lean — `crBody` cut into `crFront` (the "start of board" test, `_deal`, `bidding_phase`,
  `playing_phase` unless passed out) and `crBack` (the next message, the "End of session" test, `board_num += 1`), both
  executed symbolically with the phases as rewrite rules.
* here: `boardParses` / `boardsParses` (the parse hypotheses of the phases composed, walking the streams like the model),
  (1) `client_board_translated`, (2) `cr_boards_loop` (the loop invariant, by induction on the model's fuel; one
  interpreter level per board) and `client_boards_translated`, (3) `client_run_translated`, and closed instances of all
  three (a passed-out board that ends the session; the translated parsers are evaluated on its messages).

The operations are given as `∃ ops` with `encClientActs p acts = some (eraseDecisions ops)` (as in ThreadsClientB.lean),
`ops` not depending on the fuel.  The object's attributes: `Dealt` / `DealtStar` (`dealtFields` iterated, `hand_set` the
encoding of the model's hand), `DealtStar.shape_nil`: from a fresh object exactly the five attributes of `_deal`.
The local `board_num` ends as the initial value plus `boardsMore` (the boards after the first).
-/
set_option maxRecDepth 4000
namespace Bridge.Translated.ClientC
open Bridge Bridge.Py Bridge.Generated.PyCore Bridge.Translated Bridge.Translated.ClientA Bridge.Translated.ClientB

/-! ## (1) one board -/

theorem cr_execF_append (r : Rec) (env : Env) (a b : List Stmt) (env1 : Env)
    (h : execF r P env a = .ok (env1, .next)) : execF r P env (a ++ b) = execF r P env1 b := by
  induction a generalizing env with
  | nil => simp only [execF, pure_eq, Except.ok.injEq, Prod.mk.injEq, and_true] at h; subst h; rfl
  | cons s ss ih =>
    simp only [List.cons_append, execF] at h ⊢
    cases hs : execStmtF r P env s with
    | error e => rw [hs] at h; cases h
    | ok x =>
      obtain ⟨e, fl⟩ := x
      rw [hs] at h
      simp only [bind_ok] at h ⊢
      cases fl with
      | next => exact ih e h
      | ret v => simp only [pure_eq, Except.ok.injEq, Prod.mk.injEq, reduceCtorEq, and_false] at h
      | brk => simp only [pure_eq, Except.ok.injEq, Prod.mk.injEq, reduceCtorEq, and_false] at h
      | cont => simp only [pure_eq, Except.ok.injEq, Prod.mk.injEq, reduceCtorEq, and_false] at h

theorem lookup_dealtFields_hand_set (extra : List (Id × Val)) (k : Nat) (dealer : Seat) (vul : Vul) (hs hb : Val) :
    lookup (dealtFields extra k dealer vul hs hb) n_hand_set = some hs := by
  unfold dealtFields
  rw [lookup_update_ne _ _ _ _ (by decide), lookup_update_same]

theorem clientDealR_len (p : Seat) (i i' : ClientIn) (acts : ClientActs) (b : Nat × Seat × Vul) (hand : List Card)
    (h : clientDealR p i = some (acts, b, hand, i')) : i'.s.length + 2 = i.s.length := by
  obtain ⟨_, _, e⟩ := clientDealR_decisions p i i' acts b hand h
  obtain ⟨s, calls, cards⟩ := i
  match s, h, e with
  | _ :: _ :: s0, _, e => rw [e]; simp
  | [], h, _ => simp [clientDealR, ClientIn.recv] at h
  | [hd], h, _ =>
    simp only [clientDealR, ClientIn.recv, Option.bind_eq_bind, Option.bind_some] at h
    cases hb0 : parseBoard? hd <;> simp [hb0] at h

/-- the parse hypotheses of ONE board, walking the streams like `clientBoardR`: `dealParses` on the two messages of `_deal`
(with `hand_set` the encoding of the hand the model parses), `bidParses` along `clientBiddingR`, and — when a contract was
reached — `PlayParses` on the stream the auction leaves -/
def boardParses (N : Nat) (p : Seat) (i : ClientIn) : Prop :=
  match clientDealR p i with
  | none => True
  | some (_, (_, dealer, vul), hand, i1) =>
    (∃ hb, dealParses N p i (encCards hand) hb) ∧
    bidParses N p (320 + 1) (AState.init dealer vul) i1 ∧
    match clientBiddingR p (320 + 1) (AState.init dealer vul) i1 with
    | none => True
    | some (_, s, i2) =>
      match s.contract with
      | none => True
      | some c => c.isPassedOut = false → PlayParses N i2

/-- how to establish `boardParses` -/
theorem boardParses_of (N : Nat) (p : Seat) (i i1 : ClientIn) (d : ClientActs) (kb : Nat) (dealer : Seat) (vul : Vul)
    (hand : List Card) (hd : clientDealR p i = some (d, (kb, dealer, vul), hand, i1))
    (h1 : ∃ hb, dealParses N p i (encCards hand) hb) (h2 : bidParses N p (320 + 1) (AState.init dealer vul) i1)
    (h3 : ∀ b s i2 c, clientBiddingR p (320 + 1) (AState.init dealer vul) i1 = some (b, s, i2) → s.contract = some c →
      c.isPassedOut = false → PlayParses N i2) : boardParses N p i := by
  unfold boardParses
  rw [hd]
  refine ⟨h1, h2, ?_⟩
  cases hb : clientBiddingR p (320 + 1) (AState.init dealer vul) i1 with
  | none => trivial
  | some x =>
    obtain ⟨b, s, i2⟩ := x
    dsimp only
    cases hc : s.contract with
    | none => trivial
    | some c => exact h3 b s i2 c hb hc

/-- the object's attributes after one more `_deal` -/
def Dealt (extra extra' : List (Id × Val)) : Prop :=
  ∃ (k : Nat) (dealer : Seat) (vul : Vul) (hand : List Card) (hb : Val),
    extra' = dealtFields extra k dealer vul (encCards hand) hb

theorem callFn_eq_callF (f : Nat) (fd : FuncDef) (args : List Val) :
    callFn P (f+1) fd args = callF (mkRec P f) fd args := rfl

/-- the playing part of a board, translated: nothing to do when passed out is handled by the caller; here a contract -/
theorem cr_play_all_fuels (p : Seat) (c : Contract) (hand : List Card) (i2 i3 : ClientIn) (pl : ClientActs) (N : Nat)
    (hpo : c.isPassedOut = false) (h : clientPlayR p c hand i2 = some (pl, i3)) (hp : PlayParses N i2)
    (out : List Val) (team : Str) (opp : Val) (extra : List (Id × Val))
    (hhs : lookup extra n_hand_set = some (encCards hand)) :
    ∃ ops, encClientActs p pl = some (erasePlays ops) ∧ i3.calls = i2.calls ∧ i3.s.length ≤ i2.s.length ∧
      ∀ f, N + 124 ≤ f →
        callFn P f m_ClientThread_playing_phase
          [encClientThread p (encClientWorld i2.s (i2.calls.map encCall) (i2.cards.map encCard) out) team opp extra,
            encContract c]
        = .ok (.none, encClientThread p (encClientWorld i3.s (i2.calls.map encCall) (i3.cards.map encCard) (out ++ ops))
            team opp extra) := by
  unfold clientPlayR at h
  simp only [hpo, Bool.false_eq_true, if_false] at h
  cases hdecl : c.declarer with
  | none => rw [hdecl] at h; cases h
  | some decl =>
    cases h0 : Observed.init c p hand with
    | none => rw [hdecl, h0] at h; cases h
    | some o0 =>
      rw [hdecl, h0] at h
      simp only [Option.bind_eq_bind] at h
      obtain ⟨⟨acts, o', i3'⟩, hpl, h⟩ := bind_some_inv h
      simp only [Option.pure_def, Option.some.injEq, Prod.mk.injEq] at h
      obtain ⟨rfl, rfl⟩ := h
      obtain ⟨ops, ho, hx⟩ := client_playing_translated p decl c hand o0 o' 14 N i2 i3' acts hdecl h0 hpl hp
        (i2.calls.map encCall) out team opp extra hhs (14 + N + 110) (Nat.le_refl _)
      obtain ⟨e1, e2⟩ := clientPlayingR_inv p decl 14 o0 o' false i2 i3' acts hpl
      refine ⟨ops, ho, e1, e2, fun f hf => ?_⟩
      exact callFn_fuel_mono P (by omega) _ _ _ hx (by intro h'; cases h')

/-- (1) ONE iteration of the `while True` loop of `run` (`crBody`, extracted from `m_ClientThread_run.body`) IS one board
of the model (`clientBoardR`, `clientBoardsR_succ`).  Entered with `message` a "Start of board" (any case) the body runs
`_deal`, `bidding_phase`, `playing_phase(contract)` unless passed out, receives the next message `m'` and ends by `break`
if it is "End of session", else with `board_num + 1`; the streams are the ones the model leaves; the operations appended to
`out` are the model's actions with a `bidAsk` / `playAsk` per decision (`eraseDecisions`); the object has been `Dealt`. -/
theorem client_board_translated (p : Seat) (N : Nat) (i i' : ClientIn) (acts : ClientActs) (m m' : Text)
    (hm : lowerS m = lowerS MSG_START) (h : clientBoardR p i = some (acts, m', i')) (hp : boardParses N p i)
    (out : List Val) (team : Str) (opp : Val) (extra : List (Id × Val)) (k : Int) (rest : Env) :
    ∃ ops extra', encClientActs p acts = some (eraseDecisions ops) ∧ Dealt extra extra' ∧
      i'.s.length + 3 ≤ i.s.length ∧ i'.calls.length ≤ i.calls.length ∧
      ∀ f, i.s.length + i.calls.length + N + 155 ≤ f → ∃ rest',
        exec P f ((K.self, encClientThread p (encClientWorld i.s (i.calls.map encCall) (i.cards.map encCard) out)
            team opp extra) :: (n_message, .str m) :: (n_board_num, .int k) :: rest) crBody
          = .ok ((K.self, encClientThread p (encClientWorld i'.s (i'.calls.map encCall) (i'.cards.map encCard)
              (out ++ ops)) team opp extra') :: (n_message, .str m') ::
              (n_board_num, .int (if m' = MSG_END then k else k + 1)) :: rest',
              if m' = MSG_END then .brk else .next) := by
  unfold clientBoardR at h
  simp only [Option.bind_eq_bind] at h
  obtain ⟨⟨d, ⟨kb, dealer, vul⟩, hand, i1⟩, hd, h⟩ := bind_some_inv h
  obtain ⟨⟨b, s, i2⟩, hb, h⟩ := bind_some_inv h
  obtain ⟨c, hc, h⟩ := bind_some_inv h
  obtain ⟨⟨pl, i3⟩, hpl, h⟩ := bind_some_inv h
  obtain ⟨⟨m'', i4⟩, hr, h⟩ := bind_some_inv h
  simp only [Option.pure_def, Option.some.injEq, Prod.mk.injEq] at h
  obtain ⟨rfl, rfl, rfl⟩ := h
  unfold boardParses at hp
  rw [hd] at hp
  dsimp only at hp
  rw [hb] at hp
  dsimp only at hp
  rw [hc] at hp
  dsimp only at hp
  obtain ⟨⟨hbv, hp1⟩, hp2, hp3⟩ := hp
  -- `_deal`
  obtain ⟨ops1, ho1, hdeal⟩ := client_deal_translated p i i1 d kb dealer vul hand N (encCards hand) hbv
    (i.cards.map encCard) out team opp extra hd hp1
  obtain ⟨ec1, ec2, ec3⟩ := clientDealR_decisions p i i1 d _ hand hd
  -- `bidding_phase`
  obtain ⟨ho2, hbid⟩ := client_bidding_translated p (320 + 1) dealer vul i1 i2 b s c N (i.cards.map encCard) (out ++ ops1)
    team opp (dealtFields extra kb dealer vul (encCards hand) hbv) (lookup_dealtFields_dealer ..)
    (lookup_dealtFields_vul ..) hb hc hp2
  obtain ⟨eb1, eb2, eb3⟩ := clientBiddingR_streams p _ _ i1 b s i2 hb
  have hlen1 : i1.s.length + 2 = i.s.length := clientDealR_len p i i1 d _ hand hd
  have hrecv : encClientActs p [.recv (.s2c p)] = some [.tuple [vstr "recv"]] := by simp [encClientActs, encClientAct]
  have e1 := eraseDecisions_clean p d ops1 ho1
  have e2 := eraseDecisions_of_asks p b _ ho2
  have hd' : ∀ g, i.s.length + i.calls.length + N + 124 ≤ g → ∀ j, callF (mkRec P (g+j)) m_ClientThread__deal
      [encClientThread p (encClientWorld i.s (i.calls.map encCall) (i.cards.map encCard) out) team opp extra] = _ :=
    fun g hg j => hdeal (g+j+1) (by omega)
  have hb' : ∀ g, i.s.length + i.calls.length + N + 124 ≤ g → ∀ j, callF (mkRec P (g+j)) m_ClientThread_bidding_phase
      [encClientThread p (encClientWorld i1.s (i1.calls.map encCall) (i.cards.map encCard) (out ++ ops1)) team opp
        (dealtFields extra kb dealer vul (encCards hand) hbv)] = _ :=
    fun g hg j => hbid (g+j+1) (by rw [ec1]; omega)
  obtain ⟨st3, calls3, cards3⟩ := i3
  cases st3 with
  | nil => simp [ClientIn.recv] at hr
  | cons mm st =>
    simp only [ClientIn.recv, Option.some.injEq, Prod.mk.injEq] at hr
    obtain ⟨rfl, rfl⟩ := hr
    cases hpo : c.isPassedOut with
    | true =>
      unfold clientPlayR at hpl
      simp only [hpo, if_true, Option.pure_def, Option.some.injEq, Prod.mk.injEq] at hpl
      obtain ⟨rfl, rfl⟩ := hpl
      dsimp only at eb1 eb2 eb3 hbid hb'
      refine ⟨ops1 ++ clientBidOps p (320 + 1) (AState.init dealer vul) i1 ++ [.tuple [vstr "recv"]],
        dealtFields extra kb dealer vul (encCards hand) hbv, ?_, ⟨kb, dealer, vul, hand, hbv, rfl⟩, ?_, ?_,
        fun f hf => ?_⟩
      · rw [eraseDecisions_append, eraseDecisions_append, e1, eraseDecisions_clean p _ _ hrecv]
        simp only [List.append_nil]
        exact encClientActs_append p _ _ _ _ (encClientActs_append p _ _ _ _ ho1 e2) hrecv
      · simp only [List.length_cons] at eb2 ⊢; omega
      · rw [ec1] at eb3; exact eb3
      · obtain ⟨g, rfl⟩ : ∃ g, f = g + 31 := ⟨f - 31, by omega⟩
        obtain ⟨rest1, hfront⟩ := cr_front_passed g p m hm k i.s i1.s (mm :: st) (i.calls.map encCall)
          (i1.calls.map encCall) (calls3.map encCall) (i.cards.map encCard) out (out ++ ops1)
          (out ++ ops1 ++ clientBidOps p (320 + 1) (AState.init dealer vul) i1) team opp extra
          (dealtFields extra kb dealer vul (encCards hand) hbv) c rest (hd' g (by omega)) (hb' g (by omega)) hpo
        refine ⟨rest1, ?_⟩
        show execF (mkRec P (g+30)) P _ crBody = _
        rw [crBody_eq, cr_execF_append _ _ _ _ _ hfront, eb1, ec2]
        by_cases hend : mm = MSG_END
        · subst hend
          simp only [if_true, ← List.append_assoc]
          exact cr_back_end g p m k st _ _ _ team opp _ rest1
        · simp only [if_neg hend, ← List.append_assoc]
          exact cr_back_next g p m mm hend k st _ _ _ team opp _ rest1
    | false =>
      have hp3' := hp3 hpo
      obtain ⟨pops, ho3, ep1, ep2, hplay⟩ := cr_play_all_fuels p c hand i2 _ pl N hpo hpl hp3'
        (out ++ ops1 ++ clientBidOps p (320 + 1) (AState.init dealer vul) i1) team opp
        (dealtFields extra kb dealer vul (encCards hand) hbv) (lookup_dealtFields_hand_set ..)
      have e3 := eraseDecisions_of_plays p pl _ ho3
      dsimp only at ep1 ep2 hplay
      refine ⟨ops1 ++ clientBidOps p (320 + 1) (AState.init dealer vul) i1 ++ pops ++ [.tuple [vstr "recv"]],
        dealtFields extra kb dealer vul (encCards hand) hbv, ?_, ⟨kb, dealer, vul, hand, hbv, rfl⟩, ?_, ?_,
        fun f hf => ?_⟩
      · rw [eraseDecisions_append, eraseDecisions_append, eraseDecisions_append, e1, eraseDecisions_clean p _ _ hrecv]
        exact encClientActs_append p _ _ _ _
          (encClientActs_append p _ _ _ _ (encClientActs_append p _ _ _ _ ho1 e2) e3) hrecv
      · simp only [List.length_cons] at ep2 ⊢; omega
      · rw [ep1, ← ec1]; exact eb3
      · obtain ⟨g, rfl⟩ : ∃ g, f = g + 31 := ⟨f - 31, by omega⟩
        have hp' : ∀ j, callF (mkRec P (g+j)) m_ClientThread_playing_phase
            [encClientThread p (encClientWorld i2.s (i2.calls.map encCall) (i.cards.map encCard)
              (out ++ ops1 ++ clientBidOps p (320 + 1) (AState.init dealer vul) i1)) team opp
              (dealtFields extra kb dealer vul (encCards hand) hbv), encContract c]
            = .ok (.none, encClientThread p (encClientWorld (mm :: st) (i2.calls.map encCall) (cards3.map encCard)
                (out ++ ops1 ++ clientBidOps p (320 + 1) (AState.init dealer vul) i1 ++ pops)) team opp
                (dealtFields extra kb dealer vul (encCards hand) hbv)) := fun j => by
          have := hplay (g+j+1) (by omega)
          rw [eb1, ec2] at this
          exact this
        obtain ⟨rest1, hfront⟩ := cr_front_played g p m hm k i.s i1.s i2.s (mm :: st) (i.calls.map encCall)
          (i1.calls.map encCall) (i2.calls.map encCall) (i.cards.map encCard) (cards3.map encCard) out (out ++ ops1)
          (out ++ ops1 ++ clientBidOps p (320 + 1) (AState.init dealer vul) i1)
          (out ++ ops1 ++ clientBidOps p (320 + 1) (AState.init dealer vul) i1 ++ pops) team opp extra
          (dealtFields extra kb dealer vul (encCards hand) hbv) c rest (hd' g (by omega)) (hb' g (by omega)) hpo hp'
        refine ⟨rest1, ?_⟩
        show execF (mkRec P (g+30)) P _ crBody = _
        rw [crBody_eq, cr_execF_append _ _ _ _ _ hfront, ep1]
        by_cases hend : mm = MSG_END
        · subst hend
          simp only [if_true, ← List.append_assoc]
          exact cr_back_end g p m k st _ _ _ team opp _ rest1
        · simp only [if_neg hend, ← List.append_assoc]
          exact cr_back_next g p m mm hend k st _ _ _ team opp _ rest1

/-! ## (2) the board loop -/

theorem cr_loop_next (g : Nat) (env env' : Env) (body : List Stmt)
    (h : (mkRec P (g+1)).exec env body = .ok (env', .next)) :
    (mkRec P (g+2)).loop env (.const (.bool true)) body = (mkRec P (g+1)).loop env' (.const (.bool true)) body := by
  rw [loop_succ]
  simp only [loopF, eval_succ, evalF, pure_eq, bind_ok, truthy, h, if_true]

theorem cr_loop_brk (g : Nat) (env env' : Env) (body : List Stmt)
    (h : (mkRec P (g+1)).exec env body = .ok (env', .brk)) :
    (mkRec P (g+2)).loop env (.const (.bool true)) body = .ok (env', .next) := by
  rw [loop_succ]
  simp only [loopF, eval_succ, evalF, pure_eq, bind_ok, truthy, h, if_true]

/-- the loop at any larger fuel -/
theorem cr_loop_mono {f g : Nat} (h : f ≤ g) (env : Env) (c : Expr) (b : List Stmt) (env' : Env) (fl : Flow)
    (hx : (mkRec P f).loop env c b = .ok (env', fl)) : (mkRec P g).loop env c b = .ok (env', fl) :=
  (mkRec_mono P h).2.2.2 env c b _ hx (by simp)

/-- the object's attributes after one or more `_deal`s -/
inductive DealtStar : List (Id × Val) → List (Id × Val) → Prop
  | one {a b : List (Id × Val)} : Dealt a b → DealtStar a b
  | step {a b c : List (Id × Val)} : Dealt a b → DealtStar b c → DealtStar a c

/-- the five attributes `_deal` assigns, in its order -/
def DealtShape (e : List (Id × Val)) : Prop :=
  ∃ (k : Nat) (dealer : Seat) (vul : Vul) (hand : List Card) (hb : Val),
    e = [(n_board_num, .int k), (n_dealer, encSeat dealer), (n_vul, encVul vul), (n_hand_set, encCards hand),
      (n_hand_binary, hb)]

theorem Dealt.shape {a b : List (Id × Val)} (h : Dealt a b) (ha : a = [] ∨ DealtShape a) : DealtShape b := by
  obtain ⟨k, d, v, hand, hb, rfl⟩ := h
  rcases ha with rfl | ⟨k0, d0, v0, hand0, hb0, rfl⟩
  · exact ⟨k, d, v, hand, hb, rfl⟩
  · exact ⟨k, d, v, hand, hb, rfl⟩

theorem DealtStar.shape {a b : List (Id × Val)} (h : DealtStar a b) : (a = [] ∨ DealtShape a) → DealtShape b := by
  induction h with
  | one h1 => exact h1.shape
  | step h1 _ ih => exact fun ha => ih (Or.inr (h1.shape ha))

/-- from a fresh object (`ClientThread.__init__`: no further attribute), after the boards the object carries exactly
`board_num`, `dealer`, `vul`, `hand_set`, `hand_binary` (appended by the first `_deal`, overwritten in place by the later
ones: `dealtFields_nil`, `dealtFields_again`) -/
theorem DealtStar.shape_nil {b : List (Id × Val)} (h : DealtStar [] b) : DealtShape b := h.shape (Or.inl rfl)

/-- the parse hypotheses of the boards, walking the streams like `clientBoardsR` -/
def boardsParses (N : Nat) (p : Seat) : Nat → ClientIn → Prop
  | 0, _ => True
  | fuel + 1, i =>
    boardParses N p i ∧
    match clientBoardR p i with
    | none => True
    | some (_, m, i') => m ≠ MSG_END → boardsParses N p fuel i'

/-- how to establish `boardsParses`: a last board -/
theorem boardsParses_last (N : Nat) (p : Seat) (n : Nat) (i i' : ClientIn) (acts : ClientActs)
    (h : clientBoardR p i = some (acts, MSG_END, i')) (hp : boardParses N p i) : boardsParses N p (n+1) i := by
  refine ⟨hp, ?_⟩
  rw [h]
  exact fun hne => absurd rfl hne

/-- how to establish `boardsParses`: a board, then the others -/
theorem boardsParses_more (N : Nat) (p : Seat) (n : Nat) (i i' : ClientIn) (acts : ClientActs) (m : Text)
    (h : clientBoardR p i = some (acts, m, i')) (hp : boardParses N p i) (hr : boardsParses N p n i') :
    boardsParses N p (n+1) i := by
  refine ⟨hp, ?_⟩
  rw [h]
  exact fun _ => hr

/-- the boards after the first one that `clientBoardsR` goes through (`board_num` is incremented once for each) -/
def boardsMore (p : Seat) : Nat → ClientIn → Nat
  | 0, _ => 0
  | n + 1, i =>
    match clientBoardR p i with
    | some (_, m, i') => if m = MSG_END then 0 else boardsMore p n i' + 1
    | none => 0

/-- the environment of `run` inside the loop -/
def renv (self : Val) (m : Str) (k : Int) (rest : Env) : Env :=
  (K.self, self) :: (n_message, .str m) :: (n_board_num, .int k) :: rest

/-- THE LOOP INVARIANT of the board loop of `run`: entered with `message` a "Start of board" on the streams of `i`, the
loop ends (by `break` on "End of session") on the streams `clientBoardsR` leaves, having appended its actions — with the
decisions — to `out`; one interpreter level per board -/
theorem cr_boards_loop (p : Seat) (N : Nat) (team : Str) (opp : Val) :
    ∀ (n : Nat) (i i' : ClientIn) (acts : ClientActs) (m : Text) (out : List Val) (extra : List (Id × Val)) (k : Int)
      (rest : Env) (f : Nat),
      lowerS m = lowerS MSG_START → clientBoardsR p n i = some (acts, i') → boardsParses N p n i →
      i.s.length + i.calls.length + N + 156 ≤ f →
      ∃ ops extra' rest', encClientActs p acts = some (eraseDecisions ops) ∧ DealtStar extra extra' ∧
        (mkRec P f).loop
            (renv (encClientThread p (encClientWorld i.s (i.calls.map encCall) (i.cards.map encCard) out) team opp extra)
              m k rest) (.const (.bool true)) crBody
          = .ok (renv (encClientThread p (encClientWorld i'.s (i'.calls.map encCall) (i'.cards.map encCard) (out ++ ops))
              team opp extra') MSG_END (k + (boardsMore p n i : Nat)) rest', .next) := by
  intro n
  induction n with
  | zero => intro i i' acts m out extra k rest f _ h; simp [clientBoardsR] at h
  | succ n ih =>
    intro i i' acts m out extra k rest f hm h hp hf
    obtain ⟨g, rfl⟩ : ∃ g, f = g + 2 := ⟨f - 2, by omega⟩
    rw [clientBoardsR_succ] at h
    simp only [Option.bind_eq_bind] at h
    obtain ⟨⟨pre, m', i1⟩, hb, h⟩ := bind_some_inv h
    dsimp only at h
    obtain ⟨hp1, hp2⟩ := hp
    rw [hb] at hp2
    dsimp only at hp2
    obtain ⟨ops1, extra1, ho1, hd1, hl1, hl2, hbody⟩ := client_board_translated p N i i1 pre m m' hm hb hp1 out team opp
      extra k rest
    obtain ⟨rest1, hbody⟩ := hbody (g+1) (by omega)
    by_cases hend : m' = MSG_END
    · subst hend
      simp only [if_true, Option.pure_def, Option.some.injEq, Prod.mk.injEq] at h hbody
      obtain ⟨rfl, rfl⟩ := h
      have ek : k + ((boardsMore p (n+1) i : Nat) : Int) = k := by
        have : boardsMore p (n+1) i = 0 := by simp [boardsMore, hb]
        omega
      rw [ek]
      exact ⟨ops1, extra1, rest1, ho1, .one hd1, cr_loop_brk g _ _ _ hbody⟩
    · simp only [if_neg hend] at h hbody
      by_cases hst : lowerS m' = lowerS MSG_START
      · simp only [if_pos hst] at h
        obtain ⟨⟨acts2, i2⟩, hr, h⟩ := bind_some_inv h
        simp only [Option.pure_def, Option.some.injEq, Prod.mk.injEq] at h
        obtain ⟨rfl, rfl⟩ := h
        obtain ⟨ops2, extra2, rest2, ho2, hd2, hloop⟩ := ih i1 i2 acts2 m' (out ++ ops1) extra1 (k + 1) rest1 (g+1)
          hst hr (hp2 hend) (by omega)
        have ek : k + ((boardsMore p (n+1) i : Nat) : Int) = k + 1 + ((boardsMore p n i1 : Nat) : Int) := by
          have : boardsMore p (n+1) i = boardsMore p n i1 + 1 := by simp [boardsMore, hb, hend]
          omega
        rw [ek]
        refine ⟨ops1 ++ ops2, extra2, rest2, ?_, .step hd1 hd2, ?_⟩
        · rw [eraseDecisions_append]
          exact encClientActs_append p _ _ _ _ ho1 ho2
        · refine (cr_loop_next g _ _ _ hbody).trans ?_
          rw [← List.append_assoc]
          exact hloop
      · simp only [if_neg hst] at h
        cases h

/-- (2) THE BOARD LOOP of `run` (the statement `crLoop` = `while True: …` of the generated body, executed in an
environment whose `self` is the client on the streams of `i` and whose `message` is a "Start of board") IS
`clientBoardsR`: it ends normally (the `break` on "End of session"), leaves the streams `clientBoardsR` leaves, and has
appended the rendering of its actions, with a `bidAsk` / `playAsk` per decision, to `out`.  Fuel: one level per board. -/
theorem client_boards_translated (p : Seat) (N fuel : Nat) (i i' : ClientIn) (acts : ClientActs) (m : Text)
    (hm : lowerS m = lowerS MSG_START) (h : clientBoardsR p fuel i = some (acts, i')) (hp : boardsParses N p fuel i)
    (out : List Val) (team : Str) (opp : Val) (extra : List (Id × Val)) (k : Int) (rest : Env) :
    ∃ ops extra' rest', encClientActs p acts = some (eraseDecisions ops) ∧ DealtStar extra extra' ∧
      ∀ f, i.s.length + i.calls.length + N + 157 ≤ f →
        exec P f (renv (encClientThread p (encClientWorld i.s (i.calls.map encCall) (i.cards.map encCard) out) team opp
            extra) m k rest) [crLoop]
          = .ok (renv (encClientThread p (encClientWorld i'.s (i'.calls.map encCall) (i'.cards.map encCard) (out ++ ops))
              team opp extra') MSG_END (k + (boardsMore p fuel i : Nat)) rest', .next) := by
  obtain ⟨ops, extra', rest', ho, hd, hl⟩ := cr_boards_loop p N team opp fuel i i' acts m out extra k rest
    (i.s.length + i.calls.length + N + 156) hm h hp (Nat.le_refl _)
  refine ⟨ops, extra', rest', ho, hd, fun f hf => ?_⟩
  obtain ⟨j, rfl⟩ : ∃ j, f = j + 1 := ⟨f - 1, by omega⟩
  have hl' := cr_loop_mono (show i.s.length + i.calls.length + N + 156 ≤ j by omega) _ _ _ _ _ hl
  show execF (mkRec P j) P _ [crLoop] = _
  simp only [execF, crLoop_eq, execStmtF, hl', bind_ok, pure_eq]

/-! ## (3) `run` -/

theorem cr_mth_connect :
    P.method? classDepth n_ClientThread n__connect = some (n_ClientThread, m_ClientThread__connect) := rfl

/-- `run` when `_connect` returns, the next message is received and the loop ends -/
theorem cr_run_call (g : Nat) (p : Seat) (w0 : Val) (start : Str) (s : List Str) (bids plays out1 : List Val)
    (team : Str) (opp opp1 : Val) (extra : List (Id × Val)) (self2 : Val) (rest' : Env)
    (hc : ∀ j, callF (mkRec P (g+j)) m_ClientThread__connect [encClientThread p w0 team opp extra]
      = .ok (.none, encClientThread p (encClientWorld (start :: s) bids plays out1) team opp1 extra))
    (hl : ∀ j, (mkRec P (g+j)).loop
        (renv (encClientThread p (encClientWorld s bids plays (out1 ++ [.tuple [vstr "recv"]])) team opp1 extra) start 1 [])
        (.const (.bool true)) crBody = .ok ((K.self, self2) :: rest', .next)) :
    callF (mkRec P (g+20)) m_ClientThread_run [encClientThread p w0 team opp extra] = .ok (.none, self2) := by
  rw [callF_def]
  simp only [renv, ct_thread_def] at hc hl
  simp only [crBody, crLoop, m_ClientThread_run, List.getD_cons_zero, List.getD_cons_succ] at hl
  simp only [m_ClientThread_run, bindParams, Option.map, ct_thread_def]
  ctthsimp [cr_mth_connect, hc, hl]

theorem clientReactive_nil (p : Seat) (calls : List Call) (cards : List Card) :
    clientReactive p calls cards [] = none := rfl
theorem clientReactive_one (p : Seat) (calls : List Call) (cards : List Card) (t : Text) :
    clientReactive p calls cards [t] = none := by
  show (parseTeamNames? t).bind (fun _ => none) = none
  cases parseTeamNames? t <;> rfl
theorem clientReactive_cons2 (p : Seat) (calls : List Call) (cards : List Card) (teams start : Text) (s : List Text) :
    clientReactive p calls cards (teams :: start :: s) =
      (parseTeamNames? teams).bind fun _ =>
        if lowerS start = lowerS MSG_START then
          (clientBoardsR p ((teams :: start :: s).length + 1) ⟨s, calls, cards⟩).bind fun x =>
            some ([.recv (.s2c p), .send (.c2s p) (p.formal ++ " ready to start".toList), .recv (.s2c p)] ++ x.1)
        else none := rfl

/-- the operations of `_connect` BEFORE `clientReactive` starts: the socket's `connect`, the request, its answer,
"ready for teams" -/
def connectOps (p : Seat) (team : Str) : List Val :=
  [.tuple [vstr "connect", .none], .tuple [vstr "send", .str (connectText team p.formal)], .tuple [vstr "recv"],
   .tuple [vstr "send", .str (readyFor p "teams".toList)]]

/-- (3) THE WHOLE BUNDLED CLIENT.  The connection delivers `reply` (the answer to the request: `… seated`, either form),
then `s2c`; the reactive model on `s2c`, with the decisions `calls` / `cards`, performs `acts`; the own side's name in the
`Teams` message is the own team name (`hmine`; `_connect` raises otherwise, the reactive model does not look);
`connectParses` on the `Teams` message and `boardsParses` along the boards.  Then `run()` returns `None`; the world has
recorded `out ++ connectOps ++ ops` with `ops` the rendering of ALL of `acts` plus one `bidAsk` / `playAsk` per decision
(`eraseDecisions`), on the streams `clientBoardsR` leaves; `opponent_team_name` is the other side's name, and the object
has been dealt (`DealtStar []`). -/
theorem client_run_translated (p : Seat) (team : Text) (reply : Text) (s2c : List Text) (calls : List Call)
    (cards : List Card) (acts : ClientActs) (N : Nat) (out : List Val) (opp : Val)
    (hreply : reply = seatedPlain p team ∨ reply = seatedQuoted p team)
    (hmine : ∀ teams ∈ s2c.head?, ∀ ns ew, parseTeamNames? teams = some (ns, ew) →
      (if p.side = .NS then ns else ew) = team)
    (hm : clientReactive p calls cards s2c = some acts)
    (hp1 : connectParses N ⟨reply :: s2c, calls, cards⟩)
    (hp2 : boardsParses N p (s2c.length + 1) ⟨s2c.drop 2, calls, cards⟩) :
    ∃ ops bs i' oppName extra', encClientActs p acts = some (eraseDecisions ops) ∧
      clientBoardsR p (s2c.length + 1) ⟨s2c.drop 2, calls, cards⟩ = some (bs, i') ∧ DealtStar [] extra' ∧
      (∀ teams ∈ s2c.head?, ∀ ns ew, parseTeamNames? teams = some (ns, ew) →
        oppName = if p.side = .NS then ew else ns) ∧
      ∀ f, s2c.length + calls.length + N + 178 ≤ f →
        callFn P f m_ClientThread_run
            [encClientThread p (encClientWorld (reply :: s2c) (calls.map encCall) (cards.map encCard) out) team opp []]
          = .ok (.none, encClientThread p (encClientWorld i'.s (i'.calls.map encCall) (i'.cards.map encCard)
              (out ++ connectOps p team ++ ops)) team (.str oppName) extra') := by
  match s2c, hmine, hm, hp1, hp2 with
  | [], _, hm, _, _ => rw [clientReactive_nil] at hm; cases hm
  | [t], _, hm, _, _ => rw [clientReactive_one] at hm; cases hm
  | teams :: start :: s, hmine, hm, hp1, hp2 =>
    rw [clientReactive_cons2] at hm
    obtain ⟨⟨ns, ew⟩, ht, hm⟩ := bind_some_inv hm
    by_cases hst : lowerS start = lowerS MSG_START
    · rw [if_pos hst] at hm
      obtain ⟨⟨bs, i'⟩, hbs, hm⟩ := bind_some_inv hm
      simp only [Option.some.injEq] at hm
      subst hm
      have hmine' := hmine teams (by simp) ns ew ht
      have hcon : clientConnectR p team ⟨reply :: teams :: start :: s, calls, cards⟩
          = some ([.send (.c2s p) (connectText team p.formal), .recv (.s2c p),
             .send (.c2s p) (readyFor p "teams".toList), .recv (.s2c p),
             .send (.c2s p) (p.formal ++ " ready to start".toList)], if p.side = .NS then ew else ns,
             ⟨start :: s, calls, cards⟩) := by
        simp only [clientConnectR, ClientIn.recv, Option.bind_eq_bind, Option.bind_some, if_pos hreply, ht,
          if_pos hmine', Option.pure_def]
      obtain ⟨cops, hco, hcall⟩ := client_connect_translated p team _ _ _ _ N (calls.map encCall) (cards.map encCard) out
        opp [] hcon hp1
      have hcops : cops = [.tuple [vstr "send", .str (connectText team p.formal)], .tuple [vstr "recv"],
          .tuple [vstr "send", .str (readyFor p "teams".toList)], .tuple [vstr "recv"],
          .tuple [vstr "send", .str (p.formal ++ " ready to start".toList)]] := by
        simp [encClientActs, encClientAct] at hco
        exact hco.symm
      subst hcops
      have hp2' : boardsParses N p ((teams :: start :: s).length + 1) ⟨s, calls, cards⟩ := hp2
      obtain ⟨ops, extra', rest', ho, hd, hl⟩ := cr_boards_loop p N team (.str (if p.side = .NS then ew else ns))
        ((teams :: start :: s).length + 1) ⟨s, calls, cards⟩ i' bs start
        (out ++ .tuple [vstr "connect", .none] :: [.tuple [vstr "send", .str (connectText team p.formal)],
          .tuple [vstr "recv"], .tuple [vstr "send", .str (readyFor p "teams".toList)], .tuple [vstr "recv"],
          .tuple [vstr "send", .str (p.formal ++ " ready to start".toList)]] ++ [.tuple [vstr "recv"]])
        [] 1 [] (s.length + calls.length + N + 156) hst hbs hp2' (Nat.le_refl _)
      refine ⟨[.tuple [vstr "recv"], .tuple [vstr "send", .str (p.formal ++ " ready to start".toList)],
        .tuple [vstr "recv"]] ++ ops, bs, i', if p.side = .NS then ew else ns, extra', ?_, hbs, hd, ?_, fun f hf => ?_⟩
      · rw [eraseDecisions_append]
        refine encClientActs_append p _ _ _ _ ?_ ho
        have : encClientActs p [.recv (.s2c p), .send (.c2s p) (p.formal ++ " ready to start".toList), .recv (.s2c p)]
            = some [.tuple [vstr "recv"], .tuple [vstr "send", .str (p.formal ++ " ready to start".toList)],
                .tuple [vstr "recv"]] := by simp [encClientActs, encClientAct]
        rw [eraseDecisions_clean p _ _ this]
        exact this
      · intro t' ht' ns' ew' hpt
        simp only [List.head?_cons, Option.mem_def, Option.some.injEq] at ht'
        subst ht'
        rw [ht] at hpt
        simp only [Option.some.injEq, Prod.mk.injEq] at hpt
        obtain ⟨rfl, rfl⟩ := hpt
        rfl
      · obtain ⟨g, rfl⟩ : ∃ g, f = g + 21 := ⟨f - 21, by omega⟩
        simp only [List.length_cons] at hf
        have hc' : ∀ j, callF (mkRec P (g+j)) m_ClientThread__connect
            [encClientThread p (encClientWorld (reply :: teams :: start :: s) (calls.map encCall) (cards.map encCard) out)
              team opp []] = _ := fun j => hcall (g+j+1) (by omega)
        have hl' := fun j => cr_loop_mono (show s.length + calls.length + N + 156 ≤ g + j by omega) _ _ _ _ _ hl
        have hx := cr_run_call g p _ start s _ _ _ team opp _ [] _ _ hc' hl'
        rw [callFn, call_succ, hx]
        simp only [connectOps, List.append_assoc, List.cons_append, List.nil_append]
    · rw [if_neg hst] at hm
      cases hm

/-! ## non-vacuity: South's client through a passed-out board that ends the session -/

/-- board 1, North deals: North and East pass (relayed), South's bidding system passes, West passes (relayed); then
"End of session" -/
def exS : List Text :=
  ["Board number 1. Dealer North. Neither vulnerable.".toList, "South's cards : S A K. H -. D -. C -.".toList,
   "North passes".toList, "East passes".toList, "West passes".toList, "End of session".toList]
def exI : ClientIn := ⟨exS, [.pass], []⟩
def exHand : List Card := [⟨14, .S⟩, ⟨13, .S⟩]

theorem exDealParses : dealParses 30 .S exI (encCards exHand) (.tuple (List.replicate 50 (.int 0) ++ [.int 1, .int 1])) := by
  refine ⟨fun k d v hk => ?_, fun t ht => ⟨?_, fun _ => ?_⟩⟩
  · have e : parseBoard? "Board number 1. Dealer North. Neither vulnerable.".toList = some (1, .N, .none) := by
      decide +kernel
    rw [e] at hk
    obtain ⟨rfl, rfl, rfl⟩ : 1 = k ∧ Seat.N = d ∧ Vul.none = v := by simpa using hk
    exact Returns.of_fuel (by with_unfolding_all rfl)
  · have e : parseCards? "South's cards : S A K. H -. D -. C -.".toList Seat.S.formal
        = some "S A K. H -. D -. C -.".toList := by decide +kernel
    rw [e] at ht
    obtain rfl : "S A K. H -. D -. C -.".toList = t := by simpa using ht
    exact Returns.of_fuel (by with_unfolding_all rfl)
  · have e : parseCards? "South's cards : S A K. H -. D -. C -.".toList Seat.S.formal
        = some "S A K. H -. D -. C -.".toList := by decide +kernel
    rw [e] at ht
    obtain rfl : "S A K. H -. D -. C -.".toList = t := by simpa using ht
    exact Returns.of_fuel (by with_unfolding_all rfl)

theorem exBoardParses : boardParses 30 .S exI := by
  have hd : ∃ d, clientDealR .S exI = some (d, (1, .N, .none), exHand, ⟨exS.drop 2, [.pass], []⟩) :=
    ⟨_, by with_unfolding_all rfl⟩
  obtain ⟨d, hd⟩ := hd
  have hag : ∀ m ∈ exS.drop 2, ∀ a ∈ Seat.all, parseBidAgrees 30 m a = true := by decide +kernel
  have hres : ∃ b s i2, clientBiddingR .S (320 + 1) (AState.init .N .none) ⟨exS.drop 2, [.pass], []⟩ = some (b, s, i2) ∧
      s.contract = some ⟨none, false, false, .none, none⟩ :=
    ⟨_, _, _, by with_unfolding_all rfl, by with_unfolding_all rfl⟩
  obtain ⟨b, s, i2, hb, hc⟩ := hres
  refine boardParses_of 30 .S exI _ d 1 .N .none exHand hd ⟨_, exDealParses⟩
    (bidParses_of_agrees 30 .S _ _ _ fun m hm a => hag m hm a (ct_seat_mem a)) ?_
  intro b' s' i2' c' hb' hc' hpo
  rw [hb] at hb'
  simp only [Option.some.injEq, Prod.mk.injEq] at hb'
  obtain ⟨_, rfl, _⟩ := hb'
  rw [hc] at hc'
  simp only [Option.some.injEq] at hc'
  subst hc'
  cases hpo

theorem exBoard : ∃ acts, clientBoardR .S exI = some (acts, MSG_END, ⟨[], [], []⟩) ∧
    encClientActs .S acts = some
      [.tuple [vstr "send", vstr "South ready for deal"], .tuple [vstr "recv"],
       .tuple [vstr "send", vstr "South ready for cards"], .tuple [vstr "recv"],
       .tuple [vstr "send", vstr "South ready for North's bid"], .tuple [vstr "recv"],
       .tuple [vstr "send", vstr "South ready for East's bid"], .tuple [vstr "recv"],
       .tuple [vstr "send", vstr "South passes"],
       .tuple [vstr "send", vstr "South ready for West's bid"], .tuple [vstr "recv"], .tuple [vstr "recv"]] :=
  ⟨_, by with_unfolding_all rfl, by with_unfolding_all rfl⟩

/-- the twelve operations of the board, decisions erased -/
def exOps : List Val :=
  [.tuple [vstr "send", vstr "South ready for deal"], .tuple [vstr "recv"],
   .tuple [vstr "send", vstr "South ready for cards"], .tuple [vstr "recv"],
   .tuple [vstr "send", vstr "South ready for North's bid"], .tuple [vstr "recv"],
   .tuple [vstr "send", vstr "South ready for East's bid"], .tuple [vstr "recv"],
   .tuple [vstr "send", vstr "South passes"],
   .tuple [vstr "send", vstr "South ready for West's bid"], .tuple [vstr "recv"], .tuple [vstr "recv"]]

/-- non-vacuity of (1): the body of the loop on that board, entered with `message = "START of Board"`: `break`, both
streams consumed, the twelve operations (plus the decision) recorded, the object dealt -/
example (f : Nat) (hf : 6 + 1 + 30 + 155 ≤ f) (rest : Env) : ∃ ops extra' rest', eraseDecisions ops = exOps ∧
    Dealt [] extra' ∧
    exec P f (renv (encClientThread .S (encClientWorld exS [encCall .pass] [] []) "T".toList (.str "U".toList) [])
        "START of Board".toList 1 rest) crBody
      = .ok (renv (encClientThread .S (encClientWorld [] [] [] ([] ++ ops)) "T".toList (.str "U".toList) extra')
          MSG_END 1 rest', .brk) := by
  obtain ⟨acts, hb, henc⟩ := exBoard
  obtain ⟨ops, extra', ho, hd, _, _, hx⟩ := client_board_translated .S 30 exI _ acts "START of Board".toList MSG_END
    (by decide +kernel) hb exBoardParses [] "T".toList (.str "U".toList) [] 1 rest
  obtain ⟨rest', hx⟩ := hx f hf
  rw [ho] at henc
  simp only [↓reduceIte] at hx
  exact ⟨ops, extra', rest', Option.some.inj henc, hd, hx⟩

/-- non-vacuity of (2): the loop statement on the same streams -/
example (f : Nat) (hf : 6 + 1 + 30 + 157 ≤ f) (rest : Env) : ∃ ops extra' k' rest', eraseDecisions ops = exOps ∧
    exec P f (renv (encClientThread .S (encClientWorld exS [encCall .pass] [] []) "T".toList (.str "U".toList) [])
        "Start of board".toList 1 rest) [crLoop]
      = .ok (renv (encClientThread .S (encClientWorld [] [] [] ([] ++ ops)) "T".toList (.str "U".toList) extra')
          MSG_END k' rest', .next) := by
  obtain ⟨acts, hb, henc⟩ := exBoard
  have hbs : clientBoardsR .S 1 exI = some (acts, ⟨[], [], []⟩) := by
    rw [clientBoardsR_succ, hb]
    rfl
  obtain ⟨ops, extra', rest', ho, _, hx⟩ := client_boards_translated .S 30 1 exI _ acts "Start of board".toList
    rfl hbs (boardsParses_last 30 .S 0 exI _ acts hb exBoardParses) [] "T".toList (.str "U".toList) [] 1 rest
  rw [ho] at henc
  exact ⟨ops, extra', _, rest', Option.some.inj henc, hx f hf⟩

/-! ### the whole client -/

def exS2C : List Text := "Teams : N/S : \"T\" E/W : \"U\"".toList :: "Start of board".toList :: exS

theorem exTeams : parseTeamNames? "Teams : N/S : \"T\" E/W : \"U\"".toList = some ("T".toList, "U".toList) := by
  decide +kernel

/-- non-vacuity of (3): South's client of team "T" — the request answered in the plain form, the `Teams` message,
"Start of board", the passed-out board, "End of session": `run()` returns `None`, the stream and the decision are
consumed, after the four connection operations the world has recorded `clientReactive`'s fifteen actions (plus the
decision), and the opponents are "U" -/
example (f : Nat) (hf : exS2C.length + 1 + 30 + 178 ≤ f) : ∃ ops extra',
    eraseDecisions ops = [.tuple [vstr "recv"], .tuple [vstr "send", vstr "South ready to start"], .tuple [vstr "recv"]]
      ++ exOps ∧ DealtStar [] extra' ∧
    callFn P f m_ClientThread_run
        [encClientThread .S (encClientWorld ("South T seated".toList :: exS2C) [encCall .pass] [] []) "T".toList .none []]
      = .ok (.none, encClientThread .S (encClientWorld [] [] [] ([] ++ connectOps .S "T".toList ++ ops)) "T".toList
          (.str "U".toList) extra') := by
  obtain ⟨bacts, hb, _⟩ := exBoard
  have hm : ∃ acts, clientReactive .S [.pass] [] exS2C = some acts ∧ encClientActs .S acts = some
      ([.tuple [vstr "recv"], .tuple [vstr "send", vstr "South ready to start"], .tuple [vstr "recv"]] ++ exOps) :=
    ⟨_, by with_unfolding_all rfl, by with_unfolding_all rfl⟩
  obtain ⟨acts, hm, henc⟩ := hm
  have hp1 : connectParses 30 ⟨"South T seated".toList :: exS2C, [.pass], []⟩ := by
    intro ns ew hh
    rw [exTeams] at hh
    obtain ⟨rfl, rfl⟩ : "T".toList = ns ∧ "U".toList = ew := by simpa using hh
    exact Returns.of_fuel (by with_unfolding_all rfl)
  have hmine : ∀ teams ∈ exS2C.head?, ∀ ns ew, parseTeamNames? teams = some (ns, ew) →
      (if Seat.S.side = .NS then ns else ew) = "T".toList := by
    intro teams ht ns ew hh
    simp only [exS2C, List.head?_cons, Option.mem_def, Option.some.injEq] at ht
    subst ht
    rw [exTeams] at hh
    obtain ⟨rfl, rfl⟩ : "T".toList = ns ∧ "U".toList = ew := by simpa using hh
    rfl
  obtain ⟨ops, bs, i', oppName, extra', ho, hbs, hd, hopp, hx⟩ := client_run_translated .S "T".toList
    "South T seated".toList exS2C [.pass] [] acts 30 [] .none (Or.inl (by decide +kernel)) hmine hm hp1
    (boardsParses_last 30 .S _ exI _ bacts hb exBoardParses)
  have hfin : ∃ bs', clientBoardsR .S (exS2C.length + 1) ⟨exS2C.drop 2, [.pass], []⟩ = some (bs', ⟨[], [], []⟩) :=
    ⟨_, by with_unfolding_all rfl⟩
  obtain ⟨bs', hfin⟩ := hfin
  rw [hfin] at hbs
  simp only [Option.some.injEq, Prod.mk.injEq] at hbs
  obtain ⟨_, rfl⟩ := hbs
  have ho' : oppName = "U".toList := hopp _ rfl _ _ exTeams
  subst ho'
  rw [ho] at henc
  exact ⟨ops, extra', Option.some.inj henc, hd, hx f hf⟩

end Bridge.Translated.ClientC
