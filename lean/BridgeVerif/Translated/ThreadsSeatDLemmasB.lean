import BridgeVerif.Translated.ThreadsSeatDLemmasA
/-! (1) per shape: every `ready …` text the session model's client of seat `p` sends passes the translated
`_check_message` against the text the seat thread expects -/
set_option maxRecDepth 4000
namespace Bridge.Translated.SeatD
open Bridge Bridge.Py Bridge.Generated.PyCore
open Bridge.Translated.SeatB (passesB passesB_sound readyCardText readyDummyText)

/-! ## (1) per shape -/

theorem all_seats {f : Seat → Bool} (h : Seat.all.all f = true) (p : Seat) : f p = true :=
  List.all_eq_true.mp h p (by cases p <;> decide)

theorem fixedB (p : Seat) :
    (((passesB (p.formal ++ " ready for teams".toList) (p.formal ++ " ready for teams".toList) = true ∧
    passesB (p.formal ++ " ready to start".toList) (p.formal ++ " ready to start".toList) = true) ∧
    passesB (p.formal ++ " ready for deal".toList) (readyFor p "deal".toList) = true) ∧
    passesB (p.formal ++ " ready for cards".toList) (readyFor p "cards".toList) = true) ∧
    passesB (p.formal ++ " ready for dummy".toList) (readyFor p "dummy".toList) = true := by
  simpa only [Bool.and_eq_true] using all_seats ready_fixed_B p

/-- admission: `<p> ready for teams` -/
theorem ready_teams_passes (p : Seat) :
    SeatB.passesCheck (p.formal ++ " ready for teams".toList) (p.formal ++ " ready for teams".toList) :=
  passesB_sound (fixedB p).1.1.1.1
/-- seating: `<p> ready to start` (the first message of the session model's client) -/
theorem ready_start_passes (p : Seat) :
    SeatB.passesCheck (p.formal ++ " ready to start".toList) (p.formal ++ " ready to start".toList) :=
  passesB_sound (fixedB p).1.1.1.2
/-- `_deal`: `readyFor p "deal"` against the expected `<p> ready for deal` -/
theorem ready_deal_passes (p : Seat) :
    Bridge.Translated.passesCheck (p.formal ++ " ready for deal".toList) (readyFor p "deal".toList) :=
  passesB_sound (fixedB p).1.1.2
/-- `_deal`: `readyFor p "cards"` -/
theorem ready_cards_passes (p : Seat) :
    Bridge.Translated.passesCheck (p.formal ++ " ready for cards".toList) (readyFor p "cards".toList) :=
  passesB_sound (fixedB p).1.2
/-- `_playing_phase`: `readyFor p "dummy"` against `readyDummyText p` -/
theorem ready_dummy_passes (p : Seat) : SeatB.passesCheck (readyDummyText p) (readyFor p "dummy".toList) :=
  passesB_sound (fixedB p).2

/-- `_bidding_phase`: `readyFor p (a.formal ++ "'s bid")` against `<p> ready for <a>'s bid` -/
theorem ready_bid_passes (p a : Seat) :
    Bridge.Translated.passesCheck (p.formal ++ " ready for ".toList ++ a.formal ++ "'s bid".toList)
      (readyFor p (a.formal ++ "'s bid".toList)) :=
  passesB_sound (all_seats (all_seats ready_bid_B p) a)

theorem ready_who_passes (p : Seat) (who : Str) (hw : who ∈ whoTexts) (k : Nat) (hk : k ∈ trickNums) :
    SeatB.passesCheck (p.formal ++ " ready for ".toList ++ who ++ "'s card to trick ".toList ++ natStr k)
      (readyFor p (who ++ "'s card to trick ".toList ++ natStr k)) :=
  passesB_sound (List.all_eq_true.mp (List.all_eq_true.mp (all_seats ready_card_B p) who hw) k hk)

theorem formal_mem_who (a : Seat) : a.formal ∈ whoTexts := by cases a <;> decide
theorem dummy_mem_who : "dummy".toList ∈ whoTexts := by decide
theorem mem_trickNums {k : Nat} (h1 : 1 ≤ k) (h2 : k ≤ 13) : k ∈ trickNums := by
  have : k = 1 ∨ k = 2 ∨ k = 3 ∨ k = 4 ∨ k = 5 ∨ k = 6 ∨ k = 7 ∨ k = 8 ∨ k = 9 ∨ k = 10 ∨ k = 11 ∨ k = 12 ∨ k = 13 := by
    omega
  rcases this with h | h | h | h | h | h | h | h | h | h | h | h | h <;> subst h <;> decide

/-- `_playing_phase`: the `ready` text the session model's client sends while the card of seat `a` (declarer `d`) to
trick `k` is awaited, against `readyCardText p d a k` (what the translated thread expects) -/
theorem ready_card_passes (p d a : Seat) (k : Nat) (h1 : 1 ≤ k) (h2 : k ≤ 13) :
    SeatB.passesCheck (readyCardText p d a k)
      (readyFor p ((if a = d.partner then "dummy".toList else a.formal) ++ "'s card to trick ".toList ++ natStr k)) := by
  rw [SeatB.sb_readyCardText]
  by_cases h : a = d.partner
  · rw [if_pos h, if_neg (fun hn => hn h)]
    exact ready_who_passes p _ dummy_mem_who k (mem_trickNums h1 h2)
  · rw [if_neg h, if_pos h]
    exact ready_who_passes p _ (formal_mem_who a) k (mem_trickNums h1 h2)

/-- the expected texts ARE the session model's texts -/
theorem readyFor_deal (p : Seat) : readyFor p "deal".toList = p.formal ++ " ready for deal".toList := by cases p <;> rfl
theorem readyFor_cards (p : Seat) : readyFor p "cards".toList = p.formal ++ " ready for cards".toList := by cases p <;> rfl
theorem readyFor_dummy (p : Seat) : readyFor p "dummy".toList = readyDummyText p := by cases p <;> rfl
theorem readyFor_bid (p a : Seat) : readyFor p (a.formal ++ "'s bid".toList)
    = p.formal ++ " ready for ".toList ++ a.formal ++ "'s bid".toList := by
  simp only [readyFor, List.append_assoc]
theorem readyFor_card (p d a : Seat) (k : Nat) :
    readyFor p ((if a = d.partner then "dummy".toList else a.formal) ++ "'s card to trick ".toList ++ natStr k)
      = readyCardText p d a k := by
  rw [SeatB.sb_readyCardText]
  by_cases h : a = d.partner
  · rw [if_pos h, if_neg (fun hn => hn h)]; simp only [readyFor, List.append_assoc]
  · rw [if_neg h, if_pos h]; simp only [readyFor, List.append_assoc]

/-- (1) EVERY `ready …` text of the session model's client of seat `p` passes the translated `_check_message` against
itself (= the text the seat thread expects, by the `readyFor_*` equations above): the two admission texts, `deal`,
`cards`, `dummy`, `<a>'s bid`, `<x>'s card to trick <k>` for `x` a seat's name or `dummy` and `k = 1..13` -/
theorem session_ready_messages_pass (p : Seat) :
    SeatB.passesCheck (p.formal ++ " ready for teams".toList) (p.formal ++ " ready for teams".toList) ∧
    SeatB.passesCheck (p.formal ++ " ready to start".toList) (p.formal ++ " ready to start".toList) ∧
    SeatB.passesCheck (readyFor p "deal".toList) (readyFor p "deal".toList) ∧
    SeatB.passesCheck (readyFor p "cards".toList) (readyFor p "cards".toList) ∧
    SeatB.passesCheck (readyFor p "dummy".toList) (readyFor p "dummy".toList) ∧
    (∀ a : Seat, SeatB.passesCheck (readyFor p (a.formal ++ "'s bid".toList)) (readyFor p (a.formal ++ "'s bid".toList))) ∧
    (∀ who ∈ whoTexts, ∀ k ∈ trickNums,
      SeatB.passesCheck (readyFor p (who ++ "'s card to trick ".toList ++ natStr k))
        (readyFor p (who ++ "'s card to trick ".toList ++ natStr k))) := by
  refine ⟨ready_teams_passes p, ready_start_passes p, ?_, ?_, ?_, fun a => ?_, fun who hw k hk => ?_⟩
  · have h := ready_deal_passes p; rw [← readyFor_deal] at h; exact h
  · have h := ready_cards_passes p; rw [← readyFor_cards] at h; exact h
  · have h := ready_dummy_passes p; rw [← readyFor_dummy] at h; exact h
  · have h := ready_bid_passes p a; rw [← readyFor_bid] at h; exact h
  · have h := ready_who_passes p who hw k hk
    rw [show p.formal ++ " ready for ".toList ++ who ++ "'s card to trick ".toList ++ natStr k
      = readyFor p (who ++ "'s card to trick ".toList ++ natStr k) from by simp only [readyFor, List.append_assoc]] at h
    exact h

end Bridge.Translated.SeatD
