import BridgeVerif.Translated.ThreadsSeatDLemmasD
/-! (2) one board and all the boards of the session model satisfy `boardChecks` / `boardsChecks` (following
`seatBoardsR_board` / `seatBoardsR_boards` of Lemmas/SeatThread.lean) -/
set_option maxRecDepth 4000
namespace Bridge.Translated.SeatD
open Bridge Bridge.Py Bridge.Generated.PyCore
open Bridge.Translated.SeatB (playingChecks)
open Bridge.Translated.SeatC (boardChecks boardsChecks seatBoardR)

/-- the deal phase of board `k` -/
abbrev dealPhase (k : Nat) (b : BoardSetting) : Phase Text LogOp :=
  Phase.deal (boardHeader k b.dealer b.vul) (fun p => cardsMsg p.formal (b.deal p))
    (fun p => readyFor p "deal".toList) (fun p => readyFor p "cards".toList)

/-- the second message of the end of the auction -/
abbrev secondMsg (b : BoardSetting) (d : Decisions) : Text :=
  if (boardContractOf b d).isPassedOut then MSG_PASSED_OUT else MSG_NULL

/-- one board, the status message `st` at the end of the queue part: the checks hold, and `seatBoardR` consumes exactly
the board and returns `st` -/
theorem board_core (p : Seat) (k : Nat) (b : BoardSetting) (d : Decisions) (hp : BoardPlayable b d) (st : Text)
    (q' c' : List Text) :
    boardChecks p
      { q := qOf p (dealPhase k b) ++ ((callPhases b.dealer 0 d.calls).flatMap (qOf p) ++
              MSG_NULL :: secondMsg b d :: ((playPhases b d).flatMap (qOf p) ++ st :: q')),
        c := cOf p (dealPhase k b) ++ ((callPhases b.dealer 0 d.calls).flatMap (cOf p) ++
              ((playPhases b d).flatMap (cOf p) ++ c')) } ∧
    ∃ pre, seatBoardR p
      { q := qOf p (dealPhase k b) ++ ((callPhases b.dealer 0 d.calls).flatMap (qOf p) ++
              MSG_NULL :: secondMsg b d :: ((playPhases b d).flatMap (qOf p) ++ st :: q')),
        c := cOf p (dealPhase k b) ++ ((callPhases b.dealer 0 d.calls).flatMap (cOf p) ++
              ((playPhases b d).flatMap (cOf p) ++ c')) } = some (pre, st, { q := q', c := c' }) := by
  obtain ⟨m1, m2, m3⟩ := msg_facts
  have hlt : ∀ (X : List Text), d.calls.length < ((callPhases b.dealer 0 d.calls).flatMap (qOf p) ++ X).length + 1 := by
    intro X
    have := callPhases_q_length p b.dealer d.calls 0
    rw [List.length_append]; omega
  constructor
  · refine ⟨deal_checks p _ _ _, fun dd i1 hd => ?_⟩
    rw [seatDealR_phase] at hd
    simp only [Option.some.injEq, Prod.mk.injEq] at hd
    obtain ⟨_, rfl⟩ := hd
    refine ⟨bid_checks p b.dealer _ _ d.calls 0 _, fun bb i2 i3 hb hq => ?_⟩
    dsimp only at hb
    rw [seatBiddingR_calls p b.dealer _ _ d.calls 0 _ (hlt _)] at hb
    simp only [Option.some.injEq, Prod.mk.injEq] at hb
    obtain ⟨_, rfl⟩ := hb
    simp only [getQ_cons, Option.some.injEq, Prod.mk.injEq] at hq
    obtain ⟨hsec, rfl⟩ := hq
    cases hpo : (boardContractOf b d).isPassedOut with
    | true =>
      simp only [secondMsg, hpo, if_true] at hsec
      exact absurd hsec m1
    | false => exact play_checks p b d hp hpo _ _
  · have hplay := seatPlay_board p b d hp (st :: q') c'
    rw [seatBoardR]
    simp only [Option.bind_eq_bind, seatDealR_phase, Option.bind_some]
    rw [seatBiddingR_calls p b.dealer _ _ d.calls 0 _ (hlt _)]
    simp only [Option.bind_some, getQ_cons, secondMsg]
    cases hpo : (boardContractOf b d).isPassedOut with
    | true =>
      simp only [hpo, if_true] at hplay ⊢
      simp only [Option.some.injEq, Prod.mk.injEq] at hplay
      obtain ⟨_, hi⟩ := hplay
      simp only [hi, Option.pure_def, Option.bind_some, getQ_cons]
      exact ⟨_, rfl⟩
    | false =>
      simp only [hpo, Bool.false_eq_true, if_false] at hplay ⊢
      simp only [if_neg m3, if_true, hplay, Option.bind_some, getQ_cons, Option.pure_def]
      exact ⟨_, rfl⟩

/-- one board of the session -/
theorem board_checks (sc : Scenario) (p : Seat) (k : Nat) (last : Bool) (b : BoardSetting) (d : Decisions)
    (hp : BoardPlayable b d) (q' c' : List Text) :
    boardChecks p { q := (boardPhases sc k last b d).flatMap (qOf p) ++ q',
                    c := (boardPhases sc k last b d).flatMap (cOf p) ++ c' } ∧
    ∃ pre, seatBoardR p { q := (boardPhases sc k last b d).flatMap (qOf p) ++ q',
                          c := (boardPhases sc k last b d).flatMap (cOf p) ++ c' }
      = some (pre, (if last then MSG_END else MSG_NEXT), { q := q', c := c' }) := by
  have hcore := board_core p k b d hp (if last then MSG_END else MSG_NEXT) q' c'
  rw [boardPhases_eq]
  simp only [List.flatMap_append, List.flatMap_cons, List.flatMap_nil, List.append_nil, List.append_assoc,
    qOf_auctionEnd, cOf_auctionEnd, List.cons_append, List.nil_append]
  cases last
  · simp only [Bool.false_eq_true, if_false, qOf_nextBoard, cOf_nextBoard, List.cons_append, List.nil_append] at hcore ⊢
    exact hcore
  · simp only [if_true, qOf_lastBoard, cOf_lastBoard, List.cons_append, List.nil_append] at hcore ⊢
    exact hcore

/-- all the boards of a session -/
theorem boards_checks (sc : Scenario) (p : Seat) (q' c' : List Text) :
    ∀ (boards : List (BoardSetting × Decisions)) (k n : Nat), boards ≠ [] →
      (∀ bd ∈ boards, BoardPlayable bd.1 bd.2) →
      boardsChecks p n { q := (boardsPhases sc k boards).flatMap (qOf p) ++ q',
                         c := (boardsPhases sc k boards).flatMap (cOf p) ++ c' } := by
  intro boards
  induction boards with
  | nil => intro k n h; exact absurd rfl h
  | cons x r ih =>
    intro k n _ hp
    obtain ⟨b, d⟩ := x
    have hbd : BoardPlayable b d := hp (b, d) List.mem_cons_self
    cases n with
    | zero => trivial
    | succ n =>
      cases r with
      | nil =>
        simp only [boardsPhases]
        obtain ⟨hc, pre, hr⟩ := board_checks sc p k true b d hbd q' c'
        refine ⟨hc, fun pre' i1 h1 => ?_⟩
        rw [hr] at h1
        simp only [if_true, Option.some.injEq, Prod.mk.injEq] at h1
        exact absurd h1.2.1.symm msg_facts.2.1
      | cons y r' =>
        have ih := ih (k + 1) n (by simp) (fun bd h => hp bd (List.mem_cons_of_mem _ h))
        rw [boardsPhases]
        · simp only [List.flatMap_append, List.append_assoc]
          obtain ⟨hc, pre, hr⟩ := board_checks sc p k false b d hbd
            ((boardsPhases sc (k + 1) (y :: r')).flatMap (qOf p) ++ q')
            ((boardsPhases sc (k + 1) (y :: r')).flatMap (cOf p) ++ c')
          refine ⟨hc, fun pre' i1 h1 => ?_⟩
          rw [hr] at h1
          simp only [Option.some.injEq, Prod.mk.injEq] at h1
          obtain ⟨_, _, rfl⟩ := h1
          exact ih
        · simp

/-- the number of boards `boardsTables` counts on the session's streams is the number of boards of the scenario -/
theorem boards_num (sc : Scenario) (p : Seat) (q' c' : List Text) :
    ∀ (boards : List (BoardSetting × Decisions)) (k n : Nat), boards ≠ [] →
      (∀ bd ∈ boards, BoardPlayable bd.1 bd.2) → boards.length ≤ n →
      SeatC.boardsNum p n { q := (boardsPhases sc k boards).flatMap (qOf p) ++ q',
                            c := (boardsPhases sc k boards).flatMap (cOf p) ++ c' } = boards.length := by
  intro boards
  induction boards with
  | nil => intro k n h; exact absurd rfl h
  | cons x r ih =>
    intro k n _ hp hn
    obtain ⟨b, d⟩ := x
    have hbd : BoardPlayable b d := hp (b, d) List.mem_cons_self
    obtain ⟨n, rfl⟩ : ∃ m, n = m + 1 := ⟨n - 1, by simp at hn; omega⟩
    cases r with
    | nil =>
      simp only [boardsPhases]
      obtain ⟨_, pre, hr⟩ := board_checks sc p k true b d hbd q' c'
      simp only [SeatC.boardsNum, hr, if_true, if_neg msg_facts.2.1.symm, List.length_cons, List.length_nil]
    | cons y r' =>
      have ih := ih (k + 1) n (by simp) (fun bd h => hp bd (List.mem_cons_of_mem _ h)) (by simp at hn ⊢; omega)
      rw [boardsPhases]
      · simp only [List.flatMap_append, List.append_assoc]
        obtain ⟨_, pre, hr⟩ := board_checks sc p k false b d hbd
          ((boardsPhases sc (k + 1) (y :: r')).flatMap (qOf p) ++ q')
          ((boardsPhases sc (k + 1) (y :: r')).flatMap (cOf p) ++ c')
        simp only [SeatC.boardsNum, hr, Bool.false_eq_true, if_false, if_true, ih, List.length_cons]
      · simp

end Bridge.Translated.SeatD
