import BridgeVerif.Translated.ThreadsMainCLemmasH
/-! Translated `MainThread.run`: the accept loop is `Admission.acceptLoopR` -/
set_option maxRecDepth 4000
set_option linter.unusedSimpArgs false
namespace Bridge.Translated.MainC
open Bridge Bridge.Py Bridge.Generated.PyCore Bridge.Translated.MainA Bridge.Translated.MainB Bridge.Translated.SeatB
open Bridge.Admission

/-- what the world answers per served connection: the pair `accept()` returns, the thread object created for the
connection, whether that thread is still alive after its verdict -/
structure Conn where
  conn : Val
  addr : Val
  thread : Val
  alive : Bool

/-- one operation of `Admission.acceptRound` as the world operations of the translated loop (`start` is the creation of
the thread object on the connection and its `start()`) -/
def encMainOp (c : Conn) : MainOp → List Val
  | .accept => [.tuple [vstr "accept", .none]]
  | .start => [.tuple [vstr "new_thread", c.conn], .tuple [vstr "start", c.thread]]
  | .waitVerdict => [.tuple [vstr "event_wait"]]
  | .sleep => [.tuple [vstr "sleep", .int 1]]
  | .isAlive => [.tuple [vstr "is_alive", c.thread]]
  | .clearVerdict => [.tuple [vstr "event_clear", .none]]

theorem roundOps_eq (c : Conn) : roundOps c.conn c.thread = acceptRound.flatMap (encMainOp c) := rfl

/-- the seat table after every served connection (the snapshots the world hands out at `w_wait_event`) -/
def acceptSnapshots : Table → List (List Char × List Char) → List Table
  | _, [] => []
  | t, (req, ready) :: rest =>
    if t.full then []
    else
      match connectR t req ready with
      | none => []
      | some (_, t', _) => t' :: acceptSnapshots t' rest

/-- the loop `while not all(name is not None …)` follows `Admission.acceptLoopR`, by induction over the connection
attempts; a round costs one level of the interpreter's fuel -/
theorem mc_accept_loop : ∀ (reqs : List (List Char × List Char)) (t : Table) (opss : List (List Op)) (mops : List MainOp)
    (tf : Table) (conns : List Conn) (env : Env) (i : Seat → List Str) (out later accR ntR alR : List Val)
    (rest : List (Val × Val)) (bs : Val) (thr : List Val) (g : Nat),
    acceptLoopR t reqs = some (opss, mops, tf) → tf.full = true → conns.length = opss.length →
    lookup env K.self = some (encMainThread (encMainWorld i out (encTable t)
      ((acceptSnapshots t reqs).map encTable ++ later)
      (acceptMore (conns.map (fun c => .tuple [c.conn, c.addr]) ++ accR) (conns.map (·.thread) ++ ntR)
        (conns.map (fun c => .bool c.alive) ++ alR) rest)) bs) →
    lookup env n_threads = some (.tuple thr) → conns.length + 45 ≤ g →
    mops = (conns.map fun _ => acceptRound).flatten ∧
    ∃ env', loopF (mkRec P g) env mcAcceptCond mcAcceptBody = .ok (env', .next) ∧
      lookup env' K.self = some (encMainThread (encMainWorld i (out ++ conns.flatMap fun c => roundOps c.conn c.thread)
        (encTable tf) later (acceptMore accR ntR alR rest)) bs) ∧
      lookup env' n_threads = some (.tuple (thr ++ (conns.filter (·.alive)).map (·.thread))) ∧
      Frame acceptVars env env' := by
  intro reqs
  induction reqs with
  | nil =>
    intro t opss mops tf conns env i out later accR ntR alR rest bs thr g hm hfull hlen hself hthr hg
    simp only [acceptLoopR, Option.some.injEq, Prod.mk.injEq] at hm
    obtain ⟨rfl, rfl, rfl⟩ := hm
    obtain rfl : conns = [] := List.eq_nil_of_length_eq_zero hlen
    obtain ⟨f0, rfl⟩ : ∃ f0, g = f0 + 20 := ⟨g - 20, by omega⟩
    have hc := mc_accept_cond f0 env i out t _ _ bs hself
    rw [hfull] at hc
    refine ⟨rfl, env, mt_loop_exit _ _ _ _ hc, ?_, ?_, Frame.refl _ _⟩
    · rw [hself]; simp [acceptSnapshots]
    · rw [hthr]; simp
  | cons rq reqs ih =>
    intro t opss mops tf conns env i out later accR ntR alR rest bs thr g hm hfull hlen hself hthr hg
    obtain ⟨req, ready⟩ := rq
    by_cases hft : t.full = true
    · simp only [acceptLoopR, hft, if_true, Option.some.injEq, Prod.mk.injEq] at hm
      obtain ⟨rfl, rfl, rfl⟩ := hm
      obtain rfl : conns = [] := List.eq_nil_of_length_eq_zero hlen
      obtain ⟨f0, rfl⟩ : ∃ f0, g = f0 + 20 := ⟨g - 20, by omega⟩
      have hc := mc_accept_cond f0 env i out t _ _ bs hself
      rw [hft] at hc
      refine ⟨rfl, env, mt_loop_exit _ _ _ _ hc, ?_, ?_, Frame.refl _ _⟩
      · rw [hself]; simp [acceptSnapshots, hft]
      · rw [hthr]; simp
    · have hft' : t.full = false := by cases h : t.full <;> simp_all
      simp only [acceptLoopR, hft', Bool.false_eq_true, if_false] at hm
      cases hcn : connectR t req ready with
      | none => simp [hcn] at hm
      | some x =>
        obtain ⟨ops, t', sd⟩ := x
        simp only [hcn] at hm
        cases hrec : acceptLoopR t' reqs with
        | none => simp [hrec] at hm
        | some y =>
          obtain ⟨opss', mops', tf'⟩ := y
          simp only [hrec, Option.some.injEq, Prod.mk.injEq] at hm
          obtain ⟨rfl, rfl, rfl⟩ := hm
          cases conns with
          | nil => simp at hlen
          | cons c conns' =>
            simp only [List.length_cons, Nat.add_right_cancel_iff] at hlen
            obtain ⟨f0, rfl⟩ : ∃ f0, g = f0 + 41 := ⟨g - 41, by simp only [List.length_cons] at hg; omega⟩
            have hsnap : acceptSnapshots t ((req, ready) :: reqs) = t' :: acceptSnapshots t' reqs := by
              simp only [acceptSnapshots, hft', Bool.false_eq_true, if_false, hcn]
            rw [hsnap] at hself
            simp only [List.map_cons, List.cons_append] at hself
            have hc := mc_accept_cond (f0 + 21) env i out t _ _ bs hself
            rw [hft'] at hc
            obtain ⟨e1, h1, hs1, ht1, hf1⟩ := mc_accept_round f0 env i out (encTable t) _ c.conn c.addr c.thread c.alive _ _ _ rest
              bs thr hself hthr
            obtain ⟨hmops, e2, h2, hs2, ht2, hf2⟩ := ih t' opss' mops' tf' conns' e1 i _ later accR ntR alR rest bs _ (f0 + 40)
              hrec hfull hlen hs1 ht1 (by simp only [List.length_cons] at hg; omega)
            refine ⟨?_, e2, ?_, ?_, ?_, hf1.trans hf2⟩
            · rw [hmops]; simp
            · have h1' : (mkRec P (f0 + 40 + 1)).exec env mcAcceptBody = .ok (e1, .next) := h1
              have hc' : (mkRec P (f0 + 40 + 1)).eval env mcAcceptCond = .ok (.bool true) := hc
              rw [show f0 + 41 = f0 + 40 + 1 from rfl, mt_loop_step (f0 + 40) _ _ _ _ hc' h1', h2]
            · rw [hs2]; simp [List.flatMap_cons, List.append_assoc]
            · rw [ht2]
              cases hal : c.alive <;> simp [List.filter_cons, hal, List.append_assoc]

end Bridge.Translated.MainC
