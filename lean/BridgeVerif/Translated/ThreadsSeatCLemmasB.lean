import BridgeVerif.Translated.ThreadsSeatCLemmas
/-! the reactive models never lengthen the queue stream; one board of `seatBoardsR` (`seatBoardR`) -/
set_option maxRecDepth 4000
namespace Bridge.Translated.SeatC
open Bridge Bridge.Py Bridge.Generated.PyCore
open Bridge.Translated.SeatB (cardMainR cardOpenR seatTrickR_four seatTrickR_lt)

theorem getQ_len {i i' : SeatIn} {m : Text} (h : i.getQ = some (m, i')) : i'.q.length + 1 = i.q.length ∧ i'.c = i.c := by
  obtain ⟨q, c⟩ := i
  cases q with
  | nil => simp [SeatIn.getQ] at h
  | cons x r =>
    simp only [SeatIn.getQ, Option.some.injEq, Prod.mk.injEq] at h
    obtain ⟨_, rfl⟩ := h
    exact ⟨rfl, rfl⟩

theorem getC_len {i i' : SeatIn} {m : Text} (h : i.getC = some (m, i')) : i'.q = i.q := by
  obtain ⟨q, c⟩ := i
  cases c with
  | nil => simp [SeatIn.getC] at h
  | cons x r =>
    simp only [SeatIn.getC, Option.some.injEq, Prod.mk.injEq] at h
    obtain ⟨_, rfl⟩ := h
    rfl

theorem bind_some_inv {α β} {x : Option α} {k : α → Option β} {b : β} (h : x.bind k = some b) :
    ∃ a, x = some a ∧ k a = some b := by
  cases x with
  | none => cases h
  | some a => exact ⟨a, rfl, h⟩

theorem seatBiddingR_len (p : Seat) : ∀ (n : Nat) (i i' : SeatIn) (acts : SeatActs),
    seatBiddingR p n i = some (acts, i') → i'.q.length ≤ i.q.length := by
  intro n
  induction n with
  | zero => intro i i' acts h; simp [seatBiddingR] at h
  | succ n ih =>
    intro i i' acts h
    simp only [seatBiddingR, Option.bind_eq_bind] at h
    obtain ⟨⟨m, i1⟩, h1, h⟩ := bind_some_inv h
    have l1 := (getQ_len h1).1
    try dsimp only at h
    split at h
    · simp only [Option.pure_def, Option.some.injEq, Prod.mk.injEq] at h
      obtain ⟨_, rfl⟩ := h
      omega
    · obtain ⟨a, _, h⟩ := bind_some_inv h
      split at h
      · obtain ⟨⟨bid, i2⟩, h2, h⟩ := bind_some_inv h
        have l2 := getC_len h2
        obtain ⟨⟨rest, i3⟩, h3, h⟩ := bind_some_inv h
        have l3 := ih _ _ _ h3
        simp only [Option.pure_def, Option.some.injEq, Prod.mk.injEq] at h
        obtain ⟨_, rfl⟩ := h
        try dsimp only at l1 l2 l3 ⊢
        rw [l2] at l3
        omega
      · obtain ⟨⟨x, i2⟩, h2, h⟩ := bind_some_inv h
        have l2 := getC_len h2
        obtain ⟨⟨relay, i3⟩, h3, h⟩ := bind_some_inv h
        have l3 := (getQ_len h3).1
        obtain ⟨⟨rest, i4⟩, h4, h⟩ := bind_some_inv h
        have l4 := ih _ _ _ h4
        simp only [Option.pure_def, Option.some.injEq, Prod.mk.injEq] at h
        obtain ⟨_, rfl⟩ := h
        try dsimp only at l1 l2 l3 l4 ⊢
        rw [l2] at l3
        omega

theorem cardMainR_len (p d : Seat) (idx : Nat) (a : Seat) (i i' : SeatIn) (x : SeatActs)
    (h : cardMainR p d idx a i = some (x, i')) : i'.q.length ≤ i.q.length := by
  unfold cardMainR at h
  split at h
  · obtain ⟨⟨m, i1⟩, h1, h⟩ := bind_some_inv h
    have l1 := getC_len h1
    simp only [Option.pure_def, Option.some.injEq, Prod.mk.injEq] at h
    obtain ⟨_, rfl⟩ := h
    rw [l1]; exact Nat.le_refl _
  · split at h
    · obtain ⟨⟨m, i1⟩, h1, h⟩ := bind_some_inv h
      have l1 := getC_len h1
      simp only [Option.pure_def, Option.some.injEq, Prod.mk.injEq] at h
      obtain ⟨_, rfl⟩ := h
      rw [l1]; exact Nat.le_refl _
    · obtain ⟨⟨m, i1⟩, h1, h⟩ := bind_some_inv h
      have l1 := getC_len h1
      obtain ⟨⟨r, i2⟩, h2, h⟩ := bind_some_inv h
      have l2 := (getQ_len h2).1
      simp only [Option.pure_def, Option.some.injEq, Prod.mk.injEq] at h
      obtain ⟨_, rfl⟩ := h
      try dsimp only at l1 l2 ⊢
      rw [l1] at l2
      omega

theorem cardOpenR_len (p d : Seat) (first : Bool) (idx : Nat) (i i' : SeatIn) (x : SeatActs)
    (h : cardOpenR p d first idx i = some (x, i')) : i'.q.length ≤ i.q.length := by
  unfold cardOpenR at h
  split at h
  · obtain ⟨⟨m, i1⟩, h1, h⟩ := bind_some_inv h
    have l1 := getC_len h1
    obtain ⟨⟨r, i2⟩, h2, h⟩ := bind_some_inv h
    have l2 := (getQ_len h2).1
    simp only [Option.pure_def, Option.some.injEq, Prod.mk.injEq] at h
    obtain ⟨_, rfl⟩ := h
    try dsimp only at l1 l2 ⊢
    rw [l1] at l2
    omega
  · simp only [Option.pure_def, Option.some.injEq, Prod.mk.injEq] at h
    obtain ⟨_, rfl⟩ := h
    exact Nat.le_refl _

theorem seatTrickR_len (p d : Seat) (first : Bool) : ∀ (k idx : Nat), idx + k = 4 → ∀ (a : Seat) (i i' : SeatIn)
    (t : SeatActs), seatTrickR p d first idx a i = some (t, i') → i'.q.length ≤ i.q.length := by
  intro k
  induction k with
  | zero =>
    intro idx hk a i i' t h
    have : idx = 4 := by omega
    subst this
    rw [seatTrickR_four] at h
    simp only [Option.some.injEq, Prod.mk.injEq] at h
    obtain ⟨_, rfl⟩ := h
    exact Nat.le_refl _
  | succ k ih =>
    intro idx hk a i i' t h
    rw [seatTrickR_lt p d first idx (by omega)] at h
    obtain ⟨⟨x, i1⟩, h1, h⟩ := bind_some_inv h
    obtain ⟨⟨y, i2⟩, h2, h⟩ := bind_some_inv h
    obtain ⟨⟨r, i3⟩, h3, h⟩ := bind_some_inv h
    simp only [Option.pure_def, Option.some.injEq, Prod.mk.injEq] at h
    obtain ⟨_, rfl⟩ := h
    have l1 := cardMainR_len _ _ _ _ _ _ _ h1
    have l2 := cardOpenR_len _ _ _ _ _ _ _ h2
    have l3 := ih (idx + 1) (by omega) _ _ _ _ h3
    try dsimp only at l1 l2 l3 ⊢
    omega

theorem tricks_len (p d : Seat) : ∀ (n k : Nat) (i i' : SeatIn) (acts : SeatActs),
    seatPlayingR.tricks p d n k i = some (acts, i') → i'.q.length ≤ i.q.length := by
  intro n
  induction n with
  | zero =>
    intro k i i' acts h
    simp only [seatPlayingR.tricks, Option.some.injEq, Prod.mk.injEq] at h
    obtain ⟨_, rfl⟩ := h
    exact Nat.le_refl _
  | succ n ih =>
    intro k i i' acts h
    simp only [seatPlayingR.tricks, Option.bind_eq_bind] at h
    obtain ⟨⟨ln, i1⟩, h1, h⟩ := bind_some_inv h
    obtain ⟨leader, _, h⟩ := bind_some_inv h
    obtain ⟨⟨t, i2⟩, h2, h⟩ := bind_some_inv h
    obtain ⟨⟨r, i3⟩, h3, h⟩ := bind_some_inv h
    simp only [Option.pure_def, Option.some.injEq, Prod.mk.injEq] at h
    obtain ⟨_, rfl⟩ := h
    have l1 := (getQ_len h1).1
    have l2 := seatTrickR_len p d _ 4 0 rfl _ _ _ _ h2
    have l3 := ih _ _ _ _ h3
    try dsimp only at l1 l2 l3 ⊢
    omega

theorem seatPlayingR_len (p : Seat) (i i' : SeatIn) (acts : SeatActs) (h : seatPlayingR p i = some (acts, i')) :
    i'.q.length ≤ i.q.length := by
  simp only [seatPlayingR, Option.bind_eq_bind] at h
  obtain ⟨⟨dn, i1⟩, h1, h⟩ := bind_some_inv h
  obtain ⟨decl, _, h⟩ := bind_some_inv h
  obtain ⟨⟨ts, i2⟩, h2, h⟩ := bind_some_inv h
  simp only [Option.pure_def, Option.some.injEq, Prod.mk.injEq] at h
  obtain ⟨_, rfl⟩ := h
  have l1 := (getQ_len h1).1
  have l2 := tricks_len _ _ _ _ _ _ _ h2
  try dsimp only at l1 l2 ⊢
  omega

/-! ## one board -/

/-- ONE board of `seatBoardsR`: deal, auction, the second message, play unless passed out, and the status message taken
from the queue (returned, not yet interpreted) -/
def seatBoardR (p : Seat) (i : SeatIn) : Option (SeatActs × Text × SeatIn) := do
  let (d, i) ← seatDealR p i
  let (b, i) ← seatBiddingR p (i.q.length + 1) i
  let (second, i) ← i.getQ
  let (pl, i) ←
    if second = MSG_PASSED_OUT then pure ([], i)
    else if second = MSG_NULL then seatPlayingR p i
    else none
  let (status, i) ← i.getQ
  pure (d ++ b ++ [.recv (.m2t p)] ++ pl, status, i)

/-- `seatBoardsR` is `seatBoardR` repeated while the status message is `next board` -/
theorem seatBoardsR_succ (p : Seat) (n : Nat) (i : SeatIn) :
    seatBoardsR p (n + 1) i = (seatBoardR p i).bind fun x =>
      if x.2.1 = MSG_NEXT then
        (seatBoardsR p n x.2.2).bind fun y => some (x.1 ++ [.recv (.m2t p), .send (.s2c p) MSG_START] ++ y.1, y.2)
      else if x.2.1 = MSG_END then some (x.1 ++ [.recv (.m2t p), .send (.s2c p) MSG_END], x.2.2)
      else none := by
  simp only [seatBoardsR, seatBoardR, Option.bind_eq_bind, Option.pure_def]
  cases seatDealR p i with
  | none => rfl
  | some di =>
    obtain ⟨d, i1⟩ := di
    simp only [Option.bind_some]
    cases seatBiddingR p (i1.q.length + 1) i1 with
    | none => rfl
    | some bi =>
      obtain ⟨b, i2⟩ := bi
      simp only [Option.bind_some]
      cases i2.getQ with
      | none => rfl
      | some si =>
        obtain ⟨second, i3⟩ := si
        simp only [Option.bind_some]
        by_cases h1 : second = MSG_PASSED_OUT
        · simp only [if_pos h1]
          cases i3.getQ with
          | none => rfl
          | some ti => rfl
        · by_cases h2 : second = MSG_NULL
          · simp only [if_neg h1, if_pos h2]
            cases seatPlayingR p i3 with
            | none => rfl
            | some pi =>
              obtain ⟨pl, i4⟩ := pi
              simp only [Option.bind_some]
              cases i4.getQ with
              | none => rfl
              | some ti => rfl
          · simp only [if_neg h1, if_neg h2]
            rfl

end Bridge.Translated.SeatC
