import BridgeVerif.Translated.JsonParserLemmasD
/-! Translated JSON parser (parser.py) = model: the model's `logOfJson?` cut into its continuations (`logK0`…`logK6`, the same `do` block:
`jp_logOfJson_eq` is `rfl`) and read back one member at a time -/
namespace Bridge.Translated
open Bridge Bridge.Py Bridge.Generated.PyCore

/-! ## `logOfJson?` read one member at a time (the same `do` block, cut into its continuations) -/
def logK6 (j : Json) (st : SettingEntry) (declarer : Option Seat) (contract : Contract) (tricks : Option Int)
    (players : Option (List (Seat × Str))) (bids : Option (List Call)) (play : Option (List Trick))
    (scoreType : Option Str) : Option LogRead := do
  let scores ← match j.get? (jkey "scores") with
    | none => pure none
    | some (.obj l) => (l.mapM fun (kv : Str × Json) => do
        let k ← sideOfName? kv.1
        match kv.2 with | Json.int n => pure (k, n) | _ => none).map some
    | some _ => none
  pure { boardId := st.boardId, hands := st.deal, dealer := st.dealer, vul := st.vul, declarer := declarer,
         contract := contract, tricks := tricks, players := players, bids := bids, play := play,
         dda := st.dda, scoreType := scoreType, scores := scores }
def logK5 (j : Json) (st : SettingEntry) (declarer : Option Seat) (contract : Contract) (tricks : Option Int)
    (players : Option (List (Seat × Str))) (bids : Option (List Call)) (play : Option (List Trick)) : Option LogRead := do
  let scoreType ← match j.get? (jkey "score_type") with
    | none => pure none
    | some (.str s) => pure (some s)
    | some _ => none
  logK6 j st declarer contract tricks players bids play scoreType
def logK4 (j : Json) (st : SettingEntry) (declarer : Option Seat) (contract : Contract) (tricks : Option Int)
    (players : Option (List (Seat × Str))) (bids : Option (List Call)) : Option LogRead := do
  let play ← match j.get? (jkey "play_history") with
    | none => pure none
    | some .null => pure none
    | some (.arr l) => (l.mapM trickOfJson?).map some
    | some _ => none
  logK5 j st declarer contract tricks players bids play
def logK3 (j : Json) (st : SettingEntry) (declarer : Option Seat) (contract : Contract) (tricks : Option Int)
    (players : Option (List (Seat × Str))) : Option LogRead := do
  let bids ← match j.get? (jkey "bid_history") with
    | none => pure none
    | some (.arr l) => (l.mapM fun (b : Json) => b.str?.bind strToCall?).map some
    | some _ => none
  logK4 j st declarer contract tricks players bids
def logK2 (j : Json) (st : SettingEntry) (declarer : Option Seat) (contract : Contract) (tricks : Option Int) :
    Option LogRead := do
  let players ← match j.get? (jkey "players") with
    | none => pure none
    | some (.obj l) => (l.mapM fun (pv : Str × Json) => do let p ← seatOfName? pv.1; let v ← pv.2.str?; pure (p, v)).map some
    | some _ => none
  logK3 j st declarer contract tricks players
def logK1 (j : Json) (st : SettingEntry) (declarer : Option Seat) : Option LogRead := do
  let ctext ← (j.get? (jkey "contract")).bind Json.str?
  let contract ← strToContract? ctext st.vul declarer
  let tricks ← match ← j.get? (jkey "taken_trick") with
    | .null => pure none
    | .int n => pure (some n)
    | _ => none
  logK2 j st declarer contract tricks
def logK0 (j : Json) (st : SettingEntry) : Option LogRead := do
  let declJ ← j.get? (jkey "declarer")
  let declarer ← match declJ with
    | .null => pure none
    | .str s => (seatOfName? s).map some
    | _ => none
  logK1 j st declarer

theorem jp_logOfJson_eq (j : Json) : logOfJson? j = (settingOfJson? j).bind fun st => logK0 j st := rfl

theorem jp_logK0_some (j : Json) (st : SettingEntry) (r : LogRead) (h : logK0 j st = some r) :
    ∃ declarer, ((j.get? ['d', 'e', 'c', 'l', 'a', 'r', 'e', 'r'] = some .null ∧ declarer = none) ∨
        (∃ s p, j.get? ['d', 'e', 'c', 'l', 'a', 'r', 'e', 'r'] = some (.str s) ∧ seatOfName? s = some p ∧ declarer = some p)) ∧
      logK1 j st declarer = some r := by
  unfold logK0 at h
  cases hd : j.get? (jkey "declarer") with
  | none => rw [hd] at h; cases h
  | some d =>
    rw [hd] at h
    cases d with
    | null => exact ⟨none, Or.inl ⟨hd, rfl⟩, h⟩
    | str s =>
      cases hp : seatOfName? s with
      | none => simp [hp] at h
      | some p =>
        simp only [Option.bind_eq_bind, Option.bind_some, hp, Option.map_some] at h
        exact ⟨some p, Or.inr ⟨s, p, hd, hp, rfl⟩, h⟩
    | bool _ => cases h
    | int _ => cases h
    | arr _ => cases h
    | obj _ => cases h

theorem jp_logK1_some (j : Json) (st : SettingEntry) (declarer : Option Seat) (r : LogRead) (h : logK1 j st declarer = some r) :
    ∃ ctext contract tricks, j.get? ['c', 'o', 'n', 't', 'r', 'a', 'c', 't'] = some (.str ctext) ∧
      strToContract? ctext st.vul declarer = some contract ∧
      ((j.get? ['t', 'a', 'k', 'e', 'n', '_', 't', 'r', 'i', 'c', 'k'] = some .null ∧ tricks = none) ∨
        (∃ n, j.get? ['t', 'a', 'k', 'e', 'n', '_', 't', 'r', 'i', 'c', 'k'] = some (.int n) ∧ tricks = some n)) ∧
      logK2 j st declarer contract tricks = some r := by
  unfold logK1 at h
  cases hc : (j.get? (jkey "contract")).bind Json.str? with
  | none => rw [hc] at h; cases h
  | some ctext =>
    have gc := jp_bind_str_some _ _ hc
    cases hk : strToContract? ctext st.vul declarer with
    | none => simp [hc, hk] at h
    | some contract =>
      cases ht : j.get? (jkey "taken_trick") with
      | none => simp [hc, ht] at h
      | some t =>
        simp only [hc, hk, ht, Option.bind_eq_bind, Option.bind_some] at h
        cases t with
        | null => exact ⟨ctext, contract, none, gc, hk, Or.inl ⟨ht, rfl⟩, h⟩
        | int n => exact ⟨ctext, contract, some n, gc, hk, Or.inr ⟨n, ht, rfl⟩, h⟩
        | bool _ => cases h
        | str _ => cases h
        | arr _ => cases h
        | obj _ => cases h

def playerEntry? (pv : Str × Json) : Option (Seat × Str) := do let p ← seatOfName? pv.1; let v ← pv.2.str?; pure (p, v)
def bidEntry? (b : Json) : Option Call := b.str?.bind strToCall?
def scoreEntry? (kv : Str × Json) : Option (Side × Int) := do
  let k ← sideOfName? kv.1
  match kv.2 with | Json.int n => pure (k, n) | _ => none

theorem jp_logK2_some (j : Json) (st : SettingEntry) (declarer : Option Seat) (contract : Contract) (tricks : Option Int)
    (r : LogRead) (h : logK2 j st declarer contract tricks = some r) :
    ∃ players, ((j.get? ['p', 'l', 'a', 'y', 'e', 'r', 's'] = none ∧ players = none) ∨
        (∃ m ps, j.get? ['p', 'l', 'a', 'y', 'e', 'r', 's'] = some (.obj m) ∧ m.mapM playerEntry? = some ps ∧ players = some ps)) ∧
      logK3 j st declarer contract tricks players = some r := by
  unfold logK2 at h
  cases hd : j.get? (jkey "players") with
  | none => rw [hd] at h; exact ⟨none, Or.inl ⟨hd, rfl⟩, h⟩
  | some d =>
    rw [hd] at h
    cases d with
    | obj m =>
      cases hp : m.mapM playerEntry? with
      | none =>
        have hp' : (m.mapM fun (pv : Str × Json) => do let p ← seatOfName? pv.1; let v ← pv.2.str?; pure (p, v)) = none := hp
        dsimp only at h; rw [hp'] at h; cases h
      | some ps =>
        have hp' : (m.mapM fun (pv : Str × Json) => do let p ← seatOfName? pv.1; let v ← pv.2.str?; pure (p, v)) = some ps := hp
        dsimp only at h; rw [hp'] at h
        simp only [Option.map_some, Option.bind_eq_bind, Option.bind_some] at h
        exact ⟨some ps, Or.inr ⟨m, ps, hd, hp, rfl⟩, h⟩
    | null => cases h
    | str _ => cases h
    | bool _ => cases h
    | int _ => cases h
    | arr _ => cases h

theorem jp_logK3_some (j : Json) (st : SettingEntry) (declarer : Option Seat) (contract : Contract) (tricks : Option Int)
    (players : Option (List (Seat × Str))) (r : LogRead) (h : logK3 j st declarer contract tricks players = some r) :
    ∃ bids, ((j.get? ['b', 'i', 'd', '_', 'h', 'i', 's', 't', 'o', 'r', 'y'] = none ∧ bids = none) ∨
        (∃ m bs, j.get? ['b', 'i', 'd', '_', 'h', 'i', 's', 't', 'o', 'r', 'y'] = some (.arr m) ∧ m.mapM bidEntry? = some bs ∧ bids = some bs)) ∧
      logK4 j st declarer contract tricks players bids = some r := by
  unfold logK3 at h
  cases hd : j.get? (jkey "bid_history") with
  | none => rw [hd] at h; exact ⟨none, Or.inl ⟨hd, rfl⟩, h⟩
  | some d =>
    rw [hd] at h
    cases d with
    | arr m =>
      cases hp : m.mapM bidEntry? with
      | none =>
        have hp' : (m.mapM fun (b : Json) => b.str?.bind strToCall?) = none := hp
        dsimp only at h; rw [hp'] at h; cases h
      | some bs =>
        have hp' : (m.mapM fun (b : Json) => b.str?.bind strToCall?) = some bs := hp
        dsimp only at h; rw [hp'] at h
        simp only [Option.map_some, Option.bind_eq_bind, Option.bind_some] at h
        exact ⟨some bs, Or.inr ⟨m, bs, hd, hp, rfl⟩, h⟩
    | null => cases h
    | str _ => cases h
    | bool _ => cases h
    | int _ => cases h
    | obj _ => cases h

theorem jp_logK4_some (j : Json) (st : SettingEntry) (declarer : Option Seat) (contract : Contract) (tricks : Option Int)
    (players : Option (List (Seat × Str))) (bids : Option (List Call)) (r : LogRead)
    (h : logK4 j st declarer contract tricks players bids = some r) :
    ∃ play, ((j.get? ['p', 'l', 'a', 'y', '_', 'h', 'i', 's', 't', 'o', 'r', 'y'] = none ∧ play = none) ∨ (j.get? ['p', 'l', 'a', 'y', '_', 'h', 'i', 's', 't', 'o', 'r', 'y'] = some .null ∧ play = none) ∨
        (∃ m ts, j.get? ['p', 'l', 'a', 'y', '_', 'h', 'i', 's', 't', 'o', 'r', 'y'] = some (.arr m) ∧ m.mapM trickOfJson? = some ts ∧ play = some ts)) ∧
      logK5 j st declarer contract tricks players bids play = some r := by
  unfold logK4 at h
  cases hd : j.get? (jkey "play_history") with
  | none => rw [hd] at h; exact ⟨none, Or.inl ⟨hd, rfl⟩, h⟩
  | some d =>
    rw [hd] at h
    cases d with
    | arr m =>
      cases hp : m.mapM trickOfJson? with
      | none => simp [hp] at h
      | some ts =>
        simp only [hp, Option.map_some, Option.bind_eq_bind, Option.bind_some] at h
        exact ⟨some ts, Or.inr (Or.inr ⟨m, ts, hd, hp, rfl⟩), h⟩
    | null => exact ⟨none, Or.inr (Or.inl ⟨hd, rfl⟩), h⟩
    | str _ => cases h
    | bool _ => cases h
    | int _ => cases h
    | obj _ => cases h

theorem jp_logK5_some (j : Json) (st : SettingEntry) (declarer : Option Seat) (contract : Contract) (tricks : Option Int)
    (players : Option (List (Seat × Str))) (bids : Option (List Call)) (play : Option (List Trick)) (r : LogRead)
    (h : logK5 j st declarer contract tricks players bids play = some r) :
    ∃ scoreType, ((j.get? ['s', 'c', 'o', 'r', 'e', '_', 't', 'y', 'p', 'e'] = none ∧ scoreType = none) ∨
        (∃ s, j.get? ['s', 'c', 'o', 'r', 'e', '_', 't', 'y', 'p', 'e'] = some (.str s) ∧ scoreType = some s)) ∧
      logK6 j st declarer contract tricks players bids play scoreType = some r := by
  unfold logK5 at h
  cases hd : j.get? (jkey "score_type") with
  | none => rw [hd] at h; exact ⟨none, Or.inl ⟨hd, rfl⟩, h⟩
  | some d =>
    rw [hd] at h
    cases d with
    | str s => exact ⟨some s, Or.inr ⟨s, hd, rfl⟩, h⟩
    | arr _ => cases h
    | null => cases h
    | bool _ => cases h
    | int _ => cases h
    | obj _ => cases h

theorem jp_logK6_some (j : Json) (st : SettingEntry) (declarer : Option Seat) (contract : Contract) (tricks : Option Int)
    (players : Option (List (Seat × Str))) (bids : Option (List Call)) (play : Option (List Trick))
    (scoreType : Option Str) (r : LogRead)
    (h : logK6 j st declarer contract tricks players bids play scoreType = some r) :
    ∃ scores, ((j.get? ['s', 'c', 'o', 'r', 'e', 's'] = none ∧ scores = none) ∨
        (∃ m sc, j.get? ['s', 'c', 'o', 'r', 'e', 's'] = some (.obj m) ∧ m.mapM scoreEntry? = some sc ∧ scores = some sc)) ∧
      r = { boardId := st.boardId, hands := st.deal, dealer := st.dealer, vul := st.vul, declarer := declarer,
            contract := contract, tricks := tricks, players := players, bids := bids, play := play,
            dda := st.dda, scoreType := scoreType, scores := scores } := by
  unfold logK6 at h
  cases hd : j.get? (jkey "scores") with
  | none => rw [hd] at h; cases h; exact ⟨none, Or.inl ⟨hd, rfl⟩, rfl⟩
  | some d =>
    rw [hd] at h
    cases d with
    | obj m =>
      cases hp : m.mapM scoreEntry? with
      | none =>
        have hp' : (m.mapM fun (kv : Str × Json) => do
          let k ← sideOfName? kv.1
          match kv.2 with | Json.int n => pure (k, n) | _ => none) = none := hp
        dsimp only at h; rw [hp'] at h; cases h
      | some sc =>
        have hp' : (m.mapM fun (kv : Str × Json) => do
          let k ← sideOfName? kv.1
          match kv.2 with | Json.int n => pure (k, n) | _ => none) = some sc := hp
        dsimp only at h; rw [hp'] at h
        simp only [Option.map_some, Option.bind_eq_bind, Option.bind_some] at h
        cases h
        exact ⟨some sc, Or.inr ⟨m, sc, hd, hp, rfl⟩, rfl⟩
    | null => cases h
    | str _ => cases h
    | bool _ => cases h
    | int _ => cases h
    | arr _ => cases h

end Bridge.Translated
