import BridgeVerif.Translated.JsonWriterLemmasE
/-!
# json_handler/writer.py AS TRANSLATED writes exactly the model's text  (C12, C17)

`Generated/PyCoreJson.lean` (re-written from `writer.py` on every run) executed by the MiniPy interpreter at the
top-level fuel, compared with the hand-written model `Model/JsonLog.lean`:

* `jw_convert_deal_translated` — `convert_deal(deal)` is the dict whose JSON image is `dealJson`;
* `jw_open_translated`, `jw_write_content_translated`, `jw_close_translated` — the framing, for the three writer
  classes (`IsWriterCls`; the `TAG` class attribute is the property `jwTag`);
* `jw_log_write_translated`, `jw_setting_write_translated` — one call of `write` on an open writer appends the separator
  (unless first) and `pyDumps (logJson e)` / `pyDumps (settingJson e)`; on a writer that is not open it raises `Exception`;
* `jw_log_document_translated`, `jw_settings_document_translated` — `W(file); open(); write(e) for e in es; close()`
  leaves a file object whose chunks concatenate to `logText es` / `settingsText es`.

The arguments are encoded by `logArgs` / `settingArgs` (JsonWriterLemmasA.lean); a file object is `encFile chunks`, a writer
instance `encWriter cls chunks isOpen first`.

Hypotheses (`LogWF`, `SettingWF` — each is what the code needs; names, board id, calls, contract, scores are arbitrary):
* every card of the deal (and of the play history) has rank 2..14: `str(card)` prints `str(rank)` for a rank outside
  10..14 where the model writes `'?'` outside 2..14, and with ranks 2..14 `int(card)` is injective, so the interpreter's
  insertion sort (`x` before the first STRICTLY larger) and the model's `sortAsc` (before the first larger-or-equal)
  agree also when a hand lists a card twice.  The suit is arbitrary (`NT` prints as `NT` on both sides).
* `DdaWF`: the keys of the double-dummy table, and of each of its rows, are pairwise distinct — i.e. the value is a
  Python `dict` at all (the comprehension `{str(p): … for p, r in dda.items()}` would merge equal keys; the model maps
  the association list).
* the `scores` dictionary may list the two pairs in either order (`jw_log_write_translated_any_scores`): the code reads
  `scores[Pair.NS]` and `scores[Pair.EW]`.
-/
namespace Bridge.Translated
open Bridge Bridge.Py Bridge.Generated.PyCore

/-- the receiver after a method call -/
def selfAfter (c m : Id) (args : List Val) : R Val := (P.runMethod c m args).map (·.2)

theorem jw_runMethod_eq (c m : Id) (args : List Val) (cm : Id) (fd : FuncDef)
    (hm : P.method? classDepth c m = some (cm, fd)) : P.runMethod c m args = callF (mkRec P 999) fd args := by
  simp only [Program.runMethod, hm]; rfl

/-! ## (a) `convert_deal` -/
/-- `convert_deal(deal)` returns `dealVal h`, the dict seat name ↦ `[str(card) for card in sorted(deal[p])]` … -/
theorem jw_convert_deal_translated_val (h : Hands) (hok : ∀ p, ∀ c ∈ h p, 2 ≤ c.rank ∧ c.rank ≤ 14) :
    P.runFn n_convert_deal [encHands h] = .ok (dealVal h) := by
  have run : P.runFn n_convert_deal [encHands h] = (callF (mkRec P 999) f_convert_deal [encHands h]).map (·.1) := rfl
  rw [run, jw_convert_deal_call 959 h hok]; rfl

/-- … whose image under `json.dumps` is the model's `dealJson h` -/
theorem jw_convert_deal_translated (h : Hands) (hok : ∀ p, ∀ c ∈ h p, 2 ≤ c.rank ∧ c.rank ≤ 14) :
    ∃ v, P.runFn n_convert_deal [encHands h] = .ok v ∧ valToJson v = some (dealJson h) :=
  ⟨dealVal h, jw_convert_deal_translated_val h hok, jw_dealVal_json h⟩

/-- for valid cards (`Card.ok`) -/
theorem jw_convert_deal_translated_ok (h : Hands) (hok : ∀ p, ∀ c ∈ h p, c.ok = true) :
    ∃ v, P.runFn n_convert_deal [encHands h] = .ok v ∧ valToJson v = some (dealJson h) :=
  jw_convert_deal_translated h fun p c hc => by
    have := hok p c hc
    simp only [Card.ok, Bool.and_eq_true, decide_eq_true_eq] at this
    exact this.1

/-! ## (b) the framing -/
theorem jw_tag_log : jwTag n_JsonLogWriter = jkey "logs" := rfl
theorem jw_tag_setting : jwTag n_JsonBoardSettingWriter = jkey "board_settings" := rfl
theorem jw_tag_base : jwTag n_JsonWriter = [] := rfl
theorem jw_cls_log : IsWriterCls n_JsonLogWriter := Or.inl rfl
theorem jw_cls_setting : IsWriterCls n_JsonBoardSettingWriter := Or.inr (Or.inl rfl)
theorem jw_cls_base : IsWriterCls n_JsonWriter := Or.inr (Or.inr rfl)

/-- `W(file)`: not open, no record yet -/
theorem jw_new_log_translated (chunks : List Str) :
    P.runNew n_JsonLogWriter [encFile chunks] = .ok (encWriter n_JsonLogWriter chunks false false) :=
  jw_construct_log 987 chunks
theorem jw_new_setting_translated (chunks : List Str) :
    P.runNew n_JsonBoardSettingWriter [encFile chunks] = .ok (encWriter n_JsonBoardSettingWriter chunks false false) :=
  jw_construct_setting 987 chunks

/-- `open()` appends `{"TAG": [\n`, whatever the state of the writer -/
theorem jw_open_translated (cls : Id) (hc : IsWriterCls cls) (chunks : List Str) (o fl : Bool) :
    P.runMethod cls n_open [encWriter cls chunks o fl]
      = .ok (.none, encWriter cls (chunks ++ [jsonOpen (jwTag cls)]) true true) := by
  rw [jw_runMethod_eq _ _ _ _ _ (jw_mth_open cls hc)]
  exact jw_open_call 979 cls hc chunks o fl

/-- `close()` appends `]}` when no record was written since `open()`, `\n]}` otherwise -/
theorem jw_close_translated (cls : Id) (hc : IsWriterCls cls) (chunks : List Str) (o fl : Bool) :
    P.runMethod cls n_close [encWriter cls chunks o fl]
      = .ok (.none, encWriter cls (chunks ++ [if fl then jkey "]}" else jkey "\n]}"]) false fl) := by
  rw [jw_runMethod_eq _ _ _ _ _ (jw_mth_close cls hc)]
  exact jw_close_call 979 cls chunks o fl

/-- `_write_content(d)` appends `,\n` unless this is the first record, then `json.dumps(d)` -/
theorem jw_write_content_translated (cls : Id) (hc : IsWriterCls cls) (chunks : List Str) (o fl : Bool) (d : Val) (j : Json)
    (hj : valToJson d = some j) :
    P.runMethod cls n__write_content [encWriter cls chunks o fl, d]
      = .ok (.none, encWriter cls (chunks ++ (if fl then [] else [jkey ",\n"]) ++ [pyDumps j]) o false) := by
  rw [jw_runMethod_eq _ _ _ _ _ (jw_mth_write_content cls hc)]
  exact jw_write_content_call 979 cls chunks o fl d j hj

theorem jw_selfAfter_open (cls : Id) (hc : IsWriterCls cls) (chunks : List Str) (o fl : Bool) :
    selfAfter cls n_open [encWriter cls chunks o fl] = .ok (encWriter cls (chunks ++ [jsonOpen (jwTag cls)]) true true) := by
  rw [selfAfter, jw_open_translated cls hc]; rfl
theorem jw_selfAfter_close (cls : Id) (hc : IsWriterCls cls) (chunks : List Str) (o fl : Bool) :
    selfAfter cls n_close [encWriter cls chunks o fl]
      = .ok (encWriter cls (chunks ++ [if fl then jkey "]}" else jkey "\n]}"]) false fl) := by
  rw [selfAfter, jw_close_translated cls hc]; rfl

/-! ## (c) one record -/
theorem jw_log_write_call (f : Nat) (chunks : List Str) (fl : Bool) (e : LogEntry) (sc : List (Val × Val))
    (hns : lookupD sc (encSide .NS) = some (.int e.scoreNS)) (hew : lookupD sc (encSide .EW) = some (.int e.scoreEW))
    (hwf : LogWF e) :
    callF (mkRec P (f+70)) m_JsonLogWriter_write (encWriter n_JsonLogWriter chunks true fl :: logArgsWith (.dict sc) e)
      = .ok (.none, encWriter n_JsonLogWriter (chunks ++ (if fl then [] else [jkey ",\n"]) ++ [pyDumps (logJson e)])
          true false) := by
  rw [jw_log_write_call_aux f chunks fl e sc hns hew hwf,
    jw_write_content_call (f+48) n_JsonLogWriter chunks true fl (logVal e) (logJson e) (jw_logVal_json e)]
  rfl

/-- `JsonLogWriter.write(…)` on an open writer, the `scores` dictionary in any order -/
theorem jw_log_write_translated_any_scores (e : LogEntry) (hwf : LogWF e) (chunks : List Str) (fl : Bool)
    (sc : List (Val × Val))
    (hns : lookupD sc (encSide .NS) = some (.int e.scoreNS)) (hew : lookupD sc (encSide .EW) = some (.int e.scoreEW)) :
    P.runMethod n_JsonLogWriter n_write (encWriter n_JsonLogWriter chunks true fl :: logArgsWith (.dict sc) e)
      = .ok (.none, encWriter n_JsonLogWriter (chunks ++ (if fl then [] else [jkey ",\n"]) ++ [pyDumps (logJson e)])
          true false) := by
  rw [jw_runMethod_eq _ _ _ _ _ jw_mth_lw_write]
  exact jw_log_write_call 929 chunks fl e sc hns hew hwf

/-- ONE CALL OF `JsonLogWriter.write` on an open writer appends exactly the separator (unless first) and
`pyDumps (logJson e)` -/
theorem jw_log_write_translated (e : LogEntry) (hwf : LogWF e) (chunks : List Str) (fl : Bool) :
    P.runMethod n_JsonLogWriter n_write (encWriter n_JsonLogWriter chunks true fl :: logArgs e)
      = .ok (.none, encWriter n_JsonLogWriter (chunks ++ (if fl then [] else [jkey ",\n"]) ++ [pyDumps (logJson e)])
          true false) :=
  jw_log_write_translated_any_scores e hwf chunks fl _
    (by simp [lookupD, encSide, Val.beq, Side.value]) (by simp [lookupD, encSide, Val.beq, Side.value])

/-- the same with `scores = {Pair.EW: …, Pair.NS: …}`: the record still lists `NS` first -/
theorem jw_log_write_translated_scores_rev (e : LogEntry) (hwf : LogWF e) (chunks : List Str) (fl : Bool) :
    P.runMethod n_JsonLogWriter n_write
        (encWriter n_JsonLogWriter chunks true fl :: logArgsWith (jwEncScoresRev e.scoreNS e.scoreEW) e)
      = .ok (.none, encWriter n_JsonLogWriter (chunks ++ (if fl then [] else [jkey ",\n"]) ++ [pyDumps (logJson e)])
          true false) :=
  jw_log_write_translated_any_scores e hwf chunks fl _
    (by simp [lookupD, encSide, Val.beq, Side.value]) (by simp [lookupD, encSide, Val.beq, Side.value])

/-- on a writer that is not open: `Exception` (whatever the 14 — or, `dda` left to its default, 13 — arguments) -/
theorem jw_log_write_translated_not_open (chunks : List Str) (fl : Bool) (args : List Val)
    (hargs : args.length = 14 ∨ args.length = 13) :
    P.runMethod n_JsonLogWriter n_write (encWriter n_JsonLogWriter chunks false fl :: args) = .error (.exc K.Exception) := by
  rw [jw_runMethod_eq _ _ _ _ _ jw_mth_lw_write]
  exact jw_log_write_closed_call 989 chunks fl args hargs

theorem jw_log_write_translated_not_open_entry (e : LogEntry) (chunks : List Str) (fl : Bool) :
    P.runMethod n_JsonLogWriter n_write (encWriter n_JsonLogWriter chunks false fl :: logArgs e)
      = .error (.exc K.Exception) :=
  jw_log_write_translated_not_open chunks fl _ (Or.inl rfl)

theorem jw_callF_congr (r : Rec) (fd : FuncDef) (a b : List Val)
    (h : bindParams fd.params fd.defaults a = bindParams fd.params fd.defaults b) : callF r fd a = callF r fd b := by
  unfold callF; rw [h]

/-- `dda` left to its default (`None`): the same as passing `None` -/
theorem jw_log_write_translated_default_dda (e : LogEntry) (hwf : LogWF e) (hd : e.dda = none) (chunks : List Str)
    (fl : Bool) :
    P.runMethod n_JsonLogWriter n_write (encWriter n_JsonLogWriter chunks true fl :: (logArgs e).dropLast)
      = .ok (.none, encWriter n_JsonLogWriter (chunks ++ (if fl then [] else [jkey ",\n"]) ++ [pyDumps (logJson e)])
          true false) := by
  rw [← jw_log_write_translated e hwf chunks fl, jw_runMethod_eq _ _ _ _ _ jw_mth_lw_write,
    jw_runMethod_eq _ _ _ _ _ jw_mth_lw_write]
  apply jw_callF_congr
  simp only [logArgs, logArgsWith, hd, encOpt]
  rfl

theorem jw_setting_write_call (f : Nat) (chunks : List Str) (fl : Bool) (e : SettingEntry) (hwf : SettingWF e) :
    callF (mkRec P (f+70)) m_JsonBoardSettingWriter_write (encWriter n_JsonBoardSettingWriter chunks true fl :: settingArgs e)
      = .ok (.none, encWriter n_JsonBoardSettingWriter
          (chunks ++ (if fl then [] else [jkey ",\n"]) ++ [pyDumps (settingJson e)]) true false) := by
  rw [jw_setting_write_call_aux f chunks fl e hwf,
    jw_write_content_call (f+48) n_JsonBoardSettingWriter chunks true fl (settingVal e) (settingJson e)
      (jw_settingVal_json e)]
  rfl

/-- ONE CALL OF `JsonBoardSettingWriter.write` on an open writer appends exactly the separator (unless first) and
`pyDumps (settingJson e)` -/
theorem jw_setting_write_translated (e : SettingEntry) (hwf : SettingWF e) (chunks : List Str) (fl : Bool) :
    P.runMethod n_JsonBoardSettingWriter n_write (encWriter n_JsonBoardSettingWriter chunks true fl :: settingArgs e)
      = .ok (.none, encWriter n_JsonBoardSettingWriter
          (chunks ++ (if fl then [] else [jkey ",\n"]) ++ [pyDumps (settingJson e)]) true false) := by
  rw [jw_runMethod_eq _ _ _ _ _ jw_mth_sw_write]
  exact jw_setting_write_call 929 chunks fl e hwf

theorem jw_setting_write_translated_default_dda (e : SettingEntry) (hwf : SettingWF e) (hd : e.dda = none)
    (chunks : List Str) (fl : Bool) :
    P.runMethod n_JsonBoardSettingWriter n_write
        (encWriter n_JsonBoardSettingWriter chunks true fl :: (settingArgs e).dropLast)
      = .ok (.none, encWriter n_JsonBoardSettingWriter
          (chunks ++ (if fl then [] else [jkey ",\n"]) ++ [pyDumps (settingJson e)]) true false) := by
  rw [← jw_setting_write_translated e hwf chunks fl, jw_runMethod_eq _ _ _ _ _ jw_mth_sw_write,
    jw_runMethod_eq _ _ _ _ _ jw_mth_sw_write]
  apply jw_callF_congr
  simp only [settingArgs, hd, encOpt]
  rfl

theorem jw_setting_write_translated_not_open (chunks : List Str) (fl : Bool) (args : List Val)
    (hargs : args.length = 5 ∨ args.length = 4) :
    P.runMethod n_JsonBoardSettingWriter n_write (encWriter n_JsonBoardSettingWriter chunks false fl :: args)
      = .error (.exc K.Exception) := by
  rw [jw_runMethod_eq _ _ _ _ _ jw_mth_sw_write]
  exact jw_setting_write_closed_call 989 chunks fl args hargs

theorem jw_setting_write_translated_not_open_entry (e : SettingEntry) (chunks : List Str) (fl : Bool) :
    P.runMethod n_JsonBoardSettingWriter n_write (encWriter n_JsonBoardSettingWriter chunks false fl :: settingArgs e)
      = .error (.exc K.Exception) :=
  jw_setting_write_translated_not_open chunks fl _ (Or.inl rfl)

/-! ## (d) whole documents -/
/-- `w = JsonLogWriter(file); w.open(); for e in es: w.write(*logArgs e); w.close()` — the writer afterwards -/
def runLogDocument (chunks0 : List Str) (es : List LogEntry) : R Val := do
  let w ← P.runNew n_JsonLogWriter [encFile chunks0]
  let w ← selfAfter n_JsonLogWriter n_open [w]
  let w ← es.foldlM (fun w e => selfAfter n_JsonLogWriter n_write (w :: logArgs e)) w
  selfAfter n_JsonLogWriter n_close [w]

def runSettingsDocument (chunks0 : List Str) (es : List SettingEntry) : R Val := do
  let w ← P.runNew n_JsonBoardSettingWriter [encFile chunks0]
  let w ← selfAfter n_JsonBoardSettingWriter n_open [w]
  let w ← es.foldlM (fun w e => selfAfter n_JsonBoardSettingWriter n_write (w :: settingArgs e)) w
  selfAfter n_JsonBoardSettingWriter n_close [w]

theorem jw_log_writes (es : List LogEntry) : ∀ (chunks : List Str) (fl : Bool), (∀ e ∈ es, LogWF e) →
    es.foldlM (fun w e => selfAfter n_JsonLogWriter n_write (w :: logArgs e)) (encWriter n_JsonLogWriter chunks true fl)
      = .ok (encWriter n_JsonLogWriter (chunks ++ writeChunks fl (es.map fun e => pyDumps (logJson e))) true
          (fl && es.isEmpty)) := by
  induction es with
  | nil => intro chunks fl _; simp [writeChunks, pure, Except.pure]
  | cons e es ih =>
    intro chunks fl h
    rw [List.foldlM_cons, selfAfter, jw_log_write_translated e (h e (List.mem_cons_self ..)) chunks fl]
    simp only [Except.map, bind_ok]
    rw [ih _ false fun x hx => h x (List.mem_cons_of_mem _ hx)]
    simp only [List.map_cons, ← jw_writeChunks_snoc, List.append_assoc, Bool.false_and, List.isEmpty_cons, Bool.and_false]

theorem jw_setting_writes (es : List SettingEntry) : ∀ (chunks : List Str) (fl : Bool), (∀ e ∈ es, SettingWF e) →
    es.foldlM (fun w e => selfAfter n_JsonBoardSettingWriter n_write (w :: settingArgs e))
        (encWriter n_JsonBoardSettingWriter chunks true fl)
      = .ok (encWriter n_JsonBoardSettingWriter (chunks ++ writeChunks fl (es.map fun e => pyDumps (settingJson e))) true
          (fl && es.isEmpty)) := by
  induction es with
  | nil => intro chunks fl _; simp [writeChunks, pure, Except.pure]
  | cons e es ih =>
    intro chunks fl h
    rw [List.foldlM_cons, selfAfter, jw_setting_write_translated e (h e (List.mem_cons_self ..)) chunks fl]
    simp only [Except.map, bind_ok]
    rw [ih _ false fun x hx => h x (List.mem_cons_of_mem _ hx)]
    simp only [List.map_cons, ← jw_writeChunks_snoc, List.append_assoc, Bool.false_and, List.isEmpty_cons, Bool.and_false]

/-- the writer after a whole log document: closed, holding `chunks0` and then the chunks of the document -/
theorem jw_log_document_run (es : List LogEntry) (h : ∀ e ∈ es, LogWF e) (chunks0 : List Str) :
    runLogDocument chunks0 es
      = .ok (encWriter n_JsonLogWriter (chunks0 ++ frameChunks (jkey "logs") (es.map fun e => pyDumps (logJson e))) false
          es.isEmpty) := by
  simp only [runLogDocument, jw_new_log_translated, bind_ok, jw_selfAfter_open _ jw_cls_log]
  rw [jw_log_writes es (chunks0 ++ [jsonOpen (jwTag n_JsonLogWriter)]) true h]
  simp only [bind_ok, jw_selfAfter_close _ jw_cls_log, Bool.true_and, frameChunks, jw_tag_log, List.append_assoc,
    List.isEmpty_map]

theorem jw_settings_document_run (es : List SettingEntry) (h : ∀ e ∈ es, SettingWF e) (chunks0 : List Str) :
    runSettingsDocument chunks0 es
      = .ok (encWriter n_JsonBoardSettingWriter
          (chunks0 ++ frameChunks (jkey "board_settings") (es.map fun e => pyDumps (settingJson e))) false es.isEmpty) := by
  simp only [runSettingsDocument, jw_new_setting_translated, bind_ok, jw_selfAfter_open _ jw_cls_setting]
  rw [jw_setting_writes es (chunks0 ++ [jsonOpen (jwTag n_JsonBoardSettingWriter)]) true h]
  simp only [bind_ok, jw_selfAfter_close _ jw_cls_setting, Bool.true_and, frameChunks, jw_tag_setting, List.append_assoc,
    List.isEmpty_map]

/-- THE TRANSLATED LOG WRITER, run over a whole document on an empty file, leaves a file object whose chunks concatenate
to the model's `logText es` -/
theorem jw_log_document_translated (es : List LogEntry) (h : ∀ e ∈ es, LogWF e) :
    ∃ chunks, runLogDocument [] es = .ok (encWriter n_JsonLogWriter chunks false es.isEmpty) ∧
      chunks.flatten = logText es :=
  ⟨_, jw_log_document_run es h [], by rw [List.nil_append, jw_frameChunks_text]; rfl⟩

/-- … and the settings writer to `settingsText es` -/
theorem jw_settings_document_translated (es : List SettingEntry) (h : ∀ e ∈ es, SettingWF e) :
    ∃ chunks, runSettingsDocument [] es = .ok (encWriter n_JsonBoardSettingWriter chunks false es.isEmpty) ∧
      chunks.flatten = settingsText es :=
  ⟨_, jw_settings_document_run es h [], by rw [List.nil_append, jw_frameChunks_text]; rfl⟩

/-- on a file that already holds text, the document is appended -/
theorem jw_log_document_translated_append (es : List LogEntry) (h : ∀ e ∈ es, LogWF e) (chunks0 : List Str) :
    ∃ chunks, runLogDocument chunks0 es = .ok (encWriter n_JsonLogWriter chunks false es.isEmpty) ∧
      chunks.flatten = chunks0.flatten ++ logText es :=
  ⟨_, jw_log_document_run es h chunks0, by rw [List.flatten_append, jw_frameChunks_text]; rfl⟩

/-! ## well-formedness from the library's own invariants -/
/-- valid cards (`Card.ok`) everywhere and no double-dummy table: `LogWF` -/
theorem jw_logWF_of_ok (e : LogEntry) (hdeal : ∀ p, ∀ c ∈ e.deal p, c.ok = true)
    (hplay : ∀ ts, e.play = some ts → ∀ t ∈ ts, ∀ c ∈ t.cards, c.ok = true) (hdda : ∀ d, e.dda = some d → DdaWF d) :
    LogWF e := by
  have key : ∀ c : Card, c.ok = true → 2 ≤ c.rank ∧ c.rank ≤ 14 := by
    intro c hc
    simp only [Card.ok, Bool.and_eq_true, decide_eq_true_eq] at hc
    exact hc.1
  exact ⟨fun p c hc => key c (hdeal p c hc), fun ts hts t ht c hc => key c (hplay ts hts t ht c hc), hdda⟩

/-! ## the hypotheses are needed (kernel evaluation of both sides on small inputs) -/
/-- the text `json.dumps` makes of what the translated `convert_deal` returns -/
def dealText? (h : Hands) : Option Str :=
  ((P.runFn n_convert_deal [encHands h]).toOption.bind valToJson).map pyDumps

/-- the single chunk a `JsonBoardSettingWriter.write` appends to an empty file as first record -/
def settingLine? (e : SettingEntry) : Option Str :=
  match P.runMethod n_JsonBoardSettingWriter n_write (encWriter n_JsonBoardSettingWriter [] true true :: settingArgs e) with
  | .ok (_, .obj _ ((_, .obj _ [(_, .tuple [.str s])]) :: _)) => some s
  | _ => none

/-- a rank below 2: the code prints `C1`, the model `C?` -/
theorem jw_rank_hypothesis_needed_low :
    dealText? (fun p => if p = .N then [⟨1, .C⟩] else []) = some "{\"N\": [\"C1\"], \"E\": [], \"S\": [], \"W\": []}".toList ∧
    pyDumps (dealJson fun p => if p = .N then [⟨1, .C⟩] else []) = "{\"N\": [\"C?\"], \"E\": [], \"S\": [], \"W\": []}".toList := by
  decide +kernel

/-- a rank above 14: the code prints `C15` (and sorts it AFTER `D2`, which has the same `int(card)`), the model `C?` first -/
theorem jw_rank_hypothesis_needed_high :
    dealText? (fun p => if p = .N then [⟨15, .C⟩, ⟨2, .D⟩] else [])
      = some "{\"N\": [\"D2\", \"C15\"], \"E\": [], \"S\": [], \"W\": []}".toList ∧
    pyDumps (dealJson fun p => if p = .N then [⟨15, .C⟩, ⟨2, .D⟩] else [])
      = "{\"N\": [\"C?\", \"D2\"], \"E\": [], \"S\": [], \"W\": []}".toList := by
  decide +kernel

/-- a setting whose double-dummy table lists North twice (so it is not the image of a `dict`) -/
def jwTwiceNorth : SettingEntry :=
  { boardId := ['1'], dealer := .N, deal := fun _ => [], vul := .none, dda := some [(.N, [(.C, 1)]), (.N, [(.D, 2)])] }

/-- … the comprehension keeps the last row, the model both -/
theorem jw_dda_hypothesis_needed :
    settingLine? jwTwiceNorth ≠ some (pyDumps (settingJson jwTwiceNorth)) := by
  decide +kernel

end Bridge.Translated
