import BridgeVerif.Translated.ThreadsSeatCLemmasC
/-! `boardsChecks` as an executable test (sound), the number of boards, so that closed instances can be decided -/
set_option maxRecDepth 4000
namespace Bridge.Translated.SeatC
open Bridge Bridge.Py Bridge.Generated.PyCore
open Bridge.Translated.SeatB (playingChecks playingChecksB playingChecksB_sound passesB passesB_sound)

theorem passesB_sound' {e m : Str} (h : passesB e m = true) : Bridge.Translated.passesCheck e m := passesB_sound h

def dealChecksB (p : Seat) (c : List Str) : Bool :=
  match c with
  | m1 :: m2 :: _ =>
    passesB (p.formal ++ " ready for deal".toList) m1 && passesB (p.formal ++ " ready for cards".toList) m2
  | _ => true

theorem dealChecksB_sound {p : Seat} {c : List Str} (h : dealChecksB p c = true) : dealChecks p c := by
  match c, h with
  | [], _ => trivial
  | [_], _ => trivial
  | m1 :: m2 :: r, h =>
    unfold dealChecksB at h
    rw [Bool.and_eq_true] at h
    exact ⟨passesB_sound' h.1, passesB_sound' h.2⟩

def bidChecksB (p : Seat) : Nat → SeatIn → Bool
  | 0, _ => true
  | n + 1, i =>
    match i.getQ with
    | none => true
    | some (m, i) =>
      if m = MSG_NULL then true
      else match seatOfFormal? m with
        | none => true
        | some a =>
          if p = a then
            match i.getC with
            | none => true
            | some (_, i) => bidChecksB p n i
          else
            match i.getC with
            | none => true
            | some (x, i) =>
              passesB (p.formal ++ " ready for ".toList ++ a.formal ++ "'s bid".toList) x &&
              match i.getQ with
              | none => true
              | some (_, i) => bidChecksB p n i

theorem bidChecksB_sound (p : Seat) : ∀ (n : Nat) (i : SeatIn), bidChecksB p n i = true → bidChecks p n i := by
  intro n
  induction n with
  | zero => intros; trivial
  | succ n ih =>
    intro i h
    unfold bidChecksB at h
    unfold bidChecks
    cases hq : i.getQ with
    | none => trivial
    | some mi =>
      obtain ⟨m, i1⟩ := mi
      rw [hq] at h
      dsimp only at h ⊢
      by_cases hm : m = MSG_NULL
      · rw [if_pos hm]; trivial
      · rw [if_neg hm] at h ⊢
        cases ha : seatOfFormal? m with
        | none => trivial
        | some a =>
          rw [ha] at h
          dsimp only at h ⊢
          by_cases hpa : p = a
          · rw [if_pos hpa] at h ⊢
            cases hc : i1.getC with
            | none => trivial
            | some xi =>
              obtain ⟨x, i2⟩ := xi
              rw [hc] at h
              exact ih _ h
          · rw [if_neg hpa] at h ⊢
            cases hc : i1.getC with
            | none => trivial
            | some xi =>
              obtain ⟨x, i2⟩ := xi
              rw [hc] at h
              dsimp only at h ⊢
              rw [Bool.and_eq_true] at h
              refine ⟨passesB_sound' h.1, ?_⟩
              cases hq2 : i2.getQ with
              | none => trivial
              | some yi =>
                obtain ⟨y, i3⟩ := yi
                have h2 := h.2
                rw [hq2] at h2
                exact ih _ h2

def boardChecksB (p : Seat) (i : SeatIn) : Bool :=
  dealChecksB p i.c &&
  match seatDealR p i with
  | none => true
  | some (_, i1) =>
    bidChecksB p (i1.q.length + 1) i1 &&
    match seatBiddingR p (i1.q.length + 1) i1 with
    | none => true
    | some (_, i2) =>
      match i2.getQ with
      | none => true
      | some (m, i3) => if m = MSG_NULL then playingChecksB p i3 else true

theorem boardChecksB_sound {p : Seat} {i : SeatIn} (h : boardChecksB p i = true) : boardChecks p i := by
  unfold boardChecksB at h
  rw [Bool.and_eq_true] at h
  refine ⟨dealChecksB_sound h.1, fun d i1 hd => ?_⟩
  have h2 := h.2
  rw [hd] at h2
  dsimp only at h2
  rw [Bool.and_eq_true] at h2
  refine ⟨bidChecksB_sound p _ _ h2.1, fun b i2 i3 hb hq => ?_⟩
  have h3 := h2.2
  rw [hb] at h3
  dsimp only at h3
  rw [hq] at h3
  dsimp only at h3
  rw [if_pos rfl] at h3
  exact playingChecksB_sound h3

def boardsChecksB (p : Seat) : Nat → SeatIn → Bool
  | 0, _ => true
  | n + 1, i =>
    boardChecksB p i &&
    match seatBoardR p i with
    | some (_, status, i1) => if status = MSG_NEXT then boardsChecksB p n i1 else true
    | none => true

theorem boardsChecksB_sound (p : Seat) : ∀ (n : Nat) (i : SeatIn), boardsChecksB p n i = true → boardsChecks p n i := by
  intro n
  induction n with
  | zero => intros; trivial
  | succ n ih =>
    intro i h
    unfold boardsChecksB at h
    rw [Bool.and_eq_true] at h
    refine ⟨boardChecksB_sound h.1, fun pre i1 hb => ?_⟩
    have h2 := h.2
    rw [hb] at h2
    dsimp only at h2
    rw [if_pos rfl] at h2
    exact ih _ h2

/-- the number of boards `seatBoardsR p n` goes through -/
def boardsNum (p : Seat) : Nat → SeatIn → Nat
  | 0, _ => 0
  | n + 1, i =>
    match seatBoardR p i with
    | some (_, status, i1) => if status = MSG_NEXT then boardsNum p n i1 + 1 else 1
    | none => 0

/-- `k` boards: `2 * k` barrier waits -/
def advBoards : Nat → Val × List Val → Val × List Val
  | 0, tt => tt
  | k + 1, tt => advBoards k (adv2 tt)

/-- `boardsTables`: two barrier waits per board -/
theorem boardsTables_eq_iterate (p : Seat) : ∀ (n : Nat) (i : SeatIn) (tt : Val × List Val),
    boardsTables p n i tt = advBoards (boardsNum p n i) tt := by
  intro n
  induction n with
  | zero => intros; rfl
  | succ n ih =>
    intro i tt
    unfold boardsTables boardsNum
    cases seatBoardR p i with
    | none => rfl
    | some x =>
      obtain ⟨pre, status, i1⟩ := x
      dsimp only
      by_cases hs : status = MSG_NEXT
      · rw [if_pos hs, if_pos hs, ih]; rfl
      · rw [if_neg hs, if_neg hs]; rfl

end Bridge.Translated.SeatC
