import BridgeVerif.Translated.PbnParser
import BridgeVerif.Lemmas.RegexPbn
/-!
# The translated PBN parser = the model, with the regular-expression hypotheses discharged

`Translated/PbnParser.lean` takes `PbnRegexFacts` and `PbnSubNonempty` as hypotheses; `Lemmas/RegexPbn.lean` proves them
(`pbnRegexFacts`, `sub_matches_nonempty`).  Here they are plugged in.  What remains: the sizes (fuel), non-empty lines,
and `pctLineOk` for the lines that start with `%`.
-/
namespace Bridge.Translated
open Bridge Bridge.Py Bridge.Generated.PyCore Bridge.RegexPbn

theorem pbnSubNonempty : PbnSubNonempty := fun s ms h => sub_matches_nonempty s ms h

theorem pp_extract_content_closed (st : PbnSt) (cl cb : List Str) (s : Str) (hlen : s.length ≤ 244) :
    ∃ cl' cb', P.runMethod n_PbnParser n_extract_content [encPbnParser st cl cb, .str s]
      = .ok (.none, encPbnParser (extractContent (s.length + 1) st s) cl' cb') :=
  pp_extract_content_translated pbnRegexFacts st cl cb s hlen

theorem pp_parse_board_closed (st : PbnSt) (cl cb : List Str) :
    P.runMethod n_PbnParser n_parse_board [encPbnParser st cl cb]
      = .ok (encGame (parseBoard st.buffer.reverse), encPbnParser st cl cb) :=
  pp_parse_board_translated pbnRegexFacts pbnSubNonempty st cl cb

theorem pp_parse_stream_closed (lines : List Str)
    (hok : ∀ l ∈ lines, l ≠ [] ∧ l.length < 241) (hpct : ∀ l ∈ lines, l.head? = some '%' → pctLineOk l = true) :
    ∃ self', P.runMethod n_PbnParser n_parse_stream [encPbnParser {} [] [], .tuple (lines.map Val.str)]
      = .ok (.tuple ((parseStream lines).map encGame), self') :=
  pp_parse_stream_translated pbnRegexFacts pbnSubNonempty lines hok hpct

theorem pp_parse_all_closed (lines : List Str)
    (hok : ∀ l ∈ lines, l ≠ [] ∧ l.length < 240) (hpct : ∀ l ∈ lines, l.head? = some '%' → pctLineOk l = true) :
    ∃ self', P.runMethod n_PbnParser n_parse_all [encPbnParser {} [] [], .tuple (lines.map Val.str)]
      = .ok (.tuple ((parseStream lines).map encGame), self') :=
  pp_parse_all_translated pbnRegexFacts pbnSubNonempty lines hok hpct

theorem pp_parse_all_closed_no_pct (lines : List Str)
    (hok : ∀ l ∈ lines, l ≠ [] ∧ l.length < 240) (hno : ∀ l ∈ lines, l.head? ≠ some '%') :
    ∃ self', P.runMethod n_PbnParser n_parse_all [encPbnParser {} [] [], .tuple (lines.map Val.str)]
      = .ok (.tuple ((parseStream lines).map encGame), self') :=
  pp_parse_all_translated_no_pct pbnRegexFacts pbnSubNonempty lines hok hno

/-- the two-game example file, with no hypothesis left -/
theorem pp_example_closed :
    ∃ self', P.runMethod n_PbnParser n_parse_all [encPbnParser {} [] [], .tuple (ppExampleLines.map Val.str)]
      = .ok (.tuple (ppExampleGames.map encGame), self') := by
  rw [← pp_example_model]
  exact pp_parse_all_closed ppExampleLines pp_example_ok pp_example_pct

end Bridge.Translated
