import BridgeVerif.Translated.JsonWriterLemmasB
/-! Translated JSON writers = model: dictionaries with pairwise distinct keys, `play_history.history`, the
comprehension over the tricks, the double-dummy table comprehension -/
namespace Bridge.Translated
open Bridge Bridge.Py Bridge.Generated.PyCore

/-! ## dictionaries built from pairwise distinct keys -/
theorem jw_updateD_fresh (acc : List (Val × Val)) (k v : Val) (h : ∀ a ∈ acc, a.1.beq k = false) :
    updateD acc k v = acc ++ [(k, v)] := by
  induction acc with
  | nil => rfl
  | cons a r ih =>
    obtain ⟨ak, av⟩ := a
    have h1 : ak.beq k = false := h (ak, av) (List.mem_cons_self ..)
    simp only [updateD, h1, Bool.false_eq_true, if_false, List.cons_append,
      ih fun b hb => h b (List.mem_cons_of_mem _ hb)]

theorem jw_foldl_updateD (l : List (Val × Val)) : ∀ (acc : List (Val × Val)),
    (∀ a ∈ acc, ∀ b ∈ l, a.1.beq b.1 = false) → l.Pairwise (fun a b => a.1.beq b.1 = false) →
    l.foldl (fun acc x => updateD acc x.1 x.2) acc = acc ++ l := by
  induction l with
  | nil => intro acc _ _; simp
  | cons x l ih =>
    intro acc h1 h2
    have h2' := List.pairwise_cons.1 h2
    simp only [List.foldl_cons]
    rw [jw_updateD_fresh acc x.1 x.2 fun a ha => h1 a ha x (List.mem_cons_self ..)]
    rw [ih _ ?_ h2'.2]
    · simp
    · intro a ha b hb
      rcases List.mem_append.1 ha with ha | ha
      · exact h1 a ha b (List.mem_cons_of_mem _ hb)
      · simp only [List.mem_singleton] at ha
        subst ha
        exact h2'.1 b hb

theorem jw_beq_str (a b : Str) : (Val.str a).beq (.str b) = (a == b) := by simp only [Val.beq]

theorem jw_seat_name_inj (a b : Seat) (h : a.name = b.name) : a = b := by
  cases a <;> cases b <;> first | rfl | (exact absurd h (by decide))
theorem jw_suit_name_inj (a b : Suit) (h : a.name = b.name) : a = b := by
  cases a <;> cases b <;> first | rfl | (exact absurd h (by decide))

/-- a dictionary comprehension whose keys are the names of pairwise distinct members keeps every item, in order -/
theorem jw_foldl_updateD_names {α β} (name : α → Str) (hinj : ∀ a b, name a = name b → a = b) (val : β → Val)
    (l : List (α × β)) (hn : (l.map (·.1)).Nodup) :
    (l.map fun x => (Val.str (name x.1), val x.2)).foldl (fun acc x => updateD acc x.1 x.2) []
      = l.map fun x => (Val.str (name x.1), val x.2) := by
  rw [jw_foldl_updateD _ [] (fun a ha => by cases ha)]
  · rfl
  · rw [List.pairwise_map]
    have hp : l.Pairwise fun a b => a.1 ≠ b.1 := by
      have := hn
      rwa [List.Nodup, List.pairwise_map] at this
    refine hp.imp ?_
    intro a b hab
    simp only [jw_beq_str, beq_eq_false_iff_ne, ne_eq]
    exact fun h => hab (hinj _ _ h)

/-! ## `play_history.history` and the comprehension over the tricks -/
theorem jw_mth_history : P.method? classDepth n_PlayingHistory n_history = some (n_PlayingHistory, m_PlayingHistory_history) := rfl

theorem jw_history_call (f : Nat) (c : Contract) (ts : List Trick) :
    callF (mkRec P (f+8)) m_PlayingHistory_history [encPlayingHistory c ts]
      = .ok (.tuple (ts.map encTrick), encPlayingHistory c ts) := by
  rw [callF_def]
  simp only [m_PlayingHistory_history, bindParams, Option.map, encPlayingHistory]
  ppsimp [builtin_tuple_tuple]

theorem jw_history_attr (f : Nat) (c : Contract) (ts : List Trick) :
    getAttrF (mkRec P (f+9)) P (encPlayingHistory c ts) n_history = .ok (.tuple (ts.map encTrick)) := by
  have e : getAttrF (mkRec P (f+9)) P (encPlayingHistory c ts) n_history
      = (callF (mkRec P (f+8)) m_PlayingHistory_history [encPlayingHistory c ts] >>= fun x => .ok x.1) := rfl
  rw [e, jw_history_call]; rfl

/-- the expression `{'leader': str(trick_history.leader), 'cards': [str(card) for card in trick_history.cards]}` -/
def jwTrickExpr : Expr :=
  match (match m_JsonLogWriter_write.body.getD 1 .pass with
    | .assign _ (.dictOf kvs) => (kvs.getD 8 default).2
    | _ => default) with
  | .ifexp _ (.comp _ _ _ b) _ => b
  | _ => default

theorem jw_comp_tricks (f : Nat) (env : Env) (ts : List Trick)
    (hts : ∀ t ∈ ts, ∀ c ∈ t.cards, 2 ≤ c.rank ∧ c.rank ≤ 14) :
    compF (mkRec P (f+20)) env n_trick_history none jwTrickExpr (ts.map encTrick) = .ok (ts.map trickVal) := by
  induction ts with
  | nil => rfl
  | cons t ts ih =>
    have ht := hts t (List.mem_cons_self ..)
    simp only [List.map_cons, compF, ih fun d hd => hts d (List.mem_cons_of_mem _ hd)]
    simp only [jwTrickExpr, m_JsonLogWriter_write, List.getD_cons_succ, List.getD_cons_zero, encTrick]
    ppsimp [jw_str_seat, iterItems_tuple, jw_comp_str_cards _ _ _ ht, List.map_cons, List.map_nil, updateD, Val.beq]
    rfl

/-! ## the double-dummy table -/
theorem jw_items_row (r : Rec) (row : List (Suit × Int)) :
    builtinF r P .items [jwEncDdaRow row] = .ok (.tuple (row.map fun sv => .tuple [encSuit sv.1, .int sv.2])) := by
  simp only [jwEncDdaRow, builtinF, List.map_map]; rfl
theorem jw_items_dda (r : Rec) (d : Dda) :
    builtinF r P .items [jwEncDda d] = .ok (.tuple (d.map fun pr => .tuple [encSeat pr.1, jwEncDdaRow pr.2])) := by
  simp only [jwEncDda, builtinF, List.map_map]; rfl

theorem jw_bind2 (env : Env) (x y : Id) (a b : Val) :
    bindTargets env [x, y] (.tuple [a, b]) = .ok (update (update env x a) y b) := rfl

theorem jw_dda_row_comp (f : Nat) (env : Env) (row : List (Suit × Int)) :
    dictCompTF (mkRec P (f+10)) env [n_s, n_v] (.builtin .str [(.var n_s)]) (.var n_v)
        (row.map fun sv => .tuple [encSuit sv.1, .int sv.2])
      = .ok (row.map fun sv => (.str sv.1.name, .int sv.2)) := by
  induction row with
  | nil => rfl
  | cons a row ih =>
    simp only [List.map_cons, dictCompTF, jw_bind2, ih]
    ppsimp [jw_str_suit]

/-- the expression `{str(p): {str(s): v for s, v in r.items()} for p, r in dda.items()}` -/
def jwDdaExpr : Expr :=
  match m_JsonLogWriter_write.body.getD 2 .pass with
  | .ite _ [.assign _ e] _ => e
  | _ => default

theorem jw_dda_comp (f : Nat) (env : Env) (d : Dda) (hrows : ∀ pr ∈ d, (pr.2.map (·.1)).Nodup) :
    dictCompTF (mkRec P (f+20)) env [n_p, n_r] (.builtin .str [(.var n_p)])
        (.dictCompT [n_s, n_v] (.builtin .items [(.var n_r)]) (.builtin .str [(.var n_s)]) (.var n_v))
        (d.map fun pr => .tuple [encSeat pr.1, jwEncDdaRow pr.2])
      = .ok (d.map fun pr => (.str pr.1.name, ddaRowVal pr.2)) := by
  induction d with
  | nil => rfl
  | cons a d ih =>
    have ha := hrows a (List.mem_cons_self ..)
    simp only [List.map_cons, dictCompTF, jw_bind2, ih fun pr hpr => hrows pr (List.mem_cons_of_mem _ hpr)]
    ppsimp [jw_str_seat, jw_items_row, iterItems_tuple, jw_dda_row_comp,
      jw_foldl_updateD_names Suit.name jw_suit_name_inj Val.int a.2 ha, ddaRowVal]

theorem jw_eval_dda (f : Nat) (env : Env) (d : Dda) (hl : lookup env n_dda = some (jwEncDda d))
    (hseats : (d.map (·.1)).Nodup) (hrows : ∀ pr ∈ d, (pr.2.map (·.1)).Nodup) :
    evalF (mkRec P (f+24)) P env jwDdaExpr = .ok (ddaVal d) := by
  simp only [jwDdaExpr, m_JsonLogWriter_write, List.getD_cons_succ, List.getD_cons_zero]
  ppsimp [hl, jw_items_dda, iterItems_tuple, jw_dda_comp _ _ d hrows,
    jw_foldl_updateD_names Seat.name jw_seat_name_inj ddaRowVal d hseats, ddaVal]
end Bridge.Translated
