import BridgeVerif.Translated.MsgParsersB
import BridgeVerif.Lemmas.RegexMsgBidD
/-! Translated `MessageInterface.parse_bid` (socket_interface.py) = model, part C: the model's `parseBid?` written over the
scanner `bidTail` of the bid pattern; the denomination text in upper case names the suit (ASCII); `Bid.level_suit_to_bid`
on a one-digit level. -/
set_option maxRecDepth 4000
namespace Bridge.Translated.MsgParsers
open Bridge Bridge.Py Bridge.Generated.PyCore Bridge.Translated Bridge.RegexHands Bridge.RegexMsgBid

theorem mp_eqCI_comm (a b : Char) : eqCI a b = eqCI b a := by
  unfold eqCI; rw [Bool.eq_iff_iff]; simp only [beq_iff_eq]; exact eq_comm

/-- the suit a denomination text stands for (decided by its first letter, `NT` last — as the ordered alternation) -/
def suitOfG : List Char → Suit
  | c :: _ => if eqCI 'C' c then .C else if eqCI 'D' c then .D else if eqCI 'H' c then .H else if eqCI 'S' c then .S else .NT
  | [] => .NT

/-- the second attempt of `parse_bid` : `'{name} (.*)'`, lower case, one of three words -/
def wordCall? (content name : List Char) : Option Call :=
  match stripPrefixCI (name ++ [' ']) content with
  | none => none
  | some r =>
    let w := lowerS (r.takeWhile (· ≠ '\n'))
    if w = "passes".toList then some .pass else if w = "doubles".toList then some .dbl
    else if w = "redoubles".toList then some .rdbl else none

/-- `parseBid?` over the scanner of the bid pattern -/
theorem mp_parseBid_eq (content name : List Char) :
    parseBid? content name =
      match (stripPrefixCI (name ++ " bids ".toList) content).bind bidTail with
      | some [[d], g] => levelSuitToCall? ((d.toNat - '0'.toNat : Nat) : Int) (suitOfG g)
      | some _ => none
      | none => wordCall? content name := by
  unfold parseBid? wordCall?
  cases hs1 : stripPrefixCI (name ++ " bids ".toList) content with
  | none => rfl
  | some r =>
    cases r with
    | nil => rfl
    | cons d rest =>
      by_cases hd : Bridge.isDigit d = true
      · cases rest with
        | nil => simp only [hd, if_true, Option.bind_some, bidTail, Option.map_none]; rfl
        | cons c r2 =>
          simp only [mp_eqCI_comm c, Option.bind_some, bidTail, hd, if_true]
          by_cases hC : eqCI 'C' c = true
          · simp only [hC, suitOfG, if_true, Option.map_some, Bool.true_or]
          · simp only [Bool.not_eq_true] at hC
            by_cases hD : eqCI 'D' c = true
            · simp only [hC, hD, suitOfG, if_true, Option.map_some, Bool.true_or, Bool.or_true, Bool.false_eq_true, if_false]
            · simp only [Bool.not_eq_true] at hD
              by_cases hH : eqCI 'H' c = true
              · simp only [hC, hD, hH, suitOfG, if_true, Option.map_some, Bool.true_or, Bool.or_true, Bool.false_eq_true, if_false]
              · simp only [Bool.not_eq_true] at hH
                by_cases hS : eqCI 'S' c = true
                · simp only [hC, hD, hH, hS, suitOfG, if_true, Option.map_some, Bool.or_true, Bool.false_eq_true, if_false]
                · simp only [Bool.not_eq_true] at hS
                  by_cases hN : eqCI 'N' c = true
                  · cases r2 with
                    | nil => simp only [hC, hD, hH, hS, hN, if_true, Option.map_none, Bool.or_self, Bool.false_eq_true, if_false]; rfl
                    | cons t r3 =>
                      simp only [mp_eqCI_comm t]
                      by_cases hT : eqCI 'T' t = true
                      · simp only [hC, hD, hH, hS, hN, hT, suitOfG, if_true, Option.map_some, Bool.or_self, Bool.false_eq_true, if_false]
                      · simp only [Bool.not_eq_true] at hT
                        simp only [hC, hD, hH, hS, hN, hT, if_true, Option.map_none, Bool.or_self, Bool.false_eq_true, if_false]; rfl
                  · simp only [Bool.not_eq_true] at hN
                    simp only [hC, hD, hH, hS, hN, Option.map_none, Bool.or_self, Bool.false_eq_true, if_false]; rfl
      · simp only [Bool.not_eq_true] at hd
        cases rest <;> simp only [hd, bidTail, Option.bind_some, Bool.false_eq_true, if_false] <;> rfl

/-! ## the shape of the scanner's groups -/
theorem mp_bidTail_shape (r : List Char) (gs : List (List Char)) (h : bidTail r = some gs) :
    ∃ d g, gs = [[d], g] ∧ Bridge.isDigit d = true ∧ (∀ x ∈ g, x ∈ r) ∧
      ((∃ c, g = [c] ∧ (eqCI 'C' c || eqCI 'D' c || eqCI 'H' c || eqCI 'S' c) = true) ∨
       (∃ c t, g = [c, t] ∧ (eqCI 'C' c || eqCI 'D' c || eqCI 'H' c || eqCI 'S' c) = false ∧ eqCI 'N' c = true ∧
          eqCI 'T' t = true)) := by
  unfold bidTail at h
  split at h
  · rename_i d c r2
    split at h
    · rename_i hd
      split at h
      · rename_i hc
        cases h
        exact ⟨d, [c], rfl, hd, by simp, Or.inl ⟨c, rfl, hc⟩⟩
      · rename_i hc
        split at h
        · rename_i hn
          split at h
          · rename_i t r3
            split at h
            · rename_i ht
              cases h
              exact ⟨d, [c, t], rfl, hd, by simp, Or.inr ⟨c, t, rfl, by simpa using hc, hn, ht⟩⟩
            · cases h
          · cases h
        · cases h
    · cases h
  · cases h

/-- on ASCII letters: the upper-cased denomination text is the member name of the suit -/
def lettersOK (c : Char) : Bool :=
  (!eqCI 'C' c || upperA c == 'C') && (!eqCI 'D' c || upperA c == 'D') && (!eqCI 'H' c || upperA c == 'H') &&
  (!eqCI 'S' c || upperA c == 'S') && (!eqCI 'N' c || upperA c == 'N') && (!eqCI 'T' c || upperA c == 'T')

theorem mp_letters_ofNat : ∀ n : Fin 128, lettersOK (Char.ofNat n.val) = true := by decide +kernel
theorem mp_letters (c : Char) (h : c.toNat < 128) : lettersOK c = true := by
  have := mp_letters_ofNat ⟨c.toNat, h⟩
  simpa [Char.ofNat_toNat] using this

theorem mp_suit_text (g : List Char) (hg : ∀ x ∈ g, x.toNat < 128)
    (h : (∃ c, g = [c] ∧ (eqCI 'C' c || eqCI 'D' c || eqCI 'H' c || eqCI 'S' c) = true) ∨
       (∃ c t, g = [c, t] ∧ (eqCI 'C' c || eqCI 'D' c || eqCI 'H' c || eqCI 'S' c) = false ∧ eqCI 'N' c = true ∧
          eqCI 'T' t = true)) :
    suitOfName? (upperS g) = some (suitOfG g) := by
  rcases h with ⟨c, rfl, hc⟩ | ⟨c, t, rfl, hc, hn, ht⟩
  · have := mp_letters c (hg c (by simp))
    simp only [lettersOK, Bool.and_eq_true, Bool.or_eq_true, Bool.not_eq_true', beq_iff_eq] at this
    obtain ⟨⟨⟨⟨⟨lC, lD⟩, lH⟩, lS⟩, _⟩, _⟩ := this
    simp only [upperS, List.map_cons, List.map_nil, suitOfG]
    by_cases hC : eqCI 'C' c = true
    · rw [lC.resolve_left (by simp [hC])]; simp [hC, suitOfName?]
    · simp only [Bool.not_eq_true] at hC
      by_cases hD : eqCI 'D' c = true
      · rw [lD.resolve_left (by simp [hD])]; simp [hC, hD, suitOfName?]
      · simp only [Bool.not_eq_true] at hD
        by_cases hH : eqCI 'H' c = true
        · rw [lH.resolve_left (by simp [hH])]; simp [hC, hD, hH, suitOfName?]
        · simp only [Bool.not_eq_true] at hH
          by_cases hS : eqCI 'S' c = true
          · rw [lS.resolve_left (by simp [hS])]; simp [hC, hD, hH, hS, suitOfName?]
          · simp [hC, hD, hH, hS] at hc
  · have h1 := mp_letters c (hg c (by simp))
    have h2 := mp_letters t (hg t (by simp))
    simp only [lettersOK, Bool.and_eq_true, Bool.or_eq_true, Bool.not_eq_true', beq_iff_eq] at h1 h2
    simp only [Bool.or_eq_false_iff] at hc
    obtain ⟨⟨⟨hC, hD⟩, hH⟩, hS⟩ := hc
    simp only [upperS, List.map_cons, List.map_nil, suitOfG, hC, hD, hH, hS, Bool.false_eq_true, if_false]
    rw [h1.1.2.resolve_left (by simp [hn]), h2.2.resolve_left (by simp [ht])]
    rfl

/-! ## `Bid.level_suit_to_bid` on a one-digit level -/
theorem mp_mth_lstb : P.method? classDepth n_Bid n_level_suit_to_bid = some (n_Bid, m_Bid_level_suit_to_bid) := rfl

theorem mp_lstb_all (f : Nat) (su : Suit) (l : Fin 10) :
    match levelSuitToCall? (l.val : Int) su with
    | some call => callF (mkRec P (f+12)) m_Bid_level_suit_to_bid [.cls n_Bid, .int (l.val : Int), .enum n_Suit su.value]
        = .ok (encCall call, .cls n_Bid)
    | none => True := by
  rcases l with ⟨l, hl⟩
  rcases l with _|_|_|_|_|_|_|_|_|_|l <;> first | (exfalso; omega) | skip
  all_goals cases su <;> with_unfolding_all (first | exact trivial | exact rfl)

theorem mp_lstb_call (f : Nat) (su : Suit) (l : Nat) (hl : l < 10) (call : Call) (h : levelSuitToCall? (l : Int) su = some call) :
    callF (mkRec P (f+12)) m_Bid_level_suit_to_bid [.cls n_Bid, .int (l : Int), .enum n_Suit su.value]
      = .ok (encCall call, .cls n_Bid) := by
  have := mp_lstb_all f su ⟨l, hl⟩
  simp only [h] at this
  exact this

end Bridge.Translated.MsgParsers
