import BridgeVerif.Translated.PlayLemmasE
import BridgeVerif.Translated.PlayLemmasD
/-! Translated playing phases = model: `play_card` (on an instance of `PlayingPhase` or of a subclass) -/
namespace Bridge.Translated
open Bridge Bridge.Py Bridge.Generated.PyCore

/-- `k` is `PlayingPhase` or a subclass that inherits the two private helpers `play_card` calls on `self` -/
def PPClass (k : Id) : Prop :=
  P.method? classDepth k n__record = some (n_PlayingPhase, m_PlayingPhase__record) ∧
  P.method? classDepth k n__set_next_leader = some (n_PlayingPhase, m_PlayingPhase__set_next_leader)

theorem ppclass_base : PPClass n_PlayingPhase := ⟨rfl, rfl⟩
theorem ppclass_withHands : PPClass n_PlayingPhaseWithHands := ⟨rfl, rfl⟩
theorem ppclass_observed : PPClass n_ObservedPlayingPhase := ⟨rfl, rfl⟩

theorem mem_reverse_dec (c : Card) (l : List Card) : decide (c ∈ l.reverse) = decide (c ∈ l) := by
  simp only [List.mem_reverse]

theorem add_used (card : Card) (used : List Card) :
    (if containsVal (used.reverse.map encCard) (encCard card) = true then used.reverse.map encCard
      else (used.reverse ++ [card]).map encCard) = (setAdd card used).reverse.map encCard := by
  rw [contains_encCard, mem_reverse_dec]
  by_cases hm : card ∈ used <;>
    simp only [hm, decide_true, decide_false, if_true, if_false, Bool.false_eq_true, setAdd, List.reverse_cons,
      List.map_append, List.map_cons, List.map_nil]
theorem map_snoc (l : List Card) (c : Card) : l.map encCard ++ [encCard c] = (l ++ [c]).map encCard := by
  simp only [List.map_append, List.map_cons, List.map_nil]

theorem cast_succ_rev (n : Nat) : (n : Int) + 1 = ((n + 1 : Nat) : Int) := by omega
theorem play_card_call (f : Nat) (k : Id) (hk : PPClass k) (ex : List (Id × Val)) (c : Contract) (s : PState)
    (card : Card) (hwf : s.trick.length = 3 → WF s) :
    callF (mkRec P (f+50)) m_PlayingPhase_play_card [ppObj k c s ex, encCard card]
      = .ok (.none, ppObj k c (playCard s card) ex) := by
  rw [callF_def]
  simp only [m_PlayingPhase_play_card, bindParams, Option.map, ppObj, baseFields]
  obtain ⟨trump, declarer, dummy, leader, active, trick, trickNum, history, used, takenNS, takenEW⟩ := s
  obtain ⟨hk1, hk2⟩ := hk
  simp only [WF] at hwf
  simp only at hwf ⊢
  by_cases hlen : trick.length = 3
  · have hwf := hwf hlen
    have e4 : ((trick.length + 1 : Nat) : Int) = 4 := by omega
    have hp : playCard ⟨trump, declarer, dummy, leader, active, trick, trickNum, history, used, takenNS, takenEW⟩ card
        = addTaken ⟨trump, declarer, dummy, leader.rot (highestIdx trump (trick ++ [card])).toNat,
            leader.rot (highestIdx trump (trick ++ [card])).toNat, [], trickNum + 1,
            ⟨leader, trick ++ [card]⟩ :: history, setAdd card used, takenNS, takenEW⟩
            (leader.rot (highestIdx trump (trick ++ [card])).toNat).side := by
      have : (trick ++ [card]).length = 4 := by simp only [List.length_append, List.length_cons, List.length_nil]; omega
      simp only [playCard, this, if_true]
    rw [hp]
    ppsimp [encCards, add_used, map_snoc, len_tuple, List.length_map, List.length_append,
        beq_int, Nat.zero_add, beq_iff_eq, e4, hk1, hk2]
    have h1 := record_self_call (f+27) k ex c
      ⟨trump, declarer, dummy, leader, active, trick ++ [card], trickNum, history, setAdd card used, takenNS, takenEW⟩ hwf
    simp only [ppObj, baseFields, encCards, List.cons_append, List.nil_append] at h1
    rw [h1]
    ppsimp [hk2]
    have h2 := set_next_leader_call (f+7) k ex c
      ⟨trump, declarer, dummy, leader, active, trick ++ [card], trickNum, ⟨leader, trick ++ [card]⟩ :: history,
        setAdd card used, takenNS, takenEW⟩
      (by simp only [List.length_append, List.length_cons, List.length_nil]; omega)
    simp only [ppObj, baseFields, encCards, List.cons_append, List.nil_append] at h2
    rw [h2]
    generalize leader.rot (highestIdx trump (trick ++ [card])).toNat = ldr
    cases hs : ldr.side
    · ppsimp [addTaken, getAttr_pair, hs, lookup_taken, update_taken, builtin_tuple_nil, List.map_nil, cast_succ_rev]
    · ppsimp [addTaken, getAttr_pair, hs, lookup_taken, update_taken, builtin_tuple_nil, List.map_nil, cast_succ_rev]
  · have e4 : ¬ ((trick.length + 1 : Nat) : Int) = 4 := by omega
    have hp : playCard ⟨trump, declarer, dummy, leader, active, trick, trickNum, history, used, takenNS, takenEW⟩ card
        = ⟨trump, declarer, dummy, leader, active.left, trick ++ [card], trickNum, history, setAdd card used, takenNS,
            takenEW⟩ := by
      have : ¬ (trick ++ [card]).length = 4 := by simp only [List.length_append, List.length_cons, List.length_nil]; omega
      simp only [playCard, this, if_false]
    rw [hp]
    by_cases hm : card ∈ used
    · ppsimp [encCards, contains_encCard, mem_reverse_dec, hm, len_tuple, List.length_map, List.length_append,
        beq_int, Nat.zero_add, beq_iff_eq, e4, getAttr_next, setAdd, List.map_append, List.map_cons, List.map_nil]
    · ppsimp [encCards, contains_encCard, mem_reverse_dec, hm, len_tuple, List.length_map, List.length_append,
        beq_int, Nat.zero_add, beq_iff_eq, e4, getAttr_next, setAdd, List.map_append, List.map_cons, List.map_nil,
        List.reverse_cons]

/-- the fourth card of a trick whose number is not the next one of the history: `PlayingHistory.record` raises -/
theorem play_card_call_bad (f : Nat) (k : Id) (hk : PPClass k) (ex : List (Id × Val)) (c : Contract) (s : PState)
    (card : Card) (hlen : s.trick.length = 3) (hwf : ¬ WF s) :
    callF (mkRec P (f+50)) m_PlayingPhase_play_card [ppObj k c s ex, encCard card] = .error (.exc K.ValueError) := by
  rw [callF_def]
  simp only [m_PlayingPhase_play_card, bindParams, Option.map, ppObj, baseFields]
  obtain ⟨trump, declarer, dummy, leader, active, trick, trickNum, history, used, takenNS, takenEW⟩ := s
  obtain ⟨hk1, hk2⟩ := hk
  simp only at hlen
  have e4 : ((trick.length + 1 : Nat) : Int) = 4 := by omega
  ppsimp [encCards, add_used, map_snoc, len_tuple, List.length_map, List.length_append,
      beq_int, Nat.zero_add, beq_iff_eq, e4, hk1, hk2]
  have h1 := record_self_call_bad (f+27) k ex c
    ⟨trump, declarer, dummy, leader, active, trick ++ [card], trickNum, history, setAdd card used, takenNS, takenEW⟩ hwf
  simp only [ppObj, baseFields, encCards, List.cons_append, List.nil_append] at h1
  rw [h1]
  ppsimp []

end Bridge.Translated
