import BridgeVerif.Translated.AuctionLemmasC
/-! Translated `BiddingPhase` = model: `take_bid`, the guards (has_done / assertion / illegal call) and the X, XX branches -/
namespace Bridge.Translated
open Bridge Bridge.Py Bridge.Generated.PyCore

/-- statements 1-3 when the auction is over: `raise Exception` -/
theorem tb_head_none (f : Nat) (s : AState) (c : Call) (h : s.active = none) (rest : List Stmt) :
    execF (mkRec P (f+30)) P (envOf s c) (tbHead ++ rest) = .error (.exc K.Exception) := by
  obtain ⟨dealer, vul, active, lastBidder, lastBid, calledX, calledXX, history, perSeat, declCheck, avail⟩ := s
  simp only at h; subst h
  simp only [tbHead, m_BiddingPhase_take_bid, List.take, List.cons_append, envOf]
  pysimp [has_done_meth]

/-- statements 1-3 when a player is to call: the illegal-call exit, or on to the rest -/
theorem tb_head_some (f : Nat) (s : AState) (c : Call) (p : Seat) (h : s.active = some p) (rest : List Stmt) :
    execF (mkRec P (f+30)) P (envOf s c) (tbHead ++ rest) =
      if s.avail c = false then .ok (envOf s c, .ret (encRes .illegal)) else execF (mkRec P (f+30)) P (envOf s c) rest := by
  obtain ⟨dealer, vul, active, lastBidder, lastBid, calledX, calledXX, history, perSeat, declCheck, avail⟩ := s
  simp only at h; subst h
  simp only [tbHead, m_BiddingPhase_take_bid, List.take, List.cons_append, List.nil_append, envOf]
  pysimp [has_done_meth]
  rcases Bool.eq_false_or_eq_true (avail c) with ha | ha <;>
  pysimp [encState, beq_encSeat_none, getAttr_idx, index_avail, beq_slot_zero, ha, encRes]

theorem tb_kind_dbl (f : Nat) (s : AState) :
    execStmtF (mkRec P (f+30)) P (envOf s .dbl) tbKind = .ok (envOf { s with calledX := true } .dbl, .next) := by
  simp only [tbKind, m_BiddingPhase_take_bid, List.getD_cons_succ, List.getD_cons_zero, envOf, encState]
  pysimp [beq_encCall_pass, beq_encCall_dbl, beq_encCall_rdbl]

theorem tb_kind_rdbl (f : Nat) (s : AState) :
    execStmtF (mkRec P (f+30)) P (envOf s .rdbl) tbKind = .ok (envOf { s with calledXX := true } .rdbl, .next) := by
  simp only [tbKind, m_BiddingPhase_take_bid, List.getD_cons_succ, List.getD_cons_zero, envOf, encState]
  pysimp [beq_encCall_pass, beq_encCall_dbl, beq_encCall_rdbl]

end Bridge.Translated
