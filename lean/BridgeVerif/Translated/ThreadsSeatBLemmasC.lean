import BridgeVerif.Translated.ThreadsSeatBLemmasB
/-! Translated `SeatThread._connect`: the seat table as a MiniPy dictionary, the `Player` properties, the reply texts -/
namespace Bridge.Translated.SeatB
open Bridge Bridge.Py Bridge.Generated.PyCore

set_option maxRecDepth 4000

/-! ## the seat table -/
def tableKvs (t : Table) : List (Val × Val) :=
  [(encSeat .N, encOpt .str (t .N)), (encSeat .E, encOpt .str (t .E)), (encSeat .S, encOpt .str (t .S)),
   (encSeat .W, encOpt .str (t .W))]

/-- the dictionary `{Player.N: …, Player.E: …, Player.S: …, Player.W: …}` (team name or `None`) of a `Table` -/
def encTable (t : Table) : Val := .dict (tableKvs t)

theorem sb_lookup_table (t : Table) (p : Seat) : lookupD (tableKvs t) (encSeat p) = some (encOpt .str (t p)) := by
  cases p <;> simp [lookupD, tableKvs, encSeat, Val.beq, Seat.value]

theorem sb_update_table (t : Table) (p : Seat) (name : Str) :
    updateD (tableKvs t) (encSeat p) (.str name) = tableKvs (t.set p name) := by
  cases p <;> simp [updateD, tableKvs, encSeat, Val.beq, Seat.value, Table.set, encOpt]

theorem sb_lookup_table_N (t : Table) : lookupD (tableKvs t) (.enum n_Player 1) = some (encOpt .str (t .N)) :=
  sb_lookup_table t .N
theorem sb_lookup_table_E (t : Table) : lookupD (tableKvs t) (.enum n_Player 2) = some (encOpt .str (t .E)) :=
  sb_lookup_table t .E

theorem sb_headD_tables (l : List Table) (t : Table) : (l.map encTable).headD (encTable t) = encTable (l.headD t) := by
  cases l <;> rfl
theorem sb_tail_tables (l : List Table) : (l.map encTable).tail = l.tail.map encTable := by
  cases l <;> rfl

theorem sb_index_table (r : Rec) (t : Table) (p : Seat) :
    indexF r P (encTable t) (encSeat p) = .ok (encOpt .str (t p)) := by
  simp only [encTable, pp_index_dict, sb_lookup_table]
theorem sb_index_table_N (r : Rec) (t : Table) : indexF r P (encTable t) (.enum n_Player 1) = .ok (encOpt .str (t .N)) :=
  sb_index_table r t .N
theorem sb_index_table_E (r : Rec) (t : Table) : indexF r P (encTable t) (.enum n_Player 2) = .ok (encOpt .str (t .E)) :=
  sb_index_table r t .E

theorem sb_w_set_table' (f : Nat) (ins : List (Val × Val)) (out : List Val) (t : Table) (tbs : List Val)
    (eof : Bool) (p : Seat) (name : Str) :
    callF (mkRec P (f+8)) m__World_w_set_table [encWorld ins out (encTable t) tbs eof, encSeat p, .str name]
      = .ok (.none, encWorld ins (out ++ [.tuple [vstr "table", encSeat p, .str name]]) (encTable (t.set p name)) tbs eof) := by
  rw [encTable, sb_w_set_table, sb_update_table]; rfl

/-! ## `Player` -/
theorem sb_str_beq_none (s : Str) : (Val.str s).beq .none = false := by simp only [Val.beq]
theorem sb_str_beq (a b : Str) : (Val.str a).beq (.str b) = decide (a = b) := by
  simp only [Val.beq]; rw [Bool.eq_iff_iff]; simp

theorem sb_mth_formal : P.method? classDepth n_Player n_formal_name = some (n_Player, m_Player_formal_name) := rfl
theorem sb_seat_name (r : Rec) (p : Seat) : getAttrF r P (encSeat p) K.name = .ok (.str p.name) := by
  cases p <;> rfl
theorem sb_formal (f : Nat) (p : Seat) :
    getAttrF (mkRec P (f+12)) P (encSeat p) n_formal_name = .ok (.str p.formal) := by
  have e : getAttrF (mkRec P (f+12)) P (encSeat p) n_formal_name
      = (callF (mkRec P (f+11)) m_Player_formal_name [encSeat p] >>= fun x => .ok x.1) := rfl
  rw [e, callF_def]
  simp only [m_Player_formal_name, bindParams, Option.map]
  cases p <;> ppsimp [sb_seat_name, sb_str_beq, Seat.name, Seat.formal, String.reduceToList]

theorem seatOfFormal_eq {s : Str} {a : Seat} (h : seatOfFormal? s = some a) : s = a.formal := by
  unfold seatOfFormal? at h
  split at h
  · cases h; assumption
  · split at h
    · cases h; assumption
    · split at h
      · cases h; assumption
      · split at h
        · cases h; assumption
        · cases h

theorem sb_mth_convert :
    P.method? classDepth n_Player n_convert_formal_name = some (n_Player, m_Player_convert_formal_name) := rfl

theorem sb_convert (f : Nat) (s : Str) (a : Seat) (h : seatOfFormal? s = some a) :
    callF (mkRec P (f+12)) m_Player_convert_formal_name [.cls n_Player, .str s] = .ok (encSeat a, .cls n_Player) := by
  rw [seatOfFormal_eq h, callF_def]
  simp only [m_Player_convert_formal_name, bindParams, Option.map]
  cases a <;> ppsimp [sb_str_beq, Seat.formal, String.reduceToList] <;> rfl

/-! ## texts -/
theorem sb_natStr_aux (g n : Nat) (acc : List Char) : natDigitsAux g n acc = _root_.Bridge.natDigits g n acc := by
  induction g generalizing n acc with
  | zero => rfl
  | succ g ih => simp only [natDigitsAux, _root_.Bridge.natDigits, ih]

/-- `str(n)` in the interpreter is the model's `natStr` -/
theorem sb_intStr_nat (n : Nat) : intStr (n : Int) = natStr n := by
  rw [pw_intStr_eq]
  show natRepr n = natStr n
  rw [natRepr, natStr, sb_natStr_aux]

theorem sb_intStr_18 : intStr 18 = natStr PROTOCOL_VERSION := by
  have h := sb_intStr_nat 18
  have e : ((18 : Nat) : Int) = 18 := by omega
  rw [e] at h
  exact h

theorem sb_flat2 (a b : Str) : [a, b].flatten = a ++ b := by simp
theorem sb_flat3 (a b c : Str) : [a, b, c].flatten = a ++ b ++ c := by simp
theorem sb_flat5 (a b c d e : Str) : [a, b, c, d, e].flatten = a ++ b ++ c ++ d ++ e := by simp

/-- `str(None)` for a free seat, the team name otherwise (what the f-string of the `Teams` message prints) -/
def optText : Option Str → Str
  | none => "None".toList
  | some s => s

theorem sb_strOf_str (r : Rec) (s : Str) : strOfF r P (.str s) = .ok s := rfl
theorem sb_strOf_int (r : Rec) (n : Int) : strOfF r P (.int n) = .ok (intStr n) := rfl
theorem sb_strOf_opt (r : Rec) (o : Option Str) : strOfF r P (encOpt .str o) = .ok (optText o) := by
  cases o <;> rfl

/-! the model's texts, unfolded (by `rfl`: generating the equation lemmas of `replyText` would evaluate the string literals) -/
theorem sb_reply_seated (r : Request) (t : Table) :
    replyText r t .seated = r.seat.formal ++ " ".toList ++ r.team ++ " seated".toList := rfl
theorem sb_reply_bad (r : Request) (t : Table) : replyText r t .badVersion =
    "ERROR: Protocol version is not ".toList ++ natStr PROTOCOL_VERSION ++ " but ".toList ++
      natStr r.version ++ ".".toList := rfl
theorem sb_reply_taken (r : Request) (t : Table) : replyText r t .seatTaken =
    "ERROR: Player ".toList ++ r.seat.formal ++ " is already seated.".toList := rfl
theorem sb_reply_mismatch (r : Request) (t : Table) : replyText r t .teamMismatch =
    "ERROR: Team name \"".toList ++ r.team ++ "\" is not same as partner's team name \"".toList ++
      ((t r.seat.partner).getD []) ++ "\".".toList := rfl
theorem sb_teamsMsg (ns ew : List Char) :
    teamsMsg ns ew = "Teams : N/S : \"".toList ++ ns ++ "\" E/W : \"".toList ++ ew ++ ['"'] := rfl

end Bridge.Translated.SeatB
