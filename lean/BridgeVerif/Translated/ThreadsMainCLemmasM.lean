import BridgeVerif.Translated.ThreadsMainCLemmasL
/-! Translated `MainThread.run`: discharging the parse hypotheses of concrete sessions by kernel evaluation; the data of
the examples -/
set_option maxRecDepth 4000
namespace Bridge.Translated.MainC
open Bridge Bridge.Py Bridge.Generated.PyCore Bridge.Translated.MainA Bridge.Translated.MainB

/-- the auction only takes messages from the streams -/
theorem mainBiddingR_mem : ∀ (n : Nat) (s : AState) (i : MainIn) (acts : MainActs) (s' : AState) (i' : MainIn),
    mainBiddingR n s i = some (acts, s', i') → ∀ p, ∀ m ∈ i' p, m ∈ i p := by
  intro n
  induction n with
  | zero => intro s i acts s' i' h; simp [mainBiddingR] at h
  | succ n ih =>
    intro s i acts s' i' h p m hm
    cases ha : s.active with
    | none =>
      simp only [mainBiddingR, ha] at h
      cases hc : s.contract with
      | none => simp [hc] at h
      | some c =>
        simp only [hc, Option.some.injEq, Prod.mk.injEq] at h
        obtain ⟨_, _, rfl⟩ := h
        exact hm
    | some a =>
      obtain ⟨msg, r, call, s1, res, rest, hi, _, _, _, hr, _⟩ := mainBiddingR_inv n s i acts s' i' a ha h
      have := ih s1 _ rest s' i' hr p m hm
      by_cases hp : p = a
      · subst hp
        simp only [if_true] at this
        rw [hi]; exact List.mem_cons_of_mem _ this
      · simpa only [hp, if_false] using this

theorem allParse_of_mem {i i1 : MainIn} (h : AllParse i) (hsub : ∀ p, ∀ m ∈ i1 p, m ∈ i p) : AllParse i1 :=
  fun p m hm a card hp => h p m (hsub p m hm) a card hp

/-- the auction of board `b` on the streams `i` ends passed out (or does not end) -/
def passedOutCheck (b : BoardSetting) (i : MainIn) : Bool :=
  match mainBiddingR 321 (AState.init b.dealer b.vul) i with
  | some (_, s, _) => (match s.contract with | some c => c.isPassedOut | none => true)
  | none => true

/-- `BoardParses` for a board that is passed out: one kernel evaluation of the translated `parse_bid` /
`remove_alert_word` at fuel `F` on the messages of the auction -/
theorem boardParses_of_passed_out (F : Nat) (b : BoardSetting) (i : MainIn)
    (h1 : bidMsgsCheck F 321 (AState.init b.dealer b.vul) i = true) (h2 : passedOutCheck b i = true) :
    BoardParses F b i := by
  refine ⟨BidMsgsOK_of_check F 321 _ _ h1, ?_⟩
  intro bid s i1 c decl w0 hb hc hpo
  simp only [passedOutCheck, hb, hc, hpo] at h2
  cases h2

/-- `BoardParses` for any board: the auction's messages checked as above, and every queued message parses alike on
both sides as a card (`chkAll`) -/
theorem boardParses_of_checks (F : Nat) (b : BoardSetting) (i : MainIn)
    (h1 : bidMsgsCheck F 321 (AState.init b.dealer b.vul) i = true) (h2 : chkAll i = true) :
    BoardParses F b i := by
  refine ⟨BidMsgsOK_of_check F 321 _ _ h1, ?_⟩
  intro bid s i1 c decl w0 hb _ _ _ _
  exact playParses_of_all decl _ 13 1 w0 i1
    (allParse_of_mem (allParse_of_chk h2) (mainBiddingR_mem 321 _ i bid s i1 hb))

/-! ## the data of the examples -/

def exSc : Scenario := { nsName := "NS".toList, ewName := "EW".toList, boards := [] }

/-- a passed-out board: the partial deal of ThreadsMainA.lean, East deals, four passes (South's with an alert word) -/
def exPassIn : MainIn := fun p => match p with
  | .N => ["North passes".toList, "kept".toList]
  | .E => ["East passes".toList]
  | .S => ["South passes  Alert. ".toList]
  | .W => ["West passes".toList]

/-- a played board: the deal of ThreadsMainBLemmasE.lean, South deals and opens 1NT, three passes, then the thirteen tricks
of that example -/
def exPlayBoard : BoardSetting := { boardId := "2".toList, dealer := .S, vul := .none, deal := exDeal }
def exPlayIn : MainIn := fun p => match p with
  | .N => "North passes".toList :: MainB.exIn .N
  | .E => "East passes".toList :: MainB.exIn .E
  | .S => "South bids 1NT".toList :: MainB.exIn .S
  | .W => "West passes".toList :: MainB.exIn .W

theorem ex_ok_board : ∀ p, ∀ c ∈ exBoard.deal p, 2 ≤ c.rank ∧ c.rank ≤ 14 := by
  intro p c hc; cases p <;> simp [exBoard] at hc <;> (try rcases hc with rfl | rfl | rfl) <;> (try subst hc) <;> decide
theorem ex_ok_playBoard : ∀ p, ∀ c ∈ exPlayBoard.deal p, 2 ≤ c.rank ∧ c.rank ≤ 14 := by
  intro p c hc
  have : ∀ s : Suit, ∀ c ∈ suitHand s, 2 ≤ c.rank ∧ c.rank ≤ 14 := by
    intro s c hc
    simp only [suitHand, List.mem_map] at hc
    obtain ⟨r, hr, rfl⟩ := hc
    simp only [List.mem_cons, List.mem_nil_iff, or_false] at hr
    rcases hr with h | h | h | h | h | h | h | h | h | h | h | h | h <;> subst h <;> simp
  cases p <;> exact this _ c hc

theorem ex_pass_parses : BoardParses 40 exBoard exPassIn :=
  boardParses_of_passed_out 40 exBoard exPassIn (by decide +kernel) (by decide +kernel)
theorem ex_play_parses : BoardParses 40 exPlayBoard exPlayIn :=
  boardParses_of_checks 40 exPlayBoard exPlayIn (by decide +kernel) (by decide +kernel)

theorem ex_pass_model : (mainBoardR exSc 1 (decide (1 = 2)) exBoard exPassIn).isSome = true := by decide +kernel
theorem ex_play_model : (mainBoardR exSc 1 (decide (1 = 1)) exPlayBoard exPlayIn).isSome = true := by decide +kernel

end Bridge.Translated.MainC
