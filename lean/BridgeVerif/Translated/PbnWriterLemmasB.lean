import BridgeVerif.Translated.PbnWriterLemmasA
/-! Translated PBN writer = model: `write_tag_pair`, `write_header`, the constructor; `str(int)` of the interpreter is the
model's `intRepr` (for every integer); bounds on the lengths of the texts `write_board_result` writes -/
namespace Bridge.Translated
open Bridge Bridge.Py Bridge.Generated.PyCore

/-! ## `write_tag_pair` -/
theorem pw_mth_tag_pair :
    P.method? classDepth n_PbnWriter n_write_tag_pair = some (n_PbnWriter, m_PbnWriter_write_tag_pair) := rfl

theorem pw_isupper (c : Char) :
    ([c].any (fun c => decide ('A' ≤ c ∧ c ≤ 'Z')) && ![c].any (fun c => decide ('a' ≤ c ∧ c ≤ 'z'))) = isUpper c := by
  simp only [List.any_cons, List.any_nil, Bool.or_false, isUpper]
  by_cases h : 'A' ≤ c ∧ c ≤ 'Z'
  · have : ¬ ('a' ≤ c ∧ c ≤ 'z') := fun h' => absurd (Char.le_trans h'.1 h.2) (by decide)
    simp only [h, this, decide_true, decide_false, Bool.not_false, Bool.and_true, and_self]
  · simp only [h, decide_false, Bool.false_and]

theorem pw_index0 (r : Rec) (c : Char) (rest : Str) : indexF r P (.str (c :: rest)) (.int 0) = .ok (.str [c]) := rfl

theorem pw_tagLine_eq (tag content : Str) :
    [['['], tag, [' ', '"'], content, ['"', ']']].flatten = tagLine tag content := by
  simp only [List.flatten_cons, List.flatten_nil, List.append_nil, tagLine, List.cons_append, List.nil_append,
    List.append_assoc]

theorem pw_tagLine_len (tag content : Str) : (tagLine tag content).length = tag.length + content.length + 5 := by
  simp only [tagLine, List.length_cons, List.length_append, List.length_nil]; omega

theorem pw_writeLine_tagLine (tag content : Str) : writeLine? (tagLine tag content) = some (writeTagPair tag content) := by
  cases h : writeLine? (tagLine tag content) with
  | some cs => simp only [writeTagPair, h, Option.getD_some]
  | none =>
    exfalso
    have : (tagLine tag content).getLast? = some ']' := by
      simp only [tagLine]
      rw [show '[' :: tag ++ ' ' :: '"' :: content ++ ['"', ']'] = ('[' :: tag ++ ' ' :: '"' :: content ++ ['"']) ++ [']'] by
        simp only [List.cons_append, List.append_assoc, List.nil_append]]
      exact List.getLast?_concat ..
    simp only [writeLine?, this] at h
    cases h

/-- `write_tag_pair(tag, content)` for a tag that starts with an upper-case letter -/
theorem pw_tag_pair_call (k : Nat) (chunks : List Str) (c : Char) (rest content : Str) (hu : isUpper c = true)
    (hlen : rest.length + content.length + 6 ≤ 254 * k + 254) :
    callF (mkRec P (k + 25)) m_PbnWriter_write_tag_pair
        [.obj n_PbnWriter [(n_writer, encFile chunks)], .str (c :: rest), .str content]
      = .ok (.none, .obj n_PbnWriter [(n_writer, encFile (chunks ++ writeTagPair (c :: rest) content))]) := by
  rw [callF_def]
  have hw := pw_write_line_call k chunks (tagLine (c :: rest) content) _ (pw_writeLine_tagLine ..)
    (by rw [pw_tagLine_len, List.length_cons]; omega)
  simp only [m_PbnWriter_write_tag_pair, bindParams, Option.map]
  ppsimp [pw_index0, builtinF, pw_isupper, hu, truthy, strOfF, pw_tagLine_eq, pw_mth_write_line, hw]

theorem pw_tag_pair_call_lower (f : Nat) (chunks : List Str) (c : Char) (rest content : Str) (hu : isUpper c = false) :
    callF (mkRec P (f + 10)) m_PbnWriter_write_tag_pair
        [.obj n_PbnWriter [(n_writer, encFile chunks)], .str (c :: rest), .str content]
      = .error (.exc K.AssertionError) := by
  rw [callF_def]
  simp only [m_PbnWriter_write_tag_pair, bindParams, Option.map]
  ppsimp [pw_index0, builtinF, pw_isupper, hu, truthy]

theorem pw_tag_pair_call_empty (f : Nat) (chunks : List Str) (content : Str) :
    callF (mkRec P (f + 10)) m_PbnWriter_write_tag_pair
        [.obj n_PbnWriter [(n_writer, encFile chunks)], .str [], .str content]
      = .error (.exc K.IndexError) := by
  rw [callF_def]
  simp only [m_PbnWriter_write_tag_pair, bindParams, Option.map]
  ppsimp [pw_index_empty]

/-! ## `write_header`, `PbnWriter(file)` -/
theorem pw_mth_header : P.method? classDepth n_PbnWriter n_write_header = some (n_PbnWriter, m_PbnWriter_write_header) := rfl
theorem pw_version : lookup P.globals n__VERSION = some (.str ['2', '.', '1']) := rfl

theorem pw_header_call (f : Nat) (chunks : List Str) :
    callF (mkRec P (f + 30)) m_PbnWriter_write_header [.obj n_PbnWriter [(n_writer, encFile chunks)]]
      = .ok (.none, .obj n_PbnWriter [(n_writer, encFile (chunks ++ writeHeader))]) := by
  rw [callF_def]
  have h1 := fun ch => pw_write_line_call (f + 5) ch "% PBN 2.1".toList ["% PBN 2.1\n".toList] rfl
    (by simp only [String.reduceToList, List.length_cons, List.length_nil]; omega)
  have h2 := fun ch => pw_write_line_call (f + 5) ch "% EXPORT".toList ["% EXPORT\n".toList] rfl
    (by simp only [String.reduceToList, List.length_cons, List.length_nil]; omega)
  simp only [String.reduceToList, Nat.add_assoc, Nat.reduceAdd] at h1 h2
  simp only [m_PbnWriter_write_header, bindParams, Option.map]
  ppsimp [pw_version, strOfF, pw_mth_write_line, h1, h2, List.flatten_cons, List.flatten_nil, List.append_nil,
    List.append_assoc, writeHeader, String.reduceToList]

theorem pw_mth_init : P.method? classDepth n_PbnWriter K.init = some (n_PbnWriter, m_PbnWriter___init__) := rfl
theorem pw_init_call (f : Nat) (v : Val) :
    callF (mkRec P (f + 8)) m_PbnWriter___init__ [.obj n_PbnWriter [], v] = .ok (.none, .obj n_PbnWriter [(n_writer, v)]) := by
  rw [callF_def]
  simp only [m_PbnWriter___init__, bindParams, Option.map]
  ppsimp []
theorem pw_construct (f : Nat) (chunks : List Str) :
    constructF (mkRec P (f + 9)) P n_PbnWriter [encFile chunks] = .ok (encPbnWriter chunks) := by
  have e : constructF (mkRec P (f + 9)) P n_PbnWriter [encFile chunks]
      = (callF (mkRec P (f + 8)) m_PbnWriter___init__ [.obj n_PbnWriter [], encFile chunks] >>= fun x => pure x.2) := rfl
  rw [e, pw_init_call]; rfl

/-! ## `str(n)` -/
theorem pw_digit0 : Char.ofNat ('0'.toNat + 0 % 10) = '0' := by decide

/-- the interpreter's digits (most significant first, `f` digits at most) are the model's -/
theorem pw_natDigits_eq (f : Nat) : ∀ (n g : Nat) (acc : List Char), n < 10 ^ f → n < g →
    _root_.Bridge.natDigits g n acc = Py.natDigits f n ++ acc := by
  induction f with
  | zero =>
    intro n g acc h hg
    have hn : n = 0 := by simp only [Nat.pow_zero] at h; omega
    subst hn
    cases g with
    | zero => omega
    | succ g => simp only [_root_.Bridge.natDigits, Py.natDigits, Nat.zero_lt_succ, if_true]; rfl
  | succ f ih =>
    intro n g acc h hg
    cases g with
    | zero => omega
    | succ g =>
      simp only [_root_.Bridge.natDigits, Py.natDigits]
      have h48 : '0'.toNat = 48 := by decide
      by_cases h10 : n < 10
      · simp only [h10, if_true, h48, Nat.mod_eq_of_lt h10, List.cons_append, List.nil_append]
      · simp only [h10, if_false]
        rw [ih (n / 10) g _ (by rw [Nat.pow_succ] at h; omega) (by omega), h48]
        simp only [List.append_assoc, List.cons_append, List.nil_append]

theorem pw_lt_ten_pow_succ (n : Nat) : n < 10 ^ (n + 1) :=
  Nat.lt_of_lt_of_le (Nat.lt_pow_self (by decide : 1 < 10)) (Nat.pow_le_pow_right (by decide) (Nat.le_succ n))

/-- the model's digits are the interpreter's, at any number `f` of digits that holds `n` -/
theorem pw_natRepr_eq_of_lt (f n : Nat) (h : n < 10 ^ f) : natRepr n = Py.natDigits f n := by
  rw [natRepr, pw_natDigits_eq f n (n + 1) [] h (by omega), List.append_nil]

theorem pw_natRepr_eq (n : Nat) : natRepr n = Py.natDigits (n + 1) n :=
  pw_natRepr_eq_of_lt (n + 1) n (pw_lt_ten_pow_succ n)

/-- `str(n)` in the interpreter is the model's `intRepr`, for every integer -/
theorem pw_intStr_eq (n : Int) : intStr n = intRepr n := by
  cases n with
  | ofNat m =>
    have : ¬ (Int.ofNat m < 0) := by simp
    have e : (Int.ofNat m).natAbs = m := rfl
    simp only [intStr, this, if_false, intRepr, e]
    rw [pw_natRepr_eq m]
  | negSucc m =>
    have : Int.negSucc m < 0 := Int.negSucc_lt_zero m
    have e : (Int.negSucc m).natAbs = m + 1 := rfl
    simp only [intStr, this, if_true, intRepr, e]
    rw [pw_natRepr_eq (m + 1)]

theorem pw_pyDigits_len (f n : Nat) : (Py.natDigits f n).length ≤ f + 1 := by
  induction f generalizing n with
  | zero => simp [Py.natDigits]
  | succ f ih =>
    simp only [Py.natDigits]
    split
    · simp
    · have := ih (n / 10); simp only [List.length_append, List.length_singleton]; omega

/-- a number below `10 ^ f` prints in `f + 2` characters at most (the sign, and `0` when `f = 0`) -/
theorem pw_intRepr_len (f : Nat) (n : Int) (h : n.natAbs < 10 ^ f) : (intRepr n).length ≤ f + 2 := by
  cases n with
  | ofNat m =>
    have e : (Int.ofNat m).natAbs = m := rfl
    rw [e] at h
    have := pw_pyDigits_len f m
    simp only [intRepr, pw_natRepr_eq_of_lt f m h]
    omega
  | negSucc m =>
    have e : (Int.negSucc m).natAbs = m + 1 := rfl
    rw [e] at h
    have := pw_pyDigits_len f (m + 1)
    simp only [intRepr, pw_natRepr_eq_of_lt f (m + 1) h, List.length_cons]
    omega

/-! ## lengths of the texts -/
theorem pw_natDigits_len (g : Nat) : ∀ (n : Nat) (acc : List Char),
    (_root_.Bridge.natDigits g n acc).length ≤ g + acc.length := by
  induction g with
  | zero => intro n acc; simp [_root_.Bridge.natDigits]
  | succ g ih =>
    intro n acc
    simp only [_root_.Bridge.natDigits]
    split
    · simp only [List.length_cons]; omega
    · have := ih (n / 10) (Char.ofNat ('0'.toNat + n % 10) :: acc); simp only [List.length_cons] at this; omega

theorem pw_natRepr_len (n : Nat) : (natRepr n).length ≤ n + 1 := by
  have := pw_natDigits_len (n + 1) n []; simpa [natRepr] using this

/-- a real date (`datetime.date`: year ≤ 9999) prints short -/
theorem pw_dateStr_len (y m d : Nat) (hy : y ≤ 9999) (hm : m ≤ 12) (hd : d ≤ 31) : (dateStr y m d).length ≤ 199000 := by
  have h1 := pw_natRepr_len y
  have h2 := pw_natRepr_len m
  have h3 := pw_natRepr_len d
  simp only [dateStr, pad2, List.length_append, List.length_singleton]
  split <;> split <;> (try simp only [List.length_cons]) <;> omega

theorem pw_seat_name_len (p : Seat) : p.name.length ≤ 199000 := by cases p <;> decide
theorem pw_vulPbn_len (v : Vul) : (vulPbn v).length ≤ 199000 := by cases v <;> decide
theorem pw_scoring_len (s : Scoring) : s.value.length ≤ 199000 := by cases s <;> decide
theorem pw_seatOpt_len (o : Option Seat) : (seatOptStr o).length ≤ 199000 := by
  cases o with
  | none => decide
  | some p => exact pw_seat_name_len p
theorem pw_callStr_len_all : ∀ c ∈ Call.all, (callStr c).length ≤ 10 := by decide
theorem pw_contractStr_len (c : Contract) : (contractStr c).length ≤ 199000 := by
  obtain ⟨fb, x, xx, v, d⟩ := c
  simp only [contractStr]
  cases fb with
  | none => show ("Passed_out".toList).length ≤ 199000; decide
  | some b =>
    show (callStr (.bid b) ++ if xx = true then ['X', 'X'] else if x = true then ['X'] else []).length ≤ 199000
    have := pw_callStr_len_all (.bid b) (call_mem_all _)
    simp only [List.length_append]
    split
    · simp only [List.length_cons, List.length_nil]; omega
    · split <;> simp only [List.length_cons, List.length_nil] <;> omega

theorem pw_handToPbn_len (hand : List Card) (s : Str) (h : handToPbn? hand = some s) : s.length ≤ 55 := by
  simp only [handToPbn?] at h
  split at h
  · cases h; decide
  · split at h
    · cases h
    · rename_i h13
      simp only [ne_eq, Decidable.not_not] at h13
      simp only [Option.some.injEq] at h
      subst h
      have hl : ∀ su : Suit, (((sortDesc hand).filter fun c => decide (c.suit = su)).map
          fun c => (rankChar? c.rank).getD '?').length ≤ 13 := by
        intro su
        rw [List.length_map, ← h13, ← (sortDesc_perm hand).length_eq]
        exact List.length_filter_le ..
      have hS := hl .S; have hH := hl .H; have hD := hl .D; have hC := hl .C
      simp only [pbnSuits, List.map_cons, List.map_nil, List.intercalate, List.intersperse, List.flatten_cons,
        List.flatten_nil, List.length_append, List.length_cons, List.length_nil] at hS hH hD hC ⊢
      omega

theorem pw_toPbn_len (h : Hands) (first : Seat) (t : Str) (ht : toPbn? h first = some t) : t.length ≤ 199000 := by
  simp only [toPbn?, seatsFrom, List.mapM_cons, List.mapM_nil] at ht
  cases e0 : handToPbn? (h first) with
  | none => simp [e0] at ht
  | some a =>
    cases e1 : handToPbn? (h first.left) with
    | none => simp [e0, e1] at ht
    | some b =>
      cases e2 : handToPbn? (h first.left.left) with
      | none => simp [e0, e1, e2] at ht
      | some c =>
        cases e3 : handToPbn? (h first.left.left.left) with
        | none => simp [e0, e1, e2, e3] at ht
        | some d =>
          simp [e0, e1, e2, e3] at ht
          subst ht
          have := pw_handToPbn_len _ _ e0; have := pw_handToPbn_len _ _ e1
          have := pw_handToPbn_len _ _ e2; have := pw_handToPbn_len _ _ e3
          have : first.name.length = 1 := by cases first <;> rfl
          simp only [List.length_append, List.length_cons]
          omega

end Bridge.Translated
