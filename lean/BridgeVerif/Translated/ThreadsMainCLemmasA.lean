import BridgeVerif.Translated.ThreadsMainA
import BridgeVerif.Translated.ThreadsMainB
import BridgeVerif.Translated.JsonWriterLemmasA
/-! Translated `MainThread.run`: (0) `deal` on the deal given as a dictionary; the encodings of a board setting and of the
record handed to the log writer -/
set_option maxRecDepth 4000
set_option linter.unusedSimpArgs false
namespace Bridge.Translated.MainC
open Bridge Bridge.Py Bridge.Generated.PyCore Bridge.Translated.MainA Bridge.Translated.MainB

/-- `deal` on any world, the cards given as the dictionary seat ↦ cards -/
theorem mc_deal_call (f : Nat) (k : Nat) (b : BoardSetting)
    (hok : ∀ p, ∀ c ∈ b.deal p, 2 ≤ c.rank ∧ c.rank ≤ 14)
    (ins : List (Val × Val)) (out : List Val) (table : Val) (tables : List Val) (eof : Bool) (bs : Val) :
    callF (mkRec P (f+60)) m_MainThread_deal
        [encMainThread (encWorld ins out table tables eof) bs, .int k, encSeat b.dealer, encVul b.vul,
          .dict (handsKvs b.deal), .none]
      = .ok (.none, encMainThread (encWorld ins (out ++ dealOps k b)
                (advTable (advTable table tables).1 (advTable table tables).2).1
                (advTable (advTable table tables).1 (advTable table tables).2).2 eof) bs) := by
  rw [callF_def]
  simp only [m_MainThread_deal, bindParams, Option.map, encMainThread]
  have hput := fun g o q k m => mt_w_put_call g ins o table tables eof q k m
  have hsync := fun g i o t ts pe ev => mt_sync_event_call g i o t ts eof bs pe ev
  have hhs := fun g p => nh_hand_to_str_call g (b.deal p) (hok p)
  simp only [encWorld, encMainThread] at hput hsync ⊢
  ppsimp [mt_iter_player, forF, hput, hsync, mt_mth_w_put, mt_mth_sync_event, mt_getAttr_formal, mt_mth_convert_vul,
    mt_convert_vul_call, nh_mth_hand_to_str, hhs, lookup_hands, encCards,
    mt_strOf_str, mt_strOf_int, mt_header_eq, mt_cards_eq]
  simp only [dealOps, putOp, syncOp, List.append_assoc, List.cons_append, List.nil_append]
  rfl

end Bridge.Translated.MainC
