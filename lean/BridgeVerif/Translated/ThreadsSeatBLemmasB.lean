import BridgeVerif.Translated.ThreadsSeatBLemmasA
/-! Translated `SeatThread`: the small methods (`_handle_error`, `_sync_event`, the two queue methods) and
`_check_message` on a symbolic thread object -/
namespace Bridge.Translated.SeatB
open Bridge Bridge.Py Bridge.Generated.PyCore

set_option maxRecDepth 4000

theorem sb_mth_handle_error :
    P.method? classDepth n_SeatThread n__handle_error = some (n_SeatThread, m_SeatThread__handle_error) := rfl
theorem sb_mth_sync_event :
    P.method? classDepth n_SeatThread n__sync_event = some (n_SeatThread, m_SeatThread__sync_event) := rfl
theorem sb_mth_check_message :
    P.method? classDepth n_SeatThread n__check_message = some (n_SeatThread, m_SeatThread__check_message) := rfl
theorem sb_mth_send_q :
    P.method? classDepth n_SeatThread n_send_message_to_queue = some (n_SeatThread, m_SeatThread_send_message_to_queue) := rfl
theorem sb_mth_recv_q :
    P.method? classDepth n_SeatThread n_receive_message_from_queue
      = some (n_SeatThread, m_SeatThread_receive_message_from_queue) := rfl

theorem sb_handle_error (f : Nat) (ins : List (Val × Val)) (out : List Val) (tb : Val) (tbs : List Val) (eof : Bool)
    (rest : List (Id × Val)) (m lg : Val) :
    callF (mkRec P (f+10)) m_SeatThread__handle_error
        [.obj n_SeatThread ((n__w, encWorld ins out tb tbs eof) :: rest), m, lg]
      = .ok (.none, .obj n_SeatThread ((n__w, encWorld ins (out ++ [.tuple [vstr "send", m], .tuple [vstr "close", .none]])
          tb tbs eof) :: rest)) := by
  rw [callF_def]
  simp only [m_SeatThread__handle_error, bindParams, Option.map]
  have h1 := fun out m => sb_w_send (f+2) ins out tb tbs eof m
  have h2 := fun out k a => sb_w_op (f+2) ins out tb tbs eof k a
  simp only [encWorld] at h1 h2 ⊢
  ppsimp [sb_mth_w_send, sb_mth_w_op, h1, h2, List.append_assoc]
  rfl


theorem sb_sync_event (f : Nat) (ins : List (Val × Val)) (out : List Val) (tb : Val) (tbs : List Val) (eof : Bool)
    (rest : List (Id × Val)) :
    callF (mkRec P (f+14)) m_SeatThread__sync_event [.obj n_SeatThread ((n__w, encWorld ins out tb tbs eof) :: rest)]
      = .ok (.none, .obj n_SeatThread ((n__w, encWorld ins (out ++ [.tuple [vstr "sync"]]) (tbs.headD tb) tbs.tail eof)
          :: rest)) := by
  rw [callF_def]
  simp only [m_SeatThread__sync_event, bindParams, Option.map]
  have h1 := fun out => sb_w_sync (f+2) ins out tb tbs eof
  simp only [encWorld] at h1 ⊢
  ppsimp [sb_mth_w_sync, h1]

theorem sb_send_q (f : Nat) (ins : List (Val × Val)) (out : List Val) (tb : Val) (tbs : List Val) (eof : Bool)
    (p : Seat) (extra : List (Id × Val)) (m : Val) :
    callF (mkRec P (f+10)) m_SeatThread_send_message_to_queue
        [encSeatThread p (encWorld ins out tb tbs eof) extra, m]
      = .ok (.none, encSeatThread p (encWorld ins (out ++ [.tuple [vstr "put", vstr "t2m", encSeat p, m]]) tb tbs eof)
          extra) := by
  rw [callF_def]
  simp only [m_SeatThread_send_message_to_queue, bindParams, Option.map, encSeatThread]
  have h1 := fun out q k m => sb_w_put (f+2) ins out tb tbs eof q k m
  simp only [encWorld] at h1 ⊢
  ppsimp [sb_mth_w_put, h1]
  rfl

theorem sb_recv_q (f : Nat) (p : Seat) (q c : List Str) (m : Str) (out : List Val) (tb : Val) (tbs : List Val)
    (extra : List (Id × Val)) :
    callF (mkRec P (f+12)) m_SeatThread_receive_message_from_queue
        [encSeatThread p (encSeatWorld p (m :: q) c out tb tbs) extra]
      = .ok (.str m, encSeatThread p (encSeatWorld p q c (out ++ [.tuple [vstr "get", vstr "m2t", encSeat p]]) tb tbs)
          extra) := by
  rw [callF_def]
  simp only [m_SeatThread_receive_message_from_queue, bindParams, Option.map, encSeatThread]
  have h1 := sb_w_get (f+2) p q c m out tb tbs
  simp only [encSeatWorld, encWorld] at h1 ⊢
  ppsimp [sb_mth_w_get, h1]


/-! ## `_check_message` -/

/-- the pattern `_check_message` builds: `expected.replace(' ', '\\s+')`, by the interpreter's `.replace` builtin -/
def checkPattern (expected : Str) : Str := replaceAll [' '] ['\\', 's', '+'] (expected.length + 1) expected

/-- the test `_check_message` performs succeeds: `re.fullmatch(pattern, msg, re.IGNORECASE)` is a match object -/
def passesCheck (expected msg : Str) : Prop := ∃ m, Re.pyFullmatch true (checkPattern expected) msg = some (some m)
/-- the test fails: `re.fullmatch` returns `None` -/
def failsCheck (expected msg : Str) : Prop := Re.pyFullmatch true (checkPattern expected) msg = some none

theorem sb_replace (r : Rec) (s : Str) :
    builtinF r P .replace [.str s, .str [' '], .str ['\\', 's', '+']] = .ok (.str (checkPattern s)) := rfl

theorem sb_fullmatch_some (r : Rec) (pat s : Str) (mc : Id) (tf : Int) (m : Re.MatchObj)
    (h : Re.pyFullmatch true pat s = some (some m)) :
    builtinF r P .reFullmatch [.str pat, .str s, .bool true, .cls mc, .int tf] = .ok (matchVal mc tf.toNat s m) := by
  simp only [builtinF, h]; rfl
theorem sb_fullmatch_none (r : Rec) (pat s : Str) (mc : Id) (tf : Int)
    (h : Re.pyFullmatch true pat s = some none) :
    builtinF r P .reFullmatch [.str pat, .str s, .bool true, .cls mc, .int tf] = .ok .none := by
  simp only [builtinF, h]; rfl
theorem sb_matchVal_beq_none (mc : Id) (tf : Nat) (s : Str) (m : Re.MatchObj) : (matchVal mc tf s m).beq .none = false := by
  simp only [matchVal, Val.beq]

theorem sb_check_pass (f : Nat) (p : Seat) (q c : List Str) (msg expected : Str) (out : List Val) (tb : Val)
    (tbs : List Val) (rest : List (Id × Val)) (h : passesCheck expected msg) :
    callF (mkRec P (f+14)) m_SeatThread__check_message
        [.obj n_SeatThread ((n__w, encSeatWorld p q (msg :: c) out tb tbs) :: rest), .str expected]
      = .ok (.bool true, .obj n_SeatThread ((n__w, encSeatWorld p q c (out ++ [.tuple [vstr "recv"]]) tb tbs) :: rest)) := by
  obtain ⟨m, hm⟩ := h
  rw [callF_def]
  simp only [m_SeatThread__check_message, bindParams, Option.map]
  have h1 := fun f => sb_w_recv f p q c msg out tb tbs
  simp only [encSeatWorld, encWorld] at h1 ⊢
  ppsimp [sb_mth_w_recv, h1, sb_replace, sb_fullmatch_some _ _ _ _ _ _ hm, sb_matchVal_beq_none]

theorem sb_check_fail (f : Nat) (p : Seat) (q c : List Str) (msg expected : Str) (out : List Val) (tb : Val)
    (tbs : List Val) (rest : List (Id × Val)) (h : failsCheck expected msg) :
    callF (mkRec P (f+14)) m_SeatThread__check_message
        [.obj n_SeatThread ((n__w, encSeatWorld p q (msg :: c) out tb tbs) :: rest), .str expected]
      = .ok (.bool false, .obj n_SeatThread ((n__w, encSeatWorld p q c (out ++ [.tuple [vstr "recv"],
          .tuple [vstr "send", vstr "ERROR: Unexpected message received."], .tuple [vstr "close", .none]]) tb tbs)
          :: rest)) := by
  rw [callF_def]
  simp only [m_SeatThread__check_message, bindParams, Option.map]
  have h1 := fun f => sb_w_recv f p q c msg out tb tbs
  have h2 := fun f out m lg => sb_handle_error f [(qkey "m2t" p, vtexts q), (vstr "conn", vtexts c)] out tb tbs false rest m lg
  simp only [encSeatWorld, encWorld] at h1 h2 ⊢
  ppsimp [sb_mth_w_recv, h1, sb_replace, sb_fullmatch_none _ _ _ _ _ h, sb_mth_handle_error, h2, strOfF, List.append_assoc]
  rfl

end Bridge.Translated.SeatB
