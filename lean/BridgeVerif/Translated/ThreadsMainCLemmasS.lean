import BridgeVerif.Translated.ThreadsMainCLemmasS0
import BridgeVerif.Translated.ThreadsMainCLemmasS1
import BridgeVerif.Translated.ThreadsMainCLemmasS2
import BridgeVerif.Translated.ThreadsMainCLemmasS3
import BridgeVerif.Translated.ThreadsMainCLemmasS4
import BridgeVerif.Translated.ThreadsMainCLemmasS5
import BridgeVerif.Translated.ThreadsMainCLemmasS6
import BridgeVerif.Translated.CalcScore
import BridgeVerif.Model.Score
import BridgeVerif.Lemmas.MiniPyFuel
/-! `calc_score(contract, taken_tricks)` called INSIDE the whole translated program `P` (Translated/CalcScore.lean is about
the base program `PB`; `Server.run` calls the function inside `P`): the same proofs — kernel evaluation of
`calc_bid_score` on its whole domain at fuel 80 (one file per level), lifted to every larger fuel by `mkRec_mono`, the body
of `calc_score` executed symbolically — and the result is the model's `calcScore`. -/
namespace Bridge.Translated.MainC
open Bridge Bridge.Py Bridge.Generated.PyCore Bridge.Translated

theorem mc_cbs_at_80 (b : Fin 35) (x xx vul : Bool) (t : Nat) (ht : t ≤ 13) :
    (cbsP 80 [encBid b, .bool x, .bool xx, .bool vul, .int t]).int?
      = some (dupScore (bidLevel b) (bidDenom b) (status x xx) vul t) := by
  have key : ∀ l' : Fin 7, ∀ k' : Fin 5, ∀ t' : Fin 14,
      (cbsP 80 [encBid ⟨5 * l'.val + k'.val, by omega⟩, .bool x, .bool xx, .bool vul, .int t'.val]).int?
      = some (dupScore (bidLevel ⟨5 * l'.val + k'.val, by omega⟩) (bidDenom ⟨5 * l'.val + k'.val, by omega⟩)
          (status x xx) vul t'.val) := by
    intro l' k' t'
    match l' with
    | ⟨0, _⟩ => exact mc_cbs_level0 k' x xx vul t'
    | ⟨1, _⟩ => exact mc_cbs_level1 k' x xx vul t'
    | ⟨2, _⟩ => exact mc_cbs_level2 k' x xx vul t'
    | ⟨3, _⟩ => exact mc_cbs_level3 k' x xx vul t'
    | ⟨4, _⟩ => exact mc_cbs_level4 k' x xx vul t'
    | ⟨5, _⟩ => exact mc_cbs_level5 k' x xx vul t'
    | ⟨6, _⟩ => exact mc_cbs_level6 k' x xx vul t'
  have h := key ⟨b.val / 5, by omega⟩ ⟨b.val % 5, by omega⟩ ⟨t, by omega⟩
  have hb : (⟨5 * (b.val / 5) + b.val % 5, by omega⟩ : Fin 35) = b := by ext; simp only []; omega
  simp only [hb] at h
  exact h

theorem mc_cbs_any_fuel (b : Fin 35) (x xx vul : Bool) (t : Nat) (ht : t ≤ 13) (f : Nat) (hf : 80 ≤ f) :
    ∃ self', callFn P f f_calc_bid_score [encBid b, .bool x, .bool xx, .bool vul, .int t]
      = .ok (.int (dupScore (bidLevel b) (bidDenom b) (status x xx) vul t), self') := by
  have h := mc_cbs_at_80 b x xx vul t ht
  unfold cbsP at h
  cases hr : callFn P 80 f_calc_bid_score [encBid b, .bool x, .bool xx, .bool vul, .int t] with
  | error e => rw [hr] at h; simp [Except.map, R.int?] at h
  | ok p =>
    obtain ⟨v, s'⟩ := p
    rw [hr] at h
    cases v <;> simp [Except.map, R.int?] at h
    subst h
    exact ⟨s', callFn_fuel_mono P hf _ _ _ hr (by simp)⟩

theorem mc_passed_out_method :
    P.method? classDepth n_Contract n_is_passed_out = some (n_Contract, m_Contract_is_passed_out) := rfl
theorem mc_is_vul_method : P.method? classDepth n_Contract n_is_vul = some (n_Contract, m_Contract_is_vul) := rfl
theorem mc_calc_bid_score_func : findFunc P.funcs n_calc_bid_score = some f_calc_bid_score := rfl

section attrs
variable (r : Rec) (c : Contract)
theorem mc_attr_final_bid : getAttrF r P (encContract c) n_final_bid = .ok (encOpt encBid c.finalBid) := rfl
theorem mc_attr_x : getAttrF r P (encContract c) n_x = .ok (.bool c.x) := rfl
theorem mc_attr_xx : getAttrF r P (encContract c) n_xx = .ok (.bool c.xx) := rfl
theorem mc_methF_contract (m : Id) (args : List Val) :
    methF r P (encContract c) m args = callMethod r P n_Contract m (encContract c :: args) (.exc K.AttributeError) := rfl
end attrs

theorem mc_passed_out_call (g : Nat) (hg : 10 ≤ g) (ob : Option (Fin 35)) (x xx : Bool) (v : Vul) (d : Option Seat) :
    (mkRec P g).call m_Contract_is_passed_out [encContract ⟨ob, x, xx, v, d⟩]
      = .ok (.bool ob.isNone, encContract ⟨ob, x, xx, v, d⟩) := by
  obtain ⟨f, rfl⟩ : ∃ f, g = f + 10 := ⟨g - 10, by omega⟩
  cases ob with
  | none => with_unfolding_all rfl
  | some b =>
    simp [cs_call, cs_exec, cs_eval, callF, m_Contract_is_passed_out, bindParams, execF, execStmtF, evalF, mc_attr_final_bid,
      encOpt, lookup, cmpF, beq_bid_pass, beq_bid_none, truthy, bind, Except.bind, pure, Except.pure]

theorem mc_is_vul_call_some (g : Nat) (hg : 30 ≤ g) (ob : Option (Fin 35)) (x xx : Bool) (v : Vul) (d : Seat) :
    (mkRec P g).call m_Contract_is_vul [encContract ⟨ob, x, xx, v, some d⟩]
      = .ok (.bool (sideVulnerable v d), encContract ⟨ob, x, xx, v, some d⟩) := by
  obtain ⟨f, rfl⟩ : ∃ f, g = f + 30 := ⟨g - 30, by omega⟩
  cases v <;> cases d <;> with_unfolding_all rfl

theorem mc_calc_score_call_ok (b : Fin 35) (x xx : Bool) (v : Vul) (od : Option Seat) (t : Nat) (ht : t ≤ 13) (f : Nat)
    (vul : Bool) (s : Val)
    (hv : (mkRec P (f + 116)).call m_Contract_is_vul [encContract ⟨some b, x, xx, v, od⟩] = .ok (.bool vul, s)) :
    (mkRec P (f + 120)).call f_calc_score [encContract ⟨some b, x, xx, v, od⟩, .int t]
      = .ok (.int (dupScore (bidLevel b) (bidDenom b) (status x xx) vul t), encContract ⟨some b, x, xx, v, od⟩) := by
  have hp := mc_passed_out_call (f + 117) (by omega) (some b) x xx v od
  obtain ⟨s', hc⟩ := mc_cbs_any_fuel b x xx vul t ht (f + 117) (by omega)
  unfold callFn at hc
  rw [cs_call]
  simp [cs_exec, cs_eval, callF, f_calc_score, bindParams, execF, execStmtF, evalF, mc_methF_contract, callMethod,
    mc_passed_out_method, mc_is_vul_method, mc_calc_bid_score_func, mapR, mc_attr_final_bid, mc_attr_x, mc_attr_xx, cmpF,
    beq_bid_none, truthy, lookup, n_contract, n_taken_tricks, bind, Except.bind, pure, Except.pure, encOpt, hp, hv, hc]

/-- the law is the model's `calcBidScore` -/
theorem mc_dupScore_model : ∀ b : Fin 35, ∀ x xx vul : Bool, ∀ t : Fin 14,
    dupScore (bidLevel b) (bidDenom b) (status x xx) vul t.val = calcBidScore b x xx vul t.val := by decide +kernel

theorem mc_sideVulnerable_eq (v : Vul) (d : Seat) : sideVulnerable v d = d.isVul v := by
  cases v <;> cases d <;> rfl

/-- `calc_score(contract, t)` INSIDE `P`, for a contract with a final bid and a declarer, 0..13 tricks: the model's
`calcScore` -/
theorem mc_calc_score_call (c : Contract) (b : Fin 35) (d : Seat) (hb : c.finalBid = some b) (hd : c.declarer = some d)
    (t : Nat) (ht : t ≤ 13) (f : Nat) (hf : 121 ≤ f) :
    callFn P f f_calc_score [encContract c, .int t] = .ok (.int ((calcScore c t).getD 0), encContract c) := by
  obtain ⟨g, rfl⟩ : ∃ g, f = g + 120 := ⟨f - 120, by omega⟩
  obtain ⟨ob, x, xx, v, od⟩ := c
  simp only at hb hd
  subst hb; subst hd
  have h := mc_calc_score_call_ok b x xx v (some d) t ht g _ _ (mc_is_vul_call_some (g + 116) (by omega) (some b) x xx v d)
  show (mkRec P (g + 120)).call f_calc_score _ = _
  rw [h]
  have e : (calcScore ⟨some b, x, xx, v, some d⟩ t).getD 0 = calcBidScore b x xx (sideVulnerable v d) t := by
    rw [mc_sideVulnerable_eq]
    cases v <;> cases d <;> rfl
  rw [e, mc_dupScore_model b x xx _ ⟨t, by omega⟩]

end Bridge.Translated.MainC
