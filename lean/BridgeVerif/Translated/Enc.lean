import BridgeVerif.Translated.EncBase
import BridgeVerif.Generated.PyCore
/-!
# The whole translated core (value classes + scoring + the two state machines)

`P` is the union program of `Generated/PyCore.lean`; the theorems about `BiddingPhase` (Translated/Auction*.lean) and the
playing phases (Translated/Play*.lean) are about `P`.  The theorems about the value classes and the scoring functions
(Score*, Notation, Contract*, Imps) are about `PB` (Translated/EncBase.lean), so that a change in a state machine does
not touch them.
-/
namespace Bridge.Translated
open Bridge.Py Bridge.Generated.PyCore

abbrev P : Program := program

end Bridge.Translated
