import BridgeVerif.Translated.ClientParsersB
import BridgeVerif.Translated.ClientParsersC
import BridgeVerif.Translated.ClientParsersD
import BridgeVerif.Translated.ThreadsClientBLemmasD
import BridgeVerif.Props.C19
/-!
# The parse hypotheses of the bundled-client capstone about `parse_team_names`, `parse_board`, `parse_leader_message` : PROVED

`connectParses` (Translated/ThreadsClientA.lean), the first conjunct of `dealParses` (inside `boardParses` /
`boardsParses`, Translated/ThreadsClientC.lean) and the field `leader` of `PlayParses` (Translated/ThreadsClientBLemmasD.lean)
ask that the TRANSLATED `Client.parse_team_names`, `Client.parse_board`, `Client.parse_leader_message` return the encoding
of what the model's `parseTeamNames?`, `parseBoard?`, `parseLeader?` return on the messages of the session.  The earlier
files evaluated finite families of messages in the kernel; here the three are discharged from
`Translated/ClientParsers{B,C,D}.lean` for EVERY message whose characters are in the classes of
`Lemmas/RegexMsgClient.lean` (every ASCII message is), at fuel 31 — and, with the round trips of `Props/C19.lean`, for the
texts the table manager builds: `teamsMsg ns ew` for all names, `boardHeader n dealer vul` for EVERY board number `n`,
`leadPrompt who`.
-/
namespace Bridge.Translated.ClientE
open Bridge Bridge.Py Bridge.Generated.PyCore Bridge.Translated Bridge.Translated.ClientA Bridge.Translated.ClientB
open Bridge.Translated.ClientParsers Bridge.RegexMsgClient

/-! ## `connectParses` -/
/-- `connectParses` holds whenever the `Teams` message is in the class `agreeTeams` -/
theorem connectParses_of_agree (i : ClientIn)
    (h : ∀ reply teams rest, i.s = reply :: teams :: rest → ∀ x ∈ teams, agreeTeams x = true) :
    connectParses 31 i := by
  unfold connectParses
  split
  · rename_i reply teams rest heq
    intro ns ew hp
    exact parse_team_names_returns teams (h reply teams rest heq) ns ew hp
  · trivial

/-- … in particular whenever it is an ASCII text -/
theorem connectParses_of_ascii (i : ClientIn)
    (h : ∀ reply teams rest, i.s = reply :: teams :: rest → ∀ x ∈ teams, x.toNat < 128) : connectParses 31 i :=
  connectParses_of_agree i fun reply teams rest heq x hx => agreeTeams_ascii x (h reply teams rest heq x hx)

theorem teamsMsg_agree (ns ew : Text) (h1 : ∀ x ∈ ns, agreeTeams x = true) (h2 : ∀ x ∈ ew, agreeTeams x = true) :
    ∀ x ∈ teamsMsg ns ew, agreeTeams x = true := by
  have c1 : ∀ x ∈ "Teams : N/S : \"".toList, agreeTeams x = true := by decide +kernel
  have c2 : ∀ x ∈ "\" E/W : \"".toList, agreeTeams x = true := by decide +kernel
  have c3 : ∀ x ∈ ['"'], agreeTeams x = true := by decide +kernel
  intro x hx
  unfold teamsMsg at hx
  simp only [List.mem_append] at hx
  rcases hx with (((hx | hx) | hx) | hx) | hx
  · exact c1 x hx
  · exact h1 x hx
  · exact c2 x hx
  · exact h2 x hx
  · exact c3 x hx

/-- the message the table manager builds from any two names (no double quote / line break inside: `NameOK`; characters in
the class): the translated `parse_team_names` returns the two names -/
theorem teams_message_returns (ns ew : Text) (n1 : NameOK ns) (n2 : NameOK ew)
    (h1 : ∀ x ∈ ns, agreeTeams x = true) (h2 : ∀ x ∈ ew, agreeTeams x = true) :
    Returns 31 m_Client_parse_team_names [.str (teamsMsg ns ew)] (.tuple [.str ns, .str ew]) :=
  parse_team_names_returns _ (teamsMsg_agree ns ew h1 h2) ns ew (C19.team_names_round_trip ns ew n1 n2)

/-! ## `parse_board` : the first conjunct of `dealParses` -/
/-- on every header in the class `agreeBoard` -/
theorem dealParses_board (header : Text) (h : ∀ x ∈ header, agreeBoard x = true) :
    ∀ k dealer vul, parseBoard? header = some (k, dealer, vul) →
      Returns 31 m_Client_parse_board [.str header] (.tuple [.int k, encSeat dealer, encVul vul]) :=
  fun k dealer vul hp => parse_board_returns header h k dealer vul hp

theorem isDigit_agreeBoard (x : Char) (h : Bridge.isDigit x = true) : agreeBoard x = true := by
  apply agreeBoard_ascii
  simp only [Bridge.isDigit, decide_eq_true_eq] at h
  have : x.toNat ≤ 57 := h.2
  omega

theorem boardHeader_agree (n : Nat) (dealer : Seat) (v : Vul) : ∀ x ∈ boardHeader n dealer v, agreeBoard x = true := by
  have c1 : ∀ x ∈ "Board number ".toList, agreeBoard x = true := by decide +kernel
  have c2 : ∀ x ∈ ". Dealer ".toList, agreeBoard x = true := by decide +kernel
  have c3 : ∀ d : Seat, ∀ x ∈ d.formal, agreeBoard x = true := by intro d; cases d <;> decide +kernel
  have c4 : ∀ x ∈ ". ".toList, agreeBoard x = true := by decide +kernel
  have c5 : ∀ w : Vul, ∀ x ∈ convertVul w, agreeBoard x = true := by intro w; cases w <;> decide +kernel
  have c6 : ∀ x ∈ " vulnerable.".toList, agreeBoard x = true := by decide +kernel
  intro x hx
  unfold boardHeader at hx
  simp only [List.mem_append] at hx
  rcases hx with (((((hx | hx) | hx) | hx) | hx) | hx) | hx
  · exact c1 x hx
  · exact isDigit_agreeBoard x (natStr_digits n x hx)
  · exact c2 x hx
  · exact c3 dealer x hx
  · exact c4 x hx
  · exact c5 v x hx
  · exact c6 x hx

/-- EVERY board header the table manager builds — every board number `n`, dealer, vulnerability — is read back by the
translated `parse_board` as `(n, dealer, vul)` -/
theorem board_header_returns (n : Nat) (dealer : Seat) (v : Vul) :
    Returns 31 m_Client_parse_board [.str (boardHeader n dealer v)] (.tuple [.int n, encSeat dealer, encVul v]) :=
  parse_board_returns _ (boardHeader_agree n dealer v) n dealer v (C19.board_header_round_trip n dealer v)

/-! ## `parse_leader_message` : the field `leader` of `PlayParses` -/
/-- on every stream whose messages are in the class `agreeLead` -/
theorem playParses_leader (i : ClientIn) (h : ∀ m ∈ i.s, ∀ x ∈ m, agreeLead x = true) :
    ∀ m ∈ i.s, ∀ (d l : Seat), parseLeader? m d = some l →
      Returns 31 m_Client_parse_leader_message [.str m, encSeat d] (encSeat l) :=
  fun m hm d l hp => parse_leader_message_returns m (h m hm) d l hp

theorem leadPrompt_agree (who : Option Seat) : ∀ x ∈ leadPrompt who, agreeLead x = true := by
  cases who with
  | none => decide +kernel
  | some p => cases p <;> decide +kernel

/-- the lead prompts the table manager builds are read back by the translated `parse_leader_message` -/
theorem lead_prompt_returns (who : Option Seat) (dummy : Seat) :
    Returns 31 m_Client_parse_leader_message [.str (leadPrompt who), encSeat dummy] (encSeat (who.getD dummy)) :=
  parse_leader_message_returns _ (leadPrompt_agree who) dummy _ (C19.lead_prompt_round_trip who dummy)

/-- a larger fuel bound is also fine (the capstone's examples use `N = 30`; any `N ≥ 31` works with these theorems) -/
theorem Returns.mono {N M : Nat} {fd : FuncDef} {args : List Val} {v : Val} (h : Returns N fd args v) (hNM : N ≤ M) :
    Returns M fd args v := fun f hf => h f (Nat.le_trans hNM hf)

end Bridge.Translated.ClientE
