import BridgeVerif.Translated.ThreadsSeatCLemmasD
/-!
# The TRANSLATED seat thread, whole: `SeatThread.run` (Generated/PyCoreThreads.lean) IS admission + `seatReactive`

Statements are about the generated `m_SeatThread_run` run by the MiniPy interpreter in the whole translated program `P`,
for EVERY fuel from a stated bound on; thread and world are the encodings of Translated/ThreadsEnc.lean.  The phases are
the colleagues' theorems (`seat_deal_translated`, `seat_bidding_translated` of Translated/ThreadsSeatA.lean,
`seat_playing_translated`, `seat_connect_translated` of Translated/ThreadsSeatB.lean), composed here.

* Translated/ThreadsSeatCLemmas.lean — the body of the generated `while True` loop (`runBody`) cut into `runFront`
  (`send "Start of board"` … `if not passed_out: _playing_phase()`) and `runBack` (the status message), both executed
  symbolically with the phases' theorems as rewrite rules.
* Translated/ThreadsSeatCLemmasB.lean — the reactive phases never lengthen the queue stream; `seatBoardR` = ONE board of
  `seatBoardsR`, `seatBoardsR_succ`.
* Translated/ThreadsSeatCLemmasC.lean — `boardChecks` / `boardsChecks` (every `ready …` message consumed passes
  `_check_message`: `dealChecks`, `bidChecks`, `playingChecks` composed, walking like `seatBoardsR`), `boardsTables` (two
  barrier waits per board), `sc_board_front` (the front part IS `seatBoardR` up to the status message).
* Translated/ThreadsSeatCLemmasD.lean — `boardsChecksB` (an executable, sound test for `boardsChecks`), `boardsNum`,
  `boardsTables_eq_iterate`.
* here: `sc_boards_loop` (the loop invariant, by induction on the model's fuel; one interpreter level per board),
  (1) `seat_boards_translated`, `seatedOps_eq_seating_reactive`, (2) `seat_run_translated`,
  (3) `seat_run_refused_translated` (+ `seat_run_not_ready_translated`, the remaining `False` paths of `_connect`),
  and closed instances of all three.
-/
set_option maxRecDepth 4000
namespace Bridge.Translated.SeatC
open Bridge Bridge.Py Bridge.Generated.PyCore
open Bridge.Translated.SeatB (playingChecks encSeatActs_append sb_execF_append encSeatThread0 encTable seatedOps rejectOps
  threadName seat_connect_translated seat_connect_not_ready_translated optText)

/-! ## (1) the board loop -/

theorem sc_loop_cont (g : Nat) (env env' : Env) (body : List Stmt)
    (h : (mkRec P (g+1)).exec env body = .ok (env', .cont)) :
    (mkRec P (g+2)).loop env (.const (.bool true)) body = (mkRec P (g+1)).loop env' (.const (.bool true)) body := by
  rw [loop_succ]
  simp only [loopF, eval_succ, evalF, pure_eq, bind_ok, truthy, h, if_true]

theorem sc_loop_ret (g : Nat) (env env' : Env) (body : List Stmt) (v : Val)
    (h : (mkRec P (g+1)).exec env body = .ok (env', .ret v)) :
    (mkRec P (g+2)).loop env (.const (.bool true)) body = .ok (env', .ret v) := by
  rw [loop_succ]
  simp only [loopF, eval_succ, evalF, pure_eq, bind_ok, truthy, h, if_true]

theorem sc_enc_next (p : Seat) : encSeatActs p [.recv (.m2t p), .send (.s2c p) MSG_START]
    = some [.tuple [vstr "get", vstr "m2t", encSeat p], .tuple [vstr "send", .str MSG_START]] := by
  simp [encSeatActs, encSeatAct]
theorem sc_enc_end (p : Seat) : encSeatActs p [.recv (.m2t p), .send (.s2c p) MSG_END]
    = some [.tuple [vstr "get", vstr "m2t", encSeat p], .tuple [vstr "send", .str MSG_END]] := by
  simp [encSeatActs, encSeatAct]

/-- THE LOOP INVARIANT of the board loop of `run`: entered on the streams `q`, `c`, the loop ends by `return None` on the
streams `seatBoardsR` leaves, having appended `send "Start of board"` and then `seatBoardsR`'s actions to `out`; one
interpreter level per board -/
theorem sc_boards_loop (p : Seat) (extra : List (Id × Val)) :
    ∀ (n : Nat) (q c : List Str) (acts : SeatActs) (q' c' : List Str) (out : List Val) (table : Val) (tables : List Val)
      (rest : Env) (f : Nat),
      seatBoardsR p n ⟨q, c⟩ = some (acts, ⟨q', c'⟩) → boardsChecks p n ⟨q, c⟩ → q.length + 102 ≤ f →
      ∃ ops rest', encSeatActs p acts = some ops ∧
        (mkRec P f).loop ((K.self, encSeatThread p (encSeatWorld p q c out table tables) extra) :: rest)
            (.const (.bool true)) runBody
          = .ok ((K.self, encSeatThread p (encSeatWorld p q' c'
              (out ++ [.tuple [vstr "send", .str MSG_START]] ++ ops)
              (boardsTables p n ⟨q, c⟩ (table, tables)).1 (boardsTables p n ⟨q, c⟩ (table, tables)).2) extra) :: rest',
              .ret .none) := by
  intro n
  induction n with
  | zero => intro q c acts q' c' out table tables rest f h; simp [seatBoardsR] at h
  | succ n ih =>
    intro q c acts q' c' out table tables rest f h hck hf
    obtain ⟨g, rfl⟩ : ∃ g, f = g + 32 := ⟨f - 32, by omega⟩
    rw [seatBoardsR_succ] at h
    obtain ⟨⟨pre, status, ⟨q1, c1⟩⟩, hb, h⟩ := bind_some_inv h
    dsimp only at h
    obtain ⟨hck1, hck2⟩ := hck
    obtain ⟨pops, hpo, hlen, hfront⟩ := sc_board_front g p q c q1 c1 pre status extra hb hck1 (by omega)
    obtain ⟨rest1, hfront⟩ := hfront out table tables rest
    by_cases s1 : status = MSG_NEXT
    · subst s1
      simp only [if_true] at h
      obtain ⟨⟨acts0, i'⟩, hr, h⟩ := bind_some_inv h
      simp only [Option.some.injEq, Prod.mk.injEq] at h
      obtain ⟨rfl, rfl⟩ := h
      obtain ⟨rest2, hback⟩ := sc_back_next g p q1 c1 extra
        (out ++ [.tuple [vstr "send", .str MSG_START]] ++ pops) (adv2 (table, tables)).1 (adv2 (table, tables)).2 rest1
      have hbody : (mkRec P (g+31)).exec
          ((K.self, encSeatThread p (encSeatWorld p q c out table tables) extra) :: rest) runBody
          = .ok ((K.self, encSeatThread p (encSeatWorld p q1 c1
              (out ++ [.tuple [vstr "send", .str MSG_START]] ++ pops ++ [.tuple [vstr "get", vstr "m2t", encSeat p]])
              (adv2 (table, tables)).1 (adv2 (table, tables)).2) extra) :: rest2, .cont) := by
        rw [exec_succ, runBody_eq, sb_execF_append _ _ _ _ _ hfront]
        exact hback
      obtain ⟨ops, rest', hops, hl⟩ := ih q1 c1 acts0 q' c'
        (out ++ [.tuple [vstr "send", .str MSG_START]] ++ pops ++ [.tuple [vstr "get", vstr "m2t", encSeat p]])
        (adv2 (table, tables)).1 (adv2 (table, tables)).2 rest2 (g+31) hr (hck2 pre _ hb) (by omega)
      refine ⟨pops ++ [.tuple [vstr "get", vstr "m2t", encSeat p], .tuple [vstr "send", .str MSG_START]] ++ ops, rest',
        ?_, ?_⟩
      · exact encSeatActs_append p _ _ _ _ (encSeatActs_append p _ _ _ _ hpo (sc_enc_next p)) hops
      · rw [sc_loop_cont (g+30) _ _ _ hbody, hl]
        simp only [boardsTables, hb, if_true, List.append_assoc, List.cons_append, List.nil_append]
    · simp only [if_neg s1] at h
      by_cases s2 : status = MSG_END
      · subst s2
        simp only [if_true, Option.some.injEq, Prod.mk.injEq] at h
        obtain ⟨rfl, hi⟩ := h
        injection hi with hq hc
        subst hq
        subst hc
        obtain ⟨rest2, hback⟩ := sc_back_end g p q1 c1 extra
          (out ++ [.tuple [vstr "send", .str MSG_START]] ++ pops) (adv2 (table, tables)).1 (adv2 (table, tables)).2 rest1
        have hbody : (mkRec P (g+31)).exec
            ((K.self, encSeatThread p (encSeatWorld p q c out table tables) extra) :: rest) runBody
            = .ok ((K.self, encSeatThread p (encSeatWorld p q1 c1
                (out ++ [.tuple [vstr "send", .str MSG_START]] ++ pops ++
                  [.tuple [vstr "get", vstr "m2t", encSeat p], .tuple [vstr "send", .str MSG_END]])
                (adv2 (table, tables)).1 (adv2 (table, tables)).2) extra) :: rest2, .ret .none) := by
          rw [exec_succ, runBody_eq, sb_execF_append _ _ _ _ _ hfront]
          exact hback
        refine ⟨pops ++ [.tuple [vstr "get", vstr "m2t", encSeat p], .tuple [vstr "send", .str MSG_END]], rest2, ?_, ?_⟩
        · exact encSeatActs_append p _ _ _ _ hpo (sc_enc_end p)
        · rw [sc_loop_ret (g+30) _ _ _ _ hbody]
          simp only [boardsTables, hb, if_neg s1, List.append_assoc, List.cons_append, List.nil_append]
      · simp only [if_neg s2] at h
        cases h

/-- the `while True:` statement of the generated `run` -/
def runLoop : Stmt := m_SeatThread_run.body.getD 2 .pass

theorem runLoop_eq : runLoop = .while (.const (.bool true)) runBody := rfl
theorem run_body_eq : m_SeatThread_run.body =
    [.callMutRet (.var n__t1) (.var K.self) n__connect [], .ite (.not (.var n__t1)) [.ret (.const .none)] [], runLoop] := rfl

/-- the loop at any larger fuel -/
theorem sc_loop_mono {f g : Nat} (h : f ≤ g) (env : Env) (c : Expr) (b : List Stmt) (env' : Env) (fl : Flow)
    (hx : (mkRec P f).loop env c b = .ok (env', fl)) : (mkRec P g).loop env c b = .ok (env', fl) :=
  (mkRec_mono P h).2.2.2 env c b _ hx (by simp)

/-- (1) THE BOARD LOOP of `run` (the statement `runLoop` = `while True: …` of the generated body, executed in an
environment whose `self` is the thread on the streams `q`, `c`) IS `seatBoardsR`: it ends by `return None`, leaves the
streams `seatBoardsR` leaves, and has appended `send "Start of board"` followed by the rendering of `seatBoardsR`'s
actions to `out` (the model's `[recv status, send "Start of board"]` between two boards is the `continue` + the top of the
next turn).  The tables: two barrier waits per board (`boardsTables`).  Fuel: `q.length + 103` (one level per board, and
what `_bidding_phase` needs) -/
theorem seat_boards_translated (p : Seat) (fuel : Nat) (q c q' c' : List Str) (acts : SeatActs) (out : List Val)
    (table : Val) (tables : List Val) (extra : List (Id × Val)) (rest : Env)
    (h : seatBoardsR p fuel ⟨q, c⟩ = some (acts, ⟨q', c'⟩)) (hck : boardsChecks p fuel ⟨q, c⟩) :
    ∃ ops rest', encSeatActs p acts = some ops ∧ ∀ f, q.length + 103 ≤ f →
      exec P f ((K.self, encSeatThread p (encSeatWorld p q c out table tables) extra) :: rest) [runLoop]
        = .ok ((K.self, encSeatThread p (encSeatWorld p q' c'
            (out ++ [.tuple [vstr "send", .str MSG_START]] ++ ops)
            (boardsTables p fuel ⟨q, c⟩ (table, tables)).1 (boardsTables p fuel ⟨q, c⟩ (table, tables)).2) extra) :: rest',
            .ret .none) := by
  obtain ⟨ops, rest', hops, hl⟩ :=
    sc_boards_loop p extra fuel q c acts q' c' out table tables rest (q.length + 102) h hck (Nat.le_refl _)
  refine ⟨ops, rest', hops, fun f hf => ?_⟩
  obtain ⟨k, rfl⟩ : ∃ k, f = k + 1 := ⟨f - 1, by omega⟩
  have hl' := sc_loop_mono (show q.length + 102 ≤ k by omega) _ _ _ _ _ hl
  show execF (mkRec P k) P _ [runLoop] = _
  simp only [execF, runLoop_eq, execStmtF, hl', bind_ok, pure_eq]

/-! ## (2), (3) `run` -/

theorem sc_mth_connect :
    P.method? classDepth n_SeatThread n__connect = some (n_SeatThread, m_SeatThread__connect) := rfl

/-- `run` when `_connect` returns `True` and the loop returns -/
theorem sc_run_seated (g : Nat) (fs0 : List (Id × Val)) (self1 self2 : Val) (rest' : Env)
    (hc : ∀ k, callF (mkRec P (g+k)) m_SeatThread__connect [.obj n_SeatThread fs0] = .ok (.bool true, self1))
    (hl : ∀ k, (mkRec P (g+k)).loop [(K.self, self1), (n__t1, .bool true)] (.const (.bool true)) runBody
      = .ok ((K.self, self2) :: rest', .ret .none)) :
    callF (mkRec P (g+10)) m_SeatThread_run [.obj n_SeatThread fs0] = .ok (.none, self2) := by
  rw [callF_def]
  simp only [runBody, m_SeatThread_run, List.getD_cons_zero, List.getD_cons_succ] at hl
  simp only [m_SeatThread_run, bindParams, Option.map]
  ppsimp [sc_mth_connect, hc, hl]

/-- `run` when `_connect` returns `False` -/
theorem sc_run_refused (g : Nat) (fs0 : List (Id × Val)) (self1 : Val)
    (hc : ∀ k, callF (mkRec P (g+k)) m_SeatThread__connect [.obj n_SeatThread fs0] = .ok (.bool false, self1)) :
    callF (mkRec P (g+10)) m_SeatThread_run [.obj n_SeatThread fs0] = .ok (.none, self1) := by
  rw [callF_def]
  simp only [m_SeatThread_run, bindParams, Option.map]
  ppsimp [sc_mth_connect, hc]

/-- the operations of an accepting `_connect` BEFORE the seating barrier: the request is read, the seat written, the
reply sent, `ready for teams` read, the verdict signalled to main -/
def seatingOps (seat : Seat) (team reply : Str) : List Val :=
  [.tuple [vstr "recv"], .tuple [vstr "table", encSeat seat, .str team], .tuple [vstr "send", .str reply],
   .tuple [vstr "recv"], .tuple [vstr "event_set", .none]]

/-- the prefix of `seatReactive` up to (and including) its `.recv` of `ready to start`, as world operations -/
theorem sc_enc_reactive_prefix (p : Seat) (teams : Str) :
    encSeatActs p (sync ++ [.send (.s2c p) teams, .recv (.c2s p)])
      = some [.tuple [vstr "sync"], .tuple [vstr "send", .str teams], .tuple [vstr "recv"]] := by
  simp [encSeatActs, encSeatAct, sync]

/-- EXACT correspondence between `_connect`'s accepted path and `seatReactive`: `seatedOps` = the admission operations
`[recv, table, send "<Seat> <team> seated", recv, event_set]` followed by the rendering of the reactive prefix
`sync ++ [send teams, recv]` — the barrier wait that opens `seatReactive` is performed INSIDE `_connect` -/
theorem seatedOps_eq_seating_reactive (seat : Seat) (team reply teams : Str) :
    ∃ pre, encSeatActs seat (sync ++ [.send (.s2c seat) teams, .recv (.c2s seat)]) = some pre ∧
      seatedOps seat team reply teams = seatingOps seat team reply ++ pre :=
  ⟨_, sc_enc_reactive_prefix seat teams, rfl⟩

theorem sc_enc_reactive_head (p : Seat) (teams : Str) :
    encSeatActs p (sync ++ [.send (.s2c p) teams, .recv (.c2s p), .send (.s2c p) MSG_START])
      = some [.tuple [vstr "sync"], .tuple [vstr "send", .str teams], .tuple [vstr "recv"],
          .tuple [vstr "send", .str MSG_START]] := by
  simp [encSeatActs, encSeatAct, sync]

/-- (2) THE WHOLE SEAT THREAD for a seated, conforming connection.  The connection delivers `req`, `ready` ("ready for
teams"), `start` ("ready to start"), then `c`; the queue delivers `q`; the translated `parse_connection_info` reads `req`
as `(team, seat, version)` (`hparse`, as in `seat_connect_translated`); `admitReq` seats the request; `ready`, `start`
and every `ready …` message of the boards pass `_check_message`; and the reactive model, given the `Teams` text built from
the table after the barrier, performs `acts`.  Then `run()` returns `None`, and the world has recorded
`out ++ seatingOps … ++ ops` with `ops` the rendering of ALL of `acts` (whose leading `sync` is the barrier wait performed
inside `_connect`, see `seatedOps_eq_seating_reactive`), on the streams `seatBoardsR` leaves; the table is the snapshot
after the seating barrier advanced twice per board.  Fuel: `N + q.length + 113`. -/
theorem seat_run_translated (N f : Nat) (q c : List Str) (req ready start : Str) (out : List Val) (t : Table)
    (tables : List Table) (team : Str) (seat : Seat) (version : Nat) (s' : Val) (acts : SeatActs)
    (hf : N + q.length + 113 ≤ f)
    (hparse : ∀ g, N ≤ g → callFn P g m_PlayerThread_parse_connection_info [.str req]
      = .ok (.tuple [.str team, encSeat seat, .int version], s'))
    (hv : (admitReq t ⟨team, seat, version⟩).2 = .seated)
    (hr : SeatB.passesCheck (seat.formal ++ " ready for teams".toList) ready)
    (hs : SeatB.passesCheck (seat.formal ++ " ready to start".toList) start)
    (hck : boardsChecks seat (q.length + 1) ⟨q, c⟩)
    (hm : seatReactive seat
        (teamsMsg (optText ((tables.headD (admitReq t ⟨team, seat, version⟩).1) .N))
          (optText ((tables.headD (admitReq t ⟨team, seat, version⟩).1) .E))) q (start :: c) = some acts) :
    ∃ ops bs q' c', encSeatActs seat acts = some ops ∧
      seatBoardsR seat (q.length + 1) ⟨q, c⟩ = some (bs, ⟨q', c'⟩) ∧
      callFn P f m_SeatThread_run
          [encSeatThread0 (encSeatWorld seat q (req :: ready :: start :: c) out (encTable t) (tables.map encTable))]
        = .ok (.none, encSeatThread seat (encSeatWorld seat q' c'
            (out ++ seatingOps seat team (replyText ⟨team, seat, version⟩ t .seated) ++ ops)
            (boardsTables seat (q.length + 1) ⟨q, c⟩
              (encTable (tables.headD (admitReq t ⟨team, seat, version⟩).1), tables.tail.map encTable)).1
            (boardsTables seat (q.length + 1) ⟨q, c⟩
              (encTable (tables.headD (admitReq t ⟨team, seat, version⟩).1), tables.tail.map encTable)).2)
            [(K.name, .str (threadName seat team))]) := by
  simp only [seatReactive, SeatIn.getC, Option.bind_eq_bind, Option.bind_some] at hm
  obtain ⟨⟨bs, ⟨q', c'⟩⟩, hbs, hm⟩ := bind_some_inv hm
  simp only [Option.pure_def, Option.some.injEq] at hm
  subst hm
  obtain ⟨g, rfl⟩ : ∃ g, f = g + 11 := ⟨f - 11, by omega⟩
  obtain ⟨bops, rest', hbo, hl⟩ := sc_boards_loop seat [(K.name, .str (threadName seat team))] (q.length + 1) q c bs q' c'
    (out ++ seatedOps seat team (replyText ⟨team, seat, version⟩ t .seated)
      (teamsMsg (optText ((tables.headD (admitReq t ⟨team, seat, version⟩).1) .N))
        (optText ((tables.headD (admitReq t ⟨team, seat, version⟩).1) .E))))
    (encTable (tables.headD (admitReq t ⟨team, seat, version⟩).1)) (tables.tail.map encTable)
    [(n__t1, .bool true)] (q.length + 102) hbs hck (Nat.le_refl _)
  refine ⟨_, bs, q', c', encSeatActs_append seat _ _ _ _ (sc_enc_reactive_head seat _) hbo, hbs, ?_⟩
  have hc : ∀ k, callF (mkRec P (g+k)) m_SeatThread__connect
      [.obj n_SeatThread [(n__w, encSeatWorld seat q (req :: ready :: start :: c) out (encTable t) (tables.map encTable))]]
      = .ok (.bool true, _) := fun k =>
    ((seat_connect_translated N (g+k+1) (by omega) seat q (ready :: start :: c) req out t tables team seat version s'
      hparse).2 hv ready start c rfl hr hs).2
  have hl' := fun k => sc_loop_mono (show q.length + 102 ≤ g + k by omega) _ _ _ _ _ hl
  have hx := sc_run_seated g _ _ _ _ hc hl'
  rw [callFn, call_succ]
  rw [show encSeatThread0 (encSeatWorld seat q (req :: ready :: start :: c) out (encTable t) (tables.map encTable))
    = .obj n_SeatThread [(n__w, encSeatWorld seat q (req :: ready :: start :: c) out (encTable t) (tables.map encTable))]
    from rfl, hx]
  simp only [seatedOps, seatingOps, List.append_assoc, List.cons_append, List.nil_append]

/-- (3) A REFUSED connection: when `admitReq` gives any verdict other than `seated`, `_connect` returns `False` and `run()`
returns `None` having performed exactly the operations of `seat_connect_translated`'s rejection case (`recv`, the reply
`replyText`, `close`, `event_set`); the table is untouched.  Fuel: `N + 35`. -/
theorem seat_run_refused_translated (N f : Nat) (hf : N + 35 ≤ f) (p0 : Seat) (q c : List Str) (req : Str)
    (out : List Val) (t : Table) (tables : List Table) (team : Str) (seat : Seat) (version : Nat) (s' : Val)
    (hparse : ∀ g, N ≤ g → callFn P g m_PlayerThread_parse_connection_info [.str req]
      = .ok (.tuple [.str team, encSeat seat, .int version], s'))
    (v : Verdict) (hv : (admitReq t ⟨team, seat, version⟩).2 = v) (hne : v ≠ .seated) :
    callFn P f m_SeatThread_run
        [encSeatThread0 (encSeatWorld p0 q (req :: c) out (encTable t) (tables.map encTable))]
      = .ok (.none, encSeatThread seat
          (encSeatWorld p0 q c (out ++ rejectOps (replyText ⟨team, seat, version⟩ t v)) (encTable t)
            (tables.map encTable)) []) := by
  obtain ⟨g, rfl⟩ : ∃ g, f = g + 11 := ⟨f - 11, by omega⟩
  have hc : ∀ k, callF (mkRec P (g+k)) m_SeatThread__connect
      [.obj n_SeatThread [(n__w, encSeatWorld p0 q (req :: c) out (encTable t) (tables.map encTable))]]
      = .ok (.bool false, _) := fun k =>
    ((seat_connect_translated N (g+k+1) (by omega) p0 q c req out t tables team seat version s' hparse).1 v hv hne).2
  rw [callFn, call_succ]
  exact sc_run_refused g _ _ hc

/-- (3, the remaining `False` paths of `_connect`) seated, but `ready for teams` / `ready to start` does not pass: `run()`
returns `None` having performed exactly the operations of `seat_connect_not_ready_translated` -/
theorem seat_run_not_ready_translated (N f : Nat) (hf : N + 35 ≤ f) (p0 : Seat) (q c : List Str) (req ready : Str)
    (out : List Val) (t : Table) (tables : List Table) (team : Str) (seat : Seat) (version : Nat) (s' : Val)
    (hparse : ∀ g, N ≤ g → callFn P g m_PlayerThread_parse_connection_info [.str req]
      = .ok (.tuple [.str team, encSeat seat, .int version], s'))
    (hv : (admitReq t ⟨team, seat, version⟩).2 = .seated) :
    let r : Request := ⟨team, seat, version⟩
    (SeatB.failsCheck (seat.formal ++ " ready for teams".toList) ready →
      callFn P f m_SeatThread_run
          [encSeatThread0 (encSeatWorld p0 q (req :: ready :: c) out (encTable t) (tables.map encTable))]
        = .ok (.none, encSeatThread seat (encSeatWorld p0 q c (out ++ [.tuple [vstr "recv"],
            .tuple [vstr "table", encSeat seat, .str team], .tuple [vstr "send", .str (replyText r t .seated)],
            .tuple [vstr "recv"], .tuple [vstr "send", vstr "ERROR: Unexpected message received."],
            .tuple [vstr "close", .none], .tuple [vstr "event_set", .none]])
            (encTable (admitReq t r).1) (tables.map encTable)) [])) ∧
    (SeatB.passesCheck (seat.formal ++ " ready for teams".toList) ready → ∀ (start : Str) (c' : List Str),
      c = start :: c' → SeatB.failsCheck (seat.formal ++ " ready to start".toList) start →
      callFn P f m_SeatThread_run
          [encSeatThread0 (encSeatWorld p0 q (req :: ready :: c) out (encTable t) (tables.map encTable))]
        = .ok (.none, encSeatThread seat (encSeatWorld p0 q c' (out ++ [.tuple [vstr "recv"],
            .tuple [vstr "table", encSeat seat, .str team], .tuple [vstr "send", .str (replyText r t .seated)],
            .tuple [vstr "recv"], .tuple [vstr "event_set", .none], .tuple [vstr "sync"],
            .tuple [vstr "send", .str (teamsMsg (optText ((tables.headD (admitReq t r).1) .N))
              (optText ((tables.headD (admitReq t r).1) .E)))],
            .tuple [vstr "recv"], .tuple [vstr "send", vstr "ERROR: Unexpected message received."],
            .tuple [vstr "close", .none]])
            (encTable (tables.headD (admitReq t r).1)) (tables.tail.map encTable)) [])) := by
  intro r
  obtain ⟨g, rfl⟩ : ∃ g, f = g + 11 := ⟨f - 11, by omega⟩
  refine ⟨fun hr => ?_, fun hr start c' hc hst => ?_⟩
  · have hc : ∀ k, callF (mkRec P (g+k)) m_SeatThread__connect
        [.obj n_SeatThread [(n__w, encSeatWorld p0 q (req :: ready :: c) out (encTable t) (tables.map encTable))]]
        = .ok (.bool false, _) := fun k =>
      (seat_connect_not_ready_translated N (g+k+1) (by omega) p0 q c req ready out t tables team seat version s' hparse
        hv).1 hr
    rw [callFn, call_succ]
    exact sc_run_refused g _ _ hc
  · have hc : ∀ k, callF (mkRec P (g+k)) m_SeatThread__connect
        [.obj n_SeatThread [(n__w, encSeatWorld p0 q (req :: ready :: c) out (encTable t) (tables.map encTable))]]
        = .ok (.bool false, _) := fun k =>
      (seat_connect_not_ready_translated N (g+k+1) (by omega) p0 q c req ready out t tables team seat version s' hparse
        hv).2 hr start c' hc hst
    rw [callFn, call_succ]
    exact sc_run_refused g _ _ hc

/-! ## non-vacuity: North's thread through two boards (East plays a contract on the first — the thirteen tricks of
`SeatB.exQ` / `SeatB.exC` —, the second is passed out and ends the session) -/

def exQ2 : List Text :=
  ["Board number 1. Dealer North. Neither vulnerable.".toList, "North's cards : S A K. H -. D -. C -.".toList,
   "North".toList, "East".toList, "East bids 1NT".toList, "nothing happens".toList, "nothing happens".toList] ++
  SeatB.exQ ++
  ["next board".toList, "Board number 2. Dealer East. N/S vulnerable.".toList,
   "North's cards : S Q. H -. D -. C -.".toList, "North".toList, "nothing happens".toList, "passed out".toList,
   "End of session".toList]

def exC2 : List Text :=
  ["North ready for deal".toList, "north  READY for cards".toList, "North passes".toList,
   "North ready for East's bid".toList] ++ SeatB.exC ++
  ["North ready for deal".toList, "North ready for cards".toList, "North passes".toList]

theorem advBoards_nil (k : Nat) (t : Val) : advBoards k (t, []) = (t, []) := by
  induction k with
  | zero => rfl
  | succ k ih => exact ih

/-- (1) on these streams: both are consumed, 207 operations follow the first `send "Start of board"`
(board 1: 8 + 8 + 1 + 173 + 2, board 2: 8 + 4 + 1 + 2), and the table advanced four times -/
example : ∀ f, exQ2.length + 103 ≤ f → ∃ ops rest',
    exec P f [(K.self, encSeatThread .N (encSeatWorld .N exQ2 exC2 [] (.int 0)
        [.int 1, .int 2, .int 3, .int 4, .int 5]) [])] [runLoop]
      = .ok ((K.self, encSeatThread .N (encSeatWorld .N [] []
          ([] ++ [.tuple [vstr "send", .str MSG_START]] ++ ops) (.int 4) [.int 5]) []) :: rest', .ret .none) ∧
    ops.length = 207 := by
  intro f hf
  have h1 : ∃ acts, seatBoardsR .N 3 ⟨exQ2, exC2⟩ = some (acts, ⟨[], []⟩) ∧
      (encSeatActs .N acts).map List.length = some 207 := by
    have h : (match seatBoardsR .N 3 ⟨exQ2, exC2⟩ with
        | some (acts, ⟨[], []⟩) => (encSeatActs .N acts).map List.length == some 207
        | _ => false) = true := by decide +kernel
    cases hs : seatBoardsR .N 3 ⟨exQ2, exC2⟩ with
    | none => rw [hs] at h; cases h
    | some x =>
      obtain ⟨acts, ⟨q', c'⟩⟩ := x
      rw [hs] at h
      cases q' <;> cases c' <;> first | cases h | exact ⟨acts, rfl, by simpa using h⟩
  obtain ⟨acts, hm, hl⟩ := h1
  obtain ⟨ops, rest', ho, hx⟩ := seat_boards_translated .N 3 exQ2 exC2 [] [] acts [] (.int 0)
    [.int 1, .int 2, .int 3, .int 4, .int 5] [] [] hm (boardsChecksB_sound _ _ _ (by decide +kernel))
  have ht : boardsTables .N 3 ⟨exQ2, exC2⟩ (.int 0, [.int 1, .int 2, .int 3, .int 4, .int 5]) = (.int 4, [.int 5]) := by
    rw [boardsTables_eq_iterate, show boardsNum .N 3 ⟨exQ2, exC2⟩ = 2 from by decide +kernel]
    rfl
  rw [ht] at hx
  refine ⟨ops, rest', hx f hf, ?_⟩
  rw [ho] at hl
  simpa using hl

/-- (2) the whole thread: North joins South's team (`SeatB.exTable`), the table after the barrier is `SeatB.exFull`; `run()`
returns `None`, both streams are consumed, and after the five admission operations the world has recorded the 211
operations of `seatReactive` (barrier, `Teams`, `ready to start`, "Start of board", the 207 of the two boards) -/
example : ∀ f, 40 + exQ2.length + 113 ≤ f → ∃ ops,
    callFn P f m_SeatThread_run
        [encSeatThread0 (encSeatWorld .N exQ2
          (SeatB.exReq :: "north ready for teams".toList :: "NORTH  ready to start".toList :: exC2) []
          (encTable SeatB.exTable) ([SeatB.exFull].map encTable))]
      = .ok (.none, encSeatThread .N (encSeatWorld .N [] []
          ([] ++ seatingOps .N "Alpha".toList "North Alpha seated".toList ++ ops) (encTable SeatB.exFull) [])
          [(K.name, .str "Thread-North-(Alpha)".toList)]) ∧
    ops.length = 211 := by
  obtain ⟨s', hp⟩ := SeatB.parse_all_fuels (N := 40) (req := SeatB.exReq) (team := "Alpha".toList) (seat := .N)
    (version := 18) (by decide +kernel)
  intro f hf
  have h1 : ∃ acts, seatReactive .N
      (teamsMsg (optText (([SeatB.exFull].headD (admitReq SeatB.exTable ⟨"Alpha".toList, .N, 18⟩).1) .N))
        (optText (([SeatB.exFull].headD (admitReq SeatB.exTable ⟨"Alpha".toList, .N, 18⟩).1) .E)))
      exQ2 ("NORTH  ready to start".toList :: exC2) = some acts ∧
      (encSeatActs .N acts).map List.length = some 211 := by
    have h : (match seatReactive .N
        (teamsMsg (optText (([SeatB.exFull].headD (admitReq SeatB.exTable ⟨"Alpha".toList, .N, 18⟩).1) .N))
          (optText (([SeatB.exFull].headD (admitReq SeatB.exTable ⟨"Alpha".toList, .N, 18⟩).1) .E)))
        exQ2 ("NORTH  ready to start".toList :: exC2) with
        | some acts => (encSeatActs .N acts).map List.length == some 211
        | none => false) = true := by decide +kernel
    revert h
    cases seatReactive .N _ exQ2 ("NORTH  ready to start".toList :: exC2) with
    | none => intro h; cases h
    | some acts => intro h; exact ⟨acts, rfl, by simpa using h⟩
  obtain ⟨acts, hm, hl⟩ := h1
  obtain ⟨ops, bs, q', c', ho, hbs, hx⟩ := seat_run_translated 40 f exQ2 exC2 SeatB.exReq "north ready for teams".toList
    "NORTH  ready to start".toList [] SeatB.exTable [SeatB.exFull] _ .N 18 s' acts hf hp (by decide +kernel)
    (SeatB.passesCheck_of_isSome (by decide +kernel)) (SeatB.passesCheck_of_isSome (by decide +kernel))
    (boardsChecksB_sound _ _ _ (by decide +kernel)) hm
  have hq : (seatBoardsR .N (exQ2.length + 1) ⟨exQ2, exC2⟩).map (fun x => (x.2.q, x.2.c)) = some ([], []) := by
    decide +kernel
  rw [hbs] at hq
  simp only [Option.map_some, Option.some.injEq, Prod.mk.injEq] at hq
  obtain ⟨rfl, rfl⟩ := hq
  have e3 : replyText ⟨"Alpha".toList, .N, 18⟩ SeatB.exTable .seated = "North Alpha seated".toList := by decide +kernel
  have e5 : threadName .N "Alpha".toList = "Thread-North-(Alpha)".toList := by decide +kernel
  have ht : boardsTables .N (exQ2.length + 1) ⟨exQ2, exC2⟩
      (encTable ([SeatB.exFull].headD (admitReq SeatB.exTable ⟨"Alpha".toList, .N, 18⟩).1),
        [SeatB.exFull].tail.map encTable) = (encTable SeatB.exFull, []) := by
    rw [boardsTables_eq_iterate]
    exact advBoards_nil _ _
  rw [ht, e3, e5] at hx
  refine ⟨ops, hx, ?_⟩
  rw [ho] at hl
  simpa using hl

/-- (3) an old protocol version: `run()` returns `None` after the rejection -/
example : ∀ f, 75 ≤ f →
    callFn P f m_SeatThread_run
        [encSeatThread0 (encSeatWorld .N [] [SeatB.exReqOld] [] (encTable SeatB.exTable) ([SeatB.exFull].map encTable))]
      = .ok (.none, encSeatThread .N
          (encSeatWorld .N [] [] ([] ++ rejectOps "ERROR: Protocol version is not 18 but 17.".toList)
            (encTable SeatB.exTable) ([SeatB.exFull].map encTable)) []) := by
  obtain ⟨s', hp⟩ := SeatB.parse_all_fuels (N := 40) (req := SeatB.exReqOld) (team := "Alpha".toList) (seat := .N)
    (version := 17) (by decide +kernel)
  intro f hf
  have h := seat_run_refused_translated 40 f hf .N [] [] SeatB.exReqOld [] SeatB.exTable [SeatB.exFull] _ .N 17 s' hp
    .badVersion (by decide +kernel) (by decide)
  have e3 : replyText ⟨"Alpha".toList, .N, 17⟩ SeatB.exTable .badVersion
      = "ERROR: Protocol version is not 18 but 17.".toList := by decide +kernel
  rw [e3] at h
  exact h

end Bridge.Translated.SeatC
