import BridgeVerif.Translated.PbnParserLemmasF
/-! Translated PBN parser = model: `%` lines and content lines of `parse_stream` -/
set_option linter.unusedSimpArgs false
namespace Bridge.Translated
open Bridge Bridge.Py Bridge.Generated.PyCore Bridge.RegexPbn

theorem pp_m_group_call1 (f : Nat) (g0 g1 : Val) (gs : List Val) :
    callF (mkRec P (f+6)) m__Match_group [.obj n__Match [(n_texts, .tuple (g0 :: g1 :: gs))], .int 1]
      = .ok (g1, .obj n__Match [(n_texts, .tuple (g0 :: g1 :: gs))]) := rfl
theorem pp_m_group_call2 (f : Nat) (g0 g1 g2 : Val) (gs : List Val) :
    callF (mkRec P (f+6)) m__Match_group [.obj n__Match [(n_texts, .tuple (g0 :: g1 :: g2 :: gs))], .int 2]
      = .ok (g2, .obj n__Match [(n_texts, .tuple (g0 :: g1 :: g2 :: gs))]) := rfl
theorem pp_int_str (r : Rec) (s : Str) (n : Int) (h : parseInt? s = some n) : builtinF r P .int [.str s] = .ok (.int n) := by
  simp only [builtinF, h]; rfl
theorem pp_lstrip (r : Rec) (s : Str) : builtinF r P .lstrip [.str s] = .ok (.str (s.dropWhile isSpaceC)) := rfl

/-- a `%` line outside a comment (not semi-empty) -/
theorem pp_step_pct (hf : PbnRegexFacts) (f N : Nat) (fpv : Val) (rest : Str)
    (hp : pctLineOk ('%' :: rest) = true) (buf : List Str) (cl cb : List Str) (games : List Game) (tail : Env) :
    ∃ cl' tail', execF (mkRec P (f + 4 * N + 31)) P
        (psEnv ⟨false, buf⟩ cl cb fpv games (update tail n_line (.str ('%' :: rest)))) psBody
      = .ok (psEnv ⟨false, buf⟩ cl' cb fpv games tail', .cont) := by
  obtain ⟨mv, hmv, hb⟩ := pp_fullmatch_builtin hf ('%' :: rest)
  have hse : semiEmpty ('%' :: rest) = false := rfl
  rw [hse] at hmv
  simp only [pctLineOk, Bool.and_eq_true] at hp
  obtain ⟨m1, hb1, hm1⟩ := pp_version_builtin _ hp.1
  obtain ⟨m2, hb2⟩ := pp_export_builtin _ hp.2
  simp only [PBN_VERSION_PATTERN] at hb1
  simp only [PBN_EXPORT_PATTERN] at hb2
  simp only [psBody, m_PbnParser_parse_stream, List.getD_cons_succ, List.getD_cons_zero, psEnv, encPbnParser]
  rcases hm1 with rfl | ⟨g0, a, b, gs, na, nb, rfl, hna, hnb⟩
  · refine ⟨cl ++ [(sliceList ('%' :: rest) (some 1) none).dropWhile isSpaceC], ?_⟩
    ppsimp [pp_mth_replace, pp_replace_call, hb, hmv, pp_index_str0, pp_beq_pct, hb1, hb2, pp_truthy_none, ite_self,
      pp_lstrip, List.map_append, List.map_cons, List.map_nil]
    exact ⟨_, rfl⟩
  · refine ⟨cl ++ [(sliceList ('%' :: rest) (some 1) none).dropWhile isSpaceC], ?_⟩
    ppsimp [pp_mth_replace, pp_replace_call, hb, hmv, pp_index_str0, pp_beq_pct, hb1, hb2, pp_truthy_obj, ite_self,
      pp_lstrip, List.map_append, List.map_cons, List.map_nil, pp_mth_m_group, pp_m_group_call1, pp_m_group_call2,
      pp_int_str _ a na hna, pp_int_str _ b nb hnb]
    exact ⟨_, rfl⟩

theorem pp_truthy_beq_pct (c : Char) : truthy (.bool ((Val.str [c]).beq (.str ['%']))) = decide (c = '%') := by
  rw [pp_truthy_bool, pp_beq_pct]

/-- a line handed to `extract_content` -/
theorem pp_step_content (hf : PbnRegexFacts) (f N : Nat) (fpv : Val) (c : Char) (rest : Str) (ic : Bool)
    (h1 : (semiEmpty (c :: rest) && !ic) = false) (h2 : (decide (c = '%') && !ic) = false)
    (hlen : (c :: rest).length < N) (buf : List Str) (cl cb : List Str) (games : List Game) (tail : Env) :
    ∃ cl' cb' tail', execF (mkRec P (f + 4 * N + 31)) P
        (psEnv ⟨ic, buf⟩ cl cb fpv games (update tail n_line (.str (c :: rest)))) psBody
      = .ok (psEnv (extractContent ((c :: rest).length + 1) ⟨ic, buf⟩ (c :: rest)) cl' cb' fpv games tail', .next) := by
  obtain ⟨mv, hmv, hb⟩ := pp_fullmatch_builtin hf (c :: rest)
  obtain ⟨cl', cb', hec⟩ := pp_extract_call hf N (f + 14) ((c :: rest).length + 1) ⟨ic, buf⟩ cl cb (c :: rest) hlen
    (Nat.lt_succ_self _)
  have e : f + 14 + 4 * N + 16 = f + 4 * N + 30 := by omega
  rw [e] at hec
  refine ⟨cl', cb', ?_⟩
  generalize extractContent ((c :: rest).length + 1) ⟨ic, buf⟩ (c :: rest) = st' at hec ⊢
  simp only [encPbnParser] at hec
  simp only [psBody, m_PbnParser_parse_stream, List.getD_cons_succ, List.getD_cons_zero, psEnv, encPbnParser]
  cases hsem : semiEmpty (c :: rest) <;> rw [hsem] at hmv h1 <;> cases hd : decide (c = '%') <;> cases ic <;> rw [hd] at h2 <;>
    simp only [Bool.not_false, Bool.not_true, Bool.and_true, Bool.and_false, decide_true, decide_false,
      Bool.true_eq_false, Bool.false_eq_true] at h1 h2
  all_goals
    ppsimp [pp_mth_replace, pp_replace_call, hb, hmv, pp_index_str0, pp_beq_pct, hd, pp_mth_extract, hec]
    exact ⟨_, rfl⟩

end Bridge.Translated
