import BridgeVerif.Translated.ThreadsSeatDLemmasE
/-!
# The CAPSTONE for the seat thread: the TRANSLATED `SeatThread.run` performs EXACTLY the session program

`SeatC.seat_run_translated` (the generated `m_SeatThread_run` in the whole translated program `P` = admission +
`seatReactive`) composed with `C09.seat_thread_follows_its_queue` (`seatReactive` on the session's streams =
`sessionProg sc (.seat p)`), the `ready …` checks discharged for the texts the session model's clients send.

* Translated/ThreadsSeatDLemmasA.lean — the finite families of `ready` texts, decided in the kernel;
* Translated/ThreadsSeatDLemmasB.lean — (1) `session_ready_messages_pass` and the lemmas per shape;
* Translated/ThreadsSeatDLemmasC.lean — the checks of the deal, the auction, one card on the session's streams;
* Translated/ThreadsSeatDLemmasD.lean — one trick, the thirteen tricks, the play of a board;
* Translated/ThreadsSeatDLemmasE.lean — one board, all the boards (`boards_checks`), their number (`boards_num`);
* here: (2) `session_boards_checks`, (3) `translated_seat_thread_is_session_program`.
-/
set_option maxRecDepth 4000
namespace Bridge.Translated.SeatD
open Bridge Bridge.Py Bridge.Generated.PyCore
open Bridge.Translated.SeatB (encSeatThread0 encTable threadName optText)
open Bridge.Translated.SeatC (boardsChecks boardsTables seatingOps seat_run_translated advBoards)

/-- the queue stream of seat `p` in a session: what main sends on `m2t p` -/
theorem session_q_eq (sc : Scenario) (p : Seat) :
    sendsOn (Chan.m2t p) (sessionProg sc .main) = (boardsPhases sc 1 sc.boards).flatMap (qOf p) := by
  unfold sessionProg sessionPhases
  rw [sendsOn_progOfPhases, List.flatMap_cons]
  show qOf p _ ++ List.flatMap (qOf p) _ = _
  rw [qOf_seating]; rfl

/-- the connection stream of seat `p` in a session: `<p> ready to start`, then the boards -/
theorem session_c_eq (sc : Scenario) (p : Seat) :
    sendsOn (Chan.c2s p) (sessionProg sc (.client p)) =
      (p.formal ++ " ready to start".toList) :: (boardsPhases sc 1 sc.boards).flatMap (cOf p) := by
  unfold sessionProg sessionPhases
  rw [sendsOn_progOfPhases, List.flatMap_cons]
  show cOf p _ ++ List.flatMap (cOf p) _ = _
  rw [cOf_seating]; rfl

/-- (2) THE SESSION'S STREAMS PASS EVERY CHECK: for a playable scenario with at least one board, every `ready …` message
the translated seat thread of `p` consumes from its client during the boards passes `_check_message`, the queue being
what main sends on `m2t p` and the connection what the client sends on `c2s p` after `<p> ready to start` -/
theorem session_boards_checks (sc : Scenario) (h : sc.boards ≠ []) (hw : ScenarioPlayable sc) (p : Seat) :
    boardsChecks p ((sendsOn (Chan.m2t p) (sessionProg sc .main)).length + 1)
      ⟨sendsOn (Chan.m2t p) (sessionProg sc .main), (sendsOn (Chan.c2s p) (sessionProg sc (.client p))).tail⟩ := by
  rw [session_q_eq, session_c_eq, List.tail_cons]
  have hb := boards_checks sc p [] [] sc.boards 1 (((boardsPhases sc 1 sc.boards).flatMap (qOf p)).length + 1) h
    (fun bd hbd => hw bd.1 bd.2 hbd)
  simp only [List.append_nil] at hb
  exact hb

/-- the boards consume the session's streams entirely -/
theorem session_boards_run (sc : Scenario) (h : sc.boards ≠ []) (hw : ScenarioPlayable sc) (p : Seat) :
    ∃ bs, seatBoardsR p ((sendsOn (Chan.m2t p) (sessionProg sc .main)).length + 1)
      ⟨sendsOn (Chan.m2t p) (sessionProg sc .main), (sendsOn (Chan.c2s p) (sessionProg sc (.client p))).tail⟩
        = some (bs, ⟨[], []⟩) := by
  rw [session_q_eq, session_c_eq, List.tail_cons]
  have hrun := seatBoardsR_boards sc p [] [] sc.boards 1
    (((boardsPhases sc 1 sc.boards).flatMap (qOf p)).length + 1) h (fun bd hbd => hw bd.1 bd.2 hbd)
    (by have := boardsPhases_q_length sc p sc.boards 1; omega)
  simp only [List.append_nil] at hrun
  exact ⟨_, hrun⟩

/-- two barrier waits per board of the scenario -/
theorem session_boards_tables (sc : Scenario) (h : sc.boards ≠ []) (hw : ScenarioPlayable sc) (p : Seat)
    (tt : Val × List Val) :
    boardsTables p ((sendsOn (Chan.m2t p) (sessionProg sc .main)).length + 1)
      ⟨sendsOn (Chan.m2t p) (sessionProg sc .main), (sendsOn (Chan.c2s p) (sessionProg sc (.client p))).tail⟩ tt
      = advBoards sc.boards.length tt := by
  rw [SeatC.boardsTables_eq_iterate, session_q_eq, session_c_eq, List.tail_cons]
  have hb := boards_num sc p [] [] sc.boards 1 (((boardsPhases sc 1 sc.boards).flatMap (qOf p)).length + 1) h
    (fun bd hbd => hw bd.1 bd.2 hbd) (by have := boardsPhases_q_length sc p sc.boards 1; omega)
  simp only [List.append_nil] at hb
  rw [hb]

/-- (3, relative to the checks) the capstone with `boardsChecks` of the session streams as a hypothesis -/
theorem translated_seat_thread_is_session_program_of_checks (sc : Scenario) (h : sc.boards ≠ [])
    (hw : ScenarioPlayable sc) (p : Seat) (N f : Nat) (req ready : Str) (out : List Val) (t : Table)
    (tables : List Table) (team : Str) (s' : Val)
    (hf : N + (sendsOn (Chan.m2t p) (sessionProg sc .main)).length + 113 ≤ f)
    (hparse : ∀ g, N ≤ g → callFn P g m_PlayerThread_parse_connection_info [.str req]
      = .ok (.tuple [.str team, encSeat p, .int 18], s'))
    (hv : (admitReq t ⟨team, p, 18⟩).2 = .seated)
    (hr : SeatB.passesCheck (p.formal ++ " ready for teams".toList) ready)
    (hN : optText ((tables.headD (admitReq t ⟨team, p, 18⟩).1) .N) = sc.nsName)
    (hE : optText ((tables.headD (admitReq t ⟨team, p, 18⟩).1) .E) = sc.ewName)
    (hck : boardsChecks p ((sendsOn (Chan.m2t p) (sessionProg sc .main)).length + 1)
      ⟨sendsOn (Chan.m2t p) (sessionProg sc .main), (sendsOn (Chan.c2s p) (sessionProg sc (.client p))).tail⟩) :
    ∃ ops q' c', encSeatActs p (sessionProg sc (.seat p)) = some ops ∧
      callFn P f m_SeatThread_run
          [encSeatThread0 (encSeatWorld p (sendsOn (Chan.m2t p) (sessionProg sc .main))
            (req :: ready :: sendsOn (Chan.c2s p) (sessionProg sc (.client p))) out (encTable t) (tables.map encTable))]
        = .ok (.none, encSeatThread p (encSeatWorld p q' c'
            (out ++ seatingOps p team (replyText ⟨team, p, 18⟩ t .seated) ++ ops)
            (boardsTables p ((sendsOn (Chan.m2t p) (sessionProg sc .main)).length + 1)
              ⟨sendsOn (Chan.m2t p) (sessionProg sc .main), (sendsOn (Chan.c2s p) (sessionProg sc (.client p))).tail⟩
              (encTable (tables.headD (admitReq t ⟨team, p, 18⟩).1), tables.tail.map encTable)).1
            (boardsTables p ((sendsOn (Chan.m2t p) (sessionProg sc .main)).length + 1)
              ⟨sendsOn (Chan.m2t p) (sessionProg sc .main), (sendsOn (Chan.c2s p) (sessionProg sc (.client p))).tail⟩
              (encTable (tables.headD (admitReq t ⟨team, p, 18⟩).1), tables.tail.map encTable)).2)
            [(K.name, .str (threadName p team))]) := by
  have hm := C09.seat_thread_follows_its_queue sc h hw p
  have hc := session_c_eq sc p
  generalize sendsOn (Chan.m2t p) (sessionProg sc .main) = q at *
  generalize sendsOn (Chan.c2s p) (sessionProg sc (.client p)) = c at *
  subst hc
  rw [← hN, ← hE] at hm
  obtain ⟨ops, bs, q', c', ho, _, hx⟩ := seat_run_translated N f q _ req ready _ out t tables team p 18 s' _ hf hparse hv hr
    (ready_start_passes p) hck hm
  exact ⟨ops, q', c', ho, hx⟩

/-- (3) THE CAPSTONE.  A playable scenario `sc` with at least one board, a seat `p`; the connection delivers a request
`req` the translated `parse_connection_info` reads as `(team, p, 18)`, then `ready` (any text passing the check against
`<p> ready for teams`), then EXACTLY what the session model's client of `p` sends; the queue delivers EXACTLY what the
session model's main thread sends to `p`; `admitReq` seats the request on `t`; the table after the seating barrier has
`sc.nsName` at North and `sc.ewName` at East.  Then the generated `SeatThread.run` returns `None`, has consumed both
streams entirely, and the world has recorded, after the five admission operations `seatingOps`, EXACTLY the rendering of
the session program `sessionProg sc (.seat p)` — the program the completion theorems of Props/C09.lean are about.  The
table has advanced twice per board.  No check hypothesis is left. -/
theorem translated_seat_thread_is_session_program_of_ready (sc : Scenario) (h : sc.boards ≠ [])
    (hw : ScenarioPlayable sc) (p : Seat) (N f : Nat) (req ready : Str) (out : List Val) (t : Table)
    (tables : List Table) (team : Str) (s' : Val)
    (hf : N + (sendsOn (Chan.m2t p) (sessionProg sc .main)).length + 113 ≤ f)
    (hparse : ∀ g, N ≤ g → callFn P g m_PlayerThread_parse_connection_info [.str req]
      = .ok (.tuple [.str team, encSeat p, .int 18], s'))
    (hv : (admitReq t ⟨team, p, 18⟩).2 = .seated)
    (hr : SeatB.passesCheck (p.formal ++ " ready for teams".toList) ready)
    (hN : optText ((tables.headD (admitReq t ⟨team, p, 18⟩).1) .N) = sc.nsName)
    (hE : optText ((tables.headD (admitReq t ⟨team, p, 18⟩).1) .E) = sc.ewName) :
    ∃ ops, encSeatActs p (sessionProg sc (.seat p)) = some ops ∧
      callFn P f m_SeatThread_run
          [encSeatThread0 (encSeatWorld p (sendsOn (Chan.m2t p) (sessionProg sc .main))
            (req :: ready :: sendsOn (Chan.c2s p) (sessionProg sc (.client p))) out (encTable t) (tables.map encTable))]
        = .ok (.none, encSeatThread p (encSeatWorld p [] []
            (out ++ seatingOps p team (replyText ⟨team, p, 18⟩ t .seated) ++ ops)
            (advBoards sc.boards.length
              (encTable (tables.headD (admitReq t ⟨team, p, 18⟩).1), tables.tail.map encTable)).1
            (advBoards sc.boards.length
              (encTable (tables.headD (admitReq t ⟨team, p, 18⟩).1), tables.tail.map encTable)).2)
            [(K.name, .str (threadName p team))]) := by
  have hm := C09.seat_thread_follows_its_queue sc h hw p
  have hck := session_boards_checks sc h hw p
  obtain ⟨bs0, hrun⟩ := session_boards_run sc h hw p
  have htab := session_boards_tables sc h hw p
    (encTable (tables.headD (admitReq t ⟨team, p, 18⟩).1), tables.tail.map encTable)
  have hc := session_c_eq sc p
  generalize sendsOn (Chan.m2t p) (sessionProg sc .main) = q at *
  generalize sendsOn (Chan.c2s p) (sessionProg sc (.client p)) = c at *
  subst hc
  rw [← hN, ← hE] at hm
  simp only [List.tail_cons] at hck hrun htab
  obtain ⟨ops, bs, q', c', ho, hbs, hx⟩ := seat_run_translated N f q _ req ready _ out t tables team p 18 s' _ hf hparse
    hv hr (ready_start_passes p) hck hm
  rw [hrun] at hbs
  simp only [Option.some.injEq, Prod.mk.injEq, SeatIn.mk.injEq] at hbs
  obtain ⟨_, rfl, rfl⟩ := hbs
  rw [htab] at hx
  exact ⟨ops, ho, hx⟩

/-- (3) the capstone with the conforming admission text `<p> ready for teams` itself -/
theorem translated_seat_thread_is_session_program (sc : Scenario) (h : sc.boards ≠ [])
    (hw : ScenarioPlayable sc) (p : Seat) (N f : Nat) (req : Str) (out : List Val) (t : Table)
    (tables : List Table) (team : Str) (s' : Val)
    (hf : N + (sendsOn (Chan.m2t p) (sessionProg sc .main)).length + 113 ≤ f)
    (hparse : ∀ g, N ≤ g → callFn P g m_PlayerThread_parse_connection_info [.str req]
      = .ok (.tuple [.str team, encSeat p, .int 18], s'))
    (hv : (admitReq t ⟨team, p, 18⟩).2 = .seated)
    (hN : optText ((tables.headD (admitReq t ⟨team, p, 18⟩).1) .N) = sc.nsName)
    (hE : optText ((tables.headD (admitReq t ⟨team, p, 18⟩).1) .E) = sc.ewName) :
    ∃ ops, encSeatActs p (sessionProg sc (.seat p)) = some ops ∧
      callFn P f m_SeatThread_run
          [encSeatThread0 (encSeatWorld p (sendsOn (Chan.m2t p) (sessionProg sc .main))
            (req :: (p.formal ++ " ready for teams".toList) :: sendsOn (Chan.c2s p) (sessionProg sc (.client p)))
            out (encTable t) (tables.map encTable))]
        = .ok (.none, encSeatThread p (encSeatWorld p [] []
            (out ++ seatingOps p team (replyText ⟨team, p, 18⟩ t .seated) ++ ops)
            (advBoards sc.boards.length
              (encTable (tables.headD (admitReq t ⟨team, p, 18⟩).1), tables.tail.map encTable)).1
            (advBoards sc.boards.length
              (encTable (tables.headD (admitReq t ⟨team, p, 18⟩).1), tables.tail.map encTable)).2)
            [(K.name, .str (threadName p team))]) :=
  translated_seat_thread_is_session_program_of_ready sc h hw p N f req _ out t tables team s' hf hparse hv
    (ready_teams_passes p) hN hE

end Bridge.Translated.SeatD

namespace Bridge.Translated.SeatD
open Bridge Bridge.Py Bridge.Generated.PyCore
open Bridge.Translated.SeatB (encSeatThread0 encTable threadName optText)
open Bridge.Translated.SeatC (seatingOps advBoards)

/-! ## non-vacuity: one board, passed out; teams Alpha (N/S) and Beta (E/W); North's thread -/

def exBoard : BoardSetting := { boardId := "1".toList, dealer := .N, vul := .none, deal := fun _ => [] }
def exDecisions : Decisions :=
  { calls := [(.pass, "North passes".toList), (.pass, "East passes".toList), (.pass, "South passes".toList),
      (.pass, "West passes".toList)], cards := [] }
def exSc : Scenario := { nsName := "Alpha".toList, ewName := "Beta".toList, boards := [(exBoard, exDecisions)] }

theorem exSc_playable : ScenarioPlayable exSc := by
  intro b d hm c hc hpo
  simp only [exSc, List.mem_singleton, Prod.mk.injEq] at hm
  obtain ⟨rfl, rfl⟩ := hm
  have h : (contractOfCalls exBoard (exDecisions.calls.map (·.1))).map Contract.isPassedOut = some true := by
    decide +kernel
  rw [hc] at h
  simp only [Option.map_some, Option.some.injEq] at h
  rw [h] at hpo
  cases hpo

theorem exSc_boards : exSc.boards ≠ [] := List.cons_ne_nil _ _

/-- (1) on concrete texts: West awaits dummy's (South's, North declaring) card to trick 13 -/
example : SeatB.passesCheck (SeatB.readyCardText .W .N .S 13)
    (readyFor .W ((if Seat.S = Seat.N.partner then "dummy".toList else Seat.S.formal) ++ "'s card to trick ".toList ++
      natStr 13)) :=
  ready_card_passes .W .N .S 13 (by omega) (by omega)
example : readyFor .W ((if Seat.S = Seat.N.partner then "dummy".toList else Seat.S.formal) ++ "'s card to trick ".toList ++
    natStr 13) = "West ready for dummy's card to trick 13".toList := by decide +kernel

/-- (2) on the example scenario -/
example : SeatC.boardsChecks .N ((sendsOn (Chan.m2t .N) (sessionProg exSc .main)).length + 1)
    ⟨sendsOn (Chan.m2t .N) (sessionProg exSc .main), (sendsOn (Chan.c2s .N) (sessionProg exSc (.client .N))).tail⟩ :=
  session_boards_checks exSc exSc_boards exSc_playable .N

/-- (3) North connects to the table where South (Alpha) and East (Beta) sit (`SeatB.exTable`), the table after the
barrier is `SeatB.exFull`: the translated `run()` performs the five admission operations and then exactly the session
program of `Tid.seat .N` for the passed-out board -/
example : ∀ f, 40 + (sendsOn (Chan.m2t .N) (sessionProg exSc .main)).length + 113 ≤ f →
    ∃ ops, encSeatActs .N (sessionProg exSc (.seat .N)) = some ops ∧
      callFn P f m_SeatThread_run
          [encSeatThread0 (encSeatWorld .N (sendsOn (Chan.m2t .N) (sessionProg exSc .main))
            (SeatB.exReq :: "North ready for teams".toList :: sendsOn (Chan.c2s .N) (sessionProg exSc (.client .N)))
            [] (encTable SeatB.exTable) ([SeatB.exFull].map encTable))]
        = .ok (.none, encSeatThread .N (encSeatWorld .N [] []
            ([] ++ seatingOps .N "Alpha".toList (replyText ⟨"Alpha".toList, .N, 18⟩ SeatB.exTable .seated) ++ ops)
            (advBoards 1 (encTable ([SeatB.exFull].headD (admitReq SeatB.exTable ⟨"Alpha".toList, .N, 18⟩).1),
              [SeatB.exFull].tail.map encTable)).1
            (advBoards 1 (encTable ([SeatB.exFull].headD (admitReq SeatB.exTable ⟨"Alpha".toList, .N, 18⟩).1),
              [SeatB.exFull].tail.map encTable)).2)
            [(K.name, .str (threadName .N "Alpha".toList))]) := by
  obtain ⟨s', hp⟩ := SeatB.parse_all_fuels (N := 40) (req := SeatB.exReq) (team := "Alpha".toList) (seat := .N)
    (version := 18) (by decide +kernel)
  intro f hf
  exact translated_seat_thread_is_session_program exSc exSc_boards exSc_playable .N 40 f SeatB.exReq [] SeatB.exTable
    [SeatB.exFull] "Alpha".toList s' hf hp (by decide +kernel) rfl rfl

/-- the session program of North's seat thread on this scenario is not trivial: 34 actions -/
example : (sessionProg exSc (.seat .N)).length = 34 := by decide +kernel

end Bridge.Translated.SeatD
