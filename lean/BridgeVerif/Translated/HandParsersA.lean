import BridgeVerif.Translated.HandsPbnLemmasB
import BridgeVerif.Lemmas.RegexMsgHandB
import BridgeVerif.Model.Msg
/-! Translated `Client.parse_cards` (client.py, through `MessageInterface.parse_match_base` of socket_interface.py) = model,
part A: the match object `re.match(…, re.IGNORECASE)` hands to the program when the engine's groups are known,
`parse_match_base` at any sufficient fuel, and `parse_cards(content, name)` = `parseCards? content name` — returns `.str`
of the model's group, or raises `Exception` when the model has `none` — for each of the five names (a seat's formal name,
`Dummy`), EVERY text whose characters are in the class `RegexMsgHand.agreeCards` (every ASCII text), every fuel ≥ 13. -/
set_option maxRecDepth 4000
namespace Bridge.Translated.HandParsers
open Bridge Bridge.Py Bridge.Generated.PyCore Bridge.Translated Bridge.RegexHands Bridge.RegexMsgHand
open Bridge.Translated.HandsPbn

/-! ## the match object (`re.IGNORECASE`) -/
theorem hq_reMatch_none (r : Rec) (pat s : List Char)
    (h : (Re.pyMatch true pat s).map (Option.map (groupTexts s)) = some none) :
    builtinF r P .reMatch [.str pat, .str s, .bool true, .cls n__Match, .int n_texts] = .ok .none := by
  cases hp : Re.pyMatch true pat s with
  | none => rw [hp] at h; cases h
  | some om =>
    rw [hp] at h
    cases om with
    | none => simp only [builtinF, hp]; rfl
    | some m => simp at h

theorem hq_reMatch_some (pat s : List Char) (gs : List (List Char))
    (h : (Re.pyMatch true pat s).map (Option.map (groupTexts s)) = some (some (gs.map some))) :
    ∃ g0, ∀ r : Rec, builtinF r P .reMatch [.str pat, .str s, .bool true, .cls n__Match, .int n_texts]
      = .ok (.obj n__Match [(n_texts, .tuple (.str g0 :: gs.map Val.str))]) := by
  cases hp : Re.pyMatch true pat s with
  | none => rw [hp] at h; cases h
  | some om =>
    rw [hp] at h
    cases om with
    | none => simp at h
    | some m =>
      simp only [Option.map_some, Option.some.injEq, groupTexts] at h
      refine ⟨Re.slice s m.span.1 m.span.2, fun r => ?_⟩
      have e : builtinF r P .reMatch [.str pat, .str s, .bool true, .cls n__Match, .int n_texts]
          = .ok (matchVal n__Match n_texts s m) := by
        simp only [builtinF, hp]; rfl
      rw [e, hp_matchVal, hp_grp_map s _ _ h]

/-! ## `parse_match_base` -/
theorem hq_mth_pmb : P.method? classDepth n_MessageInterface n_parse_match_base
    = some (n_MessageInterface, m_MessageInterface_parse_match_base) := rfl

theorem hq_beq_none_none : (Val.none).beq .none = true := by simp only [Val.beq]
theorem hq_beq_obj_none (c : Id) (fs : List (Id × Val)) : (Val.obj c fs).beq .none = false := by simp only [Val.beq]

/-- no match: `Exception` -/
theorem hq_pmb_none (f : Nat) (pat s : List Char)
    (h : (Re.pyMatch true pat s).map (Option.map (groupTexts s)) = some none) :
    callF (mkRec P (f+4)) m_MessageInterface_parse_match_base [.str pat, .str s] = .error (.exc K.Exception) := by
  rw [callF_def]
  simp only [m_MessageInterface_parse_match_base, bindParams, Option.map]
  ppsimp [hq_reMatch_none _ _ _ h, hq_beq_none_none]

/-- a match: the match object -/
theorem hq_pmb_some (pat s : List Char) (gs : List (List Char))
    (h : (Re.pyMatch true pat s).map (Option.map (groupTexts s)) = some (some (gs.map some))) :
    ∃ g0, ∀ f, callF (mkRec P (f+4)) m_MessageInterface_parse_match_base [.str pat, .str s]
      = .ok (.obj n__Match [(n_texts, .tuple (.str g0 :: gs.map Val.str))], .str pat) := by
  obtain ⟨g0, hre⟩ := hq_reMatch_some pat s gs h
  refine ⟨g0, fun f => ?_⟩
  rw [callF_def]
  simp only [m_MessageInterface_parse_match_base, bindParams, Option.map]
  ppsimp [hre, hq_beq_obj_none]

/-- `match.group(i)` on a match object with two texts -/
theorem hq_group_call2 (f : Nat) (x0 x1 : Val) (i : Int) (k : Nat) (h : normIndex 2 i = some k) :
    callF (mkRec P (f+6)) m__Match_group [.obj n__Match [(n_texts, .tuple [x0, x1])], .int i]
      = .ok ([x0, x1].getD k .none, .obj n__Match [(n_texts, .tuple [x0, x1])]) := by
  rw [callF_def]
  simp only [m__Match_group, bindParams, Option.map]
  ppsimp [index_tuple, h]

/-! ## `parse_cards` -/
theorem hq_mth_parse_cards : P.method? classDepth n_Client n_parse_cards = some (n_Client, m_Client_parse_cards) := rfl

theorem hq_norm2 : normIndex 2 1 = some 1 := by decide

theorem callFn_eq_callF (f : Nat) (fd : FuncDef) (args : List Val) :
    callFn P (f+1) fd args = callF (mkRec P f) fd args := rfl

theorem hq_parse_cards_call (f : Nat) (name : List Char) (hn : name ∈ cardNames) (content : List Char)
    (hs : ∀ x ∈ content, agreeCards x = true) :
    callF (mkRec P (f+12)) m_Client_parse_cards [.str content, .str name]
      = match parseCards? content name with
        | some t => .ok (.str t, .str content)
        | none => .error (.exc K.Exception) := by
  have hfact := match_cards name hn content hs
  unfold cardsFields? cardsPattern at hfact
  rw [callF_def]
  simp only [m_Client_parse_cards, bindParams, Option.map]
  cases hm : parseCards? content name with
  | none =>
    rw [hm] at hfact
    have hc := fun g => hq_pmb_none g _ _ hfact
    simp only [CARDS_TAIL] at hc
    ppsimp [strOfF, List.flatten_cons, List.flatten_nil, List.append_nil, hq_mth_pmb, hc]
  | some t =>
    rw [hm] at hfact
    obtain ⟨g0, hc⟩ := hq_pmb_some _ _ [t] hfact
    simp only [CARDS_TAIL, List.map_cons, List.map_nil] at hc
    ppsimp [strOfF, List.flatten_cons, List.flatten_nil, List.append_nil, hq_mth_pmb, hc, hp_mth_group,
      hq_group_call2 _ _ _ _ _ hq_norm2, List.getD_cons_succ, List.getD_cons_zero]

/-- TRANSLATED `parse_cards` = MODEL: for each of the five names the bundled client passes, every text whose characters
are in the class `agreeCards`, every fuel ≥ 13 — the generated `Client.parse_cards(content, name)` returns the text the
model's `parseCards?` reads, and raises `Exception` exactly when the model has `none` -/
theorem parse_cards_translated (name : List Char) (hn : name ∈ cardNames) (content : List Char)
    (hs : ∀ x ∈ content, agreeCards x = true) :
    ∀ f, 13 ≤ f → callFn P f m_Client_parse_cards [.str content, .str name]
      = match parseCards? content name with
        | some t => .ok (.str t, .str content)
        | none => .error (.exc K.Exception) := by
  intro f hf
  obtain ⟨g, rfl⟩ : ∃ g, f = (g + 12) + 1 := ⟨f - 13, by omega⟩
  rw [callFn_eq_callF]
  exact hq_parse_cards_call g name hn content hs

/-- … in particular for every ASCII text and every seat -/
theorem parse_cards_translated_ascii (p : Seat) (content : List Char) (hs : ∀ x ∈ content, x.toNat < 128) :
    ∀ f, 13 ≤ f → callFn P f m_Client_parse_cards [.str content, .str p.formal]
      = match parseCards? content p.formal with
        | some t => .ok (.str t, .str content)
        | none => .error (.exc K.Exception) :=
  parse_cards_translated p.formal (formal_mem_cardNames p) content fun x hx => agreeCards_ascii x (hs x hx)

end Bridge.Translated.HandParsers
