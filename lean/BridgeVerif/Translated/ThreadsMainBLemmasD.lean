import BridgeVerif.Translated.ThreadsMainBLemmasC
/-! Translated `MainThread.playing_phase`: a sufficient condition for the `parse_card` hypotheses (every message of the
streams parses alike on both sides), structurally recursive twins of `mainTrickR` / `mainPlayingR` (which the kernel can
evaluate), boolean checkers -/
set_option maxRecDepth 4000
set_option linter.unusedSimpArgs false
namespace Bridge.Translated.MainB
open Bridge Bridge.Py Bridge.Generated.PyCore

/-! ## `mainTrickR` unfolded; structurally recursive twins -/

theorem mainTrickR_unfold (decl : Seat) (dm : Text) (first : Bool) (idx : Nat) (w : WithHands) (i : MainIn) (h : idx < 4) :
    mainTrickR decl dm first idx w i =
      match MainIn.get i (playedM decl w) with
      | none => none
      | some (message, i1) =>
        match parseCard? message w.base.active with
        | none => none
        | some card =>
          match w.play card w.base.active with
          | .error _ => none
          | .ok w1 =>
            match mainTrickR decl dm first (idx + 1) w1 i1 with
            | none => none
            | some (rest, wf, i2) =>
              some ([.recv (.t2m (playedM decl w))] ++ putAllBut (playedM decl w) message ++
                (if first ∧ idx = 0 then putAllBut decl.partner dm else []) ++ rest, wf, i2) := by
  rw [mainTrickR]
  · rw [if_neg (by omega)]
    simp only [Option.bind_eq_bind, Option.pure_def]
    change ((MainIn.get i (playedM decl w)).bind _) = _
    cases MainIn.get i (playedM decl w) with
    | none => rfl
    | some mi =>
      obtain ⟨message, i1⟩ := mi
      simp only [Option.bind_some]
      cases parseCard? message w.base.active with
      | none => rfl
      | some card =>
        simp only [Option.bind_some]
        cases w.play card w.base.active with
        | error e => rfl
        | ok w1 =>
          simp only
          cases mainTrickR decl dm first (idx + 1) w1 i1 with
          | none => rfl
          | some res => rfl
  · omega

/-- `mainTrickR` by recursion on the number of cards still to come -/
def mainTrickS (decl : Seat) (dm : Text) (first : Bool) : Nat → Nat → WithHands → MainIn →
    Option (MainActs × WithHands × MainIn)
  | 0, _, w, i => some ([], w, i)
  | n + 1, idx, w, i =>
    match MainIn.get i (playedM decl w) with
    | none => none
    | some (message, i1) =>
      match parseCard? message w.base.active with
      | none => none
      | some card =>
        match w.play card w.base.active with
        | .error _ => none
        | .ok w1 =>
          match mainTrickS decl dm first n (idx + 1) w1 i1 with
          | none => none
          | some (rest, wf, i2) =>
            some ([.recv (.t2m (playedM decl w))] ++ putAllBut (playedM decl w) message ++
              (if first ∧ idx = 0 then putAllBut decl.partner dm else []) ++ rest, wf, i2)

theorem mainTrickS_eq (decl : Seat) (dm : Text) (first : Bool) : ∀ (n idx : Nat) (w : WithHands) (i : MainIn),
    idx + n = 4 → mainTrickR decl dm first idx w i = mainTrickS decl dm first n idx w i := by
  intro n
  induction n with
  | zero =>
    intro idx w i h
    have : idx = 4 := by omega
    subst this
    rw [mainTrickR_four]; rfl
  | succ n ih =>
    intro idx w i h
    rw [mainTrickR_unfold _ _ _ _ _ _ (by omega), mainTrickS]
    cases MainIn.get i (playedM decl w) with
    | none => rfl
    | some mi =>
      obtain ⟨message, i1⟩ := mi
      simp only
      cases parseCard? message w.base.active with
      | none => rfl
      | some card =>
        simp only
        cases w.play card w.base.active with
        | error e => rfl
        | ok w1 =>
          simp only
          rw [ih (idx + 1) w1 i1 (by omega)]

/-- `mainPlayingR.tricks` over `mainTrickS` -/
def tricksS (decl : Seat) (dm : Text) : Nat → Nat → WithHands → MainIn → Option (MainActs × WithHands × MainIn)
  | 0, _, w, i => some ([], w, i)
  | n + 1, k, w, i =>
    match mainTrickS decl dm (k = 1) 4 0 w i with
    | none => none
    | some (t, w', i') =>
      match tricksS decl dm n (k + 1) w' i' with
      | none => none
      | some (rest, wf, i_f) => some (putAll w.base.leader.formal ++ t ++ rest, wf, i_f)

theorem tricksS_eq (decl : Seat) (dm : Text) : ∀ (n k : Nat) (w : WithHands) (i : MainIn),
    mainPlayingR.tricks decl dm n k w i = tricksS decl dm n k w i := by
  intro n
  induction n with
  | zero => intro k w i; rfl
  | succ n ih =>
    intro k w i
    rw [tricks_succ, tricksS, mainTrickS_eq decl dm _ 4 0 w i rfl]
    cases mainTrickS decl dm (k = 1) 4 0 w i with
    | none => rfl
    | some x =>
      obtain ⟨t, w', i'⟩ := x
      simp only
      rw [ih]
      cases tricksS decl dm n (k + 1) w' i' <;> rfl

def mainPlayingS (decl : Seat) (dm : Text) (w0 : WithHands) (i : MainIn) : Option (MainActs × WithHands × MainIn) :=
  match tricksS decl dm 13 1 w0 i with
  | none => none
  | some (ts, w, i') => some (putAll decl.formal ++ ts, w, i')

theorem mainPlayingS_eq (decl : Seat) (dm : Text) (w0 : WithHands) (i : MainIn) :
    mainPlayingR decl dm w0 i = mainPlayingS decl dm w0 i := by
  rw [mainPlayingR_eq, tricksS_eq]; rfl

/-! ## every message of the streams parses alike on both sides -/

/-- whatever the model's `parseCard?` makes of a queued message (for whichever seat), the translated `parse_card` makes
the same of it -/
def AllParse (i : MainIn) : Prop :=
  ∀ p, ∀ m ∈ i p, ∀ a card, parseCard? m a = some card → ParsesTo m a card

theorem allParse_get {i i1 : MainIn} {p : Seat} {m : Text} (h : AllParse i) (hg : MainIn.get i p = some (m, i1)) :
    AllParse i1 ∧ m ∈ i p := by
  unfold MainIn.get at hg
  split at hg
  · rename_i m' r hip
    simp only [Option.some.injEq, Prod.mk.injEq] at hg
    obtain ⟨rfl, rfl⟩ := hg
    refine ⟨fun q x hx => ?_, by rw [hip]; exact List.mem_cons_self ..⟩
    by_cases hq : q = p
    · subst hq
      simp only [if_true] at hx
      exact h q x (by rw [hip]; exact List.mem_cons_of_mem _ hx)
    · simp only [hq, if_false] at hx
      exact h q x hx
  · cases hg

theorem trickParses_of_all (decl : Seat) : ∀ (n : Nat) (w : WithHands) (i : MainIn), AllParse i → TrickParses decl n w i := by
  intro n
  induction n with
  | zero => intro w i _; trivial
  | succ n ih =>
    intro w i h
    simp only [TrickParses]
    cases hg : MainIn.get i (playedM decl w) with
    | none => trivial
    | some mi =>
      obtain ⟨message, i1⟩ := mi
      obtain ⟨h1, hm⟩ := allParse_get h hg
      simp only
      cases hp : parseCard? message w.base.active with
      | none => trivial
      | some card =>
        simp only
        refine ⟨h _ _ hm _ _ hp, ?_⟩
        cases w.play card w.base.active with
        | error e => trivial
        | ok w1 => exact ih w1 i1 h1

theorem mainTrickS_allParse (decl : Seat) (dm : Text) (first : Bool) : ∀ (n idx : Nat) (w : WithHands) (i : MainIn)
    (t : MainActs) (w' : WithHands) (i' : MainIn), AllParse i → mainTrickS decl dm first n idx w i = some (t, w', i') →
    AllParse i' := by
  intro n
  induction n with
  | zero =>
    intro idx w i t w' i' h hr
    simp only [mainTrickS, Option.some.injEq, Prod.mk.injEq] at hr
    obtain ⟨_, _, rfl⟩ := hr
    exact h
  | succ n ih =>
    intro idx w i t w' i' h hr
    rw [mainTrickS] at hr
    cases hg : MainIn.get i (playedM decl w) with
    | none => rw [hg] at hr; cases hr
    | some mi =>
      obtain ⟨message, i1⟩ := mi
      rw [hg] at hr
      simp only at hr
      cases hp : parseCard? message w.base.active with
      | none => rw [hp] at hr; cases hr
      | some card =>
        rw [hp] at hr
        simp only at hr
        cases hpl : w.play card w.base.active with
        | error e => rw [hpl] at hr; cases hr
        | ok w1 =>
          rw [hpl] at hr
          simp only at hr
          cases hrr : mainTrickS decl dm first n (idx + 1) w1 i1 with
          | none => rw [hrr] at hr; cases hr
          | some res =>
            obtain ⟨rest, wf, i2⟩ := res
            rw [hrr] at hr
            simp only [Option.some.injEq, Prod.mk.injEq] at hr
            obtain ⟨_, _, rfl⟩ := hr
            exact ih (idx + 1) w1 i1 rest wf i2 (allParse_get h hg).1 hrr

/-- THE SUFFICIENT CONDITION: if every queued message parses alike on both sides, the hypotheses of
`main_playing_translated` about `parse_card` hold -/
theorem playParses_of_all (decl : Seat) (dm : Text) : ∀ (n k : Nat) (w : WithHands) (i : MainIn),
    AllParse i → PlayParses decl dm n k w i := by
  intro n
  induction n with
  | zero => intro k w i _; trivial
  | succ n ih =>
    intro k w i h
    simp only [PlayParses]
    refine ⟨trickParses_of_all decl 4 w i h, ?_⟩
    cases ht : mainTrickR decl dm (k = 1) 0 w i with
    | none => trivial
    | some x =>
      obtain ⟨t, w', i'⟩ := x
      simp only
      rw [mainTrickS_eq decl dm _ 4 0 w i rfl] at ht
      exact ih (k + 1) w' i' (mainTrickS_allParse decl dm _ 4 0 w i t w' i' h ht)

/-! ## boolean checkers (for concrete streams: one kernel evaluation) -/

/-- the result of a call of `parse_card`, read back: rank, suit value, and the final value of the first parameter -/
def parsedCard? (x : R (Val × Val)) : Option (Int × Int × List Char) :=
  match x with
  | .ok (.obj c [(k1, .int r), (k2, .enum sc sv)], .str s) =>
    if c = n_Card ∧ k1 = n_rank ∧ k2 = n_suit ∧ sc = n_Suit then some (r, sv, s) else none
  | _ => none

theorem parsedCard?_sound {x : R (Val × Val)} {r sv : Int} {s : List Char} (h : parsedCard? x = some (r, sv, s)) :
    x = .ok (.obj n_Card [(n_rank, .int r), (n_suit, .enum n_Suit sv)], .str s) := by
  unfold parsedCard? at h
  split at h
  · split at h
    · rename_i hc
      obtain ⟨rfl, rfl, rfl, rfl⟩ := hc
      simp only [Option.some.injEq, Prod.mk.injEq] at h
      obtain ⟨rfl, rfl, rfl⟩ := h
      rfl
    · cases h
  · cases h

/-- the model and the translated `parse_card` (at fuel 20) agree on message `m` for seat `a` -/
def chkParse (m : Text) (a : Seat) : Bool :=
  match parseCard? m a with
  | none => true
  | some card =>
    parsedCard? (callFn P 20 m_MessageInterface_parse_card [.str m, encSeat a])
      == some ((card.rank : Int), (card.suit.value : Int), m)

theorem chkParse_sound {m : Text} {a : Seat} (h : chkParse m a = true) (card : Card) (hp : parseCard? m a = some card) :
    ParsesTo m a card := by
  simp only [chkParse, hp, beq_iff_eq] at h
  exact parsesTo_of_one 20 (Nat.le_refl _) (parsedCard?_sound h)

def chkAll (i : MainIn) : Bool :=
  Seat.all.all fun p => (i p).all fun m => Seat.all.all fun a => chkParse m a

theorem allParse_of_chk {i : MainIn} (h : chkAll i = true) : AllParse i := by
  intro p m hm a card hp
  simp only [chkAll, List.all_eq_true] at h
  have hp' : p ∈ Seat.all := by cases p <;> decide
  have ha' : a ∈ Seat.all := by cases a <;> decide
  exact chkParse_sound (h p hp' m hm a ha') card hp

end Bridge.Translated.MainB
