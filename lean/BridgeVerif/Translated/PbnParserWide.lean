import BridgeVerif.Translated.PbnParserLemmasK
import BridgeVerif.Translated.PbnParserClosed
/-!
# pbn_handler/parser.py AS TRANSLATED = the model, for lines of up to 478 characters  (C17)

`Translated/PbnParser.lean` bounds a line by 239 characters (four levels of fuel per character for the recursion of
`extract_content`).  PBN 2.1 allows 255 characters per line, and the library's own writer emits lines of up to 255
characters including the line feed.  Here the finer measure `s.length + (1 inside a comment)` is used: every recursive
call of `extract_content` lowers it by at least TWO —
* leaving a comment (`'}' in string`): the `}` is dropped and the comment flag falls;
* the `; ` branch with a tag pair around the `;`: the remainder starts at `tag_pair.end() > x ≥ 1`, i.e. at least 2 further;
* the `{ ` branch: `y ≥ 1`, and the two characters of the marker are dropped (≥ 3 characters for the rising flag) —
so `f + 4 * n + 16` levels serve every string with `s.length + flag < 2 * n` (`pp_extract_call_wide`): two levels per
character.  With `topFuel = 1000`:

* `pp_extract_content_wide` — `s.length ≤ 488`;
* `pp_parse_stream_wide` — every line `≤ 480` characters; `pp_parse_all_wide` — every line `≤ 478` characters;
  `…_from` variants from any parser state; `…_no_pct` variants for files without `%` lines;
* `pp_parse_stream_wide_empty_line`, `pp_parse_all_wide_empty_line` — the guard: when an EMPTY line follows good lines,
  `line[0]` raises `IndexError` (a file object never yields an empty line; the lines after it are arbitrary);
* `…_closed` versions with `pbnRegexFacts` / `sub_matches_nonempty` (Lemmas/RegexPbn.lean) plugged in.

Hypotheses: as in `Translated/PbnParser.lean` (`PbnRegexFacts`, `PbnSubNonempty`, non-empty lines, `pctLineOk` for the
lines that start with `%`), with the wider length bound — still only a limit of the interpreter's fuel.  The number of
lines is unbounded.
-/
namespace Bridge.Translated
open Bridge Bridge.Py Bridge.Generated.PyCore Bridge.RegexPbn

theorem pp_extract_content_wide (hf : PbnRegexFacts) (st : PbnSt) (cl cb : List Str) (s : Str)
    (hlen : s.length ≤ 488) :
    ∃ cl' cb', P.runMethod n_PbnParser n_extract_content [encPbnParser st cl cb, .str s]
      = .ok (.none, encPbnParser (extractContent (s.length + 1) st s) cl' cb') := by
  rw [pp_runMethod_eq _ _ _ _ _ pp_mth_extract]
  have hb : st.inComment.toNat ≤ 1 := Bool.toNat_le _
  exact pp_extract_call_wide hf 245 3 (s.length + 1) st cl cb s (by omega) (Nat.lt_succ_self _)

theorem pp_linesOkW (N B : Nat) (hB : B + 1 < 2 * N) (lines : List Str) (hok : ∀ l ∈ lines, l ≠ [] ∧ l.length ≤ B)
    (hpct : ∀ l ∈ lines, l.head? = some '%' → pctLineOk l = true) : LinesOkW N lines :=
  fun l hl => ⟨(hok l hl).1, by have := (hok l hl).2; omega, hpct l hl⟩

/-! ## `parse_stream` -/
theorem pp_parse_stream_wide_from (hf : PbnRegexFacts) (hne : PbnSubNonempty) (lines : List Str)
    (hok : ∀ l ∈ lines, l ≠ [] ∧ l.length ≤ 480) (hpct : ∀ l ∈ lines, l.head? = some '%' → pctLineOk l = true)
    (st : PbnSt) (cl cb : List Str) :
    ∃ st' cl' cb', P.runMethod n_PbnParser n_parse_stream [encPbnParser st cl cb, .tuple (lines.map Val.str)]
      = .ok (.tuple ((streamFrom st lines).map encGame), encPbnParser st' cl' cb') := by
  rw [pp_runMethod_eq _ _ _ _ _ pp_mth_stream]
  exact pp_stream_call_wide hf hne 2 241 lines (pp_linesOkW 241 480 (by decide) lines hok hpct) st cl cb

theorem pp_parse_stream_wide (hf : PbnRegexFacts) (hne : PbnSubNonempty) (lines : List Str)
    (hok : ∀ l ∈ lines, l ≠ [] ∧ l.length ≤ 480) (hpct : ∀ l ∈ lines, l.head? = some '%' → pctLineOk l = true) :
    ∃ self', P.runMethod n_PbnParser n_parse_stream [encPbnParser {} [] [], .tuple (lines.map Val.str)]
      = .ok (.tuple ((parseStream lines).map encGame), self') := by
  obtain ⟨st', cl', cb', h⟩ := pp_parse_stream_wide_from hf hne lines hok hpct {} [] []
  exact ⟨_, h⟩

theorem pp_parse_stream_wide_empty_line (hf : PbnRegexFacts) (hne : PbnSubNonempty) (pre post : List Str)
    (hok : ∀ l ∈ pre, l ≠ [] ∧ l.length ≤ 480) (hpct : ∀ l ∈ pre, l.head? = some '%' → pctLineOk l = true)
    (st : PbnSt) (cl cb : List Str) :
    P.runMethod n_PbnParser n_parse_stream [encPbnParser st cl cb, .tuple ((pre ++ [] :: post).map Val.str)]
      = .error (.exc K.IndexError) := by
  rw [pp_runMethod_eq _ _ _ _ _ pp_mth_stream]
  exact pp_stream_call_empty hf hne 2 241 pre post (pp_linesOkW 241 480 (by decide) pre hok hpct) st cl cb

/-! ## `parse_all` -/
theorem pp_parse_all_wide_from (hf : PbnRegexFacts) (hne : PbnSubNonempty) (lines : List Str)
    (hok : ∀ l ∈ lines, l ≠ [] ∧ l.length ≤ 478) (hpct : ∀ l ∈ lines, l.head? = some '%' → pctLineOk l = true)
    (st : PbnSt) (cl cb : List Str) :
    ∃ st' cl' cb', P.runMethod n_PbnParser n_parse_all [encPbnParser st cl cb, .tuple (lines.map Val.str)]
      = .ok (.tuple ((streamFrom st lines).map encGame), encPbnParser st' cl' cb') := by
  rw [pp_runMethod_eq _ _ _ _ _ pp_mth_all]
  exact pp_all_call_wide hf hne 3 240 lines (pp_linesOkW 240 478 (by decide) lines hok hpct) st cl cb

/-- THE TRANSLATED `PbnParser().parse_all(lines)` returns the model's games: lines of up to 478 characters -/
theorem pp_parse_all_wide (hf : PbnRegexFacts) (hne : PbnSubNonempty) (lines : List Str)
    (hok : ∀ l ∈ lines, l ≠ [] ∧ l.length ≤ 478) (hpct : ∀ l ∈ lines, l.head? = some '%' → pctLineOk l = true) :
    ∃ self', P.runMethod n_PbnParser n_parse_all [encPbnParser {} [] [], .tuple (lines.map Val.str)]
      = .ok (.tuple ((parseStream lines).map encGame), self') := by
  obtain ⟨st', cl', cb', h⟩ := pp_parse_all_wide_from hf hne lines hok hpct {} [] []
  exact ⟨_, h⟩

theorem pp_parse_all_wide_no_pct (hf : PbnRegexFacts) (hne : PbnSubNonempty) (lines : List Str)
    (hok : ∀ l ∈ lines, l ≠ [] ∧ l.length ≤ 478) (hno : ∀ l ∈ lines, l.head? ≠ some '%') :
    ∃ self', P.runMethod n_PbnParser n_parse_all [encPbnParser {} [] [], .tuple (lines.map Val.str)]
      = .ok (.tuple ((parseStream lines).map encGame), self') :=
  pp_parse_all_wide hf hne lines hok fun l hl h => absurd h (hno l hl)

theorem pp_parse_all_wide_empty_line (hf : PbnRegexFacts) (hne : PbnSubNonempty) (pre post : List Str)
    (hok : ∀ l ∈ pre, l ≠ [] ∧ l.length ≤ 478) (hpct : ∀ l ∈ pre, l.head? = some '%' → pctLineOk l = true)
    (st : PbnSt) (cl cb : List Str) :
    P.runMethod n_PbnParser n_parse_all [encPbnParser st cl cb, .tuple ((pre ++ [] :: post).map Val.str)]
      = .error (.exc K.IndexError) := by
  rw [pp_runMethod_eq _ _ _ _ _ pp_mth_all]
  exact pp_all_call_empty hf hne 3 240 pre post (pp_linesOkW 240 478 (by decide) pre hok hpct) st cl cb

/-! ## with the regular-expression facts of Lemmas/RegexPbn.lean -/
theorem pp_extract_content_wide_closed (st : PbnSt) (cl cb : List Str) (s : Str) (hlen : s.length ≤ 488) :
    ∃ cl' cb', P.runMethod n_PbnParser n_extract_content [encPbnParser st cl cb, .str s]
      = .ok (.none, encPbnParser (extractContent (s.length + 1) st s) cl' cb') :=
  pp_extract_content_wide pbnRegexFacts st cl cb s hlen

theorem pp_parse_stream_wide_closed (lines : List Str)
    (hok : ∀ l ∈ lines, l ≠ [] ∧ l.length ≤ 480) (hpct : ∀ l ∈ lines, l.head? = some '%' → pctLineOk l = true) :
    ∃ self', P.runMethod n_PbnParser n_parse_stream [encPbnParser {} [] [], .tuple (lines.map Val.str)]
      = .ok (.tuple ((parseStream lines).map encGame), self') :=
  pp_parse_stream_wide pbnRegexFacts pbnSubNonempty lines hok hpct

theorem pp_parse_all_wide_closed (lines : List Str)
    (hok : ∀ l ∈ lines, l ≠ [] ∧ l.length ≤ 478) (hpct : ∀ l ∈ lines, l.head? = some '%' → pctLineOk l = true) :
    ∃ self', P.runMethod n_PbnParser n_parse_all [encPbnParser {} [] [], .tuple (lines.map Val.str)]
      = .ok (.tuple ((parseStream lines).map encGame), self') :=
  pp_parse_all_wide pbnRegexFacts pbnSubNonempty lines hok hpct

theorem pp_parse_all_wide_closed_no_pct (lines : List Str)
    (hok : ∀ l ∈ lines, l ≠ [] ∧ l.length ≤ 478) (hno : ∀ l ∈ lines, l.head? ≠ some '%') :
    ∃ self', P.runMethod n_PbnParser n_parse_all [encPbnParser {} [] [], .tuple (lines.map Val.str)]
      = .ok (.tuple ((parseStream lines).map encGame), self') :=
  pp_parse_all_wide_no_pct pbnRegexFacts pbnSubNonempty lines hok hno

theorem pp_parse_all_wide_empty_line_closed (pre post : List Str)
    (hok : ∀ l ∈ pre, l ≠ [] ∧ l.length ≤ 478) (hpct : ∀ l ∈ pre, l.head? = some '%' → pctLineOk l = true)
    (st : PbnSt) (cl cb : List Str) :
    P.runMethod n_PbnParser n_parse_all [encPbnParser st cl cb, .tuple ((pre ++ [] :: post).map Val.str)]
      = .error (.exc K.IndexError) :=
  pp_parse_all_wide_empty_line pbnRegexFacts pbnSubNonempty pre post hok hpct st cl cb

end Bridge.Translated
