import BridgeVerif.Model.Regex
/-!
# A fuel-free denotation of the backtracking matcher on "simple" regular expressions  (R11, part A)

`den ic re k st` is what `Re.run ic fuel re st k` computes when every repetition in `re` is over a
one-character item (literal, `.`, class) and the fuel is at least `re.size + st.rest.length`.
-/
namespace Bridge.RegexPbn
open Bridge Bridge.Re

/-- the character test of a one-character regular expression -/
def charPred (ic : Bool) : Re → Option (Char → Bool)
  | .lit c => some (charEq ic c)
  | .any => some (fun x => x != '\n')
  | .cls neg items => some (fun x => classTest ic x items != neg)
  | _ => none

def isCharStep : Re → Bool
  | .lit _ | .any | .cls _ _ => true
  | _ => false

def mxOk : Option Nat → Nat → Bool
  | none, _ => true
  | some m, count => decide (count < m)

/-- backtracking: `alt` is tried when `r` failed -/
def orFail (r alt : Res St) : Res St :=
  match r with
  | .fail => alt
  | r => r

@[simp] theorem orFail_fail (a : Res St) : orFail .fail a = a := rfl
@[simp] theorem orFail_ok (s : St) (a : Res St) : orFail (.ok s) a = .ok s := rfl
@[simp] theorem orFail_oof (a : Res St) : orFail .oof a = .oof := rfl
theorem orFail_self_fail (r : Res St) : orFail r .fail = r := by cases r <;> rfl

/-- the MAX_UNTIL loop over a one-character item, by recursion on the subject -/
def repDen (p : Char → Bool) (mn : Nat) (mx : Option Nat) (k : St → Res St) (caps : Caps) :
    Nat → Nat → List Char → Res St
  | count, pos, [] => if count < mn then .fail else k ⟨pos, [], caps⟩
  | count, pos, x :: xs =>
    if count < mn then (if p x then repDen p mn mx k caps (count + 1) (pos + 1) xs else .fail)
    else if mxOk mx count then
      (if p x then
        orFail (repDen p mn mx k caps (count + 1) (pos + 1) xs) (k ⟨pos, x :: xs, caps⟩)
       else k ⟨pos, x :: xs, caps⟩)
    else k ⟨pos, x :: xs, caps⟩

def den (ic : Bool) : Re → (St → Res St) → St → Res St
  | .eps, k, st => k st
  | .lit c, k, st => stepChar (charEq ic c) st k
  | .any, k, st => stepChar (fun x => x != '\n') st k
  | .cls neg items, k, st => stepChar (fun x => classTest ic x items != neg) st k
  | .seq a b, k, st => den ic a (den ic b k) st
  | .alt a b, k, st =>
    orFail (den ic a k st) (den ic b k st)
  | .group i r, k, st =>
    den ic r (fun st' => k { st' with caps := setCap st'.caps i (st.pos, st'.pos) }) st
  | .rep mn mx r, k, st =>
    match charPred ic r with
    | some p => repDen p mn mx k st.caps 0 st.pos st.rest
    | none => .oof

def simple : Re → Bool
  | .eps | .lit _ | .any | .cls _ _ => true
  | .seq a b | .alt a b => simple a && simple b
  | .group _ r => simple r
  | .rep _ _ r => isCharStep r

theorem size_pos (re : Re) : 1 ≤ re.size := by
  cases re <;> simp only [Re.size] <;> try omega
  case rep mn mx r =>
    have : 1 * 1 ≤ (mn + 3) * (r.size + 1) := Nat.mul_le_mul (by omega) (by omega)
    omega

theorem charPred_of_step (ic : Bool) (r : Re) (h : isCharStep r = true) : ∃ p, charPred ic r = some p := by
  cases r <;> simp [isCharStep] at h <;> exact ⟨_, rfl⟩

theorem size_of_step (r : Re) (h : isCharStep r = true) : r.size = 1 := by
  cases r <;> simp [isCharStep] at h <;> rfl

theorem run_char (ic : Bool) (r : Re) (p : Char → Bool) (h : charPred ic r = some p) (f : Nat) (st : St)
    (k : St → Res St) : run ic (f + 1) r st k = stepChar p st k := by
  cases r <;> simp [charPred] at h <;> subst h <;> simp [run]

theorem loop_succ (ic : Bool) (f mn : Nat) (mx : Option Nat) (r : Re) (count : Nat) (last : Option Nat) (st : St)
    (k : St → Res St) :
    loop ic (f + 1) mn mx r count last st k =
      if count < mn then run ic f r st fun st' => loop ic f mn mx r (count + 1) last st' k
      else if (mxOk mx count && last != some st.pos) = true then
        orFail (run ic f r st fun st' => loop ic f mn mx r (count + 1) (some st.pos) st' k) (k st)
      else k st := by
  cases mx <;> simp only [loop, mxOk, orFail] <;> rfl

theorem loop_eq_repDen (ic : Bool) (r : Re) (p : Char → Bool) (h : charPred ic r = some p)
    (mn : Nat) (mx : Option Nat) (k : St → Res St) (caps : Caps) :
    ∀ (rest : List Char) (f count pos : Nat) (last : Option Nat), rest.length + 2 ≤ f →
      (∀ q, last = some q → q < pos) →
      loop ic f mn mx r count last ⟨pos, rest, caps⟩ k = repDen p mn mx k caps count pos rest := by
  intro rest
  induction rest with
  | nil =>
    intro f count pos last hf hl
    obtain ⟨f, rfl⟩ : ∃ f', f = f' + 2 := ⟨f - 2, by simp at hf; omega⟩
    have hne : (last != some pos) = true := by
      cases last with
      | none => rfl
      | some q => have := hl q rfl; simp; omega
    rw [show f + 2 = (f + 1) + 1 from rfl, loop_succ]
    simp only [run_char ic r p h, stepChar, repDen, hne, Bool.and_true]
    cases mx <;> simp [mxOk] <;> split <;> simp
  | cons x xs ih =>
    intro f count pos last hf hl
    obtain ⟨f, rfl⟩ : ∃ f', f = f' + 2 := ⟨f - 2, by simp at hf; omega⟩
    have hne : (last != some pos) = true := by
      cases last with
      | none => rfl
      | some q => have := hl q rfl; simp; omega
    have hf' : xs.length + 2 ≤ f + 1 := by simp at hf; omega
    have ih1 := ih (f + 1) (count + 1) (pos + 1) last hf'
      (fun q hq => by have := hl q hq; omega)
    have ih2 := ih (f + 1) (count + 1) (pos + 1) (some pos) hf'
      (fun q hq => by cases hq; omega)
    rw [show f + 2 = (f + 1) + 1 from rfl, loop_succ]
    simp only [run_char ic r p h, stepChar, repDen, hne, Bool.and_true, ih1, ih2]
    by_cases hp : p x = true <;> simp [hp]

theorem repDen_congr (p : Char → Bool) (mn : Nat) (mx : Option Nat) (k1 k2 : St → Res St) (caps : Caps) :
    ∀ (rest : List Char) (count pos : Nat),
      (∀ pos' rest', rest'.length ≤ rest.length → k1 ⟨pos', rest', caps⟩ = k2 ⟨pos', rest', caps⟩) →
      repDen p mn mx k1 caps count pos rest = repDen p mn mx k2 caps count pos rest := by
  intro rest
  induction rest with
  | nil => intro count pos hk; simp only [repDen, hk pos [] (Nat.le_refl _)]
  | cons x xs ih =>
    intro count pos hk
    have e := ih (count + 1) (pos + 1) (fun pos' rest' hr => hk pos' rest' (by simp; omega))
    simp only [repDen, e, hk pos (x :: xs) (Nat.le_refl _)]

theorem den_congr (ic : Bool) : ∀ (re : Re) (k1 k2 : St → Res St) (st : St),
    (∀ st' : St, st'.rest.length ≤ st.rest.length → k1 st' = k2 st') →
    den ic re k1 st = den ic re k2 st := by
  intro re
  induction re with
  | eps => intro k1 k2 st hk; exact hk st (Nat.le_refl _)
  | lit c =>
    intro k1 k2 st hk
    obtain ⟨pos, rest, caps⟩ := st
    cases rest with
    | nil => rfl
    | cons x xs => simp only [den, stepChar]; rw [hk _ (by simp)]
  | any =>
    intro k1 k2 st hk
    obtain ⟨pos, rest, caps⟩ := st
    cases rest with
    | nil => rfl
    | cons x xs => simp only [den, stepChar]; rw [hk _ (by simp)]
  | cls neg items =>
    intro k1 k2 st hk
    obtain ⟨pos, rest, caps⟩ := st
    cases rest with
    | nil => rfl
    | cons x xs => simp only [den, stepChar]; rw [hk _ (by simp)]
  | seq a b iha ihb =>
    intro k1 k2 st hk
    simp only [den]
    exact iha _ _ st (fun st' h' => ihb k1 k2 st' (fun st'' h'' => hk st'' (Nat.le_trans h'' h')))
  | alt a b iha ihb =>
    intro k1 k2 st hk
    simp only [den]
    rw [iha k1 k2 st hk, ihb k1 k2 st hk]
  | group i r ih =>
    intro k1 k2 st hk
    simp only [den]
    exact ih _ _ st (fun st' h' => hk _ h')
  | rep mn mx r _ =>
    intro k1 k2 st hk
    simp only [den]
    cases charPred ic r with
    | none => rfl
    | some p => exact repDen_congr p mn mx k1 k2 st.caps st.rest 0 st.pos (fun pos' rest' h' => hk ⟨pos', rest', st.caps⟩ h')

theorem run_eq_den (ic : Bool) : ∀ (re : Re), simple re = true → ∀ (f : Nat) (st : St) (k : St → Res St),
    re.size + st.rest.length ≤ f → run ic f re st k = den ic re k st := by
  intro re
  induction re with
  | eps =>
    intro _ f st k hf
    obtain ⟨f, rfl⟩ : ∃ f', f = f' + 1 := ⟨f - 1, by simp [Re.size] at hf; omega⟩
    simp [run, den]
  | lit c =>
    intro _ f st k hf
    obtain ⟨f, rfl⟩ : ∃ f', f = f' + 1 := ⟨f - 1, by simp [Re.size] at hf; omega⟩
    simp [run, den]
  | any =>
    intro _ f st k hf
    obtain ⟨f, rfl⟩ : ∃ f', f = f' + 1 := ⟨f - 1, by simp [Re.size] at hf; omega⟩
    simp [run, den]
  | cls neg items =>
    intro _ f st k hf
    obtain ⟨f, rfl⟩ : ∃ f', f = f' + 1 := ⟨f - 1, by simp [Re.size] at hf; omega⟩
    simp [run, den]
  | seq a b iha ihb =>
    intro hs f st k hf
    simp only [simple, Bool.and_eq_true] at hs
    simp only [Re.size] at hf
    obtain ⟨f, rfl⟩ : ∃ f', f = f' + 1 := ⟨f - 1, by omega⟩
    simp only [run, den]
    rw [iha hs.1 f st _ (by omega)]
    exact den_congr ic a _ _ st (fun st' h' => ihb hs.2 f st' k (by omega))
  | alt a b iha ihb =>
    intro hs f st k hf
    simp only [simple, Bool.and_eq_true] at hs
    simp only [Re.size] at hf
    obtain ⟨f, rfl⟩ : ∃ f', f = f' + 1 := ⟨f - 1, by omega⟩
    simp only [run, den]
    rw [iha hs.1 f st k (by omega), ihb hs.2 f st k (by omega)]
    cases den ic a k st <;> rfl
  | group i r ih =>
    intro hs f st k hf
    simp only [simple] at hs
    simp only [Re.size] at hf
    obtain ⟨f, rfl⟩ : ∃ f', f = f' + 1 := ⟨f - 1, by omega⟩
    simp only [run, den]
    exact ih hs f st _ (by omega)
  | rep mn mx r _ =>
    intro hs f st k hf
    simp only [simple] at hs
    obtain ⟨p, hp⟩ := charPred_of_step ic r hs
    simp only [Re.size, size_of_step r hs] at hf
    obtain ⟨f, rfl⟩ : ∃ f', f = f' + 1 := ⟨f - 1, by omega⟩
    obtain ⟨pos, rest, caps⟩ := st
    simp only [run, den, hp]
    exact loop_eq_repDen ic r p hp mn mx k caps rest f 0 pos none (by simp at hf ⊢; omega) (by simp)

/-- the final continuation of `matchCore` -/
def kfin (pos : Nat) (full mustAdv : Bool) : St → Res St :=
  fun st => if (full && !st.rest.isEmpty) || (mustAdv && st.pos == pos) then .fail else .ok st

theorem matchCore_eq_den (ic : Bool) (re : Re) (hs : simple re = true) (fuel pos : Nat) (rest : List Char)
    (full mustAdv : Bool) (hf : re.size + rest.length ≤ fuel) :
    matchCore ic re fuel pos rest full mustAdv =
      match den ic re (kfin pos full mustAdv) ⟨pos, rest, List.replicate re.ngroups none⟩ with
      | .ok st => .ok { span := (pos, st.pos), groups := st.caps }
      | .fail => .fail
      | .oof => .oof := by
  unfold matchCore
  rw [run_eq_den ic re hs fuel _ _ hf]
  rfl

end Bridge.RegexPbn
