import BridgeVerif.Spec.PbnLayout
import BridgeVerif.Lemmas.Deal
/-!
# The PBN writer (C18): line wrapping, the fifteen mandatory tags, the written file as a layout
-/
namespace Bridge

/-! ## `write_line` -/
theorem writeLineAux_spec : ∀ (fuel : Nat) (s : Str), s.length ≤ fuel → s.getLast? = some '\n' →
    writeLineAux fuel s ≠ [] ∧
    (∀ c ∈ writeLineAux fuel s, c.length ≤ MAX_LINE_CHARS ∧ c.getLast? = some '\n') ∧
    ((writeLineAux fuel s).map fun c => c.dropLast).flatten = s.dropLast := by
  intro fuel
  induction fuel with
  | zero =>
    intro s hl hg
    have : s = [] := List.length_eq_zero_iff.1 (by omega)
    subst this
    simp at hg
  | succ fuel ih =>
    intro s hl hg
    unfold writeLineAux
    split
    · next hgt =>
      simp only [MAX_LINE_CHARS] at hgt
      have hdl : (s.drop (MAX_LINE_CHARS - 1)).length ≤ fuel := by
        simp only [MAX_LINE_CHARS, List.length_drop]; omega
      have hdg : (s.drop (MAX_LINE_CHARS - 1)).getLast? = some '\n' := by
        rw [List.getLast?_drop, if_neg (by simp only [MAX_LINE_CHARS]; omega)]
        exact hg
      obtain ⟨_, h2, h3⟩ := ih _ hdl hdg
      refine ⟨by simp, ?_, ?_⟩
      · intro c hc
        rcases List.mem_cons.1 hc with rfl | hc
        · refine ⟨?_, by simp⟩
          simp only [MAX_LINE_CHARS, List.length_append, List.length_take, List.length_cons, List.length_nil]
          omega
        · exact h2 c hc
      · rw [List.map_cons, List.flatten_cons, h3, List.dropLast_concat]
        have hne : s.drop (MAX_LINE_CHARS - 1) ≠ [] := by
          intro e
          rw [e] at hdg
          simp at hdg
        rw [← List.dropLast_append_of_ne_nil hne, List.take_append_drop]
    · next hle =>
      refine ⟨by simp, ?_, by simp⟩
      intro c hc
      simp only [List.mem_singleton] at hc
      subst hc
      exact ⟨by omega, hg⟩

/-- `write_line` never writes a line longer than the 255 characters of the format, each written piece ends with a
line end, and removing the inserted line ends gives back the string (plus its final line end) -/
theorem writeLine_chunks (s : Str) (h : s ≠ []) :
    ∃ cs, writeLine? s = some cs ∧ cs ≠ [] ∧ (∀ c ∈ cs, c.length ≤ MAX_LINE_CHARS ∧ c.getLast? = some '\n') ∧
      (cs.map fun c => c.dropLast).flatten = (if s.getLast? = some '\n' then s.dropLast else s) := by
  unfold writeLine?
  cases hg : s.getLast? with
  | none => exact absurd (List.getLast?_eq_none_iff.1 hg) h
  | some c =>
    by_cases hc : c = '\n'
    · subst hc
      obtain ⟨h1, h2, h3⟩ := writeLineAux_spec s.length s (Nat.le_refl _) hg
      refine ⟨_, rfl, ?_, ?_, ?_⟩
      · simpa using h1
      · simpa using h2
      · simpa using h3
    · have hg' : (s ++ ['\n']).getLast? = some '\n' := by simp
      obtain ⟨h1, h2, h3⟩ := writeLineAux_spec (s ++ ['\n']).length (s ++ ['\n']) (Nat.le_refl _) hg'
      refine ⟨_, rfl, ?_, ?_, ?_⟩
      · simpa [hc] using h1
      · simpa [hc] using h2
      · simpa [hc] using h3

/-- a string that fits is written as one line -/
theorem writeLine_fits (s : Str) (h : s ≠ []) (hn : s.getLast? ≠ some '\n') (hl : s.length + 1 ≤ MAX_LINE_CHARS) :
    writeLine? s = some [s ++ ['\n']] := by
  unfold writeLine?
  cases hg : s.getLast? with
  | none => exact absurd (List.getLast?_eq_none_iff.1 hg) h
  | some c =>
    have hc : c ≠ '\n' := by
      intro e
      subst e
      exact hn hg
    simp only [hc, if_false, List.length_append, List.length_cons, List.length_nil]
    unfold writeLineAux
    rw [if_neg]
    simp only [List.length_append, List.length_cons, List.length_nil]
    omega

theorem tagLine_ne_nil (t c : Str) : tagLine t c ≠ [] := by simp [tagLine]

theorem tagLine_getLast (t c : Str) : (tagLine t c).getLast? = some ']' := by
  have : tagLine t c = ('[' :: (t ++ ' ' :: '"' :: (c ++ ['"']))) ++ [']'] := by simp [tagLine]
  rw [this, List.getLast?_concat]

theorem writeTagPair_lines (t c : Str) :
    ∀ l ∈ writeTagPair t c, l.length ≤ MAX_LINE_CHARS ∧ l.getLast? = some '\n' := by
  obtain ⟨cs, h1, _, h3, _⟩ := writeLine_chunks (tagLine t c) (tagLine_ne_nil t c)
  simp only [writeTagPair, h1, Option.getD_some]
  exact h3

/-- no line written by `write_board_result` exceeds 255 characters — for EVERY result, also with over-long values -/
theorem board_result_lines_at_most_255 (r : PbnResult) (cs : List Str) (h : writeBoardResult? r = some cs) :
    ∀ c ∈ cs, c.length ≤ MAX_LINE_CHARS ∧ c.getLast? = some '\n' := by
  unfold writeBoardResult? at h
  cases ht : resultTags? r with
  | none => simp [ht] at h
  | some tags =>
    simp only [ht, Option.map_some, Option.some.injEq] at h
    subst h
    intro c hc
    rcases List.mem_append.1 hc with hc | hc
    · obtain ⟨⟨t, v⟩, _, hc⟩ := List.mem_flatMap.1 hc
      exact writeTagPair_lines t v c hc
    · simp only [List.mem_singleton] at hc
      subst hc
      exact ⟨by decide, by decide⟩

/-! ## the fifteen tags -/
/-- the values: as given / vulnerability in PBN spelling / passed-out conventions -/
theorem resultTags_values (r : PbnResult) (tags : List (Str × Str)) (h : resultTags? r = some tags) :
    tags = [("Event".toList, r.event), ("Site".toList, r.site), ("Date".toList, dateStr r.year r.month r.day),
      ("Board".toList, intRepr r.boardNum), ("West".toList, r.west), ("North".toList, r.north),
      ("East".toList, r.east), ("South".toList, r.south), ("Dealer".toList, r.dealer.name),
      ("Vulnerable".toList, vulPbn r.contract.vul), ("Deal".toList, (toPbn? r.deal r.dealer).getD []),
      ("Scoring".toList, r.scoring.value),
      ("Declarer".toList, if r.contract.isPassedOut then [] else seatOptStr r.contract.declarer),
      ("Contract".toList, if r.contract.isPassedOut then "Pass".toList else contractStr r.contract),
      ("Result".toList, match r.tricks with | some n => if r.contract.isPassedOut then [] else intRepr n | none => [])] := by
  unfold resultTags? at h
  by_cases hb : r.boardNum ≤ 0
  · simp [hb] at h
  · rw [if_neg hb] at h
    cases hd : toPbn? r.deal r.dealer with
    | none => simp [hd] at h
    | some dealText =>
      cases ht : r.tricks <;> cases hp : r.contract.isPassedOut <;> simp [hd, ht, hp] at h <;>
        (subst h; simp)

/-- the fifteen mandatory tags, in order -/
theorem resultTags_names (r : PbnResult) (tags : List (Str × Str)) (h : resultTags? r = some tags) :
    tags.map (·.1) = mandatoryTags := by
  rw [resultTags_values r tags h]
  rfl

theorem resultTags_length (r : PbnResult) (tags : List (Str × Str)) (h : resultTags? r = some tags) :
    tags.length = 15 := by
  rw [resultTags_values r tags h]
  rfl

/-- a well-formed result is written (no assertion fails) -/
theorem resultTags_some (r : PbnResult) (h : r.WF) : ∃ tags, resultTags? r = some tags := by
  unfold resultTags?
  rw [if_neg (by have := h.board; omega), toPbn_eq r.deal h.deal.size r.dealer]
  simp only
  cases hp : r.contract.isPassedOut with
  | true =>
    have := h.tricks.1 hp
    simp [this]
  | false =>
    cases ht : r.tricks with
    | none =>
      have := h.tricks.2 ht
      rw [hp] at this
      exact absurd this (by decide)
    | some n => simp

/-! ## plain text -/
/-- a character that can never be part of a comment opener, a quote or a line end -/
def safeChar (c : Char) : Bool := c != ';' && c != '{' && c != '"' && c != '\n' && c != '\r'

theorem find2_none_of_not_mem (a b : Char) : ∀ (s : Str) (i : Nat), a ∉ s → find2 a b s i = none := by
  intro s
  induction s with
  | nil => intro i _; rfl
  | cons x r ih =>
    intro i hm
    cases r with
    | nil => rfl
    | cons y r' =>
      have hx : x ≠ a := fun e => hm (by simp [e])
      rw [find2, if_neg (fun h => hx h.1)]
      exact ih (i + 1) (fun h => hm (List.mem_cons_of_mem _ h))

theorem safeChar_iff (c : Char) :
    safeChar c = true ↔ c ≠ ';' ∧ c ≠ '{' ∧ c ≠ '"' ∧ c ≠ '\n' ∧ c ≠ '\r' := by
  simp [safeChar, and_assoc]

theorem plainText_of_safe (s : Str) (h : s.all safeChar = true) : plainText s = true := by
  rw [List.all_eq_true] at h
  have h1 : ';' ∉ s := fun hm => by have := h _ hm; revert this; decide
  have h2 : '{' ∉ s := fun hm => by have := h _ hm; revert this; decide
  unfold plainText
  rw [find2_none_of_not_mem _ _ _ _ h1, find2_none_of_not_mem _ _ _ _ h2]
  simp only [Option.isNone_none, Bool.true_and, List.all_eq_true]
  intro c hc
  have := (safeChar_iff c).1 (h c hc)
  simp [this.2.2.1, this.2.2.2.1, this.2.2.2.2]

theorem safe_digit : ∀ k : Fin 10, safeChar (Char.ofNat ('0'.toNat + k.val)) = true := by decide

theorem natDigits_safe : ∀ (fuel n : Nat) (acc : Str), acc.all safeChar = true →
    (natDigits fuel n acc).all safeChar = true := by
  intro fuel
  induction fuel with
  | zero => intro n acc h; exact h
  | succ fuel ih =>
    intro n acc h
    have hd : safeChar (Char.ofNat ('0'.toNat + n % 10)) = true := safe_digit ⟨n % 10, Nat.mod_lt _ (by decide)⟩
    have h' : (Char.ofNat ('0'.toNat + n % 10) :: acc).all safeChar = true := by
      rw [List.all_cons, hd, h]; rfl
    unfold natDigits
    simp only
    split
    · exact h'
    · exact ih _ _ h'

theorem natRepr_safe (n : Nat) : (natRepr n).all safeChar = true := natDigits_safe _ _ _ rfl

theorem intRepr_safe (i : Int) : (intRepr i).all safeChar = true := by
  cases i with
  | ofNat n => exact natRepr_safe n
  | negSucc n =>
    simp only [intRepr, List.all_cons, natRepr_safe, Bool.and_true]
    decide

theorem pad2_safe (n : Nat) : (pad2 n).all safeChar = true := by
  unfold pad2
  split
  · simp only [List.all_cons, natRepr_safe, Bool.and_true]; decide
  · exact natRepr_safe n

theorem dateStr_safe (y m d : Nat) : (dateStr y m d).all safeChar = true := by
  simp only [dateStr, List.all_append, natRepr_safe, pad2_safe, List.all_cons, List.all_nil, Bool.and_true,
    Bool.true_and]
  decide

theorem seatName_safe (p : Seat) : p.name.all safeChar = true := by cases p <;> decide
theorem vulPbn_safe (v : Vul) : (vulPbn v).all safeChar = true := by cases v <;> decide
theorem scoring_safe (s : Scoring) : s.value.all safeChar = true := by cases s <;> decide
theorem seatOptStr_safe (o : Option Seat) : (seatOptStr o).all safeChar = true := by
  cases o with
  | none => decide
  | some p => exact seatName_safe p

theorem bid_safe : ∀ b : Fin 35, (callStr (.bid b)).all safeChar = true := by decide +kernel

theorem contractStr_safe (c : Contract) : (contractStr c).all safeChar = true := by
  unfold contractStr
  cases c.finalBid with
  | none => dsimp only; decide
  | some b =>
    simp only [List.all_append, bid_safe, Bool.true_and]
    cases c.xx <;> cases c.x <;> decide

theorem safe_of_handChar (c : Char) (h : isHandChar c = true) : safeChar c = true := by
  cases hs : safeChar c with
  | true => rfl
  | false =>
    have : ¬ (c ≠ ';' ∧ c ≠ '{' ∧ c ≠ '"' ∧ c ≠ '\n' ∧ c ≠ '\r') := by
      rw [← safeChar_iff, hs]; decide
    have hc : c = ';' ∨ c = '{' ∨ c = '"' ∨ c = '\n' ∨ c = '\r' := by
      by_cases h1 : c = ';'
      · exact Or.inl h1
      by_cases h2 : c = '{'
      · exact Or.inr (Or.inl h2)
      by_cases h3 : c = '"'
      · exact Or.inr (Or.inr (Or.inl h3))
      by_cases h4 : c = '\n'
      · exact Or.inr (Or.inr (Or.inr (Or.inl h4)))
      by_cases h5 : c = '\r'
      · exact Or.inr (Or.inr (Or.inr (Or.inr h5)))
      exact absurd ⟨h1, h2, h3, h4, h5⟩ this
    rcases hc with rfl | rfl | rfl | rfl | rfl <;> exact absurd h (by decide)

theorem handField_safe (hand : List Card) (hok : ∀ c ∈ hand, c.ok = true)
    (hs : hand.length = 0 ∨ hand.length = 13) : (handField hand).all safeChar = true := by
  rcases handField_isField hand hok hs with e | ⟨_, hc⟩
  · rw [e]; decide
  · exact List.all_eq_true.2 fun c hm => safe_of_handChar c (hc c hm)

theorem toPbn_safe (h : Hands) (hd : PartialDeal h) (first : Seat) :
    ((toPbn? h first).getD []).all safeChar = true := by
  rw [toPbn_eq h hd.size first]
  simp only [Option.getD_some, List.all_append, seatName_safe, handField_safe _ (hd.ok _) (hd.size _),
    List.all_cons, List.all_nil, Bool.and_true, Bool.true_and]
  decide

/-- every value of a well-formed result is plain text (no quote, no line end, no comment opener) -/
theorem resultTags_plain (r : PbnResult) (h : r.WF) (tags : List (Str × Str)) (ht : resultTags? r = some tags) :
    ∀ tc ∈ tags, plainText tc.2 = true ∧ validTagName tc.1 = true := by
  rw [resultTags_values r tags ht]
  obtain ⟨t1, t2, t3, t4, t5, t6⟩ := h.text
  intro tc htc
  simp only [List.mem_cons, List.not_mem_nil, or_false] at htc
  rcases htc with rfl | rfl | rfl | rfl | rfl | rfl | rfl | rfl | rfl | rfl | rfl | rfl | rfl | rfl | rfl
  all_goals refine ⟨?_, by dsimp only; decide⟩
  · exact t1
  · exact t2
  · exact plainText_of_safe _ (dateStr_safe _ _ _)
  · exact plainText_of_safe _ (intRepr_safe _)
  · exact t3
  · exact t4
  · exact t5
  · exact t6
  · exact plainText_of_safe _ (seatName_safe _)
  · exact plainText_of_safe _ (vulPbn_safe _)
  · exact plainText_of_safe _ (toPbn_safe _ h.deal _)
  · exact plainText_of_safe _ (scoring_safe _)
  · apply plainText_of_safe
    simp only
    split
    · rfl
    · exact seatOptStr_safe _
  · apply plainText_of_safe
    simp only
    split
    · decide
    · exact contractStr_safe _
  · apply plainText_of_safe
    simp only
    cases r.tricks with
    | none => rfl
    | some n =>
      simp only
      split
      · rfl
      · exact intRepr_safe _

/-! ## the written file as a layout -/
theorem mapM_eq_map {α β : Type} (f : α → Option β) (g : α → β) :
    ∀ l : List α, (∀ x ∈ l, f x = some (g x)) → l.mapM f = some (l.map g) := by
  intro l
  induction l with
  | nil => intro _; rfl
  | cons a r ih =>
    intro h
    rw [List.mapM_cons, h a List.mem_cons_self, ih fun x hx => h x (List.mem_cons_of_mem _ hx)]
    rfl

/-- a tag pair that fits is written as exactly one line: the text of the layout item plus the line end -/
theorem writeTagPair_fits (t c : Str) (hl : (tagLine t c).length + 1 ≤ MAX_LINE_CHARS) :
    writeTagPair t c = [(PbnItem.tag t c false false []).text ++ ['\n']] := by
  have hn : (tagLine t c).getLast? ≠ some '\n' := by
    rw [tagLine_getLast]; decide
  rw [writeTagPair, writeLine_fits _ (tagLine_ne_nil t c) hn hl]
  simp [PbnItem.text, tagLine]

theorem flatMap_writeTagPair (tags : List (Str × Str))
    (hl : ∀ tc ∈ tags, (tagLine tc.1 tc.2).length + 1 ≤ MAX_LINE_CHARS) :
    (tags.flatMap fun (t, c) => writeTagPair t c) =
      tags.map fun tc => (PbnItem.tag tc.1 tc.2 false false []).text ++ ['\n'] := by
  induction tags with
  | nil => rfl
  | cons a r ih =>
    rw [List.flatMap_cons, List.map_cons, ih fun x hx => hl x (List.mem_cons_of_mem _ hx)]
    obtain ⟨t, c⟩ := a
    simp only
    rw [writeTagPair_fits t c (hl (t, c) List.mem_cons_self)]
    rfl

/-- the tag pairs of a result (empty when an assertion fails) -/
def resultTagsOf (r : PbnResult) : List (Str × Str) := (resultTags? r).getD []

theorem resultTags_tagsOf (r : PbnResult) (h : r.WF) : resultTags? r = some (resultTagsOf r) := by
  obtain ⟨tags, ht⟩ := resultTags_some r h
  rw [resultTagsOf, ht]; rfl

theorem writeBoardResult_layout (r : PbnResult) (h : r.WF) :
    writeBoardResult? r = some (GameL.lines ['\n'] (resultGame (resultTagsOf r))) := by
  have ht := resultTags_tagsOf r h
  rw [writeBoardResult?, ht, Option.map_some, flatMap_writeTagPair _ (h.fits _ ht)]
  simp [GameL.lines, resultGame, List.map_map, Function.comp_def]

theorem resultGame_admissible (r : PbnResult) (h : r.WF) (last : Bool) :
    (resultGame (resultTagsOf r)).Admissible last := by
  have ht := resultTags_tagsOf r h
  refine ⟨?_, ?_, ?_, ?_⟩
  · intro i hi
    simp only [resultGame, List.mem_map] at hi
    obtain ⟨tc, htc, rfl⟩ := hi
    obtain ⟨h1, h2⟩ := resultTags_plain r h _ ht tc htc
    simp [PbnItem.ok, h1, h2, isBlank]
  · have hlen := resultTags_length r _ ht
    cases hts : resultTagsOf r with
    | nil => rw [hts] at hlen; exact absurd hlen (by decide)
    | cons tc rest => exact ⟨tc.1, tc.2, false, false, [], rest.map fun tc => .tag tc.1 tc.2 false false [], by simp [resultGame]⟩
  · intro s hs
    simp only [resultGame, List.mem_singleton] at hs
    subst hs
    rfl
  · intro _
    simp [resultGame]

theorem gamesAdmissible_of_all : ∀ l : List GameL, (∀ g ∈ l, ∀ b, g.Admissible b) → gamesAdmissible l := by
  intro l
  induction l with
  | nil => intro _; trivial
  | cons g r ih =>
    intro h
    cases r with
    | nil => exact h g List.mem_cons_self true
    | cons g' r' =>
      exact ⟨h g List.mem_cons_self false, ih fun x hx => h x (List.mem_cons_of_mem _ hx)⟩

/-- what is written for a list of well-formed results is exactly the rendering of the layout `exportFile`, which
is admissible -/
theorem export_is_layout (rs : List PbnResult) (h : ∀ r ∈ rs, r.WF) :
    ∃ tagss css, rs.mapM resultTags? = some tagss ∧ rs.mapM writeBoardResult? = some css ∧
      css.flatten = (exportFile tagss).lines ∧ (exportFile tagss).Admissible := by
  refine ⟨rs.map resultTagsOf, rs.map fun r => GameL.lines ['\n'] (resultGame (resultTagsOf r)),
    mapM_eq_map _ _ _ fun r hr => resultTags_tagsOf r (h r hr),
    mapM_eq_map _ _ _ fun r hr => writeBoardResult_layout r (h r hr), ?_, ?_⟩
  · simp [exportFile, FileL.lines, List.flatMap_def, List.map_map, Function.comp_def]
  · refine ⟨Or.inl rfl, ?_, ?_, ?_⟩
    · intro x hx; simp [exportFile] at hx
    · intro x hx; simp [exportFile] at hx
    · apply gamesAdmissible_of_all
      intro g hg b
      simp only [exportFile, List.map_map, List.mem_map, Function.comp_def] at hg
      obtain ⟨r, hr, rfl⟩ := hg
      exact resultGame_admissible r (h r hr) b

/-! ## the old writer -/
/-- a passed-out board with unknown hands -/
def exResult : PbnResult :=
  { event := ['a'], site := ['a'], year := 2024, month := 1, day := 2, boardNum := 1,
    west := ['a'], north := ['a'], east := ['a'], south := ['a'], dealer := .N, deal := fun _ => [],
    scoring := .IMP, contract := ⟨none, false, false, .none, none⟩, tricks := none }

theorem exResult_tags : resultTags? exResult = some
    [("Event".toList, ['a']), ("Site".toList, ['a']), ("Date".toList, "2024.01.02".toList),
     ("Board".toList, ['1']), ("West".toList, ['a']), ("North".toList, ['a']), ("East".toList, ['a']),
     ("South".toList, ['a']), ("Dealer".toList, ['N']), ("Vulnerable".toList, "None".toList),
     ("Deal".toList, "N:- - - -".toList), ("Scoring".toList, "IMP".toList), ("Declarer".toList, []),
     ("Contract".toList, "Pass".toList), ("Result".toList, [])] := by decide +kernel

theorem exResult_wf : exResult.WF := by
  refine ⟨by decide, ⟨?_, ?_, ?_⟩, by decide, by decide, by decide, ?_⟩
  · simp [handsAll, exResult]
  · intro p c hc; simp [exResult] at hc
  · intro p; left; rfl
  · intro tags ht
    rw [exResult_tags] at ht
    cases ht
    decide +kernel

/-- before the repair (no empty line after a game) two results were read back as ONE game: concrete witness,
kernel-evaluated -/
theorem old_writer_merges_games :
    ∃ r : PbnResult, r.WF ∧ ∃ cs, writeBoardResultOld? r = some cs ∧
      (parseStream (pyLines (cs ++ cs).flatten)).length = 1 ∧
      ∃ cs', writeBoardResult? r = some cs' ∧ (parseStream (pyLines (cs' ++ cs').flatten)).length = 2 := by
  refine ⟨exResult, exResult_wf, _, by rw [writeBoardResultOld?, exResult_tags]; rfl, by decide +kernel,
    _, by rw [writeBoardResult?, exResult_tags]; rfl, by decide +kernel⟩

end Bridge
