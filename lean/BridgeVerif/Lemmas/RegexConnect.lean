import BridgeVerif.Lemmas.RegexConnectA
import BridgeVerif.Generated.PyCoreNet
/-!
# `Connecting "(.*)" as (.*) using protocol version (\d+)` (IGNORECASE) is the scanner of `parseConnect?`

The generic regular-expression engine of `Model/Regex.lean` (the one the translated
`PlayerThread.parse_connection_info` calls through `re.match`), run with `ic = true` on the pattern text the generated
method passes, captures EXACTLY the three texts the hand-written scanner of `Model/Msg.lean` (`parseConnect?`) computes —
for every subject string all of whose characters satisfy `agree`:

* the pattern's literal characters compare with the character the same way in the engine (`Re.charEq true`, the Unicode
  folding tables) and in the scanner (`eqCI`: ASCII lower-casing and the four specials), and
* `\d` (Unicode decimal digit) and the scanner's ASCII `isDigit` agree on it.

Every ASCII character satisfies `agree` (`agree_ascii`, 128 cases in the kernel).  The restriction is necessary:
on `"… version ١٨"` (Arabic-Indic digits) `re.match` succeeds and the scanner does not.
-/
namespace Bridge.RegexConnect
open Bridge Bridge.Re Bridge.RegexPbn Bridge.RegexHands

/-- the pattern text of `parse_connection_info` -/
def CONNECT_PATTERN : List Char := "Connecting \"(.*)\" as (.*) using protocol version (\\d+)".toList

/-- it is literally what the generated method assigns to `pattern` and passes to `.reMatch` -/
theorem pattern_is_generated :
    Bridge.Generated.PyCore.m_PlayerThread_parse_connection_info.body.take 2 =
      [.assign (.var Bridge.Generated.PyCore.n_pattern) (.const (.str CONNECT_PATTERN)),
       .assign (.var Bridge.Generated.PyCore.n_match)
         (.builtin .reMatch [.var Bridge.Generated.PyCore.n_pattern, .var Bridge.Generated.PyCore.n_content,
           .const (.bool true), .const (.cls Bridge.Generated.PyCore.n__Match),
           .const (.int Bridge.Generated.PyCore.n_texts)])] := rfl

def litA : List Char := "Connecting \"".toList
def litB : List Char := "\" as ".toList
def litC : List Char := " using protocol version ".toList

def connectRe : Re := lits litA (.seq (dotG 1) (lits litB (.seq (dotG 2) (lits litC (digG 3)))))

set_option maxRecDepth 100000 in
theorem parse_connect : Re.parse CONNECT_PATTERN = some connectRe := by decide +kernel
theorem connectRe_ngroups : connectRe.ngroups = 3 := by decide +kernel
theorem connectRe_simple : simple connectRe = true := by decide +kernel

/-- the distinct literal characters of the pattern -/
def patChars : List Char := "Conectig \"asuprlv".toList

/-- the class of subject characters: engine and scanner treat it alike -/
def agree (x : Char) : Bool := agreeLit patChars x && (Re.isDigit x == Bridge.isDigit x)

theorem agree_ofNat_ascii : ∀ n : Fin 128, agree (Char.ofNat n.val) = true := by decide +kernel

/-- every ASCII character is in the class -/
theorem agree_ascii (x : Char) (h : x.toNat < 128) : agree x = true := by
  have := agree_ofNat_ascii ⟨x.toNat, h⟩
  simpa [Char.ofNat_toNat] using this

/-! ### the three captured texts, as `parseConnect?` computes them -/
/-- the inner `g` of `parseConnect?`, copied -/
def connectTriple? (content : List Char) : Option (List Char × List Char × List Char) :=
  match stripPrefixCI "Connecting \"".toList content with
  | none => none
  | some r0 =>
      dotStar r0 fun team t1 => (stripPrefixCI "\" as ".toList t1).bind fun r1 =>
      dotStar r1 fun seat t2 => (stripPrefixCI " using protocol version ".toList t2).bind fun r2 =>
        let ds := r2.takeWhile Bridge.isDigit
        if ds = [] then none else some (team, seat, ds)

/-- `[team, seat text, digit text]` -/
def connectFields? (s : List Char) : Option (List (List Char)) :=
  (connectTriple? s).map fun x => [x.1, x.2.1, x.2.2]

/-- `parseConnect?` = the scanner skeleton, then `convert_formal_name(….capitalize())` and `int(…)` -/
theorem parseConnect_eq_triple (s : List Char) :
    parseConnect? s = (connectTriple? s).bind fun x =>
      match seatOfFormal? (capitalizeA x.2.1), decimal? x.2.2 with
      | some p, some v => some (x.1, p, v)
      | _, _ => none := by
  unfold parseConnect? connectTriple?
  cases stripPrefixCI "Connecting \"".toList s with
  | none => rfl
  | some r0 =>
    simp only
    split <;> rename_i h <;> rw [h] <;> rfl

/-- the scanner in the shape of the `Rel` framework -/
def scanC : List Char → Option (List (List Char)) := fun r => (stripPrefixCI litC r).bind digitsLast
def scanB : List Char → Option (List (List Char)) :=
  fun r => (stripPrefixCI litB r).bind fun r1 => dotStar r1 fun g t => (scanC t).map fun gs => g :: gs
def scanA : List Char → Option (List (List Char)) :=
  fun r => (stripPrefixCI litA r).bind fun r0 => dotStar r0 fun g t => (scanB t).map fun gs => g :: gs

theorem connectFields_eq_scan (s : List Char) : connectFields? s = scanA s := by
  unfold connectFields? connectTriple? scanA scanB scanC digitsLast
  show Option.map _ (match stripPrefixCI litA s with | none => none | some r0 => _) = _
  cases stripPrefixCI litA s with
  | none => rfl
  | some r0 =>
    simp only [dotStar_map, Option.map_bind, Function.comp_def]
    congr 1; funext team t1
    congr 1; funext r1
    congr 1; funext seat t2
    congr 1; funext r2
    show Option.map _ (if _ then _ else _) = Option.map _ (Option.map _ (if _ then _ else _))
    split <;> rfl

/-! ### the engine -/
theorem den_seq_fun (ic : Bool) (a b : Re) (k : St → Re.Res St) : den ic (.seq a b) k = den ic a (den ic b k) := by
  funext st; rfl

theorem den_lits_fun (ic : Bool) (R : Re) (k : St → Re.Res St) (p : List Char) :
    den ic (lits p R) k = denLits ic p (den ic R k) := by
  funext st; exact den_lits ic R k p st

theorem pyMatch_abs_ic (ic : Bool) (pat s : List Char) (re : Re) (hp : Re.parse pat = some re) (hs : simple re = true) :
    (Re.pyMatch ic pat s).map (Option.map (groupTexts s)) =
      absRes s (den ic re (kfin 0 false false) ⟨0, s, List.replicate re.ngroups none⟩) := by
  unfold Re.pyMatch
  simp only [hp]
  rw [matchCore_eq_den ic re hs _ 0 s false false (by unfold fuelFor; exact fuel_ok _ _)]
  cases den ic re (kfin 0 false false) ⟨0, s, List.replicate re.ngroups none⟩ <;> rfl

/-- THE REGULAR EXPRESSION IS THE SCANNER: for every subject whose characters are in the class `agree`,
`re.match(pattern, s, re.IGNORECASE)` matches iff the scanner of `parseConnect?` finds its three texts, and groups 1, 2, 3
are those texts -/
theorem match_connect (s : List Char) (hs : ∀ x ∈ s, agree x = true) :
    (Re.pyMatch true CONNECT_PATTERN s).map (Option.map (groupTexts s)) =
      some ((connectFields? s).map (·.map some)) := by
  have hlit : ∀ x ∈ s, agreeLit patChars x = true := fun x hx => by
    have := hs x hx; simp only [agree, Bool.and_eq_true] at this; exact this.1
  have hdig : ∀ x ∈ s, Re.isDigit x = Bridge.isDigit x := fun x hx => by
    have := hs x hx; simp only [agree, Bool.and_eq_true] at this; exact eq_of_beq this.2
  rw [pyMatch_abs_ic true CONNECT_PATTERN s connectRe parse_connect connectRe_simple, connectRe_ngroups,
    connectFields_eq_scan]
  have r3 := rel_digits_last true s hdig 2
  have rC := rel_lits s patChars hlit 3 2 _ _ r3 litC (by decide)
  have r2 := rel_dotStar true s 3 1 (by omega) _ _ rC
  have rB := rel_lits s patChars hlit 3 1 _ _ r2 litB (by decide)
  have r1 := rel_dotStar true s 3 0 (by omega) _ _ rB
  have rA := rel_lits s patChars hlit 3 0 _ _ r1 litA (by decide)
  have := rA 0 s (List.replicate 3 none) rfl rfl
  simp only [List.take_zero, List.nil_append] at this
  unfold connectRe
  rw [den_lits_fun, den_seq_fun, den_lits_fun, den_seq_fun, den_lits_fun]
  exact this

/-- … in particular for every ASCII subject -/
theorem match_connect_ascii (s : List Char) (hs : ∀ x ∈ s, x.toNat < 128) :
    (Re.pyMatch true CONNECT_PATTERN s).map (Option.map (groupTexts s)) =
      some ((connectFields? s).map (·.map some)) :=
  match_connect s fun x hx => agree_ascii x (hs x hx)

/-- the restriction is necessary: Arabic-Indic digits are `\d` for `re` but not for the scanner -/
example : (Re.pyMatch true CONNECT_PATTERN "Connecting \"A\" as north using protocol version ١٨".toList).map
      (Option.map (groupTexts "Connecting \"A\" as north using protocol version ١٨".toList)) ≠
    some ((connectFields? "Connecting \"A\" as north using protocol version ١٨".toList).map (·.map some)) := by
  decide +kernel

end Bridge.RegexConnect
