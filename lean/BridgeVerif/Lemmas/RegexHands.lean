import BridgeVerif.Lemmas.RegexHandsB
import BridgeVerif.Lemmas.RegexHandsC
/-!
# The regular expressions of `hands.py` are the hand scanners of `Model/Hands.lean`  (Appendix F, R1)

`handsRegexFacts : HandsRegexFacts` (statements in `Lemmas/RegexHandsFacts.lean`):
* `match_deal` (`Lemmas/RegexHandsC.lean`): for every subject, `re.match(DEAL_PATTERN, s)` is `dealFields? s`;
* `match_hand` (`Lemmas/RegexHandsB.lean`): for every subject without a line feed, the groups of
  `re.match(HAND_PATTERN, f)` are `matchGroups 3 f`.
Both go through the fuel-free denotation `den` of `Lemmas/RegexPbnA.lean` (`Lemmas/RegexHandsA.lean` has the tools).
-/
namespace Bridge.RegexHands
open Bridge

theorem handsRegexFacts : HandsRegexFacts := ⟨match_deal, match_hand⟩

/-- why `match_hand` excludes line feeds: the scanner's separator is any character, the pattern's `.` is not -/
theorem match_hand_newline_counterexample :
    (Re.pyMatch false HAND_PATTERN "A\nK.Q.J".toList).map (Option.map (groupTexts "A\nK.Q.J".toList))
      ≠ some ((matchGroups 3 "A\nK.Q.J".toList).map (·.map some)) := by decide +kernel

end Bridge.RegexHands
