import BridgeVerif.Lemmas.RegexConnectA
/-!
# The regular expressions of the table manager's message parsers, part A: `"{prefix}(.*)"`

`MessageInterface.parse_card` matches `f'{player.formal_name} plays (.*)'`, `MessageInterface.parse_bid` (second attempt)
matches `f'{player_name} (.*)'`, both with `re.IGNORECASE` and `re.match`.  For the four seat names these are eight concrete
pattern texts; each parses to a run of literals followed by the group `(.*)`.

`match_lits_dot` : for EVERY subject whose characters are in the class `agree` (engine and scanner compare the pattern
letters alike on them; every ASCII character is in the class), the generic engine of `Model/Regex.lean` matches iff
`stripPrefixCI prefix subject` of `Model/Msg.lean` succeeds, and group 1 is the rest of the subject up to the first line
feed.  Tools: `Lemmas/RegexPbnA.lean` (`den`), `Lemmas/RegexHandsA.lean` (`Rel`), `Lemmas/RegexConnectA.lean`
(`rel_lits`, `rel_dotStar`).
-/
namespace Bridge.RegexMsgBid
open Bridge Bridge.Re Bridge.RegexPbn Bridge.RegexHands Bridge.RegexConnect

/-! ### the class of subject characters -/
/-- every literal character of the bid / card / alert patterns -/
def patChars : List Char := "NorthEastSouthWest playsbidsCDHSNTAlert.".toList

/-- the class: the engine (`Re.charEq true`, Unicode folding tables) and the scanner (`eqCI`) compare every pattern letter
with the character alike -/
def agree (x : Char) : Bool := agreeLit patChars x

theorem agree_ofNat_ascii : ∀ n : Fin 128, agree (Char.ofNat n.val) = true := by decide +kernel

/-- every ASCII character is in the class -/
theorem agree_ascii (x : Char) (h : x.toNat < 128) : agree x = true := by
  have := agree_ofNat_ascii ⟨x.toNat, h⟩
  simpa [Char.ofNat_toNat] using this

/-! ### general facts on `lits` -/
theorem simple_lits (R : Re) : ∀ p : List Char, simple (lits p R) = simple R := by
  intro p
  induction p with
  | nil => rfl
  | cons c p ih => show (simple (.lit c) && simple (lits p R)) = _; rw [ih]; rfl

theorem ngroups_lits (R : Re) : ∀ p : List Char, (lits p R).ngroups = R.ngroups := by
  intro p
  induction p with
  | nil => rfl
  | cons c p ih => show Nat.max 0 (lits p R).ngroups = _; rw [ih]; exact Nat.zero_max _

theorem den_lits_fun' (ic : Bool) (R : Re) (k : St → Re.Res St) (p : List Char) :
    den ic (lits p R) k = denLits ic p (den ic R k) := by
  funext st; exact den_lits ic R k p st

theorem pyMatch_abs' (ic : Bool) (pat s : List Char) (re : Re) (hp : Re.parse pat = some re) (hs : simple re = true) :
    (Re.pyMatch ic pat s).map (Option.map (groupTexts s)) =
      absRes s (den ic re (kfin 0 false false) ⟨0, s, List.replicate re.ngroups none⟩) := by
  unfold Re.pyMatch
  simp only [hp]
  rw [matchCore_eq_den ic re hs _ 0 s false false (by unfold fuelFor; exact fuel_ok _ _)]
  cases den ic re (kfin 0 false false) ⟨0, s, List.replicate re.ngroups none⟩ <;> rfl

/-! ### the end of a pattern -/
/-- at the end of a `re.match` pattern with `N` groups nothing more is asked -/
theorem rel_end (s : List Char) (N : Nat) : Rel s N N (kfin 0 false false) (fun _ => some []) := by
  intro pos rest caps _ hl
  have e : (texts s caps).take N = texts s caps := by
    rw [List.take_of_length_le]; simp [texts, hl]
  simp [kfin, absRes, e]

/-- a greedy `(.*)` whose continuation accepts everything takes the whole line -/
theorem greedy_always {α : Type} (s : List Char) (h : List Char → List Char → α) :
    ∀ n, greedy s (fun g t => some (h g t)) n = some (h (s.take n) (s.drop n)) := by
  intro n
  cases n with
  | zero => simp [greedy]
  | succ n => simp [greedy]

theorem dotStar_always {α : Type} (s : List Char) (h : List Char → List Char → α) :
    dotStar s (fun g t => some (h g t)) =
      some (h (s.takeWhile (· ≠ '\n')) (s.drop (s.takeWhile (· ≠ '\n')).length)) := by
  unfold dotStar
  rw [greedy_always, take_length_takeWhile]

/-! ### `"{prefix}(.*)"` -/
/-- THE REGULAR EXPRESSION `prefix(.*)` IS `stripPrefixCI prefix` + "the rest of the line", on every subject of the class -/
theorem match_lits_dot (pat pre : List Char) (hp : Re.parse pat = some (lits pre (dotG 1)))
    (hpre : ∀ c ∈ pre, c ∈ patChars) (s : List Char) (hs : ∀ x ∈ s, agree x = true) :
    (Re.pyMatch true pat s).map (Option.map (groupTexts s)) =
      some ((stripPrefixCI pre s).map fun r => [some (r.takeWhile (· ≠ '\n'))]) := by
  have hsim : simple (lits pre (dotG 1)) = true := by rw [simple_lits]; rfl
  have hng : (lits pre (dotG 1)).ngroups = 1 := by rw [ngroups_lits]; rfl
  rw [pyMatch_abs' true pat s _ hp hsim, hng, den_lits_fun']
  have r1 := rel_end s 1
  have rD := rel_dotStar true s 1 0 (by omega) _ _ r1
  have rA := rel_lits s patChars hs 1 0 _ _ rD pre hpre
  have := rA 0 s (List.replicate 1 none) rfl rfl
  rw [this]
  have hd : ∀ r : List Char, (dotStar r fun g (_ : List Char) => Option.map (fun gs => g :: gs) (some ([] : List (List Char))))
      = some [r.takeWhile (· ≠ '\n')] := fun r => dotStar_always r (fun g _ => [g])
  simp only [hd, List.take_zero, List.nil_append]
  cases stripPrefixCI pre s <;> rfl

/-! ### the eight pattern texts -/
/-- the pattern `parse_card` builds: `f'{player.formal_name} plays (.*)'` -/
def playsPat (p : Seat) : List Char := p.formal ++ " plays (.*)".toList
/-- the pattern `parse_bid` builds for its second attempt: `f'{player_name} (.*)'` -/
def namePat (name : List Char) : List Char := name ++ " (.*)".toList

theorem parse_plays (p : Seat) : Re.parse (playsPat p) = some (lits (p.formal ++ " plays ".toList) (dotG 1)) := by
  cases p <;> decide +kernel

theorem parse_name (p : Seat) : Re.parse (namePat p.formal) = some (lits (p.formal ++ [' ']) (dotG 1)) := by
  cases p <;> decide +kernel

/-- `re.match(f'{formal} plays (.*)', s, re.IGNORECASE)` : matches iff `stripPrefixCI (formal ++ " plays ") s` succeeds;
group 1 is the rest up to the first line feed — the scanner of `parseCard?` -/
theorem match_plays (p : Seat) (s : List Char) (hs : ∀ x ∈ s, agree x = true) :
    (Re.pyMatch true (playsPat p) s).map (Option.map (groupTexts s)) =
      some ((stripPrefixCI (p.formal ++ " plays ".toList) s).map fun r => [some (r.takeWhile (· ≠ '\n'))]) :=
  match_lits_dot _ _ (parse_plays p) (by cases p <;> decide) s hs

/-- `re.match(f'{formal} (.*)', s, re.IGNORECASE)` : the scanner of the second half of `parseBid?` -/
theorem match_name (p : Seat) (s : List Char) (hs : ∀ x ∈ s, agree x = true) :
    (Re.pyMatch true (namePat p.formal) s).map (Option.map (groupTexts s)) =
      some ((stripPrefixCI (p.formal ++ [' ']) s).map fun r => [some (r.takeWhile (· ≠ '\n'))]) :=
  match_lits_dot _ _ (parse_name p) (by cases p <;> decide) s hs

end Bridge.RegexMsgBid
