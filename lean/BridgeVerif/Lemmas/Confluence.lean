import BridgeVerif.Spec.Net
/-!
# Generic theory of the process network of Spec/Net.lean (nothing bridge-specific)

* `step_persistent` — no lost wake-up: a step of another thread never disables an enabled thread;
* `step_diamond`    — steps of different threads commute to the same state;
* `confluence`      — if ONE run reaches a state where nobody can move, then EVERY run is a prefix of a run
                      to that same state: it is no longer, it can always be extended, it cannot get stuck
                      anywhere else;
* history / output invariants, frame (program suffix), barrier-count shift, payload erasure.
-/
namespace Bridge

/-! ### pointwise update -/
section
variable {α β : Type} [DecidableEq α]
theorem upd_apply (f : α → β) (a : α) (b : β) (x : α) : upd f a b x = if x = a then b else f x := rfl
@[simp] theorem upd_same (f : α → β) (a : α) (b : β) : upd f a b a = b := by simp [upd]
theorem upd_other (f : α → β) {a x : α} (b : β) (h : x ≠ a) : upd f a b x = f x := by simp [upd, h]
theorem upd_comm (f : α → β) {a a' : α} (b b' : β) (h : a ≠ a') :
    upd (upd f a b) a' b' = upd (upd f a' b') a b := by
  funext x; simp only [upd]; grind
@[simp] theorem upd_upd_same (f : α → β) (a : α) (b b' : β) : upd (upd f a b) a b' = upd f a b' := by
  funext x; simp only [upd]; grind
end
section
variable {Tid Chan Msg Out : Type} [DecidableEq Tid] [DecidableEq Chan]
variable {wr rd : Chan → Tid} {parties : List Tid}

/-! ### `step` factored as: head action, enabledness test, effect -/

/-- is action `a` of thread `t` enabled in `n`? -/
def enabledAct (parties : List Tid) (n : Net Tid Chan Msg Out) (t : Tid) : Act Chan Msg Out → Bool
  | .recv c => !(n.chan c).isEmpty
  | .depart => canDepart parties n t
  | _ => true

/-- effect of action `a` of thread `t` (whose remaining program becomes `rest`) -/
def applyAct (n : Net Tid Chan Msg Out) (t : Tid) (rest : List (Act Chan Msg Out)) :
    Act Chan Msg Out → Net Tid Chan Msg Out
  | .send c m => { n with prog := upd n.prog t rest, chan := upd n.chan c (n.chan c ++ [m]),
                          hist := upd n.hist c (n.hist c ++ [m]) }
  | .recv c => { n with prog := upd n.prog t rest, chan := upd n.chan c (n.chan c).tail }
  | .arrive => { n with prog := upd n.prog t rest, arrived := upd n.arrived t (n.arrived t + 1) }
  | .depart => { n with prog := upd n.prog t rest, departed := upd n.departed t (n.departed t + 1) }
  | .emit o => { n with prog := upd n.prog t rest, outs := upd n.outs t (n.outs t ++ [o]) }

theorem step_eq (n : Net Tid Chan Msg Out) (t : Tid) :
    step parties n t = match n.prog t with
      | [] => none
      | a :: rest => if enabledAct parties n t a then some (applyAct n t rest a) else none := by
  unfold step
  split
  · simp [*]
  · simp [*, enabledAct, applyAct]
  · rename_i c rest h
    simp only [h]
    split <;> simp [*, enabledAct, applyAct]
  · simp [*, enabledAct, applyAct]
  · by_cases hc : canDepart parties n t = true <;> simp [*, enabledAct, applyAct]
  · simp [*, enabledAct, applyAct]

theorem step_some_iff {n n' : Net Tid Chan Msg Out} {t : Tid} :
    step parties n t = some n' ↔
      ∃ a rest, n.prog t = a :: rest ∧ enabledAct parties n t a = true ∧ n' = applyAct n t rest a := by
  rw [step_eq]
  split
  · simp [*]
  · rename_i a rest h
    simp only [h]
    constructor
    · intro h'
      split at h'
      · exact ⟨a, rest, rfl, by assumption, by simpa using h'.symm⟩
      · simp at h'
    · rintro ⟨a', rest', h1, h2, h3⟩
      cases h1
      simp [h2, h3]

omit [DecidableEq Tid] [DecidableEq Chan] in
theorem canDepart_iff {n : Net Tid Chan Msg Out} {t : Tid} :
    canDepart parties n t = true ↔ ∀ q ∈ parties, n.departed t < n.arrived q := by
  simp [canDepart, List.all_eq_true]

theorem enabledAct_applyAct {n : Net Tid Chan Msg Out} {t u : Tid} {a b : Act Chan Msg Out}
    (r : List (Act Chan Msg Out)) (htu : t ≠ u)
    (hrr : ∀ c, a = .recv c → b = .recv c → False)
    (hb : enabledAct parties n u b = true) : enabledAct parties (applyAct n t r a) u b = true := by
  cases b with
  | send c m => rfl
  | arrive => rfl
  | emit o => rfl
  | recv c =>
    cases a <;> simp_all [enabledAct, applyAct, upd_apply] <;> split <;> simp_all
  | depart =>
    simp only [enabledAct, canDepart_iff] at hb ⊢
    cases a <;> simp_all [applyAct, upd_apply]
    · intro q hq
      have := hb q hq
      by_cases hq' : q = t
      · subst hq'; rw [if_pos rfl]; omega
      · rw [if_neg hq']; exact this
    · intro q hq; have := hb q hq; rw [if_neg (Ne.symm htu)]; exact this

theorem applyAct_comm {n : Net Tid Chan Msg Out} {t u : Tid} {a b : Act Chan Msg Out}
    (r r' : List (Act Chan Msg Out)) (htu : t ≠ u)
    (hss : ∀ c m m', a = .send c m → b = .send c m' → False)
    (hrr : ∀ c, a = .recv c → b = .recv c → False)
    (ha : enabledAct parties n t a = true) (hb : enabledAct parties n u b = true) :
    applyAct (applyAct n t r a) u r' b = applyAct (applyAct n u r' b) t r a := by
  have hp := upd_comm n.prog r r' htu
  cases a <;> cases b <;> simp [applyAct, hp]
  case send.send c m c' m' =>
    have hc : c ≠ c' := fun h => hss c m m' rfl (by rw [h])
    rw [upd_other _ _ (Ne.symm hc), upd_other _ _ hc, upd_comm _ _ _ hc,
      upd_other _ _ (Ne.symm hc), upd_other _ _ hc, upd_comm n.hist _ _ hc]
    exact ⟨rfl, rfl⟩
  case send.recv c m c' =>
    by_cases hc : c = c'
    · subst hc
      have : n.chan c ≠ [] := by simpa [enabledAct] using hb
      simp [List.tail_append_of_ne_nil this]
    · rw [upd_other _ _ (Ne.symm hc), upd_other _ _ hc, upd_comm _ _ _ hc]
  case recv.send c c' m =>
    by_cases hc : c = c'
    · subst hc
      have : n.chan c ≠ [] := by simpa [enabledAct] using ha
      simp [List.tail_append_of_ne_nil this]
    · rw [upd_other _ _ (Ne.symm hc), upd_other _ _ hc, upd_comm _ _ _ hc]
  case recv.recv c c' =>
    have hc : c ≠ c' := fun h => hrr c rfl (by rw [h])
    rw [upd_other _ _ (Ne.symm hc), upd_other _ _ hc, upd_comm _ _ _ hc]
  all_goals rw [upd_other _ _ (Ne.symm htu), upd_other _ _ htu, upd_comm _ _ _ htu]

theorem applyAct_prog (n : Net Tid Chan Msg Out) (t : Tid) (rest : List (Act Chan Msg Out))
    (a : Act Chan Msg Out) : (applyAct n t rest a).prog = upd n.prog t rest := by
  cases a <;> rfl

omit [DecidableEq Tid] [DecidableEq Chan] in
/-- different threads of a disciplined net never both send on, or both receive from, one channel -/
theorem disciplined_noconflict {prog : Tid → List (Act Chan Msg Out)} {t u : Tid}
    {a b : Act Chan Msg Out} {r r' : List (Act Chan Msg Out)}
    (hd : Disciplined wr rd prog) (htu : t ≠ u) (ha : prog t = a :: r) (hb : prog u = b :: r') :
    (∀ c m m', a = .send c m → b = .send c m' → False) ∧ (∀ c, a = .recv c → b = .recv c → False) := by
  have h1 := hd t a (by rw [ha]; exact List.mem_cons_self)
  have h2 := hd u b (by rw [hb]; exact List.mem_cons_self)
  constructor
  · intro c m m' e1 e2
    exact htu ((h1.1 c m e1).trans (h2.1 c m' e2).symm)
  · intro c e1 e2
    exact htu ((h1.2 c e1).trans (h2.2 c e2).symm)

/-- a step only shortens the program of the stepping thread: discipline is preserved -/
theorem step_disciplined {n n' : Net Tid Chan Msg Out} {t : Tid}
    (hd : Disciplined wr rd n.prog) (h : step parties n t = some n') : Disciplined wr rd n'.prog := by
  obtain ⟨a, rest, h1, -, rfl⟩ := step_some_iff.1 h
  intro s b hb
  rw [applyAct_prog, upd_apply] at hb
  split at hb
  · subst s; exact hd t b (by rw [h1]; exact List.mem_cons_of_mem _ hb)
  · exact hd s b hb

theorem run_disciplined {n n' : Net Tid Chan Msg Out} {ts : List Tid}
    (hd : Disciplined wr rd n.prog) (h : Run parties n ts n') : Disciplined wr rd n'.prog := by
  induction h with
  | nil => exact hd
  | cons hs _ ih => exact ih (step_disciplined hd hs)

theorem step_diamond_aux {n n1 n2 : Net Tid Chan Msg Out} {t u : Tid}
    (hd : Disciplined wr rd n.prog) (htu : t ≠ u)
    (ht : step parties n t = some n1) (hu : step parties n u = some n2) :
    ∃ n3, step parties n1 u = some n3 ∧ step parties n2 t = some n3 := by
  obtain ⟨a, r, hpa, hea, rfl⟩ := step_some_iff.1 ht
  obtain ⟨b, r', hpb, heb, rfl⟩ := step_some_iff.1 hu
  obtain ⟨hss, hrr⟩ := disciplined_noconflict hd htu hpa hpb
  refine ⟨applyAct (applyAct n t r a) u r' b, ?_, ?_⟩
  · rw [step_some_iff]
    refine ⟨b, r', ?_, enabledAct_applyAct r htu hrr heb, rfl⟩
    rw [applyAct_prog, upd_other _ _ (Ne.symm htu), hpb]
  · rw [step_some_iff]
    refine ⟨a, r, ?_, enabledAct_applyAct r' (Ne.symm htu) (fun c h1 h2 => hrr c h2 h1) hea,
      applyAct_comm r r' htu hss hrr hea heb⟩
    rw [applyAct_prog, upd_other _ _ htu, hpa]

/-- **No lost wake-up.** -/
theorem step_persistent {n n1 : Net Tid Chan Msg Out} {t u : Tid}
    (hd : Disciplined wr rd n.prog) (htu : t ≠ u)
    (ht : step parties n t = some n1) (hu : (step parties n u).isSome) : (step parties n1 u).isSome := by
  cases hn2 : step parties n u with
  | none => simp [hn2] at hu
  | some n2 =>
    obtain ⟨n3, h3, -⟩ := step_diamond_aux hd htu ht hn2
    simp [h3]

/-- **Diamond.** -/
theorem step_diamond {n n1 n2 : Net Tid Chan Msg Out} {t u : Tid}
    (hd : Disciplined wr rd n.prog) (htu : t ≠ u)
    (ht : step parties n t = some n1) (hu : step parties n u = some n2) :
    ∃ n3, step parties n1 u = some n3 ∧ step parties n2 t = some n3 := by
  exact step_diamond_aux hd htu ht hu

/-- one step off a run to a stuck state: the rest of the run can be rearranged -/
theorem run_strip {n nf n' : Net Tid Chan Msg Out} {ts : List Tid} {u : Tid}
    (hd : Disciplined wr rd n.prog) (hr : Run parties n ts nf) (hs : Stuck parties nf)
    (hu : step parties n u = some n') : ∃ ts', Run parties n' ts' nf ∧ ts'.length + 1 = ts.length := by
  induction hr generalizing n' with
  | nil n => rw [hs u] at hu; cases hu
  | @cons n n1 nf t ts hstep hrest ih =>
    by_cases htu : t = u
    · subst htu
      rw [hstep] at hu
      cases hu
      exact ⟨ts, hrest, rfl⟩
    · obtain ⟨n3, h3, h3'⟩ := step_diamond_aux hd htu hstep hu
      obtain ⟨ts', hr', hl⟩ := ih (step_disciplined hd hstep) hs h3
      exact ⟨t :: ts', Run.cons h3' hr', by simp [hl]⟩

theorem confluence_aux {n n' : Net Tid Chan Msg Out} {us : List Tid} (hr' : Run parties n us n') :
    ∀ {nf : Net Tid Chan Msg Out} {ts : List Tid}, Disciplined wr rd n.prog → Run parties n ts nf →
      Stuck parties nf → ∃ vs, Run parties n' vs nf ∧ us.length + vs.length = ts.length := by
  induction hr' with
  | nil n => intro nf ts _ hr _; exact ⟨ts, hr, by simp⟩
  | @cons n n1 n' u us hstep _ ih =>
    intro nf ts hd hr hs
    obtain ⟨ts', hr1, hl⟩ := run_strip hd hr hs hstep
    obtain ⟨vs, hv, hl'⟩ := ih (step_disciplined hd hstep) hr1 hs
    exact ⟨vs, hv, by simp only [List.length_cons]; omega⟩

/-- **Confluence.** -/
theorem confluence {n nf : Net Tid Chan Msg Out} {ts : List Tid}
    (hd : Disciplined wr rd n.prog) (hr : Run parties n ts nf) (hs : Stuck parties nf) :
    ∀ (us : List Tid) (n' : Net Tid Chan Msg Out), Run parties n us n' →
      ∃ vs, Run parties n' vs nf ∧ us.length + vs.length = ts.length := by
  intro us n' hr'
  exact confluence_aux hr' hd hr hs

/-- every maximal run ends in the same state -/
theorem maximal_runs_agree {n nf n' : Net Tid Chan Msg Out} {ts us : List Tid}
    (hd : Disciplined wr rd n.prog) (hr : Run parties n ts nf) (hs : Stuck parties nf)
    (hr' : Run parties n us n') (hs' : Stuck parties n') : n' = nf ∧ us.length = ts.length := by
  obtain ⟨vs, hv, hl⟩ := confluence hd hr hs us n' hr'
  cases hv with
  | nil => exact ⟨rfl, by simpa using hl⟩
  | cons hstep _ => rw [hs' _] at hstep; cases hstep

/-- `runSched` and `Run` are the same thing -/
theorem runSched_iff_run {n n' : Net Tid Chan Msg Out} {ts : List Tid} :
    runSched parties n ts = some n' ↔ Run parties n ts n' := by
  induction ts generalizing n with
  | nil =>
    simp only [runSched]
    constructor
    · intro h; cases h; exact Run.nil _
    · intro h; cases h; rfl
  | cons t ts ih =>
    simp only [runSched]
    constructor
    · intro h
      cases hst : step parties n t with
      | none => simp [hst] at h
      | some n1 =>
        simp only [hst] at h
        exact Run.cons hst (ih.1 h)
    · intro h
      cases h with
      | cons hst hrest =>
        simp only [hst]
        exact ih.2 hrest

/-- a net whose threads have all finished is stuck -/
theorem allDone_stuck {n : Net Tid Chan Msg Out} (h : AllDone n) : Stuck parties n := by
  intro t
  rw [step_eq, h t]

theorem sendsOn_cons_of_not_send {c : Chan} {a : Act Chan Msg Out} {r : List (Act Chan Msg Out)}
    (h : ∀ m, a ≠ .send c m) : sendsOn c (a :: r) = sendsOn c r := by
  cases a with
  | send c' m =>
    have : c' ≠ c := fun e => h m (by rw [e])
    simp [sendsOn, this]
  | _ => rfl

theorem applyAct_hist_of_not_send {c : Chan} (n : Net Tid Chan Msg Out) (t : Tid)
    (r : List (Act Chan Msg Out)) {a : Act Chan Msg Out} (h : ∀ m, a ≠ .send c m) :
    (applyAct n t r a).hist c = n.hist c := by
  cases a with
  | send c' m =>
    have : c ≠ c' := fun e => h m (by rw [e])
    simp [applyAct, upd_other _ _ this]
  | _ => rfl

theorem step_hist {n n' : Net Tid Chan Msg Out} {t : Tid} (hd : Disciplined wr rd n.prog)
    (h : step parties n t = some n') (c : Chan) :
    n'.hist c ++ sendsOn c (n'.prog (wr c)) = n.hist c ++ sendsOn c (n.prog (wr c)) := by
  obtain ⟨a, r, hp, -, rfl⟩ := step_some_iff.1 h
  rw [applyAct_prog]
  by_cases hs : ∃ m, a = .send c m
  · obtain ⟨m, rfl⟩ := hs
    have ht : t = wr c := (hd t _ (by rw [hp]; exact List.mem_cons_self)).1 c m rfl
    subst ht
    simp [applyAct, hp, sendsOn]
  · have hs' : ∀ m, a ≠ .send c m := fun m e => hs ⟨m, e⟩
    rw [applyAct_hist_of_not_send n t r hs']
    by_cases ht : wr c = t
    · rw [ht, upd_same, hp, sendsOn_cons_of_not_send hs']
    · rw [upd_other _ _ ht]

theorem run_hist_aux {n n' : Net Tid Chan Msg Out} {us : List Tid} (hr : Run parties n us n')
    (hd : Disciplined wr rd n.prog) (c : Chan) :
    n'.hist c ++ sendsOn c (n'.prog (wr c)) = n.hist c ++ sendsOn c (n.prog (wr c)) := by
  induction hr with
  | nil => rfl
  | cons hs _ ih => rw [ih (step_disciplined hd hs), step_hist hd hs]

/-! ### what has been sent / emitted so far plus what is still to come is constant -/
theorem run_hist {prog0 : Tid → List (Act Chan Msg Out)} {n : Net Tid Chan Msg Out} {us : List Tid}
    (hd : Disciplined wr rd prog0) (hr : Run parties (Net.init prog0) us n) (c : Chan) :
    n.hist c ++ sendsOn c (n.prog (wr c)) = sendsOn c (prog0 (wr c)) := by
  have := run_hist_aux hr hd c
  simpa [Net.init] using this

theorem step_outs {n n' : Net Tid Chan Msg Out} {t : Tid}
    (h : step parties n t = some n') (s : Tid) :
    n'.outs s ++ emitsOf (n'.prog s) = n.outs s ++ emitsOf (n.prog s) := by
  obtain ⟨a, r, hp, -, rfl⟩ := step_some_iff.1 h
  rw [applyAct_prog]
  by_cases hst : s = t
  · subst hst
    rw [upd_same, hp]
    cases a <;> simp [applyAct, emitsOf]
  · rw [upd_other _ _ hst]
    cases a <;> simp [applyAct, upd_other _ _ hst]

theorem run_outs_aux {n n' : Net Tid Chan Msg Out} {us : List Tid} (hr : Run parties n us n')
    (s : Tid) : n'.outs s ++ emitsOf (n'.prog s) = n.outs s ++ emitsOf (n.prog s) := by
  induction hr with
  | nil => rfl
  | cons hs _ ih => rw [ih, step_outs hs]

theorem run_outs {prog0 : Tid → List (Act Chan Msg Out)} {n : Net Tid Chan Msg Out} {us : List Tid}
    (hr : Run parties (Net.init prog0) us n) (t : Tid) :
    n.outs t ++ emitsOf (n.prog t) = emitsOf (prog0 t) := by
  have := run_outs_aux hr t
  simpa [Net.init] using this

/-- every step shortens exactly one program by one action -/
def Net.remaining (n : Net Tid Chan Msg Out) (all : List Tid) : Nat := (all.map fun t => (n.prog t).length).sum

/-! ### frame: what follows in the programs does not matter until it is reached -/
def Net.appendProg (n : Net Tid Chan Msg Out) (rest : Tid → List (Act Chan Msg Out)) : Net Tid Chan Msg Out :=
  { n with prog := fun t => n.prog t ++ rest t }

theorem step_append {n n' : Net Tid Chan Msg Out} {t : Tid} (rest : Tid → List (Act Chan Msg Out))
    (h : step parties n t = some n') :
    step parties (n.appendProg rest) t = some (n'.appendProg rest) := by
  obtain ⟨a, r, hp, he, rfl⟩ := step_some_iff.1 h
  rw [step_some_iff]
  refine ⟨a, r ++ rest t, by simp [Net.appendProg, hp], ?_, ?_⟩
  · rw [← he]; cases a <;> rfl
  · have : (fun s => upd n.prog t r s ++ rest s) = upd (fun s => n.prog s ++ rest s) t (r ++ rest t) := by
      funext s; simp only [upd_apply]; split <;> simp_all
    cases a <;> simp [applyAct, Net.appendProg, this]

theorem run_append {n n' : Net Tid Chan Msg Out} {ts : List Tid} (rest : Tid → List (Act Chan Msg Out))
    (h : Run parties n ts n') : Run parties (n.appendProg rest) ts (n'.appendProg rest) := by
  induction h with
  | nil => exact Run.nil _
  | cons hs _ ih => exact Run.cons (step_append rest hs) ih

/-! ### the barrier only compares counts: a common offset is irrelevant -/
def Net.shift (k : Nat) (n : Net Tid Chan Msg Out) : Net Tid Chan Msg Out :=
  { n with arrived := fun t => n.arrived t + k, departed := fun t => n.departed t + k }

theorem step_shift {n n' : Net Tid Chan Msg Out} {t : Tid} (k : Nat)
    (h : step parties n t = some n') : step parties (n.shift k) t = some (n'.shift k) := by
  obtain ⟨a, r, hp, he, rfl⟩ := step_some_iff.1 h
  rw [step_some_iff]
  refine ⟨a, r, hp, ?_, ?_⟩
  · cases a with
    | depart =>
      simp only [enabledAct, canDepart_iff] at he ⊢
      intro q hq
      have := he q hq
      simp only [Net.shift]
      omega
    | _ => exact he
  · have h1 : ∀ (f : Tid → Nat), (fun s => upd f t (f t + 1) s + k) = upd (fun s => f s + k) t (f t + k + 1) := by
      intro f; funext s; simp only [upd_apply]; split <;> omega
    cases a <;> simp [applyAct, Net.shift, h1]

theorem run_shift {n n' : Net Tid Chan Msg Out} {ts : List Tid} (k : Nat)
    (h : Run parties n ts n') : Run parties (n.shift k) ts (n'.shift k) := by
  induction h with
  | nil => exact Run.nil _
  | cons hs _ ih => exact Run.cons (step_shift k hs) ih

omit [DecidableEq Tid] [DecidableEq Chan] in
theorem enabledAct_erase (n : Net Tid Chan Msg Out) (t : Tid) (a : Act Chan Msg Out) :
    enabledAct parties n.erase t a.erase = enabledAct parties n t a := by
  cases a with
  | recv c => simp [enabledAct, Act.erase, Net.erase]
  | _ => rfl

theorem applyAct_erase (n : Net Tid Chan Msg Out) (t : Tid) (r : List (Act Chan Msg Out))
    (a : Act Chan Msg Out) :
    applyAct n.erase t (r.map Act.erase) a.erase = (applyAct n t r a).erase := by
  have hp : upd (fun s => (n.prog s).map Act.erase) t (r.map Act.erase)
      = fun s => (upd n.prog t r s).map Act.erase := by
    funext s; simp only [upd_apply]; split <;> rfl
  have hl : ∀ {κ X : Type} [DecidableEq κ] (f : κ → List X) (x : κ) (l : List X),
      upd (fun s => (f s).map fun _ => ()) x (l.map fun _ => ()) = fun s => (upd f x l s).map fun _ => () := by
    intro κ X _ f x l; funext s; simp only [upd_apply]; split <;> rfl
  cases a with
  | send c m =>
    have := hl n.chan c (n.chan c ++ [m])
    have := hl n.hist c (n.hist c ++ [m])
    simp_all [applyAct, Act.erase, Net.erase]
  | recv c =>
    have := hl n.chan c (n.chan c).tail
    simp_all [applyAct, Act.erase, Net.erase]
  | arrive => simp [applyAct, Act.erase, Net.erase, hp]
  | depart => simp [applyAct, Act.erase, Net.erase, hp]
  | emit o =>
    have := hl n.outs t (n.outs t ++ [o])
    simp_all [applyAct, Act.erase, Net.erase]

/-! ### enabledness never depends on payloads -/
theorem step_erase (n : Net Tid Chan Msg Out) (t : Tid) :
    step parties n.erase t = (step parties n t).map Net.erase := by
  rw [step_eq, step_eq]
  cases hp : n.prog t with
  | nil => simp [Net.erase, hp]
  | cons a r =>
    have hp' : n.erase.prog t = a.erase :: r.map Act.erase := by simp [Net.erase, hp]
    simp only [hp', enabledAct_erase, applyAct_erase]
    split <;> rfl

/-- a run of the erased net lifts to a run of the net -/
theorem run_of_erased {n : Net Tid Chan Msg Out} {ts : List Tid} {m : Net Tid Chan Unit Unit}
    (h : Run parties n.erase ts m) : ∃ n', Run parties n ts n' ∧ n'.erase = m := by
  induction ts generalizing n with
  | nil => cases h; exact ⟨n, Run.nil _, rfl⟩
  | cons t ts ih =>
    cases h with
    | cons hst hrest =>
      rw [step_erase] at hst
      cases hn : step parties n t with
      | none => simp [hn] at hst
      | some n1 =>
        simp only [hn, Option.map_some, Option.some.injEq] at hst
        subst hst
        obtain ⟨n', hr, he⟩ := ih hrest
        exact ⟨n', Run.cons hn hr, he⟩

end
end Bridge
