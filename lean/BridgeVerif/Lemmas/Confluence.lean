import BridgeVerif.Spec.Net
/-!
# Generic theory of the process network of Spec/Net.lean (nothing bridge-specific)

* `step_persistent` — no lost wake-up: a step of another thread never disables an enabled thread;
* `step_diamond`    — steps of different threads commute to the same state;
* `confluence`      — if ONE run reaches a state where nobody can move, then EVERY run is a prefix of a run
                      to that same state: it is no longer, it can always be extended, it cannot get stuck
                      anywhere else;
* history / output invariants, frame (program suffix), barrier-count shift, payload erasure.
-/
namespace Bridge
section
variable {Tid Chan Msg Out : Type} [DecidableEq Tid] [DecidableEq Chan]
variable {wr rd : Chan → Tid} {parties : List Tid}

/-- a step only shortens the program of the stepping thread: discipline is preserved -/
theorem step_disciplined {n n' : Net Tid Chan Msg Out} {t : Tid}
    (hd : Disciplined wr rd n.prog) (h : step parties n t = some n') : Disciplined wr rd n'.prog := by
  sorry

theorem run_disciplined {n n' : Net Tid Chan Msg Out} {ts : List Tid}
    (hd : Disciplined wr rd n.prog) (h : Run parties n ts n') : Disciplined wr rd n'.prog := by
  sorry

/-- **No lost wake-up.** -/
theorem step_persistent {n n1 : Net Tid Chan Msg Out} {t u : Tid}
    (hd : Disciplined wr rd n.prog) (htu : t ≠ u)
    (ht : step parties n t = some n1) (hu : (step parties n u).isSome) : (step parties n1 u).isSome := by
  sorry

/-- **Diamond.** -/
theorem step_diamond {n n1 n2 : Net Tid Chan Msg Out} {t u : Tid}
    (hd : Disciplined wr rd n.prog) (htu : t ≠ u)
    (ht : step parties n t = some n1) (hu : step parties n u = some n2) :
    ∃ n3, step parties n1 u = some n3 ∧ step parties n2 t = some n3 := by
  sorry

/-- **Confluence.** -/
theorem confluence {n nf : Net Tid Chan Msg Out} {ts : List Tid}
    (hd : Disciplined wr rd n.prog) (hr : Run parties n ts nf) (hs : Stuck parties nf) :
    ∀ (us : List Tid) (n' : Net Tid Chan Msg Out), Run parties n us n' →
      ∃ vs, Run parties n' vs nf ∧ us.length + vs.length = ts.length := by
  sorry

/-- every maximal run ends in the same state -/
theorem maximal_runs_agree {n nf n' : Net Tid Chan Msg Out} {ts us : List Tid}
    (hd : Disciplined wr rd n.prog) (hr : Run parties n ts nf) (hs : Stuck parties nf)
    (hr' : Run parties n us n') (hs' : Stuck parties n') : n' = nf ∧ us.length = ts.length := by
  sorry

/-- `runSched` and `Run` are the same thing -/
theorem runSched_iff_run {n n' : Net Tid Chan Msg Out} {ts : List Tid} :
    runSched parties n ts = some n' ↔ Run parties n ts n' := by
  sorry

/-- a net whose threads have all finished is stuck -/
theorem allDone_stuck {n : Net Tid Chan Msg Out} (h : AllDone n) : Stuck parties n := by
  sorry

/-! ### what has been sent / emitted so far plus what is still to come is constant -/
theorem run_hist {prog0 : Tid → List (Act Chan Msg Out)} {n : Net Tid Chan Msg Out} {us : List Tid}
    (hd : Disciplined wr rd prog0) (hr : Run parties (Net.init prog0) us n) (c : Chan) :
    n.hist c ++ sendsOn c (n.prog (wr c)) = sendsOn c (prog0 (wr c)) := by
  sorry

theorem run_outs {prog0 : Tid → List (Act Chan Msg Out)} {n : Net Tid Chan Msg Out} {us : List Tid}
    (hr : Run parties (Net.init prog0) us n) (t : Tid) :
    n.outs t ++ emitsOf (n.prog t) = emitsOf (prog0 t) := by
  sorry

/-- every step shortens exactly one program by one action -/
def Net.remaining (n : Net Tid Chan Msg Out) (all : List Tid) : Nat := (all.map fun t => (n.prog t).length).sum

/-! ### frame: what follows in the programs does not matter until it is reached -/
def Net.appendProg (n : Net Tid Chan Msg Out) (rest : Tid → List (Act Chan Msg Out)) : Net Tid Chan Msg Out :=
  { n with prog := fun t => n.prog t ++ rest t }

theorem run_append {n n' : Net Tid Chan Msg Out} {ts : List Tid} (rest : Tid → List (Act Chan Msg Out))
    (h : Run parties n ts n') : Run parties (n.appendProg rest) ts (n'.appendProg rest) := by
  sorry

/-! ### the barrier only compares counts: a common offset is irrelevant -/
def Net.shift (k : Nat) (n : Net Tid Chan Msg Out) : Net Tid Chan Msg Out :=
  { n with arrived := fun t => n.arrived t + k, departed := fun t => n.departed t + k }

theorem run_shift {n n' : Net Tid Chan Msg Out} {ts : List Tid} (k : Nat)
    (h : Run parties n ts n') : Run parties (n.shift k) ts (n'.shift k) := by
  sorry

/-! ### enabledness never depends on payloads -/
theorem step_erase (n : Net Tid Chan Msg Out) (t : Tid) :
    step parties n.erase t = (step parties n t).map Net.erase := by
  sorry

/-- a run of the erased net lifts to a run of the net -/
theorem run_of_erased {n : Net Tid Chan Msg Out} {ts : List Tid} {m : Net Tid Chan Unit Unit}
    (h : Run parties n.erase ts m) : ∃ n', Run parties n ts n' ∧ n'.erase = m := by
  sorry

end
end Bridge
