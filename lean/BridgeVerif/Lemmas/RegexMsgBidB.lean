import BridgeVerif.Lemmas.RegexMsgBidA
/-!
# The regular expressions of the table manager's message parsers, part B: `re.sub(r'\s+Alert\.\s*', '', m, IGNORECASE)`

`sub_alert` : for EVERY subject whose characters are in the class `agreeWs` — the pattern letters compare alike in the
engine and in the scanner, and `\s` (Python: `str.isspace`) agrees with the scanner's ASCII `isWs` — the generic engine's
`re.sub` with the empty replacement returns `removeAlert` of `Model/Msg.lean`.  The class holds every ASCII character
EXCEPT U+001C..U+001F (the four "information separators" are white space for Python and not for the model: on
`"a\x1cAlert."` the two differ, see the example at the end).
-/
namespace Bridge.RegexMsgBid
open Bridge Bridge.Re Bridge.RegexPbn Bridge.RegexHands Bridge.RegexConnect

/-- the pattern text of `Server.remove_alert_word` -/
def ALERT_PATTERN : List Char := "\\s+Alert\\.\\s*".toList
def wsItem : Re := .cls false [.space false]
def alertLit : List Char := "Alert.".toList
def alertRe : Re := .seq (.rep 1 none wsItem) (lits alertLit (.rep 0 none wsItem))

theorem parse_alert : Re.parse ALERT_PATTERN = some alertRe := by decide +kernel
theorem alertRe_simple : simple alertRe = true := by decide

/-- the class of subject characters for the alert pattern -/
def agreeWs (x : Char) : Bool := agree x && (Re.isSpace x == Bridge.isWs x)

theorem agreeWs_ofNat : ∀ n : Fin 128, (0x1C ≤ n.val ∧ n.val ≤ 0x1F) ∨ agreeWs (Char.ofNat n.val) = true := by
  decide +kernel

/-- every ASCII character except U+001C..U+001F is in the class -/
theorem agreeWs_ascii (x : Char) (h : x.toNat < 128) (h2 : ¬ (0x1C ≤ x.toNat ∧ x.toNat ≤ 0x1F)) : agreeWs x = true := by
  have := agreeWs_ofNat ⟨x.toNat, h⟩
  simp only [Char.ofNat_toNat] at this
  rcases this with h3 | h3
  · exact absurd h3 h2
  · exact h3

theorem space_pred (ic : Bool) : (fun x => classTest ic x [.space false] != false) = Re.isSpace := by
  funext x
  simp only [classTest, ClassItem.test, Bool.or_false]
  cases Re.isSpace x <;> rfl

/-! ### list facts -/
theorem drop_tw {α : Type} (p : α → Bool) (l : List α) : l.drop (l.takeWhile p).length = l.dropWhile p := by
  induction l with
  | nil => rfl
  | cons x xs ih => by_cases hp : p x = true <;> simp [List.takeWhile, List.dropWhile, hp, ih]

theorem len_tw {α : Type} (p : α → Bool) (l : List α) : (l.takeWhile p).length + (l.dropWhile p).length = l.length := by
  induction l with
  | nil => rfl
  | cons x xs ih => by_cases hp : p x = true <;> simp [List.takeWhile, List.dropWhile, hp] <;> omega

theorem mem_dw {α : Type} (p : α → Bool) (l : List α) (x : α) (h : x ∈ l.dropWhile p) : x ∈ l := by
  rw [← drop_tw] at h; exact List.mem_of_mem_drop h

theorem strip_spec : ∀ (lit s r : List Char), stripPrefixCI lit s = some r →
    s.drop lit.length = r ∧ s.length = lit.length + r.length := by
  intro lit
  induction lit with
  | nil => intro s r h; simp only [stripPrefixCI, Option.some.injEq] at h; subst h; simp
  | cons c lit ih =>
    intro s r h
    cases s with
    | nil => simp [stripPrefixCI] at h
    | cons x xs =>
      simp only [stripPrefixCI] at h
      split at h
      · have := ih xs r h
        simp only [List.length_cons, List.drop_succ_cons]
        exact ⟨this.1, by omega⟩
      · cases h

/-! ### the pieces of the matcher -/
/-- a greedy star whose continuation refuses every character of the class never gives a character back -/
theorem repDen_commit (p : Char → Bool) (K : St → Re.Res St) (caps : Caps)
    (hK : ∀ pos x xs, p x = true → K ⟨pos, x :: xs, caps⟩ = .fail) :
    ∀ (rest : List Char) (count pos : Nat),
      repDen p 0 none K caps count pos rest = K ⟨pos + (rest.takeWhile p).length, rest.dropWhile p, caps⟩ := by
  intro rest
  induction rest with
  | nil => intro count pos; simp [repDen]
  | cons x xs ih =>
    intro count pos
    by_cases hp : p x = true
    · simp only [repDen, Nat.not_lt_zero, if_false, mxOk, if_true, hp, ih (count + 1) (pos + 1), hK pos x xs hp,
        orFail_self_fail, List.takeWhile, List.dropWhile, List.length_cons]
      congr 2; omega
    · simp only [Bool.not_eq_true] at hp
      simp [repDen, mxOk, hp, List.takeWhile, List.dropWhile]

/-- a greedy star whose continuation accepts everything takes the longest run -/
theorem repDen_greedy_ok (p : Char → Bool) (K : St → Re.Res St) (caps : Caps) (q : Nat)
    (hK : ∀ pos' rest', q ≤ pos' → K ⟨pos', rest', caps⟩ = .ok ⟨pos', rest', caps⟩) :
    ∀ (rest : List Char) (count pos : Nat), q ≤ pos →
      repDen p 0 none K caps count pos rest = .ok ⟨pos + (rest.takeWhile p).length, rest.dropWhile p, caps⟩ := by
  intro rest
  induction rest with
  | nil => intro count pos hq; simp [repDen, hK pos [] hq]
  | cons x xs ih =>
    intro count pos hq
    by_cases hp : p x = true
    · simp only [repDen, Nat.not_lt_zero, if_false, mxOk, if_true, hp, ih (count + 1) (pos + 1) (by omega),
        orFail_ok, List.takeWhile, List.dropWhile, List.length_cons]
      congr 2; omega
    · simp only [Bool.not_eq_true] at hp
      simp [repDen, mxOk, hp, List.takeWhile, List.dropWhile, hK pos (x :: xs) hq]

/-- a run of literals against a subject of the class is `stripPrefixCI` -/
theorem denLits_strip (ps : List Char) (K : St → Re.Res St) (caps : Caps) : ∀ (lit : List Char), (∀ c ∈ lit, c ∈ ps) →
    ∀ (rest : List Char) (pos : Nat), (∀ x ∈ rest, agreeLit ps x = true) →
      denLits true lit K ⟨pos, rest, caps⟩ =
        match stripPrefixCI lit rest with
        | none => .fail
        | some r => K ⟨pos + lit.length, r, caps⟩ := by
  intro lit
  induction lit with
  | nil => intro _ rest pos _; simp [denLits, stripPrefixCI]
  | cons c lit ih =>
    intro hl rest pos hs
    cases rest with
    | nil => simp [denLits, stepChar, stripPrefixCI]
    | cons x xs =>
      have hc : charEq true c x = eqCI c x := by
        have := hs x (by simp)
        simp only [agreeLit, List.all_eq_true] at this
        exact eq_of_beq (this c (hl c (by simp)))
      simp only [denLits, stepChar, stripPrefixCI, hc]
      by_cases he : eqCI c x = true
      · simp only [he, if_true]
        rw [ih (fun c' hc' => hl c' (by simp [hc'])) xs (pos + 1) (fun y hy => hs y (by simp [hy]))]
        simp only [List.length_cons]
        rw [show pos + 1 + lit.length = pos + (lit.length + 1) by omega]
      · simp [he]

/-! ### the anchored match -/
/-- the scanner at one position: a white-space character, the rest of the white space, `Alert.`, the white space after
it — the number of characters consumed and what is left (this is the test inside `removeAlertAux`) -/
def alertAt : List Char → Option (Nat × List Char)
  | [] => none
  | c :: r0 =>
    if Bridge.isWs c then
      match stripPrefixCI alertLit (r0.dropWhile Bridge.isWs) with
      | some r => some (1 + (r0.takeWhile Bridge.isWs).length + 6 + (r.takeWhile Bridge.isWs).length,
          r.dropWhile Bridge.isWs)
      | none => none
    else none

theorem alertAt_spec (rest t : List Char) (k : Nat) (h : alertAt rest = some (k, t)) :
    0 < k ∧ k + t.length = rest.length ∧ rest.drop k = t := by
  cases rest with
  | nil => cases h
  | cons c r0 =>
    simp only [alertAt] at h
    split at h
    · split at h
      · rename_i r hr
        simp only [Option.some.injEq, Prod.mk.injEq] at h
        obtain ⟨hk, ht⟩ := h
        obtain ⟨h1, h2⟩ := strip_spec _ _ _ hr
        have l1 := len_tw Bridge.isWs r0
        have l2 := len_tw Bridge.isWs r
        have e6 : alertLit.length = 6 := rfl
        rw [e6] at h1 h2
        refine ⟨by omega, ?_, ?_⟩
        · simp only [List.length_cons]; rw [← ht]; omega
        · rw [← hk, ← ht, show 1 + (r0.takeWhile Bridge.isWs).length + 6 + (r.takeWhile Bridge.isWs).length
              = ((r0.takeWhile Bridge.isWs).length + (6 + (r.takeWhile Bridge.isWs).length)) + 1 by omega,
            List.drop_succ_cons, ← List.drop_drop, drop_tw, ← List.drop_drop, h1, drop_tw]
      · cases h
    · cases h

theorem ws_not_A (x : Char) (h : Bridge.isWs x = true) : charEq true 'A' x = false := by
  simp only [Bridge.isWs, Bool.or_eq_true, beq_iff_eq] at h
  rcases h with ((((rfl | rfl) | rfl) | rfl) | rfl) | rfl <;> decide +kernel

theorem matchCore_alert (fuel pos : Nat) (rest : List Char) (mustAdv : Bool) (hf : alertRe.size + rest.length ≤ fuel)
    (hs : ∀ x ∈ rest, agreeWs x = true) :
    matchCore true alertRe fuel pos rest false mustAdv =
      match alertAt rest with
      | none => .fail
      | some (k, _) => .ok { span := (pos, pos + k), groups := [] } := by
  have hlit : ∀ x ∈ rest, agreeLit patChars x = true := fun x hx => by
    have := hs x hx; simp only [agreeWs, Bool.and_eq_true] at this; exact this.1
  have hsp : ∀ x ∈ rest, Re.isSpace x = Bridge.isWs x := fun x hx => by
    have := hs x hx; simp only [agreeWs, Bool.and_eq_true] at this; exact eq_of_beq this.2
  rw [matchCore_eq_den true alertRe alertRe_simple fuel pos rest false mustAdv hf]
  have hden : den true alertRe (kfin pos false mustAdv) ⟨pos, rest, List.replicate alertRe.ngroups none⟩ =
      repDen Bridge.isWs 1 none (denLits true alertLit (fun st =>
        repDen Re.isSpace 0 none (kfin pos false mustAdv) st.caps 0 st.pos st.rest)) [] 0 pos rest := by
    show den true (.seq (.rep 1 none wsItem) (lits alertLit (.rep 0 none wsItem))) _ _ = _
    simp only [den, charPred, wsItem, space_pred, den_lits_fun']
    exact repDen_pred _ _ _ _ _ _ rest 0 pos hsp
  rw [hden]
  cases rest with
  | nil => simp [repDen, alertAt]
  | cons c r0 =>
    by_cases hc : Bridge.isWs c = true
    · have hK : ∀ pos' x xs, Bridge.isWs x = true → denLits true alertLit (fun st =>
          repDen Re.isSpace 0 none (kfin pos false mustAdv) st.caps 0 st.pos st.rest) ⟨pos', x :: xs, []⟩ = .fail := by
        intro pos' x xs hx
        simp [alertLit, denLits, stepChar, ws_not_A x hx]
      simp only [repDen, Nat.lt_add_one, if_true, hc, Nat.zero_add]
      rw [repDen_min _ 1 _ _ r0 1 (pos + 1) (Nat.le_refl _), repDen_commit Bridge.isWs _ [] hK r0 1 (pos + 1),
        denLits_strip patChars _ [] alertLit (by decide) _ _
          (fun x hx => hlit x (by simp [mem_dw _ _ _ hx]))]
      simp only [alertAt, hc, if_true]
      cases hr : stripPrefixCI alertLit (r0.dropWhile Bridge.isWs) with
      | none => rfl
      | some r =>
        have hmem : ∀ x ∈ r, x ∈ c :: r0 := by
          intro x hx
          have := (strip_spec _ _ _ hr).1
          rw [← this] at hx
          simp [mem_dw _ _ _ (List.mem_of_mem_drop hx)]
        simp only
        rw [repDen_pred Re.isSpace Bridge.isWs 0 none _ [] r 0 _ (fun x hx => hsp x (hmem x hx)),
          repDen_greedy_ok Bridge.isWs _ [] (pos + 1) (by
            intro pos' rest' hq
            have : (pos' == pos) = false := by simp; omega
            simp [kfin, this]) r 0 _ (by omega)]
        simp only
        congr 3
        have e6 : alertLit.length = 6 := rfl
        rw [e6]; omega
    · simp only [Bool.not_eq_true] at hc
      simp [repDen, hc, alertAt]

end Bridge.RegexMsgBid
