import BridgeVerif.Lemmas.MiniPyFuelA

/-!
# MiniPy: results do not depend on the fuel once there is enough of it

`mkRec P f` is refined by `mkRec P g` for `f ≤ g`: every definite outcome (a value, a Python exception, `stuck`) of
the interpreter with fuel `f` is the outcome with any larger fuel; in particular with `topFuel`, which is what
`Program.runFn` / `runMethod` / `runNew` use.
-/
namespace Bridge.Py

/-- `r'` refines `r`: wherever `r` gives a definite outcome (a value, a Python exception, or `stuck`) — anything but
running out of fuel — `r'` gives the same outcome -/
def Rec.le (r r' : Rec) : Prop :=
  (∀ env e x, r.eval env e = x → x ≠ .error .fuel → r'.eval env e = x) ∧
  (∀ env ss x, r.exec env ss = x → x ≠ .error .fuel → r'.exec env ss = x) ∧
  (∀ fd args x, r.call fd args = x → x ≠ .error .fuel → r'.call fd args = x) ∧
  (∀ env c b x, r.loop env c b = x → x ≠ .error .fuel → r'.loop env c b = x)

theorem RLe.elim {α} {x y : R α} (h : RLe x y) (z : R α) (hx : x = z) (hne : z ≠ .error .fuel) : y = z := by
  subst hx
  exact (RLe.iff _ _).1 h hne

theorem RLe.intro {α} {x y : R α} (h : ∀ z, x = z → z ≠ .error .fuel → y = z) : RLe x y :=
  (RLe.iff _ _).2 fun hne => h x rfl hne

/-- the two formulations of refinement are the same -/
theorem Rec.le_iff_Le (r r' : Rec) : r.le r' ↔ r.Le r' := by
  constructor
  · intro ⟨h1, h2, h3, h4⟩
    exact ⟨fun env e => RLe.intro (h1 env e), fun env ss => RLe.intro (h2 env ss),
      fun fd args => RLe.intro (h3 fd args), fun env c b => RLe.intro (h4 env c b)⟩
  · intro h
    exact ⟨fun env e => (h.eval env e).elim, fun env ss => (h.exec env ss).elim,
      fun fd args => (h.call fd args).elim, fun env c b => (h.loop env c b).elim⟩

theorem Rec.Le.refl (r : Rec) : r.Le r := ⟨fun _ _ => .refl _, fun _ _ => .refl _, fun _ _ => .refl _, fun _ _ _ => .refl _⟩

theorem Rec.Le.trans {r₁ r₂ r₃ : Rec} (h : r₁.Le r₂) (h' : r₂.Le r₃) : r₁.Le r₃ :=
  ⟨fun env e => (h.eval env e).trans (h'.eval env e), fun env ss => (h.exec env ss).trans (h'.exec env ss),
    fun fd args => (h.call fd args).trans (h'.call fd args), fun env c b => (h.loop env c b).trans (h'.loop env c b)⟩

theorem Rec.le_refl (r : Rec) : r.le r := (Rec.le_iff_Le r r).2 (.refl r)

theorem Rec.le_trans {r₁ r₂ r₃ : Rec} (h : r₁.le r₂) (h' : r₂.le r₃) : r₁.le r₃ :=
  (Rec.le_iff_Le _ _).2 (((Rec.le_iff_Le _ _).1 h).trans ((Rec.le_iff_Le _ _).1 h'))

/-! ## every helper is monotone, in the hypothesis/conclusion form -/

section helpers
variable {r r' : Rec} (h : r.le r')
include h

theorem evalF_le (P : Program) (env : Env) (e : Expr) (x : R Val)
    (hx : evalF r P env e = x) (hne : x ≠ .error .fuel) : evalF r' P env e = x :=
  (evalF_mono ((Rec.le_iff_Le _ _).1 h) P env e).elim x hx hne

theorem execStmtF_le (P : Program) (env : Env) (s : Stmt) (x : R (Env × Flow))
    (hx : execStmtF r P env s = x) (hne : x ≠ .error .fuel) : execStmtF r' P env s = x :=
  (execStmtF_mono ((Rec.le_iff_Le _ _).1 h) P env s).elim x hx hne

theorem execF_le (P : Program) (env : Env) (ss : List Stmt) (x : R (Env × Flow))
    (hx : execF r P env ss = x) (hne : x ≠ .error .fuel) : execF r' P env ss = x :=
  (execF_mono ((Rec.le_iff_Le _ _).1 h) P env ss).elim x hx hne

theorem callF_le (fd : FuncDef) (args : List Val) (x : R (Val × Val))
    (hx : callF r fd args = x) (hne : x ≠ .error .fuel) : callF r' fd args = x :=
  (callF_mono ((Rec.le_iff_Le _ _).1 h) fd args).elim x hx hne

theorem loopF_le (env : Env) (c : Expr) (body : List Stmt) (x : R (Env × Flow))
    (hx : loopF r env c body = x) (hne : x ≠ .error .fuel) : loopF r' env c body = x :=
  (loopF_mono ((Rec.le_iff_Le _ _).1 h) env c body).elim x hx hne

theorem constructF_le (P : Program) (c : Id) (args : List Val) (x : R Val)
    (hx : constructF r P c args = x) (hne : x ≠ .error .fuel) : constructF r' P c args = x :=
  (constructF_mono ((Rec.le_iff_Le _ _).1 h) P c args).elim x hx hne

theorem callMethod_le (P : Program) (c m : Id) (args : List Val) (missing : Err) (x : R (Val × Val))
    (hx : callMethod r P c m args missing = x) (hne : x ≠ .error .fuel) : callMethod r' P c m args missing = x :=
  (callMethod_mono ((Rec.le_iff_Le _ _).1 h) P c m args missing).elim x hx hne

end helpers

/-! ## the interpreter is monotone in the fuel -/

theorem mkRec_Le_succ (P : Program) (f : Nat) : (mkRec P f).Le (mkRec P (f + 1)) := by
  induction f with
  | zero => exact ⟨fun _ _ => .ofFuel _, fun _ _ => .ofFuel _, fun _ _ => .ofFuel _, fun _ _ _ => .ofFuel _⟩
  | succ f ih =>
    exact ⟨fun env e => evalF_mono ih P env e, fun env ss => execF_mono ih P env ss,
      fun fd args => callF_mono ih fd args, fun env c b => loopF_mono ih env c b⟩

theorem mkRec_Le (P : Program) {f g : Nat} (h : f ≤ g) : (mkRec P f).Le (mkRec P g) := by
  induction g with
  | zero =>
    have : f = 0 := by omega
    subst this
    exact .refl _
  | succ g ih =>
    by_cases hfg : f = g + 1
    · subst hfg
      exact .refl _
    · exact (ih (by omega)).trans (mkRec_Le_succ P g)

theorem mkRec_mono_succ (P : Program) (f : Nat) : (mkRec P f).le (mkRec P (f + 1)) :=
  (Rec.le_iff_Le _ _).2 (mkRec_Le_succ P f)

theorem mkRec_mono (P : Program) {f g : Nat} (h : f ≤ g) : (mkRec P f).le (mkRec P g) :=
  (Rec.le_iff_Le _ _).2 (mkRec_Le P h)

/-! ## the user-facing forms -/

theorem callFn_fuel_mono (P : Program) {f g : Nat} (h : f ≤ g) (fd : FuncDef) (args : List Val) (x : R (Val × Val))
    (hx : callFn P f fd args = x) (hne : x ≠ .error .fuel) : callFn P g fd args = x :=
  (mkRec_mono P h).2.2.1 fd args x hx hne

theorem eval_fuel_mono (P : Program) {f g : Nat} (h : f ≤ g) (env : Env) (e : Expr) (x : R Val)
    (hx : eval P f env e = x) (hne : x ≠ .error .fuel) : eval P g env e = x :=
  (mkRec_mono P h).1 env e x hx hne

theorem exec_fuel_mono (P : Program) {f g : Nat} (h : f ≤ g) (env : Env) (ss : List Stmt) (x : R (Env × Flow))
    (hx : exec P f env ss = x) (hne : x ≠ .error .fuel) : exec P g env ss = x :=
  (mkRec_mono P h).2.1 env ss x hx hne

theorem construct_fuel_mono (P : Program) {f g : Nat} (h : f ≤ g) (c : Id) (args : List Val) (x : R Val)
    (hx : construct P f c args = x) (hne : x ≠ .error .fuel) : construct P g c args = x :=
  constructF_le (mkRec_mono P h) P c args x hx hne

/-- two fuels that both suffice give the same outcome -/
theorem callFn_fuel_unique (P : Program) (f g : Nat) (fd : FuncDef) (args : List Val)
    (hf : callFn P f fd args ≠ .error .fuel) (hg : callFn P g fd args ≠ .error .fuel) :
    callFn P f fd args = callFn P g fd args := by
  cases Nat.le_total f g with
  | inl h => exact (callFn_fuel_mono P h fd args _ rfl hf).symm
  | inr h => exact callFn_fuel_mono P h fd args _ rfl hg

theorem eval_fuel_unique (P : Program) (f g : Nat) (env : Env) (e : Expr)
    (hf : eval P f env e ≠ .error .fuel) (hg : eval P g env e ≠ .error .fuel) :
    eval P f env e = eval P g env e := by
  cases Nat.le_total f g with
  | inl h => exact (eval_fuel_mono P h env e _ rfl hf).symm
  | inr h => exact eval_fuel_mono P h env e _ rfl hg

/-- a definite outcome of a method body at some fuel `f ≤ topFuel` is the outcome of `Program.runMethod` -/
theorem runMethod_independent_of_fuel (P : Program) (c m : Id) (args : List Val) (c' : Id) (fd : FuncDef)
    (hm : P.method? classDepth c m = some (c', fd)) {f : Nat} (hf : f ≤ topFuel) (x : R (Val × Val))
    (hx : (mkRec P f).call fd args = x) (hne : x ≠ .error .fuel) : P.runMethod c m args = x := by
  unfold Program.runMethod
  rw [hm]
  exact callFn_fuel_mono P hf fd args x hx hne

/-- a definite outcome of a module-level function at some fuel `f ≤ topFuel` is the outcome of `Program.runFn` -/
theorem runFn_independent_of_fuel (P : Program) (fn : Id) (args : List Val) (fd : FuncDef)
    (hfn : findFunc P.funcs fn = some fd) {f : Nat} (hf : f ≤ topFuel) (x : R (Val × Val))
    (hx : (mkRec P f).call fd args = x) (hne : x ≠ .error .fuel) : P.runFn fn args = x.map (·.1) := by
  unfold Program.runFn
  rw [hfn]
  show (callFn P topFuel fd args).map (·.1) = x.map (·.1)
  rw [callFn_fuel_mono P hf fd args x hx hne]

/-- a definite outcome of a construction at some fuel `f ≤ topFuel` is the outcome of `Program.runNew` -/
theorem runNew_independent_of_fuel (P : Program) (c : Id) (args : List Val) {f : Nat} (hf : f ≤ topFuel) (x : R Val)
    (hx : constructF (mkRec P f) P c args = x) (hne : x ≠ .error .fuel) : P.runNew c args = x :=
  construct_fuel_mono P hf c args x hx hne

end Bridge.Py
