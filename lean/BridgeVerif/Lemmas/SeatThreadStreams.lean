import BridgeVerif.Model.SeatThread
import BridgeVerif.Lemmas.Session
import BridgeVerif.Lemmas.Play
import BridgeVerif.Props.C03
/-! The three streams of a session phase seen from seat `p`: what main queues for the seat thread, what the client sends,
what the seat thread does (helper for Lemmas/SeatThread.lean). -/
namespace Bridge

/-! ## the three streams of a phase -/
/-- what main puts on the queue of seat `p` during a phase -/
def qOf (p : Seat) (ph : Phase Text LogOp) : List Text := sendsOn (Chan.m2t p) (phaseProg ph .main)
/-- what the client of seat `p` sends during a phase -/
def cOf (p : Seat) (ph : Phase Text LogOp) : List Text := sendsOn (Chan.c2s p) (phaseProg ph (.client p))
/-- what the seat thread of `p` does during a phase -/
def sOf (p : Seat) (ph : Phase Text LogOp) : SeatActs := phaseProg ph (.seat p)

theorem sendsOn_forSeats (p : Seat) (f : Seat → List (SAct Text LogOp))
    (hf : ∀ q, q ≠ p → sendsOn (Chan.m2t p) (f q) = []) :
    sendsOn (Chan.m2t p) (forSeats f) = sendsOn (Chan.m2t p) (f p) := by
  cases p <;> simp [forSeats, Seat.all, sendsOn_append, hf]

theorem qOf_seating (p : Seat) (t : Text) (r : Seat → Text) (s : Text) (o : LogOp) :
    qOf p (.seating t r s o) = [] := by
  simp [qOf, phaseProg, sendsOn, sync]
theorem cOf_seating (p : Seat) (t : Text) (r : Seat → Text) (s : Text) (o : LogOp) :
    cOf p (.seating t r s o) = [r p] := by
  simp [cOf, phaseProg, sendsOn]

theorem qOf_deal (p : Seat) (h : Text) (cards r1 r2 : Seat → Text) :
    qOf p (.deal h cards r1 r2) = [h, cards p] := by
  simp only [qOf, phaseProg, sendsOn_append]
  rw [sendsOn_forSeats]
  · simp [sendsOn, sync]
  · intro q hq; simp [sendsOn, hq]
theorem cOf_deal (p : Seat) (h : Text) (cards r1 r2 : Seat → Text) :
    cOf p (.deal h cards r1 r2) = [r1 p, r2 p] := by
  simp [cOf, phaseProg, sendsOn]

theorem qOf_call (p a : Seat) (name bid relay : Text) (ready : Seat → Text) :
    qOf p (.call a name bid relay ready) = name :: (if p = a then [] else [relay]) := by
  simp only [qOf, phaseProg, sendsOn_append]
  rw [sendsOn_forSeats, sendsOn_forSeats]
  · by_cases h : p = a <;> simp [sendsOn, h]
  · intro q hq; by_cases h : q = a <;> simp [sendsOn, h, hq]
  · intro q hq; simp [sendsOn, hq]
theorem cOf_call (p a : Seat) (name bid relay : Text) (ready : Seat → Text) :
    cOf p (.call a name bid relay ready) = if p = a then [bid] else [ready p] := by
  by_cases h : p = a <;> simp [cOf, phaseProg, sendsOn, h]

theorem qOf_auctionEnd (p : Seat) (a b : Text) : qOf p (.auctionEnd a b) = [a, b] := by
  simp only [qOf, phaseProg]
  rw [sendsOn_forSeats]
  · simp [sendsOn]
  · intro q hq; simp [sendsOn, hq]
theorem cOf_auctionEnd (p : Seat) (a b : Text) : cOf p (.auctionEnd a b) = [] := by
  simp [cOf, phaseProg, sendsOn]

theorem qOf_playStart (p : Seat) (a : Text) : qOf p (.playStart a) = [a] := by
  simp only [qOf, phaseProg]
  rw [sendsOn_forSeats]
  · simp [sendsOn]
  · intro q hq; simp [sendsOn, hq]
theorem cOf_playStart (p : Seat) (a : Text) : cOf p (.playStart a) = [] := by
  simp [cOf, phaseProg, sendsOn]

theorem qOf_nextBoard (p : Seat) (r : LogOp) (a b : Text) : qOf p (.nextBoard r a b) = [a] := by
  simp only [qOf, phaseProg, sendsOn_append]
  rw [sendsOn_forSeats]
  · simp [sendsOn]
  · intro q hq; simp [sendsOn, hq]
theorem cOf_nextBoard (p : Seat) (r : LogOp) (a b : Text) : cOf p (.nextBoard r a b) = [] := by
  simp [cOf, phaseProg, sendsOn]
theorem qOf_lastBoard (p : Seat) (r c : LogOp) (a : Text) : qOf p (.lastBoard r c a) = [a] := by
  simp only [qOf, phaseProg, sendsOn_append]
  rw [sendsOn_forSeats]
  · simp [sendsOn]
  · intro q hq; simp [sendsOn, hq]
theorem cOf_lastBoard (p : Seat) (r c : LogOp) (a : Text) : cOf p (.lastBoard r c a) = [] := by
  simp [cOf, phaseProg, sendsOn]

/-- queue messages of a card phase after the leader's name -/
def cardQ (p d a : Seat) (op : Bool) (card dc : Text) : List Text :=
  (if p = cardPlayer a d then [] else [card]) ++ (if op = true ∧ p ≠ d.partner then [dc] else [])
def cardC (p d a : Seat) (op : Bool) (card rdy rdd : Text) : List Text :=
  (if p = cardPlayer a d then [card] else [rdy]) ++ (if op = true ∧ p ≠ d.partner then [rdd] else [])
def cardS (p d a : Seat) (lead op : Bool) (prompt card dc : Text) : SeatActs :=
  (if p = cardPlayer a d then (if lead then [Act.send (.s2c p) prompt] else []) ++ [.recv (.c2s p), .send (.t2m p) card]
   else [.recv (.c2s p), .recv (.m2t p), .send (.s2c p) card]) ++
  (if op = true ∧ p ≠ d.partner then [.recv (.c2s p), .recv (.m2t p), .send (.s2c p) dc] else [])

theorem qOf_card (p a d : Seat) (lead op : Bool) (ln prompt card : Text) (ready rd : Seat → Text) (dc : Text) :
    qOf p (.card a d lead op ln prompt card ready rd dc) = (if lead then [ln] else []) ++ cardQ p d a op card dc := by
  have h1 : sendsOn (Chan.m2t p) (if lead = true then forSeats (fun p => [Act.send (.m2t p) ln]) else
      ([] : List (SAct Text LogOp))) = if lead then [ln] else [] := by
    cases lead
    · simp [sendsOn]
    · simp only [if_true]
      rw [sendsOn_forSeats]
      · simp [sendsOn]
      · intro q hq; simp [sendsOn, hq]
  have h2 : sendsOn (Chan.m2t p) (forSeats fun p => if p = cardPlayer a d then [] else
      [(Act.send (.m2t p) card : SAct Text LogOp)]) = if p = cardPlayer a d then [] else [card] := by
    rw [sendsOn_forSeats]
    · by_cases h : p = cardPlayer a d <;> simp [sendsOn, h]
    · intro q hq; by_cases h : q = cardPlayer a d <;> simp [sendsOn, h, hq]
  have h3 : sendsOn (Chan.m2t p) (if op = true then forSeats (fun p => if p = d.partner then [] else
      [(Act.send (.m2t p) dc : SAct Text LogOp)]) else []) = if op = true ∧ p ≠ d.partner then [dc] else [] := by
    cases op
    · simp [sendsOn]
    · simp only [if_true, true_and]
      rw [sendsOn_forSeats]
      · by_cases h : p = d.partner <;> simp [sendsOn, h]
      · intro q hq; by_cases h : q = d.partner <;> simp [sendsOn, h, hq]
  simp only [qOf, phaseProg, sendsOn_append, cardQ, h1, h2, h3]
  simp [sendsOn]

theorem cOf_card (p a d : Seat) (lead op : Bool) (ln prompt card : Text) (ready rd : Seat → Text) (dc : Text) :
    cOf p (.card a d lead op ln prompt card ready rd dc) = cardC p d a op card (ready p) (rd p) := by
  simp only [cOf, phaseProg, sendsOn_append, cardC]
  congr 1
  · by_cases h : p = cardPlayer a d <;> cases lead <;> simp [sendsOn, h]
  · by_cases h : op = true ∧ p ≠ d.partner
    · rw [if_pos h, if_pos h]; simp [sendsOn]
    · rw [if_neg h, if_neg h]; simp [sendsOn]

theorem sOf_card (p a d : Seat) (lead op : Bool) (ln prompt card : Text) (ready rd : Seat → Text) (dc : Text) :
    sOf p (.card a d lead op ln prompt card ready rd dc) =
      (if lead then [Act.recv (.m2t p)] else []) ++ cardS p d a lead op prompt card dc := by
  simp only [sOf, phaseProg, cardS, List.append_assoc]

end Bridge
