import BridgeVerif.Lemmas.RegexHandsFacts
import BridgeVerif.Lemmas.RegexPbnA
/-!
# The regular expressions of `hands.py` : general tools  (Appendix F, R1, part A)

Both patterns are "simple" (every repetition is over a character class), so `Lemmas/RegexPbnA.lean` gives a
fuel-free denotation `den`.  This file adds
* the two character classes as the scanners' predicates (`rank_test`, `hand_test`);
* `absRes` : the group TEXTS of a result, `Rel` : "the regex continuation `K` computes what the scanner
  continuation `cont` computes" (texts of the groups from index `j` on);
* `scanUp` : the greedy star written forwards, `tryLen_eq_scanUp` : it is `tryLen` (which is written backwards);
* `star_rel` : a `(R*)` group followed by a continuation, `repExact` : `R{n}`.
-/
namespace Bridge.RegexHands
open Bridge Bridge.Re Bridge.RegexPbn

/-! ### the character classes -/
def rankItems : List ClassItem :=
  [.range '2' '9', .ch 'T', .ch 'J', .ch 'Q', .ch 'K', .ch 'A']
def handItems : List ClassItem :=
  [.range '2' '9', .ch 'T', .ch 'J', .ch 'Q', .ch 'K', .ch 'A', .ch '.']

theorem char_beq_nat (a b : Char) : (a == b) = (a.toNat == b.toNat) := by
  rw [Bool.eq_iff_iff]; simp [Char.toNat_inj]

theorem rank_test (x : Char) : classTest false x rankItems = isRankChar x := by
  simp only [classTest, ClassItem.test, charEq, isRankChar, rankItems, Bool.false_and, Bool.or_false,
    char_beq_nat]
  generalize x.toNat = n
  rw [Bool.eq_iff_iff]
  simp
  omega

theorem hand_test (x : Char) : classTest false x handItems = isHandChar x := by
  simp only [classTest, ClassItem.test, charEq, isHandChar, isRankChar, handItems, Bool.false_and,
    Bool.or_false, char_beq_nat]
  generalize x.toNat = n
  rw [Bool.eq_iff_iff]
  simp
  omega

theorem rank_pred : (fun x => classTest false x rankItems != false) = isRankChar := by
  funext x; rw [rank_test]; cases isRankChar x <;> rfl

theorem hand_pred : (fun x => classTest false x handItems != false) = isHandChar := by
  funext x; rw [hand_test]; cases isHandChar x <;> rfl

/-! ### texts of the groups -/
def texts (s : List Char) (caps : Caps) : List (Option (List Char)) :=
  caps.map fun g => g.map fun be => Re.slice s be.1 be.2

def absRes (s : List Char) : Re.Res St → Option (Option (List (Option (List Char))))
  | .ok st => some (some (texts s st.caps))
  | .fail => some none
  | .oof => none

theorem fuel_ok (a n : Nat) : a + n ≤ (a + 1) * (n + 2) * 4 + 64 := by
  have h1 : a + 1 ≤ (a + 1) * (n + 2) := Nat.le_mul_of_pos_right _ (by omega)
  have h2 : n + 2 ≤ (a + 1) * (n + 2) := Nat.le_mul_of_pos_left _ (by omega)
  omega

theorem pyMatch_abs (pat s : List Char) (re : Re) (hp : Re.parse pat = some re) (hs : simple re = true) :
    (Re.pyMatch false pat s).map (Option.map (groupTexts s)) =
      absRes s (den false re (kfin 0 false false) ⟨0, s, List.replicate re.ngroups none⟩) := by
  unfold Re.pyMatch
  simp only [hp]
  rw [matchCore_eq_den false re hs _ 0 s false false (by unfold fuelFor; exact fuel_ok _ _)]
  cases den false re (kfin 0 false false) ⟨0, s, List.replicate re.ngroups none⟩ <;> rfl

theorem take_set_succ {α : Type} (a : α) : ∀ (l : List α) (j : Nat), j < l.length →
    (l.set j a).take (j + 1) = l.take j ++ [a] := by
  intro l
  induction l with
  | nil => intro j h; simp at h
  | cons x xs ih =>
    intro j h
    cases j with
    | zero => simp
    | succ j =>
      simp only [List.length_cons] at h
      simp only [List.set_cons_succ, List.take_succ_cons, List.cons_append, ih j (by omega)]

theorem texts_set (s : List Char) (caps : Caps) (j b m : Nat) (h : j < caps.length) :
    (texts s (caps.set j (some (b, b + m)))).take (j + 1)
      = (texts s caps).take j ++ [some ((s.drop b).take m)] := by
  unfold texts
  rw [List.map_set, take_set_succ _ _ _ (by simpa using h)]
  simp [Re.slice]

/-- the regex continuation `K` computes (on suffixes of `s`, with `N` groups) the texts of the groups from
index `j` on as the scanner continuation `cont` does, and keeps the earlier groups -/
def Rel (s : List Char) (N j : Nat) (K : St → Re.Res St) (cont : List Char → Option (List (List Char))) : Prop :=
  ∀ pos rest caps, s.drop pos = rest → caps.length = N →
    absRes s (K ⟨pos, rest, caps⟩) = some ((cont rest).map fun gs => (texts s caps).take j ++ gs.map some)

theorem absRes_orFail {α : Type} (s : List Char) (F : α → List (Option (List Char))) (a b : Re.Res St) (x y : Option α)
    (ha : absRes s a = some (x.map F)) (hb : absRes s b = some (y.map F)) :
    absRes s (orFail a b) = some ((x.or y).map F) := by
  cases a with
  | ok st =>
    cases x with
    | none => simp [absRes] at ha
    | some x' => simpa using ha
  | fail =>
    cases x with
    | none => simpa using hb
    | some x' => simp [absRes] at ha
  | oof => simp [absRes] at ha

/-! ### the greedy star, forwards -/
/-- `g m` = what the continuation yields after a run of `m` characters; the star at offset `m` with `rest`
ahead tries the longest run first -/
def scanUp {α : Type} (p : Char → Bool) (g : Nat → Option α) : Nat → List Char → Option α
  | m, [] => g m
  | m, x :: xs => if p x then (scanUp p g (m + 1) xs).or (g m) else g m

theorem drop_succ_of_cons {α : Type} (l : List α) (m : Nat) (x : α) (xs : List α) (h : l.drop m = x :: xs) :
    l.drop (m + 1) = xs := by
  have : l.drop (m + 1) = (l.drop m).drop 1 := by rw [List.drop_drop]
  rw [this, h]; rfl

/-- the star of a group over a class, in terms of `scanUp` -/
theorem star_scanUp {α : Type} (s : List Char) (F : α → List (Option (List Char))) (p : Char → Bool)
    (kg : St → Re.Res St) (caps0 : Caps) (pos0 : Nat) (r0 : List Char) (g : Nat → Option α)
    (hk : ∀ m, absRes s (kg ⟨pos0 + m, r0.drop m, caps0⟩) = some ((g m).map F)) :
    ∀ (rest : List Char) (m count : Nat), r0.drop m = rest →
      absRes s (repDen p 0 none kg caps0 count (pos0 + m) rest) = some ((scanUp p g m rest).map F) := by
  intro rest
  induction rest with
  | nil =>
    intro m count hd
    have := hk m
    rw [hd] at this
    simpa [repDen, scanUp] using this
  | cons x xs ih =>
    intro m count hd
    have h0 := hk m
    rw [hd] at h0
    have h1 := ih (m + 1) (count + 1) (drop_succ_of_cons r0 m x xs hd)
    simp only [repDen, Nat.not_lt_zero, if_false, mxOk, if_true, scanUp]
    by_cases hp : p x = true
    · simp only [hp, if_true]
      exact absRes_orFail s F _ _ _ _ h1 h0
    · simp only [hp]
      exact h0

/-- one attempt of `tryLen` -/
def tryAt (cont : List Char → Option (List (List Char))) (r0 : List Char) (m : Nat) : Option (List (List Char)) :=
  match r0.drop m with
  | [] => none
  | _ :: rest => (cont rest).map fun gs => r0.take m :: gs

def tryBelow (cont : List Char → Option (List (List Char))) (r0 : List Char) : Nat → Option (List (List Char))
  | 0 => none
  | m + 1 => tryLen cont r0 m

theorem tryLen_eq (cont : List Char → Option (List (List Char))) (r0 : List Char) (m : Nat) :
    tryLen cont r0 m = (tryAt cont r0 m).or (tryBelow cont r0 m) := by
  cases m with
  | zero =>
    cases r0 with
    | nil => rfl
    | cons x xs => simp [tryLen, tryAt, tryBelow]
  | succ m =>
    simp only [tryLen, tryAt, tryBelow]
    cases r0.drop (m + 1) with
    | nil => simp
    | cons y ys =>
      simp only
      cases cont ys <;> simp

theorem tryLen_eq_scanUp (p : Char → Bool) (cont : List Char → Option (List (List Char))) (r0 : List Char) :
    ∀ (rest : List Char) (m : Nat),
      tryLen cont r0 (m + (rest.takeWhile p).length) = (scanUp p (tryAt cont r0) m rest).or (tryBelow cont r0 m) := by
  intro rest
  induction rest with
  | nil => intro m; simpa [scanUp] using tryLen_eq cont r0 m
  | cons x xs ih =>
    intro m
    by_cases hp : p x = true
    · have e : m + ((x :: xs).takeWhile p).length = (m + 1) + (xs.takeWhile p).length := by
        simp [List.takeWhile, hp]; omega
      rw [e, ih (m + 1)]
      simp only [scanUp, hp, if_true, tryBelow, tryLen_eq cont r0 m, Option.or_assoc]
    · simp only [Bool.not_eq_true] at hp
      simp only [List.takeWhile, hp, List.length_nil, Nat.add_zero, scanUp]
      simpa using tryLen_eq cont r0 m

/-- a continuation that always succeeds: the longest run wins -/
theorem scanUp_some {α : Type} (p : Char → Bool) (h : Nat → α) :
    ∀ (rest : List Char) (m : Nat),
      scanUp p (fun m => some (h m)) m rest = some (h (m + (rest.takeWhile p).length)) := by
  intro rest
  induction rest with
  | nil => intro m; simp [scanUp]
  | cons x xs ih =>
    intro m
    by_cases hp : p x = true
    · simp only [scanUp, hp, if_true, ih (m + 1), Option.some_or, List.takeWhile, List.length_cons]
      congr 2; omega
    · simp only [Bool.not_eq_true] at hp
      simp [scanUp, hp, List.takeWhile]

theorem take_length_takeWhile {α : Type} (p : α → Bool) : ∀ l : List α, l.take (l.takeWhile p).length = l.takeWhile p := by
  intro l
  induction l with
  | nil => rfl
  | cons x xs ih =>
    by_cases hp : p x = true
    · simp [List.takeWhile, hp, ih]
    · simp only [Bool.not_eq_true] at hp
      simp [List.takeWhile, hp]

/-! ### `R{n}` -/
theorem repExact (p : Char → Bool) (n : Nat) (k : St → Re.Res St) (caps : Caps) :
    ∀ (d count pos : Nat) (rest : List Char), count + d = n →
      repDen p n (some n) k caps count pos rest =
        if (rest.take d).length = d ∧ (rest.take d).all p = true then k ⟨pos + d, rest.drop d, caps⟩ else .fail := by
  intro d
  induction d with
  | zero =>
    intro count pos rest h
    have : count = n := by omega
    subst this
    cases rest <;> simp [repDen, mxOk]
  | succ d ih =>
    intro count pos rest h
    have hlt : count < n := by omega
    cases rest with
    | nil => simp [repDen, hlt]
    | cons x xs =>
      simp only [repDen, hlt, if_true, ih (count + 1) (pos + 1) xs (by omega)]
      by_cases hp : p x = true
      · simp [hp, Nat.add_assoc, Nat.add_comm 1 d]
      · simp [hp]

end Bridge.RegexHands
