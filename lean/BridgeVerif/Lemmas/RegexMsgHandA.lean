import BridgeVerif.Lemmas.RegexMsgClientA
import BridgeVerif.Generated.PyCoreNet
/-!
# The regular expressions with which the bundled client reads a hand ARE the scanners of `Model/Msg.lean`

`Client.parse_cards(content, name)` matches `{name}\'s cards : (.*)`, `Client.parse_hand(content)` matches
`S (.*)\. H (.*)\. D (.*)\. C (.*)\.\s?`, both through `MessageInterface.parse_match_base`
(`re.match(pattern, content, re.IGNORECASE)`).  The generic regular-expression engine of `Model/Regex.lean` (the one the
translated methods call), run with `ic = true` on the pattern texts the generated methods build, captures EXACTLY the
texts the scanner skeletons of `parseCards?` / `parseHand?` compute — for every subject all of whose characters are in a
stated class:

* `agreeCards` / `agreeHand` : the pattern's literal characters compare with the character the same way in the engine
  (`Re.charEq true`, the Unicode folding tables) and in the scanner (`eqCI`: ASCII lower-casing and the four specials).

Every ASCII character is in both classes (`*_ascii`, 128 cases each in the kernel).  The trailing `\s?` of the second
pattern needs NO restriction: `re.match` does not anchor the end, so whether the optional blank (Unicode-aware in the
engine) is consumed or not changes only group 0, never the four groups — the scanner ignores it altogether.
-/
namespace Bridge.RegexMsgHand
open Bridge Bridge.Re Bridge.RegexPbn Bridge.RegexHands Bridge.RegexConnect Bridge.RegexMsgClient

/-! ## the pattern texts -/
/-- the constant part of the f-string `fr'{player_name}\'s cards : (.*)'` (the raw string keeps the backslash) -/
def CARDS_TAIL : List Char := ['\\', '\'', 's', ' ', 'c', 'a', 'r', 'd', 's', ' ', ':', ' ', '(', '.', '*', ')']
def cardsPattern (name : List Char) : List Char := name ++ CARDS_TAIL
def HANDMSG_PATTERN : List Char := "S (.*)\\. H (.*)\\. D (.*)\\. C (.*)\\.\\s?".toList

open Bridge.Generated.PyCore in
/-- they are literally what the generated methods assign to `pattern` before calling `parse_match_base` -/
theorem patterns_are_generated :
    m_Client_parse_cards.body.take 2 =
      [.assign (.var n_pattern) (.fstr [.var n_player_name, .const (.str CARDS_TAIL)]),
       .assign (.var n_match) (.static n_MessageInterface n_parse_match_base [.var n_pattern, .var n_content])] ∧
    m_Client_parse_hand.body.take 2 =
      [.assign (.var n_pattern) (.const (.str HANDMSG_PATTERN)),
       .assign (.var n_match) (.static n_MessageInterface n_parse_match_base [.var n_pattern, .var n_content])] ∧
    m_MessageInterface_parse_match_base.body.take 1 =
      [.assign (.var n_match) (.builtin .reMatch [.var n_pattern, .var n_content, .const (.bool true),
        .const (.cls n__Match), .const (.int n_texts)])] := ⟨rfl, rfl, rfl⟩

/-! ## `{name}\'s cards : (.*)` -/
/-- the five names the bundled client passes: a seat's formal name, or `Dummy` -/
def cardNames : List (List Char) := ["North".toList, "East".toList, "South".toList, "West".toList, "Dummy".toList]

theorem formal_mem_cardNames (p : Seat) : p.formal ∈ cardNames := by cases p <;> decide

def litCards : List Char := "'s cards : ".toList
def cardsRe (name : List Char) : Re := lits (name ++ litCards) (dotG 1)

set_option maxRecDepth 100000 in
theorem parse_cards : ∀ name ∈ cardNames, Re.parse (cardsPattern name) = some (cardsRe name) := by decide +kernel
theorem cardsRe_ngroups : ∀ name ∈ cardNames, (cardsRe name).ngroups = 1 := by decide +kernel
theorem cardsRe_simple : ∀ name ∈ cardNames, simple (cardsRe name) = true := by decide +kernel

/-- the distinct literal characters of the five patterns -/
def cardsChars : List Char := "NortheEasSuWDmy'cd :".toList
theorem cardsChars_all : ∀ name ∈ cardNames, ∀ c ∈ name ++ litCards, c ∈ cardsChars := by decide +kernel

def agreeCards (x : Char) : Bool := agreeLit cardsChars x
theorem agreeCards_ofNat_ascii : ∀ n : Fin 128, agreeCards (Char.ofNat n.val) = true := by decide +kernel
theorem agreeCards_ascii (x : Char) (h : x.toNat < 128) : agreeCards x = true := by
  have := agreeCards_ofNat_ascii ⟨x.toNat, h⟩
  simpa [Char.ofNat_toNat] using this

/-- a last `(.*)` : the longest run without a line feed -/
theorem greedy_first {α : Type} (s : List Char) (k : List Char → List Char → Option α) (n : Nat) (r : α)
    (h : k (s.take n) (s.drop n) = some r) : greedy s k n = some r := by
  cases n with
  | zero => simpa [greedy] using h
  | succ n => simp only [greedy, h]

theorem dotStar_last (r : List Char) :
    (dotStar r fun g _ => (some ([] : List (List Char))).map fun gs => g :: gs) = some [r.takeWhile (· ≠ '\n')] := by
  unfold dotStar
  apply greedy_first
  rw [take_length_takeWhile]
  rfl

/-- group 1 as `parseCards?` computes it -/
def cardsFields? (name s : List Char) : Option (List (List Char)) := (parseCards? s name).map fun g => [g]

theorem pyMatch_abs_ic (ic : Bool) (pat s : List Char) (re : Re) (hp : Re.parse pat = some re) (hs : simple re = true) :
    (Re.pyMatch ic pat s).map (Option.map (groupTexts s)) =
      absRes s (den ic re (kfin 0 false false) ⟨0, s, List.replicate re.ngroups none⟩) := by
  unfold Re.pyMatch
  simp only [hp]
  rw [matchCore_eq_den ic re hs _ 0 s false false (by unfold fuelFor; exact fuel_ok _ _)]
  cases den ic re (kfin 0 false false) ⟨0, s, List.replicate re.ngroups none⟩ <;> rfl

theorem den_seq_fun (ic : Bool) (a b : Re) (k : St → Re.Res St) : den ic (.seq a b) k = den ic a (den ic b k) := by
  funext st; rfl

theorem den_lits_fun (ic : Bool) (R : Re) (k : St → Re.Res St) (p : List Char) :
    den ic (lits p R) k = denLits ic p (den ic R k) := by
  funext st; exact den_lits ic R k p st

/-- THE REGULAR EXPRESSION IS THE SCANNER: for each of the five names and every subject whose characters are in the class
`agreeCards`, `re.match(f"{name}\'s cards : (.*)", s, re.IGNORECASE)` matches iff `parseCards? s name` is defined, and
group 1 is that text -/
theorem match_cards (name : List Char) (hn : name ∈ cardNames) (s : List Char) (hs : ∀ x ∈ s, agreeCards x = true) :
    (Re.pyMatch true (cardsPattern name) s).map (Option.map (groupTexts s)) =
      some ((cardsFields? name s).map (·.map some)) := by
  rw [pyMatch_abs_ic true _ s _ (parse_cards name hn) (cardsRe_simple name hn), cardsRe_ngroups name hn]
  have r1 := rel_dotStar true s 1 0 (by omega) _ _ (rel_end s 1)
  have rA := rel_lits s cardsChars hs 1 0 _ _ r1 (name ++ litCards) (cardsChars_all name hn)
  have := rA 0 s (List.replicate 1 none) rfl rfl
  simp only [List.take_zero, List.nil_append] at this
  unfold cardsRe
  rw [den_lits_fun, this]
  unfold cardsFields? parseCards?
  have e : "'s cards : ".toList = litCards := rfl
  rw [e]
  cases stripPrefixCI (name ++ litCards) s with
  | none => rfl
  | some r => simp only [Option.bind_some, dotStar_last]; rfl

theorem match_cards_ascii (name : List Char) (hn : name ∈ cardNames) (s : List Char) (hs : ∀ x ∈ s, x.toNat < 128) :
    (Re.pyMatch true (cardsPattern name) s).map (Option.map (groupTexts s)) =
      some ((cardsFields? name s).map (·.map some)) :=
  match_cards name hn s fun x hx => agreeCards_ascii x (hs x hx)

end Bridge.RegexMsgHand
