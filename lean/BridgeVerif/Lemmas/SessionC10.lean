import BridgeVerif.Lemmas.SessionSpec
/-! Helper lemmas for C10: what the seat thread of `p` sends on `p`'s connection, phase by phase, against the
declarative list of events `seatEvents`; entitlements read off `callEvents` / `cardEvents` / `boardEvents`. -/
namespace Bridge

/-- what the seat thread of `p` sends to its client during a phase -/
def s2cOf (p : Seat) (ph : Phase Text LogOp) : List Text := sendsOn (Chan.s2c p) (phaseProg ph (.seat p))

theorem senderOf_eq_cardPlayer (d a : Seat) : senderOf d a = cardPlayer a d := rfl

theorem callPhases_s2c (p dealer : Seat) (l : List (Call × Text)) : ∀ j,
    (callPhases dealer j l).flatMap (s2cOf p) = (callEvents p dealer j l).map (SEvent.render p) := by
  induction l with
  | nil => intro j; rfl
  | cons x r ih =>
    intro j
    obtain ⟨c, text⟩ := x
    simp only [callPhases, callEvents, List.flatMap_cons, List.map_append, ih]
    congr 1
    by_cases h : p = dealer.rot j
    · subst h
      simp [s2cOf, phaseProg, sendsOn]
    · have h' : ¬ dealer.rot j = p := fun e => h e.symm
      simp [s2cOf, phaseProg, sendsOn, h, h', SEvent.render]

theorem s2cOf_card (p a d : Seat) (lead opening : Bool) (ln prompt card : Text) (ready rd : Seat → Text)
    (dc : Text) :
    s2cOf p (.card a d lead opening ln prompt card ready rd dc) =
      (if cardPlayer a d = p then (if lead then [prompt] else []) else [card]) ++
      (if opening ∧ p ≠ d.partner then [dc] else []) := by
  have h2' : (p = cardPlayer a d) = (cardPlayer a d = p) := propext eq_comm
  have h4' : (p = d.partner) = (d.partner = p) := propext eq_comm
  cases lead <;> cases opening <;> by_cases h2 : cardPlayer a d = p <;> by_cases h4 : d.partner = p <;>
    simp [s2cOf, phaseProg, sendsOn, h2, h2', h4, h4']

theorem cardPhases_s2c (p d : Seat) (deal : Hands) (l : List (Card × Text)) : ∀ s j,
    (cardPhases d deal s j l).flatMap (s2cOf p) =
      (cardEvents p d (deal d.partner) s j l).map (SEvent.render p) := by
  induction l with
  | nil => intro s j; rfl
  | cons x r ih =>
    intro s j
    obtain ⟨c, text⟩ := x
    simp only [cardPhases, cardEvents, List.flatMap_cons, List.map_append, ih, List.append_assoc]
    rw [← List.append_assoc, ← List.append_assoc, ← List.append_assoc]
    congr 1
    rw [s2cOf_card, senderOf_eq_cardPlayer]
    generalize cardPlayer s.active d = pl
    congr 1
    · by_cases h1 : s.trick = [] <;> by_cases h2 : pl = p <;> by_cases h5 : s.active = d.partner <;>
        simp [h1, h2, h5, SEvent.render]
    · by_cases h3 : j = 0 <;> by_cases h4 : p = d.partner <;> simp [h3, h4, SEvent.render]

@[simp] theorem s2cOf_deal (p : Seat) (h : Text) (cards r1 r2 : Seat → Text) :
    s2cOf p (.deal h cards r1 r2) = [h, cards p] := by
  simp [s2cOf, phaseProg, sendsOn, sync]
@[simp] theorem s2cOf_auctionEnd (p : Seat) (a b : Text) : s2cOf p (.auctionEnd a b) = [] := by
  simp [s2cOf, phaseProg, sendsOn]
@[simp] theorem s2cOf_playStart (p : Seat) (a : Text) : s2cOf p (.playStart a) = [] := by
  simp [s2cOf, phaseProg, sendsOn]
@[simp] theorem s2cOf_nextBoard (p : Seat) (r : LogOp) (a b : Text) : s2cOf p (.nextBoard r a b) = [b] := by
  simp [s2cOf, phaseProg, sendsOn]
@[simp] theorem s2cOf_lastBoard (p : Seat) (r c : LogOp) (a : Text) : s2cOf p (.lastBoard r c a) = [a] := by
  simp [s2cOf, phaseProg, sendsOn]
@[simp] theorem s2cOf_seating (p : Seat) (t : Text) (r : Seat → Text) (s : Text) (o : LogOp) :
    s2cOf p (.seating t r s o) = [t, s] := by
  simp [s2cOf, phaseProg, sendsOn, sync]

theorem boardPhases_s2c (sc : Scenario) (p : Seat) (k : Nat) (last : Bool) (b : BoardSetting) (d : Decisions) :
    (boardPhases sc k last b d).flatMap (s2cOf p) = (boardEvents p k last b d).map (SEvent.render p) := by
  unfold boardPhases boardEvents boardContract
  generalize (contractOfCalls b (d.calls.map (·.1))).getD ⟨none, false, false, b.vul, none⟩ = contract
  simp only [List.flatMap_append, List.map_append, callPhases_s2c]
  generalize PState.init contract = o1
  generalize contract.declarer = o2
  cases o1 <;> cases o2 <;> cases last <;> simp [cardPhases_s2c, SEvent.render]

theorem boardsPhases_s2c (sc : Scenario) (p : Seat) (boards : List (BoardSetting × Decisions)) : ∀ k,
    (boardsPhases sc k boards).flatMap (s2cOf p) = (boardsEvents p k boards).map (SEvent.render p) := by
  induction boards with
  | nil => intro k; rfl
  | cons x r ih =>
    intro k
    obtain ⟨b, d⟩ := x
    cases r with
    | nil => simp only [boardsPhases, boardsEvents, boardPhases_s2c]
    | cons y r' =>
      rw [boardsPhases, boardsEvents, List.flatMap_append, List.map_append, boardPhases_s2c, ih (k + 1)]
      · simp
      · simp

theorem session_s2c (sc : Scenario) (p : Seat) :
    sendsOn (Chan.s2c p) (sessionProg sc (.seat p)) = seatStream sc p := by
  unfold sessionProg sessionPhases seatStream seatEvents
  rw [sendsOn_progOfPhases]
  show List.flatMap (s2cOf p) _ = _
  rw [List.flatMap_cons, boardsPhases_s2c, List.map_append]
  congr 1
  simp [SEvent.render]

/-! ## schedule independence -/
theorem session_hist_prefix (sc : Scenario) (us : List Tid) (n : Net Tid Chan Text LogOp)
    (hr : Run parties (Net.init (sessionProg sc)) us n) (p : Seat) :
    (∃ rest, n.hist (Chan.s2c p) ++ rest = seatStream sc p) ∧
    (Stuck parties n → n.hist (Chan.s2c p) = seatStream sc p) := by
  constructor
  · have h := run_hist (C09.session_disciplined sc) hr (Chan.s2c p)
    exact ⟨_, by rw [h]; exact session_s2c sc p⟩
  · intro hs
    obtain ⟨_, _, hh, _⟩ := C09.never_deadlocks sc us n hr hs
    rw [hh (Chan.s2c p)]
    exact session_s2c sc p

/-! ## entitlements -/
theorem callEvents_mem (p dealer : Seat) (l : List (Call × Text)) : ∀ j e,
    e ∈ callEvents p dealer j l → ∃ a t, e = SEvent.relayCall a t := by
  induction l with
  | nil => intro j e h; simp [callEvents] at h
  | cons x r ih =>
    intro j e h
    obtain ⟨c, text⟩ := x
    simp only [callEvents, List.mem_append] at h
    rcases h with h | h
    · split at h
      · simp at h
      · simp at h; exact ⟨_, _, h⟩
    · exact ih _ _ h

theorem cardEvents_mem (p decl : Seat) (dh : List Card) (l : List (Card × Text)) : ∀ s j e,
    e ∈ cardEvents p decl dh s j l →
      (∃ a t, e = SEvent.relayCard a t) ∨ (∃ a b, e = SEvent.leadPrompt a b) ∨
      (e = SEvent.dummyCards dh ∧ j = 0 ∧ p ≠ decl.partner) := by
  induction l with
  | nil => intro s j e h; simp [cardEvents] at h
  | cons x r ih =>
    intro s j e h
    obtain ⟨c, text⟩ := x
    simp only [cardEvents, List.mem_append] at h
    rcases h with ((h | h) | h) | h
    · split at h
      · simp at h; exact Or.inr (Or.inl ⟨_, _, h⟩)
      · simp at h
    · split at h
      · simp at h
      · simp at h; exact Or.inl ⟨_, _, h⟩
    · split at h
      · next hc => simp at h; exact Or.inr (Or.inr ⟨h, hc.1, hc.2⟩)
      · simp at h
    · rcases ih _ _ _ h with h' | h' | h'
      · exact Or.inl h'
      · exact Or.inr (Or.inl h')
      · exact absurd h'.2.1 (by omega)

theorem cardEvents_no_dummy_later (p decl : Seat) (dh : List Card) (s : PState) (j : Nat)
    (cs : List (Card × Text)) (h : List Card) (hj : 0 < j) :
    SEvent.dummyCards h ∉ cardEvents p decl dh s j cs := by
  intro hm
  rcases cardEvents_mem p decl dh cs s j _ hm with ⟨_, _, h'⟩ | ⟨_, _, h'⟩ | h'
  · cases h'
  · cases h'
  · omega

theorem boardEvents_own_cards (p : Seat) (k : Nat) (last : Bool) (b : BoardSetting) (d : Decisions) :
    ∃ rest, boardEvents p k last b d = SEvent.header k b.dealer b.vul :: SEvent.ownCards (b.deal p) :: rest ∧
      (∀ h, SEvent.ownCards h ∉ rest) ∧
      (∀ n dl v, SEvent.header n dl v ∉ rest) ∧
      (∀ h, SEvent.dummyCards h ∈ rest →
        ∃ decl, (boardContract b d).declarer = some decl ∧ h = b.deal decl.partner ∧ p ≠ decl.partner) := by
  refine ⟨callEvents p b.dealer 0 d.calls ++
    (match PState.init (boardContract b d), (boardContract b d).declarer with
     | some s0, some decl => cardEvents p decl (b.deal decl.partner) s0 0 d.cards
     | _, _ => []) ++
    [if last then SEvent.endOfSession else SEvent.startOfBoard], ?_, ?_, ?_, ?_⟩
  · rfl
  · intro h hm
    simp only [List.mem_append] at hm
    rcases hm with (hm | hm) | hm
    · obtain ⟨_, _, h'⟩ := callEvents_mem _ _ _ _ _ hm; cases h'
    · split at hm
      · rcases cardEvents_mem _ _ _ _ _ _ _ hm with ⟨_, _, h'⟩ | ⟨_, _, h'⟩ | ⟨h', _⟩ <;> cases h'
      · simp at hm
    · cases last <;> simp at hm
  · intro n dl v hm
    simp only [List.mem_append] at hm
    rcases hm with (hm | hm) | hm
    · obtain ⟨_, _, h'⟩ := callEvents_mem _ _ _ _ _ hm; cases h'
    · split at hm
      · rcases cardEvents_mem _ _ _ _ _ _ _ hm with ⟨_, _, h'⟩ | ⟨_, _, h'⟩ | ⟨h', _⟩ <;> cases h'
      · simp at hm
    · cases last <;> simp at hm
  · intro h hm
    simp only [List.mem_append] at hm
    rcases hm with (hm | hm) | hm
    · obtain ⟨_, _, h'⟩ := callEvents_mem _ _ _ _ _ hm; cases h'
    · split at hm
      · next s0 decl hs hd =>
        rcases cardEvents_mem _ _ _ _ _ _ _ hm with ⟨_, _, h'⟩ | ⟨_, _, h'⟩ | ⟨h', _, hp⟩
        · cases h'
        · cases h'
        · cases h'; exact ⟨decl, hd, rfl, hp⟩
      · simp at hm
    · cases last <;> simp at hm

theorem callEvents_eq_filter (p dealer : Seat) (calls : List (Call × Text)) : ∀ j,
    callEvents p dealer j calls =
      ((calls.zipIdx j).filter fun x => decide (dealer.rot x.2 ≠ p)).map
        fun x => SEvent.relayCall (dealer.rot x.2) (preprocessBid x.1.2) := by
  induction calls with
  | nil => intro j; rfl
  | cons x r ih =>
    intro j
    obtain ⟨c, text⟩ := x
    simp only [callEvents, List.zipIdx_cons, ih (j + 1), List.filter_cons]
    by_cases h : dealer.rot j = p <;> simp [h]

/-- generic shape of the two "exactly once, in order" statements about the play -/
theorem cardEvents_filterMap {β : Type} (p decl : Seat) (dh : List Card) (F : SEvent → Option β)
    (G : PState → Text → Option β)
    (hF : ∀ s j c text rest, (cardEvents p decl dh s j ((c, text) :: rest)).filterMap F =
      (G s text).toList ++ (cardEvents p decl dh (playCard s c) (j + 1) rest).filterMap F)
    (cards : List (Card × Text)) : ∀ s j,
    (cardEvents p decl dh s j cards).filterMap F =
      (cards.zipIdx).filterMap fun x => G (runPlay s ((cards.take x.2).map (·.1))) x.1.2 := by
  induction cards with
  | nil => intro s j; rfl
  | cons x r ih =>
    intro s j
    obtain ⟨c, text⟩ := x
    rw [hF, ih (playCard s c) (j + 1), List.zipIdx_cons, List.filterMap_cons]
    have hz : r.zipIdx (0 + 1) = (r.zipIdx 0).map fun x => (x.1, x.2 + 1) := by
      rw [List.zipIdx_succ]
    rw [hz, List.filterMap_map]
    simp only [List.take_zero, List.map_nil, runPlay_nil]
    cases hG : G s text <;> simp [Function.comp_def]

theorem cardEvents_relays (p decl : Seat) (dh : List Card) (s0 : PState) (j : Nat) (cards : List (Card × Text)) :
    (cardEvents p decl dh s0 j cards).filterMap (fun e => match e with | .relayCard a t => some (a, t) | _ => none) =
      ((cards.zipIdx).filterMap fun x =>
        let a := (runPlay s0 ((cards.take x.2).map (·.1))).active
        if senderOf decl a = p then none else some (a, x.1.2)) := by
  refine cardEvents_filterMap p decl dh _
    (fun s t => if senderOf decl s.active = p then none else some (s.active, t)) ?_ cards s0 j
  intro s j c text rest
  simp only [cardEvents, List.filterMap_append]
  congr 1
  have h4' : (p = decl.partner) = (decl.partner = p) := propext eq_comm
  by_cases h1 : s.trick = [] <;> by_cases h2 : senderOf decl s.active = p <;>
    by_cases h3 : j = 0 <;> by_cases h4 : decl.partner = p <;> simp [h1, h2, h3, h4, h4']

theorem cardEvents_prompts (p decl : Seat) (dh : List Card) (s0 : PState) (j : Nat) (cards : List (Card × Text)) :
    (cardEvents p decl dh s0 j cards).filterMap
        (fun e => match e with | .leadPrompt a b => some (a, b) | _ => none) =
      ((cards.zipIdx).filterMap fun x =>
        let s := runPlay s0 ((cards.take x.2).map (·.1))
        if s.trick = [] ∧ senderOf decl s.active = p then some (s.active, decide (s.active = decl.partner)) else none) := by
  refine cardEvents_filterMap p decl dh _
    (fun s _ => if s.trick = [] ∧ senderOf decl s.active = p then
      some (s.active, decide (s.active = decl.partner)) else none) ?_ cards s0 j
  intro s j c text rest
  simp only [cardEvents, List.filterMap_append]
  congr 1
  have h4' : (p = decl.partner) = (decl.partner = p) := propext eq_comm
  by_cases h1 : s.trick = [] <;> by_cases h2 : senderOf decl s.active = p <;>
    by_cases h3 : j = 0 <;> by_cases h4 : decl.partner = p <;> simp [h1, h2, h3, h4, h4']

theorem cardEvents_first (p decl : Seat) (dh : List Card) (s0 : PState)
    (c : Card) (text : Text) (rest : List (Card × Text)) :
    cardEvents p decl dh s0 0 ((c, text) :: rest) =
      (if s0.trick = [] ∧ senderOf decl s0.active = p then [SEvent.leadPrompt s0.active (decide (s0.active = decl.partner))] else []) ++
      (if senderOf decl s0.active = p then [] else [SEvent.relayCard s0.active text]) ++
      (if p ≠ decl.partner then [SEvent.dummyCards dh] else []) ++
      cardEvents p decl dh (playCard s0 c) 1 rest := by
  simp [cardEvents]

end Bridge
