import BridgeVerif.Model.Abort
import BridgeVerif.Props.C12
import BridgeVerif.Props.C08
import BridgeVerif.Props.C09
import BridgeVerif.Lemmas.Deal
/-! Helper lemmas for C13: what main has emitted when a session is abandoned, the text in the log file, and the
well-formedness of the records of a session. -/
namespace Bridge

/-! ## what main has emitted when the session is abandoned -/

theorem any_isOpenAct_emits (pre : List (SAct Text LogOp)) (h : pre.any isOpenAct = true) :
    emitsOf pre ≠ [] := by
  induction pre with
  | nil => simp at h
  | cons a pre ih =>
    cases a with
    | emit o => simp [emitsOf]
    | send c m => simp only [List.any_cons, isOpenAct, Bool.false_or] at h; simpa [emitsOf] using ih h
    | recv c => simp only [List.any_cons, isOpenAct, Bool.false_or] at h; simpa [emitsOf] using ih h
    | arrive => simp only [List.any_cons, isOpenAct, Bool.false_or] at h; simpa [emitsOf] using ih h
    | depart => simp only [List.any_cons, isOpenAct, Bool.false_or] at h; simpa [emitsOf] using ih h

theorem any_isCloseAct_iff (pre : List (SAct Text LogOp)) :
    pre.any isCloseAct = true ↔ LogOp.close ∈ emitsOf pre := by
  induction pre with
  | nil => simp [emitsOf]
  | cons a pre ih =>
    cases a with
    | emit o => cases o <;> simp [emitsOf, isCloseAct, ih]
    | send c m => simp [emitsOf, isCloseAct, ih]
    | recv c => simp [emitsOf, isCloseAct, ih]
    | arrive => simp [emitsOf, isCloseAct, ih]
    | depart => simp [emitsOf, isCloseAct, ih]

/-- filtering the writes out of a list of writes keeps everything -/
theorem filter_writes_map {α : Type} (f : α → BoardRecord) (l : List α) :
    ((l.map fun x => LogOp.write (f x)).filter fun o => match o with | .write _ => true | _ => false) =
      l.map fun x => LogOp.write (f x) := by
  induction l with
  | nil => rfl
  | cons x l ih => simp [ih]

theorem close_not_mem_writes {α : Type} (f : α → BoardRecord) (l : List α) :
    LogOp.close ∉ l.map fun x => LogOp.write (f x) := by
  simp

theorem abort_emits (sc : Scenario) (h : sc.boards ≠ []) (pre rest : List (SAct Text LogOp))
    (hp : sessionProg sc .main = pre ++ rest) (ho : pre.any isOpenAct = true) :
    ∃ k, k ≤ sc.boards.length ∧
      emitsOf (abortedMain pre) =
        LogOp.open :: ((sc.boards.take k).map fun bd => LogOp.write (recordOf sc bd.1 bd.2)) ++ [LogOp.close] ∧
      k = ((emitsOf pre).filter fun o => match o with | .write _ => true | _ => false).length := by
  have hlog := C09.log_is_opened_written_closed sc h
  rw [hp, emitsOf_append] at hlog
  have hne := any_isOpenAct_emits pre ho
  -- `emitsOf pre` is a prefix of the whole log
  have htake : emitsOf pre = (emitsOf pre ++ emitsOf rest).take (emitsOf pre).length := by simp
  rw [hlog] at htake
  obtain ⟨m, hm⟩ : ∃ m, (emitsOf pre).length = m + 1 := by
    cases he : emitsOf pre with
    | nil => exact absurd he hne
    | cons x l => exact ⟨l.length, rfl⟩
  rw [hm, List.cons_append, List.take_succ_cons] at htake
  by_cases hk : m ≤ sc.boards.length
  · -- not yet closed
    have hE : emitsOf pre =
        LogOp.open :: (sc.boards.take m).map fun bd => LogOp.write (recordOf sc bd.1 bd.2) := by
      rw [htake, List.take_append_of_le_length (by simpa using hk), List.map_take]
    have hnc : pre.any isCloseAct = false := by
      cases hc : pre.any isCloseAct with
      | false => rfl
      | true =>
        have := (any_isCloseAct_iff pre).1 hc
        rw [hE] at this
        rcases List.mem_cons.1 this with h1 | h1
        · cases h1
        · exact absurd h1 (close_not_mem_writes _ _)
    refine ⟨m, hk, ?_, ?_⟩
    · simp only [abortedMain, ho, hnc, Bool.not_false, Bool.and_self, if_true, emitsOf_append, emitsOf, hE,
        List.cons_append]
    · rw [hE, List.filter_cons]
      simp only [filter_writes_map (fun bd : BoardSetting × Decisions => recordOf sc bd.1 bd.2)]
      simp [Nat.min_eq_left hk]
  · -- already closed
    have hE : emitsOf pre =
        LogOp.open :: (sc.boards.map fun bd => LogOp.write (recordOf sc bd.1 bd.2)) ++ [LogOp.close] := by
      rw [htake, List.take_of_length_le (by simp; omega), List.cons_append]
    have hc : pre.any isCloseAct = true := by
      rw [any_isCloseAct_iff, hE]; simp
    refine ⟨sc.boards.length, Nat.le_refl _, ?_, ?_⟩
    · simp only [abortedMain, ho, hc, Bool.not_true, Bool.and_false, Bool.false_eq_true, if_false, hE,
        List.take_length]
    · rw [hE, List.cons_append, List.filter_cons, List.filter_append]
      simp only [filter_writes_map (fun bd : BoardSetting × Decisions => recordOf sc bd.1 bd.2)]
      simp

/-! ## the text in the file -/

/-- the line `JsonLogWriter.write` produces for a record -/
def recLine (r : BoardRecord) : Str := pyDumps (logJson (entryOf r))

theorem foldl_writes (r : BoardRecord) (rs : List BoardRecord) : ∀ (txt : Str) (first : Bool),
    ((r :: rs).map LogOp.write).foldl writerStep (txt, first) =
      (txt ++ (if first then [] else ",\n".toList) ++ List.intercalate ",\n".toList ((r :: rs).map recLine), false) := by
  induction rs generalizing r with
  | nil =>
    intro txt first
    simp only [List.map_cons, List.map_nil, List.foldl_cons, List.foldl_nil, writerStep, intercalate_one, recLine]
  | cons r' rs ih =>
    intro txt first
    rw [List.map_cons, List.foldl_cons, ih r']
    simp only [writerStep, List.map_cons, intercalate_cons₂, recLine, Bool.false_eq_true, if_false,
      List.append_assoc]

theorem map_entryOf_lines (recs : List BoardRecord) :
    ((recs.map entryOf).map fun e => pyDumps (logJson e)) = recs.map recLine := by
  simp [List.map_map, Function.comp_def, recLine]

/-- the text after `open()` and the given writes (no `close()`) -/
theorem logFileText_unclosed (recs : List BoardRecord) :
    logFileText (LogOp.open :: recs.map LogOp.write) =
      jsonFrame (jkey "logs") ((recs.map entryOf).map fun e => pyDumps (logJson e)) false := by
  rw [map_entryOf_lines]
  cases recs with
  | nil => simp [logFileText, writerStep, jsonFrame, List.intercalate]
  | cons r rs =>
    simp only [logFileText, List.foldl_cons]
    rw [foldl_writes]
    simp [writerStep, jsonFrame]

theorem logFileText_closed (recs : List BoardRecord) :
    logFileText (LogOp.open :: recs.map LogOp.write ++ [LogOp.close]) = logText (recs.map entryOf) := by
  unfold logText
  rw [map_entryOf_lines]
  cases recs with
  | nil => simp [logFileText, writerStep, jsonFrame, List.intercalate]
  | cons r rs =>
    simp only [logFileText, List.cons_append, List.foldl_cons, List.foldl_append, List.foldl_nil]
    rw [foldl_writes]
    simp [writerStep, jsonFrame]

theorem aborted_log_reads (recs : List BoardRecord) (hwf : ∀ r ∈ recs, (entryOf r).WF) :
    jsonLoad (logFileText (LogOp.open :: recs.map LogOp.write ++ [LogOp.close])) = some (logDoc (recs.map entryOf)) ∧
    parseBoardLogs? (logFileText (LogOp.open :: recs.map LogOp.write ++ [LogOp.close])) =
      some ((recs.map entryOf).map LogEntry.readBack) := by
  have h : ∀ e ∈ recs.map entryOf, e.WF := by
    intro e he
    obtain ⟨r, hr, rfl⟩ := List.mem_map.1 he
    exact hwf r hr
  rw [logFileText_closed]
  exact ⟨C12.framed_output_is_json _ h, C12.log_read_back _ h⟩

theorem unclosed_log_not_json (recs : List BoardRecord) (hwf : ∀ r ∈ recs, (entryOf r).WF) :
    jsonLoad (logFileText (LogOp.open :: recs.map LogOp.write)) = none := by
  rw [logFileText_unclosed]
  have := jsonLoad_unclosed (jkey "logs") C12.tag_logs_plain ((recs.map entryOf).map logJson) (by
    intro j hj
    obtain ⟨e, he, rfl⟩ := List.mem_map.1 hj
    obtain ⟨r, hr, rfl⟩ := List.mem_map.1 he
    exact logJson_wf _ (hwf r hr))
  simpa [List.map_map, Function.comp_def] using this

/-! ## the records of a session are well-formed writer arguments -/

theorem ddaTable_wf (f : Seat → Suit → Int) : DdaWF (ddaTable f) := by
  refine ⟨?_, ?_⟩
  · simp [ddaTable, Seat.all]
  · intro row hrow
    simp only [ddaTable, Seat.all, List.map_cons, List.map_nil, List.mem_cons, List.not_mem_nil, or_false] at hrow
    rcases hrow with rfl | rfl | rfl | rfl <;> simp [Suit.all]

/-- every card of a recorded trick is one of the cards played -/
theorem tricksOf_mem (trump : Suit) (ldr : Seat) (cards : List Card) :
    ∀ t ∈ (tricksOf trump ldr cards).1, ∀ c ∈ t.cards, c ∈ cards := by
  fun_induction tricksOf trump ldr cards with
  | case1 ldr a b c d rest r ih =>
    intro t ht x hx
    simp only [List.mem_cons] at ht
    rcases ht with rfl | ht
    · simp only [List.mem_cons, List.not_mem_nil, or_false] at hx
      rcases hx with rfl | rfl | rfl | rfl <;> simp
    · have := ih t ht x hx
      simp [this]
  | case2 ldr rest hne =>
    intro t ht
    simp at ht

/-- every accepted card was held by some seat at the start -/
theorem playsAccepted_mem (cards : List Card) : ∀ (w0 w : WithHands), playsAccepted w0 cards = some w →
    ∀ c ∈ cards, ∃ p, c ∈ w0.hands p := by
  induction cards with
  | nil => intro w0 w _ c hc; simp at hc
  | cons c cs ih =>
    intro w0 w h x hx
    unfold playsAccepted at h
    rw [List.foldlM_cons] at h
    cases hp : w0.play c w0.base.active with
    | error e => rw [hp] at h; simp at h
    | ok w1 =>
      rw [hp] at h
      obtain ⟨_, hmem, rfl⟩ := (play_ok_iff w0 c _ w1).1 hp
      rcases List.mem_cons.1 hx with rfl | hx
      · exact ⟨_, hmem⟩
      · obtain ⟨q, hq⟩ := ih _ w (by simpa [playsAccepted] using h) x hx
        simp only at hq
        split at hq
        · exact ⟨_, List.mem_of_mem_erase hq⟩
        · exact ⟨q, hq⟩

theorem entryOf_recordOf_wf (sc : Scenario) (b : BoardSetting) (d : Decisions)
    (hdeal : PartialDeal b.deal) (hc : ConformingAuction b d) (hp : ConformingPlay b d) :
    (entryOf (recordOf sc b d)).WF := by
  obtain ⟨_, _, hdl, _, _, _, hdda⟩ := C08.deal_logged_is_original sc b d
  obtain ⟨hpo, hnpo⟩ := C08.passed_out_record_shape sc b d hc
  refine ⟨?_, ?_, ?_, ?_, ?_⟩
  · intro p
    show ((recordOf sc b d).deal p).Nodup ∧ ∀ c ∈ (recordOf sc b d).deal p, c.ok = true
    rw [hdl]
    exact ⟨hdeal.nodup_hand p, hdeal.ok p⟩
  · intro t ht
    have ht' : (recordOf sc b d).dda.map ddaTable = some t := ht
    cases hf : (recordOf sc b d).dda with
    | none => rw [hf] at ht'; simp at ht'
    | some f =>
      rw [hf] at ht'
      simp only [Option.map_some, Option.some.injEq] at ht'
      subst ht'
      exact ddaTable_wf f
  · intro hno
    exact (hnpo hno).2.2
  · intro hpo'
    exact (hpo hpo').2.2.2.2
  · intro ts hts t ht c hct
    have hts' : (recordOf sc b d).play = some ts := hts
    have hbc := boardContract_conforming b d hc
    rcases specContract_shape b.dealer b.vul (d.calls.map (·.1)).reverse with ⟨hf, hd⟩ | ⟨i, decl, hf, hd⟩
    · rw [← hbc] at hf hd
      rw [recordOf_passed sc b d (Or.inl hf)] at hts'
      simp at hts'
    · rw [← hbc] at hf hd
      obtain ⟨hplay, _, _⟩ := record_rules sc b d hc hp decl i hd hf
      rw [hplay] at hts'
      simp only [Option.some.injEq] at hts'
      subst hts'
      have hmem := tricksOf_mem _ _ _ t ht c hct
      obtain ⟨s0, hs0, _⟩ := C04.opening_lead_and_dummy (boardContract b d) i decl hf hd
      have hw0 : WithHands.init (boardContract b d) b.deal = some ⟨s0, b.deal⟩ := by
        simp [WithHands.init, hs0]
      unfold ConformingPlay at hp
      rw [hw0] at hp
      obtain ⟨w, hw⟩ := Option.isSome_iff_exists.1 hp.2
      obtain ⟨p, hcp⟩ := playsAccepted_mem _ _ _ hw c hmem
      exact hdeal.ok p c hcp

end Bridge
