import BridgeVerif.Model.Msg
/-! `PlayerThread._check_message` accepts every message that equals the expected text up to letter case and up to the
length of each white-space run (used for the "ready for …" messages of a conforming client, C09). -/
namespace Bridge

/-- `r` is `e` with every single space replaced by a non-empty run of white space and letters in any case -/
inductive ReadyVariant : List Char → List Char → Prop
  | nil : ReadyVariant [] []
  | char {e c es rs} : e ≠ ' ' → eqCI e c = true → isWs c = false → ReadyVariant es rs → ReadyVariant (e :: es) (c :: rs)
  | space {es rs} (w : List Char) (c : Char) : isWs c = true → (∀ x ∈ w, isWs x = true) →
      (∀ y r', rs = y :: r' → isWs y = false) → ReadyVariant es rs → ReadyVariant (' ' :: es) (c :: w ++ rs)

theorem dropWhile_ws_append (w rs : List Char) (hw : ∀ x ∈ w, isWs x = true)
    (hr : ∀ y r', rs = y :: r' → isWs y = false) : (w ++ rs).dropWhile isWs = rs := by
  induction w with
  | nil =>
    cases rs with
    | nil => rfl
    | cons y r' => simp [hr y r' rfl]
  | cons x w ih =>
    simp only [List.cons_append, List.dropWhile, hw x (List.mem_cons_self ..)]
    exact ih fun y hy => hw y (List.mem_cons_of_mem _ hy)

theorem checkMessage_variant {e r : List Char} (h : ReadyVariant e r) : checkMessage e r = true := by
  induction h with
  | nil => rfl
  | char hne hci _ _ ih => simp [checkMessage, hne, hci, ih]
  | @space es rs w c hc hw hr _ ih =>
    have hd : (c :: (w ++ rs)).dropWhile isWs = rs := by
      rw [List.dropWhile_cons_of_pos hc]; exact dropWhile_ws_append w _ hw hr
    simp only [checkMessage, if_true, List.cons_append]
    simp only [hc, if_true, hd]
    exact ih

/-- a text without two spaces in a row, without leading white space other than single spaces, is a variant of itself -/
theorem readyVariant_self : ∀ (e : List Char), (∀ c ∈ e, c = ' ' ∨ isWs c = false) →
    (∀ a b, [' ', ' '] ≠ [a, b] ∨ ¬ [a, b] <:+: e) → ReadyVariant e e
  | [], _, _ => .nil
  | c :: es, hc, hd => by
    have ih := readyVariant_self es (fun x hx => hc x (List.mem_cons_of_mem _ hx)) (fun a b => by
      rcases hd a b with h | h
      · exact Or.inl h
      · exact Or.inr fun hin => h (hin.trans (List.infix_cons (List.infix_refl _))))
    by_cases hsp : c = ' '
    · subst hsp
      have : ReadyVariant (' ' :: es) (' ' :: [] ++ es) := by
        refine .space [] ' ' (by decide) (by simp) ?_ ih
        intro y r' hes
        rcases hc y (by simp [hes]) with h | h
        · subst h
          rcases hd ' ' ' ' with h2 | h2
          · exact absurd rfl h2
          · exact absurd (by rw [hes]; exact ⟨[], r', by simp⟩) h2
        · exact h
      simpa using this
    · rcases hc c (List.mem_cons_self ..) with h | h
      · exact absurd h hsp
      · exact .char hsp (by simp [eqCI]) h ih

end Bridge
