import BridgeVerif.Lemmas.Msg
/-! Helper lemmas for C19: board header, team names, connection request. -/
namespace Bridge

/-! ### board header -/
/-- what `parseBoard?` does after the board number and `. Dealer ` -/
def boardTail (r1 : List Char) : Option (Seat × Vul) :=
  let g : Option (List Char × List Char) :=
    dotStar r1 fun gd t1 => (stripPrefixCI ". ".toList t1).bind fun r2 =>
    dotStar r2 fun gv t2 => (stripPrefixCI " vulnerable.".toList t2).map fun _ => (gd, gv)
  match g with
  | none => none
  | some (gd, gv) =>
    match seatOfFormal? gd, vulOfWord? gv with
    | some d, some v => some (d, v)
    | _, _ => none

theorem parseBoard_number (n : Nat) (r1 : List Char) :
    parseBoard? ("Board number ".toList ++ natStr n ++ ". Dealer ".toList ++ r1) =
      (boardTail r1).map fun dv => (n, dv.1, dv.2) := by
  have htw : (natStr n ++ (". Dealer ".toList ++ r1)).takeWhile isDigit = natStr n :=
    takeWhile_digits _ _ (natStr_digits n) (by simp [show ". Dealer ".toList = '.' :: " Dealer ".toList from rfl]; decide)
  simp only [parseBoard?, List.append_assoc, strip_self, htw, decimal_natStr, List.drop_left, boardTail]
  split
  · simp_all
  · rename_i hg
    simp only [hg]
    cases seatOfFormal? _ <;> cases vulOfWord? _ <;> rfl

theorem boardTail_ok (d : Seat) (v : Vul) :
    boardTail (d.formal ++ ". ".toList ++ convertVul v ++ " vulnerable.".toList) = some (d, v) := by
  cases d <;> cases v <;> decide +kernel

/-! ### team names -/
def teamAfter (g1 t : List Char) : Option (List Char × List Char) :=
  (stripPrefixCI " E/W : \"".toList t).bind fun r1 =>
    dotStar r1 fun g2 t3 => match t3 with | '"' :: _ => some (g1, g2) | _ => none

def teamK (g1 t1 : List Char) : Option (List Char × List Char) :=
  match t1 with
  | '"' :: t2 =>
    match t2 with
    | c :: t2' =>
      if c ≠ '\n' then
        match teamAfter g1 t2' with
        | some r => some r
        | none => teamAfter g1 t2
      else teamAfter g1 t2
    | [] => teamAfter g1 t2
  | _ => none

theorem parseTeamNames_eq (content : List Char) :
    parseTeamNames? content =
      match stripPrefixCI "Teams : N/S : \"".toList content with
      | none => none
      | some r0 => dotStar r0 teamK := rfl

theorem append_cons_eq_append_singleton {α : Type} {x : α} {a b e : List α}
    (h : a ++ x :: b = e ++ [x]) (hx : x ∉ e) : b = [] := by
  induction e generalizing a with
  | nil =>
    cases a with
    | nil => simpa using h
    | cons y a => simp at h
  | cons y e ih =>
    cases a with
    | nil =>
      simp only [List.nil_append, List.cons_append, List.cons.injEq] at h
      exact absurd h.1 (fun hxy => hx (by simp [hxy]))
    | cons z a =>
      simp only [List.cons_append, List.cons.injEq] at h
      exact ih h.2 (fun hm => hx (List.mem_cons_of_mem _ hm))

theorem foldC_eq_quote {c : Char} (h : foldC c = foldC '"') : c = '"' := by
  rw [char_eq_iff] at h ⊢
  simp only [foldC_toNat, lowerA_toNat, show '"'.toNat = 34 from rfl] at h ⊢
  repeat' split at h
  all_goals omega

/-- a suffix of `ew"` -/
theorem drop_name_quote (ew : List Char) (j : Nat) :
    ∃ e q, (ew ++ ['"']).drop j = e ++ q ∧ (q = [] ∨ q = ['"']) ∧ (∀ c ∈ e, c ∈ ew) := by
  refine ⟨ew.drop j, (['"'] : List Char).drop (j - ew.length), List.drop_append, ?_,
    fun c hc => List.mem_of_mem_drop hc⟩
  cases j - ew.length <;> simp

theorem teamAfter_suffix (ew : List Char) (h : '"' ∉ ew) (j : Nat) (g : List Char) :
    teamAfter g ((ew ++ ['"']).drop j) = none := by
  unfold teamAfter
  cases hs : stripPrefixCI " E/W : \"".toList ((ew ++ ['"']).drop j) with
  | none => rfl
  | some r1 =>
    obtain ⟨v, hv, hf⟩ := strip_some hs
    obtain ⟨e, q, he, hq, hsub⟩ := drop_name_quote ew j
    have hne : '"' ∉ e := fun hm => h (hsub _ hm)
    -- the literal ends with a quote, so does `v`
    have hlen : v.length = 8 := by simpa using congrArg List.length hf
    obtain ⟨v', c, rfl⟩ : ∃ v' c, v = v' ++ [c] := by
      rcases List.eq_nil_or_concat v with rfl | ⟨v', c, rfl⟩
      · simp at hlen
      · exact ⟨v', c, by simp⟩
    have hc : c = '"' := by
      have h1 : (v' ++ [c]).map foldC = " E/W : ".toList.map foldC ++ [foldC '"'] := hf
      rw [List.map_append] at h1
      have h2 : (v'.map foldC).length = (" E/W : ".toList.map foldC).length := by
        simp only [List.length_map]; simp at hlen; simpa using hlen
      have := (List.append_inj h1 h2).2
      simp only [List.map_cons, List.map_nil, List.cons.injEq, and_true] at this
      exact foldC_eq_quote this
    subst hc
    have hr1 : r1 = [] := by
      rw [he] at hv
      rcases hq with rfl | rfl
      · exfalso; apply hne; rw [List.append_nil] at hv; rw [hv]; simp
      · rw [List.append_assoc] at hv
        exact append_cons_eq_append_singleton hv.symm hne
    subst hr1
    simp [dotStar, greedy]

theorem teamK_suffix (ew : List Char) (h : '"' ∉ ew) (j : Nat) (g : List Char) :
    teamK g ((ew ++ ['"']).drop j) = none := by
  obtain ⟨e, q, he, hq, hsub⟩ := drop_name_quote ew j
  rw [he]
  cases e with
  | nil =>
    rcases hq with rfl | rfl
    · simp [teamK]
    · simp [teamK, teamAfter, stripPrefixCI]
  | cons c e =>
    have hc : c ≠ '"' := fun hc => h (hc ▸ hsub c (by simp))
    simp only [List.cons_append, teamK]
    split
    · rename_i heq; simp only [List.cons.injEq] at heq; exact absurd heq.1 hc
    · rfl

theorem teamK_longer (ew : List Char) (h : '"' ∉ ew) (d : Nat) (hd : 0 < d) (g : List Char) :
    teamK g (("\" E/W : \"".toList ++ ew ++ ['"']).drop d) = none := by
  have hS : ew ++ ['"'] = (ew ++ ['"']).drop 0 := rfl
  have h0 := teamAfter_suffix ew h 0 g
  have h1 := teamAfter_suffix ew h 1 g
  simp only [List.drop_zero] at h0
  match d, hd with
  | 1, _ => simp [teamK]
  | 2, _ => simp [teamK]
  | 3, _ => simp [teamK]
  | 4, _ => simp [teamK]
  | 5, _ => simp [teamK]
  | 6, _ => simp [teamK]
  | 7, _ => simp [teamK]
  | 8, _ =>
    show teamK g ('"' :: (ew ++ ['"'])) = none
    cases hew : ew ++ ['"'] with
    | nil => simp at hew
    | cons c t =>
      rw [hew] at h0 h1
      simp only [List.drop_succ_cons, List.drop_zero] at h1
      simp only [teamK, h0, h1]
      split <;> rfl
  | j + 9, _ =>
    show teamK g ((ew ++ ['"']).drop j) = none
    exact teamK_suffix ew h j g

theorem teamAfter_ok (g ew : List Char) (h : NameOK ew) :
    teamAfter g (" E/W : \"".toList ++ (ew ++ ['"'])) = some (g, ew) := by
  unfold teamAfter
  rw [strip_self]
  simp only [Option.bind_some]
  apply dotStar_append ew ['"'] _ _ h.2.1 (by simp)
  intro d hd
  cases d with
  | zero => omega
  | succ d => simp

theorem teamK_ok (ns ew : List Char) (h : NameOK ew) :
    teamK ns ("\" E/W : \"".toList ++ ew ++ ['"']) = some (ns, ew) := by
  have h1 := teamAfter_ok ns ew h
  have h2 : teamAfter ns ("E/W : \"".toList ++ (ew ++ ['"'])) = none := by
    unfold teamAfter
    rw [show " E/W : \"".toList = ' ' :: "E/W : \"".toList from rfl,
      strip_none_of_head (by simp; decide)]
    rfl
  show teamK ns ('"' :: ' ' :: ("E/W : \"".toList ++ ew ++ ['"'])) = some (ns, ew)
  simp only [teamK, List.append_assoc, h2]
  simpa using h1

theorem parseTeamNames_ok (ns ew : List Char) (h1 : NameOK ns) (h2 : NameOK ew) :
    parseTeamNames? (teamsMsg ns ew) = some (ns, ew) := by
  have := dotStar_append ns ("\" E/W : \"".toList ++ ew ++ ['"']) teamK (ns, ew) h1.2.1
    (teamK_ok ns ew h2) (fun d hd => teamK_longer ew h2.1 d hd _)
  unfold teamsMsg
  rewrite [parseTeamNames_eq]
  simp only [List.append_assoc, strip_self]
  simp only [List.append_assoc] at this
  exact this

/-! ### connection request -/
/-- the literal `p` and the text `u` differ (up to case) at some common position -/
def clash : List Char → List Char → Bool
  | a :: p, c :: u => !eqCI a c || clash p u
  | _, _ => false

theorem strip_none_of_clash (p u x : List Char) (h : clash p u = true) :
    stripPrefixCI p (u ++ x) = none := by
  induction p generalizing u with
  | nil => simp [clash] at h
  | cons a p ih =>
    cases u with
    | nil => simp [clash] at h
    | cons c u =>
      simp only [clash, Bool.or_eq_true, Bool.not_eq_eq_eq_not, Bool.not_true] at h
      simp only [List.cons_append, stripPrefixCI]
      split
      · rename_i hc
        rcases h with h | h
        · simp [hc] at h
        · exact ih u h
      · rfl

theorem eqCI_of_isDigit {a c : Char} (ha : a.toNat < 48 ∨ (57 < a.toNat ∧ a.toNat < 128))
    (h : isDigit c = true) : eqCI a c = false := by
  rw [isDigit_iff] at h
  simp only [eqCI, beq_eq_false_iff_ne, ne_eq, char_eq_iff, foldC_toNat, lowerA_toNat]
  repeat' split
  all_goals omega

def connK2 (team seat t2 : List Char) : Option (List Char × List Char × List Char) :=
  (stripPrefixCI " using protocol version ".toList t2).bind fun r2 =>
    let ds := r2.takeWhile isDigit
    if ds = [] then none else some (team, seat, ds)

def connK1 (team t1 : List Char) : Option (List Char × List Char × List Char) :=
  (stripPrefixCI "\" as ".toList t1).bind fun r1 => dotStar r1 (connK2 team)

theorem parseConnect_eq (content : List Char) :
    parseConnect? content =
      match stripPrefixCI "Connecting \"".toList content with
      | none => none
      | some r0 =>
        match dotStar r0 connK1 with
        | none => none
        | some (team, seat, ds) =>
          match seatOfFormal? (capitalizeA seat), decimal? ds with
          | some p, some v => some (team, p, v)
          | _, _ => none := rfl

theorem connK2_ok (team seat : List Char) (v : Nat) :
    connK2 team seat (" using protocol version ".toList ++ natStr v) = some (team, seat, natStr v) := by
  have h : (natStr v).takeWhile isDigit = natStr v := by
    simpa using takeWhile_digits (natStr v) [] (natStr_digits v) (by simp)
  unfold connK2
  rw [strip_self]
  simp only [Option.bind_some, h]
  rw [if_neg (natStr_ne_nil v)]

theorem usingLit_clash : ∀ d, d < 23 → 0 < d →
    clash " using protocol version ".toList (" using protocol version ".toList.drop d) = true := by
  decide

theorem connK2_longer (team g : List Char) (v d : Nat) (hd : 0 < d) :
    connK2 team g ((" using protocol version ".toList ++ natStr v).drop d) = none := by
  have hnone : stripPrefixCI " using protocol version ".toList
      ((" using protocol version ".toList ++ natStr v).drop d) = none := by
    by_cases h1 : d < 23
    · rw [List.drop_append_of_le_length (by simp; omega)]
      exact strip_none_of_clash _ _ _ (usingLit_clash d h1 hd)
    · by_cases h2 : d = 23
      · subst h2
        show stripPrefixCI (' ' :: 'u' :: "sing protocol version ".toList) (' ' :: natStr v) = none
        simp only [stripPrefixCI, eqCI_refl, if_true]
        apply strip_none_of_head
        intro c hc
        exact eqCI_of_isDigit (by decide) (natStr_digits v c (List.mem_of_mem_head? hc))
      · have : (" using protocol version ".toList ++ natStr v).drop d = (natStr v).drop (d - 24) := by
          rw [List.drop_append, List.drop_of_length_le (by simp; omega)]; simp
        rw [this, show " using protocol version ".toList = ' ' :: "using protocol version ".toList from rfl]
        apply strip_none_of_head
        intro c hc
        exact eqCI_of_isDigit (by decide)
          (natStr_digits v c (List.mem_of_mem_drop (List.mem_of_mem_head? hc)))
  unfold connK2
  rw [hnone]
  rfl

theorem seat_variant_chars {p : Seat} {seat : List Char} (hs : CaseVariant seat p.formal) :
    '\n' ∉ seat ∧ '"' ∉ seat := by
  have key : ∀ x : Char, lowerA x = x → x ∉ p.formal.map lowerA → x ∉ seat := by
    intro x hx hn hm
    apply hn
    rw [← hs, ← hx]
    exact List.mem_map_of_mem hm
  constructor
  · exact key _ (by decide) (by cases p <;> decide)
  · exact key _ (by decide) (by cases p <;> decide)

theorem capitalizeA_lowerS (s : List Char) : capitalizeA (lowerS s) = capitalizeA s := by
  cases s with
  | nil => rfl
  | cons c r =>
    simp only [lowerS, List.map_cons, capitalizeA, upperA_lowerA, List.map_map, List.cons.injEq, true_and]
    apply List.map_congr_left
    intro a _
    exact lowerA_lowerA a

theorem capitalize_variant {p : Seat} {seat : List Char} (hs : CaseVariant seat p.formal) :
    capitalizeA seat = p.formal := by
  rw [← capitalizeA_lowerS, hs.lowerS_eq]
  cases p <;> decide

theorem connK1_ok (team seat : List Char) (p : Seat) (hs : CaseVariant seat p.formal) (v : Nat) :
    connK1 team ("\" as ".toList ++ (seat ++ (" using protocol version ".toList ++ natStr v))) =
      some (team, seat, natStr v) := by
  unfold connK1
  rw [strip_self]
  exact dotStar_append seat _ (connK2 team) _ (seat_variant_chars hs).1 (connK2_ok team seat v)
    (fun d hd => connK2_longer team _ v d hd)

theorem connK1_longer (g seat : List Char) (p : Seat) (hs : CaseVariant seat p.formal) (v d : Nat)
    (hd : 0 < d) :
    connK1 g (("\" as ".toList ++ (seat ++ (" using protocol version ".toList ++ natStr v))).drop d) =
      none := by
  unfold connK1
  rw [show "\" as ".toList = '"' :: " as ".toList from rfl, strip_none_of_head]
  · rfl
  · intro c hc
    have hc := List.mem_of_mem_head? hc
    obtain ⟨d', rfl⟩ : ∃ d', d = d' + 1 := ⟨d - 1, by omega⟩
    simp only [List.cons_append, List.drop_succ_cons] at hc
    have hc := List.mem_of_mem_drop hc
    have hq : c ≠ '"' := by
      rintro rfl
      simp only [List.mem_append] at hc
      rcases hc with hc | hc | hc | hc
      · revert hc; decide
      · exact (seat_variant_chars hs).2 hc
      · revert hc; decide
      · have := natStr_digits v _ hc
        revert this; decide
    cases hq' : eqCI '"' c with
    | false => rfl
    | true =>
      simp only [eqCI, beq_iff_eq] at hq'
      exact absurd (foldC_eq_quote hq'.symm) hq

theorem parseConnect_ok (team : List Char) (ht : NameOK team) (p : Seat) (seat : List Char)
    (hs : CaseVariant seat p.formal) (v : Nat) :
    parseConnect? (connectMsg team seat v) = some (team, p, v) := by
  have := dotStar_append team ("\" as ".toList ++ (seat ++ (" using protocol version ".toList ++ natStr v)))
    connK1 _ ht.2.1 (connK1_ok team seat p hs v) (fun d hd => connK1_longer _ seat p hs v d hd)
  unfold connectMsg
  rewrite [parseConnect_eq]
  simp only [List.append_assoc, strip_self, this, capitalize_variant hs, decimal_natStr]
  cases p <;> rfl

end Bridge
