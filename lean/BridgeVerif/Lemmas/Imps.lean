import BridgeVerif.Model.Score
import BridgeVerif.Spec.Scoring
/-! Helper lemmas for C16: the threshold scan equals the count of thresholds reached. -/
namespace Bridge

def Asc : List Int → Prop
  | [] => True
  | [_] => True
  | a :: b :: r => a < b ∧ Asc (b :: r)

theorem asc_tail {a : Int} {l} (h : Asc (a :: l)) : Asc l := by
  cases l with
  | nil => trivial
  | cons b r => exact h.2

theorem asc_head_lt {a : Int} {l} (h : Asc (a :: l)) : ∀ x ∈ l, a < x := by
  induction l generalizing a with
  | nil => intro x hx; cases hx
  | cons b r ih =>
    intro x hx
    cases hx with
    | head => exact h.1
    | tail _ hx' => have h1 := ih (a := b) h.2 x hx'; have h2 := h.1; omega

theorem impCount_zero_of_lt (a : Int) (l : List Int) (h : ∀ x ∈ l, a < x) : impCount a l = 0 := by
  unfold impCount
  rw [List.length_eq_zero_iff, List.filter_eq_nil_iff]
  intro x hx; have := h x hx; simp; omega

theorem impScan_eq_count (a : Int) (l : List Int) (n : Nat) (h : Asc l) :
    impScan a l n = n + impCount a l := by
  induction l generalizing n with
  | nil => simp [impScan, impCount]
  | cons t ts ih =>
    unfold impScan
    split
    · rename_i hlt
      have : impCount a (t :: ts) = 0 := impCount_zero_of_lt a _ (by
        intro x hx
        cases hx with
        | head => exact hlt
        | tail _ hx' => have := asc_head_lt h x hx'; omega)
      omega
    · rename_i hge
      rw [ih _ (asc_tail h)]
      have : impCount a (t :: ts) = 1 + impCount a ts := by
        unfold impCount; simp [show t ≤ a by omega]; omega
      omega

theorem impCount_mono (a b : Int) (l : List Int) (h : a ≤ b) : impCount a l ≤ impCount b l := by
  unfold impCount
  induction l with
  | nil => simp
  | cons t ts ih =>
    simp only [List.filter_cons]
    by_cases h1 : t ≤ a
    · have h2 : t ≤ b := by omega
      simp [h1, h2]; exact ih
    · by_cases h2 : t ≤ b
      · simp [h1, h2]; omega
      · simp [h1, h2]; exact ih

theorem impCount_le_len (a : Int) (l : List Int) : impCount a l ≤ l.length :=
  List.length_filter_le _ _

theorem IMPS_LIST_asc : Asc IMPS_LIST := by simp [IMPS_LIST, Generated.Score.IMPS_LIST, Asc]

/-- the table in score.py *is* the official scale -/
theorem IMPS_LIST_is_official : IMPS_LIST = impThresholds := by decide

end Bridge
