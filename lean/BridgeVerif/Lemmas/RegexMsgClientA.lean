import BridgeVerif.Lemmas.RegexConnectA
/-!
# The regular expressions of the bundled client's parsers : general tools  (part A)

`Client.parse_team_names`, `Client.parse_board`, `Client.parse_leader_message` match (through
`MessageInterface.parse_match_base`, `re.IGNORECASE`)

* `Teams : N/S : "(.*)".? E/W : "(.*)"`
* `Board number (\d+)\. Dealer (.*)\. (.*) vulnerable\.`
* `(.*) to lead`

On top of `Lemmas/RegexConnectA.lean` (`rel_lits`, `rel_dotStar`) this file adds, in the `Rel` framework of
`Lemmas/RegexHandsA.lean`:
* the end of a pattern (`rel_end`) and a pattern that ends with a literal (`den_lits_last`);
* a `(\d+)` group in the MIDDLE of a pattern, followed by something that no digit can start (`rel_digits_mid`):
  backtracking into the digits never succeeds, so the group is `takeWhile isDigit`;
* the greedy optional `.?` (`rel_optAny`);
* a congruence for `dotStar` (`dotStar_congr`) and `eqCI '"' c ↔ c = '"'` for every character (`eqCI_quote`).
-/
namespace Bridge.RegexMsgClient
open Bridge Bridge.Re Bridge.RegexPbn Bridge.RegexHands Bridge.RegexConnect

/-! ### the end of the pattern -/
theorem rel_end (s : List Char) (N : Nat) : Rel s N N (kfin 0 false false) (fun _ => some []) := by
  intro pos rest caps _ hl
  have e : (texts s caps).take N = texts s caps := by
    rw [List.take_of_length_le]; simp [texts, hl]
  simp [kfin, absRes, e]

theorem denLits_append (ic : Bool) (K : St → Re.Res St) : ∀ (p q : List Char),
    denLits ic (p ++ q) K = denLits ic p (denLits ic q K) := by
  intro p
  induction p with
  | nil => intro q; rfl
  | cons c p ih => intro q; funext st; simp only [List.cons_append, denLits, ih]

/-- a run of literals whose last one closes the pattern (the parser does not append `eps`) -/
theorem den_lits_last (ic : Bool) (k : St → Re.Res St) (p : List Char) (c : Char) :
    den ic (lits p (.lit c)) k = denLits ic (p ++ [c]) k := by
  funext st
  rw [den_lits, denLits_append]
  rfl

/-! ### the greedy star when every shorter run fails -/
theorem scanUp_last {α : Type} (p : Char → Bool) (g : Nat → Option α) : ∀ (rest : List Char) (m : Nat),
    (∀ i, i < (rest.takeWhile p).length → g (m + i) = none) →
    scanUp p g m rest = g (m + (rest.takeWhile p).length) := by
  intro rest
  induction rest with
  | nil => intro m _; simp [scanUp]
  | cons x xs ih =>
    intro m h
    by_cases hp : p x = true
    · have e : ((x :: xs).takeWhile p) = x :: xs.takeWhile p := by simp [List.takeWhile, hp]
      rw [e] at h ⊢
      have h0 : g m = none := by simpa using h 0 (by simp)
      have h1 := ih (m + 1) (fun i hi => by
        have := h (i + 1) (by simp; omega)
        rw [show m + 1 + i = m + (i + 1) by omega]; exact this)
      simp only [scanUp, hp, if_true, h1, h0, Option.or_none, List.length_cons]
      congr 1; omega
    · simp only [Bool.not_eq_true] at hp
      simp [scanUp, hp, List.takeWhile]

theorem drop_in_takeWhile (p : Char → Bool) : ∀ (xs : List Char) (i : Nat), i < (xs.takeWhile p).length →
    ∃ y ys, xs.drop i = y :: ys ∧ p y = true := by
  intro xs
  induction xs with
  | nil => intro i h; simp at h
  | cons x xs ih =>
    intro i h
    by_cases hp : p x = true
    · cases i with
      | zero => exact ⟨x, xs, rfl, hp⟩
      | succ i =>
        have e : ((x :: xs).takeWhile p) = x :: xs.takeWhile p := by simp [List.takeWhile, hp]
        rw [e] at h
        simp only [List.length_cons] at h
        exact ih i (by omega)
    · simp only [Bool.not_eq_true] at hp
      simp [List.takeWhile, hp] at h

/-! ### `(\d+)` in the middle -/
/-- the scanner: the longest run of ASCII digits, non-empty, then the continuation -/
def digitsThen (cont : List Char → Option (List (List Char))) (r : List Char) : Option (List (List Char)) :=
  if r.takeWhile Bridge.isDigit = [] then none
  else (cont (r.drop (r.takeWhile Bridge.isDigit).length)).map fun gs => r.takeWhile Bridge.isDigit :: gs

theorem rel_digits_mid (ic : Bool) (s : List Char) (hs : ∀ x ∈ s, Re.isDigit x = Bridge.isDigit x) (N j : Nat)
    (hj : j < N) (K' : St → Re.Res St) (cont : List Char → Option (List (List Char)))
    (h : Rel s N (j + 1) K' cont) (hcont : ∀ x xs, Bridge.isDigit x = true → cont (x :: xs) = none) :
    Rel s N j (den ic (digG (j + 1)) K') (digitsThen cont) := by
  intro pos rest caps hd hl
  have hsub : ∀ x ∈ rest, x ∈ s := by
    intro x hx
    rw [← hd] at hx
    exact List.mem_of_mem_drop hx
  have hden : den ic (digG (j + 1)) K' ⟨pos, rest, caps⟩ =
      repDen Bridge.isDigit 1 none
        (fun st' => K' { st' with caps := st'.caps.set j (some (pos, st'.pos)) }) caps 0 pos rest := by
    simp only [den, digG, charPred, setCap, digit_pred]
    exact repDen_pred _ _ _ _ _ _ rest 0 pos (fun x hx => hs x (hsub x hx))
  rw [hden]
  unfold digitsThen
  cases rest with
  | nil => simp [repDen, absRes]
  | cons x xs =>
    by_cases hx : Bridge.isDigit x = true
    · have hdrop : s.drop (pos + 1) = xs := drop_succ_of_cons s pos x xs hd
      simp only [repDen, Nat.lt_add_one, if_true, hx, Nat.zero_add]
      rw [repDen_min _ 1 _ _ xs 1 (pos + 1) (Nat.le_refl _)]
      have hk : ∀ m, absRes s ((fun st' : St => K' { st' with caps := st'.caps.set j (some (pos, st'.pos)) })
            ⟨pos + 1 + m, xs.drop m, caps⟩)
          = some (((cont (xs.drop m)).map fun gs => (x :: xs).take (m + 1) :: gs).map
              fun gs => (texts s caps).take j ++ gs.map some) := by
        intro m
        have hdrop' : s.drop (pos + 1 + m) = xs.drop m := by rw [← List.drop_drop, hdrop]
        have := h (pos + 1 + m) (xs.drop m) (caps.set j (some (pos, pos + 1 + m))) hdrop' (by simp [hl])
        rw [this, show pos + 1 + m = pos + (m + 1) by omega, texts_set s caps j pos (m + 1) (by omega), hd]
        cases cont (xs.drop m) <;> simp
      have h1 := star_scanUp s (fun gs => (texts s caps).take j ++ gs.map some) Bridge.isDigit
        (fun st' : St => K' { st' with caps := st'.caps.set j (some (pos, st'.pos)) }) caps (pos + 1) xs
        (fun m => (cont (xs.drop m)).map fun gs => (x :: xs).take (m + 1) :: gs) hk xs 0 1 rfl
      rw [scanUp_last Bridge.isDigit _ xs 0 (fun i hi => by
        obtain ⟨y, ys, e, hy⟩ := drop_in_takeWhile Bridge.isDigit xs i hi
        simp only [Nat.zero_add, e, hcont y ys hy, Option.map_none])] at h1
      simp only [Nat.add_zero, Nat.zero_add] at h1
      rw [h1]
      have e4 : ((x :: xs).takeWhile Bridge.isDigit) = x :: xs.takeWhile Bridge.isDigit := by
        simp [List.takeWhile, hx]
      rw [e4]
      simp only [List.length_cons, List.drop_succ_cons, List.take_succ_cons, take_length_takeWhile,
        reduceCtorEq, if_false]
    · simp only [Bool.not_eq_true] at hx
      simp [repDen, hx, List.takeWhile, absRes]

/-! ### the greedy optional `.?` -/
/-- the scanner: first try to consume one character other than a line feed -/
def optAny (cont : List Char → Option (List (List Char))) (r : List Char) : Option (List (List Char)) :=
  match r with
  | c :: r' => if c ≠ '\n' then (cont r').or (cont r) else cont r
  | [] => cont r

def optAnyRe : Re := .rep 0 (some 1) .any

theorem repDen_one (p : Char → Bool) (K : St → Re.Res St) (caps : Caps) (pos : Nat) (xs : List Char) :
    repDen p 0 (some 1) K caps 1 pos xs = K ⟨pos, xs, caps⟩ := by
  cases xs <;> simp [repDen, mxOk]

theorem rel_optAny (ic : Bool) (s : List Char) (N j : Nat) (K : St → Re.Res St)
    (cont : List Char → Option (List (List Char))) (h : Rel s N j K cont) :
    Rel s N j (den ic optAnyRe K) (optAny cont) := by
  intro pos rest caps hd hl
  have hden : den ic optAnyRe K ⟨pos, rest, caps⟩ = repDen notNl 0 (some 1) K caps 0 pos rest := by
    simp only [den, optAnyRe, charPred]; rfl
  rw [hden]
  cases rest with
  | nil => simpa [repDen, optAny] using h pos [] caps hd hl
  | cons x xs =>
    have h0 := h pos (x :: xs) caps hd hl
    have h1 := h (pos + 1) xs caps (drop_succ_of_cons s pos x xs hd) hl
    by_cases hx : x = '\n'
    · subst hx
      simpa [repDen, mxOk, notNl, optAny] using h0
    · have hn : notNl x = true := by simp [notNl, hx]
      simp only [repDen, Nat.not_lt_zero, if_false, mxOk, Nat.lt_add_one, decide_true, if_true, hn, optAny,
        ne_eq, hx, not_false_eq_true, Nat.zero_add]
      rw [repDen_one]
      exact absRes_orFail s _ _ _ _ _ h1 h0

/-! ### `dotStar` only looks at splits of its subject -/
theorem greedy_congr {α : Type} (s : List Char) (k k' : List Char → List Char → Option α)
    (h : ∀ m, k (s.take m) (s.drop m) = k' (s.take m) (s.drop m)) : ∀ n, greedy s k n = greedy s k' n := by
  intro n
  induction n with
  | zero => simpa [greedy] using h 0
  | succ n ih => simp only [greedy, h (n + 1), ih]

theorem dotStar_congr {α : Type} (s : List Char) (k k' : List Char → List Char → Option α)
    (h : ∀ m, k (s.take m) (s.drop m) = k' (s.take m) (s.drop m)) : dotStar s k = dotStar s k' :=
  greedy_congr s k k' h _

/-! ### the double quote folds onto nothing else -/
theorem foldC_quote_ascii : ∀ n : Fin 128, foldC (Char.ofNat n.val) = '"' → Char.ofNat n.val = '"' := by
  decide +kernel

theorem foldC_quote (c : Char) (h : foldC c = '"') : c = '"' := by
  by_cases hc : c.toNat < 128
  · have := foldC_quote_ascii ⟨c.toNat, hc⟩
    simp only [Char.ofNat_toNat] at this
    exact this h
  · unfold foldC at h
    split at h
    · exact absurd h (by decide)
    · split at h
      · exact absurd h (by decide)
      · split at h
        · exact absurd h (by decide)
        · split at h
          · exact absurd h (by decide)
          · unfold lowerA at h
            split at h
            · rename_i hz
              have : c.toNat ≤ 90 := hz.2
              omega
            · subst h
              exact absurd (by decide) hc

theorem eqCI_quote (c : Char) : eqCI '"' c = (c == '"') := by
  rw [Bool.eq_iff_iff]
  simp only [eqCI, beq_iff_eq]
  constructor
  · intro h
    exact foldC_quote c (by rw [← h]; decide)
  · intro h; subst h; rfl

theorem stripPrefixCI_quote (t : List Char) :
    stripPrefixCI ['"'] t = (match t with | '"' :: t2 => some t2 | _ => none) := by
  cases t with
  | nil => rfl
  | cons c cs =>
    simp only [stripPrefixCI, eqCI_quote]
    by_cases hc : c = '"'
    · subst hc; rfl
    · simp only [beq_iff_eq, hc, if_false]
      split
      · rename_i heq; cases heq; exact absurd rfl hc
      · rfl

end Bridge.RegexMsgClient
