import BridgeVerif.Lemmas.Msg
/-! Helper lemmas for C19: call and card messages in any letter case, alert suffix. -/
namespace Bridge

theorem eqCI_lowerA_left (c a : Char) : eqCI (lowerA c) a = eqCI c a := by
  simp only [eqCI, foldC_lowerA]

theorem takeWhile_lowerS (r : List Char) :
    (lowerS r).takeWhile (· ≠ '\n') = lowerS (r.takeWhile (· ≠ '\n')) := by
  unfold lowerS
  rw [List.takeWhile_map]
  congr 2
  funext c
  simp [lowerA_eq_nl]

theorem upperS_lowerS (s : List Char) : upperS (lowerS s) = upperS s := by
  simp [upperS, lowerS, upperA_lowerA]

/-! ### calls -/
def bidSuit (rest : List Char) : Option Suit :=
  match rest with
  | c :: r =>
    if eqCI c 'C' then some .C else if eqCI c 'D' then some .D else if eqCI c 'H' then some .H
    else if eqCI c 'S' then some .S
    else if eqCI c 'N' then (match r with | t :: _ => if eqCI t 'T' then some .NT else none | [] => none)
    else none
  | [] => none

def bidAs (name content : List Char) : Option (Option Call) :=
  match stripPrefixCI (name ++ " bids ".toList) content with
  | some (d :: rest) =>
    if isDigit d then
      (bidSuit rest).map fun su => levelSuitToCall? (d.toNat - '0'.toNat : Nat) su
    else none
  | _ => none

def bidWord (name content : List Char) : Option Call :=
  match stripPrefixCI (name ++ [' ']) content with
  | none => none
  | some r =>
    let w := lowerS (r.takeWhile (· ≠ '\n'))
    if w = "passes".toList then some .pass else if w = "doubles".toList then some .dbl
    else if w = "redoubles".toList then some .rdbl else none

theorem parseBid_eq (content name : List Char) :
    parseBid? content name =
      match bidAs name content with
      | some r => r
      | none => bidWord name content := rfl

theorem bidSuit_lowerS (rest : List Char) : bidSuit (lowerS rest) = bidSuit rest := by
  cases rest with
  | nil => rfl
  | cons c r =>
    cases r with
    | nil => simp only [lowerS, List.map_cons, List.map_nil, bidSuit, eqCI_lowerA_left]
    | cons t r => simp only [lowerS, List.map_cons, bidSuit, eqCI_lowerA_left]

theorem bidAs_lowerS (name m : List Char) : bidAs name (lowerS m) = bidAs name m := by
  unfold bidAs
  rw [strip_lowerS]
  cases stripPrefixCI (name ++ " bids ".toList) m with
  | none => rfl
  | some r =>
    cases r with
    | nil => rfl
    | cons d rest =>
      simp only [Option.map_some]
      show (if isDigit (lowerA d) then _ else _) = _
      rw [isDigit_lowerA]
      by_cases hd : isDigit d = true
      · simp only [hd, if_true, lowerA_of_isDigit hd]
        show Option.map _ (bidSuit (lowerS rest)) = _
        rw [bidSuit_lowerS]
      · simp [hd]

theorem bidWord_lowerS (name m : List Char) : bidWord name (lowerS m) = bidWord name m := by
  unfold bidWord
  rw [strip_lowerS]
  cases stripPrefixCI (name ++ [' ']) m with
  | none => rfl
  | some r => simp only [Option.map_some, takeWhile_lowerS, lowerS_lowerS]

theorem parseBid_lowerS (m name : List Char) : parseBid? (lowerS m) name = parseBid? m name := by
  rw [parseBid_eq, parseBid_eq, bidAs_lowerS, bidWord_lowerS]

theorem parseBid_canonical :
    ∀ c ∈ Call.all, ∀ p ∈ Seat.all, parseBid? (lowerS (bidMsg c p.formal)) p.formal = some c := by
  decide +kernel

theorem seat_mem_all (p : Seat) : p ∈ Seat.all := by cases p <;> decide

theorem call_mem_all (c : Call) : c ∈ Call.all := by
  cases c with
  | pass => decide
  | dbl => decide
  | rdbl => decide
  | bid i =>
    have : ∀ i : Fin 35, Call.bid i ∈ Call.all := by decide
    exact this i

/-! ### cards -/
theorem parseCard_lowerS (m : List Char) (p : Seat) : parseCard? (lowerS m) p = parseCard? m p := by
  unfold parseCard?
  rw [strip_lowerS]
  cases stripPrefixCI (p.formal ++ " plays ".toList) m with
  | none => rfl
  | some r => simp only [Option.map_some, takeWhile_lowerS, upperS_lowerS]

theorem parseCard_canonical :
    ∀ c ∈ Card.deck, ∀ p ∈ Seat.all, ∀ b : Bool, parseCard? (lowerS (playMsg p c b)) p = some c := by
  decide +kernel

/-! ### alert suffix -/
/-- every white-space character is followed by a character that is neither white space nor an `A` -/
def alertSafe : List Char → Bool
  | [] => true
  | c :: r =>
    (if isWs c then (match r with | [] => false | x :: _ => !isWs x && !eqCI 'A' x) else true) && alertSafe r

theorem alertSafe_lowerS (m : List Char) : alertSafe (lowerS m) = alertSafe m := by
  induction m with
  | nil => rfl
  | cons c r ih =>
    simp only [lowerS, List.map_cons] at ih ⊢
    cases r with
    | nil => simp only [List.map_nil, alertSafe, isWs_lowerA]
    | cons x r' =>
      simp only [List.map_cons] at ih ⊢
      rw [alertSafe, ih]
      conv => rhs; rw [alertSafe]
      simp only [isWs_lowerA, eqCI_lowerA]

theorem alertSafe_canonical :
    ∀ c ∈ Call.all, ∀ p ∈ Seat.all, alertSafe (lowerS (bidMsg c p.formal)) = true := by
  decide +kernel

theorem removeAlertAux_nil (fuel : Nat) : removeAlertAux fuel [] = [] := by
  cases fuel <;> rfl

theorem removeAlertAux_safe (m rest : List Char) (fuel : Nat) (hs : alertSafe m = true)
    (hf : m.length ≤ fuel) :
    removeAlertAux fuel (m ++ rest) = m ++ removeAlertAux (fuel - m.length) rest := by
  induction m generalizing fuel with
  | nil => simp
  | cons c r ih =>
    obtain ⟨f, rfl⟩ : ∃ f, fuel = f + 1 := ⟨fuel - 1, by simp at hf; omega⟩
    simp only [alertSafe, Bool.and_eq_true] at hs
    have ih' := ih f hs.2 (by simp at hf; omega)
    simp only [List.cons_append, removeAlertAux, List.length_cons, Nat.add_sub_add_right]
    by_cases hc : isWs c = true
    · simp only [hc, if_true] at hs ⊢
      cases r with
      | nil => simp at hs
      | cons x r' =>
        have hx := hs.1
        simp only [Bool.and_eq_true, Bool.not_eq_eq_eq_not, Bool.not_true] at hx
        have hd : (c :: (x :: r' ++ rest)).dropWhile isWs = x :: (r' ++ rest) := by
          simp [hc, hx.1]
        rw [hd, show "Alert.".toList = 'A' :: "lert.".toList from rfl]
        simp only [stripPrefixCI, hx.2]
        rw [ih']
        rfl
    · simp only [hc]
      rw [ih']
      rfl

theorem dropWhile_ws (ws rest : List Char) (h : AllWs ws) (hr : ∀ c ∈ rest.head?, isWs c = false) :
    (ws ++ rest).dropWhile isWs = rest := by
  induction ws with
  | nil =>
    cases rest with
    | nil => rfl
    | cons c rest => simp [hr c (by simp)]
  | cons c ws ih =>
    have hc : isWs c = true := h c (by simp)
    simp only [List.cons_append, List.dropWhile_cons, hc, if_true]
    exact ih fun x hx => h x (List.mem_cons_of_mem _ hx)

theorem removeAlertAux_suffix (ws1 al ws2 : List Char) (h1 : ws1 ≠ [] ∧ AllWs ws1)
    (hal : CaseVariant al "Alert.".toList) (h2 : AllWs ws2) (fuel : Nat) (hf : 0 < fuel) :
    removeAlertAux fuel (ws1 ++ al ++ ws2) = [] := by
  obtain ⟨f, rfl⟩ : ∃ f, fuel = f + 1 := ⟨fuel - 1, by omega⟩
  obtain ⟨hne, hws⟩ := h1
  cases ws1 with
  | nil => exact absurd rfl hne
  | cons c w =>
    have hc : isWs c = true := hws c (by simp)
    have hd : (c :: w ++ al ++ ws2).dropWhile isWs = al ++ ws2 := by
      rw [List.append_assoc]
      apply dropWhile_ws _ _ hws
      intro a ha
      cases al with
      | nil => simp [CaseVariant] at hal
      | cons a' al' =>
        simp only [List.cons_append, List.head?_cons, Option.mem_def, Option.some.injEq] at ha
        subst ha
        have : lowerA a' = 'a' := by
          have := hal
          simp only [CaseVariant, List.map_cons] at this
          exact (List.cons.inj this).1
        rw [← isWs_lowerA, this]; decide
    have hw2 : ws2.dropWhile isWs = [] := by
      clear hd
      induction ws2 with
      | nil => rfl
      | cons x r ih =>
        rw [List.dropWhile_cons, if_pos (h2 x (by simp))]
        exact ih fun y hy => h2 y (List.mem_cons_of_mem _ hy)
    show removeAlertAux (f + 1) (c :: (w ++ al ++ ws2)) = []
    simp only [removeAlertAux, hc, if_true]
    rw [show c :: (w ++ al ++ ws2) = c :: w ++ al ++ ws2 from rfl, hd, strip_variant ws2 hal]
    simp only [hw2, removeAlertAux_nil]

theorem containsSub_mid (n a b : List Char) : containsSub n (a ++ (n ++ b)) = true := by
  unfold containsSub
  rw [List.any_eq_true]
  refine ⟨a.length, by simp; omega, ?_⟩
  rw [List.drop_left, List.isPrefixOf_iff_prefix]
  exact List.prefix_append n b

theorem preprocessBid_alert (c : Call) (p : Seat) (m ws1 al ws2 : List Char)
    (hm : CaseVariant m (bidMsg c p.formal)) (h1 : ws1 ≠ [] ∧ AllWs ws1)
    (hal : CaseVariant al "Alert.".toList) (h2 : AllWs ws2) :
    preprocessBid (m ++ ws1 ++ al ++ ws2) = m := by
  have hsafe : alertSafe m = true := by
    rw [← alertSafe_lowerS, hm.lowerS_eq]
    exact alertSafe_canonical c (call_mem_all c) p (seat_mem_all p)
  have hcont : containsSub "alert".toList (lowerS (m ++ ws1 ++ al ++ ws2)) = true := by
    have : lowerS (m ++ ws1 ++ al ++ ws2) =
        lowerS (m ++ ws1) ++ ("alert".toList ++ ('.' :: lowerS ws2)) := by
      rw [lowerS_append, lowerS_append, hal.lowerS_eq, List.append_assoc]
      rfl
    rw [this]
    exact containsSub_mid _ _ _
  unfold preprocessBid
  rw [if_pos hcont, removeAlert]
  have := removeAlertAux_safe m (ws1 ++ al ++ ws2) ((m ++ ws1 ++ al ++ ws2).length + 1) hsafe
    (by simp; omega)
  simp only [List.append_assoc] at this ⊢
  rw [this]
  have h3 := removeAlertAux_suffix ws1 al ws2 h1 hal h2
    ((m ++ (ws1 ++ (al ++ ws2))).length + 1 - m.length) (by simp; omega)
  simp only [List.append_assoc] at h3
  rw [h3, List.append_nil]

end Bridge
