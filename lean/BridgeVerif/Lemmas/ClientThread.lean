import BridgeVerif.Model.ClientThread
import BridgeVerif.Lemmas.Replica
import BridgeVerif.Lemmas.SessionC08
import BridgeVerif.Lemmas.SessionC10
import BridgeVerif.Props.C03
import BridgeVerif.Props.C04
import BridgeVerif.Props.C05
import BridgeVerif.Props.C19
/-!
# The reactive bundled client (`Model/ClientThread.lean`) performs the straight-line client program of the session model

Fed the messages the seat thread of `p` sends it in a session (`sendsOn (s2c p) (sessionProg sc (.seat p))`) and the
decisions its bidding / playing systems return (`scenarioOwnCalls`, `scenarioOwnCards`), the client as the Python writes
it — parsing the header, its cards, every relayed call and card, the lead prompts and dummy's cards, keeping its own
auction and play replicas — performs exactly `sessionProg sc (.client p)`.

(This file imports neither `Lemmas/SeatThread.lean` nor `Lemmas/MainThread.lean`, so that it can be used next to either;
the few helper lemmas it shares with them are re-proved under `cl…` names.)
-/
namespace Bridge

/-! ## the decisions of seat `p` -/

/-- the calls seat `p` makes on a board: the calls at the positions `j` with `dealer.rot j = p` -/
def ownCalls (p dealer : Seat) : Nat → List (Call × Text) → List Call
  | _, [] => []
  | j, (c, _) :: rest => (if dealer.rot j = p then [c] else []) ++ ownCalls p dealer (j + 1) rest

/-- the cards seat `p` SENDS on a board (its own, and dummy's when it declares): the cards at the positions whose seat
on turn `a` has `senderOf decl a = p`; `s` = the public play state before the first card of the list -/
def ownCards (p decl : Seat) : PState → List (Card × Text) → List Card
  | _, [] => []
  | s, (c, _) :: rest => (if senderOf decl s.active = p then [c] else []) ++ ownCards p decl (playCard s c) rest

/-- the cards seat `p` sends on the board `(b, d)` (none when the board is passed out) -/
def boardOwnCards (p : Seat) (b : BoardSetting) (d : Decisions) : List Card :=
  match PState.init (boardContract b d), (boardContract b d).declarer with
  | some s0, some decl => ownCards p decl s0 d.cards
  | _, _ => []

def scenarioOwnCalls (sc : Scenario) (p : Seat) : List Call :=
  sc.boards.flatMap fun bd => ownCalls p bd.1.dealer 0 bd.2.calls

def scenarioOwnCards (sc : Scenario) (p : Seat) : List Card :=
  sc.boards.flatMap fun bd => boardOwnCards p bd.1 bd.2

/-- seat `p` is played by the bundled client on the board `(b, d)` -/
def BundledBoard (p : Seat) (b : BoardSetting) (d : Decisions) : Prop :=
  (∀ j (h : j < d.calls.length), b.dealer.rot j = p → d.calls[j].2 = bidMsg d.calls[j].1 p.formal) ∧
  (∀ s0 decl, PState.init (boardContract b d) = some s0 → (boardContract b d).declarer = some decl →
    ∀ j (h : j < d.cards.length),
      senderOf decl (runPlay s0 ((d.cards.take j).map (·.1))).active = p →
      d.cards[j].2 = playMsg (runPlay s0 ((d.cards.take j).map (·.1))).active d.cards[j].1 false)

/-- seat `p` is played by the bundled client: for every board, the text of every call of `p` is
`bidMsg c p.formal`, and the text of every card `p` sends (for the seat `a` on turn: itself, or dummy when `p`
declares) is `playMsg a c false` (rank then suit).  (The "ready" acknowledgements of the session model are already
the bundled client's: `readyFor …`.) -/
def BundledTexts (sc : Scenario) (p : Seat) : Prop :=
  ∀ bd ∈ sc.boards, BundledBoard p bd.1 bd.2

/-! ## step-wise forms of the text hypotheses -/

def CallsBundled (p dealer : Seat) (j : Nat) (l : List (Call × Text)) : Prop :=
  ∀ k (h : k < l.length), dealer.rot (j + k) = p → l[k].2 = bidMsg l[k].1 p.formal

theorem callsBundled_cons {p dealer : Seat} {j : Nat} {c : Call} {t : Text} {l : List (Call × Text)}
    (h : CallsBundled p dealer j ((c, t) :: l)) :
    (dealer.rot j = p → t = bidMsg c p.formal) ∧ CallsBundled p dealer (j + 1) l := by
  refine ⟨fun e => h 0 (by simp) (by simpa using e), ?_⟩
  intro k hk e
  have := h (k + 1) (by simp; omega) (by rw [← e]; congr 1; omega)
  simpa using this

def CardsBundled (p decl : Seat) (s : PState) (l : List (Card × Text)) : Prop :=
  ∀ k (h : k < l.length), senderOf decl (runPlay s ((l.take k).map (·.1))).active = p →
    l[k].2 = playMsg (runPlay s ((l.take k).map (·.1))).active l[k].1 false

theorem cardsBundled_cons {p decl : Seat} {s : PState} {c : Card} {t : Text} {l : List (Card × Text)}
    (h : CardsBundled p decl s ((c, t) :: l)) :
    (senderOf decl s.active = p → t = playMsg s.active c false) ∧ CardsBundled p decl (playCard s c) l := by
  refine ⟨fun e => ?_, ?_⟩
  · have := h 0 (by simp) (by simpa using e)
    simpa using this
  · intro k hk e
    have := h (k + 1) (by simp; omega) (by simpa using e)
    simpa using this

/-! ## the two streams of a phase seen from the client of seat `p` -/

/-- what the client of seat `p` does during a phase -/
def kOf (p : Seat) (ph : Phase Text LogOp) : ClientActs := phaseProg ph (.client p)

@[simp] theorem clientIn_recv_cons (m : Text) (r : List Text) (cl : List Call) (cd : List Card) :
    ClientIn.recv { s := m :: r, calls := cl, cards := cd } = some (m, { s := r, calls := cl, cards := cd }) := rfl
@[simp] theorem clientIn_nextCall_cons (s : List Text) (c : Call) (cl : List Call) (cd : List Card) :
    ClientIn.nextCall { s := s, calls := c :: cl, cards := cd } = some (c, { s := s, calls := cl, cards := cd }) := rfl
@[simp] theorem clientIn_nextCard_cons (s : List Text) (cl : List Call) (c : Card) (cd : List Card) :
    ClientIn.nextCard { s := s, calls := cl, cards := c :: cd } = some (c, { s := s, calls := cl, cards := cd }) := rfl

theorem s2cOf_call (p a : Seat) (name bid relay : Text) (ready : Seat → Text) :
    s2cOf p (.call a name bid relay ready) = if p = a then [] else [relay] := by
  by_cases h : p = a <;> simp [s2cOf, phaseProg, sendsOn, h]

theorem kOf_call (p a : Seat) (name bid relay : Text) (ready : Seat → Text) :
    kOf p (.call a name bid relay ready) =
      if p = a then [.send (.c2s p) bid] else [.send (.c2s p) (ready p), .recv (.s2c p)] := rfl

/-- what the seat thread sends during a card phase: the lead prompt, the relayed card, dummy's cards -/
theorem s2cOf_card3 (p a d : Seat) (lead opening : Bool) (ln prompt card : Text) (ready rd : Seat → Text)
    (dc : Text) :
    s2cOf p (.card a d lead opening ln prompt card ready rd dc) =
      (if lead = true ∧ p = cardPlayer a d then [prompt] else []) ++
      ((if p = cardPlayer a d then [] else [card]) ++
       (if opening = true ∧ p ≠ d.partner then [dc] else [])) := by
  rw [s2cOf_card, ← List.append_assoc]
  congr 1
  by_cases h : p = cardPlayer a d
  · subst h
    cases lead <;> simp
  · have h' : ¬ cardPlayer a d = p := fun e => h e.symm
    cases lead <;> simp [h, h']

/-- what the client does during a card phase: takes the lead prompt, sends the card or acknowledges, acknowledges
dummy -/
theorem kOf_card3 (p a d : Seat) (lead opening : Bool) (ln prompt card : Text) (ready rd : Seat → Text)
    (dc : Text) :
    kOf p (.card a d lead opening ln prompt card ready rd dc) =
      (if lead = true ∧ p = cardPlayer a d then [.recv (.s2c p)] else []) ++
      ((if p = cardPlayer a d then [.send (.c2s p) card] else [.send (.c2s p) (ready p), .recv (.s2c p)]) ++
       (if opening = true ∧ p ≠ d.partner then [.send (.c2s p) (rd p), .recv (.s2c p)] else [])) := by
  simp only [kOf, phaseProg]
  rw [← List.append_assoc]
  congr 1
  by_cases h : p = cardPlayer a d <;> cases lead <;> simp [h]

/-! ## deal -/

theorem hand_parse (name : Text) (hand : List Card) (hok : HandOK hand) :
    ∃ l, (parseCards? (cardsMsg name hand) name).bind parseHand? = some l ∧ l.Perm hand := by
  obtain ⟨h1, l, h2, h3⟩ := C19.hand_msg_round_trip name hand hok
  exact ⟨l, by rw [h1]; exact h2, h3⟩

theorem clientDealR_run (p : Seat) (k : Nat) (b : BoardSetting) (hand : List Card)
    (hh : (parseCards? (cardsMsg p.formal (b.deal p)) p.formal).bind parseHand? = some hand)
    (tail : List Text) (cl : List Call) (cd : List Card) :
    clientDealR p { s := boardHeader k b.dealer b.vul :: cardsMsg p.formal (b.deal p) :: tail,
                    calls := cl, cards := cd } =
      some ([.send (.c2s p) (readyFor p "deal".toList), .recv (.s2c p),
             .send (.c2s p) (readyFor p "cards".toList), .recv (.s2c p)],
            (k, b.dealer, b.vul), hand, { s := tail, calls := cl, cards := cd }) := by
  simp only [clientDealR, clientIn_recv_cons, Option.bind_eq_bind, Option.bind_some,
    C19.board_header_round_trip, hh, Option.pure_def]

/-! ## auction -/

/-- one iteration of `bidding_phase` -/
theorem clientBiddingR_step (p a : Seat) (fuel : Nat) (s s' : AState) (c : Call) (text : Text) (r : Res)
    (hact : s.active = some a) (hE : takeBid s c = .ok (s', r)) (hr : r ≠ .illegal)
    (hparse : parseBid? (preprocessBid text) a.formal = some c) (hb : a = p → text = bidMsg c p.formal)
    (S : List Text) (CL cl : List Call) (cd : List Card) (hCL : CL = (if a = p then [c] else []) ++ cl) :
    clientBiddingR p (fuel + 1) s
        { s := s2cOf p (Phase.call a a.formal text (preprocessBid text)
                  (fun q => readyFor q (a.formal ++ "'s bid".toList))) ++ S,
          calls := CL, cards := cd } =
      if r = .finished then
        some (kOf p (Phase.call a a.formal text (preprocessBid text)
                  (fun q => readyFor q (a.formal ++ "'s bid".toList))), s', { s := S, calls := cl, cards := cd })
      else
        (clientBiddingR p fuel s' { s := S, calls := cl, cards := cd }).bind fun x =>
          some (kOf p (Phase.call a a.formal text (preprocessBid text)
                  (fun q => readyFor q (a.formal ++ "'s bid".toList))) ++ x.1, x.2) := by
  subst hCL
  simp only [s2cOf_call, kOf_call, clientBiddingR, hact]
  by_cases hp : a = p
  · have ht := hb hp
    subst hp
    simp only [if_true, List.nil_append, List.cons_append, clientIn_nextCall_cons, Option.bind_eq_bind,
      Option.bind_some, Option.pure_def, ← ht, hE]
    cases r with
    | illegal => exact absurd rfl hr
    | finished => simp
    | ongoing => simp
  · have hp' : ¬ p = a := fun e => hp e.symm
    simp only [if_neg hp, if_neg hp', List.nil_append, List.cons_append, clientIn_recv_cons,
      Option.bind_eq_bind, Option.bind_some, Option.pure_def, hparse, hE]
    cases r with
    | illegal => exact absurd rfl hr
    | finished => simp
    | ongoing => simp

theorem clientBidding_run (p d : Seat) (v : Vul) (tail : List Text) (cl : List Call) (cd : List Card) :
    ∀ (l : List (Call × Text)) (j : Nat) (s : AState) (h : List Call) (fuel : Nat),
    AInv d v s h → h.length = j →
    Legal d ((l.map (·.1)).reverse ++ h) → over ((l.map (·.1)).reverse ++ h) = true →
    (∀ k (hk : k < l.length), parseBid? (preprocessBid l[k].2) (d.rot (j + k)).formal = some l[k].1) →
    CallsBundled p d j l →
    l.length < fuel →
    ∃ sf, AInv d v sf ((l.map (·.1)).reverse ++ h) ∧
      clientBiddingR p fuel s { s := (callPhases d j l).flatMap (s2cOf p) ++ tail,
                                calls := ownCalls p d j l ++ cl, cards := cd } =
        some ((callPhases d j l).flatMap (kOf p), sf, { s := tail, calls := cl, cards := cd }) := by
  intro l
  induction l with
  | nil =>
    intro j s h fuel hi hj hleg hov _ _ hfuel
    simp only [List.map_nil, List.reverse_nil, List.nil_append] at hleg hov ⊢
    obtain ⟨fuel, rfl⟩ : ∃ f, fuel = f + 1 := ⟨fuel - 1, by simp at hfuel; omega⟩
    have hact : s.active = none := by simp [hi.act, hov]
    refine ⟨s, hi, ?_⟩
    simp [clientBiddingR, hact, callPhases, ownCalls]
  | cons x l ih =>
    intro j s h fuel hi hj hleg hov hparse hbun hfuel
    obtain ⟨c, text⟩ := x
    obtain ⟨fuel, rfl⟩ : ∃ f, fuel = f + 1 := ⟨fuel - 1, by simp at hfuel; omega⟩
    have e : (((c, text) :: l).map (·.1)).reverse ++ h = (l.map (·.1)).reverse ++ (c :: h) := by simp
    rw [e] at hleg hov ⊢
    have hl1 := legal_of_append d _ (c :: h) hleg
    cases hl1 with
    | cons hlh hovh hlegc =>
      have hact : s.active = some (d.rot j) := by simp [hi.act, hovh, hj]
      obtain ⟨s', hE, hi'⟩ := (take_bid_refines d v s h hi c).2.2 hovh hlegc
      have h0 : parseBid? (preprocessBid text) (d.rot j).formal = some c := by
        have := hparse 0 (by simp); simpa using this
      obtain ⟨hb0, hbun'⟩ := callsBundled_cons hbun
      have hstep := clientBiddingR_step p (d.rot j) fuel s s' c text _ hact hE (by split <;> simp) h0
        (fun e => hb0 e) ((callPhases d (j + 1) l).flatMap (s2cOf p) ++ tail)
        (ownCalls p d j ((c, text) :: l) ++ cl) (ownCalls p d (j + 1) l ++ cl) cd
        (by simp only [ownCalls, List.append_assoc])
      simp only [callPhases, List.flatMap_cons, List.append_assoc]
      rw [hstep]
      cases hov1 : over (c :: h) with
      | true =>
        -- the auction has ended: no further call
        have hnil : l = [] := by
          cases l with
          | nil => rfl
          | cons y l' =>
            exfalso
            have e2 : ((y :: l').map (·.1)).reverse ++ (c :: h) = (l'.map (·.1)).reverse ++ (y.1 :: c :: h) := by
              simp
            rw [e2] at hleg
            have := legal_of_append d _ _ hleg
            cases this with
            | cons _ hov2 _ => rw [hov1] at hov2; cases hov2
        subst hnil
        refine ⟨s', by simpa using hi', ?_⟩
        simp [callPhases, ownCalls]
      | false =>
        obtain ⟨sf, hisf, hrec⟩ := ih (j + 1) s' (c :: h) fuel hi' (by simp [hj]) hleg hov
          (fun k hk => by
            have := hparse (k + 1) (by simp; omega)
            simpa [Nat.add_assoc, Nat.add_comm 1 k] using this)
          hbun' (by simp at hfuel; omega)
        refine ⟨sf, hisf, ?_⟩
        simp [hrec]

/-! ## the play: the full-information game with the hands as the client parsed them -/

/-- same public state, the same hands up to the order of the cards -/
structure WPerm (w w' : WithHands) : Prop where
  base : w'.base = w.base
  hands : ∀ q, (w'.hands q).Perm (w.hands q)

theorem wperm_play {w w' w1 : WithHands} (h : WPerm w w') {c : Card} {a : Seat} (hw : w.play c a = .ok w1) :
    ∃ w1', w'.play c a = .ok w1' ∧ WPerm w1 w1' := by
  obtain ⟨ha, hc, rfl⟩ := (play_ok_iff w c a w1).1 hw
  refine ⟨_, (play_ok_iff w' c a _).2 ⟨by rw [h.base]; exact ha, (h.hands a).mem_iff.2 hc, rfl⟩, ?_, ?_⟩
  · simp [h.base]
  · intro q
    by_cases hq : q = a
    · subst hq; simpa using (h.hands q).erase c
    · simpa [hq] using h.hands q

theorem wperm_accepted : ∀ (l : List Card) (w w' : WithHands), WPerm w w' →
    (playsAccepted w l).isSome = true → (playsAccepted w' l).isSome = true := by
  intro l
  induction l with
  | nil => intro w w' _ _; rfl
  | cons c l ih =>
    intro w w' h hacc
    rw [playsAccepted_cons] at hacc ⊢
    cases hp : w.play c w.base.active with
    | error e => rw [hp] at hacc; simp at hacc
    | ok w1 =>
      rw [hp] at hacc
      obtain ⟨w1', hp', h1⟩ := wperm_play h hp
      rw [h.base, hp']
      exact ih w1 w1' h1 hacc

/-- what is assumed of the cards still to be played from the state `w` -/
structure PlayHyp (p decl : Seat) (w : WithHands) (l : List (Card × Text)) : Prop where
  texts : CardTexts w.base l
  acc : (playsAccepted w (l.map (·.1))).isSome = true
  bun : CardsBundled p decl w.base l

theorem playHyp_cons {p decl : Seat} {w : WithHands} {c : Card} {t : Text} {l : List (Card × Text)}
    (h : PlayHyp p decl w ((c, t) :: l)) :
    ∃ w1, w.play c w.base.active = .ok w1 ∧ w1.base = playCard w.base c ∧
      parseCard? t w.base.active = some c ∧
      (senderOf decl w.base.active = p → t = playMsg w.base.active c false) ∧ PlayHyp p decl w1 l := by
  obtain ⟨h1, h2, h3⟩ := h
  obtain ⟨t1, t2⟩ := (cardTexts_cons _ _ _ _).1 h1
  obtain ⟨b1, b2⟩ := cardsBundled_cons h3
  rw [List.map_cons, playsAccepted_cons] at h2
  cases hp : w.play c w.base.active with
  | error e => rw [hp] at h2; simp at h2
  | ok w1 =>
    rw [hp] at h2
    have hb := play_base _ _ _ _ hp
    exact ⟨w1, rfl, hb, t1, b1, ⟨by rw [hb]; exact t2, h2, by rw [hb]; exact b2⟩⟩

/-! ## one iteration of the inner loop of `playing_phase`, in two halves -/

theorem cl_cardPlayer_cases (p a d : Seat) :
    (p = cardPlayer a d ∧ ((a = p ∧ p ≠ d.partner) ∨ (¬ (a = p ∧ p ≠ d.partner) ∧ a = d.partner ∧ p = d))) ∨
    (p ≠ cardPlayer a d ∧ ¬ (a = p ∧ p ≠ d.partner) ∧ ¬ (a = d.partner ∧ p = d)) := by
  cases p <;> cases a <;> cases d <;> decide

/-- the first half: dummy's hand is opened when dummy is on turn for the first time -/
def clientOpenR (p declarer a : Seat) (o : Observed) (opened : Bool) (i : ClientIn) :
    Option (ClientActs × Observed × Bool × ClientIn) :=
  let dummy := declarer.partner
  if a = dummy ∧ !opened then
    if dummy ≠ p then do
      let (m, i) ← i.recv
      let dh ← (parseCards? m "Dummy".toList).bind parseHand?
      pure ([Act.send (.c2s p) (readyFor p "dummy".toList), .recv (.s2c p)], o.setDummy dh, true, i)
    else pure ([], o, true, i)
  else pure ([], o, opened, i)

/-- the second half: the card of the seat on turn `a` -/
def clientCardR (p declarer a : Seat) (o : Observed) (i : ClientIn) : Option (ClientActs × Observed × ClientIn) :=
  let dummy := declarer.partner
  if a = p ∧ p ≠ dummy then do
    let (c, i) ← i.nextCard
    match o.play c p with
    | .error _ => none
    | .ok o' => pure ([Act.send (.c2s p) (playMsg p c false)], o', i)
  else if a = dummy ∧ p = declarer then do
    if o.dummyHand.isNone then none
    else do
      let (c, i) ← i.nextCard
      match o.play c dummy with
      | .error _ => none
      | .ok o' => pure ([Act.send (.c2s p) (playMsg dummy c false)], o', i)
  else do
    let who : Text := if a = dummy then "dummy".toList else a.formal
    let (m, i) ← i.recv
    let c ← parseCard? m a
    match o.play c a with
    | .error _ => none
    | .ok o' =>
      pure ([Act.send (.c2s p) (readyFor p (who ++ "'s card to trick ".toList ++ natStr o.base.trickNum)),
             .recv (.s2c p)], o', i)

/-- the second half of the iteration, whatever the first half did -/
local macro "cl_card_part" : tactic => `(tactic| (
  split
  · rcases hnc : ClientIn.nextCard _ with _ | x
    · rfl
    · simp only [Option.bind_some]
      split <;> (rename_i hq; simp only [hq]) <;> rfl
  · split
    · split
      · rfl
      · rcases hnc : ClientIn.nextCard _ with _ | x
        · rfl
        · simp only [Option.bind_some]
          split <;> (rename_i hq; simp only [hq]) <;> rfl
    · rcases hrc : ClientIn.recv _ with _ | x
      · rfl
      · simp only [Option.bind_some]
        rcases hpc : parseCard? _ _ with _ | c
        · rfl
        · simp only [Option.bind_some]
          split <;> (rename_i hq; simp only [hq]) <;> rfl))

theorem clientTrickR_succ (p declarer : Seat) (n : Nat) (o : Observed) (opened : Bool) (i : ClientIn) :
    clientTrickR p declarer (n + 1) o opened i = (do
      let (acts0, o1, opened1, i) ← clientOpenR p declarer o.base.active o opened i
      let (acts1, o2, i) ← clientCardR p declarer o.base.active o1 i
      let (rest, o3, opened3, i) ← clientTrickR p declarer n o2 opened1 i
      pure (acts0 ++ acts1 ++ rest, o3, opened3, i)) := by
  rw [clientTrickR]
  unfold clientOpenR clientCardR
  simp only [Option.bind_eq_bind, Option.pure_def]
  by_cases h1 : o.base.active = declarer.partner ∧ (!opened) = true
  · simp only [if_pos h1]
    by_cases h2 : declarer.partner ≠ p
    · simp only [if_pos h2]
      cases i.recv with
      | none => rfl
      | some x =>
        obtain ⟨m, i1⟩ := x
        simp only [Option.bind_some]
        cases (parseCards? m "Dummy".toList).bind parseHand? with
        | none => rfl
        | some dh =>
          simp only [Option.bind_some]
          cl_card_part
    · simp only [if_neg h2, Option.bind_some]
      cl_card_part
  · simp only [if_neg h1, Option.bind_some]
    cl_card_part

/-! ## the client's replica follows the table manager's game -/

/-- dummy's cards, still to be taken by the client: they are sent right after the opening lead (`j = 0`), the client
takes them when dummy is on turn for the first time (`j = 1`) -/
def pendS (p decl : Seat) (dc : Text) (j : Nat) : List Text :=
  if j = 1 ∧ p ≠ decl.partner then [dc] else []
def pendK (p decl : Seat) (j : Nat) : ClientActs :=
  if j = 1 ∧ p ≠ decl.partner then [.send (.c2s p) (readyFor p "dummy".toList), .recv (.s2c p)] else []

/-- the client's state (`o`, `opened`) before the `j`-th card (0-based) of a board declared by `decl`, against the
table manager's game `w` (with the hands as the client parsed them); `dh0` = dummy's hand as the client parses it -/
structure ClInv (p decl : Seat) (dh0 : List Card) (j : Nat) (w : WithHands) (o : Observed) (opened : Bool) :
    Prop where
  rel : ObsRel w o
  me : o.me = p
  dum : w.base.dummy = decl.partner
  pinv : PInv w.base j
  dnone : p = decl.partner → o.dummyHand = none
  a0 : j = 0 → w.base.active = decl.left
  a1 : j = 1 → w.base.active = decl.partner
  op : opened = decide (2 ≤ j)
  early : j ≤ 1 → o.dummyHand = none ∧ (p ≠ decl.partner → w.hands decl.partner = dh0)
  late : 2 ≤ j → p ≠ decl.partner → o.dummyHand ≠ none

theorem cl_left_left (d : Seat) : d.left.left = d.partner := by cases d <;> rfl
theorem cl_left_ne_partner (d : Seat) : d.left ≠ d.partner := by cases d <;> decide

theorem pendS_ne (p decl : Seat) (dc : Text) {j : Nat} (h : j ≠ 1) : pendS p decl dc j = [] := by
  simp [pendS, h]
theorem pendK_ne (p decl : Seat) {j : Nat} (h : j ≠ 1) : pendK p decl j = [] := by
  simp [pendK, h]

theorem pendS_one (p decl : Seat) (dc : Text) (h : p ≠ decl.partner) : pendS p decl dc 1 = [dc] := by
  simp [pendS, h]
theorem pendK_one (p decl : Seat) (h : p ≠ decl.partner) :
    pendK p decl 1 = [.send (.c2s p) (readyFor p "dummy".toList), .recv (.s2c p)] := by
  unfold pendK; rw [if_pos ⟨rfl, h⟩]
theorem pendS_dummy (p decl : Seat) (dc : Text) (j : Nat) (h : p = decl.partner) : pendS p decl dc j = [] := by
  simp [pendS, h]
theorem pendK_dummy (p decl : Seat) (j : Nat) (h : p = decl.partner) : pendK p decl j = [] := by
  simp [pendK, h]

/-- the replica after the first half of the iteration -/
def preObs (p decl : Seat) (dh0 : List Card) (j : Nat) (o : Observed) : Observed :=
  if j = 1 ∧ p ≠ decl.partner then o.setDummy dh0 else o

theorem preObs_one (p decl : Seat) (dh0 : List Card) (o : Observed) (h : p ≠ decl.partner) :
    preObs p decl dh0 1 o = o.setDummy dh0 := by
  unfold preObs; rw [if_pos ⟨rfl, h⟩]
theorem preObs_dummy (p decl : Seat) (dh0 : List Card) (j : Nat) (o : Observed) (h : p = decl.partner) :
    preObs p decl dh0 j o = o := by
  unfold preObs; rw [if_neg (fun hh => hh.2 h)]
theorem preObs_ne (p decl : Seat) (dh0 : List Card) {j : Nat} (o : Observed) (h : j ≠ 1) :
    preObs p decl dh0 j o = o := by
  unfold preObs; rw [if_neg (fun hh => h hh.1)]

/-- the first half of an iteration -/
theorem clientOpenR_run {p decl : Seat} {dh0 : List Card} {j : Nat} {w : WithHands} {o : Observed} {opened : Bool}
    (hI : ClInv p decl dh0 j w o opened) (dc : Text)
    (hdc : (parseCards? dc "Dummy".toList).bind parseHand? = some dh0)
    (S : List Text) (cl : List Call) (cd : List Card) :
    clientOpenR p decl w.base.active o opened { s := pendS p decl dc j ++ S, calls := cl, cards := cd } =
      some (pendK p decl j, preObs p decl dh0 j o, decide (1 ≤ j), { s := S, calls := cl, cards := cd }) := by
  have hop := hI.op
  by_cases hj : j = 1
  · subst hj
    have ha := hI.a1 rfl
    have hop' : opened = false := by simpa using hop
    have hc : w.base.active = decl.partner ∧ (!opened) = true := ⟨ha, by simp [hop']⟩
    by_cases hp : p = decl.partner
    · have hp' : ¬ decl.partner ≠ p := fun h => h hp.symm
      rw [pendS_dummy p decl dc 1 hp, pendK_dummy p decl 1 hp, preObs_dummy p decl dh0 1 o hp]
      simp only [clientOpenR, if_pos hc, if_neg hp', List.nil_append, Option.pure_def]
      rfl
    · have hp' : decl.partner ≠ p := fun h => hp h.symm
      rw [pendS_one p decl dc hp, pendK_one p decl hp, preObs_one p decl dh0 o hp]
      simp only [clientOpenR, if_pos hc, if_pos hp', List.cons_append, List.nil_append,
        clientIn_recv_cons, Option.bind_eq_bind, Option.bind_some, hdc, Option.pure_def]
      rfl
  · have hc : ¬ (w.base.active = decl.partner ∧ (!opened) = true) := by
      rcases Nat.lt_or_ge j 1 with h | h
      · have h0 : j = 0 := by omega
        rw [hI.a0 h0]; exact fun hh => cl_left_ne_partner decl hh.1
      · have : opened = true := by rw [hop]; simp; omega
        simp [this]
    have hd : opened = decide (1 ≤ j) := by
      rw [hop]; simp; omega
    rw [pendS_ne p decl dc hj, pendK_ne p decl hj, preObs_ne p decl dh0 o hj]
    simp only [clientOpenR, if_neg hc, List.nil_append, Option.pure_def]
    rw [hd]

/-- the second half of an iteration, from what the replica accepts -/
theorem clientCardR_run (p decl a : Seat) (o o1 : Observed) (c : Card) (text : Text)
    (hplay : o.play c a = .ok o1) (hme : o.me = p) (hdum : o.base.dummy = decl.partner)
    (hparse : parseCard? text a = some c) (hb : senderOf decl a = p → text = playMsg a c false)
    (S : List Text) (cl : List Call) (CD cd : List Card)
    (hCD : CD = (if senderOf decl a = p then [c] else []) ++ cd) :
    clientCardR p decl a o { s := (if p = cardPlayer a decl then [] else [text]) ++ S, calls := cl, cards := CD } =
      some ((if p = cardPlayer a decl then [.send (.c2s p) text]
             else [.send (.c2s p) (readyFor p ((if a = decl.partner then "dummy".toList else a.formal) ++
                      "'s card to trick ".toList ++ natStr o.base.trickNum)), .recv (.s2c p)]),
            o1, { s := S, calls := cl, cards := cd }) := by
  subst hCD
  rcases cl_cardPlayer_cases p a decl with ⟨h1, h2 | ⟨h2, h3⟩⟩ | ⟨h1, h2, h3⟩
  · have hsp : senderOf decl a = p := h1.symm
    have ht := hb hsp
    rw [h2.1] at hplay ht
    simp only [clientCardR, if_pos h2, if_pos hsp, if_pos h1, List.nil_append, List.cons_append,
      clientIn_nextCard_cons, Option.bind_eq_bind, Option.bind_some, hplay, Option.pure_def, ht]
  · have hsp : senderOf decl a = p := h1.symm
    have ht := hb hsp
    rw [h3.1] at hplay ht
    have hnone : o.dummyHand.isNone = false := by
      obtain ⟨_, h | h | h⟩ := observed_play_ok o o1 c _ hplay
      · exact absurd h.1 (by rw [hme, h3.2]; cases decl <;> decide)
      · obtain ⟨_, _, dh, hdh, _⟩ := h
        simp [hdh]
      · exact absurd hdum.symm h.2.1
    simp only [clientCardR, if_neg h2, if_pos h3, if_pos hsp, if_pos h1, List.nil_append, List.cons_append, hnone,
      Bool.false_eq_true, if_false, clientIn_nextCard_cons, Option.bind_eq_bind, Option.bind_some, hplay,
      Option.pure_def, ht]
  · have h1' : ¬ senderOf decl a = p := fun e => h1 e.symm
    simp only [clientCardR, if_neg h2, if_neg h3, if_neg h1, if_neg h1', List.nil_append, List.cons_append,
      clientIn_recv_cons, Option.bind_eq_bind, Option.bind_some, hparse, hplay, Option.pure_def]

/-- the replica accepts what the table manager accepts, and the invariant is kept -/
theorem clinv_step {p decl : Seat} {dh0 : List Card} {j : Nat} {w w1 : WithHands} {o : Observed} {opened : Bool}
    {c : Card} (hI : ClInv p decl dh0 j w o opened) (hw : w.play c w.base.active = .ok w1) :
    ∃ o1, (preObs p decl dh0 j o).play c w.base.active = .ok o1 ∧
      ClInv p decl dh0 (j + 1) w1 o1 (decide (1 ≤ j)) := by
  obtain ⟨rel, me, dum, pinv, dnone, a0, a1, op, early, late⟩ := hI
  generalize hpre : preObs p decl dh0 j o = oPre
  unfold preObs at hpre
  have hpre_me : oPre.me = p := by
    rw [← hpre]; split <;> simp [Observed.setDummy, me]
  have hpre_rel : ObsRel w oPre := by
    rw [← hpre]
    split
    · next h =>
      have hdh := (early (by omega)).2 h.2
      refine ⟨rel.base, rel.hand, fun dh hd => ?_⟩
      simp only [Observed.setDummy, Option.some.injEq] at hd
      rw [dum, hdh, hd]
    · exact rel
  have hpre_d1 : p = decl.partner → oPre.dummyHand = none := by
    intro h
    rw [← hpre, if_neg (fun hh => hh.2 h)]
    exact dnone h
  have hpre_early : j = 0 → oPre.dummyHand = none := by
    intro h
    rw [← hpre, if_neg (fun hh => by omega)]
    exact (early (by omega)).1
  have hpre_late : 1 ≤ j → p ≠ decl.partner → oPre.dummyHand ≠ none := by
    intro h hp
    rw [← hpre]
    by_cases h1 : j = 1
    · rw [if_pos ⟨h1, hp⟩]; simp [Observed.setDummy]
    · rw [if_neg (fun hh => h1 hh.1)]; exact late (by omega) hp
  have hd : w.base.active = w.base.dummy → w.base.active ≠ oPre.me → oPre.dummyHand ≠ none := by
    intro h1 h2
    rw [hpre_me] at h2
    rw [dum] at h1
    have hj : 1 ≤ j := by
      rcases Nat.eq_zero_or_pos j with h0 | h0
      · exact absurd ((a0 h0).symm.trans h1) (cl_left_ne_partner decl)
      · exact h0
    exact hpre_late hj (fun e => h2 (h1.trans e.symm))
  have hme : oPre.me = w.base.dummy → oPre.dummyHand = none := by
    intro h; rw [hpre_me, dum] at h; exact hpre_d1 h
  obtain ⟨o1, hplay, hR, hme1, hnone, hk⟩ := observer_simulates_strong w w1 oPre c _ hpre_rel hw hd hme
  obtain ⟨_, hsame, hb, _⟩ := C05.accepted_effect w w1 c _ hw
  refine ⟨o1, hplay, ⟨hR, hme1.trans hpre_me, by rw [hb, playCard_dummy]; exact dum, by rw [hb]; exact pinv_step pinv c,
    ?_, fun h => by omega, ?_, by simp, ?_, ?_⟩⟩
  · intro h
    apply hnone (hpre_d1 h)
    by_cases hpd : w.base.active = w.base.dummy
    · right; rw [hpd, dum, hpre_me, h]
    · left; exact hpd
  · intro h
    have h0 : j = 0 := by omega
    have hlen : w.base.trick.length ≠ 3 := by rw [pinv.len, h0]; decide
    rw [hb, playCard_incomplete _ _ hlen]
    simp [a0 h0, cl_left_left]
  · intro h
    have h0 : j = 0 := by omega
    have hne : w.base.active ≠ w.base.dummy := by rw [a0 h0, dum]; exact cl_left_ne_partner decl
    refine ⟨hnone (hpre_early h0) (Or.inl hne), fun hp => ?_⟩
    rw [hsame _ (by rw [a0 h0]; exact fun e => cl_left_ne_partner decl e.symm)]
    exact (early (by omega)).2 hp
  · intro h hp
    exact hk (hpre_late (by omega) hp)

theorem preObs_base (p decl : Seat) (dh0 : List Card) (j : Nat) (o : Observed) :
    (preObs p decl dh0 j o).base = o.base := by
  unfold preObs; split <;> rfl
theorem preObs_me (p decl : Seat) (dh0 : List Card) (j : Nat) (o : Observed) :
    (preObs p decl dh0 j o).me = o.me := by
  unfold preObs; split <;> rfl

/-- the acknowledgement / the card the client sends for the card of the seat on turn -/
def cardK (p decl : Seat) (s : PState) (text : Text) : ClientActs :=
  if p = cardPlayer s.active decl then [.send (.c2s p) text]
  else [.send (.c2s p) (readyFor p ((if s.active = decl.partner then "dummy".toList else s.active.formal) ++
          "'s card to trick ".toList ++ natStr s.trickNum)), .recv (.s2c p)]

/-- one whole iteration of the inner loop -/
theorem clientIter {p decl : Seat} {dh0 : List Card} {j : Nat} {w w1 : WithHands} {o : Observed} {opened : Bool}
    {c : Card} (text dc : Text) (n : Nat) (hI : ClInv p decl dh0 j w o opened)
    (hdc : (parseCards? dc "Dummy".toList).bind parseHand? = some dh0)
    (hw : w.play c w.base.active = .ok w1) (hparse : parseCard? text w.base.active = some c)
    (hb : senderOf decl w.base.active = p → text = playMsg w.base.active c false)
    (S : List Text) (cl : List Call) (CD cd : List Card)
    (hCD : CD = (if senderOf decl w.base.active = p then [c] else []) ++ cd) :
    ∃ o1, ClInv p decl dh0 (j + 1) w1 o1 (decide (1 ≤ j)) ∧
      clientTrickR p decl (n + 1) o opened
          { s := pendS p decl dc j ++ ((if p = cardPlayer w.base.active decl then [] else [text]) ++ S),
            calls := cl, cards := CD } =
        (clientTrickR p decl n o1 (decide (1 ≤ j)) { s := S, calls := cl, cards := cd }).bind fun r =>
          some (pendK p decl j ++ (cardK p decl w.base text ++ r.1), r.2) := by
  obtain ⟨o1, hplay, hI1⟩ := clinv_step hI hw
  refine ⟨o1, hI1, ?_⟩
  have hbase : o.base = w.base := hI.rel.base
  have hcard := clientCardR_run p decl w.base.active (preObs p decl dh0 j o) o1 c text hplay
    ((preObs_me p decl dh0 j o).trans hI.me)
    (by rw [preObs_base, hbase]; exact hI.dum) hparse hb S cl CD cd hCD
  rw [preObs_base, hbase] at hcard
  rw [clientTrickR_succ, hbase, clientOpenR_run hI dc hdc]
  simp only [Option.bind_eq_bind, Option.bind_some, hcard, Option.pure_def, cardK, List.append_assoc]

theorem pendS_succ (p decl : Seat) (dc : Text) (j : Nat) :
    (if decide (j = 0) = true ∧ p ≠ decl.partner then [dc] else []) = pendS p decl dc (j + 1) := by
  unfold pendS
  by_cases h : j = 0 <;> simp [h]
theorem pendK_succ (p decl : Seat) (j : Nat) :
    (if decide (j = 0) = true ∧ p ≠ decl.partner then
        [Act.send (Chan.c2s p) (readyFor p "dummy".toList), Act.recv (Chan.s2c p)] else []) =
      pendK p decl (j + 1) := by
  unfold pendK
  by_cases h : j = 0
  · subst h
    by_cases hp : p ≠ decl.partner
    · rw [if_pos ⟨by decide, hp⟩, if_pos ⟨rfl, hp⟩]
    · rw [if_neg (fun hh => hp hh.2), if_neg (fun hh => hp hh.2)]
  · have h1 : ¬ (decide (j = 0) = true ∧ p ≠ decl.partner) := fun hh => h (by simpa using hh.1)
    have h2 : ¬ (j + 1 = 1 ∧ p ≠ decl.partner) := fun hh => h (by omega)
    rw [if_neg h1, if_neg h2]

/-- the streams of a card phase, the lead prompt apart -/
theorem card_phase_streams (p decl : Seat) (deal : Hands) (s : PState) (j : Nat) (c : Card) (text : Text)
    (rest : List (Card × Text)) :
    (cardPhases decl deal s j ((c, text) :: rest)).flatMap (s2cOf p) =
      (if decide (s.trick = []) = true ∧ p = cardPlayer s.active decl then
          [if s.active = decl.partner then "Dummy to lead".toList else s.active.formal ++ " to lead".toList]
        else []) ++
      ((if p = cardPlayer s.active decl then [] else [text]) ++
       (pendS p decl (cardsMsg "Dummy".toList (deal decl.partner)) (j + 1) ++
        (cardPhases decl deal (playCard s c) (j + 1) rest).flatMap (s2cOf p))) ∧
    (cardPhases decl deal s j ((c, text) :: rest)).flatMap (kOf p) =
      (if decide (s.trick = []) = true ∧ p = cardPlayer s.active decl then [.recv (.s2c p)] else []) ++
      (cardK p decl s text ++
       (pendK p decl (j + 1) ++ (cardPhases decl deal (playCard s c) (j + 1) rest).flatMap (kOf p))) := by
  simp only [cardPhases, List.flatMap_cons, s2cOf_card3, kOf_card3, pendS_succ, pendK_succ, cardK,
    List.append_assoc]
  trivial

/-- the cards of a trick after the lead -/
theorem clientTrick_tail (p decl : Seat) (dh0 : List Card) (deal : Hands)
    (hdc : (parseCards? (cardsMsg "Dummy".toList (deal decl.partner)) "Dummy".toList).bind parseHand? = some dh0)
    (rest : List (Card × Text)) (tail : List Text) (cl : List Call) (cd : List Card) :
    ∀ (l : List (Card × Text)) (idx j : Nat) (w : WithHands) (o : Observed) (opened : Bool),
    1 ≤ idx → idx + l.length = 4 → j % 4 = idx % 4 → ClInv p decl dh0 j w o opened →
    PlayHyp p decl w (l ++ rest) →
    ∃ w' o' opened' X, ClInv p decl dh0 (j + l.length) w' o' opened' ∧ PlayHyp p decl w' rest ∧
      clientTrickR p decl l.length o opened
          { s := pendS p decl (cardsMsg "Dummy".toList (deal decl.partner)) j ++
                   ((cardPhases decl deal w.base j (l ++ rest)).flatMap (s2cOf p) ++ tail),
            calls := cl, cards := ownCards p decl w.base (l ++ rest) ++ cd } =
        some (X, o', opened',
          { s := pendS p decl (cardsMsg "Dummy".toList (deal decl.partner)) (j + l.length) ++
                   ((cardPhases decl deal w'.base (j + l.length) rest).flatMap (s2cOf p) ++ tail),
            calls := cl, cards := ownCards p decl w'.base rest ++ cd }) ∧
      pendK p decl j ++ (cardPhases decl deal w.base j (l ++ rest)).flatMap (kOf p) =
        X ++ (pendK p decl (j + l.length) ++
          (cardPhases decl deal w'.base (j + l.length) rest).flatMap (kOf p)) := by
  intro l
  induction l with
  | nil =>
    intro idx j w o opened _ _ _ hI hyp
    exact ⟨w, o, opened, [], hI, hyp, by simp [clientTrickR], by simp⟩
  | cons x l ih =>
    intro idx j w o opened hidx hlen hmod hI hyp
    obtain ⟨c, text⟩ := x
    obtain ⟨w1, hw, hb1, hparse, hbun, hyp1⟩ := playHyp_cons hyp
    have hlead : decide (w.base.trick = []) = false := by
      have h1 := hI.pinv.len
      simp at hlen
      have : w.base.trick.length ≠ 0 := by omega
      simpa using fun e => this (by rw [e]; rfl)
    obtain ⟨hS, hK⟩ := card_phase_streams p decl deal w.base j c text (l ++ rest)
    simp only [hlead, Bool.false_eq_true, false_and, if_false, List.nil_append] at hS hK
    obtain ⟨o1, hI1, hrun⟩ := clientIter text (cardsMsg "Dummy".toList (deal decl.partner)) l.length hI hdc hw
      hparse hbun
      (pendS p decl (cardsMsg "Dummy".toList (deal decl.partner)) (j + 1) ++
        ((cardPhases decl deal w1.base (j + 1) (l ++ rest)).flatMap (s2cOf p) ++ tail)) cl
      (ownCards p decl w.base ((c, text) :: l ++ rest) ++ cd) (ownCards p decl w1.base (l ++ rest) ++ cd)
      (by simp only [List.cons_append, ownCards, hb1, List.append_assoc])
    obtain ⟨w', o', opened', X, hI', hyp', hrun', hK'⟩ := ih (idx + 1) (j + 1) w1 o1 _ (by omega)
      (by simp at hlen; omega) (by omega) hI1 hyp1
    have e1 : j + 1 + l.length = j + ((c, text) :: l).length := by simp; omega
    rw [e1] at hI' hrun' hK'
    refine ⟨w', o', opened', pendK p decl j ++ (cardK p decl w.base text ++ X), hI', hyp', ?_, ?_⟩
    · rw [List.cons_append, hS, ← hb1, List.length_cons]
      simp only [List.append_assoc]
      rw [List.cons_append] at hrun
      rw [hrun, hrun']
      rfl
    · rw [List.cons_append, hK, ← hb1]
      simp only [List.append_assoc]
      rw [← hK']

/-! ## one trick, the tricks of a board -/

theorem cl_prompt_iff (p a d : Seat) :
    ((a = p ∧ p ≠ d.partner) ∨ (a = d.partner ∧ p = d)) ↔ p = cardPlayer a d := by
  cases p <;> cases a <;> cases d <;> decide

theorem cl_parseLeader (a d : Seat) :
    parseLeader? (if a = d.partner then "Dummy to lead".toList else a.formal ++ " to lead".toList) d.partner =
      some a := by
  by_cases h : a = d.partner
  · rw [if_pos h, h]
    exact C19.lead_prompt_round_trip none d.partner
  · rw [if_neg h]
    exact C19.lead_prompt_round_trip (some a) d.partner

/-- one iteration of the outer loop of `playing_phase`: the lead prompt if the client leads, then four cards -/
theorem clientPlaying_trick (p decl : Seat) (dh0 : List Card) (deal : Hands)
    (hdc : (parseCards? (cardsMsg "Dummy".toList (deal decl.partner)) "Dummy".toList).bind parseHand? = some dh0)
    (rest : List (Card × Text)) (tail : List Text) (cl : List Call) (cd : List Card)
    (x : Card × Text) (l3 : List (Card × Text)) (hl3 : l3.length = 3) (j : Nat) (hj : j % 4 = 0) (hj52 : j < 52)
    (w : WithHands) (o : Observed) (opened : Bool) (hI : ClInv p decl dh0 j w o opened)
    (hyp : PlayHyp p decl w (x :: l3 ++ rest)) (fuel : Nat) :
    ∃ w' o' opened' X, ClInv p decl dh0 (j + 4) w' o' opened' ∧ PlayHyp p decl w' rest ∧
      clientPlayingR p decl (fuel + 1) o opened
          { s := (cardPhases decl deal w.base j (x :: l3 ++ rest)).flatMap (s2cOf p) ++ tail,
            calls := cl, cards := ownCards p decl w.base (x :: l3 ++ rest) ++ cd } =
        (clientPlayingR p decl fuel o' opened'
          { s := (cardPhases decl deal w'.base (j + 4) rest).flatMap (s2cOf p) ++ tail,
            calls := cl, cards := ownCards p decl w'.base rest ++ cd }).bind (fun r => some (X ++ r.1, r.2)) ∧
      (cardPhases decl deal w.base j (x :: l3 ++ rest)).flatMap (kOf p) =
        X ++ (cardPhases decl deal w'.base (j + 4) rest).flatMap (kOf p) := by
  obtain ⟨c, text⟩ := x
  obtain ⟨w1, hw, hb1, hparse, hbun, hyp1⟩ := playHyp_cons hyp
  have hbase : o.base = w.base := hI.rel.base
  have hlead : decide (w.base.trick = []) = true := by
    have h1 := hI.pinv.len
    have : w.base.trick.length = 0 := by omega
    simpa using List.eq_nil_of_length_eq_zero this
  obtain ⟨hS, hK⟩ := card_phase_streams p decl deal w.base j c text (l3 ++ rest)
  simp only [hlead, true_and] at hS hK
  have hp0 := pendS_ne p decl (cardsMsg "Dummy".toList (deal decl.partner)) (show j ≠ 1 by omega)
  have hk0 := pendK_ne p decl (show j ≠ 1 by omega)
  have hp4 := pendS_ne p decl (cardsMsg "Dummy".toList (deal decl.partner)) (show j + 4 ≠ 1 by omega)
  have hk4 := pendK_ne p decl (show j + 4 ≠ 1 by omega)
  obtain ⟨o1, hI1, hrun⟩ := clientIter text (cardsMsg "Dummy".toList (deal decl.partner)) 3 hI hdc hw
    hparse hbun
    (pendS p decl (cardsMsg "Dummy".toList (deal decl.partner)) (j + 1) ++
      ((cardPhases decl deal w1.base (j + 1) (l3 ++ rest)).flatMap (s2cOf p) ++ tail)) cl
    (ownCards p decl w.base ((c, text) :: l3 ++ rest) ++ cd) (ownCards p decl w1.base (l3 ++ rest) ++ cd)
    (by simp only [List.cons_append, ownCards, hb1, List.append_assoc])
  obtain ⟨w', o', opened', X, hI', hyp', hrun', hK'⟩ := clientTrick_tail p decl dh0 deal hdc rest tail cl cd
    l3 1 (j + 1) w1 o1 _ (by omega) (by omega) (by omega) hI1 hyp1
  have e1 : j + 1 + l3.length = j + 4 := by omega
  rw [e1, hp4] at hrun'
  rw [e1, hk4] at hK'
  rw [e1] at hI'
  rw [hl3] at hrun'
  rw [hp0, List.nil_append] at hrun
  rw [hk0] at hrun
  have hnd : w.base.hasDone = false := by
    have := hI.pinv.tn
    simp [PState.hasDone, this]; omega
  simp only [Nat.reduceAdd, List.nil_append] at hrun hrun' hK'
  refine ⟨w', o', opened', (if p = cardPlayer w.base.active decl then [.recv (.s2c p)] else []) ++
    (cardK p decl w.base text ++ X), hI', hyp', ?_, ?_⟩
  · rw [List.cons_append, hS, ← hb1]
    rw [List.cons_append] at hrun
    by_cases hpl : p = cardPlayer w.base.active decl
    · have hc : (w.base.active = p ∧ p ≠ decl.partner) ∨ (w.base.active = decl.partner ∧ p = decl) :=
        (cl_prompt_iff _ _ _).2 hpl
      simp only [if_pos hpl, List.nil_append] at hrun
      simp only [clientPlayingR, hbase, hnd, Bool.false_eq_true, if_false, if_pos hc, if_pos hpl, List.cons_append,
        List.nil_append, List.append_assoc, clientIn_recv_cons, Option.bind_eq_bind, Option.bind_some,
        cl_parseLeader, if_true, Option.pure_def]
      rw [hrun, hrun']
      simp only [Option.bind_some]
      rcases clientPlayingR p decl fuel o' opened' _ with _ | r
      · rfl
      · simp
    · have hc : ¬ ((w.base.active = p ∧ p ≠ decl.partner) ∨ (w.base.active = decl.partner ∧ p = decl)) :=
        fun h => hpl ((cl_prompt_iff _ _ _).1 h)
      simp only [if_neg hpl, List.cons_append, List.nil_append] at hrun
      simp only [clientPlayingR, hbase, hnd, Bool.false_eq_true, if_false, if_neg hc, if_neg hpl, List.cons_append,
        List.nil_append, List.append_assoc, Option.bind_eq_bind, Option.bind_some, Option.pure_def]
      rw [hrun, hrun']
      simp only [Option.bind_some]
      rcases clientPlayingR p decl fuel o' opened' _ with _ | r
      · rfl
      · simp
  · rw [List.cons_append, hK, ← hb1, hK']
    simp only [List.append_assoc]

/-- `n` whole tricks, down to the end of the play -/
theorem clientPlaying_tricks (p decl : Seat) (dh0 : List Card) (deal : Hands)
    (hdc : (parseCards? (cardsMsg "Dummy".toList (deal decl.partner)) "Dummy".toList).bind parseHand? = some dh0)
    (tail : List Text) (cl : List Call) (cd : List Card) :
    ∀ (n : Nat) (l : List (Card × Text)) (j : Nat) (w : WithHands) (o : Observed) (opened : Bool) (fuel : Nat),
    l.length = 4 * n → j + 4 * n = 52 → n < fuel → ClInv p decl dh0 j w o opened → PlayHyp p decl w l →
    ∃ o', clientPlayingR p decl fuel o opened
        { s := (cardPhases decl deal w.base j l).flatMap (s2cOf p) ++ tail,
          calls := cl, cards := ownCards p decl w.base l ++ cd } =
      some ((cardPhases decl deal w.base j l).flatMap (kOf p), o', { s := tail, calls := cl, cards := cd }) := by
  intro n
  induction n with
  | zero =>
    intro l j w o opened fuel hl hj hf hI _
    have : l = [] := List.eq_nil_of_length_eq_zero (by simpa using hl)
    subst this
    obtain ⟨fuel, rfl⟩ : ∃ f, fuel = f + 1 := ⟨fuel - 1, by omega⟩
    have hd : o.base.hasDone = true := by
      rw [hI.rel.base]
      have := hI.pinv.tn
      simp [PState.hasDone, this]; omega
    exact ⟨o, by simp [clientPlayingR, hd, cardPhases, ownCards]⟩
  | succ n ih =>
    intro l j w o opened fuel hl hj hf hI hyp
    obtain ⟨fuel, rfl⟩ : ∃ f, fuel = f + 1 := ⟨fuel - 1, by omega⟩
    match l, hl, hyp with
    | x1 :: x2 :: x3 :: x4 :: rest, hl, hyp =>
      obtain ⟨w', o', opened', X, hI', hyp', hrun, hK⟩ := clientPlaying_trick p decl dh0 deal hdc rest tail cl cd
        x1 [x2, x3, x4] rfl j (by omega) (by omega) w o opened hI hyp fuel
      obtain ⟨of, hrec⟩ := ih rest (j + 4) w' o' opened' fuel (by simp at hl; omega) (by omega) (by omega) hI' hyp'
      refine ⟨of, ?_⟩
      simp only [List.cons_append, List.nil_append] at hrun hK
      rw [hrun, hrec, hK]
      rfl

/-! ## the play of a board -/

/-- the board's hands with `p`'s and dummy's as the client parsed them -/
def clHands (p decl : Seat) (hand dh0 : List Card) (deal : Hands) : Hands :=
  fun q => if q = p then hand else if q = decl.partner then dh0 else deal q

theorem clientPlay_board (p : Seat) (b : BoardSetting) (d : Decisions)
    (hcp : ConformingPlay b d) (htx : TextsConform b d) (hbun : BundledBoard p b d)
    (s0 : PState) (decl : Seat) (hs0 : PState.init (boardContract b d) = some s0)
    (hdecl : (boardContract b d).declarer = some decl)
    (hand dh0 : List Card) (hhand : hand.Perm (b.deal p)) (hdh : dh0.Perm (b.deal decl.partner))
    (hdc : (parseCards? (cardsMsg "Dummy".toList (b.deal decl.partner)) "Dummy".toList).bind parseHand? = some dh0)
    (tail : List Text) (cl : List Call) (cd : List Card) :
    ∃ o', clientPlayingR p decl 14 { base := s0, me := p, hand := hand, dummyHand := none } false
        { s := (cardPhases decl b.deal s0 0 d.cards).flatMap (s2cOf p) ++ tail,
          calls := cl, cards := ownCards p decl s0 d.cards ++ cd } =
      some ((cardPhases decl b.deal s0 0 d.cards).flatMap (kOf p), o', { s := tail, calls := cl, cards := cd }) := by
  obtain ⟨bb, dd, hfb, hd, hs0eq⟩ := init_some hs0
  have hdd : dd = decl := by rw [hd] at hdecl; exact Option.some.inj hdecl
  subst hdd
  have hw0 : WithHands.init (boardContract b d) b.deal = some ⟨s0, b.deal⟩ := by
    simp [WithHands.init, hs0]
  unfold ConformingPlay at hcp
  rw [hw0] at hcp
  obtain ⟨h52, hacc⟩ := hcp
  have hperm : WPerm ⟨s0, b.deal⟩ ⟨s0, clHands p dd hand dh0 b.deal⟩ := by
    refine ⟨rfl, fun q => ?_⟩
    show (clHands p dd hand dh0 b.deal q).Perm (b.deal q)
    unfold clHands
    by_cases h1 : q = p
    · rw [if_pos h1, h1]; exact hhand
    · rw [if_neg h1]
      by_cases h2 : q = dd.partner
      · rw [if_pos h2, h2]; exact hdh
      · rw [if_neg h2]
  have hyp : PlayHyp p dd ⟨s0, clHands p dd hand dh0 b.deal⟩ d.cards :=
    ⟨htx.cards s0 hs0, wperm_accepted _ _ _ hperm hacc, hbun.2 s0 dd hs0 hdecl⟩
  have hI : ClInv p dd dh0 0 ⟨s0, clHands p dd hand dh0 b.deal⟩
      { base := s0, me := p, hand := hand, dummyHand := none } false := by
    refine ⟨⟨rfl, ?_, fun dh h => by cases h⟩, rfl, by rw [hs0eq], pinv_init hs0, fun _ => rfl,
      fun _ => by rw [hs0eq], fun h => by omega, rfl, fun _ => ⟨rfl, fun hp => ?_⟩, fun h => by omega⟩
    · show hand = clHands p dd hand dh0 b.deal p
      simp [clHands]
    · show clHands p dd hand dh0 b.deal dd.partner = dh0
      have : ¬ dd.partner = p := fun e => hp e.symm
      simp [clHands, this]
  exact clientPlaying_tricks p dd dh0 b.deal hdc tail cl cd 13 d.cards 0 _ _ false 14 (by omega) (by omega)
    (by omega) hI hyp

/-! ## one board -/

/-- the last phase of a board -/
def clFinalPhase (sc : Scenario) (last : Bool) (b : BoardSetting) (d : Decisions) : Phase Text LogOp :=
  if last then Phase.lastBoard (LogOp.write (recordOf sc b d)) LogOp.close MSG_END
  else Phase.nextBoard (LogOp.write (recordOf sc b d)) MSG_NEXT MSG_START

/-- the phases of the play of a board -/
def clPlayPhases (b : BoardSetting) (d : Decisions) : List (Phase Text LogOp) :=
  match PState.init (boardContract b d), (boardContract b d).declarer with
  | some s0, some decl => Phase.playStart decl.formal :: cardPhases decl b.deal s0 0 d.cards
  | _, _ => []

theorem cl_boardPhases_eq (sc : Scenario) (k : Nat) (last : Bool) (b : BoardSetting) (d : Decisions) :
    boardPhases sc k last b d =
      Phase.deal (boardHeader k b.dealer b.vul) (fun p => cardsMsg p.formal (b.deal p))
        (fun p => readyFor p "deal".toList) (fun p => readyFor p "cards".toList) ::
      (callPhases b.dealer 0 d.calls ++
      (Phase.auctionEnd MSG_NULL (if (boardContract b d).isPassedOut then MSG_PASSED_OUT else MSG_NULL) ::
      (clPlayPhases b d ++ [clFinalPhase sc last b d]))) := by
  simp only [boardPhases, boardContract, clFinalPhase, clPlayPhases, List.append_assoc, List.cons_append,
    List.nil_append]
  rfl

theorem s2cOf_clFinal (sc : Scenario) (p : Seat) (last : Bool) (b : BoardSetting) (d : Decisions) :
    s2cOf p (clFinalPhase sc last b d) = [if last then MSG_END else MSG_START] := by
  cases last <;> simp [clFinalPhase]
theorem kOf_clFinal (sc : Scenario) (p : Seat) (last : Bool) (b : BoardSetting) (d : Decisions) :
    kOf p (clFinalPhase sc last b d) = [.recv (.s2c p)] := by
  cases last <;> rfl

theorem cl_msg_facts : MSG_START ≠ MSG_END := by decide

theorem clientBoardsR_board (sc : Scenario) (p : Seat) (k : Nat) (last : Bool) (b : BoardSetting) (d : Decisions)
    (hca : ConformingAuction b d) (hcp : ConformingPlay b d) (htx : TextsConform b d) (hbun : BundledBoard p b d)
    (hok : ∀ q, HandOK (b.deal q)) (fuel : Nat) (tail : List Text) (cl : List Call) (cd : List Card) :
    clientBoardsR p (fuel + 1)
        { s := (boardPhases sc k last b d).flatMap (s2cOf p) ++ tail,
          calls := ownCalls p b.dealer 0 d.calls ++ cl, cards := boardOwnCards p b d ++ cd } =
      if last then some ((boardPhases sc k last b d).flatMap (kOf p), { s := tail, calls := cl, cards := cd })
      else (clientBoardsR p fuel { s := tail, calls := cl, cards := cd }).map fun r =>
        ((boardPhases sc k last b d).flatMap (kOf p) ++ r.1, r.2) := by
  obtain ⟨hand, hhparse, hhperm⟩ := hand_parse p.formal (b.deal p) (hok p)
  have hbc := boardContract_conforming b d hca
  obtain ⟨hll, hel⟩ := hca
  have hleg : Legal b.dealer (d.calls.map (·.1)).reverse := (legal_iff_legalLaw _ _).2 hll
  have hov : over (d.calls.map (·.1)).reverse = true := over_of_ended_law _ hel
  have hlen : d.calls.length ≤ 319 := by
    have := legal_length_le_319 _ _ hleg
    simpa using this
  rw [cl_boardPhases_eq]
  simp only [List.flatMap_cons, List.flatMap_append, List.flatMap_nil, s2cOf_deal, s2cOf_auctionEnd,
    s2cOf_clFinal, List.append_assoc, List.cons_append, List.nil_append]
  have hkdeal : kOf p (Phase.deal (boardHeader k b.dealer b.vul) (fun p => cardsMsg p.formal (b.deal p))
        (fun p => readyFor p "deal".toList) (fun p => readyFor p "cards".toList)) =
      [.send (.c2s p) (readyFor p "deal".toList), .recv (.s2c p),
       .send (.c2s p) (readyFor p "cards".toList), .recv (.s2c p)] := rfl
  have hkend : ∀ x y : Text, kOf p (Phase.auctionEnd x y) = [] := fun _ _ => rfl
  rw [hkdeal, hkend, kOf_clFinal]
  rw [clientBoardsR]
  simp only [Option.bind_eq_bind, clientDealR_run p k b hand hhparse, Option.bind_some]
  rcases specContract_shape b.dealer b.vul (d.calls.map (·.1)).reverse with ⟨hf, hd⟩ | ⟨bi, decl, hf, hd⟩
  · rw [← hbc] at hf hd
    have hpo : (boardContract b d).isPassedOut = true := by simp [Contract.isPassedOut, hf]
    have hinit : PState.init (boardContract b d) = none := by simp [PState.init, hf]
    have hplay : clPlayPhases b d = [] := by simp [clPlayPhases, hinit]
    have hown : boardOwnCards p b d = [] := by simp [boardOwnCards, hinit]
    rw [hplay, hown]
    simp only [List.flatMap_nil, List.nil_append]
    obtain ⟨sf, hisf, hbid⟩ := clientBidding_run p b.dealer b.vul
      ((if last = true then MSG_END else MSG_START) :: tail) cl cd
      d.calls 0 (AState.init b.dealer b.vul) [] (320 + 1) (ainv_init _ _) rfl (by simpa using hleg)
      (by simpa using hov) (fun j hj => by simpa using htx.calls j hj)
      (fun j hj e => hbun.1 j hj (by simpa using e)) (by omega)
    simp only [List.append_nil] at hisf
    have hcon : sf.contract = some (boardContract b d) := by
      rw [hbc]; exact C03.contract_is_spec _ _ _ _ ⟨hisf, hleg⟩ hel
    rw [hbid]
    simp only [Option.bind_some, hcon, hpo, if_true, Option.pure_def, clientIn_recv_cons]
    cases last
    · simp only [Bool.false_eq_true, if_false, if_neg cl_msg_facts, if_true]
      rcases clientBoardsR p fuel _ with _ | r
      · rfl
      · simp
    · simp
  · rw [← hbc] at hf hd
    have hpo : (boardContract b d).isPassedOut = false := by simp [Contract.isPassedOut, hf]
    obtain ⟨s0, hs0, -⟩ := C04.opening_lead_and_dummy (boardContract b d) bi decl hf hd
    have hplay : clPlayPhases b d = Phase.playStart decl.formal :: cardPhases decl b.deal s0 0 d.cards := by
      simp [clPlayPhases, hs0, hd]
    have hown : boardOwnCards p b d = ownCards p decl s0 d.cards := by simp [boardOwnCards, hs0, hd]
    obtain ⟨dh0, hdc, hdperm⟩ := hand_parse "Dummy".toList (b.deal decl.partner) (hok decl.partner)
    have hoinit : Observed.init (boardContract b d) p hand =
        some { base := s0, me := p, hand := hand, dummyHand := none } := by
      simp [Observed.init, hs0]
    rw [hplay, hown]
    have hkps : kOf p (Phase.playStart decl.formal) = [] := rfl
    simp only [List.flatMap_cons, s2cOf_playStart, hkps, List.nil_append]
    obtain ⟨sf, hisf, hbid⟩ := clientBidding_run p b.dealer b.vul
      ((cardPhases decl b.deal s0 0 d.cards).flatMap (s2cOf p) ++
        ((if last = true then MSG_END else MSG_START) :: tail)) cl (ownCards p decl s0 d.cards ++ cd)
      d.calls 0 (AState.init b.dealer b.vul) [] (320 + 1) (ainv_init _ _) rfl (by simpa using hleg)
      (by simpa using hov) (fun j hj => by simpa using htx.calls j hj)
      (fun j hj e => hbun.1 j hj (by simpa using e)) (by omega)
    simp only [List.append_nil] at hisf
    have hcon : sf.contract = some (boardContract b d) := by
      rw [hbc]; exact C03.contract_is_spec _ _ _ _ ⟨hisf, hleg⟩ hel
    obtain ⟨of, hpl⟩ := clientPlay_board p b d hcp htx hbun s0 decl hs0 hd hand dh0 hhperm hdperm hdc
      ((if last = true then MSG_END else MSG_START) :: tail) cl cd
    rw [hbid]
    simp only [Option.bind_some, hcon, hpo, Bool.false_eq_true, if_false, hd, hoinit, hpl,
      Option.pure_def, clientIn_recv_cons]
    cases last
    · simp only [Bool.false_eq_true, if_false, if_neg cl_msg_facts, if_true]
      rcases clientBoardsR p fuel _ with _ | r
      · rfl
      · simp
    · simp

/-! ## the boards of a session -/

/-- what is assumed of a board -/
def BoardOK (p : Seat) (b : BoardSetting) (d : Decisions) : Prop :=
  ConformingAuction b d ∧ ConformingPlay b d ∧ TextsConform b d ∧ BundledBoard p b d ∧ ∀ q, HandOK (b.deal q)

theorem cl_boardPhases_s_length (sc : Scenario) (p : Seat) (k : Nat) (last : Bool) (b : BoardSetting)
    (d : Decisions) : 1 ≤ ((boardPhases sc k last b d).flatMap (s2cOf p)).length := by
  rw [cl_boardPhases_eq]
  simp only [List.flatMap_cons, s2cOf_deal, List.length_append, List.length_cons]
  omega

theorem cl_boardsPhases_s_length (sc : Scenario) (p : Seat) :
    ∀ (boards : List (BoardSetting × Decisions)) (k : Nat),
    boards.length ≤ ((boardsPhases sc k boards).flatMap (s2cOf p)).length := by
  intro boards
  induction boards with
  | nil => intro k; simp
  | cons x r ih =>
    intro k
    obtain ⟨b, d⟩ := x
    cases r with
    | nil => simpa [boardsPhases] using cl_boardPhases_s_length sc p k true b d
    | cons y r' =>
      have h1 := ih (k + 1)
      have h2 := cl_boardPhases_s_length sc p k false b d
      rw [boardsPhases, List.flatMap_append, List.length_append]
      · simp only [List.length_cons] at h1 ⊢; omega
      · simp

theorem clientBoardsR_boards (sc : Scenario) (p : Seat) (tail : List Text) (cl : List Call) (cd : List Card) :
    ∀ (boards : List (BoardSetting × Decisions)) (k fuel : Nat), boards ≠ [] →
      (∀ bd ∈ boards, BoardOK p bd.1 bd.2) → boards.length ≤ fuel →
      clientBoardsR p fuel
          { s := (boardsPhases sc k boards).flatMap (s2cOf p) ++ tail,
            calls := (boards.flatMap fun bd => ownCalls p bd.1.dealer 0 bd.2.calls) ++ cl,
            cards := (boards.flatMap fun bd => boardOwnCards p bd.1 bd.2) ++ cd } =
        some ((boardsPhases sc k boards).flatMap (kOf p), { s := tail, calls := cl, cards := cd }) := by
  intro boards
  induction boards with
  | nil => intro k fuel h; exact absurd rfl h
  | cons x r ih =>
    intro k fuel _ hp hf
    obtain ⟨b, d⟩ := x
    obtain ⟨f, rfl⟩ : ∃ f, fuel = f + 1 := ⟨fuel - 1, by simp at hf; omega⟩
    obtain ⟨h1, h2, h3, h4, h5⟩ := hp (b, d) List.mem_cons_self
    cases r with
    | nil =>
      simp only [boardsPhases, List.flatMap_cons, List.flatMap_nil, List.append_nil]
      rw [clientBoardsR_board sc p k true b d h1 h2 h3 h4 h5]
      simp
    | cons y r' =>
      have ih := ih (k + 1) f (by simp) (fun bd h => hp bd (List.mem_cons_of_mem _ h))
        (by simp at hf ⊢; omega)
      rw [boardsPhases]
      · generalize y :: r' = R at ih ⊢
        simp only [List.flatMap_cons, List.flatMap_append, List.append_assoc]
        rw [clientBoardsR_board sc p k false b d h1 h2 h3 h4 h5, ih]
        simp
      · simp

/-! ## the session -/

/-- fed the messages the seat thread of `p` sends it in a session (conforming decisions, texts that mean what was
decided, `p`'s own texts those of the bundled client, valid duplicate-free hands, team names without quote / line
break) and the decisions its bidding and playing systems return, the reactive bundled client performs exactly the
straight-line client program of the session model -/
theorem clientReactive_session_of_handOK (sc : Scenario) (h : sc.boards ≠ []) (p : Seat)
    (hc : ∀ bd ∈ sc.boards, ConformingAuction bd.1 bd.2 ∧ ConformingPlay bd.1 bd.2 ∧ TextsConform bd.1 bd.2)
    (hb : BundledTexts sc p)
    (hd : ∀ bd ∈ sc.boards, ∀ q, HandOK (bd.1.deal q))
    (hn : NameOK sc.nsName ∧ NameOK sc.ewName) :
    clientReactive p (scenarioOwnCalls sc p) (scenarioOwnCards sc p)
        (sendsOn (Chan.s2c p) (sessionProg sc (.seat p)))
      = some (sessionProg sc (.client p)) := by
  have hs : sendsOn (Chan.s2c p) (sessionProg sc (.seat p)) =
      teamsMsg sc.nsName sc.ewName :: MSG_START :: (boardsPhases sc 1 sc.boards).flatMap (s2cOf p) := by
    unfold sessionProg sessionPhases
    rw [sendsOn_progOfPhases, List.flatMap_cons]
    show s2cOf p _ ++ List.flatMap (s2cOf p) _ = _
    rw [s2cOf_seating]; rfl
  have hk : sessionProg sc (.client p) =
      [.recv (.s2c p), .send (.c2s p) (p.formal ++ " ready to start".toList), .recv (.s2c p)] ++
        (boardsPhases sc 1 sc.boards).flatMap (kOf p) := by
    unfold sessionProg sessionPhases progOfPhases
    rw [List.flatMap_cons]
    rfl
  have hrun := clientBoardsR_boards sc p [] [] [] sc.boards 1
    ((teamsMsg sc.nsName sc.ewName :: MSG_START :: (boardsPhases sc 1 sc.boards).flatMap (s2cOf p)).length + 1) h
    (fun bd hbd => ⟨(hc bd hbd).1, (hc bd hbd).2.1, (hc bd hbd).2.2, hb bd hbd, hd bd hbd⟩)
    (by have := cl_boardsPhases_s_length sc p sc.boards 1; simp only [List.length_cons]; omega)
  simp only [List.append_nil] at hrun
  rw [hs, hk]
  simp only [clientReactive, clientIn_recv_cons, Option.bind_eq_bind, Option.bind_some,
    C19.team_names_round_trip _ _ hn.1 hn.2, if_true, scenarioOwnCalls, scenarioOwnCards, hrun, Option.pure_def]

/-- the same with the hypothesis on the deals in the form used for the bundled scenarios (`bundled_conform`) -/
theorem clientReactive_session (sc : Scenario) (h : sc.boards ≠ []) (p : Seat)
    (hc : ∀ bd ∈ sc.boards, ConformingAuction bd.1 bd.2 ∧ ConformingPlay bd.1 bd.2 ∧ TextsConform bd.1 bd.2)
    (hb : BundledTexts sc p)
    (hd : ∀ bd ∈ sc.boards, PartialDeal bd.1.deal ∧ ∀ q, (bd.1.deal q).length = 13)
    (hn : NameOK sc.nsName ∧ NameOK sc.ewName) :
    clientReactive p (scenarioOwnCalls sc p) (scenarioOwnCards sc p)
        (sendsOn (Chan.s2c p) (sessionProg sc (.seat p)))
      = some (sessionProg sc (.client p)) := by
  refine clientReactive_session_of_handOK sc h p hc hb (fun bd hbd q => ?_) hn
  obtain ⟨⟨hnd, hok, _⟩, _⟩ := hd bd hbd
  refine ⟨?_, hok q⟩
  unfold handsAll at hnd
  cases q
  · exact (List.nodup_append.1 (List.nodup_append.1 (List.nodup_append.1 hnd).1).1).1
  · exact (List.nodup_append.1 (List.nodup_append.1 (List.nodup_append.1 hnd).1).1).2.1
  · exact (List.nodup_append.1 (List.nodup_append.1 hnd).1).2.1
  · exact (List.nodup_append.1 hnd).2.1

end Bridge
