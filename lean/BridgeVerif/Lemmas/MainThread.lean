import BridgeVerif.Model.MainThread
import BridgeVerif.Lemmas.Replica
import BridgeVerif.Lemmas.SessionC08
import BridgeVerif.Lemmas.SessionC10
import BridgeVerif.Props.C03
/-! The reactive main thread (`Model/MainThread.lean`), fed the messages the seat threads forward in a session with
conforming decisions whose texts mean what was decided, performs exactly `sessionProg sc .main`. -/
namespace Bridge

/-! ## what the seat thread of `p` forwards to main during a phase -/
/-- the messages the seat thread of `p` puts on `t2m p` during a phase -/
def t2mOf (p : Seat) (ph : Phase Text LogOp) : List Text := sendsOn (Chan.t2m p) (phaseProg ph (.seat p))

@[simp] theorem t2mOf_seating (p : Seat) (t : Text) (r : Seat → Text) (s : Text) (o : LogOp) :
    t2mOf p (.seating t r s o) = [] := by
  simp [t2mOf, phaseProg, sendsOn, sync]
@[simp] theorem t2mOf_deal (p : Seat) (h : Text) (cards r1 r2 : Seat → Text) :
    t2mOf p (.deal h cards r1 r2) = [] := by
  simp [t2mOf, phaseProg, sendsOn, sync]
@[simp] theorem t2mOf_auctionEnd (p : Seat) (a b : Text) : t2mOf p (.auctionEnd a b) = [] := by
  simp [t2mOf, phaseProg, sendsOn]
@[simp] theorem t2mOf_playStart (p : Seat) (a : Text) : t2mOf p (.playStart a) = [] := by
  simp [t2mOf, phaseProg, sendsOn]
@[simp] theorem t2mOf_nextBoard (p : Seat) (r : LogOp) (a b : Text) : t2mOf p (.nextBoard r a b) = [] := by
  simp [t2mOf, phaseProg, sendsOn]
@[simp] theorem t2mOf_lastBoard (p : Seat) (r c : LogOp) (a : Text) : t2mOf p (.lastBoard r c a) = [] := by
  simp [t2mOf, phaseProg, sendsOn]

theorem t2mOf_call (p a : Seat) (name bid relay : Text) (ready : Seat → Text) :
    t2mOf p (.call a name bid relay ready) = if p = a then [bid] else [] := by
  by_cases h : p = a <;> simp [t2mOf, phaseProg, sendsOn, h]

theorem t2mOf_card (p a d : Seat) (lead opening : Bool) (ln prompt card : Text) (ready rd : Seat → Text)
    (dc : Text) :
    t2mOf p (.card a d lead opening ln prompt card ready rd dc) = if p = cardPlayer a d then [card] else [] := by
  simp only [t2mOf, phaseProg, sendsOn_append, apply_ite (sendsOn (Chan.t2m p)), sendsOn]
  by_cases h2 : p = cardPlayer a d <;> simp [h2]

/-- the stream function `i` starts with what the seat threads forward during `phs` and continues with `rest` -/
def Feeds (i : MainIn) (phs : List (Phase Text LogOp)) (rest : MainIn) : Prop :=
  ∀ p, i p = phs.flatMap (t2mOf p) ++ rest p

theorem feeds_nil {i rest : MainIn} (h : Feeds i [] rest) : i = rest := by
  funext p; simpa using h p

theorem feeds_refl (phs : List (Phase Text LogOp)) (rest : MainIn) :
    Feeds (fun p => phs.flatMap (t2mOf p) ++ rest p) phs rest := fun _ => rfl

theorem feeds_append {i rest : MainIn} {A B : List (Phase Text LogOp)} (h : Feeds i (A ++ B) rest) :
    Feeds i A (fun p => B.flatMap (t2mOf p) ++ rest p) := by
  intro p; rw [h p, List.flatMap_append, List.append_assoc]

/-- a phase during which nothing is forwarded -/
theorem feeds_skip {i rest : MainIn} {ph : Phase Text LogOp} {phs : List (Phase Text LogOp)}
    (hph : ∀ p, t2mOf p ph = []) (h : Feeds i (ph :: phs) rest) : Feeds i phs rest := by
  intro p; rw [h p, List.flatMap_cons, hph p, List.nil_append]

/-- a phase during which exactly seat `a` forwards exactly `m` -/
theorem feeds_get {i rest : MainIn} {a : Seat} {m : Text} {ph : Phase Text LogOp} {phs : List (Phase Text LogOp)}
    (hph : ∀ p, t2mOf p ph = if p = a then [m] else []) (h : Feeds i (ph :: phs) rest) :
    ∃ i', i.get a = some (m, i') ∧ Feeds i' phs rest := by
  have ha : i a = m :: (phs.flatMap (t2mOf a) ++ rest a) := by
    rw [h a, List.flatMap_cons, hph a]; simp
  refine ⟨fun q => if q = a then phs.flatMap (t2mOf a) ++ rest a else i q, ?_, ?_⟩
  · simp only [MainIn.get, ha]
  · intro p
    by_cases hp : p = a
    · subst hp; simp
    · simp only [hp, if_false]
      rw [h p, List.flatMap_cons, hph p]; simp [hp]

theorem progOfPhases_cons {Msg Out : Type} (ph : Phase Msg Out) (phs : List (Phase Msg Out)) (t : Tid) :
    progOfPhases (ph :: phs) t = phaseProg ph t ++ progOfPhases phs t := by
  simp [progOfPhases]

theorem progOfPhases_append {Msg Out : Type} (A B : List (Phase Msg Out)) (t : Tid) :
    progOfPhases (A ++ B) t = progOfPhases A t ++ progOfPhases B t := by
  simp [progOfPhases]

@[simp] theorem progOfPhases_nil {Msg Out : Type} (t : Tid) :
    progOfPhases ([] : List (Phase Msg Out)) t = [] := rfl

/-! ## the auction -/

theorem mainBidding_run (d : Seat) (v : Vul) :
    ∀ (l : List (Call × Text)) (j : Nat) (s : AState) (h : List Call) (fuel : Nat) (i rest : MainIn),
    AInv d v s h → h.length = j →
    Legal d ((l.map (·.1)).reverse ++ h) → over ((l.map (·.1)).reverse ++ h) = true →
    (∀ k (hk : k < l.length), parseBid? (preprocessBid l[k].2) (d.rot (j + k)).formal = some l[k].1) →
    l.length < fuel →
    Feeds i (callPhases d j l) rest →
    ∃ sf, AInv d v sf ((l.map (·.1)).reverse ++ h) ∧
      mainBiddingR fuel s i = some (progOfPhases (callPhases d j l) .main ++
        phaseProg (Phase.auctionEnd MSG_NULL
          (if (specContract d v ((l.map (·.1)).reverse ++ h)).isPassedOut then MSG_PASSED_OUT else MSG_NULL) :
            Phase Text LogOp) .main, sf, rest) := by
  intro l
  induction l with
  | nil =>
    intro j s h fuel i rest hi hj hleg hov _ hfuel hfeed
    simp only [List.map_nil, List.reverse_nil, List.nil_append] at hleg hov ⊢
    obtain ⟨fuel, rfl⟩ : ∃ f, fuel = f + 1 := ⟨fuel - 1, by simp at hfuel; omega⟩
    have hact : s.active = none := by simp [hi.act, hov]
    have hcon := C03.contract_is_spec d v s h ⟨hi, hleg⟩ (ended_law_of_over d h hleg hov)
    refine ⟨s, hi, ?_⟩
    rw [feeds_nil hfeed]
    simp only [mainBiddingR, hact, hcon, callPhases, progOfPhases_nil, List.nil_append, phaseProg]
  | cons x l ih =>
    intro j s h fuel i rest hi hj hleg hov hparse hfuel hfeed
    obtain ⟨c, text⟩ := x
    obtain ⟨fuel, rfl⟩ : ∃ f, fuel = f + 1 := ⟨fuel - 1, by simp at hfuel; omega⟩
    have e : (((c, text) :: l).map (·.1)).reverse ++ h = (l.map (·.1)).reverse ++ (c :: h) := by simp
    rw [e] at hleg hov ⊢
    have hl1 := legal_of_append d _ (c :: h) hleg
    cases hl1 with
    | cons hlh hovh hlegc =>
      have hact : s.active = some (d.rot j) := by simp [hi.act, hovh, hj]
      obtain ⟨s', hE, hi'⟩ := (take_bid_refines d v s h hi c).2.2 hovh hlegc
      have h0 : parseBid? (preprocessBid text) (d.rot j).formal = some c := by
        have := hparse 0 (by simp); simpa using this
      obtain ⟨i', hget, hfeed'⟩ := feeds_get (a := d.rot j) (m := text)
        (fun p => t2mOf_call p _ _ _ _ _) hfeed
      obtain ⟨sf, hisf, hrec⟩ := ih (j + 1) s' (c :: h) fuel i' rest hi' (by simp [hj]) hleg hov
        (fun k hk => by
          have := hparse (k + 1) (by simp; omega)
          simpa [Nat.add_assoc, Nat.add_comm 1 k] using this)
        (by simp at hfuel; omega) hfeed'
      refine ⟨sf, hisf, ?_⟩
      have hres : ∃ r, takeBid s c = .ok (s', r) ∧ r ≠ .illegal := by
        refine ⟨_, hE, ?_⟩
        split <;> simp
      obtain ⟨r, hE', hr⟩ := hres
      simp only [mainBiddingR, hact, hget, Option.bind_eq_bind, Option.bind_some, h0, hE']
      cases r with
      | illegal => exact absurd rfl hr
      | ongoing | finished =>
        simp only [hrec, Option.bind_some, Option.pure_def, callPhases, progOfPhases_cons, phaseProg, putAll,
          putAllBut, List.append_assoc]

/-! ## the play -/

theorem cardPhases_append (d : Seat) (deal : Hands) : ∀ (l1 l2 : List (Card × Text)) (s : PState) (j : Nat),
    cardPhases d deal s j (l1 ++ l2) =
      cardPhases d deal s j l1 ++ cardPhases d deal (runPlay s (l1.map (·.1))) (j + l1.length) l2 := by
  intro l1
  induction l1 with
  | nil => intro l2 s j; simp [cardPhases]
  | cons x l1 ih =>
    intro l2 s j
    obtain ⟨c, t⟩ := x
    simp only [List.cons_append, cardPhases, ih, List.map_cons, runPlay_cons, List.length_cons]
    rw [show j + 1 + l1.length = j + (l1.length + 1) by omega]

theorem cardTexts_append : ∀ (l1 l2 : List (Card × Text)) (s : PState), CardTexts s (l1 ++ l2) →
    CardTexts s l1 ∧ CardTexts (runPlay s (l1.map (·.1))) l2 := by
  intro l1
  induction l1 with
  | nil => intro l2 s h; exact ⟨cardTexts_nil s, by simpa using h⟩
  | cons x l1 ih =>
    intro l2 s h
    obtain ⟨c, t⟩ := x
    rw [List.cons_append, cardTexts_cons] at h
    obtain ⟨h1, h2⟩ := ih l2 _ h.2
    exact ⟨(cardTexts_cons _ _ _ _).2 ⟨h.1, h1⟩, by simpa using h2⟩

theorem playsAccepted_append : ∀ (l1 l2 : List Card) (w w' : WithHands), playsAccepted w (l1 ++ l2) = some w' →
    ∃ w1, playsAccepted w l1 = some w1 ∧ playsAccepted w1 l2 = some w' := by
  intro l1
  induction l1 with
  | nil => intro l2 w w' h; exact ⟨w, rfl, by simpa using h⟩
  | cons c l1 ih =>
    intro l2 w w' h
    rw [List.cons_append, playsAccepted_cons] at h
    rw [playsAccepted_cons]
    cases hp : w.play c w.base.active with
    | error e => rw [hp] at h; simp at h
    | ok w1 => rw [hp] at h; exact ih l2 w1 w' h

/-- the cards of one trick from the `idx`-th on -/
theorem mainTrick_run (decl : Seat) (deal : Hands) (k : Nat) (hk : 1 ≤ k) :
    ∀ (l : List (Card × Text)) (idx j : Nat) (w w' : WithHands) (i rest : MainIn),
    idx + l.length = 4 → j = 4 * (k - 1) + idx → PInv w.base j →
    CardTexts w.base l → playsAccepted w (l.map (·.1)) = some w' →
    Feeds i (cardPhases decl deal w.base j l) rest →
    ∃ X, mainTrickR decl (cardsMsg "Dummy".toList (deal decl.partner)) (decide (k = 1)) idx w i =
        some (X, w', rest) ∧
      progOfPhases (cardPhases decl deal w.base j l) .main =
        (if idx = 0 then putAll w.base.leader.formal else []) ++ X := by
  intro l
  induction l with
  | nil =>
    intro idx j w w' i rest hidx hj hpi hct hacc hfeed
    have : idx = 4 := by simpa using hidx
    subst this
    have hw : w = w' := by simpa [playsAccepted] using hacc
    subst hw
    refine ⟨[], ?_, ?_⟩
    · rw [mainTrickR.eq_1, feeds_nil hfeed]
    · simp [cardPhases]
  | cons x l ih =>
    intro idx j w w' i rest hidx hj hpi hct hacc hfeed
    obtain ⟨c, text⟩ := x
    have hidx4 : idx < 4 := by simp at hidx; omega
    obtain ⟨h1, h2⟩ := (cardTexts_cons _ _ _ _).1 hct
    rw [List.map_cons, playsAccepted_cons] at hacc
    cases hp : w.play c w.base.active with
    | error e => rw [hp] at hacc; simp at hacc
    | ok w1 =>
      rw [hp] at hacc
      have hb := play_base _ _ _ _ hp
      obtain ⟨i', hget, hfeed'⟩ := feeds_get (a := cardPlayer w.base.active decl) (m := text)
        (fun p => t2mOf_card p _ _ _ _ _ _ _ _ _ _) hfeed
      rw [← hb] at hfeed' h2
      obtain ⟨X, hX, hprog⟩ := ih (idx + 1) (j + 1) w1 w' i' rest (by simp at hidx; omega) (by omega)
        (by rw [hb]; exact pinv_step hpi c) h2 hacc hfeed'
      have hget' : i.get (if w.base.active = decl.partner then decl else w.base.active) = some (text, i') := hget
      refine ⟨[.recv (.t2m (cardPlayer w.base.active decl))] ++ putAllBut (cardPlayer w.base.active decl) text ++
        (if decide (k = 1) = true ∧ idx = 0 then
          putAllBut decl.partner (cardsMsg "Dummy".toList (deal decl.partner)) else []) ++ X, ?_, ?_⟩
      · rw [mainTrickR.eq_2 _ _ _ _ _ _ (by omega)]
        simp only [if_neg (show ¬ idx > 4 by omega), hget', Option.bind_eq_bind, Option.bind_some, h1, hp, hX,
          Option.pure_def]
        rfl
      · have hlen : w.base.trick.length = idx := by rw [hpi.len]; omega
        have hlead : (w.base.trick = []) ↔ idx = 0 := by
          rw [← hlen]; exact List.length_eq_zero_iff.symm
        have hopen : (j = 0) ↔ (k = 1 ∧ idx = 0) := by omega
        rw [hb] at hprog
        simp only [cardPhases, progOfPhases_cons, phaseProg, hprog]
        by_cases h0 : idx = 0 <;> by_cases hk1 : k = 1 <;>
          simp [h0, hk1, hlead, hopen, putAll, putAllBut, cardPlayer]

/-- `n` whole tricks, the first of them trick number `k` -/
theorem mainTricks_run (decl : Seat) (deal : Hands) :
    ∀ (n k : Nat) (l : List (Card × Text)) (w w' : WithHands) (i rest : MainIn),
    1 ≤ k → l.length = 4 * n → PInv w.base (4 * (k - 1)) →
    CardTexts w.base l → playsAccepted w (l.map (·.1)) = some w' →
    Feeds i (cardPhases decl deal w.base (4 * (k - 1)) l) rest →
    mainPlayingR.tricks decl (cardsMsg "Dummy".toList (deal decl.partner)) n k w i =
      some (progOfPhases (cardPhases decl deal w.base (4 * (k - 1)) l) .main, w', rest) := by
  intro n
  induction n with
  | zero =>
    intro k l w w' i rest hk hl hpi hct hacc hfeed
    have : l = [] := List.eq_nil_of_length_eq_zero (by omega)
    subst this
    have hw : w = w' := by simpa [playsAccepted] using hacc
    subst hw
    rw [mainPlayingR.tricks, feeds_nil hfeed]
    simp [cardPhases]
  | succ n ih =>
    intro k l w w' i rest hk hl hpi hct hacc hfeed
    have hsplit : l = l.take 4 ++ l.drop 4 := (List.take_append_drop 4 l).symm
    have hl1 : (l.take 4).length = 4 := by rw [List.length_take]; omega
    have hl2 : (l.drop 4).length = 4 * n := by rw [List.length_drop]; omega
    generalize l.take 4 = l1 at hsplit hl1
    generalize l.drop 4 = l2 at hsplit hl2
    subst hsplit
    obtain ⟨hct1, hct2⟩ := cardTexts_append l1 l2 _ hct
    rw [List.map_append] at hacc
    obtain ⟨w1, hacc1, hacc2⟩ := playsAccepted_append _ _ _ _ hacc
    have hb1 : w1.base = runPlay w.base (l1.map (·.1)) := (playsAccepted_spec _ _ _ hacc1).2
    rw [cardPhases_append] at hfeed ⊢
    rw [← hb1, hl1, show 4 * (k - 1) + 4 = 4 * (k + 1 - 1) by omega] at hfeed ⊢
    rw [← hb1] at hct2
    obtain ⟨X, hX, hprog⟩ := mainTrick_run decl deal k hk l1 0 (4 * (k - 1)) w w1 i _ (by omega) (by omega) hpi
      hct1 hacc1 (feeds_append hfeed)
    have hpi1 : PInv w1.base (4 * (k + 1 - 1)) := by
      have := pinv_run hpi (l1.map (·.1))
      rw [← hb1, List.length_map, hl1] at this
      rw [show 4 * (k + 1 - 1) = 4 * (k - 1) + 4 by omega]; exact this
    have hrec := ih (k + 1) l2 w1 w' _ rest (by omega) hl2 hpi1 hct2 hacc2 (feeds_refl _ rest)
    rw [mainPlayingR.tricks]
    simp only [hX, hrec, Option.bind_eq_bind, Option.bind_some, Option.pure_def, progOfPhases_append, hprog,
      if_true, List.append_assoc]

theorem mainPlaying_run (decl : Seat) (deal : Hands) (l : List (Card × Text)) (w w' : WithHands) (i rest : MainIn)
    (hl : l.length = 52) (hpi : PInv w.base 0) (hct : CardTexts w.base l)
    (hacc : playsAccepted w (l.map (·.1)) = some w')
    (hfeed : Feeds i (Phase.playStart decl.formal :: cardPhases decl deal w.base 0 l) rest) :
    mainPlayingR decl (cardsMsg "Dummy".toList (deal decl.partner)) w i =
      some (progOfPhases (Phase.playStart decl.formal :: cardPhases decl deal w.base 0 l) .main, w', rest) := by
  have h := mainTricks_run decl deal 13 1 l w w' i rest (by omega) (by omega) hpi hct hacc
    (feeds_skip (fun p => t2mOf_playStart p _) hfeed)
  simp only [mainPlayingR, h, Option.bind_eq_bind, Option.bind_some, Option.pure_def, progOfPhases_cons, phaseProg,
    putAll]

/-! ## the record -/

theorem recordFrom_passed (sc : Scenario) (b : BoardSetting) (d : Decisions)
    (hf : (boardContract b d).finalBid = none) :
    recordFrom sc b (d.calls.map (·.1)) (boardContract b d) none = recordOf sc b d := by
  rw [recordOf_passed sc b d (Or.inl hf)]
  simp only [recordFrom, hf]

theorem recordFrom_played (sc : Scenario) (b : BoardSetting) (d : Decisions) (i : Fin 35) (decl : Seat)
    (w0 w : WithHands) (hf : (boardContract b d).finalBid = some i) (hd : (boardContract b d).declarer = some decl)
    (hw0 : WithHands.init (boardContract b d) b.deal = some w0)
    (hacc : playsAccepted w0 (d.cards.map (·.1)) = some w) :
    recordFrom sc b (d.calls.map (·.1)) (boardContract b d) (some w) = recordOf sc b d := by
  have hpa : playAll (boardContract b d) b.deal (d.cards.map (·.1)) = some w := by
    simp only [playAll, hw0, Option.map_some]
    exact congrArg some (playsAccepted_spec _ _ _ hacc).1
  rw [recordOf_played sc b d i decl hf hd]
  simp only [recordFrom, hf, hd, hpa]
  rfl

/-! ## one board -/

/-- the last phase of a board -/
def finalPhase (sc : Scenario) (last : Bool) (b : BoardSetting) (d : Decisions) : Phase Text LogOp :=
  if last then Phase.lastBoard (LogOp.write (recordOf sc b d)) LogOp.close MSG_END
  else Phase.nextBoard (LogOp.write (recordOf sc b d)) MSG_NEXT MSG_START

theorem t2mOf_final (sc : Scenario) (last : Bool) (b : BoardSetting) (d : Decisions) (p : Seat) :
    t2mOf p (finalPhase sc last b d) = [] := by
  cases last <;> simp [finalPhase]

theorem final_rest (sc : Scenario) (last : Bool) (b : BoardSetting) (d : Decisions) (rest : MainIn) :
    (fun p => List.flatMap (t2mOf p) [finalPhase sc last b d] ++ rest p) = rest := by
  funext p; simp [t2mOf_final]

theorem boardPhases_eq_main (sc : Scenario) (k : Nat) (last : Bool) (b : BoardSetting) (d : Decisions) :
    boardPhases sc k last b d =
      Phase.deal (boardHeader k b.dealer b.vul) (fun p => cardsMsg p.formal (b.deal p))
        (fun p => readyFor p "deal".toList) (fun p => readyFor p "cards".toList) ::
      (callPhases b.dealer 0 d.calls ++
      (Phase.auctionEnd MSG_NULL (if (boardContract b d).isPassedOut then MSG_PASSED_OUT else MSG_NULL) ::
      ((match PState.init (boardContract b d), (boardContract b d).declarer with
        | some s0, some decl => Phase.playStart decl.formal :: cardPhases decl b.deal s0 0 d.cards
        | _, _ => []) ++ [finalPhase sc last b d]))) := by
  simp only [boardPhases, boardContract, finalPhase, List.append_assoc, List.cons_append, List.nil_append]
  rfl

/-- the auction of a board -/
theorem mainBoard_bid (b : BoardSetting) (d : Decisions) (hca : ConformingAuction b d) (htx : TextsConform b d)
    (i rest : MainIn) (tail : List (Phase Text LogOp))
    (hfeed : Feeds i (callPhases b.dealer 0 d.calls ++ tail) rest) :
    ∃ sf i2, sf.contract = some (boardContract b d) ∧ sf.history.reverse = d.calls.map (·.1) ∧
      Feeds i2 tail rest ∧
      mainBiddingR (320 + 1) (AState.init b.dealer b.vul) i =
        some (progOfPhases (callPhases b.dealer 0 d.calls) .main ++
          phaseProg (Phase.auctionEnd MSG_NULL
            (if (boardContract b d).isPassedOut then MSG_PASSED_OUT else MSG_NULL) : Phase Text LogOp) .main,
          sf, i2) := by
  have hbc := boardContract_conforming b d hca
  obtain ⟨hll, hel⟩ := hca
  have hleg : Legal b.dealer (d.calls.map (·.1)).reverse := (legal_iff_legalLaw _ _).2 hll
  have hov : over (d.calls.map (·.1)).reverse = true := over_of_ended_law _ hel
  have hlen : d.calls.length ≤ 319 := by
    have := legal_length_le_319 _ _ hleg
    simpa using this
  obtain ⟨sf, hisf, hbid⟩ := mainBidding_run b.dealer b.vul d.calls 0 (AState.init b.dealer b.vul) [] (320 + 1) i _
    (ainv_init _ _) rfl (by simpa using hleg) (by simpa using hov)
    (fun j hj => by simpa using htx.calls j hj) (by omega) (feeds_append hfeed)
  simp only [List.append_nil] at hisf hbid
  rw [← hbc] at hbid
  refine ⟨sf, _, ?_, ?_, feeds_refl tail rest, hbid⟩
  · rw [hbc]; exact C03.contract_is_spec _ _ _ _ ⟨hisf, hleg⟩ hel
  · rw [hisf.hist, List.reverse_reverse]

theorem mainBoard_run (sc : Scenario) (k : Nat) (last : Bool) (b : BoardSetting) (d : Decisions)
    (hca : ConformingAuction b d) (hcp : ConformingPlay b d) (htx : TextsConform b d) (i rest : MainIn)
    (hfeed : Feeds i (boardPhases sc k last b d) rest) :
    mainBoardR sc k last b i = some (progOfPhases (boardPhases sc k last b d) .main, rest) := by
  have hbc := boardContract_conforming b d hca
  rw [boardPhases_eq_main] at hfeed ⊢
  have hfeed1 := feeds_skip (fun p => t2mOf_deal p _ _ _ _) hfeed
  rcases specContract_shape b.dealer b.vul (d.calls.map (·.1)).reverse with ⟨hf, hd⟩ | ⟨bi, decl, hf, hd⟩
  · rw [← hbc] at hf hd
    have hpo : (boardContract b d).isPassedOut = true := by simp [Contract.isPassedOut, hf]
    have hinit : PState.init (boardContract b d) = none := by simp [PState.init, hf]
    simp only [hinit, List.nil_append] at hfeed1 ⊢
    obtain ⟨sf, i2, hcon, hhist, hfeed2, hbid⟩ := mainBoard_bid b d hca htx i rest _ hfeed1
    have hi2 : i2 = rest := feeds_nil
      (feeds_skip (t2mOf_final sc last b d) (feeds_skip (fun p => t2mOf_auctionEnd p _ _) hfeed2))
    subst hi2
    unfold mainBoardR
    rw [hbid]
    simp only [Option.bind_eq_bind, Option.bind_some, hcon, hhist, hpo, if_true, Option.pure_def,
      recordFrom_passed sc b d hf]
    cases last <;>
      simp [progOfPhases_cons, progOfPhases_append, phaseProg, mainDealR, putAll, finalPhase]
  · rw [← hbc] at hf hd
    have hpo : (boardContract b d).isPassedOut = false := by simp [Contract.isPassedOut, hf]
    obtain ⟨s0, hs0, -⟩ := C04.opening_lead_and_dummy (boardContract b d) bi decl hf hd
    have hw0 : WithHands.init (boardContract b d) b.deal = some ⟨s0, b.deal⟩ := by
      simp [WithHands.init, hs0]
    have hct := cardTexts_of_conform b d htx _ hw0
    unfold ConformingPlay at hcp
    rw [hw0] at hcp
    obtain ⟨h52, hacc⟩ := hcp
    obtain ⟨w', hw'⟩ := Option.isSome_iff_exists.1 hacc
    simp only [hs0, hd] at hfeed1 ⊢
    obtain ⟨sf, i2, hcon, hhist, hfeed2, hbid⟩ := mainBoard_bid b d hca htx i rest _ hfeed1
    have hplay := mainPlaying_run decl b.deal d.cards ⟨s0, b.deal⟩ w' _ _ h52 (pinv_init hs0) hct hw'
      (feeds_append (feeds_skip (fun p => t2mOf_auctionEnd p _ _) hfeed2))
    rw [final_rest] at hplay
    unfold mainBoardR
    rw [hbid]
    simp only [Option.bind_eq_bind, Option.bind_some, hcon, hhist, hpo, hd, hw0, hplay, Option.pure_def,
      recordFrom_played sc b d bi decl _ w' hf hd hw0 hw']
    cases last <;>
      simp [progOfPhases_cons, progOfPhases_append, phaseProg, mainDealR, putAll, finalPhase]

/-! ## the boards, the session -/

theorem mainBoards_run (sc : Scenario) : ∀ (boards : List (BoardSetting × Decisions)) (k : Nat) (i : MainIn),
    (∀ bd ∈ boards, ConformingAuction bd.1 bd.2 ∧ ConformingPlay bd.1 bd.2 ∧ TextsConform bd.1 bd.2) →
    Feeds i (boardsPhases sc k boards) (fun _ => []) →
    mainBoardsR sc k (boards.map (·.1)) i = some (progOfPhases (boardsPhases sc k boards) .main) := by
  intro boards
  induction boards with
  | nil => intro k i _ _; rfl
  | cons x r ih =>
    intro k i hc hfeed
    obtain ⟨b, d⟩ := x
    obtain ⟨h1, h2, h3⟩ := hc (b, d) List.mem_cons_self
    cases r with
    | nil =>
      simp only [boardsPhases] at hfeed ⊢
      simp only [List.map_cons, List.map_nil, mainBoardsR, mainBoard_run sc k true b d h1 h2 h3 i _ hfeed,
        Option.map_some]
    | cons y r' =>
      rw [boardsPhases] at hfeed ⊢
      · have hb := mainBoard_run sc k false b d h1 h2 h3 i _ (feeds_append hfeed)
        have hr := ih (k + 1) _ (fun bd hbd => hc bd (List.mem_cons_of_mem _ hbd)) (feeds_refl _ _)
        rw [List.map_cons, List.map_cons, mainBoardsR.eq_3 _ _ _ _ _ (by simp), hb]
        rw [List.map_cons] at hr
        simp only [Option.bind_eq_bind, Option.bind_some, hr, Option.pure_def, progOfPhases_append]
      · simp
      · simp

/-- fed the messages the seat threads forward to it in a session whose decisions are conforming and whose texts mean
what was decided, the reactive main thread performs exactly the straight-line program of the session model — the
records it writes included -/
theorem mainReactive_session (sc : Scenario) (h : sc.boards ≠ [])
    (hc : ∀ bd ∈ sc.boards, ConformingAuction bd.1 bd.2 ∧ ConformingPlay bd.1 bd.2 ∧ TextsConform bd.1 bd.2) :
    mainReactive sc (sc.boards.map (·.1)) (fun p => sendsOn (Chan.t2m p) (sessionProg sc (.seat p)))
      = some (sessionProg sc .main) := by
  have _ := h   -- not needed: with no board both sides are the seating phase alone
  have hfeed : Feeds (fun p => sendsOn (Chan.t2m p) (sessionProg sc (.seat p))) (boardsPhases sc 1 sc.boards)
      (fun _ => []) := by
    intro p
    show sendsOn (Chan.t2m p) (sessionProg sc (.seat p)) = _
    unfold sessionProg sessionPhases
    rw [sendsOn_progOfPhases, List.flatMap_cons]
    show t2mOf p _ ++ List.flatMap (t2mOf p) _ = _
    simp
  unfold mainReactive
  rw [mainBoards_run sc sc.boards 1 _ hc hfeed]
  simp only [Option.map_some, sessionProg, sessionPhases, progOfPhases_cons, phaseProg]

end Bridge
