import BridgeVerif.Lemmas.RegexHandsA
/-!
# `HAND_PATTERN` = `([2-9TJQKA]*).([2-9TJQKA]*).([2-9TJQKA]*).([2-9TJQKA]*)` is `matchGroups 3`  (Appendix F, R1, part B)
-/
namespace Bridge.RegexHands
open Bridge Bridge.Re Bridge.RegexPbn

def starR : Re := .rep 0 none (.cls false rankItems)
def handRe : Re :=
  .seq (.group 1 starR) (.seq .any (.seq (.group 2 starR) (.seq .any (.seq (.group 3 starR) (.seq .any
    (.group 4 starR))))))

theorem parse_hand : Re.parse HAND_PATTERN = some handRe := by decide +kernel

theorem den_group_star (j : Nat) (k : St → Re.Res St) (pos : Nat) (rest : List Char) (caps : Caps) :
    den false (.group (j + 1) starR) k ⟨pos, rest, caps⟩ =
      repDen isRankChar 0 none (fun st' => k { st' with caps := st'.caps.set j (some (pos, st'.pos)) })
        caps 0 pos rest := by
  simp only [den, starR, charPred, rank_pred, setCap]

/-- `(R*).` followed by `K'` is `tryLen` over the scanner of `K'` -/
theorem rel_star_any (s : List Char) (hnl : '\n' ∉ s) (N j : Nat) (hj : j < N) (K' : St → Re.Res St)
    (cont : List Char → Option (List (List Char))) (h : Rel s N (j + 1) K' cont) :
    Rel s N j (den false (.group (j + 1) starR) (den false .any K'))
      (fun r => tryLen cont r (r.takeWhile isRankChar).length) := by
  intro pos rest caps hd hl
  rw [den_group_star]
  have hk : ∀ m, absRes s ((fun st' : St => den false .any K'
        { st' with caps := st'.caps.set j (some (pos, st'.pos)) }) ⟨pos + m, rest.drop m, caps⟩)
      = some ((tryAt cont rest m).map fun gs => (texts s caps).take j ++ gs.map some) := by
    intro m
    simp only [den, stepChar, tryAt]
    cases hdm : rest.drop m with
    | nil => simp [absRes]
    | cons x xs =>
      have hx : x ≠ '\n' := by
        intro e
        apply hnl
        have h1 : x ∈ rest.drop m := by rw [hdm]; simp
        have h2 : x ∈ rest := List.mem_of_mem_drop h1
        rw [← hd] at h2
        rw [← e]
        exact List.mem_of_mem_drop h2
      have hdrop : s.drop (pos + m + 1) = xs := by
        apply drop_succ_of_cons s (pos + m) x xs
        rw [← List.drop_drop, hd, hdm]
      have := h (pos + m + 1) xs (caps.set j (some (pos, pos + m))) hdrop (by simp [hl])
      simp only [hx, bne_iff_ne, ne_eq, not_false_eq_true, if_true]
      rw [this, texts_set s caps j pos m (by omega), hd]
      cases cont xs <;> simp
  have h1 := star_scanUp s (fun gs => (texts s caps).take j ++ gs.map some) isRankChar
    (fun st' : St => den false .any K' { st' with caps := st'.caps.set j (some (pos, st'.pos)) }) caps pos rest
    (tryAt cont rest) hk rest 0 0 rfl
  have e := tryLen_eq_scanUp isRankChar cont rest rest 0
  simp only [Nat.zero_add, tryBelow, Option.or_none] at e
  rw [← e] at h1
  exact h1

/-- the last `(R*)` -/
theorem rel_star_last (s : List Char) (j : Nat) :
    Rel s (j + 1) j (den false (.group (j + 1) starR) (kfin 0 false false)) (matchGroups 0) := by
  intro pos rest caps hd hl
  rw [den_group_star]
  have hk : ∀ m, absRes s ((fun st' : St => kfin 0 false false
        { st' with caps := st'.caps.set j (some (pos, st'.pos)) }) ⟨pos + m, rest.drop m, caps⟩)
      = some ((some [rest.take m]).map fun gs => (texts s caps).take j ++ gs.map some) := by
    intro m
    have e : (texts s (caps.set j (some (pos, pos + m))))
        = (texts s (caps.set j (some (pos, pos + m)))).take (j + 1) := by
      rw [List.take_of_length_le]
      simp [texts]; omega
    simp only [kfin, Bool.false_and, Bool.or_false, Bool.false_eq_true, if_false, absRes]
    rw [e, texts_set s caps j pos m (by omega), hd]
    simp
  have h1 := star_scanUp s (fun gs => (texts s caps).take j ++ gs.map some) isRankChar
    (fun st' : St => kfin 0 false false { st' with caps := st'.caps.set j (some (pos, st'.pos)) }) caps pos rest
    (fun m => some [rest.take m]) hk rest 0 0 rfl
  rw [scanUp_some isRankChar (fun m => [rest.take m]) rest 0] at h1
  simp only [Nat.zero_add, take_length_takeWhile] at h1
  exact h1

theorem handRe_ngroups : handRe.ngroups = 4 := by decide
theorem handRe_simple : simple handRe = true := by decide

theorem match_hand (f : List Char) (hnl : '\n' ∉ f) :
    (Re.pyMatch false HAND_PATTERN f).map (Option.map (groupTexts f)) = some ((matchGroups 3 f).map (·.map some)) := by
  rw [pyMatch_abs HAND_PATTERN f handRe parse_hand handRe_simple, handRe_ngroups]
  have r3 := rel_star_last f 3
  have r2 := rel_star_any f hnl 4 2 (by omega) _ _ r3
  have r1 := rel_star_any f hnl 4 1 (by omega) _ _ r2
  have r0 := rel_star_any f hnl 4 0 (by omega) _ _ r1
  have := r0 0 f (List.replicate 4 none) rfl rfl
  simp only [List.take_zero, List.nil_append] at this
  exact this

end Bridge.RegexHands
