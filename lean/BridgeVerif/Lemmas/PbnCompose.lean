import BridgeVerif.Lemmas.PbnExport
import BridgeVerif.Lemmas.PbnImport
/-! Export ∘ import: what `PbnWriter` writes, read by `PbnParser` (C18). -/
namespace Bridge

theorem mapM_mem_some {α β : Type} {f : α → Option β} : ∀ {l : List α} {out : List β},
    l.mapM f = some out → ∀ y ∈ out, ∃ x ∈ l, f x = some y
  | [], out, h, y, hy => by
    simp at h
    subst h
    cases hy
  | x :: r, out, h, y, hy => by
    rw [List.mapM_cons] at h
    cases hx : f x with
    | none => simp [hx] at h
    | some b =>
      cases hr : r.mapM f with
      | none => simp [hx, hr] at h
      | some bs =>
        simp [hx, hr] at h
        subst h
        rcases List.mem_cons.1 hy with rfl | hy'
        · exact ⟨x, List.mem_cons_self, hx⟩
        · obtain ⟨x', hx', hfx⟩ := mapM_mem_some hr y hy'
          exact ⟨x', List.mem_cons_of_mem _ hx', hfx⟩

theorem mapM_length {α β : Type} {f : α → Option β} : ∀ {l : List α} {out : List β},
    l.mapM f = some out → out.length = l.length
  | [], out, h => by simp at h; subst h; rfl
  | x :: r, out, h => by
    rw [List.mapM_cons] at h
    cases hx : f x with
    | none => simp [hx] at h
    | some b =>
      cases hr : r.mapM f with
      | none => simp [hx, hr] at h
      | some bs =>
        simp [hx, hr] at h
        subst h
        simp [mapM_length hr]

theorem mapM_getElem {α β : Type} {f : α → Option β} : ∀ {l : List α} {out : List β},
    l.mapM f = some out → ∀ i (h₁ : i < l.length) (h₂ : i < out.length), f l[i] = some out[i]
  | [], out, h, i, h₁, _ => by simp at h₁
  | x :: r, out, h, i, h₁, h₂ => by
    rw [List.mapM_cons] at h
    cases hx : f x with
    | none => simp [hx] at h
    | some b =>
      cases hr : r.mapM f with
      | none => simp [hx, hr] at h
      | some bs =>
        simp [hx, hr] at h
        subst h
        cases i with
        | zero => simpa using hx
        | succ j => simpa using mapM_getElem hr j (by simpa using h₁) (by simpa using h₂)

theorem resultGame_tagList (tags : List (Str × Str)) : (resultGame tags).tagList = tags := by
  simp [resultGame, GameL.tagList, List.filterMap_map, Function.comp_def]

/-- the board a written result stands for -/
def PbnResult.board (r : PbnResult) : SettingEntry :=
  ⟨intRepr r.boardNum, r.dealer, r.deal, r.contract.vul, none⟩

theorem vulPbn_spelling (v : Vul) : vulPbn v ∈ vulSpellings v := by cases v <;> decide

theorem resultGame_describes (r : PbnResult) (h : r.WF) (tags : List (Str × Str)) (ht : resultTags? r = some tags) :
    (resultGame tags).Describes r.board := by
  have hv := resultTags_values r tags ht
  obtain ⟨s, hs, _⟩ := C14.pbn_round_trip r.deal h.deal r.dealer
  have hf : ∀ name, (resultGame tags).firstTag? name = (tags.find? fun kv => kv.1 == name).map (·.2) := by
    intro name
    rw [firstTag_eq, resultGame_tagList]
  refine ⟨⟨r.dealer, ?_, by simp [PbnResult.board, hs]⟩, ?_, ⟨vulPbn r.contract.vul, vulPbn_spelling _, ?_⟩, ?_⟩
  · rw [hf, hv]
    simp [PbnResult.board, hs]
  · rw [hf, hv]
    simp [PbnResult.board]
  · rw [hf, hv]
    simp
  · rw [hf, hv]
    simp [PbnResult.board]

theorem export_settings (rs : List PbnResult) (h : ∀ r ∈ rs, r.WF) :
    ∃ css ss, rs.mapM writeBoardResult? = some css ∧ pbnBoardSettings? (pyLines css.flatten.flatten) = some ss ∧
      ss.length = rs.length ∧
      ∀ i (h₁ : i < ss.length) (h₂ : i < rs.length), SameBoard ss[i] rs[i].board := by
  obtain ⟨tagss, css, h1, h2, h3, h4⟩ := export_is_layout rs h
  have htext : css.flatten.flatten = (exportFile tagss).text := by rw [h3]; rfl
  have hlen : tagss.length = rs.length := mapM_length h1
  obtain ⟨ss, hs1, hs2, hs3⟩ := pbnBoardSettings_layout_getElem (exportFile tagss) h4 (rs.map PbnResult.board)
    (by simp [exportFile, hlen])
    (by
      intro i h₁ h₂
      have hi : i < rs.length := by simpa using h₂
      have hi' : i < tagss.length := by omega
      have := mapM_getElem h1 i hi hi'
      simp only [exportFile, List.getElem_map]
      exact resultGame_describes rs[i] (h _ (List.getElem_mem hi)) _ this)
    (by
      intro b hb
      obtain ⟨r, hr, rfl⟩ := List.mem_map.1 hb
      exact (h r hr).deal)
  refine ⟨css, ss, h2, ?_, by simpa using hs2, ?_⟩
  · rw [htext, pyLines_text _ h4]; exact hs1
  · intro i h₁ h₂
    have := hs3 i h₁ (by simpa using h₂)
    simpa using this

end Bridge
