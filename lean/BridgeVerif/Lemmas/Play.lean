import BridgeVerif.Spec.Play
/-! Helper lemmas for C04, C05, C06, C11a (play). -/
namespace Bridge

end Bridge
