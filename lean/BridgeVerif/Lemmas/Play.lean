import BridgeVerif.Spec.Play
/-! Helper lemmas for C04, C05, C06, C11a (play). -/
namespace Bridge

/-! ## The loop of `calc_highest` -/

/-- accumulator invariant of the loop of `calc_highest` over the prefix `pre` already scanned -/
def HAcc (suit : Suit) (pre : List Card) (n hi : Int) : Prop :=
  (n = -1 ∧ hi = -1 ∧ ∀ c ∈ pre, c.suit ≠ suit) ∨
  (∃ k : Nat, n = (k : Int) ∧ ∃ c, pre[k]? = some c ∧ c.suit = suit ∧ hi = (c.rank : Int) ∧
    (∀ c' ∈ pre, c'.suit = suit → c'.rank ≤ c.rank) ∧
    ∀ m c', m < k → pre[m]? = some c' → c'.suit = suit → c'.rank < c.rank)

theorem hacc_skip {suit : Suit} {pre : List Card} {n hi : Int} {c : Card}
    (h : HAcc suit pre n hi) (hc : c.suit ≠ suit) : HAcc suit (pre ++ [c]) n hi := by
  rcases h with ⟨h1, h2, h3⟩ | ⟨k, hk, d, hd, hs, hh, hmax, hlt⟩
  · left; refine ⟨h1, h2, ?_⟩
    intro x hx; rcases List.mem_append.1 hx with hx | hx
    · exact h3 x hx
    · simp at hx; subst hx; exact hc
  · right
    have hkl : k < pre.length := by
      rcases Nat.lt_or_ge k pre.length with h | h
      · exact h
      · simp [List.getElem?_eq_none h] at hd
    refine ⟨k, hk, d, ?_, hs, hh, ?_, ?_⟩
    · rw [List.getElem?_append_left hkl]; exact hd
    · intro x hx hxs; rcases List.mem_append.1 hx with hx | hx
      · exact hmax x hx hxs
      · simp at hx; subst hx; exact absurd hxs hc
    · intro m x hm hx hxs
      rw [List.getElem?_append_left (by omega)] at hx
      exact hlt m x hm hx hxs

theorem hacc_keep {suit : Suit} {pre : List Card} {n hi : Int} {c : Card}
    (h : HAcc suit pre n hi) (hc : c.suit = suit) (hle : ¬ hi < (c.rank : Int)) :
    HAcc suit (pre ++ [c]) n hi := by
  rcases h with ⟨h1, h2, h3⟩ | ⟨k, hk, d, hd, hs, hh, hmax, hlt⟩
  · exfalso; omega
  · right
    have hkl : k < pre.length := by
      rcases Nat.lt_or_ge k pre.length with h | h
      · exact h
      · simp [List.getElem?_eq_none h] at hd
    refine ⟨k, hk, d, ?_, hs, hh, ?_, ?_⟩
    · rw [List.getElem?_append_left hkl]; exact hd
    · intro x hx hxs; rcases List.mem_append.1 hx with hx | hx
      · exact hmax x hx hxs
      · simp at hx; subst hx; omega
    · intro m x hm hx hxs
      rw [List.getElem?_append_left (by omega)] at hx
      exact hlt m x hm hx hxs

theorem hacc_new {suit : Suit} {pre : List Card} {n hi : Int} {c : Card}
    (h : HAcc suit pre n hi) (hc : c.suit = suit) (hlt' : hi < (c.rank : Int)) :
    HAcc suit (pre ++ [c]) (pre.length : Int) (c.rank : Int) := by
  right
  refine ⟨pre.length, rfl, c, by simp, hc, rfl, ?_, ?_⟩
  · intro x hx hxs; rcases List.mem_append.1 hx with hx | hx
    · rcases h with ⟨h1, h2, h3⟩ | ⟨k, hk, d, hd, hs, hh, hmax, hlt⟩
      · exact absurd hxs (h3 x hx)
      · have := hmax x hx hxs; omega
    · simp at hx; subst hx; exact Nat.le_refl _
  · intro m x hm hx hxs
    rw [List.getElem?_append_left hm] at hx
    have hxm : x ∈ pre := List.mem_of_getElem? hx
    rcases h with ⟨h1, h2, h3⟩ | ⟨k, hk, d, hd, hs, hh, hmax, hlt⟩
    · exact absurd hxs (h3 x hxm)
    · have := hmax x hxm hxs; omega

theorem calcHighestAux_acc (suit : Suit) : ∀ (cs pre : List Card) (n hi : Int),
    HAcc suit pre n hi →
    ∃ hi', HAcc suit (pre ++ cs) (calcHighestAux suit cs pre.length n hi) hi' := by
  intro cs
  induction cs with
  | nil => intro pre n hi h; exact ⟨hi, by simpa [calcHighestAux] using h⟩
  | cons c cs ih =>
    intro pre n hi h
    have e : pre ++ c :: cs = (pre ++ [c]) ++ cs := by simp
    have el : pre.length + 1 = (pre ++ [c]).length := by simp
    rw [e]
    unfold calcHighestAux
    by_cases hc : c.suit ≠ suit
    · rw [if_pos hc, el]; exact ih _ _ _ (hacc_skip h hc)
    · rw [if_neg hc]
      have hc' : c.suit = suit := Classical.not_not.1 hc
      by_cases hl : hi < (c.rank : Int)
      · rw [if_pos hl, el]; exact ih _ _ _ (hacc_new h hc' hl)
      · rw [if_neg hl, el]; exact ih _ _ _ (hacc_keep h hc' hl)

theorem calcHighest_acc (suit : Suit) (cs : List Card) (hs : suit ≠ .NT) :
    ∃ hi', HAcc suit cs (calcHighest suit cs) hi' := by
  have := calcHighestAux_acc suit cs [] (-1) (-1) (Or.inl ⟨rfl, rfl, by simp⟩)
  simpa [calcHighest, hs] using this

theorem calcHighest_spec (suit : Suit) (cs : List Card) :
    (calcHighest suit cs = -1 ↔ (suit = .NT ∨ ∀ c ∈ cs, c.suit ≠ suit)) ∧
    (-1 ≤ calcHighest suit cs) ∧
    (∀ n : Nat, calcHighest suit cs = (n : Int) →
      ∃ c, cs[n]? = some c ∧ c.suit = suit ∧ (∀ c' ∈ cs, c'.suit = suit → c'.rank ≤ c.rank) ∧
        ∀ m c', m < n → cs[m]? = some c' → c'.suit = suit → c'.rank < c.rank) := by
  by_cases hs : suit = .NT
  · subst hs
    refine ⟨by simp [calcHighest], by simp [calcHighest], ?_⟩
    intro n hn
    have : calcHighest Suit.NT cs = -1 := by simp [calcHighest]
    omega
  · obtain ⟨hi', h⟩ := calcHighest_acc suit cs hs
    rcases h with ⟨h1, _, h3⟩ | ⟨k, hk, d, hd, hds, _, hmax, hlt⟩
    · refine ⟨⟨fun _ => Or.inr h3, fun _ => h1⟩, by omega, ?_⟩
      intro n hn; omega
    · refine ⟨⟨fun e => by omega, ?_⟩, by omega, ?_⟩
      · rintro (e | e)
        · exact absurd e hs
        · exact absurd hds (e d (List.mem_of_getElem? hd))
      · intro n hn
        have : k = n := by omega
        subst this
        exact ⟨d, hd, hds, hmax, hlt⟩

/-! ## `playCard` field lemmas -/
@[simp] theorem addTaken_trump (s : PState) (sd : Side) : (addTaken s sd).trump = s.trump := by cases sd <;> rfl
@[simp] theorem addTaken_declarer (s : PState) (sd : Side) : (addTaken s sd).declarer = s.declarer := by cases sd <;> rfl
@[simp] theorem addTaken_dummy (s : PState) (sd : Side) : (addTaken s sd).dummy = s.dummy := by cases sd <;> rfl
@[simp] theorem addTaken_leader (s : PState) (sd : Side) : (addTaken s sd).leader = s.leader := by cases sd <;> rfl
@[simp] theorem addTaken_active (s : PState) (sd : Side) : (addTaken s sd).active = s.active := by cases sd <;> rfl
@[simp] theorem addTaken_trick (s : PState) (sd : Side) : (addTaken s sd).trick = s.trick := by cases sd <;> rfl
@[simp] theorem addTaken_trickNum (s : PState) (sd : Side) : (addTaken s sd).trickNum = s.trickNum := by cases sd <;> rfl
@[simp] theorem addTaken_history (s : PState) (sd : Side) : (addTaken s sd).history = s.history := by cases sd <;> rfl
@[simp] theorem addTaken_used (s : PState) (sd : Side) : (addTaken s sd).used = s.used := by cases sd <;> rfl
theorem addTaken_takenNS (s : PState) (sd : Side) :
    (addTaken s sd).takenNS = s.takenNS + (if sd = .NS then 1 else 0) := by cases sd <;> rfl
theorem addTaken_takenEW (s : PState) (sd : Side) :
    (addTaken s sd).takenEW = s.takenEW + (if sd = .EW then 1 else 0) := by cases sd <;> rfl

/-- the fourth card of a trick -/
theorem playCard_complete (s : PState) (x : Card) (h : s.trick.length = 3) :
    playCard s x =
      addTaken { s with trick := [], used := setAdd x s.used,
                        history := ⟨s.leader, s.trick ++ [x]⟩ :: s.history,
                        leader := s.leader.rot (winnerIdx s.trump (s.trick ++ [x])),
                        active := s.leader.rot (winnerIdx s.trump (s.trick ++ [x])),
                        trickNum := s.trickNum + 1 }
        (s.leader.rot (winnerIdx s.trump (s.trick ++ [x]))).side := by
  simp [playCard, h, winnerIdx]

/-- any other card -/
theorem playCard_incomplete (s : PState) (x : Card) (h : s.trick.length ≠ 3) :
    playCard s x = { s with trick := s.trick ++ [x], used := setAdd x s.used, active := s.active.left } := by
  simp [playCard, h]

@[simp] theorem playCard_trump (s : PState) (x : Card) : (playCard s x).trump = s.trump := by
  unfold playCard; simp only []; split <;> simp
@[simp] theorem playCard_dummy (s : PState) (x : Card) : (playCard s x).dummy = s.dummy := by
  unfold playCard; simp only []; split <;> simp
@[simp] theorem playCard_declarer (s : PState) (x : Card) : (playCard s x).declarer = s.declarer := by
  unfold playCard; simp only []; split <;> simp
@[simp] theorem playCard_used (s : PState) (x : Card) : (playCard s x).used = setAdd x s.used := by
  unfold playCard; simp only []; split <;> simp

theorem mem_setAdd (x : Card) (l : List Card) : x ∈ setAdd x l := by
  unfold setAdd; split <;> simp_all

@[simp] theorem runPlay_nil (s : PState) : runPlay s [] = s := rfl
@[simp] theorem runPlay_cons (s : PState) (x : Card) (xs : List Card) :
    runPlay s (x :: xs) = runPlay (playCard s x) xs := rfl
theorem runPlay_append (s : PState) (xs ys : List Card) :
    runPlay s (xs ++ ys) = runPlay (runPlay s xs) ys := by simp [runPlay]

theorem left_rot (d : Seat) (n : Nat) : (d.rot n).left = d.rot (n + 1) := rfl

/-- invariant of the playing phase after `n` cards -/
structure PInv (s : PState) (n : Nat) : Prop where
  act : s.active = s.leader.rot s.trick.length
  len : s.trick.length = n % 4
  tn : s.trickNum = n / 4 + 1
  hl : s.history.length = n / 4
  tk : s.takenNS + s.takenEW = n / 4

theorem init_some {c : Contract} {s0 : PState} (h0 : PState.init c = some s0) :
    ∃ b d, c.finalBid = some b ∧ c.declarer = some d ∧
      s0 = { trump := bidDenom b, declarer := d, dummy := d.partner, leader := d.left, active := d.left,
             trick := [], trickNum := 1, history := [], used := [], takenNS := 0, takenEW := 0 } := by
  unfold PState.init at h0
  split at h0
  · next b d hb hd => exact ⟨b, d, hb, hd, by simpa using h0.symm⟩
  · simp at h0

theorem pinv_init {c : Contract} {s0 : PState} (h0 : PState.init c = some s0) : PInv s0 0 := by
  obtain ⟨b, d, _, _, rfl⟩ := init_some h0
  constructor <;> simp [Seat.rot]

theorem pinv_step {s : PState} {n : Nat} (h : PInv s n) (x : Card) : PInv (playCard s x) (n + 1) := by
  obtain ⟨act, len, tn, hl, tk⟩ := h
  by_cases h3 : s.trick.length = 3
  · rw [playCard_complete s x h3]
    constructor
    · simp [Seat.rot]
    · simp; omega
    · simp; omega
    · simp; omega
    · simp only [addTaken_takenNS, addTaken_takenEW]
      cases (s.leader.rot (winnerIdx s.trump (s.trick ++ [x]))).side <;> simp <;> omega
  · rw [playCard_incomplete s x h3]
    constructor
    · simp [act, left_rot]
    · simp; omega
    · simp; omega
    · simp; omega
    · simp; omega

theorem pinv_run {s : PState} {n : Nat} (h : PInv s n) (plays : List Card) :
    PInv (runPlay s plays) (n + plays.length) := by
  induction plays generalizing s n with
  | nil => simpa using h
  | cons x xs ih =>
    have := ih (pinv_step h x)
    simpa [Nat.add_assoc, Nat.add_comm 1] using this

theorem pinv_of_init {c : Contract} {s0 : PState} (h0 : PState.init c = some s0) (plays : List Card) :
    PInv (runPlay s0 plays) plays.length := by
  simpa using pinv_run (pinv_init h0) plays

/-- four cards played from the start of a trick -/
theorem four_cards (s : PState) (a b c d : Card) (ht : s.trick = []) :
    let s4 := playCard (playCard (playCard (playCard s a) b) c) d
    let w := s.leader.rot (winnerIdx s.trump [a, b, c, d])
    s4.trick = [] ∧ s4.trump = s.trump ∧ s4.leader = w ∧
    s4.history = ⟨s.leader, [a, b, c, d]⟩ :: s.history ∧
    s4.takenNS = s.takenNS + (if w.side = .NS then 1 else 0) ∧
    s4.takenEW = s.takenEW + (if w.side = .EW then 1 else 0) := by
  intro s4 w
  have e1 : playCard s a = { s with trick := [a], used := setAdd a s.used, active := s.active.left } := by
    rw [playCard_incomplete s a (by simp [ht])]; simp [ht]
  have e2 : (playCard (playCard s a) b).trick = [a, b] ∧ (playCard (playCard s a) b).leader = s.leader ∧
      (playCard (playCard s a) b).history = s.history ∧ (playCard (playCard s a) b).takenNS = s.takenNS ∧
      (playCard (playCard s a) b).takenEW = s.takenEW := by
    rw [playCard_incomplete _ b (by simp [e1])]; simp [e1]
  obtain ⟨t2, l2, h2, n2, w2⟩ := e2
  have e3 : (playCard (playCard (playCard s a) b) c).trick = [a, b, c] ∧
      (playCard (playCard (playCard s a) b) c).leader = s.leader ∧
      (playCard (playCard (playCard s a) b) c).history = s.history ∧
      (playCard (playCard (playCard s a) b) c).takenNS = s.takenNS ∧
      (playCard (playCard (playCard s a) b) c).takenEW = s.takenEW := by
    rw [playCard_incomplete _ c (by simp [t2])]; simp [t2, l2, h2, n2, w2]
  obtain ⟨t3, l3, h3, n3, w3⟩ := e3
  have hs4 : s4 = playCard (playCard (playCard (playCard s a) b) c) d := rfl
  rw [playCard_complete _ d (by simp [t3])] at hs4
  have hw : w = s.leader.rot (winnerIdx s.trump [a, b, c, d]) := rfl
  simp only [playCard_trump, t3, l3, h3, n3, w3, List.cons_append, List.nil_append, ← hw] at hs4
  rw [hs4]
  refine ⟨by simp, by simp, by simp, by simp, ?_, ?_⟩
  · rw [addTaken_takenNS]
  · rw [addTaken_takenEW]

theorem run_tricksOf : ∀ (plays : List Card) (s : PState), s.trick = [] →
    (runPlay s plays).history.reverse = s.history.reverse ++ (tricksOf s.trump s.leader plays).1 ∧
    (runPlay s plays).leader = (tricksOf s.trump s.leader plays).2.1 ∧
    (runPlay s plays).trick = (tricksOf s.trump s.leader plays).2.2 ∧
    (runPlay s plays).takenNS = s.takenNS + wonBy s.trump s.leader .NS plays ∧
    (runPlay s plays).takenEW = s.takenEW + wonBy s.trump s.leader .EW plays
  | a :: b :: c :: d :: rest, s, ht => by
    obtain ⟨t4, tr4, l4, h4, n4, w4⟩ := four_cards s a b c d ht
    have ih := run_tricksOf rest _ t4
    simp only [runPlay_cons, tricksOf, wonBy]
    rw [tr4, l4, h4, n4, w4] at ih
    obtain ⟨i1, i2, i3, i4, i5⟩ := ih
    refine ⟨?_, i2, i3, ?_, ?_⟩
    · rw [i1]; simp
    · rw [i4]; omega
    · rw [i5]; omega
  | [], s, ht => by simp [tricksOf, wonBy, ht]
  | [a], s, ht => by
    simp [tricksOf, wonBy, playCard_incomplete, ht]
  | [a, b], s, ht => by
    simp [tricksOf, wonBy, playCard_incomplete, ht]
  | [a, b, c], s, ht => by
    simp [tricksOf, wonBy, playCard_incomplete, ht]

/-- general form of C04.trick_winner_is_law: only the card led must have a real suit (not `NT`) -/
theorem trick_winner_is_law_of_head (trump : Suit) (cs : List Card)
    (hhead : ∃ f, cs.head? = some f ∧ f.suit ≠ .NT) :
    0 ≤ highestIdx trump cs ∧ WinsTrick trump cs (winnerIdx trump cs) := by
  obtain ⟨f, hf, hfs⟩ := hhead
  obtain ⟨rest, rfl⟩ : ∃ rest, cs = f :: rest := by
    cases cs with
    | nil => simp at hf
    | cons x r => simp at hf; exact ⟨r, by rw [hf]⟩
  by_cases hP : trump ≠ .NT ∧ ∃ t ∈ f :: rest, t.suit = trump
  · obtain ⟨h1, h2, h3⟩ := calcHighest_spec trump (f :: rest)
    have hne : calcHighest trump (f :: rest) ≠ -1 := by
      intro e
      rcases h1.1 e with e | e
      · exact hP.1 e
      · obtain ⟨t, ht, hts⟩ := hP.2; exact e t ht hts
    have hge : 0 ≤ calcHighest trump (f :: rest) := by omega
    have hh : highestIdx trump (f :: rest) = calcHighest trump (f :: rest) := by
      simp only [highestIdx]; rw [if_neg (by omega)]
    obtain ⟨n, hn⟩ := Int.eq_ofNat_of_zero_le hge
    obtain ⟨c, hc, hcs, hmax, _⟩ := h3 n hn
    refine ⟨by rw [hh]; exact hge, c, ?_, fun _ => ⟨hcs, hmax⟩, fun h => absurd hP h⟩
    simp only [winnerIdx, hh, hn, Int.toNat_natCast]; exact hc
  · obtain ⟨h1, h2, _⟩ := calcHighest_spec trump (f :: rest)
    have hm1 : calcHighest trump (f :: rest) = -1 := by
      apply h1.2
      by_cases ht : trump = .NT
      · exact Or.inl ht
      · right; intro c hc hcs; exact hP ⟨ht, c, hc, hcs⟩
    have hh : highestIdx trump (f :: rest) = calcHighest f.suit (f :: rest) := by
      simp only [highestIdx]; rw [if_pos (by omega)]
    obtain ⟨g1, g2, g3⟩ := calcHighest_spec f.suit (f :: rest)
    have hne : calcHighest f.suit (f :: rest) ≠ -1 := by
      intro e
      rcases g1.1 e with e | e
      · exact hfs e
      · exact e f (by simp) rfl
    have hge : 0 ≤ calcHighest f.suit (f :: rest) := by omega
    obtain ⟨n, hn⟩ := Int.eq_ofNat_of_zero_le hge
    obtain ⟨c, hc, hcs, hmax, _⟩ := g3 n hn
    refine ⟨by rw [hh]; exact hge, c, ?_, fun h => absurd h hP, fun _ => ⟨f, rfl, hcs, hmax⟩⟩
    simp only [winnerIdx, hh, hn, Int.toNat_natCast]; exact hc

/-- C04.trick_winner_is_law, for real cards (`Card.ok`) -/
theorem trick_winner_is_law_of_ok (trump : Suit) (cs : List Card) (hne : cs ≠ [])
    (hok : ∀ c ∈ cs, c.ok = true) :
    0 ≤ highestIdx trump cs ∧ WinsTrick trump cs (winnerIdx trump cs) := by
  apply trick_winner_is_law_of_head
  cases cs with
  | nil => exact absurd rfl hne
  | cons f r =>
    refine ⟨f, rfl, ?_⟩
    have := hok f (by simp)
    simp [Card.ok] at this
    exact this.2

/-- without a hypothesis excluding cards of "suit" `NT` (which cannot be constructed in Python:
`Card.__post_init__` rejects them) the trick-winner theorem is false -/
theorem trick_winner_is_law_counterexample :
    ¬ (0 ≤ highestIdx .NT [⟨2, .NT⟩] ∧ WinsTrick .NT [⟨2, .NT⟩] (winnerIdx .NT [⟨2, .NT⟩])) := by
  intro h; exact absurd h.1 (by decide)

theorem winsTrick_unique (trump : Suit) (cs : List Card) (hnd : cs.Nodup) (i j : Nat)
    (hi : WinsTrick trump cs i) (hj : WinsTrick trump cs j) : i = j := by
  obtain ⟨ci, hci, hi1, hi2⟩ := hi
  obtain ⟨cj, hcj, hj1, hj2⟩ := hj
  have mi : ci ∈ cs := List.mem_of_getElem? hci
  have mj : cj ∈ cs := List.mem_of_getElem? hcj
  have hil : i < cs.length := by
    rcases Nat.lt_or_ge i cs.length with h | h
    · exact h
    · simp [List.getElem?_eq_none h] at hci
  have heq : ci = cj := by
    by_cases hP : trump ≠ .NT ∧ ∃ t ∈ cs, t.suit = trump
    · obtain ⟨si, ri⟩ := hi1 hP
      obtain ⟨sj, rj⟩ := hj1 hP
      have := ri cj mj sj
      have := rj ci mi si
      cases ci; cases cj; simp_all; omega
    · obtain ⟨f, hf, si, ri⟩ := hi2 hP
      obtain ⟨g, hg, sj, rj⟩ := hj2 hP
      have : f = g := by rw [hf] at hg; exact Option.some.inj hg
      subst this
      have := ri cj mj sj
      have := rj ci mi si
      cases ci; cases cj; simp_all; omega
  subst heq
  exact (List.getElem?_inj hil hnd).1 (hci.trans hcj.symm)

/-! ## Full-information game -/

theorem play_ok_iff (w : WithHands) (c : Card) (p : Seat) (w' : WithHands) :
    w.play c p = .ok w' ↔ (p = w.base.active ∧ c ∈ w.hands p ∧
      w' = { base := playCard w.base c,
             hands := fun q => if q = p then (w.hands p).erase c else w.hands q }) := by
  unfold WithHands.play
  by_cases h1 : p = w.base.active
  · subst h1
    by_cases h2 : c ∈ w.hands w.base.active
    · simp only [ne_eq, not_true_eq_false, if_false, h2, true_and, Except.ok.injEq]
      exact eq_comm
    · simp [h2]
  · simp [h1]

theorem play_error_of_not_ok (w : WithHands) (c : Card) (p : Seat)
    (h : ¬ (p = w.base.active ∧ c ∈ w.hands p)) : ∃ e, w.play c p = .error e := by
  unfold WithHands.play
  by_cases h1 : p = w.base.active
  · have h2 : c ∉ w.hands p := fun h2 => h ⟨h1, h2⟩
    subst h1
    exact ⟨.notHeld, by simp [h2]⟩
  · exact ⟨.turn, by simp [h1]⟩

theorem allCards_count (hands : Seat → List Card) (a : Card) :
    (allCards hands).count a = (hands .N).count a + (hands .E).count a + (hands .S).count a + (hands .W).count a := by
  simp only [allCards, List.count_append]

/-- conservation invariant: hands and played cards together are a permutation of the deal `D` -/
def CInv (D : List Card) (w : WithHands) : Prop := (allCards w.hands ++ w.base.used).Perm D

theorem cinv_nodup {D : List Card} (hD : D.Nodup) {w : WithHands} (h : CInv D w) :
    (allCards w.hands ++ w.base.used).Nodup := (List.Perm.nodup_iff h).2 hD

theorem mem_allCards {hands : Seat → List Card} {p : Seat} {x : Card} (h : x ∈ hands p) :
    x ∈ allCards hands := by
  cases p <;> simp [allCards, h]

theorem cinv_play {D : List Card} (hD : D.Nodup) {w w' : WithHands} {c : Card} {p : Seat}
    (h : CInv D w) (hp : w.play c p = .ok w') : CInv D w' := by
  obtain ⟨_, hc, rfl⟩ := (play_ok_iff w c p w').1 hp
  have hnd := cinv_nodup hD h
  have hcu : c ∉ w.base.used := by
    intro hu
    exact (List.nodup_append.1 hnd).2.2 c (mem_allCards hc) c hu rfl
  have hcount : 0 < (w.hands p).count c := List.count_pos_iff.2 hc
  unfold CInv at h ⊢
  refine List.Perm.trans ?_ h
  rw [List.perm_iff_count]
  intro a
  simp only [List.count_append, allCards_count, playCard_used, setAdd, if_neg hcu, List.count_cons]
  by_cases hac : c = a
  · subst hac
    cases p <;> simp <;> omega
  · have : (c == a) = false := by simpa using hac
    cases p <;> simp [List.count_erase, this]

theorem cinv_run {D : List Card} (hD : D.Nodup) : ∀ (ops : List (Card × Seat)) (w : WithHands),
    CInv D w → CInv D (runFull w ops)
  | [], w, h => by simpa [runFull] using h
  | (c, p) :: ops, w, h => by
    unfold runFull
    split
    · next w' hp => exact cinv_run hD ops w' (cinv_play hD h hp)
    · exact cinv_run hD ops w h

theorem withHands_init_some {c : Contract} {hands : Seat → List Card} {w0 : WithHands}
    (h0 : WithHands.init c hands = some w0) :
    ∃ s0, PState.init c = some s0 ∧ w0 = { base := s0, hands := hands } := by
  unfold WithHands.init at h0
  cases h : PState.init c with
  | none => simp [h] at h0
  | some s0 => simp [h] at h0; exact ⟨s0, rfl, h0.symm⟩

theorem init_used {c : Contract} {s0 : PState} (h0 : PState.init c = some s0) : s0.used = [] := by
  obtain ⟨b, d, _, _, rfl⟩ := init_some h0; rfl

theorem cinv_init {c : Contract} {hands : Seat → List Card} {w0 : WithHands}
    (h0 : WithHands.init c hands = some w0) : CInv (allCards hands) w0 := by
  obtain ⟨s0, hs, rfl⟩ := withHands_init_some h0
  simp [CInv, init_used hs]

theorem cinv_of_init {c : Contract} {hands : Seat → List Card} {w0 : WithHands}
    (h0 : WithHands.init c hands = some w0) (hd : IsDeal hands) (ops : List (Card × Seat)) :
    CInv (allCards hands) (runFull w0 ops) :=
  cinv_run hd ops w0 (cinv_init h0)

/-! ## Observer -/

/-- the three ways an observer accepts a play -/
theorem observed_play_ok (o o' : Observed) (c : Card) (p : Seat) (h : o.play c p = .ok o') :
    p = o.base.active ∧
    ((p = o.me ∧ c ∈ o.hand ∧ o' = { o with base := playCard o.base c, hand := o.hand.erase c }) ∨
     (p ≠ o.me ∧ p = o.base.dummy ∧ ∃ dh, o.dummyHand = some dh ∧ c ∈ dh ∧
        o' = { o with base := playCard o.base c, dummyHand := some (dh.erase c) }) ∨
     (p ≠ o.me ∧ p ≠ o.base.dummy ∧ o' = { o with base := playCard o.base c })) := by
  unfold Observed.play at h
  by_cases h1 : p = o.base.active
  · refine ⟨h1, ?_⟩
    rw [if_neg (by simpa using h1)] at h
    by_cases h2 : p = o.me
    · rw [if_pos h2] at h
      by_cases h3 : c ∈ o.hand
      · rw [if_neg (by simpa using h3)] at h
        exact Or.inl ⟨h2, h3, (Except.ok.inj h).symm⟩
      · rw [if_pos h3] at h; cases h
    · rw [if_neg h2] at h
      by_cases h4 : p = o.base.dummy
      · rw [if_pos h4] at h
        cases hdh : o.dummyHand with
        | none => rw [hdh] at h; cases h
        | some dh =>
          rw [hdh] at h
          by_cases h5 : c ∈ dh
          · simp only [h5, not_true_eq_false, if_false] at h
            exact Or.inr (Or.inl ⟨h2, h4, dh, rfl, h5, (Except.ok.inj h).symm⟩)
          · simp only [h5, not_false_eq_true, if_true] at h; cases h
      · rw [if_neg h4] at h
        exact Or.inr (Or.inr ⟨h2, h4, (Except.ok.inj h).symm⟩)
  · rw [if_pos h1] at h; cases h

theorem observed_play_me (o : Observed) (c : Card) (p : Seat) (h1 : p = o.base.active) (h2 : p = o.me)
    (h3 : c ∈ o.hand) :
    o.play c p = .ok { o with base := playCard o.base c, hand := o.hand.erase c } := by
  unfold Observed.play
  rw [if_neg (by simpa using h1), if_pos h2, if_neg (by simpa using h3)]

theorem observed_play_dummy (o : Observed) (c : Card) (p : Seat) (dh : List Card) (h1 : p = o.base.active)
    (h2 : p ≠ o.me) (h3 : p = o.base.dummy) (h4 : o.dummyHand = some dh) (h5 : c ∈ dh) :
    o.play c p = .ok { o with base := playCard o.base c, dummyHand := some (dh.erase c) } := by
  unfold Observed.play
  rw [if_neg (by simpa using h1), if_neg h2, if_pos h3, h4]
  simp [h5]

theorem observed_play_other (o : Observed) (c : Card) (p : Seat) (h1 : p = o.base.active)
    (h2 : p ≠ o.me) (h3 : p ≠ o.base.dummy) :
    o.play c p = .ok { o with base := playCard o.base c } := by
  unfold Observed.play
  rw [if_neg (by simpa using h1), if_neg h2, if_neg h3]

theorem play_base (w w' : WithHands) (c : Card) (p : Seat) (hw : w.play c p = .ok w') :
    w'.base = playCard w.base c := by
  obtain ⟨_, _, rfl⟩ := (play_ok_iff w c p w').1 hw; rfl

theorem setAdd_ne_nil (c : Card) (l : List Card) : setAdd c l ≠ [] := by
  unfold setAdd; split
  · next h => intro e; rw [e] at h; simp at h
  · simp

/-- simulation step.  `hme`: an observer sitting dummy holds no separate copy of dummy's hand (its own `hand`
is that hand).  Besides acceptance and the relation, records what happens to `me` and `dummyHand`. -/
theorem observer_simulates_strong (w w' : WithHands) (o : Observed) (c : Card) (p : Seat)
    (hr : ObsRel w o) (hw : w.play c p = .ok w')
    (hd : p = w.base.dummy → p ≠ o.me → o.dummyHand ≠ none)
    (hme : o.me = w.base.dummy → o.dummyHand = none) :
    ∃ o', o.play c p = .ok o' ∧ ObsRel w' o' ∧ o'.me = o.me ∧
      (o.dummyHand = none → p ≠ w.base.dummy ∨ p = o.me → o'.dummyHand = none) ∧
      (o.dummyHand ≠ none → o'.dummyHand ≠ none) := by
  obtain ⟨hp, hc, rfl⟩ := (play_ok_iff w c p w').1 hw
  obtain ⟨hb, hh, hdm⟩ := hr
  have hpa : p = o.base.active := by rw [hb]; exact hp
  by_cases h2 : p = o.me
  · have hco : c ∈ o.hand := by rw [hh, ← h2]; exact hc
    refine ⟨_, observed_play_me o c p hpa h2 hco, ⟨?_, ?_, ?_⟩, rfl, fun h _ => h, fun h => h⟩
    · simp [hb]
    · simp [hh, h2]
    · intro dh hdh
      have hne : o.me ≠ w.base.dummy := fun e => by rw [hme e] at hdh; cases hdh
      simp only [playCard_dummy]
      have : w.base.dummy ≠ p := by rw [h2]; exact fun e => hne e.symm
      simp only [this, if_false]
      exact hdm dh hdh
  · by_cases h3 : p = w.base.dummy
    · have h3' : p = o.base.dummy := by rw [hb]; exact h3
      cases hdh : o.dummyHand with
      | none => exact absurd hdh (hd h3 h2)
      | some dh =>
        have hdheq := hdm dh hdh
        have hcd : c ∈ dh := by rw [hdheq, ← h3]; exact hc
        refine ⟨_, observed_play_dummy o c p dh hpa h2 h3' hdh hcd, ⟨?_, ?_, ?_⟩, rfl, ?_, ?_⟩
        · simp [hb]
        · have : o.me ≠ p := fun e => h2 e.symm
          simp [hh, this]
        · intro dh' hdh'
          simp only [playCard_dummy, Option.some.injEq] at hdh' ⊢
          rw [← h3]; simp [← hdh', hdheq, ← h3]
        · intro h; simp at h
        · intro _; simp
    · have h3' : p ≠ o.base.dummy := by rw [hb]; exact h3
      refine ⟨_, observed_play_other o c p hpa h2 h3', ⟨?_, ?_, ?_⟩, rfl, fun h _ => h, fun h => h⟩
      · simp [hb]
      · have : o.me ≠ p := fun e => h2 e.symm
        simp [hh, this]
      · intro dh hdh
        simp only [playCard_dummy]
        have : w.base.dummy ≠ p := fun e => h3 e.symm
        simp only [this, if_false]
        exact hdm dh hdh

theorem obsRel_setDummy {w : WithHands} {o : Observed} (h : ObsRel w o) :
    ObsRel w (o.setDummy (w.hands w.base.dummy)) :=
  ⟨h.base, h.hand, fun dh hdh => by simp [Observed.setDummy] at hdh; exact hdh.symm⟩

/-- invariant of the protocol's feed: the relation; the opening lead is not dummy's; an observer that is not
dummy knows dummy's hand from the first accepted card on; an observer sitting dummy never gets a copy -/
structure FInv (w : WithHands) (o : Observed) : Prop where
  rel : ObsRel w o
  lead : w.base.used = [] → w.base.active ≠ w.base.dummy
  known : w.base.used ≠ [] → o.me ≠ w.base.dummy → o.dummyHand ≠ none
  dnone : o.me = w.base.dummy → o.dummyHand = none

/-- one step of the feed -/
theorem finv_step (w w' : WithHands) (o : Observed) (c : Card) (p : Seat)
    (hi : FInv w o) (hw : w.play c p = .ok w') :
    ∃ o', o.play c p = .ok o' ∧
      FInv w' (if w.base.used = [] ∧ o'.me ≠ w'.base.dummy then o'.setDummy (w'.hands w'.base.dummy) else o') ∧
      (if w.base.used = [] ∧ o'.me ≠ w'.base.dummy then o'.setDummy (w'.hands w'.base.dummy) else o').me
        = o.me := by
  have hp : p = w.base.active := ((play_ok_iff w c p w').1 hw).1
  have hb := play_base w w' c p hw
  have hdm : w'.base.dummy = w.base.dummy := by rw [hb]; simp
  have hd : p = w.base.dummy → p ≠ o.me → o.dummyHand ≠ none := by
    intro h1 h2
    by_cases hu : w.base.used = []
    · exact absurd (hp.symm.trans h1) (hi.lead hu)
    · exact hi.known hu (fun e => h2 (h1.trans e.symm))
  obtain ⟨o', hplay, hR, hme', hnone, hk⟩ := observer_simulates_strong w w' o c p hi.rel hw hd hi.dnone
  have hused : w'.base.used ≠ [] := by rw [hb, playCard_used]; exact setAdd_ne_nil _ _
  refine ⟨o', hplay, ?_, ?_⟩
  · by_cases hcond : w.base.used = [] ∧ o'.me ≠ w'.base.dummy
    · rw [if_pos hcond]
      refine ⟨obsRel_setDummy hR, fun h => absurd h hused, fun _ _ => by simp [Observed.setDummy], ?_⟩
      intro e; exact absurd e hcond.2
    · rw [if_neg hcond]
      refine ⟨hR, fun h => absurd h hused, ?_, ?_⟩
      · intro _ hne
        have hu : w.base.used ≠ [] := fun hu => hcond ⟨hu, hne⟩
        exact hk (hi.known hu (by rw [← hme', ← hdm]; exact hne))
      · intro e
        have e' : o.me = w.base.dummy := by rw [← hme', ← hdm]; exact e
        apply hnone (hi.dnone e')
        by_cases hpd : p = w.base.dummy
        · exact Or.inr (hpd.trans e'.symm)
        · exact Or.inl hpd
  · by_cases hcond : w.base.used = [] ∧ o'.me ≠ w'.base.dummy
    · rw [if_pos hcond]; exact hme'
    · rw [if_neg hcond]; exact hme'

theorem observed_init_some {c : Contract} {me : Seat} {hand : List Card} {o : Observed}
    (h0 : Observed.init c me hand = some o) :
    ∃ s0, PState.init c = some s0 ∧ o = { base := s0, me := me, hand := hand, dummyHand := none } := by
  unfold Observed.init at h0
  cases h : PState.init c with
  | none => simp [h] at h0
  | some s0 => simp [h] at h0; exact ⟨s0, rfl, h0.symm⟩

theorem partner_ne_left (d : Seat) : d.left ≠ d.partner := by cases d <;> decide

theorem finv_init {c : Contract} {hands : Seat → List Card} {me : Seat} {w : WithHands} {o : Observed}
    (hw : WithHands.init c hands = some w) (ho : Observed.init c me (hands me) = some o) :
    FInv w o ∧ o.me = me := by
  obtain ⟨s0, hs, rfl⟩ := withHands_init_some hw
  obtain ⟨s0', hs', rfl⟩ := observed_init_some ho
  have : s0' = s0 := by rw [hs] at hs'; exact (Option.some.inj hs').symm
  subst this
  refine ⟨⟨⟨rfl, rfl, fun dh h => by cases h⟩, ?_, ?_, fun _ => rfl⟩, rfl⟩
  · intro _
    obtain ⟨b, d, _, _, rfl⟩ := init_some hs
    exact partner_ne_left d
  · intro h; exact absurd (init_used hs) h

/-! ## Follow suit -/

theorem availableCards_eq_followSuit (hand : List Card) (first : Option Card) :
    availableCards hand first = followSuit hand first := by
  cases first with
  | none => rfl
  | some f =>
    simp only [availableCards, followSuit]
    by_cases h : ∀ c ∈ hand, c.suit ≠ f.suit
    · have e : (hand.filter fun c => decide (c.suit = f.suit)) = [] := by
        rw [List.filter_eq_nil_iff]; intro a ha; simpa using h a ha
      rw [if_pos h, e]; rfl
    · have hne : (hand.filter fun c => decide (c.suit = f.suit)).length ≠ 0 := by
        intro e
        apply h
        have := List.filter_eq_nil_iff.1 (List.eq_nil_of_length_eq_zero e)
        intro a ha; simpa using this a ha
      rw [if_neg h, if_neg hne]

theorem availableCards_subset (hand : List Card) (first : Option Card) :
    ∀ c ∈ availableCards hand first, c ∈ hand := by
  intro c hc
  cases first with
  | none => exact hc
  | some f =>
    simp only [availableCards] at hc
    split at hc
    · exact hc
    · exact (List.mem_filter.1 hc).1

theorem availableCards_ne_nil (hand : List Card) (first : Option Card) (h : hand ≠ []) :
    availableCards hand first ≠ [] := by
  cases first with
  | none => exact h
  | some f =>
    simp only [availableCards]
    split
    · exact h
    · next hl => intro e; rw [e] at hl; exact hl rfl

end Bridge
