import BridgeVerif.Lemmas.RegexMsgHandA
/-!
# `S (.*)\. H (.*)\. D (.*)\. C (.*)\.\s?` (IGNORECASE) is the scanner skeleton of `parseHand?`

`handGroups?` is the skeleton of `parseHand?` copied (`parseHand_eq_groups`): `S `, then four greedy `(.*)` groups
separated by `. H `, `. D `, `. C ` and closed by `.`, with the downward retry of `dotStar`.  `match_handmsg`: for every
subject whose characters are in the class `agreeHand` (every ASCII character is), `re.match` with `re.IGNORECASE` matches iff
the skeleton finds its four texts, and groups 1–4 are those texts.  The optional trailing `\s` (Unicode-aware in the engine,
absent from the scanner) cannot change the groups: `rel_optWs_end`.
-/
namespace Bridge.RegexMsgHand
open Bridge Bridge.Re Bridge.RegexPbn Bridge.RegexHands Bridge.RegexConnect Bridge.RegexMsgClient

/-! ## the scanner -/
/-- the four group texts of `parseHand?`, copied from its definition -/
def handGroups? (content : List Char) : Option (List (List Char)) :=
  match stripPrefixCI "S ".toList content with
  | none => none
  | some r0 =>
      dotStar r0 fun g1 t1 => (stripPrefixCI ". H ".toList t1).bind fun r1 =>
      dotStar r1 fun g2 t2 => (stripPrefixCI ". D ".toList t2).bind fun r2 =>
      dotStar r2 fun g3 t3 => (stripPrefixCI ". C ".toList t3).bind fun r3 =>
      dotStar r3 fun g4 t4 => (stripPrefixCI ['.'] t4).map fun _ => [g1, g2, g3, g4]

/-- `parseHand?` = the skeleton, then the conversion of the four groups -/
theorem parseHand_eq_groups (s : List Char) :
    parseHand? s =
      match handGroups? s with
      | some [g1, g2, g3, g4] =>
        (match cardsOfGroup? g1 .S, cardsOfGroup? g2 .H, cardsOfGroup? g3 .D, cardsOfGroup? g4 .C with
         | some a, some b, some c, some d => some (dedupC (a ++ b ++ c ++ d))
         | _, _, _, _ => none)
      | _ => none := by
  unfold parseHand? handGroups?
  cases stripPrefixCI "S ".toList s <;> rfl

def litA : List Char := "S ".toList
def litB : List Char := ". H ".toList
def litC : List Char := ". D ".toList
def litD : List Char := ". C ".toList

def scanE : List Char → Option (List (List Char)) := fun r => (stripPrefixCI ['.'] r).bind fun _ => some []
def scanD : List Char → Option (List (List Char)) :=
  fun r => (stripPrefixCI litD r).bind fun r1 => dotStar r1 fun g t => (scanE t).map fun gs => g :: gs
def scanC : List Char → Option (List (List Char)) :=
  fun r => (stripPrefixCI litC r).bind fun r1 => dotStar r1 fun g t => (scanD t).map fun gs => g :: gs
def scanB : List Char → Option (List (List Char)) :=
  fun r => (stripPrefixCI litB r).bind fun r1 => dotStar r1 fun g t => (scanC t).map fun gs => g :: gs
def scanA : List Char → Option (List (List Char)) :=
  fun r => (stripPrefixCI litA r).bind fun r1 => dotStar r1 fun g t => (scanB t).map fun gs => g :: gs

theorem handGroups_eq_scan (s : List Char) : handGroups? s = scanA s := by
  unfold handGroups? scanA scanB scanC scanD scanE
  show (match stripPrefixCI litA s with | none => none | some r0 => _) = _
  cases stripPrefixCI litA s with
  | none => rfl
  | some r0 =>
    simp only [Option.bind_some, dotStar_map, Option.map_bind, Function.comp_def]
    congr 1; funext g1 t1
    congr 1; funext r1
    congr 1; funext g2 t2
    congr 1; funext r2
    congr 1; funext g3 t3
    congr 1; funext r3
    congr 1; funext g4 t4
    cases stripPrefixCI ['.'] t4 <;> rfl

/-! ## the engine -/
def optWsRe : Re := .rep 0 (some 1) (.cls false [.space false])

def handRe : Re :=
  lits litA (.seq (dotG 1) (lits litB (.seq (dotG 2) (lits litC (.seq (dotG 3) (lits litD (.seq (dotG 4)
    (lits ['.'] optWsRe))))))))

set_option maxRecDepth 100000 in
theorem parse_handmsg : Re.parse HANDMSG_PATTERN = some handRe := by decide +kernel
theorem handRe_ngroups : handRe.ngroups = 4 := by decide +kernel
theorem handRe_simple : simple handRe = true := by decide +kernel

/-- the distinct literal characters of the pattern -/
def handChars : List Char := "S .HDC".toList

def agreeHand (x : Char) : Bool := agreeLit handChars x
theorem agreeHand_ofNat_ascii : ∀ n : Fin 128, agreeHand (Char.ofNat n.val) = true := by decide +kernel
theorem agreeHand_ascii (x : Char) (h : x.toNat < 128) : agreeHand x = true := by
  have := agreeHand_ofNat_ascii ⟨x.toNat, h⟩
  simpa [Char.ofNat_toNat] using this

/-- the optional blank that closes the pattern: consumed or not, the groups are what they were -/
theorem rel_optWs_end (ic : Bool) (s : List Char) (N : Nat) :
    Rel s N N (den ic optWsRe (kfin 0 false false)) (fun _ => some []) := by
  intro pos rest caps hd hl
  have hden : den ic optWsRe (kfin 0 false false) ⟨pos, rest, caps⟩ =
      repDen (fun x => classTest ic x [.space false] != false) 0 (some 1) (kfin 0 false false) caps 0 pos rest := by
    simp only [den, optWsRe, charPred]
  rw [hden]
  cases rest with
  | nil => simpa [repDen] using rel_end s N pos [] caps hd hl
  | cons x xs =>
    have h0 := rel_end s N pos (x :: xs) caps hd hl
    have h1 := rel_end s N (pos + 1) xs caps (drop_succ_of_cons s pos x xs hd) hl
    by_cases hx : (classTest ic x [.space false] != false) = true
    · simp only [repDen, Nat.not_lt_zero, if_false, mxOk, Nat.lt_add_one, decide_true, if_true, hx, Nat.zero_add]
      rw [repDen_one]
      exact absRes_orFail s _ _ _ _ _ h1 h0
    · simp only [repDen, Nat.not_lt_zero, if_false, mxOk, Nat.lt_add_one, decide_true, if_true, hx]
      exact h0

/-- THE REGULAR EXPRESSION IS THE SCANNER: for every subject whose characters are in the class `agreeHand`,
`re.match(r'S (.*)\. H (.*)\. D (.*)\. C (.*)\.\s?', s, re.IGNORECASE)` matches iff the skeleton of `parseHand?` finds its
four texts, and groups 1, 2, 3, 4 are those texts -/
theorem match_handmsg (s : List Char) (hs : ∀ x ∈ s, agreeHand x = true) :
    (Re.pyMatch true HANDMSG_PATTERN s).map (Option.map (groupTexts s)) =
      some ((handGroups? s).map (·.map some)) := by
  rw [pyMatch_abs_ic true HANDMSG_PATTERN s handRe parse_handmsg handRe_simple, handRe_ngroups, handGroups_eq_scan]
  have r5 := rel_optWs_end true s 4
  have rE := rel_lits s handChars hs 4 4 _ _ r5 ['.'] (by decide)
  have r4 := rel_dotStar true s 4 3 (by omega) _ _ rE
  have rD := rel_lits s handChars hs 4 3 _ _ r4 litD (by decide)
  have r3 := rel_dotStar true s 4 2 (by omega) _ _ rD
  have rC := rel_lits s handChars hs 4 2 _ _ r3 litC (by decide)
  have r2 := rel_dotStar true s 4 1 (by omega) _ _ rC
  have rB := rel_lits s handChars hs 4 1 _ _ r2 litB (by decide)
  have r1 := rel_dotStar true s 4 0 (by omega) _ _ rB
  have rA := rel_lits s handChars hs 4 0 _ _ r1 litA (by decide)
  have := rA 0 s (List.replicate 4 none) rfl rfl
  simp only [List.take_zero, List.nil_append] at this
  unfold handRe
  rw [den_lits_fun, den_seq_fun, den_lits_fun, den_seq_fun, den_lits_fun, den_seq_fun, den_lits_fun, den_seq_fun,
    den_lits_fun]
  exact this

/-- … in particular for every ASCII subject -/
theorem match_handmsg_ascii (s : List Char) (hs : ∀ x ∈ s, x.toNat < 128) :
    (Re.pyMatch true HANDMSG_PATTERN s).map (Option.map (groupTexts s)) =
      some ((handGroups? s).map (·.map some)) :=
  match_handmsg s fun x hx => agreeHand_ascii x (hs x hx)

end Bridge.RegexMsgHand
