import BridgeVerif.Spec.JsonLog
/-!
# Strings: the reader's `scanString` undoes the writer's `escChar` escaping  (part of `JsonRoundTrip`)

`scanString` cannot be unfolded through its equation lemmas (their generation runs out of recursion depth, and a direct
`rfl` makes the kernel evaluate `u - 0xd800` in unary), so it is unfolded one level by hand: `scanString_stepA` exposes
the `brecOn` functional `scanString._f` applied to an abstract table `B` of recursive results, and the per-character
facts are proved about `scanString._f (fuel + 1) B`.
-/
namespace Bridge

theorem hexVal_hexDigitL_fin : ∀ d : Fin 16, hexVal? (hexDigitL d.val) = some d.val := by decide

theorem hexVal_hexDigitL (d : Nat) (h : d < 16) : hexVal? (hexDigitL d) = some d :=
  hexVal_hexDigitL_fin ⟨d, h⟩

theorem hex4?_hex4 (n : Nat) (h : n < 65536) (r : List Char) : hex4? (hex4 n ++ r) = some (n, r) := by
  simp only [hex4, List.cons_append, List.nil_append, hex4?]
  rw [hexVal_hexDigitL _ (Nat.mod_lt _ (by decide)), hexVal_hexDigitL _ (Nat.mod_lt _ (by decide)),
    hexVal_hexDigitL _ (Nat.mod_lt _ (by decide)), hexVal_hexDigitL _ (Nat.mod_lt _ (by decide))]
  simp only [Option.some.injEq, Prod.mk.injEq, and_true]
  omega

theorem charOfNat?_toNat (c : Char) : charOfNat? c.toNat = some c := by
  unfold charOfNat?
  have h : c.toNat.isValidChar := c.valid
  rw [dif_pos h]
  congr 1
  apply Char.ext
  show UInt32.ofNat c.val.toNat = c.val
  exact UInt32.ofNat_toNat


theorem char_range (c : Char) : c.toNat < 0xd800 ∨ (0xdfff < c.toNat ∧ c.toNat < 0x110000) := c.valid

theorem scanString_stepA (fuel : Nat) (s acc : List Char) :
    scanString (fuel + 1) s acc = scanString._f (fuel + 1) (Nat.brecOn.go fuel scanString._f) s acc := by
  delta scanString Nat.brecOn; rfl

theorem scanString_B (fuel : Nat) : (Nat.brecOn.go fuel scanString._f).1 = scanString fuel := by
  delta scanString Nat.brecOn; rfl

abbrev SBelow (n : Nat) := Nat.below (motive := fun _ => List Char → List Char → Option (List Char × List Char)) n

theorem scanF_quote (fuel : Nat) (B : SBelow (fuel+1)) (r acc : List Char) :
    scanString._f (fuel + 1) B ('"' :: r) acc = some (acc.reverse, r) := by
  simp [scanString._f]

theorem scanF_plain (fuel : Nat) (B : SBelow (fuel+1)) (c : Char) (r acc : List Char) (h1 : c ≠ '"') (h2 : c ≠ '\\') (h3 : ¬ c.toNat < 0x20) :
    scanString._f (fuel + 1) B (c :: r) acc = B.1 r (c :: acc) := by
  simp [scanString._f, h1, h2, h3]

theorem scanF_escChar (c : Char) (fuel : Nat) (B : SBelow (fuel+1)) (rest acc : List Char) :
    scanString._f (fuel + 1) B (escChar c ++ rest) acc = B.1 rest (c :: acc) := by
  unfold escChar
  split
  · subst_vars; simp [scanString._f]
  split
  · subst_vars; simp [scanString._f]
  split
  · subst_vars; simp [scanString._f]
  split
  · subst_vars; simp [scanString._f]
  split
  · subst_vars; simp [scanString._f]
  split
  · subst_vars; simp [scanString._f]
  split
  · subst_vars; simp [scanString._f]
  split
  · next h1 h2 _ _ _ _ _ h =>
    have : ¬ c.toNat < 32 := by omega
    simp [scanString._f, h1, h2, this]
  split
  · next h =>
    have hr := char_range c
    simp only [List.cons_append, scanString._f]
    simp [hex4?_hex4 _ h, charOfNat?_toNat]
    omega
  · next h =>
    have hr := char_range c
    have hhi : 0xd800 + (c.toNat - 0x10000) / 1024 < 65536 := by omega
    have hlo : 0xdc00 + (c.toNat - 0x10000) % 1024 < 65536 := by omega
    have hre : 65536 + (c.toNat - 65536) / 1024 * 1024 + (c.toNat - 65536) % 1024 = c.toNat := by omega
    have h1 : 55296 + (c.toNat - 65536) / 1024 ≤ 56319 := by omega
    have h2 : 56320 + (c.toNat - 65536) % 1024 ≤ 57343 := by omega
    simp only [List.cons_append, List.append_assoc, scanString._f]
    simp [hex4?_hex4 _ hhi, hex4?_hex4 _ hlo, hre, charOfNat?_toNat, h1, h2]

theorem scanString_escChar (c : Char) (fuel : Nat) (rest acc : List Char) :
    scanString (fuel + 1) (escChar c ++ rest) acc = scanString fuel rest (c :: acc) := by
  rw [scanString_stepA, ← scanString_B]; exact scanF_escChar _ _ _ _ _

theorem scanString_quote (fuel : Nat) (r acc : List Char) :
    scanString (fuel + 1) ('"' :: r) acc = some (acc.reverse, r) := by
  rw [scanString_stepA]; exact scanF_quote _ _ _ _

theorem scanString_flatMap (s : List Char) : ∀ (fuel : Nat) (rest acc : List Char), s.length < fuel →
    scanString fuel (s.flatMap escChar ++ '"' :: rest) acc = some (acc.reverse ++ s, rest) := by
  induction s with
  | nil =>
    intro fuel rest acc h
    obtain ⟨f, rfl⟩ : ∃ f, fuel = f + 1 := ⟨fuel - 1, by simp at h; omega⟩
    simp [scanString_quote]
  | cons c s ih =>
    intro fuel rest acc h
    obtain ⟨f, rfl⟩ : ∃ f, fuel = f + 1 := ⟨fuel - 1, by simp at h; omega⟩
    rw [List.flatMap_cons, List.append_assoc, scanString_escChar, ih _ _ _ (by simpa using h)]
    simp

theorem escChar_length_pos (c : Char) : 1 ≤ (escChar c).length := by
  unfold escChar
  repeat' split
  all_goals simp [hex4]

theorem length_le_flatMap_escChar (s : List Char) : s.length ≤ (s.flatMap escChar).length := by
  induction s with
  | nil => simp
  | cons c s ih =>
    have := escChar_length_pos c
    simp only [List.flatMap_cons, List.length_append, List.length_cons]; omega

/-- the reader's string scanner, called the way `parseValue` / `parseMembers` call it, undoes `dumpStr` -/
theorem scanString_dumpStr (s rest : List Char) :
    scanString ((s.flatMap escChar ++ '"' :: rest).length + 1) (s.flatMap escChar ++ '"' :: rest) [] = some (s, rest) := by
  have := length_le_flatMap_escChar s
  rw [scanString_flatMap s _ rest [] (by simp only [List.length_append, List.length_cons]; omega)]
  simp

end Bridge
