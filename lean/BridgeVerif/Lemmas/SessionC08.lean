import BridgeVerif.Lemmas.SessionSpec
/-! Helper lemmas for C08: the log of a session and the record of a board against the rules. -/
namespace Bridge

/-! ## only main writes to the log -/
section
variable {Msg Out : Type}

theorem emitsOf_phaseProg_seat (ph : Phase Msg Out) (p : Seat) : emitsOf (phaseProg ph (.seat p)) = [] := by
  cases ph <;>
    simp only [phaseProg, sync, emitsOf_append, emitsOf, apply_ite emitsOf, List.append_nil, ite_self]

theorem emitsOf_phaseProg_client (ph : Phase Msg Out) (p : Seat) : emitsOf (phaseProg ph (.client p)) = [] := by
  cases ph <;>
    simp only [phaseProg, emitsOf_append, emitsOf, apply_ite emitsOf, List.append_nil, ite_self]

theorem emitsOf_progOfPhases_not_main (phs : List (Phase Msg Out)) (t : Tid) (ht : t ≠ .main) :
    emitsOf (progOfPhases phs t) = [] := by
  rw [emitsOf_progOfPhases]
  cases t with
  | main => exact absurd rfl ht
  | seat p => simp [emitsOf_phaseProg_seat]
  | client p => simp [emitsOf_phaseProg_client]
end

theorem session_emits_not_main (sc : Scenario) (t : Tid) (ht : t ≠ .main) :
    emitsOf (sessionProg sc t) = [] :=
  emitsOf_progOfPhases_not_main (sessionPhases sc) t ht

/-! ## the auction: conforming calls are all accepted, and the contract is the Laws' -/

theorem legal_of_append (d : Seat) : ∀ (l h : List Call), Legal d (l ++ h) → Legal d h := by
  intro l
  induction l with
  | nil => intro h hl; exact hl
  | cons c l ih =>
    intro h hl
    cases hl with
    | cons hl' _ _ => exact ih h hl'

theorem accepted_of_legal (d : Seat) : ∀ (cs h : List Call), Legal d (cs.reverse ++ h) →
    accepted d h cs = cs.reverse ++ h := by
  intro cs
  induction cs with
  | nil => intro h _; rfl
  | cons c cs ih =>
    intro h hl
    have e : (c :: cs).reverse ++ h = cs.reverse ++ (c :: h) := by simp
    rw [e] at hl ⊢
    have hl1 := legal_of_append d cs.reverse (c :: h) hl
    cases hl1 with
    | cons _ hov hleg =>
      simp only [accepted, hov, hleg, and_self, if_true]
      exact ih (c :: h) hl

theorem contractOfCalls_conforming (b : BoardSetting) (d : Decisions) (hc : ConformingAuction b d) :
    contractOfCalls b (d.calls.map (·.1)) =
      some (specContract b.dealer b.vul (d.calls.map (·.1)).reverse) := by
  obtain ⟨hl, he⟩ := hc
  have hleg := (legal_iff_legalLaw _ _).2 hl
  have hr := reach_run b.dealer b.vul (d.calls.map (·.1))
  rw [accepted_of_legal b.dealer _ [] (by simpa using hleg), List.append_nil] at hr
  exact C03.contract_is_spec _ _ _ _ hr he

theorem boardContract_conforming (b : BoardSetting) (d : Decisions) (hc : ConformingAuction b d) :
    boardContract b d = specContract b.dealer b.vul (d.calls.map (·.1)).reverse := by
  simp [boardContract, contractOfCalls_conforming b d hc]

theorem specContract_vul (d : Seat) (v : Vul) (h : List Call) : (specContract d v h).vul = v := by
  unfold specContract; split <;> rfl

/-- the Laws' contract either is passed out (no bid, no declarer) or has a bid and a declarer -/
theorem specContract_shape (d : Seat) (v : Vul) (h : List Call) :
    ((specContract d v h).finalBid = none ∧ (specContract d v h).declarer = none) ∨
    (∃ i decl, (specContract d v h).finalBid = some i ∧ (specContract d v h).declarer = some decl) := by
  cases hq : lastBid? h with
  | none => left; simp [specContract, hq]
  | some q =>
    obtain ⟨k, j⟩ := q
    obtain ⟨p, hp, _⟩ := C03.declarer_is_first_namer d v h k j hq
    right
    exact ⟨j, p, by simp [specContract, hq], hp⟩

/-! ## the record, case by case -/

theorem recordOf_eq (sc : Scenario) (b : BoardSetting) (d : Decisions) :
    recordOf sc b d =
      match (boardContract b d).finalBid, (boardContract b d).declarer with
      | some _, some decl =>
        let w := playAll (boardContract b d) b.deal (d.cards.map (·.1))
        let tricks : Nat := match w with
          | some w => (match decl.side with | .NS => w.base.takenNS | .EW => w.base.takenEW)
          | none => 0
        let score : Int := (calcScore (boardContract b d) tricks).getD 0
        let hist : List Trick := match w with | some w => w.base.history.reverse | none => []
        { boardId := b.boardId, nsName := sc.nsName, ewName := sc.ewName, dealer := b.dealer, deal := b.deal,
          vul := (boardContract b d).vul, calls := d.calls.map (·.1), contract := boardContract b d,
          play := some hist, tricks := some tricks,
          scoreNS := if decl.side = .NS then score else -score,
          scoreEW := if decl.side = .EW then score else -score, dda := b.dda }
      | _, _ =>
        { boardId := b.boardId, nsName := sc.nsName, ewName := sc.ewName, dealer := b.dealer, deal := b.deal,
          vul := (boardContract b d).vul, calls := d.calls.map (·.1), contract := boardContract b d,
          play := none, tricks := none, scoreNS := 0, scoreEW := 0, dda := b.dda } := rfl

theorem recordOf_passed (sc : Scenario) (b : BoardSetting) (d : Decisions)
    (h : (boardContract b d).finalBid = none ∨ (boardContract b d).declarer = none) :
    recordOf sc b d =
      { boardId := b.boardId, nsName := sc.nsName, ewName := sc.ewName, dealer := b.dealer, deal := b.deal,
        vul := (boardContract b d).vul, calls := d.calls.map (·.1), contract := boardContract b d,
        play := none, tricks := none, scoreNS := 0, scoreEW := 0, dda := b.dda } := by
  rw [recordOf_eq]
  split
  · next hf hd => rcases h with h | h <;> simp_all
  · rfl

theorem recordOf_played (sc : Scenario) (b : BoardSetting) (d : Decisions) (i : Fin 35) (decl : Seat)
    (hf : (boardContract b d).finalBid = some i) (hd : (boardContract b d).declarer = some decl) :
    recordOf sc b d =
      (let w := playAll (boardContract b d) b.deal (d.cards.map (·.1))
       let tricks : Nat := match w with
         | some w => (match decl.side with | .NS => w.base.takenNS | .EW => w.base.takenEW)
         | none => 0
       let score : Int := (calcScore (boardContract b d) tricks).getD 0
       let hist : List Trick := match w with | some w => w.base.history.reverse | none => []
       { boardId := b.boardId, nsName := sc.nsName, ewName := sc.ewName, dealer := b.dealer, deal := b.deal,
         vul := (boardContract b d).vul, calls := d.calls.map (·.1), contract := boardContract b d,
         play := some hist, tricks := some tricks,
         scoreNS := if decl.side = .NS then score else -score,
         scoreEW := if decl.side = .EW then score else -score, dda := b.dda }) := by
  rw [recordOf_eq, hf, hd]

/-! ## the play: when every card is accepted, the full-information model follows `playCard` -/

theorem playsAccepted_spec (cards : List Card) : ∀ (w0 w : WithHands), playsAccepted w0 cards = some w →
    cards.foldl (fun w cd => match w.play cd w.base.active with | .ok w' => w' | .error _ => w) w0 = w ∧
    w.base = runPlay w0.base cards := by
  induction cards with
  | nil =>
    intro w0 w h
    simp [playsAccepted] at h
    subst h
    exact ⟨rfl, rfl⟩
  | cons c cs ih =>
    intro w0 w h
    unfold playsAccepted at h
    rw [List.foldlM_cons] at h
    cases hp : w0.play c w0.base.active with
    | error e => rw [hp] at h; simp at h
    | ok w1 =>
      rw [hp] at h
      obtain ⟨h1, h2⟩ := ih w1 w (by simpa [playsAccepted] using h)
      refine ⟨?_, ?_⟩
      · simp only [List.foldl_cons, hp]; exact h1
      · rw [h2, play_base _ _ _ _ hp]; rfl

/-- with conforming play the model of the full-information game ends in the state reached by `playCard` alone -/
theorem playAll_conforming (b : BoardSetting) (d : Decisions) (hp : ConformingPlay b d) (s0 : PState)
    (h0 : PState.init (boardContract b d) = some s0) :
    d.cards.length = 52 ∧
    ∃ w, playAll (boardContract b d) b.deal (d.cards.map (·.1)) = some w ∧
      w.base = runPlay s0 (d.cards.map (·.1)) := by
  have hw0 : WithHands.init (boardContract b d) b.deal = some ⟨s0, b.deal⟩ := by
    simp [WithHands.init, h0]
  unfold ConformingPlay at hp
  rw [hw0] at hp
  obtain ⟨h52, hacc⟩ := hp
  obtain ⟨w, hw⟩ := Option.isSome_iff_exists.1 hacc
  obtain ⟨h1, h2⟩ := playsAccepted_spec _ _ _ hw
  refine ⟨h52, w, ?_, h2⟩
  simp only [playAll, hw0, Option.map_some]
  exact congrArg some h1

/-- `calc_score` of any contract with a bid and a declarer is the duplicate score for declarer's side -/
theorem calcScore_law (c : Contract) (i : Fin 35) (decl : Seat) (hf : c.finalBid = some i)
    (hd : c.declarer = some decl) (t : Nat) (ht : t ≤ 13) :
    calcScore c t = some (dupScore (bidLevel i) (bidDenom i) c.dbl (sideVulnerable c.vul decl) t) := by
  obtain ⟨fb, x, xx, v, dc⟩ := c
  simp only at hf hd
  subst hf hd
  exact C07.calc_score_is_law i x xx v decl t ht

/-- play, trick count and score of the record of a played board with conforming decisions -/
theorem record_rules (sc : Scenario) (b : BoardSetting) (d : Decisions)
    (hc : ConformingAuction b d) (hp : ConformingPlay b d) (decl : Seat) (i : Fin 35)
    (hd : (boardContract b d).declarer = some decl) (hf : (boardContract b d).finalBid = some i) :
    (recordOf sc b d).play = some (tricksOf (bidDenom i) decl.left (d.cards.map (·.1))).1 ∧
    (recordOf sc b d).tricks = some (wonBy (bidDenom i) decl.left decl.side (d.cards.map (·.1))) ∧
    (if decl.side = .NS then (recordOf sc b d).scoreNS else (recordOf sc b d).scoreEW) =
      dupScore (bidLevel i) (bidDenom i) (boardContract b d).dbl (sideVulnerable b.vul decl)
        (wonBy (bidDenom i) decl.left decl.side (d.cards.map (·.1))) := by
  obtain ⟨s0, hs0, hldr, _, _, _, htr, _⟩ := C04.opening_lead_and_dummy (boardContract b d) i decl hf hd
  obtain ⟨h52, w, hw, hwb⟩ := playAll_conforming b d hp s0 hs0
  obtain ⟨t1, t2, t3, _, t5⟩ := C04.history_is_tricksOf _ s0 hs0 (d.cards.map (·.1))
  simp only [← hwb, hldr, htr] at t1 t2 t3 t5
  have hv : (boardContract b d).vul = b.vul := by
    rw [boardContract_conforming b d hc, specContract_vul]
  have hT : (match decl.side with | .NS => w.base.takenNS | .EW => w.base.takenEW) =
      wonBy (bidDenom i) decl.left decl.side (d.cards.map (·.1)) := by
    cases decl.side
    · exact t2
    · exact t3
  have h13 : wonBy (bidDenom i) decl.left decl.side (d.cards.map (·.1)) ≤ 13 := by
    rw [← hT]
    have : (d.cards.map (·.1)).length = 52 := by simpa using h52
    rw [this] at t5
    cases decl.side <;> simp only <;> omega
  have hsc := calcScore_law (boardContract b d) i decl hf hd _ h13
  rw [hv] at hsc
  rw [recordOf_played sc b d i decl hf hd]
  simp only [hw, hT, hsc, Option.getD_some]
  refine ⟨?_, trivial, ?_⟩
  · rw [t1]
  · cases decl.side <;> simp

end Bridge
