import BridgeVerif.Model.MiniPy

/-!
# MiniPy: results do not depend on the fuel (part A: the helpers are monotone in their `Rec` argument)

`RLe x y` ("`y` refines `x`"): `x` ran out of fuel, or `x = y`.  Every helper of the interpreter is a monadic program
in `Except Err` that never catches an error, so it is monotone for `RLe` in its `Rec` argument.
-/
namespace Bridge.Py

/-- `y` refines `x`: wherever `x` is a definite outcome (anything but running out of fuel), `y` is the same outcome -/
def RLe {α} (x y : R α) : Prop := x = .error .fuel ∨ x = y

theorem RLe.refl {α} (x : R α) : RLe x x := Or.inr rfl

theorem RLe.ofFuel {α} (y : R α) : RLe (.error .fuel) y := Or.inl rfl

theorem RLe.iff {α} (x y : R α) : RLe x y ↔ (x ≠ .error .fuel → y = x) := by
  constructor
  · intro h hne
    cases h with
    | inl h => exact absurd h hne
    | inr h => exact h.symm
  · intro h
    cases x with
    | ok a => exact Or.inr (h (by intro h'; cases h')).symm
    | error e =>
      cases e with
      | fuel => exact Or.inl rfl
      | exc c => exact Or.inr (h (by intro h'; cases h')).symm
      | stuck c => exact Or.inr (h (by intro h'; cases h')).symm

theorem RLe.trans {α} {x y z : R α} (h₁ : RLe x y) (h₂ : RLe y z) : RLe x z := by
  cases h₁ with
  | inl h => exact Or.inl h
  | inr h => subst h; exact h₂

/-- the generic fact about `bind` in `Except`: a definite outcome of `x >>= k` comes from a definite outcome of `x` -/
theorem bind_eq_cases {α β} (x : R α) (k : α → R β) (y : R β) (h : x >>= k = y) (hy : y ≠ .error .fuel) :
    (∃ a, x = .ok a ∧ k a = y) ∨ (∃ e, e ≠ Err.fuel ∧ x = .error e ∧ y = .error e) := by
  cases x with
  | ok a => exact Or.inl ⟨a, rfl, h⟩
  | error e =>
    refine Or.inr ⟨e, ?_, rfl, h.symm⟩
    intro he
    subst he
    exact hy h.symm

/-- a `bind` of a monotone computation with a monotone continuation is monotone -/
theorem RLe.bind {α β} {x x' : R α} {k k' : α → R β} (hx : RLe x x') (hk : ∀ a, RLe (k a) (k' a)) :
    RLe (x >>= k) (x' >>= k') := by
  cases hx with
  | inl h => subst h; exact Or.inl rfl
  | inr h =>
    subst h
    cases x with
    | ok a => exact hk a
    | error e => exact Or.inr rfl

/-- componentwise refinement of the call-backs -/
structure Rec.Le (r r' : Rec) : Prop where
  eval : ∀ env e, RLe (r.eval env e) (r'.eval env e)
  exec : ∀ env ss, RLe (r.exec env ss) (r'.exec env ss)
  call : ∀ fd args, RLe (r.call fd args) (r'.call fd args)
  loop : ∀ env c b, RLe (r.loop env c b) (r'.loop env c b)

/-! the proof-search step: reflexivity, hypotheses, `bind`, introduction, case split, lemmas proved so far -/
syntax "mono_lemma" : tactic
macro_rules | `(tactic| mono_lemma) => `(tactic| fail "mono_lemma: no lemma applies")

macro "mono_step" : tactic =>
  `(tactic| first
    | with_reducible exact RLe.refl _
    | assumption
    | apply Rec.Le.eval; assumption
    | apply Rec.Le.exec; assumption
    | apply Rec.Le.call; assumption
    | apply Rec.Le.loop; assumption
    | mono_lemma
    | apply RLe.bind
    | intro _
    | split)

macro "mono" : tactic => `(tactic| repeat' mono_step)
/-- the same with an induction hypothesis -/
macro "mono" "using" ih:term : tactic => `(tactic| repeat' (first | mono_step | apply $ih))

theorem mapR_mono {α β} {f g : α → R β} (h : ∀ a, RLe (f a) (g a)) (l : List α) : RLe (mapR f l) (mapR g l) := by
  induction l with
  | nil => exact RLe.refl _
  | cons a as ih =>
    simp only [mapR]
    exact RLe.bind (h a) fun _ => RLe.bind ih fun _ => RLe.refl _
macro_rules | `(tactic| mono_lemma) => `(tactic| apply mapR_mono)

variable {r r' : Rec}

theorem callF_mono (h : r.Le r') (fd : FuncDef) (args : List Val) : RLe (callF r fd args) (callF r' fd args) := by
  unfold callF
  mono
macro_rules | `(tactic| mono_lemma) => `(tactic| apply callF_mono)

theorem callMethod_mono (h : r.Le r') (P : Program) (c m : Id) (args : List Val) (missing : Err) :
    RLe (callMethod r P c m args missing) (callMethod r' P c m args missing) := by
  unfold callMethod
  mono
macro_rules | `(tactic| mono_lemma) => `(tactic| apply callMethod_mono)

theorem getAttrF_mono (h : r.Le r') (P : Program) (v : Val) (a : Id) : RLe (getAttrF r P v a) (getAttrF r' P v a) := by
  unfold getAttrF
  mono
macro_rules | `(tactic| mono_lemma) => `(tactic| apply getAttrF_mono)

theorem strOfF_mono (h : r.Le r') (P : Program) (v : Val) : RLe (strOfF r P v) (strOfF r' P v) := by
  unfold strOfF
  mono
macro_rules | `(tactic| mono_lemma) => `(tactic| apply strOfF_mono)

theorem compareF_mono (h : r.Le r') (P : Program) (op : CmpOp) (a b : Val) :
    RLe (compareF r P op a b) (compareF r' P op a b) := by
  unfold compareF
  mono
macro_rules | `(tactic| mono_lemma) => `(tactic| apply compareF_mono)

theorem insertSortedF_mono (h : r.Le r') (P : Program) (x : Val) (l : List Val) :
    RLe (insertSortedF r P x l) (insertSortedF r' P x l) := by
  induction l with
  | nil => exact RLe.refl _
  | cons y ys ih =>
    simp only [insertSortedF]
    mono using ih
macro_rules | `(tactic| mono_lemma) => `(tactic| apply insertSortedF_mono)

theorem sortF_mono (h : r.Le r') (P : Program) (l : List Val) : RLe (sortF r P l) (sortF r' P l) := by
  induction l with
  | nil => exact RLe.refl _
  | cons y ys ih =>
    simp only [sortF]
    mono using ih
macro_rules | `(tactic| mono_lemma) => `(tactic| apply sortF_mono)

theorem optIntF_mono (h : r.Le r') (env : Env) (oe : Option Expr) : RLe (optIntF r env oe) (optIntF r' env oe) := by
  unfold optIntF
  mono
macro_rules | `(tactic| mono_lemma) => `(tactic| apply optIntF_mono)

theorem constructF_mono (h : r.Le r') (P : Program) (c : Id) (args : List Val) :
    RLe (constructF r P c args) (constructF r' P c args) := by
  unfold constructF
  mono
macro_rules | `(tactic| mono_lemma) => `(tactic| apply constructF_mono)

theorem indexF_mono (h : r.Le r') (P : Program) (x iv : Val) : RLe (indexF r P x iv) (indexF r' P x iv) := by
  unfold indexF
  mono
macro_rules | `(tactic| mono_lemma) => `(tactic| apply indexF_mono)

theorem builtinF_mono (h : r.Le r') (P : Program) (b : Builtin) (vs : List Val) :
    RLe (builtinF r P b vs) (builtinF r' P b vs) := by
  unfold builtinF
  mono
macro_rules | `(tactic| mono_lemma) => `(tactic| apply builtinF_mono)

theorem cmpF_mono (h : r.Le r') (P : Program) (op : CmpOp) (x y : Val) : RLe (cmpF r P op x y) (cmpF r' P op x y) := by
  unfold cmpF
  mono
macro_rules | `(tactic| mono_lemma) => `(tactic| apply cmpF_mono)

theorem compF_mono (h : r.Le r') (env : Env) (x : Id) (cond : Option Expr) (body : Expr) (items : List Val) :
    RLe (compF r env x cond body items) (compF r' env x cond body items) := by
  induction items with
  | nil => exact RLe.refl _
  | cons it items ih =>
    simp only [compF]
    mono using ih
macro_rules | `(tactic| mono_lemma) => `(tactic| apply compF_mono)

theorem dictCompF_mono (h : r.Le r') (env : Env) (x : Id) (k v : Expr) (items : List Val) :
    RLe (dictCompF r env x k v items) (dictCompF r' env x k v items) := by
  induction items with
  | nil => exact RLe.refl _
  | cons it items ih =>
    simp only [dictCompF]
    mono using ih
macro_rules | `(tactic| mono_lemma) => `(tactic| apply dictCompF_mono)

theorem compTF_mono (h : r.Le r') (env : Env) (xs : List Id) (cond : Option Expr) (body : Expr) (items : List Val) :
    RLe (compTF r env xs cond body items) (compTF r' env xs cond body items) := by
  induction items with
  | nil => exact RLe.refl _
  | cons it items ih =>
    simp only [compTF]
    mono using ih
macro_rules | `(tactic| mono_lemma) => `(tactic| apply compTF_mono)

theorem dictCompTF_mono (h : r.Le r') (env : Env) (xs : List Id) (k v : Expr) (items : List Val) :
    RLe (dictCompTF r env xs k v items) (dictCompTF r' env xs k v items) := by
  induction items with
  | nil => exact RLe.refl _
  | cons it items ih =>
    simp only [dictCompTF]
    mono using ih
macro_rules | `(tactic| mono_lemma) => `(tactic| apply dictCompTF_mono)

theorem methF_mono (h : r.Le r') (P : Program) (recv : Val) (m : Id) (args : List Val) :
    RLe (methF r P recv m args) (methF r' P recv m args) := by
  unfold methF
  mono
macro_rules | `(tactic| mono_lemma) => `(tactic| apply methF_mono)

theorem evalF_mono (h : r.Le r') (P : Program) (env : Env) (e : Expr) : RLe (evalF r P env e) (evalF r' P env e) := by
  cases e <;> simp only [evalF] <;> mono
macro_rules | `(tactic| mono_lemma) => `(tactic| apply evalF_mono)

theorem assignToF_mono (h : r.Le r') (env : Env) (t : Target) (v : Val) :
    RLe (assignToF r env t v) (assignToF r' env t v) := by
  induction t generalizing v with
  | var x => exact RLe.refl _
  | attr t a ih =>
    simp only [assignToF]
    mono using ih
  | index t i ih =>
    simp only [assignToF]
    mono using ih
macro_rules | `(tactic| mono_lemma) => `(tactic| apply assignToF_mono)

theorem assignAllF_mono (h : r.Le r') (env : Env) (ts : List Target) (vs : List Val) :
    RLe (assignAllF r env ts vs) (assignAllF r' env ts vs) := by
  induction ts generalizing env vs with
  | nil => cases vs <;> exact RLe.refl _
  | cons t ts ih =>
    cases vs with
    | nil => exact RLe.refl _
    | cons v vs =>
      simp only [assignAllF]
      mono using ih
macro_rules | `(tactic| mono_lemma) => `(tactic| apply assignAllF_mono)

theorem forF_mono (h : r.Le r') (xs : List Id) (body : List Stmt) (env : Env) (items : List Val) :
    RLe (forF r xs body env items) (forF r' xs body env items) := by
  induction items generalizing env with
  | nil => exact RLe.refl _
  | cons it items ih =>
    simp only [forF]
    mono using ih
macro_rules | `(tactic| mono_lemma) => `(tactic| apply forF_mono)

theorem execStmtF_mono (h : r.Le r') (P : Program) (env : Env) (s : Stmt) :
    RLe (execStmtF r P env s) (execStmtF r' P env s) := by
  cases s <;> simp only [execStmtF] <;> mono
macro_rules | `(tactic| mono_lemma) => `(tactic| apply execStmtF_mono)

theorem execF_mono (h : r.Le r') (P : Program) (env : Env) (ss : List Stmt) :
    RLe (execF r P env ss) (execF r' P env ss) := by
  induction ss generalizing env with
  | nil => exact RLe.refl _
  | cons s ss ih =>
    simp only [execF]
    mono using ih
macro_rules | `(tactic| mono_lemma) => `(tactic| apply execF_mono)

theorem loopF_mono (h : r.Le r') (env : Env) (c : Expr) (body : List Stmt) :
    RLe (loopF r env c body) (loopF r' env c body) := by
  unfold loopF
  mono
macro_rules | `(tactic| mono_lemma) => `(tactic| apply loopF_mono)

end Bridge.Py
