import BridgeVerif.Spec.Msg
/-! Helper lemmas for C19 (messages and framing). -/
namespace Bridge

end Bridge
