import BridgeVerif.Spec.Msg
/-! Helper lemmas for C19 (messages and framing): characters, literal prefixes, the backtracking scanner,
decimal numbers, the byte reader. -/
namespace Bridge

/-! ### characters as numbers -/
theorem toNat_ofNat_small (n : Nat) (h : n < 55296) : (Char.ofNat n).toNat = n := by
  have hv : n.isValidChar := Or.inl h
  simp only [Char.ofNat, hv, dite_true]
  simp [Char.ofNatAux, Char.toNat]

theorem char_le_iff (a b : Char) : a ≤ b ↔ a.toNat ≤ b.toNat := by
  rw [Char.le_def, UInt32.le_iff_toNat_le]; rfl

theorem char_eq_iff (a b : Char) : a = b ↔ a.toNat = b.toNat := Char.toNat_inj.symm

theorem lowerA_toNat (c : Char) :
    (lowerA c).toNat = if 65 ≤ c.toNat ∧ c.toNat ≤ 90 then c.toNat + 32 else c.toNat := by
  unfold lowerA
  simp only [char_le_iff, show 'A'.toNat = 65 from rfl, show 'Z'.toNat = 90 from rfl]
  by_cases h : 65 ≤ c.toNat ∧ c.toNat ≤ 90
  · simp only [if_pos h]; exact toNat_ofNat_small _ (by omega)
  · simp only [if_neg h]

theorem upperA_toNat (c : Char) :
    (upperA c).toNat = if 97 ≤ c.toNat ∧ c.toNat ≤ 122 then c.toNat - 32 else c.toNat := by
  unfold upperA
  simp only [char_le_iff, show 'a'.toNat = 97 from rfl, show 'z'.toNat = 122 from rfl]
  by_cases h : 97 ≤ c.toNat ∧ c.toNat ≤ 122
  · simp only [if_pos h]; exact toNat_ofNat_small _ (by omega)
  · simp only [if_neg h]

theorem foldC_toNat (c : Char) :
    (foldC c).toNat = if c.toNat = 0x17F then 115 else if c.toNat = 0x212A then 107
      else if c.toNat = 0x130 then 105 else if c.toNat = 0x131 then 105 else (lowerA c).toNat := by
  unfold foldC
  simp only [char_eq_iff, toNat_ofNat_small 0x17F (by omega), toNat_ofNat_small 0x212A (by omega),
    toNat_ofNat_small 0x130 (by omega), toNat_ofNat_small 0x131 (by omega)]
  repeat' split
  all_goals first | rfl | skip

theorem isWs_iff (d : Char) : isWs d = true ↔
    (d.toNat = 32 ∨ d.toNat = 9 ∨ d.toNat = 10 ∨ d.toNat = 13 ∨ d.toNat = 11 ∨ d.toNat = 12) := by
  simp only [isWs, Bool.or_eq_true, beq_iff_eq, char_eq_iff, toNat_ofNat_small 11 (by omega),
    toNat_ofNat_small 12 (by omega)]
  simp only [show ' '.toNat = 32 from rfl, show '\t'.toNat = 9 from rfl, show '\n'.toNat = 10 from rfl,
    show '\r'.toNat = 13 from rfl]
  omega

theorem isDigit_iff (d : Char) : isDigit d = true ↔ 48 ≤ d.toNat ∧ d.toNat ≤ 57 := by
  simp only [isDigit, decide_eq_true_eq, char_le_iff, show '0'.toNat = 48 from rfl,
    show '9'.toNat = 57 from rfl]

theorem foldC_lowerA (c : Char) : foldC (lowerA c) = foldC c := by
  rw [char_eq_iff]; simp only [foldC_toNat, lowerA_toNat]; repeat' split
  all_goals omega

theorem lowerA_lowerA (c : Char) : lowerA (lowerA c) = lowerA c := by
  rw [char_eq_iff]; simp only [lowerA_toNat]; repeat' split
  all_goals omega

theorem upperA_lowerA (c : Char) : upperA (lowerA c) = upperA c := by
  rw [char_eq_iff]; simp only [upperA_toNat, lowerA_toNat]; repeat' split
  all_goals omega

theorem isWs_lowerA (c : Char) : isWs (lowerA c) = isWs c := by
  rw [Bool.eq_iff_iff, isWs_iff, isWs_iff, lowerA_toNat]; split <;> omega

theorem isDigit_lowerA (c : Char) : isDigit (lowerA c) = isDigit c := by
  rw [Bool.eq_iff_iff, isDigit_iff, isDigit_iff, lowerA_toNat]; split <;> omega

theorem lowerA_of_isDigit {c : Char} (h : isDigit c = true) : lowerA c = c := by
  rw [isDigit_iff] at h
  rw [char_eq_iff, lowerA_toNat]; split <;> omega

theorem lowerA_eq_nl (c : Char) : lowerA c = '\n' ↔ c = '\n' := by
  simp only [char_eq_iff, lowerA_toNat, show '\n'.toNat = 10 from rfl]; split <;> omega

theorem eqCI_lowerA (a c : Char) : eqCI a (lowerA c) = eqCI a c := by
  simp only [eqCI, foldC_lowerA]

theorem eqCI_refl (c : Char) : eqCI c c = true := by simp [eqCI]

theorem foldC_eq_of_lowerA_eq {a b : Char} (h : lowerA a = lowerA b) : foldC a = foldC b := by
  rw [← foldC_lowerA a, h, foldC_lowerA]

theorem upperA_eq_of_lowerA_eq {a b : Char} (h : lowerA a = lowerA b) : upperA a = upperA b := by
  rw [← upperA_lowerA a, h, upperA_lowerA]

/-! ### case variants -/
theorem lowerS_lowerS (s : List Char) : lowerS (lowerS s) = lowerS s := by
  simp [lowerS, lowerA_lowerA]

theorem lowerS_append (a b : List Char) : lowerS (a ++ b) = lowerS a ++ lowerS b := by simp [lowerS]

theorem CaseVariant.lowerS_eq {m m' : List Char} (h : CaseVariant m m') : lowerS m = lowerS m' := h

theorem CaseVariant.fold {m m' : List Char} (h : CaseVariant m m') : m.map foldC = m'.map foldC := by
  unfold CaseVariant at h
  induction m generalizing m' with
  | nil => cases m' <;> simp_all
  | cons a r ih =>
    cases m' with
    | nil => simp at h
    | cons b r' =>
      simp only [List.map_cons, List.cons.injEq] at h ⊢
      exact ⟨foldC_eq_of_lowerA_eq h.1, ih h.2⟩

theorem CaseVariant.split {m a b : List Char} (h : CaseVariant m (a ++ b)) :
    ∃ m1 m2, m = m1 ++ m2 ∧ CaseVariant m1 a ∧ CaseVariant m2 b := by
  unfold CaseVariant at h
  rw [List.map_append, List.map_eq_append_iff] at h
  obtain ⟨m1, m2, rfl, h1, h2⟩ := h
  exact ⟨m1, m2, rfl, h1, h2⟩

/-! ### literal prefixes -/
theorem strip_of_fold_eq (p p' r : List Char) (h : p'.map foldC = p.map foldC) :
    stripPrefixCI p (p' ++ r) = some r := by
  induction p generalizing p' with
  | nil => cases p' <;> simp_all [stripPrefixCI]
  | cons a q ih =>
    cases p' with
    | nil => simp at h
    | cons b q' =>
      simp only [List.map_cons, List.cons.injEq] at h
      simp only [List.cons_append, stripPrefixCI, eqCI, h.1, beq_self_eq_true, if_true]
      exact ih q' h.2

theorem strip_self (p r : List Char) : stripPrefixCI p (p ++ r) = some r := strip_of_fold_eq p p r rfl

theorem strip_variant {p p' : List Char} (r : List Char) (h : CaseVariant p' p) :
    stripPrefixCI p (p' ++ r) = some r := strip_of_fold_eq p p' r h.fold

theorem strip_append (p q s : List Char) :
    stripPrefixCI (p ++ q) s = (stripPrefixCI p s).bind (stripPrefixCI q) := by
  induction p generalizing s with
  | nil => simp [stripPrefixCI]
  | cons a p ih =>
    cases s with
    | nil => simp [stripPrefixCI]
    | cons c s =>
      simp only [List.cons_append, stripPrefixCI]
      split
      · exact ih s
      · rfl

theorem strip_some {p u r : List Char} (h : stripPrefixCI p u = some r) :
    ∃ v, u = v ++ r ∧ v.map foldC = p.map foldC := by
  induction p generalizing u with
  | nil => simp only [stripPrefixCI, Option.some.injEq] at h; exact ⟨[], by simp [h], rfl⟩
  | cons a p ih =>
    cases u with
    | nil => simp [stripPrefixCI] at h
    | cons c u =>
      simp only [stripPrefixCI] at h
      split at h
      · rename_i hc
        obtain ⟨v, rfl, hv⟩ := ih h
        refine ⟨c :: v, rfl, ?_⟩
        simp only [eqCI, beq_iff_eq] at hc
        simp [hv, hc]
      · cases h

/-- a literal whose first character does not occur (up to case) in the text does not match -/
theorem strip_none_of_head {a : Char} {p u : List Char} (h : ∀ c ∈ u.head?, eqCI a c = false) :
    stripPrefixCI (a :: p) u = none := by
  cases u with
  | nil => rfl
  | cons c u => simp [stripPrefixCI, h c (by simp)]

theorem strip_lowerS (p s : List Char) :
    stripPrefixCI p (lowerS s) = (stripPrefixCI p s).map lowerS := by
  induction p generalizing s with
  | nil => simp [stripPrefixCI]
  | cons a p ih =>
    cases s with
    | nil => simp [stripPrefixCI, lowerS]
    | cons c s =>
      simp only [lowerS, List.map_cons, stripPrefixCI, eqCI_lowerA]
      split
      · exact ih s
      · rfl

/-! ### the backtracking scanner -/
theorem greedy_some {α : Type} (s : List Char) (k : List Char → List Char → Option α) (r : α) (i : Nat)
    (hk : k (s.take i) (s.drop i) = some r) (n : Nat) (hin : i ≤ n)
    (hfail : ∀ j, i < j → j ≤ n → k (s.take j) (s.drop j) = none) : greedy s k n = some r := by
  induction n with
  | zero =>
    have : i = 0 := by omega
    subst this
    simpa [greedy] using hk
  | succ n ih =>
    by_cases hi : i = n + 1
    · subst hi
      simp only [greedy, hk]
    · simp only [greedy, hfail (n + 1) (by omega) (by omega)]
      exact ih (by omega) fun j h1 h2 => hfail j h1 (by omega)

/-- `(.*)` takes exactly `g` when the continuation accepts there and rejects every longer group -/
theorem dotStar_append {α : Type} (g t : List Char) (k : List Char → List Char → Option α) (r : α)
    (hg : '\n' ∉ g) (hk : k g t = some r)
    (hfail : ∀ d, 0 < d → k (g ++ t.take d) (t.drop d) = none) : dotStar (g ++ t) k = some r := by
  unfold dotStar
  apply greedy_some (i := g.length)
  · rw [List.take_left' rfl, List.drop_left' rfl]; exact hk
  · rw [List.takeWhile_append_of_pos (by
      intro a ha; simp only [ne_eq, decide_not, Bool.not_eq_eq_eq_not, Bool.not_true, decide_eq_false_iff_not]
      rintro rfl; exact hg ha)]
    simp
  · intro j h1 _
    have hj : j = g.length + (j - g.length) := by omega
    have h1 : (g ++ t).take j = g ++ t.take (j - g.length) := by
      rw [List.take_append, List.take_of_length_le (by omega)]
    have h2 : (g ++ t).drop j = t.drop (j - g.length) := by
      rw [List.drop_append, List.drop_of_length_le (by omega)]; simp
    rw [h1, h2]
    exact hfail _ (by omega)

/-! ### decimal numbers -/
def digitCh (n : Nat) : Char := Char.ofNat ('0'.toNat + n % 10)

theorem digitCh_toNat (n : Nat) : (digitCh n).toNat = 48 + n % 10 := by
  unfold digitCh
  rw [show '0'.toNat = 48 from rfl, toNat_ofNat_small _ (by omega)]

theorem digitCh_isDigit (n : Nat) : isDigit (digitCh n) = true := by
  rw [isDigit_iff, digitCh_toNat]; omega

def decStep (n : Nat) (c : Char) : Nat := n * 10 + (c.toNat - '0'.toNat)

theorem natDigitsAux_spec (fuel n : Nat) (acc : List Char) (h : n < fuel) :
    ∃ ds, natDigitsAux fuel n acc = ds ++ acc ∧ ds ≠ [] ∧ (∀ c ∈ ds, isDigit c = true) ∧
      ∀ init, ds.foldl decStep init = init * 10 ^ ds.length + n := by
  induction fuel generalizing n acc with
  | zero => omega
  | succ fuel ih =>
    simp only [natDigitsAux]
    by_cases hn : n < 10
    · simp only [if_pos hn]
      refine ⟨[digitCh n], rfl, by simp, ?_, ?_⟩
      · intro c hc; simp only [List.mem_singleton] at hc; subst hc; exact digitCh_isDigit n
      · intro init
        simp only [List.foldl_cons, List.foldl_nil, decStep, digitCh_toNat, List.length_singleton,
          show '0'.toNat = 48 from rfl]
        omega
    · simp only [if_neg hn]
      obtain ⟨ds, h1, h2, h3, h4⟩ := ih (n / 10) (digitCh n :: acc) (by omega)
      refine ⟨ds ++ [digitCh n], ?_, by simp, ?_, ?_⟩
      · rw [show Char.ofNat ('0'.toNat + n % 10) = digitCh n from rfl, h1]; simp
      · intro c hc
        simp only [List.mem_append, List.mem_singleton] at hc
        rcases hc with hc | rfl
        · exact h3 c hc
        · exact digitCh_isDigit n
      · intro init
        rw [List.foldl_append, h4]
        simp only [List.foldl_cons, List.foldl_nil, decStep, digitCh_toNat, List.length_append,
          List.length_singleton, show '0'.toNat = 48 from rfl, Nat.pow_succ, Nat.add_mul, Nat.mul_assoc]
        omega

theorem natStr_ne_nil (n : Nat) : natStr n ≠ [] := by
  obtain ⟨ds, h1, h2, _, _⟩ := natDigitsAux_spec (n + 1) n [] (by omega)
  rw [natStr, h1]; simpa using h2

theorem natStr_digits (n : Nat) : ∀ c ∈ natStr n, isDigit c = true := by
  obtain ⟨ds, h1, _, h3, _⟩ := natDigitsAux_spec (n + 1) n [] (by omega)
  rw [natStr, h1]; simpa using h3

theorem decimal_natStr (n : Nat) : decimal? (natStr n) = some n := by
  obtain ⟨ds, h1, h2, h3, h4⟩ := natDigitsAux_spec (n + 1) n [] (by omega)
  have h5 : natStr n = ds := by rw [natStr, h1]; simp
  have := h4 0
  rw [h5, decimal?, if_neg]
  · simp only [Nat.zero_mul, Nat.zero_add] at this
    exact congrArg some this
  · simp only [not_or, Decidable.not_not, List.all_eq_true]
    exact ⟨h2, h3⟩

/-- the digits of a number stop at the first non-digit -/
theorem takeWhile_digits (ds rest : List Char) (hd : ∀ c ∈ ds, isDigit c = true)
    (hr : ∀ c ∈ rest.head?, isDigit c = false) : (ds ++ rest).takeWhile isDigit = ds := by
  rw [List.takeWhile_append_of_pos hd]
  cases rest with
  | nil => simp
  | cons c rest => simp [hr c (by simp)]

/-! ### the byte reader -/
theorem recvOne_body (m rest acc : List Byte) (hm : CRFree m) :
    recvOne (.body acc) (m ++ [CR, LF] ++ rest) = .msg (acc ++ m) rest := by
  induction m generalizing acc with
  | nil => simp [recvOne, rstep]
  | cons b m ih =>
    have hb : b ≠ CR := fun h => hm (by simp [h])
    have hm' : CRFree m := fun h => hm (List.mem_cons_of_mem _ h)
    simp only [List.cons_append, recvOne, rstep, if_neg hb]
    have := ih (acc ++ [b]) hm'
    simpa using this

theorem recvOne_partial (tail acc : List Byte) (ht : PartialFrame tail) :
    ∃ r, recvOne (.body acc) tail = .error r := by
  have key : ∀ (q acc : List Byte), CRFree q → ∀ e, (e = [] ∨ e = [CR]) →
      ∃ r, recvOne (.body acc) (q ++ e) = .error r := by
    intro q
    induction q with
    | nil =>
      intro acc _ e he
      rcases he with rfl | rfl
      · exact ⟨[], by simp [recvOne, rstep]⟩
      · exact ⟨[], by simp [recvOne, rstep]⟩
    | cons b q ih =>
      intro acc hq e he
      have hb : b ≠ CR := fun h => hq (by simp [h])
      have hq' : CRFree q := fun h => hq (List.mem_cons_of_mem _ h)
      simp only [List.cons_append, recvOne, rstep, if_neg hb]
      exact ih (acc ++ [b]) hq' e he
  rcases ht with h | ⟨q, hq, rfl⟩
  · simpa using key tail acc h [] (Or.inl rfl)
  · exact key q acc hq [CR] (Or.inr rfl)

theorem recvAll_frames (msgs : List (List Byte)) (hm : ∀ m ∈ msgs, CRFree m)
    (tail : List Byte) (ht : PartialFrame tail) (fuel : Nat) (hf : msgs.length < fuel) :
    recvAll fuel ((msgs.map encodeMsg).flatten ++ tail) = msgs := by
  induction msgs generalizing fuel with
  | nil =>
    obtain ⟨f, rfl⟩ : ∃ f, fuel = f + 1 := ⟨fuel - 1, by simp at hf; omega⟩
    obtain ⟨r, hr⟩ := recvOne_partial tail [] ht
    simp [recvAll, hr]
  | cons m ms ih =>
    obtain ⟨f, rfl⟩ : ∃ f, fuel = f + 1 := ⟨fuel - 1, by simp at hf; omega⟩
    have h1 := recvOne_body m ((ms.map encodeMsg).flatten ++ tail) [] (hm m List.mem_cons_self)
    simp only [List.nil_append] at h1
    simp only [List.map_cons, List.flatten_cons, encodeMsg, List.append_assoc] at h1 ⊢
    simp only [recvAll, h1]
    rw [ih (fun x hx => hm x (List.mem_cons_of_mem _ hx)) f (by simp at hf; omega)]

end Bridge
