import BridgeVerif.Spec.JsonLog
import BridgeVerif.Generated.Schemas
import BridgeVerif.Props.C14
import BridgeVerif.Props.C15
import BridgeVerif.Lemmas.Deal
/-!
# The JSON log / board-setting records: well-formedness and exact read-back (C12, C17 JSON half)
-/
namespace Bridge

/-! ### generic list lemmas -/
theorem mapM_map_some_json {α β : Type} (f : α → β) (g : β → Option α) (l : List α)
    (h : ∀ x ∈ l, g (f x) = some x) : (l.map f).mapM g = some l := by
  induction l with
  | nil => rfl
  | cons a r ih =>
    have h1 := h a List.mem_cons_self
    have h2 := ih fun x hx => h x (List.mem_cons_of_mem _ hx)
    simp [List.mapM_cons, h1, h2]

theorem nodup_map_of_inj {α β : Type} (f : α → β) (hf : ∀ a b, f a = f b → a = b) (l : List α)
    (h : l.Nodup) : (l.map f).Nodup := by
  unfold List.Nodup at *
  rw [List.pairwise_map]
  exact h.imp fun hne e => hne (hf _ _ e)

theorem seat_name_inj : ∀ a b : Seat, a.name = b.name → a = b := by
  intro a b; cases a <;> cases b <;> simp [Seat.name]
theorem suit_name_inj : ∀ a b : Suit, a.name = b.name → a = b := by
  intro a b; cases a <;> cases b <;> simp [Suit.name]
theorem seatOfName_name (p : Seat) : seatOfName? p.name = some p := by cases p <;> rfl
theorem suitOfName_name (s : Suit) : suitOfName? s.name = some s := by cases s <;> rfl

/-! ### well-formedness of the written records -/
theorem wfElems_map {α : Type} (f : α → Json) (l : List α) :
    wfElems (l.map f) = l.all fun x => (f x).wf := by
  induction l with
  | nil => simp [wfElems]
  | cons a r ih => simp [wfElems, ih]

theorem wfMembers_map {α : Type} (f : α → List Char × Json) (l : List α) :
    wfMembers (l.map f) = l.all fun x => (f x).2.wf := by
  induction l with
  | nil => simp [wfMembers]
  | cons a r ih =>
    rw [List.map_cons, List.all_cons, ← ih]
    cases h : f a with
    | mk k v => simp [wfMembers]

theorem wf_strs {α : Type} (f : α → List Char) (l : List α) : (Json.arr (l.map fun x => jstr (f x))).wf = true := by
  simp [Json.wf, wfElems_map, jstr]

theorem dealJson_wf (h : Hands) : (dealJson h).wf = true := by
  simp [dealJson, Json.wf, wfMembers, wfElems_map, jstr, keysOf, jkey]

theorem ddaJson_wf (d : Dda) (h : DdaWF d) : (ddaJson d).wf = true := by
  obtain ⟨h1, h2⟩ := h
  simp only [ddaJson, Json.wf, wfMembers_map, Bool.and_eq_true, List.all_eq_true, decide_eq_true_eq, keysOf,
    List.map_map]
  refine ⟨?_, ?_⟩
  · intro row hrow
    refine ⟨by simp, ?_⟩
    have := nodup_map_of_inj Suit.name suit_name_inj _ (h2 row hrow)
    simpa [List.map_map, Function.comp_def] using this
  · have := nodup_map_of_inj Seat.name seat_name_inj _ h1
    simpa [List.map_map, Function.comp_def] using this

theorem trickJson_wf (t : Trick) : (trickJson t).wf = true := by
  simp [trickJson, Json.wf, wfMembers, wfElems_map, jstr, keysOf, jkey]

theorem logJson_wf (e : LogEntry) (h : e.WF) : (logJson e).wf = true := by
  have hd : ∀ d, e.dda = some d → (ddaJson d).wf = true := fun d hd => ddaJson_wf d (h.dda d hd)
  unfold logJson
  cases hdda : e.dda with
  | none =>
    cases e.play <;> cases e.tricks <;> cases e.contract.isPassedOut <;>
      simp [Json.wf, wfMembers, wfElems_map, jstr, keysOf, jkey, dealJson_wf, trickJson_wf]
  | some d =>
    have := hd d hdda
    cases e.play <;> cases e.tricks <;> cases e.contract.isPassedOut <;>
      simp [Json.wf, wfMembers, wfElems_map, jstr, keysOf, jkey, dealJson_wf, trickJson_wf, this]

theorem settingJson_wf (e : SettingEntry) (h : e.WF) : (settingJson e).wf = true := by
  unfold settingJson
  cases hdda : e.dda with
  | none => simp [Json.wf, wfMembers, jstr, keysOf, jkey, dealJson_wf]
  | some d =>
    have := ddaJson_wf d (h.dda d hdda)
    simp [Json.wf, wfMembers, jstr, keysOf, jkey, dealJson_wf, this]

/-! ### the parser on the written records -/
theorem get_cons (k k' : List Char) (v : Json) (r : List (List Char × Json)) :
    (Json.obj ((k, v) :: r)).get? k' = if k = k' then some v else (Json.obj r).get? k' := by
  unfold Json.get?
  simp only [List.find?_cons]
  by_cases h : k = k'
  · simp [h]
  · have hb : (k == k') = false := beq_eq_false_iff_ne.2 h
    rw [hb, if_neg h]

theorem mapM_id_some {α : Type} (k : α → Option α) (l : List α) (h : ∀ x ∈ l, k x = some x) :
    l.mapM k = some l := by
  have := mapM_map_some_json id k l h
  simpa using this

theorem get_nil (k' : List Char) : (Json.obj []).get? k' = none := rfl

theorem strToCard_cardStr (c : Card) (h : c.ok = true) : strToCard? (cardStr c) = some c :=
  C15.card_str_round_trip c (mem_deck_of_ok h)

theorem strToCall_callStr (c : Call) : strToCall? (callStr c) = some c :=
  C15.bid_str_round_trip c (C15.calls_complete.2 c)

theorem strToVul_vulStr (v : Vul) : strToVul? (vulStr v) = some v := by cases v <;> decide

theorem sideOfName_NS : sideOfName? (jkey "NS") = some .NS := by decide
theorem sideOfName_EW : sideOfName? (jkey "EW") = some .EW := by decide

theorem handOfJsonVal_deal (h : Hands) (hw : HandsWF h) (p : Seat) :
    handOfJsonVal? (.arr ((dealToJson h p).map jstr)) = some (sortAsc (h p)) := by
  have hp := sortAsc_perm (h p)
  have h1 : ((dealToJson h p).map jstr).mapM Json.str? = some (dealToJson h p) :=
    mapM_map_some_json jstr Json.str? _ fun _ _ => rfl
  simp only [handOfJsonVal?, h1, Option.bind_some]
  rw [handOfJson?, dealToJson, mapM_strToCard _ fun c hc => (hw p).2 c (hp.mem_iff.1 hc)]
  simp only [Option.map_some]
  rw [dedup_of_nodup _ (hp.nodup_iff.2 (hw p).1)]

theorem handsOfJson_dealJson (h : Hands) (hw : HandsWF h) :
    handsOfJson? (dealJson h) = some fun p => sortAsc (h p) := by
  have e : (fun p : Seat => match p with
      | .N => sortAsc (h .N) | .E => sortAsc (h .E) | .S => sortAsc (h .S) | .W => sortAsc (h .W)) =
      fun p => sortAsc (h p) := by funext p; cases p <;> rfl
  simp [handsOfJson?, dealJson, get_cons, jkey, handOfJsonVal_deal h hw]
  exact e

theorem ddaOfJson_ddaJson (d : Dda) : ddaOfJson? (ddaJson d) = some d := by
  simp only [ddaOfJson?, ddaJson]
  apply mapM_map_some_json
  rintro ⟨p, row⟩ _
  simp [seatOfName_name, Json.obj?]
  rw [mapM_id_some]
  · rfl
  · rintro ⟨s, n⟩ _
    simp [suitOfKey?, suitOfName_name]

theorem contract_rt : ∀ b : Fin 35, ∀ x xx : Bool, ∀ v ∈ Vul.all, ∀ d ∈ C15.seatOpts,
    strToContract? (contractStr ⟨some b, x, xx, v, d⟩) v d = some ⟨some b, x || xx, xx, v, d⟩ := by
  decide +kernel

theorem vul_mem_all (v : Vul) : v ∈ Vul.all := by cases v <;> decide
theorem seatOpt_mem (d : Option Seat) : d ∈ C15.seatOpts := by
  cases d with
  | none => decide
  | some p => cases p <;> decide

theorem strToContract_contractStr (c : Contract) (h : c.isPassedOut = true → c.declarer = none) :
    strToContract? (contractStr c) c.vul c.declarer = some c.norm := by
  obtain ⟨fb, x, xx, v, d⟩ := c
  cases fb with
  | none =>
    have : d = none := h rfl
    subst this
    exact C15.passed_out_text_round_trip x xx v (vul_mem_all v)
  | some b => exact contract_rt b x xx v (vul_mem_all v) d (seatOpt_mem d)

theorem trickOfJson_trickJson (t : Trick) (h : ∀ c ∈ t.cards, c.ok = true) :
    trickOfJson? (trickJson t) = some t := by
  have : (t.cards.map fun c => jstr (cardStr c)).mapM (fun c => c.str?.bind strToCard?) = some t.cards :=
    mapM_map_some_json _ _ _ fun c hc => by simp [jstr, Json.str?, strToCard_cardStr c (h c hc)]
  simp [trickOfJson?, trickJson, get_cons, jkey, jstr, Json.str?, Json.arr?, seatOfName_name] at this ⊢
  simp [this]

theorem settingOfJson_settingJson (e : SettingEntry) (h : e.WF) :
    settingOfJson? (settingJson e) = some e.readBack := by
  have hh := handsOfJson_dealJson e.deal h.hands
  unfold settingJson
  cases hd : e.dda with
  | none =>
    simp [settingOfJson?, get_cons, get_nil, jkey, jstr, Json.str?, seatOfName_name, strToVul_vulStr, hh,
      SettingEntry.readBack, hd]
  | some d =>
    simp [settingOfJson?, get_cons, jkey, jstr, Json.str?, seatOfName_name, strToVul_vulStr, hh,
      SettingEntry.readBack, hd, ddaOfJson_ddaJson]

theorem settingOfJson_logJson (e : LogEntry) (h : e.WF) : settingOfJson? (logJson e) = some e.setting := by
  have hh := handsOfJson_dealJson e.deal h.hands
  unfold logJson
  cases hd : e.dda with
  | none =>
    simp [settingOfJson?, get_cons, get_nil, jkey, jstr, Json.str?, seatOfName_name, strToVul_vulStr, hh,
      LogEntry.setting, hd]
  | some d =>
    simp [settingOfJson?, get_cons, jkey, jstr, Json.str?, seatOfName_name, strToVul_vulStr, hh,
      LogEntry.setting, hd, ddaOfJson_ddaJson]

theorem str_str (s : List Char) : (Json.str s).str? = some s := rfl
theorem seatOfName_lits : seatOfName? ['N'] = some .N ∧ seatOfName? ['E'] = some .E ∧
    seatOfName? ['S'] = some .S ∧ seatOfName? ['W'] = some .W := ⟨rfl, rfl, rfl, rfl⟩
theorem sideOfName_lits : sideOfName? ['N', 'S'] = some .NS ∧ sideOfName? ['E', 'W'] = some .EW := by decide

theorem logOfJson_logJson (e : LogEntry) (h : e.WF) : logOfJson? (logJson e) = some e.readBack := by
  have hs := settingOfJson_logJson e h
  have hbids : (e.bids.map fun c => Json.str (callStr c)).mapM (fun b => b.str?.bind strToCall?) = some e.bids :=
    mapM_map_some_json _ _ _ fun c _ => by simp [Json.str?, strToCall_callStr]
  have hplay : ∀ ts, e.play = some ts → (ts.map trickJson).mapM trickOfJson? = some ts := fun ts hts =>
    mapM_map_some_json _ _ _ fun t ht => trickOfJson_trickJson t (h.play ts hts t ht)
  have hc := strToContract_contractStr e.contract h.noDeclarer
  have hdecl := h.declarer
  have hnd := h.noDeclarer
  simp only [logOfJson?, hs, Option.bind_eq_bind, Option.bind_some]
  cases hfb : e.contract.finalBid with
  | none =>
    have hpo : e.contract.isPassedOut = true := by simp [Contract.isPassedOut, hfb]
    have hdn := hnd hpo
    rw [hdn] at hc
    cases hp : e.play with
    | none =>
      cases ht : e.tricks <;>
      simp [logJson, get_cons, jkey, jstr, str_str, hpo, LogEntry.setting, hc, hbids, hp, ht, seatOfName_lits,
        sideOfName_lits, LogEntry.readBack, -List.mapM_map]
    | some ts =>
      have := hplay ts hp
      cases ht : e.tricks <;>
      simp [logJson, get_cons, jkey, jstr, str_str, hpo, LogEntry.setting, hc, hbids, hp, ht, seatOfName_lits,
        sideOfName_lits, LogEntry.readBack, this, -List.mapM_map]
  | some b =>
    have hpo : e.contract.isPassedOut = false := by simp [Contract.isPassedOut, hfb]
    obtain ⟨p, hdp⟩ := Option.isSome_iff_exists.1 (hdecl hpo)
    rw [hdp] at hc
    cases hp : e.play with
    | none =>
      cases ht : e.tricks <;>
      simp [logJson, get_cons, jkey, jstr, str_str, hpo, LogEntry.setting, hc, hbids, hp, ht, seatOfName_lits,
        sideOfName_lits, LogEntry.readBack, hdp, seatOptStr, seatOfName_name, -List.mapM_map]
    | some ts =>
      have := hplay ts hp
      cases ht : e.tricks <;>
      simp [logJson, get_cons, jkey, jstr, str_str, hpo, LogEntry.setting, hc, hbids, hp, ht, seatOfName_lits,
        sideOfName_lits, LogEntry.readBack, hdp, seatOptStr, seatOfName_name, this, -List.mapM_map]

/-- what "exactly as written" means field by field.  The doubling status of a passed-out contract is read back as
`Dbl.none` whatever the two stored flags were (the text `Passed_out` does not carry them). -/
theorem readBack_fields (e : LogEntry) (h : e.WF) :
    let r := e.readBack
    r.boardId = e.boardId ∧ r.dealer = e.dealer ∧ r.vul = e.contract.vul ∧ (∀ p, (r.hands p).Perm (e.deal p)) ∧
    r.bids = some e.bids ∧ r.contract.finalBid = e.contract.finalBid ∧
    r.contract.dbl = (if e.contract.isPassedOut then Dbl.none else e.contract.dbl) ∧
    r.contract.vul = e.contract.vul ∧ r.contract.declarer = e.contract.declarer ∧ r.declarer = e.contract.declarer ∧
    r.play = e.play ∧ r.tricks = e.tricks ∧ r.scoreType = some e.scoring.value ∧
    r.scores = some [(.NS, e.scoreNS), (.EW, e.scoreEW)] ∧ r.dda = e.dda ∧
    r.players = some [(.N, e.north), (.E, e.east), (.S, e.south), (.W, e.west)] := by
  have hnd := h.noDeclarer
  refine ⟨rfl, rfl, rfl, fun p => sortAsc_perm _, rfl, ?_, ?_, ?_, ?_, ?_, rfl, rfl, rfl, rfl, rfl, rfl⟩
  all_goals
    revert hnd
    cases hfb : e.contract.finalBid <;> cases hx : e.contract.x <;> cases hxx : e.contract.xx <;>
      simp [LogEntry.readBack, Contract.norm, Contract.isPassedOut, Contract.dbl, hfb, hx, hxx] <;>
      intro hd <;> simp [hd]

/-- the statement with `r.contract.dbl = e.contract.dbl` holds when a passed-out contract carries no doubling flag -/
theorem readBack_fields_of_flags (e : LogEntry) (h : e.WF)
    (hf : e.contract.isPassedOut = true → e.contract.x = false ∧ e.contract.xx = false) :
    let r := e.readBack
    r.boardId = e.boardId ∧ r.dealer = e.dealer ∧ r.vul = e.contract.vul ∧ (∀ p, (r.hands p).Perm (e.deal p)) ∧
    r.bids = some e.bids ∧ r.contract.finalBid = e.contract.finalBid ∧ r.contract.dbl = e.contract.dbl ∧
    r.contract.vul = e.contract.vul ∧ r.contract.declarer = e.contract.declarer ∧ r.declarer = e.contract.declarer ∧
    r.play = e.play ∧ r.tricks = e.tricks ∧ r.scoreType = some e.scoring.value ∧
    r.scores = some [(.NS, e.scoreNS), (.EW, e.scoreEW)] ∧ r.dda = e.dda ∧
    r.players = some [(.N, e.north), (.E, e.east), (.S, e.south), (.W, e.west)] := by
  obtain ⟨h1, h2, h3, h4, h5, h6, h7, h8⟩ := readBack_fields e h
  refine ⟨h1, h2, h3, h4, h5, h6, ?_, h8⟩
  rw [h7]
  cases hpo : e.contract.isPassedOut with
  | false => simp
  | true =>
    obtain ⟨hx, hxx⟩ := hf hpo
    simp [Contract.dbl, hx, hxx]

/-- the counterexample to the unconditional `r.contract.dbl = e.contract.dbl` : passed out with the `x` flag set -/
def readBackCex : LogEntry where
  boardId := []
  north := []
  east := []
  south := []
  west := []
  dealer := .N
  deal := fun _ => []
  scoring := .MP
  bids := []
  contract := ⟨none, true, false, .none, none⟩
  play := none
  tricks := none
  scoreNS := 0
  scoreEW := 0
  dda := none

theorem readBackCex_wf : readBackCex.WF := by
  constructor <;> simp [readBackCex, HandsWF, Contract.isPassedOut]

theorem readBackCex_dbl : readBackCex.readBack.contract.dbl ≠ readBackCex.contract.dbl := by decide

/-! ### schema conformance -/
theorem validateItems_map {α : Type} (s : Schema) (f : α → Json) (l : List α) :
    validateItems (.some s) (l.map f) = l.all fun x => validate s (f x) := by
  induction l with
  | nil => simp [validateItems]
  | cons a r ih => simp [validateItems, ih]

theorem validateProps_cons_of (k : List Char) (s : Schema) (rest : SProps) (l : List (List Char × Json))
    (h1 : ∀ v, lookupKey k l = some v → validate s v = true) (h2 : validateProps rest l = true) :
    validateProps (.cons k s rest) l = true := by
  simp only [validateProps, h2, Bool.and_true]
  split
  · rename_i v hv; exact h1 v hv
  · rfl

theorem lookupKey_map_some {α : Type} (k : List Char) (f : α → List Char × Json) (l : List α) (v : Json)
    (h : lookupKey k (l.map f) = some v) : ∃ x ∈ l, v = (f x).2 := by
  induction l with
  | nil => simp [lookupKey] at h
  | cons a r ih =>
    rw [List.map_cons] at h
    cases hf : f a with
    | mk k' v' =>
      rw [hf] at h
      simp only [lookupKey] at h
      split at h
      · cases h; exact ⟨a, List.mem_cons_self, by rw [hf]⟩
      · obtain ⟨x, hx, e⟩ := ih h
        exact ⟨x, List.mem_cons_of_mem _ hx, e⟩

theorem lookupKey_map_isSome {α : Type} (f : α → List Char × Json) (l : List α) (x : α) (hx : x ∈ l) :
    (lookupKey (f x).1 (l.map f)).isSome = true := by
  induction l with
  | nil => cases hx
  | cons a r ih =>
    rw [List.map_cons]
    cases hf : f a with
    | mk k' v' =>
      simp only [lookupKey]
      split
      · rfl
      · rcases List.mem_cons.1 hx with rfl | hx
        · rename_i hne; rw [hf] at hne; simp at hne
        · exact ih hx

abbrev strS : Schema := Schema.mk [.string] .nil [] .none
abbrev intS : Schema := Schema.mk [.integer] .nil [] .none
abbrev strArrS : Schema := Schema.mk [.array] .nil [] (.some strS)

theorem validate_strS (s : List Char) : validate strS (.str s) = true := by
  simp [validate, JType.accepts]
theorem validate_intS (n : Int) : validate intS (.int n) = true := by
  simp [validate, JType.accepts]
theorem validate_strArrS {α : Type} (f : α → List Char) (l : List α) :
    validate strArrS (.arr (l.map fun x => Json.str (f x))) = true := by
  simp [validate, JType.accepts, validateItems_map]

abbrev dealS : Schema :=
  Schema.mk [.object] (.cons "N".toList strArrS (.cons "E".toList strArrS (.cons "S".toList strArrS
    (.cons "W".toList strArrS .nil)))) ["N".toList, "E".toList, "S".toList, "W".toList] .none

theorem validate_dealS (h : Hands) : validate dealS (dealJson h) = true := by
  simp [validate, JType.accepts, validateProps, validateItems_map, lookupKey, dealJson, jkey, jstr]

abbrev rowS : Schema :=
  Schema.mk [.object] (.cons "C".toList intS (.cons "D".toList intS (.cons "H".toList intS (.cons "S".toList intS
    (.cons "NT".toList intS .nil))))) ["C".toList, "D".toList, "H".toList, "S".toList, "NT".toList] .none

theorem validate_rowS (row : List (Suit × Int)) (hc : ∀ s ∈ Suit.all, s ∈ row.map (·.1)) :
    validate rowS (.obj (row.map fun (s, v) => (s.name, Json.int v))) = true := by
  have hi : ∀ k v, lookupKey k (row.map fun (x : Suit × Int) => (x.1.name, Json.int x.2)) = some v →
      validate intS v = true := by
    intro k v hv
    obtain ⟨x, _, rfl⟩ := lookupKey_map_some _ _ _ _ hv
    exact validate_intS _
  have hr : ∀ s : Suit, (lookupKey s.name (row.map fun (x : Suit × Int) => (x.1.name, Json.int x.2))).isSome = true := by
    intro s
    have hs : s ∈ Suit.all := by cases s <;> decide
    obtain ⟨x, hx, rfl⟩ := List.mem_map.1 (hc s hs)
    exact lookupKey_map_isSome (fun (x : Suit × Int) => (x.1.name, Json.int x.2)) row x hx
  rw [validate]
  simp only [JType.accepts, List.all_cons, List.all_nil]
  refine Bool.and_eq_true_iff.2 ⟨by simp, Bool.and_eq_true_iff.2 ⟨?_, ?_⟩⟩
  · simp
    exact ⟨hr .C, hr .D, hr .H, hr .S, hr .NT⟩
  · repeat' apply validateProps_cons_of
    all_goals first | exact hi _ | simp [validateProps]

abbrev ddaS : Schema :=
  Schema.mk [.object] (.cons "N".toList rowS (.cons "E".toList rowS (.cons "S".toList rowS
    (.cons "W".toList rowS .nil)))) [] .none

theorem validate_ddaS (d : Dda) (hc : DdaComplete d) : validate ddaS (ddaJson d) = true := by
  have hi : ∀ k v, lookupKey k (d.map fun (x : Seat × List (Suit × Int)) =>
      (x.1.name, Json.obj (x.2.map fun (s, v) => (s.name, Json.int v)))) = some v → validate rowS v = true := by
    intro k v hv
    obtain ⟨x, hx, rfl⟩ := lookupKey_map_some _ _ _ _ hv
    exact validate_rowS x.2 (hc x hx)
  rw [ddaJson, validate]
  refine Bool.and_eq_true_iff.2 ⟨by simp [JType.accepts], ?_⟩
  simp only [List.all_nil, Bool.true_and]
  repeat' apply validateProps_cons_of
  all_goals first | exact hi _ | simp [validateProps]

abbrev playersS : Schema :=
  Schema.mk [.object] (.cons "N".toList strS (.cons "E".toList strS (.cons "S".toList strS
    (.cons "W".toList strS .nil)))) [] .none
abbrev trickS : Schema :=
  Schema.mk [.object] (.cons "leader".toList strS (.cons "cards".toList strArrS .nil)) [] .none
abbrev scoresS : Schema :=
  Schema.mk [.object] (.cons "NS".toList intS (.cons "EW".toList intS .nil)) [] .none

/-- the schema of one log record -/
abbrev logItemS : Schema :=
  Schema.mk [.object]
    (.cons "players".toList playersS
    (.cons "board_id".toList strS
    (.cons "dealer".toList strS
    (.cons "deal".toList dealS
    (.cons "vulnerability".toList strS
    (.cons "bid_history".toList strArrS
    (.cons "contract".toList strS
    (.cons "declarer".toList (Schema.mk [.string, .null] .nil [] .none)
    (.cons "play_history".toList (Schema.mk [.array, .null] .nil [] (.some trickS))
    (.cons "taken_trick".toList (Schema.mk [.integer, .null] .nil [] .none)
    (.cons "score_type".toList strS
    (.cons "scores".toList scoresS
    (.cons "dda".toList ddaS .nil)))))))))))))
    ["board_id".toList, "dealer".toList, "deal".toList, "vulnerability".toList, "declarer".toList,
      "contract".toList, "taken_trick".toList] .none

/-- the schema of one board-setting record -/
abbrev settingItemS : Schema :=
  Schema.mk [.object]
    (.cons "board_id".toList strS
    (.cons "dealer".toList strS
    (.cons "deal".toList dealS
    (.cons "vulnerability".toList strS
    (.cons "dda".toList ddaS .nil)))))
    ["board_id".toList, "dealer".toList, "deal".toList, "vulnerability".toList] .none

/-- the generated schema terms, structured -/
theorem logSchema_eq : Generated.logSchema =
    Schema.mk [.object] (.cons "logs".toList (Schema.mk [.array] .nil [] (.some logItemS)) .nil) [] .none := rfl
theorem settingSchema_eq : Generated.settingSchema =
    Schema.mk [.object] (.cons "board_settings".toList (Schema.mk [.array] .nil [] (.some settingItemS)) .nil) []
      .none := rfl

theorem validate_playersS (a b c d : List Char) :
    validate playersS (.obj [(jkey "N", jstr a), (jkey "E", jstr b), (jkey "S", jstr c), (jkey "W", jstr d)]) = true := by
  simp [validate, JType.accepts, validateProps, lookupKey, jkey, jstr]

theorem validate_trickS (t : Trick) : validate trickS (trickJson t) = true := by
  simp [validate, JType.accepts, validateProps, validateItems_map, lookupKey, trickJson, jkey, jstr]

theorem validate_scoresS (a b : Int) :
    validate scoresS (.obj [(jkey "NS", .int a), (jkey "EW", .int b)]) = true := by
  simp [validate, JType.accepts, validateProps, lookupKey, jkey]

theorem validate_declarer (b : Bool) (s : List Char) :
    validate (Schema.mk [.string, .null] .nil [] .none) (if b then .null else jstr s) = true := by
  cases b <;> simp [validate, JType.accepts, jstr]

theorem validate_play (p : Option (List Trick)) :
    validate (Schema.mk [.array, .null] .nil [] (.some trickS))
      (match p with | none => .null | some ts => .arr (ts.map trickJson)) = true := by
  cases p with
  | none => simp [validate, JType.accepts]
  | some ts =>
    have := validate_trickS
    simp [validate, JType.accepts, validateItems_map] at this ⊢
    intro t _
    exact this t

theorem validate_tricks (t : Option Int) :
    validate (Schema.mk [.integer, .null] .nil [] .none) (match t with | none => .null | some n => .int n) = true := by
  cases t <;> simp [validate, JType.accepts]

theorem validate_logItem (e : LogEntry) (hc : ∀ d, e.dda = some d → DdaComplete d) :
    validate logItemS (logJson e) = true := by
  unfold logJson
  rw [validate]
  refine Bool.and_eq_true_iff.2 ⟨by simp [JType.accepts], Bool.and_eq_true_iff.2 ⟨?_, ?_⟩⟩
  · simp [lookupKey, jkey]
  · repeat' apply validateProps_cons_of
    all_goals try (simp [validateProps]; done)
    all_goals intro v hv
    all_goals cases hd : e.dda
    all_goals simp [hd, lookupKey, jkey] at hv
    all_goals subst hv
    all_goals first
      | exact validate_strS _
      | exact validate_playersS _ _ _ _
      | exact validate_dealS _
      | exact validate_strArrS _ _
      | exact validate_declarer _ _
      | exact validate_play _
      | exact validate_tricks _
      | exact validate_scoresS _ _
      | exact validate_ddaS _ (hc _ hd)

theorem validate_settingItem (e : SettingEntry) (hc : ∀ d, e.dda = some d → DdaComplete d) :
    validate settingItemS (settingJson e) = true := by
  unfold settingJson
  rw [validate]
  refine Bool.and_eq_true_iff.2 ⟨by simp [JType.accepts], Bool.and_eq_true_iff.2 ⟨?_, ?_⟩⟩
  · simp [lookupKey, jkey]
  · repeat' apply validateProps_cons_of
    all_goals try (simp [validateProps]; done)
    all_goals intro v hv
    all_goals cases hd : e.dda
    all_goals simp [hd, lookupKey, jkey] at hv
    all_goals subst hv
    all_goals first
      | exact validate_strS _
      | exact validate_dealS _
      | exact validate_ddaS _ (hc _ hd)

theorem validate_doc {α : Type} (tag : String) (item : Schema) (f : α → Json) (l : List α)
    (h : ∀ x ∈ l, validate item (f x) = true) :
    validate (Schema.mk [.object] (.cons tag.toList (Schema.mk [.array] .nil [] (.some item)) .nil) [] .none)
      (.obj [(jkey tag, .arr (l.map f))]) = true := by
  simp [validate, validateProps, lookupKey, jkey, JType.accepts, validateItems_map]
  exact h

/-- every log document conforms to the published log schema (complete double-dummy rows, as the schema requires) -/
theorem validate_logDoc (es : List LogEntry)
    (hc : ∀ e ∈ es, ∀ d, e.dda = some d → DdaComplete d ∧ DdaWF d) :
    validate Generated.logSchema (logDoc es) = true := by
  rw [logSchema_eq]
  exact validate_doc "logs" logItemS logJson es fun e he => validate_logItem e fun d hd => (hc e he d hd).1

theorem validate_settingsDoc (es : List SettingEntry)
    (hc : ∀ e ∈ es, ∀ d, e.dda = some d → DdaComplete d ∧ DdaWF d) :
    validate Generated.settingSchema (settingsDoc es) = true := by
  rw [settingSchema_eq]
  exact validate_doc "board_settings" settingItemS settingJson es fun e he =>
    validate_settingItem e fun d hd => (hc e he d hd).1

end Bridge
