import BridgeVerif.Spec.JsonLog
import BridgeVerif.Generated.Schemas
import BridgeVerif.Props.C14
import BridgeVerif.Props.C15
import BridgeVerif.Lemmas.Deal
/-!
# The JSON log / board-setting records: well-formedness and exact read-back (C12, C17 JSON half)
-/
namespace Bridge

/-! ### generic list lemmas -/
theorem mapM_map_some {α β : Type} (f : α → β) (g : β → Option α) (l : List α)
    (h : ∀ x ∈ l, g (f x) = some x) : (l.map f).mapM g = some l := by
  induction l with
  | nil => rfl
  | cons a r ih =>
    have h1 := h a List.mem_cons_self
    have h2 := ih fun x hx => h x (List.mem_cons_of_mem _ hx)
    simp [List.mapM_cons, h1, h2]

theorem nodup_map_of_inj {α β : Type} (f : α → β) (hf : ∀ a b, f a = f b → a = b) (l : List α)
    (h : l.Nodup) : (l.map f).Nodup := by
  unfold List.Nodup at *
  rw [List.pairwise_map]
  exact h.imp fun hne e => hne (hf _ _ e)

theorem seat_name_inj : ∀ a b : Seat, a.name = b.name → a = b := by
  intro a b; cases a <;> cases b <;> simp [Seat.name]
theorem suit_name_inj : ∀ a b : Suit, a.name = b.name → a = b := by
  intro a b; cases a <;> cases b <;> simp [Suit.name]
theorem seatOfName_name (p : Seat) : seatOfName? p.name = some p := by cases p <;> rfl
theorem suitOfName_name (s : Suit) : suitOfName? s.name = some s := by cases s <;> rfl

/-! ### well-formedness of the written records -/
theorem wfElems_map {α : Type} (f : α → Json) (l : List α) :
    wfElems (l.map f) = l.all fun x => (f x).wf := by
  induction l with
  | nil => simp [wfElems]
  | cons a r ih => simp [wfElems, ih]

theorem wfMembers_map {α : Type} (f : α → List Char × Json) (l : List α) :
    wfMembers (l.map f) = l.all fun x => (f x).2.wf := by
  induction l with
  | nil => simp [wfMembers]
  | cons a r ih =>
    rw [List.map_cons, List.all_cons, ← ih]
    cases h : f a with
    | mk k v => simp [wfMembers]

theorem wf_strs {α : Type} (f : α → List Char) (l : List α) : (Json.arr (l.map fun x => jstr (f x))).wf = true := by
  simp [Json.wf, wfElems_map, jstr]

theorem dealJson_wf (h : Hands) : (dealJson h).wf = true := by
  simp [dealJson, Json.wf, wfMembers, wfElems_map, jstr, keysOf, jkey]

theorem ddaJson_wf (d : Dda) (h : DdaWF d) : (ddaJson d).wf = true := by
  obtain ⟨h1, h2⟩ := h
  simp only [ddaJson, Json.wf, wfMembers_map, Bool.and_eq_true, List.all_eq_true, decide_eq_true_eq, keysOf,
    List.map_map]
  refine ⟨?_, ?_⟩
  · intro row hrow
    refine ⟨by simp, ?_⟩
    have := nodup_map_of_inj Suit.name suit_name_inj _ (h2 row hrow)
    simpa [List.map_map, Function.comp_def] using this
  · have := nodup_map_of_inj Seat.name seat_name_inj _ h1
    simpa [List.map_map, Function.comp_def] using this

theorem trickJson_wf (t : Trick) : (trickJson t).wf = true := by
  simp [trickJson, Json.wf, wfMembers, wfElems_map, jstr, keysOf, jkey]

theorem logJson_wf (e : LogEntry) (h : e.WF) : (logJson e).wf = true := by
  have hd : ∀ d, e.dda = some d → (ddaJson d).wf = true := fun d hd => ddaJson_wf d (h.dda d hd)
  unfold logJson
  cases hdda : e.dda with
  | none =>
    cases e.play <;> cases e.tricks <;> cases e.contract.isPassedOut <;>
      simp [Json.wf, wfMembers, wfElems_map, jstr, keysOf, jkey, dealJson_wf, trickJson_wf]
  | some d =>
    have := hd d hdda
    cases e.play <;> cases e.tricks <;> cases e.contract.isPassedOut <;>
      simp [Json.wf, wfMembers, wfElems_map, jstr, keysOf, jkey, dealJson_wf, trickJson_wf, this]

theorem settingJson_wf (e : SettingEntry) (h : e.WF) : (settingJson e).wf = true := by
  unfold settingJson
  cases hdda : e.dda with
  | none => simp [Json.wf, wfMembers, jstr, keysOf, jkey, dealJson_wf]
  | some d =>
    have := ddaJson_wf d (h.dda d hdda)
    simp [Json.wf, wfMembers, jstr, keysOf, jkey, dealJson_wf, this]

end Bridge
