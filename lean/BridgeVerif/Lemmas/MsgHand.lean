import BridgeVerif.Lemmas.Msg
/-! Helper lemmas for C19: the hand message. -/
namespace Bridge

/-! ### one level of the hand pattern -/
theorem dotStar_level {α : Type} (lit f rest : List Char) (k : List Char → List Char → Option α)
    (K : List Char → List Char → Option α) (hk : ∀ g t, k g t = (stripPrefixCI lit t).bind (K g))
    (hf : '\n' ∉ f) (hfail : ∀ d, 0 < d → stripPrefixCI lit ((lit ++ rest).drop d) = none)
    (r : α) (hK : K f rest = some r) : dotStar (f ++ (lit ++ rest)) k = some r := by
  apply dotStar_append f (lit ++ rest) k r hf
  · rw [hk, strip_self]; exact hK
  · intro d hd
    rw [hk, hfail d hd]; rfl

theorem hand_lit_fail (X : Char) (rest : List Char) (hX0 : eqCI '.' X = false)
    (hX : ∀ c ∈ rest, eqCI X c = false) (d : Nat) (hd : 0 < d) :
    stripPrefixCI ['.', ' ', X, ' '] ((['.', ' ', X, ' '] ++ rest).drop d) = none := by
  have h1 : eqCI '.' ' ' = false := by decide
  match d, hd with
  | 1, _ => simp [stripPrefixCI, h1]
  | 2, _ => simp [stripPrefixCI, hX0]
  | 3, _ =>
    cases rest with
    | nil => simp [stripPrefixCI, h1]
    | cons a u => simp [stripPrefixCI, h1]
  | j + 4, _ =>
    show stripPrefixCI ['.', ' ', X, ' '] (rest.drop j) = none
    have hsub : ∀ c ∈ rest.drop j, eqCI X c = false := fun c hc => hX c (List.mem_of_mem_drop hc)
    generalize rest.drop j = u at hsub
    match u, hsub with
    | [], _ => rfl
    | [_], _ => simp [stripPrefixCI]
    | [_, _], _ => simp [stripPrefixCI]
    | a :: b :: c :: u, hsub => simp [stripPrefixCI, hsub c (by simp)]

/-! ### the characters of a suit field -/
def fieldChars : List Char := "23456789TJQKA?- ".toList

theorem fieldChars_facts : ∀ c ∈ fieldChars, c ≠ '\n' ∧ eqCI 'H' c = false ∧ eqCI 'D' c = false ∧
    eqCI 'C' c = false := by decide

theorem rankCh_mem (c : Card) : rankCh c ∈ "23456789TJQKA?".toList := by
  unfold rankCh rankChar?
  split <;> decide

/-- `' '.join(rs)` -/
def spaced : List Char → List Char
  | [] => []
  | [c] => [c]
  | c :: c' :: l => c :: ' ' :: spaced (c' :: l)

theorem intercalate_eq_spaced (rs : List Char) :
    List.intercalate [' '] (rs.map fun c => [c]) = spaced rs := by
  induction rs with
  | nil => rfl
  | cons c l ih =>
    cases l with
    | nil => rfl
    | cons c' l =>
      simp only [List.intercalate, List.map_cons, List.intersperse, List.flatten_cons] at ih ⊢
      simp only [spaced, List.cons_append, List.nil_append, List.cons.injEq, true_and]
      exact ih

theorem mem_spaced (rs : List Char) : ∀ x ∈ spaced rs, x = ' ' ∨ x ∈ rs := by
  induction rs with
  | nil => simp [spaced]
  | cons c l ih =>
    cases l with
    | nil => simp [spaced]
    | cons c' l =>
      intro x hx
      simp only [spaced, List.mem_cons] at hx ⊢
      rcases hx with rfl | rfl | hx
      · exact Or.inr (Or.inl rfl)
      · exact Or.inl rfl
      · rcases ih x hx with h | h
        · exact Or.inl h
        · simp only [List.mem_cons] at h
          exact Or.inr (Or.inr h)

theorem suitField_eq (hand : List Card) (su : Suit) :
    suitField hand su =
      if ((suitField.sortDescI hand).filter fun c => decide (c.suit = su)) = [] then ['-']
      else spaced (((suitField.sortDescI hand).filter fun c => decide (c.suit = su)).map rankCh) := by
  unfold suitField
  simp only [intercalate_eq_spaced, List.length_map, List.length_eq_zero_iff]

theorem suitField_chars (hand : List Card) (su : Suit) : ∀ x ∈ suitField hand su, x ∈ fieldChars := by
  intro x hx
  rw [suitField_eq] at hx
  split at hx
  · simp only [List.mem_singleton] at hx; subst hx; decide
  · rcases mem_spaced _ x hx with rfl | h
    · decide
    · simp only [List.mem_map] at h
      obtain ⟨c, _, rfl⟩ := h
      have := rankCh_mem c
      revert this
      generalize rankCh c = y
      intro hy
      have : ∀ z ∈ "23456789TJQKA?".toList, z ∈ fieldChars := by decide
      exact this y hy

/-! ### reading one suit field back -/
theorem splitSp_spaced (c : Char) (l : List Char) (h : ' ' ∉ c :: l) :
    splitSp (spaced (c :: l)) = (c :: l).map fun x => [x] := by
  induction l generalizing c with
  | nil =>
    have hc : c ≠ ' ' := fun hc => h (by simp [hc])
    simp [spaced, splitSp, hc]
  | cons c' l ih =>
    have hc : c ≠ ' ' := fun hc => h (by simp [hc])
    have ih' := ih c' (fun hm => h (List.mem_cons_of_mem _ hm))
    have h1 : splitSp (' ' :: spaced (c' :: l)) = [] :: splitSp (spaced (c' :: l)) := by
      simp [splitSp]
    have h2 : splitSp (c :: ' ' :: spaced (c' :: l)) =
        match splitSp (' ' :: spaced (c' :: l)) with
        | [] => [[c]]
        | a :: r => (c :: a) :: r := by
      simp [splitSp, hc]
    rw [spaced, h2, h1, ih']
    simp

theorem rank_facts : ∀ r, r < 15 → 2 ≤ r →
    rankOfChar? ((rankChar? r).getD '?') = some r ∧ (rankChar? r).getD '?' ≠ ' ' ∧
      (rankChar? r).getD '?' ≠ '-' := by decide

theorem card_facts {c : Card} (h : c.ok = true) :
    rankOfChar? (rankCh c) = some c.rank ∧ rankCh c ≠ ' ' ∧ rankCh c ≠ '-' ∧
      mkCard? c.rank c.suit = some c := by
  simp only [Card.ok, Bool.and_eq_true, decide_eq_true_eq] at h
  obtain ⟨⟨h1, h2⟩, h3⟩ := h
  obtain ⟨f1, f2, f3⟩ := rank_facts c.rank (by omega) h1
  refine ⟨f1, f2, f3, ?_⟩
  simp only [mkCard?, h3, if_false]
  rw [if_neg (by omega)]

theorem mapM_map_some {α β : Type} (f : β → Option α) (g : α → β) (l : List α)
    (h : ∀ x ∈ l, f (g x) = some x) : (l.map g).mapM f = some l := by
  induction l with
  | nil => rfl
  | cons x l ih =>
    rw [List.map_cons, List.mapM_cons, h x (by simp), ih fun y hy => h y (List.mem_cons_of_mem _ hy)]
    rfl

theorem cardsOfGroup_suitField (hand : List Card) (hok : ∀ c ∈ hand, c.ok = true) (su : Suit)
    (hperm : ∀ c ∈ suitField.sortDescI hand, c ∈ hand) :
    cardsOfGroup? (suitField hand su) su =
      some ((suitField.sortDescI hand).filter fun c => decide (c.suit = su)) := by
  rw [suitField_eq]
  generalize hL : ((suitField.sortDescI hand).filter fun c => decide (c.suit = su)) = L
  have hLok : ∀ c ∈ L, c.ok = true ∧ c.suit = su := by
    intro c hc
    rw [← hL, List.mem_filter] at hc
    exact ⟨hok c (hperm c hc.1), by simpa using hc.2⟩
  cases L with
  | nil => rfl
  | cons c l =>
    rw [if_neg (by simp)]
    have hsp : ' ' ∉ (c :: l).map rankCh := by
      intro hm
      obtain ⟨x, hx, hx'⟩ := List.mem_map.1 hm
      exact (card_facts (hLok x hx).1).2.1 hx'
    unfold cardsOfGroup?
    rw [List.map_cons] at hsp ⊢
    rw [splitSp_spaced _ _ hsp, ← List.map_cons, List.map_map]
    have hfil : (((c :: l).map ((fun x => [x]) ∘ rankCh)).filter fun t => decide (t ≠ ['-'])) =
        (c :: l).map ((fun x => [x]) ∘ rankCh) := by
      rw [List.filter_eq_self]
      intro t ht
      obtain ⟨x, hx, rfl⟩ := List.mem_map.1 ht
      have := (card_facts (hLok x hx).1).2.2.1
      simpa using this
    rw [hfil]
    apply mapM_map_some
    intro x hx
    obtain ⟨h1, h2⟩ := hLok x hx
    have hf := card_facts h1
    simp only [Function.comp, rankOfToken?, hf.1, Option.bind_some]
    rw [← h2]; exact hf.2.2.2

/-! ### sorting, partition by suit, duplicates -/
theorem insertD_perm (c : Card) (l : List Card) : (suitField.insertD c l).Perm (c :: l) := by
  induction l with
  | nil => simp [suitField.insertD]
  | cons d r ih =>
    simp only [suitField.insertD]
    split
    · exact List.Perm.refl _
    · exact (List.Perm.cons d ih).trans (List.Perm.swap c d r)

theorem sortDescI_perm (l : List Card) : (suitField.sortDescI l).Perm l := by
  induction l with
  | nil => exact List.Perm.refl _
  | cons c r ih => exact (insertD_perm c _).trans (List.Perm.cons c ih)

theorem msg_count_filter (p : Card → Bool) (a : Card) (l : List Card) :
    (l.filter p).count a = if p a then l.count a else 0 := by
  split
  · rename_i h; exact List.count_filter h
  · rename_i h
    apply List.count_eq_zero.2
    intro hm
    exact h (List.mem_filter.1 hm).2

theorem msg_suit_partition (l : List Card) (h : ∀ c ∈ l, c.ok = true) :
    (l.filter (fun c => decide (c.suit = .S)) ++ l.filter (fun c => decide (c.suit = .H)) ++
      l.filter (fun c => decide (c.suit = .D)) ++ l.filter (fun c => decide (c.suit = .C))).Perm l := by
  rw [List.perm_iff_count]
  intro a
  simp only [List.count_append, msg_count_filter]
  by_cases ha : a ∈ l
  · have := h a ha
    obtain ⟨r, s⟩ := a
    cases s <;> simp_all [Card.ok]
  · have := List.count_eq_zero.2 ha
    simp [this]

theorem dedupC_of_nodup (l : List Card) (hn : l.Nodup) : dedupC l = l := by
  induction l with
  | nil => rfl
  | cons c r ih =>
    have hn' := List.nodup_cons.1 hn
    have : dedupC (c :: r) = if c ∈ dedupC r then dedupC r else c :: dedupC r := rfl
    rw [this, ih hn'.2, if_neg hn'.1]

/-! ### the whole hand -/
def handK4 (g1 g2 g3 g4 t4 : List Char) : Option (List (List Char)) :=
  (stripPrefixCI ['.'] t4).map fun _ => [g1, g2, g3, g4]
def handK3 (g1 g2 g3 t3 : List Char) : Option (List (List Char)) :=
  (stripPrefixCI ". C ".toList t3).bind fun r3 => dotStar r3 (handK4 g1 g2 g3)
def handK2 (g1 g2 t2 : List Char) : Option (List (List Char)) :=
  (stripPrefixCI ". D ".toList t2).bind fun r2 => dotStar r2 (handK3 g1 g2)
def handK1 (g1 t1 : List Char) : Option (List (List Char)) :=
  (stripPrefixCI ". H ".toList t1).bind fun r1 => dotStar r1 (handK2 g1)

theorem parseHand_eq (content : List Char) :
    parseHand? content =
      match stripPrefixCI "S ".toList content with
      | none => none
      | some r0 =>
        match dotStar r0 handK1 with
        | some [g1, g2, g3, g4] =>
          match cardsOfGroup? g1 .S, cardsOfGroup? g2 .H, cardsOfGroup? g3 .D, cardsOfGroup? g4 .C with
          | some a, some b, some c, some d => some (dedupC (a ++ b ++ c ++ d))
          | _, _, _, _ => none
        | _ => none := rfl

theorem hand_groups (f1 f2 f3 f4 : List Char) (h1 : ∀ x ∈ f1, x ∈ fieldChars)
    (h2 : ∀ x ∈ f2, x ∈ fieldChars) (h3 : ∀ x ∈ f3, x ∈ fieldChars) (h4 : ∀ x ∈ f4, x ∈ fieldChars) :
    dotStar (f1 ++ (". H ".toList ++ (f2 ++ (". D ".toList ++ (f3 ++ (". C ".toList ++ (f4 ++ ['.'])))))))
      handK1 = some [f1, f2, f3, f4] := by
  have nl : ∀ f : List Char, (∀ x ∈ f, x ∈ fieldChars) → '\n' ∉ f :=
    fun f hf hm => (fieldChars_facts _ (hf _ hm)).1 rfl
  have e4 : dotStar (f4 ++ (['.'] ++ [])) (handK4 f1 f2 f3) = some [f1, f2, f3, f4] := by
    apply dotStar_level ['.'] f4 [] _ (fun g t => (some [f1, f2, f3, g])) (fun g t => by
      simp only [handK4]; cases stripPrefixCI ['.'] t <;> rfl) (nl f4 h4)
    · intro d hd
      cases d with
      | zero => omega
      | succ d => simp [stripPrefixCI]
    · rfl
  have e3 : dotStar (f3 ++ (". C ".toList ++ (f4 ++ ['.']))) (handK3 f1 f2) = some [f1, f2, f3, f4] := by
    apply dotStar_level ". C ".toList f3 (f4 ++ ['.']) _ (fun g r3 => dotStar r3 (handK4 f1 f2 g))
      (fun g t => rfl) (nl f3 h3)
    · apply hand_lit_fail 'C' _ (by decide)
      intro c hc
      simp only [List.mem_append, List.mem_singleton] at hc
      rcases hc with hc | rfl
      · exact (fieldChars_facts c (h4 c hc)).2.2.2
      · decide
    · exact e4
  have e2 : dotStar (f2 ++ (". D ".toList ++ (f3 ++ (". C ".toList ++ (f4 ++ ['.'])))))
      (handK2 f1) = some [f1, f2, f3, f4] := by
    apply dotStar_level ". D ".toList f2 _ _ (fun g r => dotStar r (handK3 f1 g))
      (fun g t => rfl) (nl f2 h2)
    · apply hand_lit_fail 'D' _ (by decide)
      intro c hc
      simp only [List.mem_append, List.mem_singleton] at hc
      rcases hc with hc | hc | hc | rfl
      · exact (fieldChars_facts c (h3 c hc)).2.2.1
      · revert c; decide
      · exact (fieldChars_facts c (h4 c hc)).2.2.1
      · decide
    · exact e3
  apply dotStar_level ". H ".toList f1 _ _ (fun g r => dotStar r (handK2 g))
    (fun g t => rfl) (nl f1 h1)
  · apply hand_lit_fail 'H' _ (by decide)
    intro c hc
    simp only [List.mem_append, List.mem_singleton] at hc
    rcases hc with hc | hc | hc | hc | hc | rfl
    · exact (fieldChars_facts c (h2 c hc)).2.1
    · revert c; decide
    · exact (fieldChars_facts c (h3 c hc)).2.1
    · revert c; decide
    · exact (fieldChars_facts c (h4 c hc)).2.1
    · decide
  · exact e2

theorem handToStr_no_nl (hand : List Card) : ∀ x ∈ handToStr hand, x ≠ '\n' := by
  intro x hx
  unfold handToStr at hx
  simp only [List.mem_append, List.mem_singleton] at hx
  have hf : ∀ su, x ∈ suitField hand su → x ≠ '\n' :=
    fun su h => (fieldChars_facts x (suitField_chars hand su x h)).1
  rcases hx with (((((((hx | hx) | hx) | hx) | hx) | hx) | hx) | hx) | rfl
  · clear hf; revert x; decide
  · exact hf _ hx
  · clear hf; revert x; decide
  · exact hf _ hx
  · clear hf; revert x; decide
  · exact hf _ hx
  · clear hf; revert x; decide
  · exact hf _ hx
  · decide

theorem parseCards_ok (name : List Char) (hand : List Card) :
    parseCards? (cardsMsg name hand) name = some (handToStr hand) := by
  unfold parseCards? cardsMsg
  rw [strip_self, Option.map_some]
  congr 1
  have := List.takeWhile_append_of_pos (p := fun x => decide (x ≠ '\n')) (l₁ := handToStr hand) (l₂ := [])
    (fun x hx => by simpa using handToStr_no_nl hand x hx)
  simpa using this

theorem parseHand_ok (hand : List Card) (hok : HandOK hand) :
    ∃ l, parseHand? (handToStr hand) = some l ∧ l.Perm hand := by
  obtain ⟨hn, hc⟩ := hok
  have hsort := sortDescI_perm hand
  have hmem : ∀ c ∈ suitField.sortDescI hand, c ∈ hand := fun c h => hsort.mem_iff.1 h
  have hg := hand_groups _ _ _ _ (suitField_chars hand .S) (suitField_chars hand .H)
    (suitField_chars hand .D) (suitField_chars hand .C)
  have hperm := (msg_suit_partition (suitField.sortDescI hand) (fun c h => hc c (hmem c h))).trans hsort
  refine ⟨_, ?_, hperm⟩
  rw [parseHand_eq]
  unfold handToStr
  simp only [List.append_assoc, strip_self, hg, cardsOfGroup_suitField hand hc _ hmem]
  rw [dedupC_of_nodup _ (by simpa only [List.append_assoc] using hperm.nodup_iff.2 hn)]

end Bridge
