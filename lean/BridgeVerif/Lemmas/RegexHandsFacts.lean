import BridgeVerif.Model.Regex
import BridgeVerif.Model.Hands
/-!
# The regular expressions of `hands.py` and their hand scanners: the STATEMENTS  (Appendix F, R1)

`Model/Hands.lean` replaces `DEAL_PATTERN` and `HAND_PATTERN` by `takeHandField?` (inside `convertPbn?`) and by the
backtracking scanner `matchGroups`.  This file states — for EVERY subject string — that the generic regular-expression
engine of `Model/Regex.lean` (the one the translated `Hands.convert_pbn` / `_hand_parser` call) returns, on these pattern
texts, the groups the scanners compute.  `Lemmas/RegexHands.lean` proves `handsRegexFacts : HandsRegexFacts`.
The pattern texts are literally the module constants of `Generated/PyCoreHands.lean` (`globalsHands`).
-/
namespace Bridge.RegexHands
open Bridge

/-- `hands.HAND_PATTERN` -/
def HAND_PATTERN : List Char := "([2-9TJQKA]*).([2-9TJQKA]*).([2-9TJQKA]*).([2-9TJQKA]*)".toList
/-- `hands.DEAL_PATTERN` (the f-string with `HAND` substituted) -/
def DEAL_PATTERN : List Char :=
  "([NESW]):([2-9TJQKA\\.]{16}|-) ([2-9TJQKA\\.]{16}|-) ([2-9TJQKA\\.]{16}|-) ([2-9TJQKA\\.]{16}|-)".toList

/-- the texts of groups 1..n of a match -/
def groupTexts (s : List Char) (m : Re.MatchObj) : List (Option (List Char)) :=
  m.groups.map fun g => g.map fun be => Re.slice s be.1 be.2

/-- what `re.match(DEAL_PATTERN, s)` captures, written with the model's `takeHandField?`: the first seat's letter and the
four hand fields (this is the skeleton of `convertPbn?`) -/
def dealFields? (s : List Char) : Option (List (List Char)) :=
  match s with
  | f :: ':' :: r0 =>
    if f = 'N' ∨ f = 'E' ∨ f = 'S' ∨ f = 'W' then
      match takeHandField? r0 with
      | some (h0, ' ' :: r1) =>
        match takeHandField? r1 with
        | some (h1, ' ' :: r2) =>
          match takeHandField? r2 with
          | some (h2, ' ' :: r3) =>
            match takeHandField? r3 with
            | some (h3, _) => some [[f], h0, h1, h2, h3]
            | none => none
          | _ => none
        | _ => none
      | _ => none
    else none
  | _ => none

structure HandsRegexFacts : Prop where
  /-- `re.match(DEAL_PATTERN, s)` : matches iff `dealFields? s` is defined, and groups 1..5 are those fields -/
  match_deal : ∀ s : List Char,
    (Re.pyMatch false DEAL_PATTERN s).map (Option.map (groupTexts s)) = some ((dealFields? s).map (·.map some))
  /-- `re.match(HAND_PATTERN, f)` : groups 1..4 are `matchGroups 3 f` — for a subject WITHOUT a line feed: the scanner's
  separator is "any character", the regular expression's `.` is "any character but `'\n'`" (the two differ e.g. on
  `"A\nK.Q.J"`; no hand field that passed `DEAL_PATTERN` contains one) -/
  match_hand : ∀ f : List Char, '\n' ∉ f →
    (Re.pyMatch false HAND_PATTERN f).map (Option.map (groupTexts f)) = some ((matchGroups 3 f).map (·.map some))

end Bridge.RegexHands
