import BridgeVerif.Spec.SessionSpec
import BridgeVerif.Props.C09
import BridgeVerif.Props.C03
import BridgeVerif.Props.C04
import BridgeVerif.Props.C05
import BridgeVerif.Props.C07
/-! Helper lemmas for C08 / C10: the session programs against the declarative session specification. -/
namespace Bridge

end Bridge
