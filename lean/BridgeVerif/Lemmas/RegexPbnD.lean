import BridgeVerif.Lemmas.RegexPbnC
/-!
# `"[^"]*"|[ \t\r\n]+` under `finditer`, spliced by `subJoin`, is `collapseWs`  (R11, part D)
-/
namespace Bridge.RegexPbn
open Bridge Bridge.Re

def Avos (pos : Nat) (rest : Str) : Option MatchObj :=
  match rest with
  | [] => none
  | c :: r =>
    if c = '"' then
      (match r.drop (r.takeWhile (· ≠ '"')).length with
        | '"' :: _ => some ⟨(pos, pos + (r.takeWhile (· ≠ '"')).length + 2), []⟩
        | _ => none)
    else if isPbnWs c then some ⟨(pos, pos + 1 + (r.takeWhile isPbnWs).length), []⟩
    else none

theorem den_vos_nil (k : St → Re.Res St) (pos : Nat) : den false vosRe k ⟨pos, [], []⟩ = .fail := by
  simp [vosRe, notqC, wsC, den_alt, den_seq, den_lit_nil, den_rep_cls, repDen_plus]

theorem anchored_vos (fuel : Nat) : Anchored vosRe fuel Avos where
  core := by
    intro pos rest mustAdv hf
    rw [matchCore_eq_den false vosRe rfl fuel pos rest false mustAdv hf]
    show (match den false vosRe (kfin pos false mustAdv) ⟨pos, rest, []⟩ with
      | .ok st => .ok { span := (pos, st.pos), groups := st.caps }
      | .fail => .fail
      | .oof => .oof : Re.Res MatchObj) = _
    cases rest with
    | nil => rw [den_vos_nil]; rfl
    | cons c r =>
      rw [den_vos]
      unfold Avos
      by_cases hc : c = '"'
      · subst hc
        simp only [if_true]
        generalize (r.takeWhile (fun x => decide (x ≠ '"'))).length = n
        cases hd : r.drop n with
        | nil => rfl
        | cons y ys =>
          by_cases hy : y = '"'
          · subst hy
            have hne : ¬ (pos + n + 2 = pos) := by omega
            simp [kfin, hne]
          · simp [hy]
      · simp only [hc, if_false]
        by_cases hw : isPbnWs c = true
        · simp only [hw, if_true]
          have hne : ¬ (pos + 1 + (r.takeWhile isPbnWs).length = pos) := by omega
          have hk : kfin pos false mustAdv ⟨pos + 1 + (r.takeWhile isPbnWs).length,
              r.drop (r.takeWhile isPbnWs).length, []⟩ = .ok ⟨pos + 1 + (r.takeWhile isPbnWs).length,
              r.drop (r.takeWhile isPbnWs).length, []⟩ := by simp [kfin, hne]
          rw [star_greedy isPbnWs _ [] r (pos + 1) (by rw [hk]; simp), hk]
        · simp [hw]
  span := by
    intro pos rest m h
    unfold Avos at h
    cases rest with
    | nil => simp at h
    | cons c r =>
      simp only at h
      by_cases hc : c = '"'
      · subst hc
        simp only [if_true] at h
        cases hd : r.drop (r.takeWhile (fun x => decide (x ≠ '"'))).length with
        | nil => rw [hd] at h; simp at h
        | cons y ys =>
          rw [hd] at h
          have hl := congrArg List.length hd
          simp only [List.length_drop, List.length_cons] at hl
          by_cases hy : y = '"'
          · subst hy
            simp only [Option.some.injEq] at h
            subst h
            refine ⟨rfl, ?_, ?_⟩ <;> simp only [List.length_cons] <;> omega
          · simp [hy] at h
      · simp only [hc, if_false] at h
        by_cases hw : isPbnWs c = true
        · simp only [hw, if_true, Option.some.injEq] at h
          subst h
          have := takeWhile_len_le isPbnWs r
          refine ⟨rfl, ?_, ?_⟩ <;> simp only [List.length_cons] <;> omega
        · simp [hw] at h


theorem take_len_succ (a : Str) (x : Char) (b : Str) : (a ++ x :: b).take (a.length + 1) = a ++ [x] := by
  induction a with
  | nil => simp
  | cons y ys ih => simpa using ih
theorem drop_len_succ (a : Str) (x : Char) (b : Str) : (a ++ x :: b).drop (a.length + 1) = b := by
  induction a with
  | nil => simp
  | cons y ys ih => simpa using ih

/-- the replacement text of one match -/
def pieceOf (rest : Str) (a b : Nat) : Str :=
  if ((rest.drop a).take b).head? = some '"' then (rest.drop a).take b else [' ']

theorem collapse_nomatch (f pos : Nat) (c : Char) (r : Str) (h : Avos pos (c :: r) = none) :
    collapseWs (f + 1) (c :: r) = c :: collapseWs f r := by
  unfold Avos at h
  simp only at h
  by_cases hc : c = '"'
  · subst hc
    simp only [if_true] at h
    simp only [collapseWs, if_true]
    cases hd : r.drop (r.takeWhile (fun x => decide (x ≠ '"'))).length with
    | nil => rfl
    | cons y ys =>
      rw [hd] at h
      by_cases hy : y = '"'
      · subst hy; simp at h
      · simp [hy]
  · simp only [hc, if_false] at h
    by_cases hw : isPbnWs c = true
    · simp [hw] at h
    · simp [collapseWs, hc, hw]

theorem nextVos_collapse : ∀ (rest : Str) (pos f2 : Nat), rest.length + 1 ≤ f2 →
    (nextM Avos rest pos = none → collapseWs f2 rest = rest) ∧
    (∀ m, nextM Avos rest pos = some m → ∃ f2', (rest.drop (m.span.2 - pos)).length + 1 ≤ f2' ∧
      collapseWs f2 rest = rest.take (m.span.1 - pos) ++ pieceOf rest (m.span.1 - pos) (m.span.2 - m.span.1)
        ++ collapseWs f2' (rest.drop (m.span.2 - pos))) := by
  intro rest
  induction rest with
  | nil =>
    intro pos f2 h
    obtain ⟨f, rfl⟩ : ∃ f, f2 = f + 1 := ⟨f2 - 1, by omega⟩
    simp [collapseWs, nextM, Avos]
  | cons c r ih =>
    intro pos f2 h
    obtain ⟨f, rfl⟩ : ∃ f, f2 = f + 1 := ⟨f2 - 1, by omega⟩
    simp only [List.length_cons] at h
    simp only [nextM]
    cases hA : Avos pos (c :: r) with
    | none =>
      simp only
      rw [collapse_nomatch f pos c r hA]
      obtain ⟨ih1, ih2⟩ := ih (pos + 1) f (by omega)
      refine ⟨fun hn => by rw [ih1 hn], ?_⟩
      intro m hm
      obtain ⟨f2', h1, h2⟩ := ih2 m hm
      have hs := nextM_span (anchored_vos 0) r (pos + 1) m hm
      have e1 : m.span.1 - pos = (m.span.1 - (pos + 1)) + 1 := by omega
      have e2 : m.span.2 - pos = (m.span.2 - (pos + 1)) + 1 := by omega
      refine ⟨f2', ?_, ?_⟩
      · rw [e2, List.drop_succ_cons]; exact h1
      · rw [e1, e2, List.drop_succ_cons, List.take_succ_cons, h2]
        simp only [pieceOf, List.drop_succ_cons, List.cons_append]
    | some m0 =>
      simp only [reduceCtorEq, false_imp_iff, Option.some.injEq, true_and]
      intro m hm
      subst hm
      unfold Avos at hA
      simp only at hA
      by_cases hc : c = '"'
      · subst hc
        simp only [if_true] at hA
        have hr := takeWhile_append_drop (fun x => decide (x ≠ '"')) r
        simp only [collapseWs, if_true]
        generalize hval : r.takeWhile (fun x => decide (x ≠ '"')) = val at hA hr
        cases hd : r.drop val.length with
        | nil => rw [hd] at hA; simp at hA
        | cons y ys =>
          rw [hd] at hA hr
          by_cases hy : y = '"'
          · subst hy
            simp only [Option.some.injEq] at hA
            subst hA
            have e1 : pos + val.length + 2 - pos = val.length + 1 + 1 := by omega
            simp only [Nat.sub_self, e1, List.take_zero, List.nil_append, List.drop_succ_cons, pieceOf, List.drop_zero,
              List.take_succ_cons, List.head?_cons, if_true]
            rw [← hr, take_len_succ, drop_len_succ]
            refine ⟨f, ?_, by simp⟩
            have := congrArg List.length hr
            simp at this
            omega
          · simp [hy] at hA
      · simp only [hc, if_false] at hA
        by_cases hw : isPbnWs c = true
        · simp only [hw, if_true, Option.some.injEq] at hA
          subst hA
          have e1 : pos + 1 + (r.takeWhile isPbnWs).length - pos = (r.takeWhile isPbnWs).length + 1 := by omega
          have hc' : ¬ (c = '"') := hc
          simp only [Nat.sub_self, e1, List.take_zero, List.nil_append, List.drop_succ_cons, pieceOf, List.drop_zero,
            List.take_succ_cons, List.head?_cons, collapseWs, hc, hw, if_true, if_false, Option.some.injEq,
            drop_takeWhile_len]
          refine ⟨f, ?_, by simp⟩
          have := takeWhile_len_le isPbnWs r
          rw [← drop_takeWhile_len]
          simp only [List.length_drop]
          omega
        · simp [hw] at hA


theorem allM_vos_join (s : Str) : ∀ (cnt : Nat) (rest : Str) (pos f2 : Nat), rest.length + 1 ≤ cnt →
    rest.length + 1 ≤ f2 → s.drop pos = rest →
    subJoin s pos (allM Avos cnt pos rest) = collapseWs f2 rest := by
  intro cnt
  induction cnt with
  | zero => intro rest pos f2 h; omega
  | succ k ih =>
    intro rest pos f2 hc hf hs
    obtain ⟨h1, h2⟩ := nextVos_collapse rest pos f2 hf
    simp only [allM]
    cases hm : nextM Avos rest pos with
    | none => simp only [subJoin]; rw [h1 hm, hs]
    | some m =>
      obtain ⟨f2', hf2', hcw⟩ := h2 m hm
      have hsp := nextM_span (anchored_vos 0) rest pos m hm
      have hd1 : s.drop m.span.1 = rest.drop (m.span.1 - pos) := drop_of_drop s rest pos _ hs hsp.1
      have hd2 : s.drop m.span.2 = rest.drop (m.span.2 - pos) := drop_of_drop s rest pos _ hs (by omega)
      simp only [subJoin, slice]
      rw [ih (rest.drop (m.span.2 - pos)) m.span.2 f2' (by simp only [List.length_drop]; omega) hf2' hd2, hcw, hs]
      simp only [hd1, pieceOf]

theorem sub_value_or_space_proof (s : Str) :
    (Re.pyFinditer false VALUE_OR_SPACE_PATTERN s).map (subJoin s 0) = some (collapseWs (s.length + 1) s) := by
  unfold pyFinditer
  rw [parse_vos]
  simp only
  rw [allMatches_eq (anchored_vos _) _ s 0 false (by omega) (fuel_ok _ _ _ (Nat.le_refl _))]
  simp only [Option.map_some]
  rw [allM_vos_join s _ s 0 (s.length + 1) (by omega) (Nat.le_refl _) rfl]

/-- every match of a pattern with an `Anchored` description is non-empty and inside the subject -/
theorem allM_spans {re : Re} {fuel : Nat} {A : Nat → Str → Option MatchObj} (hA : Anchored re fuel A) :
    ∀ (cnt : Nat) (rest : Str) (pos : Nat) (m : MatchObj), m ∈ allM A cnt pos rest →
      pos ≤ m.span.1 ∧ m.span.1 < m.span.2 ∧ m.span.2 ≤ pos + rest.length := by
  intro cnt
  induction cnt with
  | zero => intro rest pos m h; simp [allM] at h
  | succ k ih =>
    intro rest pos m h
    simp only [allM] at h
    cases hm : nextM A rest pos with
    | none => rw [hm] at h; simp at h
    | some m0 =>
      rw [hm] at h
      have hs := nextM_span hA rest pos m0 hm
      simp only [List.mem_cons] at h
      cases h with
      | inl h => subst h; exact hs
      | inr h =>
        have := ih _ _ m h
        simp only [List.length_drop] at this
        omega

/-- the matches of `_VALUE_OR_SPACE_PATTERN` are never empty (so `m.group(0)[0]` is defined) -/
theorem sub_matches_nonempty (s : Str) (ms : List MatchObj)
    (h : Re.pyFinditer false VALUE_OR_SPACE_PATTERN s = some ms) :
    ∀ m ∈ ms, Re.slice s m.span.1 m.span.2 ≠ [] := by
  unfold pyFinditer at h
  rw [parse_vos] at h
  simp only at h
  rw [allMatches_eq (anchored_vos _) _ s 0 false (by omega) (fuel_ok _ _ _ (Nat.le_refl _))] at h
  simp only [Option.some.injEq] at h
  subst h
  intro m hm
  have hs := allM_spans (anchored_vos 0) _ s 0 m hm
  intro he
  have := congrArg List.length he
  simp only [slice, List.length_take, List.length_drop, List.length_nil] at this
  omega

end Bridge.RegexPbn
