import BridgeVerif.Spec.PbnLayout
import BridgeVerif.Props.C14
import BridgeVerif.Props.C15
/-!
# The PBN reader on admissible layouts (C17)

`pyLines_text`, `pyLines_universal` : the file object yields the rendered lines.
`parseStream_layout` : one game per rendered game, each the dictionary of its tag pairs, first occurrence winning.
`pbnBoardSettings_layout` : every rendering of a list of boards is read back as those boards.
-/
namespace Bridge

/-! ## characters -/
theorem isLetter_ne {c k : Char} (h : isLetter c = true) (hk : isLetter k = false) : c ≠ k := by
  rintro rfl
  simp [h] at hk

theorem isUpper_isLetter {c : Char} (h : isUpper c = true) : isLetter c = true := by
  simp only [isUpper] at h
  simp [isLetter, h]

theorem isPbnWs_ne {c k : Char} (h : isPbnWs c = true) (hk : isPbnWs k = false) : c ≠ k := by
  rintro rfl
  simp [h] at hk

theorem notWs_ne {c k : Char} (h : isPbnWs c = false) (hk : isPbnWs k = true) : c ≠ k := by
  rintro rfl
  simp [h] at hk

theorem isLetter_notWs {c : Char} (h : isLetter c = true) : isPbnWs c = false := by
  simp only [isPbnWs, Bool.or_eq_false_iff, beq_eq_false_iff_ne]
  exact ⟨⟨⟨isLetter_ne h (by decide), isLetter_ne h (by decide)⟩, isLetter_ne h (by decide)⟩,
    isLetter_ne h (by decide)⟩

theorem isBlank_mem {s : Str} (h : isBlank s = true) {c : Char} (hc : c ∈ s) : c = ' ' ∨ c = '\t' := by
  simp only [isBlank, List.all_eq_true, Bool.or_eq_true, beq_iff_eq] at h
  exact h c hc

theorem isBlank_ws {s : Str} (h : isBlank s = true) {c : Char} (hc : c ∈ s) : isPbnWs c = true := by
  rcases isBlank_mem h hc with rfl | rfl <;> decide

/-- the two line ends -/
def IsEol (e : Str) : Prop := e = ['\n'] ∨ e = ['\r', '\n']

theorem IsEol.ws {e : Str} (h : IsEol e) {c : Char} (hc : c ∈ e) : isPbnWs c = true := by
  rcases h with rfl | rfl
  · simp at hc; subst hc; decide
  · simp at hc; rcases hc with rfl | rfl <;> decide

theorem IsEol.ne_nil {e : Str} (h : IsEol e) : e ≠ [] := by
  rcases h with rfl | rfl <;> simp

/-! ## `find2` -/
/-- no adjacent pair `a b` -/
def noPair (a b : Char) : Str → Bool
  | x :: y :: r => !(x == a && y == b) && noPair a b (y :: r)
  | _ => true

theorem find2_none_iff (a b : Char) (l : Str) (i : Nat) : find2 a b l i = none ↔ noPair a b l = true := by
  induction l generalizing i with
  | nil => simp [find2, noPair]
  | cons x r ih =>
    cases r with
    | nil => simp [find2, noPair]
    | cons y r =>
      simp only [find2, noPair]
      by_cases h : x = a ∧ y = b
      · simp [h]
      · rw [if_neg h, ih]
        have : (x == a && y == b) = false := by
          simpa [Bool.and_eq_false_iff] using h
        simp [this]

theorem noPair_cons_ne {a b c : Char} (h : c ≠ a) (l : Str) : noPair a b (c :: l) = noPair a b l := by
  cases l with
  | nil => simp [noPair]
  | cons y r =>
    have : (c == a) = false := by simpa using h
    rw [noPair]; simp [this]

theorem noPair_append_free {a b : Char} {x : Str} (hx : ∀ c ∈ x, c ≠ a) (y : Str) :
    noPair a b (x ++ y) = noPair a b y := by
  induction x with
  | nil => rfl
  | cons c x ih =>
    rw [List.cons_append, noPair_cons_ne (hx c (by simp)), ih fun d hd => hx d (by simp [hd])]

theorem noPair_append_cons {a b c : Char} {v : Str} (hv : noPair a b v = true) (hc : c ≠ b) (y : Str) :
    noPair a b (v ++ c :: y) = noPair a b (c :: y) := by
  induction v with
  | nil => rfl
  | cons x v ih =>
    cases v with
    | nil =>
      have : (c == b) = false := by simpa using hc
      simp [noPair, this]
    | cons z v =>
      simp only [noPair, Bool.and_eq_true] at hv
      have := ih hv.2
      simp only [List.cons_append] at this ⊢
      rw [noPair, this, hv.1, Bool.true_and]

/-- `v` without the pair, followed by a character that is not `b` and then only characters that are not `a` -/
theorem noPair_body {a b c : Char} {pre v post : Str} (hpre : ∀ d ∈ pre, d ≠ a) (hv : noPair a b v = true)
    (hc : c ≠ b) (hca : c ≠ a) (hpost : ∀ d ∈ post, d ≠ a) : noPair a b (pre ++ (v ++ c :: post)) = true := by
  rw [noPair_append_free hpre, noPair_append_cons hv hc, noPair_cons_ne hca]
  have := noPair_append_free (b := b) hpost []
  simpa [noPair] using this

/-! ## the shape of an admissible line -/
theorem validTagName_cases {n : Str} (h : validTagName n = true) :
    ∃ c m, n = c :: m ∧ isUpper c = true ∧ m ≠ [] ∧ ∀ x ∈ m, isLetter x = true := by
  cases n with
  | nil => simp [validTagName] at h
  | cons c m =>
    simp only [validTagName, Bool.and_eq_true, Bool.not_eq_true', List.all_eq_true] at h
    refine ⟨c, m, rfl, h.1.1, ?_, h.2⟩
    intro hm
    simp [hm] at h

theorem validTagName_letters {n : Str} (h : validTagName n = true) : ∀ x ∈ n, isLetter x = true := by
  obtain ⟨c, m, rfl, hc, _, hm⟩ := validTagName_cases h
  intro x hx
  rcases List.mem_cons.1 hx with rfl | hx
  · exact isUpper_isLetter hc
  · exact hm x hx

theorem plainText_iff {s : Str} : plainText s = true ↔
    noPair ';' ' ' s = true ∧ noPair '{' ' ' s = true ∧ ∀ c ∈ s, c ≠ '"' ∧ c ≠ '\n' ∧ c ≠ '\r' := by
  simp only [plainText, Bool.and_eq_true, Option.isNone_iff_eq_none, find2_none_iff, List.all_eq_true,
    bne_iff_ne, ne_eq, and_assoc]

/-- the text of a tag line, with what follows it -/
def chunk (n v : Str) (so sc : Bool) (rest : Str) : Str :=
  '[' :: (if so then [' '] else []) ++ n ++ ' ' :: '"' :: v ++ '"' :: (if sc then [' '] else []) ++ ']' :: rest

theorem tag_text_append (n v : Str) (so sc : Bool) (tr rest : Str) :
    (PbnItem.tag n v so sc tr).text ++ rest = chunk n v so sc (tr ++ rest) := by
  simp [PbnItem.text, chunk]

theorem chunk_eq (n v : Str) (so sc : Bool) (rest : Str) :
    chunk n v so sc rest =
      '[' :: ((if so then [' '] else []) ++ (n ++ ' ' :: '"' :: (v ++ '"' :: ((if sc then [' '] else []) ++ ']' :: rest)))) := by
  simp [chunk]

theorem noPair_chunk {a : Char} (hal : isLetter a = false) (haw : isPbnWs a = false) (ha1 : a ≠ '[') (ha2 : a ≠ '"')
    (ha3 : a ≠ ']') {n v : Str} {so sc : Bool} {rest : Str} (hn : validTagName n = true)
    (hv : noPair a ' ' v = true) (hrest : ∀ c ∈ rest, isPbnWs c = true) :
    noPair a ' ' (chunk n v so sc rest) = true := by
  have hsp : ' ' ≠ a := isPbnWs_ne (by decide) haw
  have key := noPair_body (a := a) (b := ' ') (c := '"')
    (pre := '[' :: (if so then [' '] else []) ++ n ++ [' ', '"']) (v := v)
    (post := (if sc then [' '] else []) ++ ']' :: rest) ?_ hv (by decide) (Ne.symm ha2) ?_
  · simpa [chunk] using key
  · intro d hd
    simp only [List.cons_append, List.mem_cons, List.mem_append, List.not_mem_nil, or_false] at hd
    rcases hd with rfl | (hd | hd) | rfl | rfl
    · exact Ne.symm ha1
    · cases so <;> simp at hd
      subst hd; exact hsp
    · exact isLetter_ne (validTagName_letters hn d hd) hal
    · exact hsp
    · exact Ne.symm ha2
  · intro d hd
    simp only [List.mem_cons, List.mem_append] at hd
    rcases hd with hd | rfl | hd
    · cases sc <;> simp at hd
      subst hd; exact hsp
    · exact Ne.symm ha3
    · exact isPbnWs_ne (hrest d hd) haw

theorem noPair_row {a : Char} (haw : isPbnWs a = false) {t e : Str} (ht : noPair a ' ' t = true) (he : IsEol e) :
    noPair a ' ' (t ++ e) = true := by
  rcases he with rfl | rfl
  · simpa using noPair_body (a := a) (b := ' ') (c := '\n') (pre := []) (v := t) (post := []) (by simp) ht
      (by decide) (isPbnWs_ne (by decide) haw) (by simp)
  · simpa using noPair_body (a := a) (b := ' ') (c := '\r') (pre := []) (v := t) (post := ['\n']) (by simp) ht
      (by decide) (isPbnWs_ne (by decide) haw) (by simpa using isPbnWs_ne (by decide) haw)

theorem ws_append {x y : Str} (hx : ∀ c ∈ x, isPbnWs c = true) (hy : ∀ c ∈ y, isPbnWs c = true) :
    ∀ c ∈ x ++ y, isPbnWs c = true := by
  intro c hc
  rcases List.mem_append.1 hc with h | h
  · exact hx c h
  · exact hy c h

/-- what the reader needs to know about a line of a game -/
structure ItemLine (l : Str) : Prop where
  notSemi : semiEmpty l = false
  notPct : l.head? ≠ some '%'
  noSemi : find2 ';' ' ' l 0 = none
  noBrace : find2 '{' ' ' l 0 = none
  ne : l ≠ []

theorem semiEmpty_false_of_mem {l : Str} {c : Char} (hc : c ∈ l) (hw : isPbnWs c = false) : semiEmpty l = false := by
  simp only [semiEmpty, Bool.and_eq_false_iff]
  right
  apply Bool.eq_false_iff.2
  intro h
  rw [List.all_eq_true] at h
  simp [h c hc] at hw

theorem itemLine {i : PbnItem} {e : Str} (hi : i.ok = true) (he : IsEol e) : ItemLine (i.text ++ e) := by
  cases i with
  | tag n v so sc tr =>
    simp only [PbnItem.ok, Bool.and_eq_true] at hi
    obtain ⟨⟨hn, hv⟩, htr⟩ := hi
    obtain ⟨hv1, hv2, _⟩ := plainText_iff.1 hv
    have hrest : ∀ c ∈ tr ++ e, isPbnWs c = true := ws_append (fun c hc => isBlank_ws htr hc) fun c hc => he.ws hc
    rw [tag_text_append]
    refine ⟨semiEmpty_false_of_mem (c := '[') (by simp [chunk]) (by decide), by simp [chunk], ?_, ?_, by simp [chunk]⟩
    · exact (find2_none_iff _ _ _ _).2
        (noPair_chunk (by decide) (by decide) (by decide) (by decide) (by decide) hn hv1 hrest)
    · exact (find2_none_iff _ _ _ _).2
        (noPair_chunk (by decide) (by decide) (by decide) (by decide) (by decide) hn hv2 hrest)
  | row t =>
    simp only [PbnItem.ok, Bool.and_eq_true, Bool.not_eq_true', bne_iff_ne, ne_eq] at hi
    obtain ⟨⟨⟨ht, hb⟩, _⟩, hp⟩ := hi
    obtain ⟨ht1, ht2, ht3⟩ := plainText_iff.1 ht
    simp only [PbnItem.text]
    have hb' : ∃ c ∈ t, ¬ (c = ' ' ∨ c = '\t') := by
      apply Decidable.byContradiction
      intro hno
      have : isBlank t = true := by
        simp only [isBlank, List.all_eq_true, Bool.or_eq_true, beq_iff_eq]
        intro c hc
        apply Decidable.byContradiction
        intro h
        exact hno ⟨c, hc, h⟩
      simp [this] at hb
    obtain ⟨c, hc, hcb⟩ := hb'
    have hcw : isPbnWs c = false := by
      have := ht3 c hc
      simp only [isPbnWs, Bool.or_eq_false_iff, beq_eq_false_iff_ne]
      exact ⟨⟨⟨fun h => hcb (Or.inl h), fun h => hcb (Or.inr h)⟩, this.2.2⟩, this.2.1⟩
    have hne : t ≠ [] := List.ne_nil_of_mem hc
    refine ⟨semiEmpty_false_of_mem (c := c) (by simp [hc]) hcw, ?_, ?_, ?_, by simp [hne]⟩
    · cases t with
      | nil => exact absurd rfl hne
      | cons x t => simpa using hp
    · exact (find2_none_iff _ _ _ _).2 (noPair_row (by decide) ht1 he)
    · exact (find2_none_iff _ _ _ _).2 (noPair_row (by decide) ht2 he)

/-! ## `streamStep` line by line -/
theorem streamStep_item {l : Str} (hl : ItemLine l) (buf : List Str) (gs : List Game) :
    streamStep (⟨false, buf⟩, gs) l = (⟨false, l :: buf⟩, gs) := by
  have hne : l.isEmpty = false := by simpa using hl.ne
  simp [streamStep, hl.notSemi, hl.notPct, extractContent, hl.noSemi, hl.noBrace, hne, PbnSt.push]

theorem streamStep_header {l : Str} (h1 : l.head? = some '%') (buf : List Str) (gs : List Game) :
    streamStep (⟨false, buf⟩, gs) l = (⟨false, buf⟩, gs) := by
  have : semiEmpty l = false := by
    cases l with
    | nil => simp at h1
    | cons c r =>
      simp only [List.head?_cons, Option.some.injEq] at h1
      subst h1
      exact semiEmpty_false_of_mem (c := '%') (by simp) (by decide)
  simp [streamStep, this, h1]

theorem semiEmpty_blank {s e : Str} (hs : isBlank s = true) (he : IsEol e) : semiEmpty (s ++ e) = true := by
  simp only [semiEmpty, Bool.and_eq_true, Bool.not_eq_true', List.all_eq_true]
  refine ⟨by simp [he.ne_nil], ws_append (fun c hc => isBlank_ws hs hc) fun c hc => he.ws hc⟩

theorem streamStep_blank_empty {l : Str} (hl : semiEmpty l = true) (gs : List Game) :
    streamStep (⟨false, []⟩, gs) l = (⟨false, []⟩, gs) := by
  simp [streamStep, hl]

theorem streamStep_blank_cons {l : Str} (hl : semiEmpty l = true) (x : Str) (buf : List Str) (gs : List Game) :
    streamStep (⟨false, x :: buf⟩, gs) l = (⟨false, []⟩, parseBoard (x :: buf).reverse :: gs) := by
  simp [streamStep, hl]

theorem foldl_items {e : Str} (he : IsEol e) (its : List PbnItem) (hok : ∀ i ∈ its, i.ok = true)
    (buf : List Str) (gs : List Game) :
    (its.map fun i => i.text ++ e).foldl streamStep (⟨false, buf⟩, gs) =
      (⟨false, (its.map fun i => i.text ++ e).reverse ++ buf⟩, gs) := by
  induction its generalizing buf with
  | nil => rfl
  | cons i its ih =>
    rw [List.map_cons, List.foldl_cons, streamStep_item (itemLine (hok i (by simp)) he),
      ih (fun j hj => hok j (by simp [hj]))]
    simp

theorem foldl_blank_empty {e : Str} (he : IsEol e) (ss : List Str) (hss : ∀ s ∈ ss, isBlank s = true)
    (gs : List Game) :
    (ss.map (· ++ e)).foldl streamStep (⟨false, []⟩, gs) = (⟨false, []⟩, gs) := by
  induction ss with
  | nil => rfl
  | cons s ss ih =>
    rw [List.map_cons, List.foldl_cons, streamStep_blank_empty (semiEmpty_blank (hss s (by simp)) he),
      ih fun t ht => hss t (by simp [ht])]

theorem foldl_headers {e : Str} (hs : List Str) (hh : ∀ h ∈ hs, h.head? = some '%') (buf : List Str)
    (gs : List Game) :
    (hs.map (· ++ e)).foldl streamStep (⟨false, buf⟩, gs) = (⟨false, buf⟩, gs) := by
  induction hs with
  | nil => rfl
  | cons h hs ih =>
    have h1 : (h ++ e).head? = some '%' := by
      have := hh h (by simp)
      cases h with
      | nil => simp at this
      | cons c r => simpa using this
    rw [List.map_cons, List.foldl_cons, streamStep_header h1, ih fun t ht => hh t (by simp [ht])]

theorem streamStep_blank_ne {l : Str} (hl : semiEmpty l = true) {buf : List Str} (hb : buf ≠ []) (gs : List Game) :
    streamStep (⟨false, buf⟩, gs) l = (⟨false, []⟩, parseBoard buf.reverse :: gs) := by
  cases buf with
  | nil => exact absurd rfl hb
  | cons x buf => exact streamStep_blank_cons hl x buf gs

/-! ## game by game -/
def itemLines (e : Str) (g : GameL) : List Str := g.items.map fun i => i.text ++ e

/-- the end of `parseStream` -/
def finish (acc : PbnSt × List Game) : List Game :=
  (if acc.1.buffer.isEmpty then acc.2 else parseBoard acc.1.buffer.reverse :: acc.2).reverse

theorem parseStream_eq_finish (lines : List Str) :
    parseStream lines = finish (lines.foldl streamStep (⟨false, []⟩, [])) := by
  cases h : lines.foldl streamStep (⟨false, []⟩, []) with
  | mk st games =>
    have h' : List.foldl streamStep ({ }, []) lines = (st, games) := h
    simp [parseStream, finish, h']

theorem foldl_game {e : Str} (he : IsEol e) (g : GameL) {last : Bool} (hg : g.Admissible last) (gs : List Game) :
    (g.lines e).foldl streamStep (⟨false, []⟩, gs) =
      if g.seps = [] then (⟨false, (itemLines e g).reverse⟩, gs)
      else (⟨false, []⟩, parseBoard (itemLines e g) :: gs) := by
  rw [GameL.lines, List.foldl_append, foldl_items he _ hg.items_ok, List.append_nil]
  cases hs : g.seps with
  | nil => simp [itemLines]
  | cons s ss =>
    have hne : (g.items.map fun i => i.text ++ e).reverse ≠ [] := by
      obtain ⟨n, v, so, sc, tr, rest, hi⟩ := hg.starts_with_tag
      simp [hi]
    have hb : ∀ t ∈ s :: ss, isBlank t = true := by
      intro t ht
      exact hg.seps_blank t (by rw [hs]; exact ht)
    rw [List.map_cons, List.foldl_cons, streamStep_blank_ne (semiEmpty_blank (hb s (by simp)) he) hne,
      foldl_blank_empty he ss fun t ht => hb t (by simp [ht])]
    simp [itemLines]

theorem finish_games {e : Str} (he : IsEol e) : ∀ (gl : List GameL), gamesAdmissible gl → ∀ gs : List Game,
    finish ((gl.flatMap (GameL.lines e)).foldl streamStep (⟨false, []⟩, gs)) =
      gs.reverse ++ gl.map fun g => parseBoard (itemLines e g)
  | [], _, gs => by simp [finish]
  | [g], hg, gs => by
    have hg' : g.Admissible true := hg
    rw [List.flatMap_cons, List.flatMap_nil, List.append_nil, foldl_game he g hg']
    have hne : itemLines e g ≠ [] := by
      obtain ⟨n, v, so, sc, tr, rest, hi⟩ := hg'.starts_with_tag
      simp [itemLines, hi]
    by_cases hs : g.seps = []
    · simp [hs, finish, hne]
    · simp [hs, finish]
  | g :: g' :: r, hg, gs => by
    have hg' : g.Admissible false ∧ gamesAdmissible (g' :: r) := hg
    rw [List.flatMap_cons, List.foldl_append, foldl_game he g hg'.1, if_neg (hg'.1.separated rfl),
      finish_games he (g' :: r) hg'.2]
    simp

/-! ## `collapseWs` without fuel -/
theorem collapseWs_nil (f : Nat) : collapseWs f [] = [] := by
  cases f <;> rfl

theorem collapseWs_fuel : ∀ (n : Nat) (s : Str) (f1 f2 : Nat), s.length ≤ n → s.length ≤ f1 → s.length ≤ f2 →
    collapseWs f1 s = collapseWs f2 s := by
  intro n
  induction n with
  | zero =>
    intro s f1 f2 h _ _
    have : s = [] := List.length_eq_zero_iff.1 (by omega)
    subst this
    rw [collapseWs_nil, collapseWs_nil]
  | succ n ih =>
    intro s f1 f2 hn h1 h2
    cases s with
    | nil => rw [collapseWs_nil, collapseWs_nil]
    | cons c r =>
      simp only [List.length_cons] at hn h1 h2
      obtain ⟨g1, rfl⟩ : ∃ g, f1 = g + 1 := ⟨f1 - 1, by omega⟩
      obtain ⟨g2, rfl⟩ : ∃ g, f2 = g + 1 := ⟨f2 - 1, by omega⟩
      simp only [collapseWs]
      split
      · split
        · rename_i rest hrest
          have hl := congrArg List.length hrest
          simp only [List.length_drop, List.length_cons] at hl
          rw [ih rest g1 g2 (by omega) (by omega) (by omega)]
        · rw [ih r g1 g2 (by omega) (by omega) (by omega)]
      · have hd : (r.dropWhile isPbnWs).length ≤ r.length := (List.dropWhile_sublist _).length_le
        split
        · rw [ih _ g1 g2 (by omega) (by omega) (by omega)]
        · rw [ih r g1 g2 (by omega) (by omega) (by omega)]

/-- the collapse, with exactly enough fuel -/
def cw (s : Str) : Str := collapseWs s.length s

theorem collapseWs_eq_cw {f : Nat} {s : Str} (h : s.length ≤ f) : collapseWs f s = cw s :=
  collapseWs_fuel s.length s f s.length (Nat.le_refl _) h (Nat.le_refl _)

theorem cw_nil : cw [] = [] := rfl

theorem cw_cons_plain {c : Char} (hq : c ≠ '"') (hw : isPbnWs c = false) (r : Str) : cw (c :: r) = c :: cw r := by
  simp [cw, collapseWs, hq, hw]

theorem cw_cons_ws {c : Char} (hw : isPbnWs c = true) (r : Str) :
    cw (c :: r) = ' ' :: cw (r.dropWhile isPbnWs) := by
  have hq : c ≠ '"' := isPbnWs_ne hw (by decide)
  have hd : (r.dropWhile isPbnWs).length ≤ r.length := (List.dropWhile_sublist _).length_le
  simp [cw, collapseWs, hq, hw, collapseWs_eq_cw hd]

theorem takeWhile_append_stop {p : Char → Bool} {m : Str} (hm : ∀ x ∈ m, p x = true) {z : Char} (hz : p z = false)
    (r : Str) : (m ++ z :: r).takeWhile p = m := by
  induction m with
  | nil => simp [hz]
  | cons x m ih =>
    rw [List.cons_append, List.takeWhile_cons, if_pos (hm x (by simp)), ih fun y hy => hm y (by simp [hy])]

theorem cw_quote {v : Str} (hv : ∀ c ∈ v, c ≠ '"') (rest : Str) :
    cw ('"' :: (v ++ '"' :: rest)) = '"' :: (v ++ '"' :: cw rest) := by
  have ht : (v ++ '"' :: rest).takeWhile (fun c => decide (c ≠ '"')) = v :=
    takeWhile_append_stop (by simpa using hv) (by simp) rest
  have hl : rest.length ≤ (v ++ '"' :: rest).length := by simp; omega
  simp only [cw, List.length_cons, collapseWs, if_true, ht, List.drop_left]
  rw [collapseWs_eq_cw hl]
  rfl

theorem cw_append_plain {p : Str} (hp : ∀ c ∈ p, c ≠ '"' ∧ isPbnWs c = false) (r : Str) :
    cw (p ++ r) = p ++ cw r := by
  induction p with
  | nil => rfl
  | cons c p ih =>
    rw [List.cons_append, cw_cons_plain (hp c (by simp)).1 (hp c (by simp)).2, ih fun d hd => hp d (by simp [hd])]
    rfl

/-- one space in front of a visible character stays one space -/
theorem cw_space_before {c : Char} (hw : isPbnWs c = false) (r : Str) : cw (' ' :: c :: r) = ' ' :: cw (c :: r) := by
  rw [cw_cons_ws (by decide), List.dropWhile_cons_of_neg (by simp [hw])]

theorem cw_optSpace {c : Char} (hw : isPbnWs c = false) (b : Bool) (r : Str) :
    cw ((if b then [' '] else []) ++ c :: r) = (if b then [' '] else []) ++ cw (c :: r) := by
  cases b
  · rfl
  · exact cw_space_before hw r

theorem cw_chunk {n v : Str} (hn : validTagName n = true) (hv : ∀ c ∈ v, c ≠ '"') (so sc : Bool) (rest : Str) :
    cw (chunk n v so sc rest) = chunk n v so sc (cw rest) := by
  obtain ⟨c, m, rfl, hc, _, hm⟩ := validTagName_cases hn
  have hcl := isUpper_isLetter hc
  have hplain : ∀ d ∈ c :: m, d ≠ '"' ∧ isPbnWs d = false := by
    intro d hd
    have hdl : isLetter d = true := by
      rcases List.mem_cons.1 hd with rfl | hd
      · exact hcl
      · exact hm d hd
    exact ⟨isLetter_ne hdl (by decide), isLetter_notWs hdl⟩
  rw [chunk_eq, chunk_eq, cw_cons_plain (by decide) (by decide), List.cons_append (a := c) (as := m),
    cw_optSpace (isLetter_notWs hcl), ← List.cons_append (a := c) (as := m), cw_append_plain hplain, cw_space_before (by decide),
    cw_quote hv, cw_optSpace (by decide), cw_cons_plain (by decide) (by decide)]

/-- text between tags: no bracket, no quote -/
def Junk (p : Str) : Prop := ∀ c ∈ p, c ≠ '[' ∧ c ≠ '"'

theorem Junk.append {p q : Str} (hp : Junk p) (hq : Junk q) : Junk (p ++ q) := by
  intro c hc
  rcases List.mem_append.1 hc with h | h
  · exact hp c h
  · exact hq c h

theorem junk_of_ws {p : Str} (hp : ∀ c ∈ p, isPbnWs c = true) : Junk p := fun c hc =>
  ⟨isPbnWs_ne (hp c hc) (by decide), isPbnWs_ne (hp c hc) (by decide)⟩

/-- the collapse of junk in front of a tag (or of the end) is junk in front of the collapse -/
theorem cw_junk {x : Str} (hx : x.dropWhile isPbnWs = x) : ∀ (n : Nat) (p : Str), p.length ≤ n → Junk p →
    ∃ p', (∀ c ∈ p', c ≠ '[') ∧ cw (p ++ x) = p' ++ cw x := by
  intro n
  induction n with
  | zero =>
    intro p hl _
    have : p = [] := List.length_eq_zero_iff.1 (by omega)
    subst this
    exact ⟨[], by simp, rfl⟩
  | succ n ih =>
    intro p hl hp
    cases p with
    | nil => exact ⟨[], by simp, rfl⟩
    | cons c p =>
      have hc := hp c (by simp)
      have hp1 : Junk p := fun d hd => hp d (by simp [hd])
      simp only [List.length_cons] at hl
      by_cases hw : isPbnWs c = true
      · have hd : ((p ++ x).dropWhile isPbnWs) = p.dropWhile isPbnWs ++ x := by
          rw [List.dropWhile_append]
          split
          · rename_i he
            rw [hx, List.isEmpty_iff.1 he, List.nil_append]
          · rfl
        have hsub := List.dropWhile_sublist (l := p) isPbnWs
        obtain ⟨p', hp', he⟩ := ih (p.dropWhile isPbnWs) (by have := hsub.length_le; omega)
          (fun d hd => hp1 d (hsub.subset hd))
        refine ⟨' ' :: p', ?_, ?_⟩
        · intro d hd
          rcases List.mem_cons.1 hd with rfl | hd
          · decide
          · exact hp' d hd
        · rw [List.cons_append, cw_cons_ws hw, hd, he]
          rfl
      · have hw' : isPbnWs c = false := by simpa using hw
        obtain ⟨p', hp', he⟩ := ih p (by omega) hp1
        refine ⟨c :: p', ?_, ?_⟩
        · intro d hd
          rcases List.mem_cons.1 hd with rfl | hd
          · exact hc.1
          · exact hp' d hd
        · rw [List.cons_append, cw_cons_plain hc.2 hw', he]
          rfl

/-! ## `matchTagAt`, `findTags` -/
theorem matchTagAt_ne {c : Char} (hc : c ≠ '[') (r : Str) : matchTagAt (c :: r) = none := by
  unfold matchTagAt
  split
  · rename_i h
    simp only [List.cons.injEq] at h
    exact absurd h.1 hc
  · rfl

theorem matchTagAt_chunk {n v : Str} (hn : validTagName n = true) (hv : ∀ c ∈ v, c ≠ '"') (so sc : Bool)
    (rest : Str) : matchTagAt (chunk n v so sc rest) = some (n, v, rest) := by
  obtain ⟨c, m, rfl, hc, hmne, hm⟩ := validTagName_cases hn
  have hcl := isUpper_isLetter hc
  have hcsp : c ≠ ' ' := isLetter_ne hcl (by decide)
  rw [chunk_eq]
  have htw : ∀ r, (m ++ ' ' :: r).takeWhile isLetter = m := fun r => takeWhile_append_stop hm (by decide) r
  have hvw : ∀ r, (v ++ '"' :: r).takeWhile (fun x => !decide (x = '"')) = v := fun r =>
    takeWhile_append_stop (by simpa using hv) (by simp) r
  have hme : m.isEmpty = false := by simpa using hmne
  cases so <;> cases sc <;>
    simp [matchTagAt, hc, htw, hvw, hme, hcsp]

theorem findTags_nil (f : Nat) : findTags f [] = [] := by
  cases f <;> rfl

theorem findTags_skip {p : Str} (hp : ∀ c ∈ p, c ≠ '[') (y : Str) (fuel : Nat) (hf : (p ++ y).length ≤ fuel) :
    findTags fuel (p ++ y) = findTags (fuel - p.length) y := by
  induction p generalizing fuel with
  | nil => rfl
  | cons c p ih =>
    simp only [List.cons_append, List.length_cons] at hf ⊢
    obtain ⟨g, rfl⟩ : ∃ g, fuel = g + 1 := ⟨fuel - 1, by omega⟩
    rw [findTags, matchTagAt_ne (hp c (by simp))]
    simp only
    rw [ih (fun d hd => hp d (by simp [hd])) g (by omega)]
    congr 1
    omega

theorem findTags_chunk {n v : Str} (hn : validTagName n = true) (hv : ∀ c ∈ v, c ≠ '"') (so sc : Bool)
    (rest : Str) (fuel : Nat) : findTags (fuel + 1) (chunk n v so sc rest) = (n, v) :: findTags fuel rest := by
  have h := matchTagAt_chunk hn hv so sc rest
  rw [chunk_eq] at h ⊢
  rw [findTags, h]

theorem chunk_length (n v : Str) (so sc : Bool) (rest : Str) : rest.length + 1 ≤ (chunk n v so sc rest).length := by
  rw [chunk_eq]
  simp only [List.length_cons, List.length_append]
  omega

/-- the tag pairs of a list of items -/
def tagsOf (its : List PbnItem) : List (Str × Str) :=
  its.filterMap fun i => match i with
    | .tag n v _ _ _ => some (n, v)
    | .row _ => none

theorem tagList_eq (g : GameL) : g.tagList = tagsOf g.items := rfl

theorem findTags_items {e : Str} (he : IsEol e) : ∀ (its : List PbnItem), (∀ i ∈ its, i.ok = true) →
    ∀ (p : Str), Junk p → ∀ fuel, (cw (p ++ (its.map fun i => i.text ++ e).flatten)).length ≤ fuel →
      findTags fuel (cw (p ++ (its.map fun i => i.text ++ e).flatten)) = tagsOf its := by
  have hej : Junk e := junk_of_ws fun c hc => he.ws hc
  intro its
  induction its with
  | nil =>
    intro _ p hp fuel hf
    obtain ⟨p', hp', heq⟩ := cw_junk (x := []) rfl p.length p (Nat.le_refl _) hp
    simp only [List.map_nil, List.flatten_nil] at hf ⊢
    rw [heq, cw_nil] at hf ⊢
    rw [findTags_skip hp' [] fuel hf, findTags_nil]
    rfl
  | cons i its ih =>
    intro hok p hp fuel hf
    have hok' : ∀ j ∈ its, j.ok = true := fun j hj => hok j (by simp [hj])
    have hi := hok i (by simp)
    cases i with
    | row t =>
      simp only [PbnItem.ok, Bool.and_eq_true, Bool.not_eq_true', bne_iff_ne, ne_eq, List.all_eq_true] at hi
      obtain ⟨⟨⟨ht, _⟩, hbr⟩, _⟩ := hi
      have htj : Junk t := fun c hc => ⟨hbr c hc, ((plainText_iff.1 ht).2.2 c hc).1⟩
      have hre : p ++ ((PbnItem.row t :: its).map fun i => i.text ++ e).flatten =
          (p ++ (t ++ e)) ++ (its.map fun i => i.text ++ e).flatten := by
        simp [PbnItem.text]
      rw [hre] at hf ⊢
      rw [ih hok' _ (hp.append (htj.append hej)) fuel hf]
      rfl
    | tag n v so sc tr =>
      simp only [PbnItem.ok, Bool.and_eq_true] at hi
      obtain ⟨⟨hn, hv⟩, htr⟩ := hi
      have hvq : ∀ c ∈ v, c ≠ '"' := fun c hc => ((plainText_iff.1 hv).2.2 c hc).1
      have hre : ((PbnItem.tag n v so sc tr :: its).map fun i => i.text ++ e).flatten =
          chunk n v so sc ((tr ++ e) ++ (its.map fun i => i.text ++ e).flatten) := by
        rw [List.map_cons, List.flatten_cons, List.append_assoc, tag_text_append, List.append_assoc]
      have hx : (chunk n v so sc ((tr ++ e) ++ (its.map fun i => i.text ++ e).flatten)).dropWhile isPbnWs =
          chunk n v so sc ((tr ++ e) ++ (its.map fun i => i.text ++ e).flatten) := by
        rw [chunk_eq, List.dropWhile_cons_of_neg (by decide)]
      obtain ⟨p', hp', heq⟩ := cw_junk hx p.length p (Nat.le_refl _) hp
      rw [hre] at hf ⊢
      rw [heq, cw_chunk hn hvq] at hf ⊢
      have hlen := chunk_length n v so sc (cw ((tr ++ e) ++ (its.map fun i => i.text ++ e).flatten))
      rw [List.length_append] at hf
      rw [findTags_skip hp' _ fuel (by rw [List.length_append]; exact hf)]
      obtain ⟨k, hk⟩ : ∃ k, fuel - p'.length = k + 1 := ⟨fuel - p'.length - 1, by omega⟩
      rw [hk, findTags_chunk hn hvq,
        ih hok' _ (junk_of_ws (ws_append (fun c hc => isBlank_ws htr hc) fun c hc => he.ws hc)) k (by omega)]
      rfl

theorem parseBoard_items {e : Str} (he : IsEol e) (its : List PbnItem) (hok : ∀ i ∈ its, i.ok = true) :
    parseBoard (its.map fun i => i.text ++ e) = firstWins (tagsOf its) [] := by
  have h := findTags_items he its hok [] (fun _ h => by simp at h)
  simp only [List.nil_append] at h
  simp only [parseBoard]
  rw [collapseWs_eq_cw (Nat.le_succ _), h _ (Nat.le_succ _)]

theorem gamesAdmissible_mem : ∀ {gl : List GameL}, gamesAdmissible gl → ∀ g ∈ gl, ∃ last, g.Admissible last
  | [], _, g, hg => by simp at hg
  | [g0], h, g, hg => by
    have h' : g0.Admissible true := h
    simp only [List.mem_singleton] at hg
    subst hg
    exact ⟨true, h'⟩
  | g0 :: g1 :: r, h, g, hg => by
    have h' : g0.Admissible false ∧ gamesAdmissible (g1 :: r) := h
    rcases List.mem_cons.1 hg with rfl | hg
    · exact ⟨false, h'.1⟩
    · exact gamesAdmissible_mem h'.2 g hg

/-- MAIN LEMMA: an admissible file is read as one game per rendered game, in order; each game is the dictionary of
its tag pairs in file order, first occurrence of a name winning -/
theorem parseStream_layout (f : FileL) (hf : f.Admissible) :
    parseStream f.lines = f.games.map fun g => firstWins g.tagList [] := by
  have he : IsEol f.eol := hf.eol
  rw [parseStream_eq_finish, FileL.lines, List.foldl_append, List.foldl_append,
    foldl_headers _ (fun h hh => (hf.header h hh).1), foldl_blank_empty he _ hf.leading,
    finish_games he _ hf.games, List.reverse_nil, List.nil_append]
  apply List.map_congr_left
  intro g hg
  obtain ⟨last, hl⟩ := gamesAdmissible_mem hf.games g hg
  rw [tagList_eq, itemLines, parseBoard_items he _ hl.items_ok]

/-! ## the dictionary of a game -/
theorem find_firstWins (name : Str) (tags acc : List (Str × Str)) :
    (firstWins tags acc).find? (fun kv => kv.1 == name) = (acc.reverse ++ tags).find? fun kv => kv.1 == name := by
  induction tags generalizing acc with
  | nil => simp [firstWins]
  | cons kv tags ih =>
    obtain ⟨k, v⟩ := kv
    rw [firstWins]
    split
    · rename_i hany
      rw [ih, List.find?_append, List.find?_append, List.find?_cons]
      by_cases hk : k = name
      · subst hk
        obtain ⟨x, hx, hxk⟩ := List.any_eq_true.1 hany
        have : (acc.reverse.find? fun kv => kv.1 == k).isSome = true := by
          rw [List.find?_isSome]
          exact ⟨x, by simpa using hx, hxk⟩
        obtain ⟨y, hy⟩ := Option.isSome_iff_exists.1 this
        simp [hy]
      · have : ((k, v).1 == name) = false := by simpa using hk
        simp [this]
    · rw [ih]
      simp

theorem gameGet_firstWins (tags : List (Str × Str)) (name : Str) :
    gameGet? (firstWins tags []) name = (tags.find? fun kv => kv.1 == name).map (·.2) := by
  rw [gameGet?, find_firstWins]
  rfl

theorem firstTag_eq (g : GameL) (name : Str) :
    g.firstTag? name = (g.tagList.find? fun kv => kv.1 == name).map (·.2) := by
  rw [GameL.firstTag?, GameL.tagList]
  induction g.items with
  | nil => rfl
  | cons i its ih =>
    cases i with
    | row t => simpa using ih
    | tag n v so sc tr =>
      by_cases hn : n = name
      · simp [hn]
      · simp [hn, ih]

/-! ## boards -/
theorem gameGet_layout (g : GameL) (name : Str) : gameGet? (firstWins g.tagList []) name = g.firstTag? name := by
  rw [gameGet_firstWins, firstTag_eq]

theorem seatOfName_name (p : Seat) : seatOfName? p.name = some p := by
  cases p <;> rfl

theorem strToVul_spelling {v : Vul} {sp : Str} (h : sp ∈ vulSpellings v) : strToVul? sp = some v := by
  cases v <;> simp only [vulSpellings, List.mem_cons, List.not_mem_nil, or_false] at h
  · rcases h with rfl | rfl | rfl | rfl <;> decide
  · subst h; decide
  · subst h; decide
  · rcases h with rfl | rfl | rfl <;> decide

theorem settingOfGame_describes {g : GameL} {b : SettingEntry} (hd : g.Describes b) (hw : PartialDeal b.deal) :
    ∃ r, settingOfGame? (firstWins g.tagList []) = some r ∧ SameBoard r b := by
  obtain ⟨⟨first, hdeal, _⟩, hdealer, ⟨sp, hsp, hvul⟩, hboard⟩ := hd
  obtain ⟨s, hs, h', hconv, hsame⟩ := C14.pbn_round_trip b.deal hw first
  refine ⟨{ boardId := b.boardId, dealer := b.dealer, deal := h', vul := b.vul, dda := none }, ?_,
    rfl, rfl, rfl, hsame, rfl⟩
  simp only [settingOfGame?, gameGet_layout, hdeal, hs, hdealer, hvul, hboard]
  simp [hconv, seatOfName_name, strToVul_spelling hsp]

/-- two lists related element by element (core Lean has no `Forall₂`) -/
inductive Forall₂ {α β : Type} (R : α → β → Prop) : List α → List β → Prop
  | nil : Forall₂ R [] []
  | cons {a : α} {b : β} {l₁ : List α} {l₂ : List β} : R a b → Forall₂ R l₁ l₂ → Forall₂ R (a :: l₁) (b :: l₂)

theorem forall₂_iff_getElem {α β : Type} {R : α → β → Prop} : ∀ {l₁ : List α} {l₂ : List β},
    Forall₂ R l₁ l₂ ↔ l₁.length = l₂.length ∧ ∀ i (h₁ : i < l₁.length) (h₂ : i < l₂.length), R l₁[i] l₂[i]
  | [], [] => ⟨fun _ => ⟨rfl, fun i h => absurd h (Nat.not_lt_zero i)⟩, fun _ => .nil⟩
  | [], b :: l₂ => ⟨(fun h => nomatch h), fun h => by simp at h⟩
  | a :: l₁, [] => ⟨(fun h => nomatch h), fun h => by simp at h⟩
  | a :: l₁, b :: l₂ => by
    constructor
    · intro h
      cases h with
      | cons hab htl =>
        obtain ⟨hl, hi⟩ := forall₂_iff_getElem.1 htl
        refine ⟨by simp [hl], fun i h₁ h₂ => ?_⟩
        cases i with
        | zero => exact hab
        | succ i => exact hi i (by simpa using h₁) (by simpa using h₂)
    · intro ⟨hl, hi⟩
      refine .cons (hi 0 (by simp) (by simp)) (forall₂_iff_getElem.2 ⟨by simpa using hl, fun i h₁ h₂ => ?_⟩)
      exact hi (i + 1) (by simpa using h₁) (by simpa using h₂)

theorem mapM_settings : ∀ (gs : List GameL) (bs : List SettingEntry), Forall₂ GameL.Describes gs bs →
    (∀ b ∈ bs, PartialDeal b.deal) →
    ∃ rs, (gs.map fun g => firstWins g.tagList []).mapM settingOfGame? = some rs ∧ Forall₂ SameBoard rs bs
  | [], [], _, _ => ⟨[], rfl, .nil⟩
  | g :: gs, b :: bs, .cons hd htl, hw => by
    obtain ⟨r, hr, hrb⟩ := settingOfGame_describes hd (hw b (by simp))
    obtain ⟨rs, hrs, hrsb⟩ := mapM_settings gs bs htl fun b' hb' => hw b' (by simp [hb'])
    refine ⟨r :: rs, ?_, .cons hrb hrsb⟩
    rw [List.map_cons, List.mapM_cons, hr, hrs]
    rfl

/-- every rendering of a list of boards is read back as those boards, in order -/
theorem pbnBoardSettings_layout (f : FileL) (hf : f.Admissible) (bs : List SettingEntry)
    (hd : Forall₂ GameL.Describes f.games bs) (hw : ∀ b ∈ bs, PartialDeal b.deal) :
    ∃ rs, pbnBoardSettings? f.lines = some rs ∧ Forall₂ SameBoard rs bs := by
  rw [pbnBoardSettings?, parseStream_layout f hf]
  exact mapM_settings f.games bs hd hw

/-- the same, without `Forall₂` : lists of equal length related index by index -/
theorem pbnBoardSettings_layout_getElem (f : FileL) (hf : f.Admissible) (bs : List SettingEntry)
    (hlen : f.games.length = bs.length)
    (hd : ∀ i (h₁ : i < f.games.length) (h₂ : i < bs.length), f.games[i].Describes bs[i])
    (hw : ∀ b ∈ bs, PartialDeal b.deal) :
    ∃ rs, pbnBoardSettings? f.lines = some rs ∧ rs.length = bs.length ∧
      ∀ i (h₁ : i < rs.length) (h₂ : i < bs.length), SameBoard rs[i] bs[i] := by
  obtain ⟨rs, h1, h2⟩ := pbnBoardSettings_layout f hf bs (forall₂_iff_getElem.2 ⟨hlen, hd⟩) hw
  exact ⟨rs, h1, forall₂_iff_getElem.1 h2⟩

/-- the lines without their line ends -/
def GameL.bodies (g : GameL) : List Str := g.items.map (·.text) ++ g.seps
def FileL.bodies (f : FileL) : List Str := f.header ++ f.leading ++ f.games.flatMap GameL.bodies

theorem GameL.lines_eq_bodies (e : Str) (g : GameL) : g.lines e = g.bodies.map (· ++ e) := by
  simp [GameL.lines, GameL.bodies]

theorem FileL.lines_eq_bodies (f : FileL) : f.lines = f.bodies.map (· ++ f.eol) := by
  simp only [FileL.lines, FileL.bodies, List.map_append, List.map_flatMap]
  have : GameL.lines f.eol = fun g => g.bodies.map (· ++ f.eol) := funext fun g => g.lines_eq_bodies f.eol
  rw [this]

/-- no line-end character -/
def NoNl (x : Str) : Prop := ∀ c ∈ x, c ≠ '\n' ∧ c ≠ '\r'

theorem noNl_of_ws_blank {s : Str} (h : isBlank s = true) : NoNl s := by
  intro c hc
  rcases isBlank_mem h hc with rfl | rfl <;> decide

theorem noNl_item {i : PbnItem} (hi : i.ok = true) : NoNl i.text := by
  cases i with
  | row t =>
    simp only [PbnItem.ok, Bool.and_eq_true] at hi
    intro c hc
    exact ((plainText_iff.1 hi.1.1.1).2.2 c hc).2
  | tag n v so sc tr =>
    simp only [PbnItem.ok, Bool.and_eq_true] at hi
    obtain ⟨⟨hn, hv⟩, htr⟩ := hi
    have h := tag_text_append n v so sc tr []
    rw [List.append_nil, List.append_nil, chunk_eq] at h
    rw [h]
    intro c hc
    simp only [List.mem_cons, List.mem_append] at hc
    rcases hc with rfl | hc | hc | rfl | rfl | hc | rfl | hc | rfl | hc
    · decide
    · cases so <;> simp at hc
      subst hc; decide
    · have := validTagName_letters hn c hc
      exact ⟨isLetter_ne this (by decide), isLetter_ne this (by decide)⟩
    · decide
    · decide
    · exact ((plainText_iff.1 hv).2.2 c hc).2
    · decide
    · cases sc <;> simp at hc
      subst hc; decide
    · decide
    · exact noNl_of_ws_blank htr c hc

theorem bodies_noNl {f : FileL} (hf : f.Admissible) : ∀ x ∈ f.bodies, NoNl x := by
  intro x hx
  simp only [FileL.bodies, List.mem_append, List.mem_flatMap, GameL.bodies, List.mem_map] at hx
  rcases hx with (hx | hx) | ⟨g, hg, ⟨i, hi, rfl⟩ | hx⟩
  · have := (hf.header x hx).2
    simp only [List.all_eq_true, Bool.and_eq_true, bne_iff_ne, ne_eq] at this
    exact this
  · exact noNl_of_ws_blank (hf.leading x hx)
  · obtain ⟨last, hl⟩ := gamesAdmissible_mem hf.games g hg
    exact noNl_item (hl.items_ok i hi)
  · obtain ⟨last, hl⟩ := gamesAdmissible_mem hf.games g hg
    exact noNl_of_ws_blank (hl.seps_blank x hx)

theorem pyLinesAux_line {x : Str} (hx : ∀ c ∈ x, c ≠ '\n') (rest cur : Str) :
    pyLinesAux (x ++ '\n' :: rest) cur = (cur.reverse ++ x ++ ['\n']) :: pyLinesAux rest [] := by
  induction x generalizing cur with
  | nil => simp [pyLinesAux]
  | cons c x ih =>
    rw [List.cons_append, pyLinesAux, if_neg (hx c (by simp)), ih fun d hd => hx d (by simp [hd])]
    simp

theorem pyLines_bodies {e : Str} (he : IsEol e) (bodies : List Str) (hb : ∀ x ∈ bodies, NoNl x) :
    pyLines (bodies.map (· ++ e)).flatten = bodies.map (· ++ e) := by
  rw [pyLines]
  induction bodies with
  | nil => rfl
  | cons x bodies ih =>
    have hx := hb x (by simp)
    have ih' := ih fun y hy => hb y (by simp [hy])
    rw [List.map_cons, List.flatten_cons]
    rcases he with rfl | rfl
    · rw [List.append_assoc, List.singleton_append, pyLinesAux_line (fun c hc => (hx c hc).1), ih']
      simp
    · have h1 : x ++ ['\r', '\n'] ++ (bodies.map (· ++ ['\r', '\n'])).flatten =
          (x ++ ['\r']) ++ '\n' :: (bodies.map (· ++ ['\r', '\n'])).flatten := by simp
      have h2 : ∀ c ∈ x ++ ['\r'], c ≠ '\n' := by
        intro c hc
        rcases List.mem_append.1 hc with h | h
        · exact (hx c h).1
        · simp at h; subst h; decide
      rw [h1, pyLinesAux_line h2, ih']
      simp

/-- the file object yields exactly the rendered lines (io.StringIO) … -/
theorem pyLines_text (f : FileL) (hf : f.Admissible) : pyLines f.text = f.lines := by
  rw [FileL.text, f.lines_eq_bodies, pyLines_bodies hf.eol _ (bodies_noNl hf)]

theorem universalNewlines_cons {c : Char} (hc : c ≠ '\r') (r : Str) :
    universalNewlines (c :: r) = c :: universalNewlines r := by
  rw [universalNewlines]
  · intro _ h _; exact hc h
  · intro h; exact hc h

theorem universalNewlines_lf {x : Str} (hx : ∀ c ∈ x, c ≠ '\r') (rest : Str) :
    universalNewlines (x ++ '\n' :: rest) = x ++ '\n' :: universalNewlines rest := by
  induction x with
  | nil => exact universalNewlines_cons (by decide) rest
  | cons c x ih =>
    rw [List.cons_append, universalNewlines_cons (hx c (by simp)), ih fun d hd => hx d (by simp [hd])]
    rfl

theorem universalNewlines_crlf {x : Str} (hx : ∀ c ∈ x, c ≠ '\r') (rest : Str) :
    universalNewlines (x ++ '\r' :: '\n' :: rest) = x ++ '\n' :: universalNewlines rest := by
  induction x with
  | nil => rw [List.nil_append, universalNewlines]; rfl
  | cons c x ih =>
    rw [List.cons_append, universalNewlines_cons (hx c (by simp)), ih fun d hd => hx d (by simp [hd])]
    rfl

theorem universalNewlines_bodies {e : Str} (he : IsEol e) (bodies : List Str) (hb : ∀ x ∈ bodies, NoNl x) :
    universalNewlines (bodies.map (· ++ e)).flatten = (bodies.map (· ++ ['\n'])).flatten := by
  induction bodies with
  | nil => rfl
  | cons x bodies ih =>
    have hx := hb x (by simp)
    have ih' := ih fun y hy => hb y (by simp [hy])
    rw [List.map_cons, List.flatten_cons, List.map_cons, List.flatten_cons]
    rcases he with rfl | rfl
    · rw [List.append_assoc, List.singleton_append, universalNewlines_lf (fun c hc => (hx c hc).2), ih']
    · have h1 : x ++ ['\r', '\n'] ++ (bodies.map (· ++ ['\r', '\n'])).flatten =
          x ++ '\r' :: '\n' :: (bodies.map (· ++ ['\r', '\n'])).flatten := by simp
      rw [h1, universalNewlines_crlf (fun c hc => (hx c hc).2), ih']
      simp

theorem admissible_lf (f : FileL) (hf : f.Admissible) : ({ f with eol := ['\n'] } : FileL).Admissible :=
  ⟨Or.inl rfl, hf.header, hf.leading, hf.games⟩

/-- … and through open() (universal newlines) the same lines with LF line ends -/
theorem pyLines_universal (f : FileL) (hf : f.Admissible) :
    pyLines (universalNewlines f.text) = ({ f with eol := ['\n'] } : FileL).lines := by
  have h : ({ f with eol := ['\n'] } : FileL).lines = f.bodies.map (· ++ ['\n']) :=
    FileL.lines_eq_bodies { f with eol := ['\n'] }
  rw [h, FileL.text, f.lines_eq_bodies, universalNewlines_bodies hf.eol _ (bodies_noNl hf),
    pyLines_bodies (Or.inl rfl) _ (bodies_noNl hf)]

/-! ## the behaviour before the repairs, on concrete files -/
theorem old_parser_rejects_leading_blank_line :
    pbnBoardSettingsOld? ["\n".toList, "[Deal \"N:- - - -\"]\n".toList, "[Dealer \"N\"]\n".toList,
      "[Vulnerable \"None\"]\n".toList, "[Board \"1\"]\n".toList] = none ∧
    (pbnBoardSettings? ["\n".toList, "[Deal \"N:- - - -\"]\n".toList, "[Dealer \"N\"]\n".toList,
      "[Vulnerable \"None\"]\n".toList, "[Board \"1\"]\n".toList]).isSome = true := by
  decide +kernel

theorem old_parser_changes_value :
    parseStreamOld ["[Board \"2  x\"]\n".toList] = [[("Board".toList, "2 x".toList)]] ∧
    parseStream ["[Board \"2  x\"]\n".toList] = [[("Board".toList, "2  x".toList)]] := by
  decide +kernel

end Bridge
