import BridgeVerif.Spec.PbnLayout
import BridgeVerif.Props.C14
import BridgeVerif.Props.C15
/-!
# The PBN reader on admissible layouts (C17)

`pyLines_text`, `pyLines_universal` : the file object yields the rendered lines.
`parseStream_layout` : one game per rendered game, each the dictionary of its tag pairs, first occurrence winning.
`pbnBoardSettings_layout` : every rendering of a list of boards is read back as those boards.
-/
namespace Bridge

/-! ## characters -/
theorem isLetter_ne {c k : Char} (h : isLetter c = true) (hk : isLetter k = false) : c ≠ k := by
  rintro rfl
  simp [h] at hk

theorem isUpper_isLetter {c : Char} (h : isUpper c = true) : isLetter c = true := by
  simp only [isUpper] at h
  simp [isLetter, h]

theorem isPbnWs_ne {c k : Char} (h : isPbnWs c = true) (hk : isPbnWs k = false) : c ≠ k := by
  rintro rfl
  simp [h] at hk

theorem notWs_ne {c k : Char} (h : isPbnWs c = false) (hk : isPbnWs k = true) : c ≠ k := by
  rintro rfl
  simp [h] at hk

theorem isLetter_notWs {c : Char} (h : isLetter c = true) : isPbnWs c = false := by
  simp only [isPbnWs, Bool.or_eq_false_iff, beq_eq_false_iff_ne]
  exact ⟨⟨⟨isLetter_ne h (by decide), isLetter_ne h (by decide)⟩, isLetter_ne h (by decide)⟩,
    isLetter_ne h (by decide)⟩

theorem isBlank_mem {s : Str} (h : isBlank s = true) {c : Char} (hc : c ∈ s) : c = ' ' ∨ c = '\t' := by
  simp only [isBlank, List.all_eq_true, Bool.or_eq_true, beq_iff_eq] at h
  exact h c hc

theorem isBlank_ws {s : Str} (h : isBlank s = true) {c : Char} (hc : c ∈ s) : isPbnWs c = true := by
  rcases isBlank_mem h hc with rfl | rfl <;> decide

/-- the two line ends -/
def IsEol (e : Str) : Prop := e = ['\n'] ∨ e = ['\r', '\n']

theorem IsEol.ws {e : Str} (h : IsEol e) {c : Char} (hc : c ∈ e) : isPbnWs c = true := by
  rcases h with rfl | rfl
  · simp at hc; subst hc; decide
  · simp at hc; rcases hc with rfl | rfl <;> decide

theorem IsEol.ne_nil {e : Str} (h : IsEol e) : e ≠ [] := by
  rcases h with rfl | rfl <;> simp

/-! ## `find2` -/
/-- no adjacent pair `a b` -/
def noPair (a b : Char) : Str → Bool
  | x :: y :: r => !(x == a && y == b) && noPair a b (y :: r)
  | _ => true

theorem find2_none_iff (a b : Char) (l : Str) (i : Nat) : find2 a b l i = none ↔ noPair a b l = true := by
  induction l generalizing i with
  | nil => simp [find2, noPair]
  | cons x r ih =>
    cases r with
    | nil => simp [find2, noPair]
    | cons y r =>
      simp only [find2, noPair]
      by_cases h : x = a ∧ y = b
      · simp [h]
      · rw [if_neg h, ih]
        have : (x == a && y == b) = false := by
          simpa [Bool.and_eq_false_iff] using h
        simp [this]

theorem noPair_cons_ne {a b c : Char} (h : c ≠ a) (l : Str) : noPair a b (c :: l) = noPair a b l := by
  cases l with
  | nil => simp [noPair]
  | cons y r =>
    have : (c == a) = false := by simpa using h
    rw [noPair]; simp [this]

theorem noPair_append_free {a b : Char} {x : Str} (hx : ∀ c ∈ x, c ≠ a) (y : Str) :
    noPair a b (x ++ y) = noPair a b y := by
  induction x with
  | nil => rfl
  | cons c x ih =>
    rw [List.cons_append, noPair_cons_ne (hx c (by simp)), ih fun d hd => hx d (by simp [hd])]

theorem noPair_append_cons {a b c : Char} {v : Str} (hv : noPair a b v = true) (hc : c ≠ b) (y : Str) :
    noPair a b (v ++ c :: y) = noPair a b (c :: y) := by
  induction v with
  | nil => rfl
  | cons x v ih =>
    cases v with
    | nil =>
      have : (c == b) = false := by simpa using hc
      simp [noPair, this]
    | cons z v =>
      simp only [noPair, Bool.and_eq_true] at hv
      have := ih hv.2
      simp only [List.cons_append] at this ⊢
      rw [noPair, this, hv.1, Bool.true_and]

/-- `v` without the pair, followed by a character that is not `b` and then only characters that are not `a` -/
theorem noPair_body {a b c : Char} {pre v post : Str} (hpre : ∀ d ∈ pre, d ≠ a) (hv : noPair a b v = true)
    (hc : c ≠ b) (hca : c ≠ a) (hpost : ∀ d ∈ post, d ≠ a) : noPair a b (pre ++ (v ++ c :: post)) = true := by
  rw [noPair_append_free hpre, noPair_append_cons hv hc, noPair_cons_ne hca]
  have := noPair_append_free (b := b) hpost []
  simpa [noPair] using this

/-! ## the shape of an admissible line -/
theorem validTagName_cases {n : Str} (h : validTagName n = true) :
    ∃ c m, n = c :: m ∧ isUpper c = true ∧ m ≠ [] ∧ ∀ x ∈ m, isLetter x = true := by
  cases n with
  | nil => simp [validTagName] at h
  | cons c m =>
    simp only [validTagName, Bool.and_eq_true, Bool.not_eq_true', List.all_eq_true] at h
    refine ⟨c, m, rfl, h.1.1, ?_, h.2⟩
    intro hm
    simp [hm] at h

theorem validTagName_letters {n : Str} (h : validTagName n = true) : ∀ x ∈ n, isLetter x = true := by
  obtain ⟨c, m, rfl, hc, _, hm⟩ := validTagName_cases h
  intro x hx
  rcases List.mem_cons.1 hx with rfl | hx
  · exact isUpper_isLetter hc
  · exact hm x hx

theorem plainText_iff {s : Str} : plainText s = true ↔
    noPair ';' ' ' s = true ∧ noPair '{' ' ' s = true ∧ ∀ c ∈ s, c ≠ '"' ∧ c ≠ '\n' ∧ c ≠ '\r' := by
  simp only [plainText, Bool.and_eq_true, Option.isNone_iff_eq_none, find2_none_iff, List.all_eq_true,
    bne_iff_ne, ne_eq, and_assoc]

/-- the text of a tag line, with what follows it -/
def chunk (n v : Str) (so sc : Bool) (rest : Str) : Str :=
  '[' :: (if so then [' '] else []) ++ n ++ ' ' :: '"' :: v ++ '"' :: (if sc then [' '] else []) ++ ']' :: rest

theorem tag_text_append (n v : Str) (so sc : Bool) (tr rest : Str) :
    (PbnItem.tag n v so sc tr).text ++ rest = chunk n v so sc (tr ++ rest) := by
  simp [PbnItem.text, chunk]

theorem chunk_eq (n v : Str) (so sc : Bool) (rest : Str) :
    chunk n v so sc rest =
      '[' :: ((if so then [' '] else []) ++ (n ++ ' ' :: '"' :: (v ++ '"' :: ((if sc then [' '] else []) ++ ']' :: rest)))) := by
  simp [chunk]

theorem noPair_chunk {a : Char} (hal : isLetter a = false) (haw : isPbnWs a = false) (ha1 : a ≠ '[') (ha2 : a ≠ '"')
    (ha3 : a ≠ ']') {n v : Str} {so sc : Bool} {rest : Str} (hn : validTagName n = true)
    (hv : noPair a ' ' v = true) (hrest : ∀ c ∈ rest, isPbnWs c = true) :
    noPair a ' ' (chunk n v so sc rest) = true := by
  have hsp : ' ' ≠ a := isPbnWs_ne (by decide) haw
  have key := noPair_body (a := a) (b := ' ') (c := '"')
    (pre := '[' :: (if so then [' '] else []) ++ n ++ [' ', '"']) (v := v)
    (post := (if sc then [' '] else []) ++ ']' :: rest) ?_ hv (by decide) (Ne.symm ha2) ?_
  · simpa [chunk] using key
  · intro d hd
    simp only [List.cons_append, List.mem_cons, List.mem_append, List.not_mem_nil, or_false] at hd
    rcases hd with rfl | (hd | hd) | rfl | rfl
    · exact Ne.symm ha1
    · cases so <;> simp at hd
      subst hd; exact hsp
    · exact isLetter_ne (validTagName_letters hn d hd) hal
    · exact hsp
    · exact Ne.symm ha2
  · intro d hd
    simp only [List.mem_cons, List.mem_append] at hd
    rcases hd with hd | rfl | hd
    · cases sc <;> simp at hd
      subst hd; exact hsp
    · exact Ne.symm ha3
    · exact isPbnWs_ne (hrest d hd) haw

theorem noPair_row {a : Char} (haw : isPbnWs a = false) {t e : Str} (ht : noPair a ' ' t = true) (he : IsEol e) :
    noPair a ' ' (t ++ e) = true := by
  rcases he with rfl | rfl
  · simpa using noPair_body (a := a) (b := ' ') (c := '\n') (pre := []) (v := t) (post := []) (by simp) ht
      (by decide) (isPbnWs_ne (by decide) haw) (by simp)
  · simpa using noPair_body (a := a) (b := ' ') (c := '\r') (pre := []) (v := t) (post := ['\n']) (by simp) ht
      (by decide) (isPbnWs_ne (by decide) haw) (by simpa using isPbnWs_ne (by decide) haw)

theorem ws_append {x y : Str} (hx : ∀ c ∈ x, isPbnWs c = true) (hy : ∀ c ∈ y, isPbnWs c = true) :
    ∀ c ∈ x ++ y, isPbnWs c = true := by
  intro c hc
  rcases List.mem_append.1 hc with h | h
  · exact hx c h
  · exact hy c h

/-- what the reader needs to know about a line of a game -/
structure ItemLine (l : Str) : Prop where
  notSemi : semiEmpty l = false
  notPct : l.head? ≠ some '%'
  noSemi : find2 ';' ' ' l 0 = none
  noBrace : find2 '{' ' ' l 0 = none
  ne : l ≠ []

theorem semiEmpty_false_of_mem {l : Str} {c : Char} (hc : c ∈ l) (hw : isPbnWs c = false) : semiEmpty l = false := by
  simp only [semiEmpty, Bool.and_eq_false_iff]
  right
  apply Bool.eq_false_iff.2
  intro h
  rw [List.all_eq_true] at h
  simp [h c hc] at hw

theorem itemLine {i : PbnItem} {e : Str} (hi : i.ok = true) (he : IsEol e) : ItemLine (i.text ++ e) := by
  cases i with
  | tag n v so sc tr =>
    simp only [PbnItem.ok, Bool.and_eq_true] at hi
    obtain ⟨⟨hn, hv⟩, htr⟩ := hi
    obtain ⟨hv1, hv2, _⟩ := plainText_iff.1 hv
    have hrest : ∀ c ∈ tr ++ e, isPbnWs c = true := ws_append (fun c hc => isBlank_ws htr hc) fun c hc => he.ws hc
    rw [tag_text_append]
    refine ⟨semiEmpty_false_of_mem (c := '[') (by simp [chunk]) (by decide), by simp [chunk], ?_, ?_, by simp [chunk]⟩
    · exact (find2_none_iff _ _ _ _).2
        (noPair_chunk (by decide) (by decide) (by decide) (by decide) (by decide) hn hv1 hrest)
    · exact (find2_none_iff _ _ _ _).2
        (noPair_chunk (by decide) (by decide) (by decide) (by decide) (by decide) hn hv2 hrest)
  | row t =>
    simp only [PbnItem.ok, Bool.and_eq_true, Bool.not_eq_true', bne_iff_ne, ne_eq] at hi
    obtain ⟨⟨⟨ht, hb⟩, _⟩, hp⟩ := hi
    obtain ⟨ht1, ht2, ht3⟩ := plainText_iff.1 ht
    simp only [PbnItem.text]
    have hb' : ∃ c ∈ t, ¬ (c = ' ' ∨ c = '\t') := by
      apply Decidable.byContradiction
      intro hno
      have : isBlank t = true := by
        simp only [isBlank, List.all_eq_true, Bool.or_eq_true, beq_iff_eq]
        intro c hc
        apply Decidable.byContradiction
        intro h
        exact hno ⟨c, hc, h⟩
      simp [this] at hb
    obtain ⟨c, hc, hcb⟩ := hb'
    have hcw : isPbnWs c = false := by
      have := ht3 c hc
      simp only [isPbnWs, Bool.or_eq_false_iff, beq_eq_false_iff_ne]
      exact ⟨⟨⟨fun h => hcb (Or.inl h), fun h => hcb (Or.inr h)⟩, this.2.2⟩, this.2.1⟩
    have hne : t ≠ [] := List.ne_nil_of_mem hc
    refine ⟨semiEmpty_false_of_mem (c := c) (by simp [hc]) hcw, ?_, ?_, ?_, by simp [hne]⟩
    · cases t with
      | nil => exact absurd rfl hne
      | cons x t => simpa using hp
    · exact (find2_none_iff _ _ _ _).2 (noPair_row (by decide) ht1 he)
    · exact (find2_none_iff _ _ _ _).2 (noPair_row (by decide) ht2 he)

/-! ## `streamStep` line by line -/
theorem streamStep_item {l : Str} (hl : ItemLine l) (buf : List Str) (gs : List Game) :
    streamStep (⟨false, buf⟩, gs) l = (⟨false, l :: buf⟩, gs) := by
  have hne : l.isEmpty = false := by simpa using hl.ne
  simp [streamStep, hl.notSemi, hl.notPct, extractContent, hl.noSemi, hl.noBrace, hne, PbnSt.push]

theorem streamStep_header {l : Str} (h1 : l.head? = some '%') (buf : List Str) (gs : List Game) :
    streamStep (⟨false, buf⟩, gs) l = (⟨false, buf⟩, gs) := by
  have : semiEmpty l = false := by
    cases l with
    | nil => simp at h1
    | cons c r =>
      simp only [List.head?_cons, Option.some.injEq] at h1
      subst h1
      exact semiEmpty_false_of_mem (c := '%') (by simp) (by decide)
  simp [streamStep, this, h1]

theorem semiEmpty_blank {s e : Str} (hs : isBlank s = true) (he : IsEol e) : semiEmpty (s ++ e) = true := by
  simp only [semiEmpty, Bool.and_eq_true, Bool.not_eq_true', List.all_eq_true]
  refine ⟨by simp [he.ne_nil], ws_append (fun c hc => isBlank_ws hs hc) fun c hc => he.ws hc⟩

theorem streamStep_blank_empty {l : Str} (hl : semiEmpty l = true) (gs : List Game) :
    streamStep (⟨false, []⟩, gs) l = (⟨false, []⟩, gs) := by
  simp [streamStep, hl]

theorem streamStep_blank_cons {l : Str} (hl : semiEmpty l = true) (x : Str) (buf : List Str) (gs : List Game) :
    streamStep (⟨false, x :: buf⟩, gs) l = (⟨false, []⟩, parseBoard (x :: buf).reverse :: gs) := by
  simp [streamStep, hl]

theorem foldl_items {e : Str} (he : IsEol e) (its : List PbnItem) (hok : ∀ i ∈ its, i.ok = true)
    (buf : List Str) (gs : List Game) :
    (its.map fun i => i.text ++ e).foldl streamStep (⟨false, buf⟩, gs) =
      (⟨false, (its.map fun i => i.text ++ e).reverse ++ buf⟩, gs) := by
  induction its generalizing buf with
  | nil => rfl
  | cons i its ih =>
    rw [List.map_cons, List.foldl_cons, streamStep_item (itemLine (hok i (by simp)) he),
      ih (fun j hj => hok j (by simp [hj]))]
    simp

theorem foldl_blank_empty {e : Str} (he : IsEol e) (ss : List Str) (hss : ∀ s ∈ ss, isBlank s = true)
    (gs : List Game) :
    (ss.map (· ++ e)).foldl streamStep (⟨false, []⟩, gs) = (⟨false, []⟩, gs) := by
  induction ss with
  | nil => rfl
  | cons s ss ih =>
    rw [List.map_cons, List.foldl_cons, streamStep_blank_empty (semiEmpty_blank (hss s (by simp)) he),
      ih fun t ht => hss t (by simp [ht])]

theorem foldl_headers {e : Str} (hs : List Str) (hh : ∀ h ∈ hs, h.head? = some '%') (buf : List Str)
    (gs : List Game) :
    (hs.map (· ++ e)).foldl streamStep (⟨false, buf⟩, gs) = (⟨false, buf⟩, gs) := by
  induction hs with
  | nil => rfl
  | cons h hs ih =>
    have h1 : (h ++ e).head? = some '%' := by
      have := hh h (by simp)
      cases h with
      | nil => simp at this
      | cons c r => simpa using this
    rw [List.map_cons, List.foldl_cons, streamStep_header h1, ih fun t ht => hh t (by simp [ht])]

theorem streamStep_blank_ne {l : Str} (hl : semiEmpty l = true) {buf : List Str} (hb : buf ≠ []) (gs : List Game) :
    streamStep (⟨false, buf⟩, gs) l = (⟨false, []⟩, parseBoard buf.reverse :: gs) := by
  cases buf with
  | nil => exact absurd rfl hb
  | cons x buf => exact streamStep_blank_cons hl x buf gs

/-! ## game by game -/
def itemLines (e : Str) (g : GameL) : List Str := g.items.map fun i => i.text ++ e

/-- the end of `parseStream` -/
def finish (acc : PbnSt × List Game) : List Game :=
  (if acc.1.buffer.isEmpty then acc.2 else parseBoard acc.1.buffer.reverse :: acc.2).reverse

theorem parseStream_eq_finish (lines : List Str) :
    parseStream lines = finish (lines.foldl streamStep (⟨false, []⟩, [])) := by
  cases h : lines.foldl streamStep (⟨false, []⟩, []) with
  | mk st games =>
    have h' : List.foldl streamStep ({ }, []) lines = (st, games) := h
    simp [parseStream, finish, h']

theorem foldl_game {e : Str} (he : IsEol e) (g : GameL) {last : Bool} (hg : g.Admissible last) (gs : List Game) :
    (g.lines e).foldl streamStep (⟨false, []⟩, gs) =
      if g.seps = [] then (⟨false, (itemLines e g).reverse⟩, gs)
      else (⟨false, []⟩, parseBoard (itemLines e g) :: gs) := by
  rw [GameL.lines, List.foldl_append, foldl_items he _ hg.items_ok, List.append_nil]
  cases hs : g.seps with
  | nil => simp [itemLines]
  | cons s ss =>
    have hne : (g.items.map fun i => i.text ++ e).reverse ≠ [] := by
      obtain ⟨n, v, so, sc, tr, rest, hi⟩ := hg.starts_with_tag
      simp [hi]
    have hb : ∀ t ∈ s :: ss, isBlank t = true := by
      intro t ht
      exact hg.seps_blank t (by rw [hs]; exact ht)
    rw [List.map_cons, List.foldl_cons, streamStep_blank_ne (semiEmpty_blank (hb s (by simp)) he) hne,
      foldl_blank_empty he ss fun t ht => hb t (by simp [ht])]
    simp [itemLines]

theorem finish_games {e : Str} (he : IsEol e) : ∀ (gl : List GameL), gamesAdmissible gl → ∀ gs : List Game,
    finish ((gl.flatMap (GameL.lines e)).foldl streamStep (⟨false, []⟩, gs)) =
      gs.reverse ++ gl.map fun g => parseBoard (itemLines e g)
  | [], _, gs => by simp [finish]
  | [g], hg, gs => by
    have hg' : g.Admissible true := hg
    rw [List.flatMap_cons, List.flatMap_nil, List.append_nil, foldl_game he g hg']
    have hne : itemLines e g ≠ [] := by
      obtain ⟨n, v, so, sc, tr, rest, hi⟩ := hg'.starts_with_tag
      simp [itemLines, hi]
    by_cases hs : g.seps = []
    · simp [hs, finish, hne]
    · simp [hs, finish]
  | g :: g' :: r, hg, gs => by
    have hg' : g.Admissible false ∧ gamesAdmissible (g' :: r) := hg
    rw [List.flatMap_cons, List.foldl_append, foldl_game he g hg'.1, if_neg (hg'.1.separated rfl),
      finish_games he (g' :: r) hg'.2]
    simp

/-! ## `collapseWs` without fuel -/
theorem collapseWs_nil (f : Nat) : collapseWs f [] = [] := by
  cases f <;> rfl

theorem collapseWs_fuel : ∀ (n : Nat) (s : Str) (f1 f2 : Nat), s.length ≤ n → s.length ≤ f1 → s.length ≤ f2 →
    collapseWs f1 s = collapseWs f2 s := by
  intro n
  induction n with
  | zero =>
    intro s f1 f2 h _ _
    have : s = [] := List.length_eq_zero_iff.1 (by omega)
    subst this
    rw [collapseWs_nil, collapseWs_nil]
  | succ n ih =>
    intro s f1 f2 hn h1 h2
    cases s with
    | nil => rw [collapseWs_nil, collapseWs_nil]
    | cons c r =>
      simp only [List.length_cons] at hn h1 h2
      obtain ⟨g1, rfl⟩ : ∃ g, f1 = g + 1 := ⟨f1 - 1, by omega⟩
      obtain ⟨g2, rfl⟩ : ∃ g, f2 = g + 1 := ⟨f2 - 1, by omega⟩
      simp only [collapseWs]
      split
      · split
        · rename_i rest hrest
          have hl := congrArg List.length hrest
          simp only [List.length_drop, List.length_cons] at hl
          rw [ih rest g1 g2 (by omega) (by omega) (by omega)]
        · rw [ih r g1 g2 (by omega) (by omega) (by omega)]
      · have hd : (r.dropWhile isPbnWs).length ≤ r.length := (List.dropWhile_sublist _).length_le
        split
        · rw [ih _ g1 g2 (by omega) (by omega) (by omega)]
        · rw [ih r g1 g2 (by omega) (by omega) (by omega)]

/-- the collapse, with exactly enough fuel -/
def cw (s : Str) : Str := collapseWs s.length s

theorem collapseWs_eq_cw {f : Nat} {s : Str} (h : s.length ≤ f) : collapseWs f s = cw s :=
  collapseWs_fuel s.length s f s.length (Nat.le_refl _) h (Nat.le_refl _)

theorem cw_nil : cw [] = [] := rfl

theorem cw_cons_plain {c : Char} (hq : c ≠ '"') (hw : isPbnWs c = false) (r : Str) : cw (c :: r) = c :: cw r := by
  simp [cw, collapseWs, hq, hw]

theorem cw_cons_ws {c : Char} (hw : isPbnWs c = true) (r : Str) :
    cw (c :: r) = ' ' :: cw (r.dropWhile isPbnWs) := by
  have hq : c ≠ '"' := isPbnWs_ne hw (by decide)
  have hd : (r.dropWhile isPbnWs).length ≤ r.length := (List.dropWhile_sublist _).length_le
  simp [cw, collapseWs, hq, hw, collapseWs_eq_cw hd]

theorem takeWhile_append_stop {p : Char → Bool} {m : Str} (hm : ∀ x ∈ m, p x = true) {z : Char} (hz : p z = false)
    (r : Str) : (m ++ z :: r).takeWhile p = m := by
  induction m with
  | nil => simp [hz]
  | cons x m ih =>
    rw [List.cons_append, List.takeWhile_cons, if_pos (hm x (by simp)), ih fun y hy => hm y (by simp [hy])]

theorem cw_quote {v : Str} (hv : ∀ c ∈ v, c ≠ '"') (rest : Str) :
    cw ('"' :: (v ++ '"' :: rest)) = '"' :: (v ++ '"' :: cw rest) := by
  have ht : (v ++ '"' :: rest).takeWhile (fun c => decide (c ≠ '"')) = v :=
    takeWhile_append_stop (by simpa using hv) (by simp) rest
  have hl : rest.length ≤ (v ++ '"' :: rest).length := by simp; omega
  simp only [cw, List.length_cons, collapseWs, if_true, ht, List.drop_left]
  rw [collapseWs_eq_cw hl]
  rfl

theorem cw_append_plain {p : Str} (hp : ∀ c ∈ p, c ≠ '"' ∧ isPbnWs c = false) (r : Str) :
    cw (p ++ r) = p ++ cw r := by
  induction p with
  | nil => rfl
  | cons c p ih =>
    rw [List.cons_append, cw_cons_plain (hp c (by simp)).1 (hp c (by simp)).2, ih fun d hd => hp d (by simp [hd])]
    rfl

/-- one space in front of a visible character stays one space -/
theorem cw_space_before {c : Char} (hw : isPbnWs c = false) (r : Str) : cw (' ' :: c :: r) = ' ' :: cw (c :: r) := by
  rw [cw_cons_ws (by decide), List.dropWhile_cons_of_neg (by simp [hw])]

theorem cw_optSpace {c : Char} (hw : isPbnWs c = false) (b : Bool) (r : Str) :
    cw ((if b then [' '] else []) ++ c :: r) = (if b then [' '] else []) ++ cw (c :: r) := by
  cases b
  · rfl
  · exact cw_space_before hw r

theorem cw_chunk {n v : Str} (hn : validTagName n = true) (hv : ∀ c ∈ v, c ≠ '"') (so sc : Bool) (rest : Str) :
    cw (chunk n v so sc rest) = chunk n v so sc (cw rest) := by
  obtain ⟨c, m, rfl, hc, _, hm⟩ := validTagName_cases hn
  have hcl := isUpper_isLetter hc
  have hplain : ∀ d ∈ c :: m, d ≠ '"' ∧ isPbnWs d = false := by
    intro d hd
    have hdl : isLetter d = true := by
      rcases List.mem_cons.1 hd with rfl | hd
      · exact hcl
      · exact hm d hd
    exact ⟨isLetter_ne hdl (by decide), isLetter_notWs hdl⟩
  rw [chunk_eq, chunk_eq, cw_cons_plain (by decide) (by decide), List.cons_append (a := c) (as := m),
    cw_optSpace (isLetter_notWs hcl), ← List.cons_append (a := c) (as := m), cw_append_plain hplain, cw_space_before (by decide),
    cw_quote hv, cw_optSpace (by decide), cw_cons_plain (by decide) (by decide)]

end Bridge
