import BridgeVerif.Lemmas.RegexPbnA
import BridgeVerif.Lemmas.RegexPbnFacts
/-!
# The three patterns of `PbnParser`, anchored  (R11, part B)
-/
namespace Bridge.RegexPbn
open Bridge Bridge.Re

/-! ## the parsed patterns -/
def wsC : Re := .cls false [.ch ' ', .ch '\t', .ch '\r', .ch '\n']
def spC : Re := .cls false [.ch ' ']
def notqC : Re := .cls true [.ch '"']
def upC : Re := .cls false [.range 'A' 'Z']
def letC : Re := .cls false [.range 'a' 'z', .range 'A' 'Z']
def R7 : Re := .seq (.rep 0 (some 1) spC) (.lit ']')
def R6 : Re := .seq (.lit '"') R7
def R5 : Re := .seq (.group 2 (.rep 0 none notqC)) R6
def R4 : Re := .seq (.lit '"') R5
def R3 : Re := .seq (.lit ' ') R4
def R2 : Re := .seq (.group 1 (.seq upC (.rep 1 none letC))) R3
def R1 : Re := .seq (.rep 0 (some 1) spC) R2
def tagRe : Re := .seq (.lit '[') R1
def replRe : Re := .rep 1 none wsC
def vosRe : Re := .alt (.seq (.lit '"') (.seq (.rep 0 none notqC) (.lit '"'))) (.rep 1 none wsC)

theorem parse_repl : Re.parse REPLACE_PATTERN = some replRe := by decide +kernel
theorem parse_tag : Re.parse TAG_PATTERN = some tagRe := by decide +kernel
theorem parse_vos : Re.parse VALUE_OR_SPACE_PATTERN = some vosRe := by decide +kernel

/-! ## character tests -/
theorem charEq_false (c x : Char) : charEq false c x = (x == c) := by
  simp only [charEq, Bool.false_and, Bool.or_false]; exact BEq.comm
theorem ble_dec (a b : Nat) : Nat.ble a b = decide (a ≤ b) := by
  rw [Bool.eq_iff_iff]; simp [Nat.ble_eq]
theorem ct_sp (x : Char) : (classTest false x [.ch ' '] != false) = (x == ' ') := by
  simp [classTest, ClassItem.test, charEq_false]
theorem ct_notq (x : Char) : (classTest false x [.ch '"'] != true) = decide (x ≠ '"') := by
  by_cases h : x = '"' <;> simp [classTest, ClassItem.test, charEq_false, h]
theorem ct_ws (x : Char) : (classTest false x [.ch ' ', .ch '\t', .ch '\r', .ch '\n'] != false) = isPbnWs x := by
  simp [classTest, ClassItem.test, charEq_false, isPbnWs, Bool.or_assoc]
theorem ct_upper (x : Char) : (classTest false x [.range 'A' 'Z'] != false) = isUpper x := by
  simp [classTest, ClassItem.test, isUpper, Char.le_def, UInt32.le_iff_toNat_le, ble_dec]
theorem ct_letter (x : Char) : (classTest false x [.range 'a' 'z', .range 'A' 'Z'] != false) = isLetter x := by
  simp [classTest, ClassItem.test, isLetter, Char.le_def, UInt32.le_iff_toNat_le, Bool.or_comm, ble_dec]

/-! ## `den` step by step -/
theorem den_seq (a b : Re) (k : St → Re.Res St) (st : St) : den false (.seq a b) k st = den false a (den false b k) st := rfl
theorem den_lit_nil (c : Char) (k : St → Re.Res St) (pos : Nat) (caps : Caps) :
    den false (.lit c) k ⟨pos, [], caps⟩ = .fail := rfl
theorem den_lit_cons (c : Char) (k : St → Re.Res St) (pos : Nat) (x : Char) (xs : List Char) (caps : Caps) :
    den false (.lit c) k ⟨pos, x :: xs, caps⟩ = if x = c then k ⟨pos + 1, xs, caps⟩ else .fail := by
  simp [den, stepChar, charEq_false]
theorem den_cls_nil (neg : Bool) (items : List ClassItem) (k : St → Re.Res St) (pos : Nat) (caps : Caps) :
    den false (.cls neg items) k ⟨pos, [], caps⟩ = .fail := rfl
theorem den_cls_cons (neg : Bool) (items : List ClassItem) (k : St → Re.Res St) (pos : Nat) (x : Char) (xs : List Char)
    (caps : Caps) :
    den false (.cls neg items) k ⟨pos, x :: xs, caps⟩ =
      if (classTest false x items != neg) = true then k ⟨pos + 1, xs, caps⟩ else .fail := rfl
theorem den_rep_cls (mn : Nat) (mx : Option Nat) (neg : Bool) (items : List ClassItem) (k : St → Re.Res St) (pos : Nat)
    (rest : List Char) (caps : Caps) :
    den false (.rep mn mx (.cls neg items)) k ⟨pos, rest, caps⟩ =
      repDen (fun x => classTest false x items != neg) mn mx k caps 0 pos rest := rfl
theorem den_group (i : Nat) (r : Re) (k : St → Re.Res St) (st : St) :
    den false (.group i r) k st =
      den false r (fun st' => k { st' with caps := setCap st'.caps i (st.pos, st'.pos) }) st := rfl

/-! ## greedy star -/
def star (p : Char → Bool) (k : St → Re.Res St) (caps : Caps) : Nat → List Char → Re.Res St
  | pos, [] => k ⟨pos, [], caps⟩
  | pos, x :: xs =>
    if p x then orFail (star p k caps (pos + 1) xs) (k ⟨pos, x :: xs, caps⟩) else k ⟨pos, x :: xs, caps⟩

theorem repDen_star (p : Char → Bool) (mn : Nat) (k : St → Re.Res St) (caps : Caps) :
    ∀ (rest : List Char) (count pos : Nat), mn ≤ count →
      repDen p mn none k caps count pos rest = star p k caps pos rest := by
  intro rest
  induction rest with
  | nil => intro count pos h; simp [repDen, star, Nat.not_lt.mpr h]
  | cons x xs ih =>
    intro count pos h
    simp [repDen, star, Nat.not_lt.mpr h, mxOk, ih (count + 1) (pos + 1) (by omega)]

theorem repDen_plus (p : Char → Bool) (k : St → Re.Res St) (caps : Caps) (pos : Nat) (rest : List Char) :
    repDen p 1 none k caps 0 pos rest =
      match rest with
      | [] => .fail
      | x :: xs => if p x then star p k caps (pos + 1) xs else .fail := by
  cases rest <;> simp [repDen, repDen_star]

theorem repDen_opt (p : Char → Bool) (k : St → Re.Res St) (caps : Caps) (pos : Nat) (rest : List Char) :
    repDen p 0 (some 1) k caps 0 pos rest =
      match rest with
      | [] => k ⟨pos, [], caps⟩
      | x :: xs => if p x then orFail (k ⟨pos + 1, xs, caps⟩) (k ⟨pos, x :: xs, caps⟩) else k ⟨pos, x :: xs, caps⟩ := by
  cases rest with
  | nil => simp [repDen]
  | cons x xs => cases xs <;> simp [repDen, mxOk]

theorem st_pos_congr (k : St → Re.Res St) (a b : Nat) (r : List Char) (c : Caps) (h : a = b) :
    k ⟨a, r, c⟩ = k ⟨b, r, c⟩ := by rw [h]

theorem star_of_fail_on_p (p : Char → Bool) (k : St → Re.Res St) (caps : Caps)
    (hk : ∀ pos' x xs, p x = true → k ⟨pos', x :: xs, caps⟩ = .fail) :
    ∀ (rest : List Char) (pos : Nat),
      star p k caps pos rest = k ⟨pos + (rest.takeWhile p).length, rest.drop (rest.takeWhile p).length, caps⟩ := by
  intro rest
  induction rest with
  | nil => intro pos; simp [star]
  | cons x xs ih =>
    intro pos
    by_cases hp : p x = true
    · simp only [star, hp, if_true, List.takeWhile_cons, ih, hk pos x xs hp, orFail_self_fail, List.length_cons,
        List.drop_succ_cons]
      exact st_pos_congr k _ _ _ _ (by omega)
    · simp [star, hp, List.takeWhile_cons]

theorem orFail_of_ne (r a : Re.Res St) (h : r ≠ .fail) : orFail r a = r := by
  cases r <;> simp_all

theorem star_greedy (p : Char → Bool) (k : St → Re.Res St) (caps : Caps) :
    ∀ (rest : List Char) (pos : Nat),
      k ⟨pos + (rest.takeWhile p).length, rest.drop (rest.takeWhile p).length, caps⟩ ≠ .fail →
      star p k caps pos rest = k ⟨pos + (rest.takeWhile p).length, rest.drop (rest.takeWhile p).length, caps⟩ := by
  intro rest
  induction rest with
  | nil => intro pos _; simp [star]
  | cons x xs ih =>
    intro pos hne
    by_cases hp : p x = true
    · simp only [hp, if_true, List.takeWhile_cons, List.length_cons, List.drop_succ_cons] at hne
      have e : pos + ((xs.takeWhile p).length + 1) = pos + 1 + (xs.takeWhile p).length := by omega
      rw [e] at hne
      simp only [star, hp, if_true, List.takeWhile_cons, List.length_cons, List.drop_succ_cons, e]
      rw [ih (pos + 1) hne]
      exact orFail_of_ne _ _ hne
    · simp [star, hp, List.takeWhile_cons]


/-! ## pattern 1 : `[ \t\r\n]+` under `fullmatch` -/
theorem drop_takeWhile_isEmpty (p : Char → Bool) (xs : List Char) :
    (xs.drop (xs.takeWhile p).length).isEmpty = xs.all p := by
  induction xs with
  | nil => rfl
  | cons x xs ih => by_cases hp : p x = true <;> simp [List.takeWhile_cons, hp, ih]

theorem repl_anchored (l : Str) (fuel : Nat) (hf : replRe.size + l.length ≤ fuel) :
    (resToOpt (matchCore false replRe fuel 0 l true false)).map Option.isSome = some (semiEmpty l) := by
  rw [matchCore_eq_den false replRe rfl fuel 0 l true false hf]
  have hk : ∀ pos' x xs, isPbnWs x = true → kfin 0 true false ⟨pos', x :: xs, []⟩ = .fail := by
    intro pos' x xs _; simp [kfin]
  show (resToOpt (match den false (.rep 1 none (.cls false [.ch ' ', .ch '\t', .ch '\r', .ch '\n'])) (kfin 0 true false)
    ⟨0, l, []⟩ with
      | .ok st => .ok { span := (0, st.pos), groups := st.caps }
      | .fail => .fail
      | .oof => .oof : Re.Res MatchObj)).map Option.isSome = some (semiEmpty l)
  simp only [den_rep_cls, ct_ws, repDen_plus]
  cases l with
  | nil => simp [semiEmpty, resToOpt]
  | cons x xs =>
    by_cases hx : isPbnWs x = true
    · simp only [hx, if_true]
      rw [star_of_fail_on_p isPbnWs _ [] hk]
      have e := drop_takeWhile_isEmpty isPbnWs xs
      by_cases ha : xs.all isPbnWs = true
      · rw [ha] at e
        simp [kfin, e, semiEmpty, hx, resToOpt]
        simpa using ha
      · have ha' : xs.all isPbnWs = false := by simpa using ha
        rw [ha'] at e
        simp [kfin, e, semiEmpty, hx, resToOpt]
        simpa using ha'
    · simp [hx, semiEmpty, resToOpt]

end Bridge.RegexPbn
